import EsbuildModel.Lemmas.JsonMono2
import EsbuildModel.Lemmas.JsonSkip
/-
Soundness of `skipSep`: what it skipped without logging an error is a well-formed separator of the flavour's dialect.
-/
namespace EsbuildModel.Json
open EsbuildModel.Spec.Json

/-- what a successful, error-free run of `skipSep` in mode `m` means -/
def SkipPost (fl : Flavor) (m : SMode) (l : List Cp) (sk sk' : Sk) (l' : List Cp) : Prop :=
  match m with
  | .top => ∃ s : List SepItem, chars l = Sep.render s ++ chars l' ∧
      Sep.ok (dialectOf fl) l'.isEmpty sk.nl s = true ∧ sk'.nl = (sk.nl || sepNl s)
  | .line cs => (cs.isSome = true → fl = .tsconfig) ∧ ∃ (b : List Char) (s : List SepItem),
      chars l = b ++ (Sep.render s ++ chars l') ∧ b.any isLT = false ∧ lineEndOk l'.isEmpty s = true ∧
      Sep.ok (dialectOf fl) l'.isEmpty sk.nl s = true ∧ sk'.nl = (sk.nl || sepNl s)
  | .block _ => fl = .tsconfig ∧ ∃ (b : List Char) (s : List SepItem),
      chars l = b ++ ('*' :: '/' :: (Sep.render s ++ chars l')) ∧ hasStarSlash b = false ∧
      Sep.ok (dialectOf fl) l'.isEmpty (sk.nl || b.any isLT) s = true ∧ sk'.nl = (sk.nl || b.any isLT || sepNl s)
  | .star _ => fl = .tsconfig ∧ ∃ (b : List Char) (s : List SepItem),
      '*' :: chars l = b ++ ('*' :: '/' :: (Sep.render s ++ chars l')) ∧ hasStarSlash b = false ∧
      Sep.ok (dialectOf fl) l'.isEmpty (sk.nl || b.any isLT) s = true ∧ sk'.nl = (sk.nl || b.any isLT || sepNl s)

theorem noErr_of_le {a b : Log} (h : a.le b) (hb : b.hasErrors = false) : a.hasErrors = false := by
  cases ha : a.hasErrors with
  | false => rfl
  | true => rw [h ha] at hb; cases hb

theorem commentError_clean {fl : Flavor} {log : Log} {p : Nat} (hc : log.Clean)
    (hne : (commentError fl log p).hasErrors = false) : fl = .tsconfig ∧ commentError fl log p = log := by
  cases fl with
  | json =>
    simp only [commentError, if_true] at hne
    rw [Log.rangeError_hasErrors_of_clean hc] at hne; cases hne
  | tsconfig => exact ⟨rfl, rfl⟩

theorem lineEnd_clean' {fl : Flavor} {log : Log} {cs : Option Nat} (hc : log.Clean)
    (hne : (lineEnd fl log cs).hasErrors = false) : (cs.isSome = true → fl = .tsconfig) ∧ lineEnd fl log cs = log := by
  cases cs with
  | none => exact ⟨by simp, rfl⟩
  | some p =>
    obtain ⟨h1, h2⟩ := commentError_clean (p := p) hc hne
    exact ⟨fun _ => h1, h2⟩

theorem newline_ws (fl : Flavor) {c : Char} (h : isNewline c = true) :
    (isRfcWs c || (dialectOf fl).extraWs c) = true ∧ isLT c = true := by
  rw [dialect_extraWs, isLT_eq]
  refine ⟨?_, h⟩
  simp only [isNewline, Bool.or_eq_true, beq_iff_eq] at h
  simp only [isRfcWs, jsExtraWs, Bool.or_eq_true, beq_iff_eq, Bool.and_eq_true, decide_eq_true_eq]
  rcases h with ((h | h) | h) | h
  · left; right; exact h
  · left; left; right; exact h
  · right; left; right; exact h
  · right; right; exact h

theorem space_ws (fl : Flavor) {c : Char} (hn : isNewline c = false) (h : (c = '\t' ∨ c = ' ') ∨ isWhitespace c = true) :
    (isRfcWs c || (dialectOf fl).extraWs c) = true ∧ isLT c = false := by
  rw [dialect_extraWs, isLT_eq]
  refine ⟨?_, hn⟩
  rcases h with (h | h) | h
  · subst h; decide
  · subst h; decide
  · simp only [isWhitespace, Bool.or_eq_true, beq_iff_eq, Bool.and_eq_true, decide_eq_true_eq] at h
    simp only [isRfcWs, jsExtraWs, Bool.or_eq_true, beq_iff_eq, Bool.and_eq_true, decide_eq_true_eq]
    have h9 : c.toNat = 9 → c = '\t' := fun h => Char.toNat_inj.mp (by simpa using h)
    have h32 : c.toNat = 32 → c = ' ' := fun h => Char.toNat_inj.mp (by simpa using h)
    by_cases e9 : c.toNat = 9
    · left; left; left; right; exact h9 e9
    · by_cases e32 : c.toNat = 32
      · left; left; left; left; exact h32 e32
      · right; omega

theorem sepok_ws {d : Dialect} {fin nl : Bool} {c : Char} {s : List SepItem} (hw : (isRfcWs c || d.extraWs c) = true)
    (h : Sep.ok d fin (nl || isLT c) s = true) : Sep.ok d fin nl (.ws c :: s) = true := by
  simp only [Sep.ok, hw, h, Bool.and_self]

theorem skipSep_sound (fl : Flavor) : ∀ (n : Nat) (m : SMode) (l : List Cp) (sk sk' : Sk) (l' : List Cp),
    l.length ≤ n → skipSep fl m l sk = .ok (sk', l') → sk.log.Clean → sk'.log.hasErrors = false →
    sk'.log.Clean ∧ SkipPost fl m l sk sk' l' := by
  intro n
  induction n with
  | zero =>
    intro m l sk sk' l' hlen h hcl hne
    have : l = [] := by cases l <;> simp_all
    subst this
    cases m with
    | top =>
      simp only [skipSep, R.ok.injEq, Prod.mk.injEq] at h
      obtain ⟨rfl, rfl⟩ := h
      exact ⟨hcl, [], by simp, by simp [Sep.ok], by simp [sepNl]⟩
    | line cs =>
      simp only [skipSep, R.ok.injEq, Prod.mk.injEq] at h
      obtain ⟨rfl, rfl⟩ := h
      obtain ⟨h1, h2⟩ := lineEnd_clean' hcl hne
      simp only [h2]
      exact ⟨hcl, h1, [], [], by simp, by simp, by simp [lineEndOk], by simp [Sep.ok], by simp [sepNl]⟩
    | block cs => simp [skipSep] at h
    | star cs => simp [skipSep] at h
  | succ n ih =>
    intro m l sk sk' l' hlen h hcl hne
    cases l with
    | nil => exact ih m [] sk sk' l' (by simp) h hcl hne
    | cons c r =>
      have hr : r.length ≤ n := by simpa using hlen
      cases m with
      | line cs =>
        simp only [skipSep] at h
        by_cases hn : isNewline c.c = true
        · rw [if_pos hn] at h
          have hne1 := noErr_of_le (skipSep_log_le fl .top r _ sk' l' h) hne
          obtain ⟨h1, h2⟩ := lineEnd_clean' hcl hne1
          rw [h2] at h
          obtain ⟨k1, s, k2, k3, k4⟩ := ih .top r _ sk' l' hr h hcl hne
          obtain ⟨w1, w2⟩ := newline_ws fl hn
          refine ⟨k1, h1, [], .ws c.c :: s, by simp [SepItem.render, k2], by simp, by simp [lineEndOk, w2], ?_, ?_⟩
          · apply sepok_ws w1; rw [w2, Bool.or_true]; exact k3
          · simp only at k4; rw [k4]; simp [sepNl, w2]
        · rw [if_neg hn] at h
          obtain ⟨k1, k0, b, s, k2, k3, k4, k5, k6⟩ := ih (.line cs) r _ sk' l' hr h hcl hne
          have hlt : isLT c.c = false := by rw [isLT_eq]; simpa using hn
          exact ⟨k1, k0, c.c :: b, s, by simp [k2], by simp [hlt, k3], k4, k5, k6⟩
      | block cs =>
        simp only [skipSep] at h
        by_cases hs : c.c = '*'
        · rw [if_pos hs] at h
          obtain ⟨k1, k0, b, s, k2, k3, k4, k5⟩ := ih (.star cs) r _ sk' l' hr h hcl hne
          exact ⟨k1, k0, b, s, by simp only [chars_cons, hs]; exact k2, k3, k4, k5⟩
        · rw [if_neg hs] at h
          by_cases hn : isNewline c.c = true
          · rw [if_pos hn] at h
            obtain ⟨k1, k0, b, s, k2, k3, k4, k5⟩ := ih (.block cs) r _ sk' l' hr h hcl hne
            have hlt : isLT c.c = true := by rw [isLT_eq]; exact hn
            refine ⟨k1, k0, c.c :: b, s, by simp [k2], ?_, ?_, ?_⟩
            · cases b <;> simp [hasStarSlash, hs, k3] <;> simp_all [hasStarSlash]
            · simpa [hlt] using k4
            · simpa [hlt] using k5
          · rw [if_neg hn] at h
            obtain ⟨k1, k0, b, s, k2, k3, k4, k5⟩ := ih (.block cs) r _ sk' l' hr h hcl hne
            have hlt : isLT c.c = false := by rw [isLT_eq]; simpa using hn
            refine ⟨k1, k0, c.c :: b, s, by simp [k2], ?_, ?_, ?_⟩
            · cases b <;> simp [hasStarSlash, hs, k3] <;> simp_all [hasStarSlash]
            · simpa [hlt] using k4
            · simpa [hlt] using k5
      | star cs =>
        simp only [skipSep] at h
        by_cases hsl : c.c = '/'
        · rw [if_pos hsl] at h
          have hne1 := noErr_of_le (skipSep_log_le fl .top r _ sk' l' h) hne
          obtain ⟨h1, h2⟩ := commentError_clean hcl hne1
          rw [h2] at h
          obtain ⟨k1, s, k2, k3, k4⟩ := ih .top r _ sk' l' hr h hcl hne
          exact ⟨k1, h1, [], s, by simp [hsl, k2], rfl, by simpa using k3, by simpa using k4⟩
        · rw [if_neg hsl] at h
          by_cases hs : c.c = '*'
          · rw [if_pos hs] at h
            obtain ⟨k1, k0, b, s, k2, k3, k4, k5⟩ := ih (.star cs) r _ sk' l' hr h hcl hne
            refine ⟨k1, k0, '*' :: b, s, by simp only [chars_cons, hs, List.cons_append]; rw [k2], ?_, ?_, ?_⟩
            · cases b with
              | nil => rfl
              | cons x b' =>
                simp only [List.cons_append, List.cons.injEq] at k2
                simp only [hasStarSlash, Bool.or_eq_false_iff, Bool.and_eq_false_iff, beq_eq_false_iff_ne, ne_eq]
                refine ⟨Or.inr ?_, k3⟩
                rw [← k2.1]; decide
            · simpa [isLT] using k4
            · simpa [isLT] using k5
          · rw [if_neg hs] at h
            have hstep : ∀ (nl' : Bool), (nl' = (sk.nl || isLT c.c)) →
                skipSep fl (.block cs) r { sk with pos := sk.pos + c.w, nl := nl' } = .ok (sk', l') →
                sk'.log.Clean ∧ SkipPost fl (.star cs) (c :: r) sk sk' l' := by
              intro nl' hnl h
              obtain ⟨k1, k0, b, s, k2, k3, k4, k5⟩ := ih (.block cs) r _ sk' l' hr h hcl hne
              refine ⟨k1, k0, '*' :: c.c :: b, s, by simp [k2], ?_, ?_, ?_⟩
              · cases b <;> simp [hasStarSlash, hs, hsl, k3] <;> simp_all [hasStarSlash]
              · simp only at k4; rw [hnl] at k4; simpa [isLT, Bool.or_assoc] using k4
              · simp only at k5; rw [hnl] at k5; simpa [isLT, Bool.or_assoc] using k5
            by_cases hn : isNewline c.c = true
            · rw [if_pos hn] at h
              exact hstep true (by rw [isLT_eq, hn, Bool.or_true]) h
            · rw [if_neg hn] at h
              have hlt : isLT c.c = false := by rw [isLT_eq]; simpa using hn
              exact hstep sk.nl (by rw [hlt, Bool.or_false]) h
      | top =>
        have hstop : ∀ {x : R (Sk × List Cp)}, x = .ok (sk, c :: r) → x = .ok (sk', l') →
            sk'.log.Clean ∧ SkipPost fl .top (c :: r) sk sk' l' := by
          intro x hx hx'
          rw [hx] at hx'
          simp only [R.ok.injEq, Prod.mk.injEq] at hx'
          obtain ⟨rfl, rfl⟩ := hx'
          exact ⟨hcl, [], by simp, by simp [Sep.ok], by simp [sepNl]⟩
        have hws : ∀ (nl' : Bool), isNewline c.c = true ∨ ((c.c = '\t' ∨ c.c = ' ') ∨ isWhitespace c.c = true) →
            nl' = (sk.nl || isLT c.c) →
            skipSep fl .top r { sk with pos := sk.pos + c.w, nl := nl' } = .ok (sk', l') →
            sk'.log.Clean ∧ SkipPost fl .top (c :: r) sk sk' l' := by
          intro nl' hw hnl h
          obtain ⟨k1, s, k2, k3, k4⟩ := ih .top r _ sk' l' hr h hcl hne
          have w1 : (isRfcWs c.c || (dialectOf fl).extraWs c.c) = true := by
            rcases hw with hw | hw
            · exact (newline_ws fl hw).1
            · by_cases hn : isNewline c.c = true
              · exact (newline_ws fl hn).1
              · exact (space_ws fl (by simpa using hn) hw).1
          refine ⟨k1, .ws c.c :: s, by simp [SepItem.render, k2], ?_, ?_⟩
          · apply sepok_ws w1; simp only at k3; rw [hnl] at k3; exact k3
          · simp only at k4; rw [k4, hnl]; simp [sepNl, Bool.or_assoc]
        rw [skipSep_top_cons] at h
        by_cases hn : isNewline c.c = true
        · rw [if_pos hn] at h
          exact hws true (Or.inl hn) (by rw [(newline_ws fl hn).2, Bool.or_true]) h
        rw [if_neg hn] at h
        have hlt : isLT c.c = false := by rw [isLT_eq]; simpa using hn
        by_cases hts : c.c = '\t' ∨ c.c = ' '
        · rw [if_pos hts] at h
          exact hws sk.nl (Or.inr (Or.inl hts)) (by rw [hlt, Bool.or_false]) h
        rw [if_neg hts] at h
        by_cases hsl : c.c = '/'
        · rw [if_pos hsl] at h
          cases r with
          | nil => exact hstop rfl h
          | cons d r' =>
            have hr' : r'.length ≤ n := by simp only [List.length_cons] at hr; omega
            simp only at h
            by_cases h1 : d.c = '/'
            · rw [if_pos h1] at h
              obtain ⟨k1, k0, b, s, k2, k3, k4, k5, k6⟩ := ih (.line (some sk.pos)) r' _ sk' l' hr' h hcl hne
              have hts' := k0 rfl
              refine ⟨k1, .line b :: s, by simp [SepItem.render, hsl, h1, k2], ?_, ?_⟩
              · simp only [Sep.ok, Bool.and_eq_true, Bool.not_eq_true']
                refine ⟨⟨⟨?_, k3⟩, k4⟩, k5⟩
                rw [hts']; rfl
              · simp only at k6; rw [k6]; simp [sepNl]
            · rw [if_neg h1] at h
              by_cases h2 : d.c = '*'
              · rw [if_pos h2] at h
                obtain ⟨k1, k0, b, s, k2, k3, k4, k5⟩ := ih (.block sk.pos) r' _ sk' l' hr' h hcl hne
                refine ⟨k1, .block b :: s, by simp [SepItem.render, hsl, h2, k2], ?_, ?_⟩
                · simp only [Sep.ok, Bool.and_eq_true, Bool.not_eq_true']
                  refine ⟨⟨?_, k3⟩, k4⟩
                  rw [k0]; rfl
                · simp only at k5; rw [k5]; simp [sepNl, Bool.or_assoc]
              · rw [if_neg h2] at h
                exact hstop rfl h
        rw [if_neg hsl] at h
        by_cases hlt' : c.c = '<'
        · rw [if_pos hlt'] at h
          rcases r with _ | ⟨d, _ | ⟨e, _ | ⟨f, r'⟩⟩⟩
          · exact hstop rfl h
          · exact hstop rfl h
          · exact hstop rfl h
          · have hr' : r'.length ≤ n := by simp only [List.length_cons] at hr; omega
            simp only at h
            by_cases h1 : d.c = '!' ∧ e.c = '-' ∧ f.c = '-'
            · rw [if_pos h1] at h
              obtain ⟨k1, k0, b, s, k2, k3, k4, k5, k6⟩ := ih (.line none) r' _ sk' l' hr' h (Log.clean_warn hcl _) hne
              refine ⟨k1, .htmlOpen b :: s, by simp [SepItem.render, hlt', h1.1, h1.2.1, h1.2.2, k2], ?_, ?_⟩
              · simp only [Sep.ok, Bool.and_eq_true, Bool.not_eq_true']
                exact ⟨⟨⟨dialect_html fl, k3⟩, k4⟩, k5⟩
              · simp only at k6; rw [k6]; simp [sepNl]
            · rw [if_neg h1] at h
              exact hstop rfl h
        rw [if_neg hlt'] at h
        by_cases hmi : c.c = '-'
        · rw [if_pos hmi] at h
          rcases r with _ | ⟨d, _ | ⟨e, r'⟩⟩
          · exact hstop rfl h
          · exact hstop rfl h
          · have hr' : r'.length ≤ n := by simp only [List.length_cons] at hr; omega
            simp only at h
            by_cases h1 : d.c = '-' ∧ e.c = '>' ∧ sk.nl = true
            · rw [if_pos h1] at h
              obtain ⟨k1, k0, b, s, k2, k3, k4, k5, k6⟩ := ih (.line none) r' _ sk' l' hr' h (Log.clean_warn hcl _) hne
              refine ⟨k1, .htmlClose b :: s, by simp [SepItem.render, hmi, h1.1, h1.2.1, k2], ?_, ?_⟩
              · simp only [Sep.ok, Bool.and_eq_true, Bool.not_eq_true']
                exact ⟨⟨⟨⟨dialect_html fl, h1.2.2⟩, k3⟩, k4⟩, k5⟩
              · simp only at k6; rw [k6]; simp [sepNl]
            · rw [if_neg h1] at h
              exact hstop rfl h
        rw [if_neg hmi] at h
        by_cases hw : isWhitespace c.c = true
        · rw [if_pos hw] at h
          exact hws sk.nl (Or.inr (Or.inr hw)) (by rw [hlt, Bool.or_false]) h
        · rw [if_neg hw] at h
          exact hstop rfl h

end EsbuildModel.Json
