import EsbuildModel.Lemmas.ScopesConn
import EsbuildModel.Lemmas.ScopesParse
/-!
The parse pass and links: a link is only ever set on a symbol that has none (so symbols joined once stay joined), and
every declaration stays joined to the member its scope has for the name.
-/
namespace EsbuildModel.Scopes

theorem linkOf_setKind (a : Syms) (i j : Nat) (k : SK) : linkOf (setKind a i k) j = linkOf a j := by
  unfold setKind
  by_cases h : i = j
  · subst h; rw [linkOf_modify_self]; simp [linkOf]
  · exact linkOf_modify_other _ _ h

theorem linkOf_pin (a : Syms) (i j : Nat) : linkOf (pin a i) j = linkOf a j := by
  unfold Scopes.pin
  by_cases h : i = j
  · subst h; rw [linkOf_modify_self]; simp [linkOf]
  · exact linkOf_modify_other _ _ h

theorem linkOf_setLink_other (a : Syms) (i j : Nat) (l : Option Nat) (h : i ≠ j) : linkOf (setLink a i l) j = linkOf a j := by
  unfold Scopes.setLink; exact linkOf_modify_other _ _ h

theorem canMerge_overwrite {sk : ScK} {ek nk : SK} (h : canMergeSymbols sk ek nk = .overwriteWithNew) : ek = .arguments := by
  unfold canMergeSymbols at h
  repeat' (split at h)
  all_goals first | (cases h; done) | skip
  next hc => exact hc.1

/-- every member is a symbol whose name is its key -/
def MemNames (syms : Syms) (m : Members) : Prop := ∀ n r, lookup n m = some r → ∃ s, syms[r]? = some s ∧ s.name = n

theorem forall_lookup_insert {P : Nat → Prop} {n r : Nat} {ms : Members}
    (h1 : ∀ n' m, n' ≠ n → lookup n' ms = some m → P m) (h2 : P r) :
    ∀ n' m, lookup n' (insert n r ms) = some m → P m := by
  intro n' m hm
  by_cases hn : n' = n
  · subst hn; rw [lookup_insert_self] at hm; cases hm; exact h2
  · rw [lookup_insert_ne hn] at hm; exact h1 n' m hn hm

/-- declareSymbol: what happens to links and to the member of the name -/
theorem declareSymbol_conn {cur cur' : Frame} {st st' : PSt} {k : SK} {n : Name} {r : Nat}
    (h : declareSymbol cur st k n = some (cur', st', r))
    (hb : ∀ m, m ∈ refsOf cur.members → m < st.syms.length)
    (hnm : MemNames st.syms cur.members)
    (hunl : ∀ n' m, lookup n' cur.members = some m → linkOf st.syms m = none) :
    -- links of old symbols that are not members of the scope are untouched
    (∀ x, x < st.syms.length → x ∉ refsOf cur.members → linkOf st'.syms x = linkOf st.syms x) ∧
    LinksKept st.syms st'.syms ∧
    -- an error, or the returned symbol is (joined to) the member, and every old member stays joined to the new one
    ((st'.errs ≠ st.errs ∧ cur' = cur ∧ st'.syms = st.syms ++ [⟨k, n, none, false⟩]) ∨
      ((∃ m, lookup n cur'.members = some m ∧ Conn st'.syms r m) ∧
       (∀ n' m, lookup n' cur.members = some m →
          ∃ m', lookup n' cur'.members = some m' ∧ (Conn st'.syms m m' ∨ kindOf? st.syms m = some .arguments)) ∧
       (∀ n' m, lookup n' cur'.members = some m → linkOf st'.syms m = none))) := by
  unfold declareSymbol at h
  simp only [newSymbol] at h
  have hnew : linkOf (st.syms ++ [⟨k, n, none, false⟩]) st.syms.length = none := linkOf_new _ _ _
  have hold : ∀ x, x < st.syms.length → linkOf (st.syms ++ [⟨k, n, none, false⟩]) x = linkOf st.syms x :=
    fun x hx => linkOf_append_old _ _ _ hx
  have hk1 : LinksKept st.syms (st.syms ++ [⟨k, n, none, false⟩]) := LinksKept.append _ _
  split at h
  · next hl =>
    cases h
    refine ⟨fun x hx _ => hold x hx, hk1, Or.inr ⟨⟨st.syms.length, lookup_insert_self _ _ _, .refl _⟩, ?_, ?_⟩⟩
    · intro n' m hm
      by_cases hn : n' = n
      · subst hn; rw [hl] at hm; cases hm
      · exact ⟨m, by rw [lookup_insert_ne hn]; exact hm, Or.inl (.refl _)⟩
    · exact forall_lookup_insert (fun n' m _ hm => by
        rw [hold m (hb m (lookup_mem_refsOf hm))]; exact hunl n' m hm) hnew
  · next existing hex =>
    have hexm : existing ∈ refsOf cur.members := lookup_mem_refsOf hex
    have hexlt := hb existing hexm
    split at h
    · cases h
    · next ek hek =>
      split at h <;> cases h
      · -- forbidden
        exact ⟨fun x hx _ => hold x hx, hk1, Or.inl ⟨by simp, rfl, rfl⟩⟩
      · -- keepExisting
        refine ⟨fun x hx _ => hold x hx, hk1, Or.inr ⟨⟨r, by rw [insert_same hex]; exact hex, .refl _⟩, ?_, ?_⟩⟩
        · intro n' m hm
          exact ⟨m, by rw [insert_same hex]; exact hm, Or.inl (.refl _)⟩
        · intro n' m hm
          rw [insert_same hex] at hm
          rw [hold m (hb m (lookup_mem_refsOf hm))]; exact hunl n' m hm
      · -- replaceWithNew
        have hexn : linkOf (st.syms ++ [⟨k, n, none, false⟩]) existing = none := by rw [hold _ hexlt]; exact hunl _ _ hex
        have hk2 : LinksKept (st.syms ++ [⟨k, n, none, false⟩])
            (setLink (st.syms ++ [⟨k, n, none, false⟩]) existing (some st.syms.length)) := LinksKept.setLink _ _ _ hexn
        have hlk : linkOf (setLink (st.syms ++ [⟨k, n, none, false⟩]) existing (some st.syms.length)) existing
            = some st.syms.length := linkOf_setLink_self _ _ _ (by simp; omega)
        refine ⟨?_, hk1.trans hk2, Or.inr ⟨⟨st.syms.length, lookup_insert_self _ _ _, .refl _⟩, ?_, ?_⟩⟩
        · intro x hx hxm
          have : existing ≠ x := fun he => hxm (he ▸ hexm)
          rw [linkOf_setLink_other _ _ _ _ this]; exact hold x hx
        · intro n' m hm
          by_cases hn : n' = n
          · subst hn
            rw [hex] at hm; cases hm
            exact ⟨st.syms.length, lookup_insert_self _ _ _, Or.inl (.link hlk)⟩
          · exact ⟨m, by rw [lookup_insert_ne hn]; exact hm, Or.inl (.refl _)⟩
        · refine forall_lookup_insert (fun n' m hn hm => ?_) ?_
          · have he : existing ≠ m := by
              intro he; subst he
              obtain ⟨s1, hs1, hn1⟩ := hnm _ _ hex
              obtain ⟨s2, hs2, hn2⟩ := hnm _ _ hm
              rw [hs1] at hs2; cases hs2; exact hn (hn2 ▸ hn1 ▸ rfl)
            rw [linkOf_setLink_other _ _ _ _ he, hold m (hb m (lookup_mem_refsOf hm))]; exact hunl n' m hm
          · rw [linkOf_setLink_other _ _ _ _ (by omega)]; exact hnew
      · -- becomePrivateGetSetPair
        refine ⟨fun x hx _ => by rw [linkOf_setKind]; exact hold x hx,
          hk1.trans (fun i l hl => by rw [linkOf_setKind]; exact hl),
          Or.inr ⟨⟨r, by rw [insert_same hex]; exact hex, .refl _⟩, ?_, ?_⟩⟩
        · intro n' m hm
          exact ⟨m, by rw [insert_same hex]; exact hm, Or.inl (.refl _)⟩
        · intro n' m hm
          rw [insert_same hex] at hm
          rw [linkOf_setKind, hold m (hb m (lookup_mem_refsOf hm))]; exact hunl n' m hm
      · refine ⟨fun x hx _ => by rw [linkOf_setKind]; exact hold x hx,
          hk1.trans (fun i l hl => by rw [linkOf_setKind]; exact hl),
          Or.inr ⟨⟨r, by rw [insert_same hex]; exact hex, .refl _⟩, ?_, ?_⟩⟩
        · intro n' m hm
          exact ⟨m, by rw [insert_same hex]; exact hm, Or.inl (.refl _)⟩
        · intro n' m hm
          rw [insert_same hex] at hm
          rw [linkOf_setKind, hold m (hb m (lookup_mem_refsOf hm))]; exact hunl n' m hm
      · -- overwriteWithNew: the old member ("arguments") is dropped without a link
        refine ⟨fun x hx _ => hold x hx, hk1, Or.inr ⟨⟨st.syms.length, lookup_insert_self _ _ _, .refl _⟩, ?_, ?_⟩⟩
        · intro n' m hm
          by_cases hn : n' = n
          · subst hn
            rw [hex] at hm; cases hm
            refine ⟨st.syms.length, lookup_insert_self _ _ _, Or.inr ?_⟩
            have := canMerge_overwrite ‹_›
            subst this
            simpa [kindOf?, List.getElem?_append_left hexlt] using hek
          · exact ⟨m, by rw [lookup_insert_ne hn]; exact hm, Or.inl (.refl _)⟩
        · exact forall_lookup_insert (fun n' m _ hm => by
            rw [hold m (hb m (lookup_mem_refsOf hm))]; exact hunl n' m hm) hnew

theorem declareSymbol_unl {cur cur' : Frame} {st st' : PSt} {k : SK} {n : Name} {r : Nat}
    (h : declareSymbol cur st k n = some (cur', st', r))
    (hb : ∀ m, m ∈ refsOf cur.members → m < st.syms.length)
    (hnm : MemNames st.syms cur.members)
    (hunl : ∀ n' m, lookup n' cur.members = some m → linkOf st.syms m = none) :
    ∀ n' m, lookup n' cur'.members = some m → linkOf st'.syms m = none := by
  rcases (declareSymbol_conn h hb hnm hunl).2.2 with ⟨_, h2, h3⟩ | ⟨_, _, h3⟩
  · intro n' m hm
    rw [h2] at hm
    rw [h3, linkOf_append_old _ _ _ (hb m (lookup_mem_refsOf hm))]; exact hunl n' m hm
  · exact h3

def keys (m : Members) : List Name := m.map (·.1)

theorem keys_insert (n r : Nat) : ∀ (m : Members), keys (insert n r m) = if n ∈ keys m then keys m else keys m ++ [n]
  | [] => by simp [insert, keys]
  | (k, v) :: rest => by
    simp only [insert]
    by_cases h : k = n
    · subst h; simp [keys]
    · have ih := keys_insert n r rest
      have h' : ¬ n = k := fun e => h e.symm
      simp only [keys, List.map_cons, List.mem_cons, h, h', if_false, false_or] at ih ⊢
      rw [ih]; split <;> simp_all

theorem nodup_insert {n r : Nat} {m : Members} (h : (keys m).Nodup) : (keys (insert n r m)).Nodup := by
  rw [keys_insert]
  split
  · exact h
  · next hn => exact List.nodup_append.mpr ⟨h, by simp, by intro a ha b hb; simp at hb; subst hb; intro e; subst e; exact hn ha⟩

theorem lookup_some_key {n r : Nat} : ∀ {m : Members}, lookup n m = some r → n ∈ keys m
  | [], h => by simp [lookup] at h
  | (k, v) :: rest, h => by
    simp only [lookup] at h
    split at h
    · next hk => subst hk; simp [keys]
    · have := lookup_some_key h; simp only [keys, List.map_cons, List.mem_cons] at this ⊢; exact Or.inr this

theorem copyArgs_keys {syms : Syms} : ∀ {m m' : Members}, copyArgs syms m = some m' → (keys m').Sublist (keys m)
  | [], m', h => by simp [copyArgs] at h; subst h; exact List.Sublist.refl _
  | (n, r) :: rest, m', h => by
    simp only [copyArgs] at h
    split at h
    · next k m hk hm =>
      have ih := copyArgs_keys hm
      split at h <;> cases h
      · exact List.Sublist.cons _ ih
      · exact List.Sublist.cons_cons _ ih
    · cases h

/-- a copied member is a member of the argument scope -/
theorem copyArgs_lookup {syms : Syms} {n r : Nat} : ∀ {m m' : Members}, copyArgs syms m = some m' → (keys m).Nodup →
    lookup n m' = some r → lookup n m = some r
  | [], m', h, _, hl => by simp [copyArgs] at h; subst h; simp [lookup] at hl
  | (k, v) :: rest, m', h, hnd, hl => by
    simp only [copyArgs] at h
    have hnd' : (keys rest).Nodup ∧ k ∉ keys rest := by
      simp only [keys, List.map_cons, List.nodup_cons] at hnd ⊢; exact ⟨hnd.2, hnd.1⟩
    split at h
    · next kk m hk hm =>
      split at h <;> cases h
      · have := copyArgs_lookup hm hnd'.1 hl
        have hne : k ≠ n := fun e => hnd'.2 (e ▸ lookup_some_key this)
        simp [lookup, hne, this]
      · simp only [lookup] at hl ⊢
        split
        · next hk => simpa [hk] using hl
        · next hk => simp only [hk, if_false] at hl; exact copyArgs_lookup hm hnd'.1 hl
    · cases h

/-- every member of the argument scope that is not a function is copied -/
theorem copyArgs_copied {syms : Syms} {n r : Nat} : ∀ {m m' : Members}, copyArgs syms m = some m' →
    lookup n m = some r → kindOf? syms r ≠ some .hoistedFunction → lookup n m' = some r
  | [], m', _, hl, _ => by simp [lookup] at hl
  | (k, v) :: rest, m', h, hl, hk => by
    simp only [copyArgs] at h
    split at h
    · next kk m hkk hm =>
      simp only [lookup] at hl
      by_cases hkn : k = n
      · simp only [hkn, if_true] at hl; cases hl
        split at h <;> cases h
        · next hf => subst hf; exact absurd hkk hk
        · simp [lookup, hkn]
      · simp only [hkn, if_false] at hl
        have ih := copyArgs_copied hm hl hk
        split at h <;> cases h
        · exact ih
        · simp [lookup, hkn, ih]
    · cases h

/-- the only symbols of kind "arguments" are called `arguments`, and no symbol is unbound -/
def ArgsName (syms : Syms) : Prop :=
  ∀ (i : Nat) (s : Sym), syms[i]? = some s → (s.kind = SK.arguments → s.name = argumentsName) ∧ s.kind ≠ SK.unbound

theorem ArgsName.ext_new {a : Syms} (h : ArgsName a) {k : SK} {n : Name} (hk : k = .arguments → n = argumentsName)
    (hu : k ≠ .unbound) : ArgsName (a ++ [⟨k, n, none, false⟩]) := by
  intro i s hs
  rcases Nat.lt_or_ge i a.length with hi | hi
  · rw [List.getElem?_append_left hi] at hs; exact h i s hs
  · rw [List.getElem?_append_right hi] at hs
    cases hj : i - a.length with
    | zero => rw [hj] at hs; simp at hs; subst hs; exact ⟨hk, hu⟩
    | succ j => rw [hj] at hs; simp at hs

theorem ArgsName.modify {a : Syms} (h : ArgsName a) (i : Nat) (f : Sym → Sym)
    (hf : ∀ s, (f s).kind = s.kind ∧ (f s).name = s.name) : ArgsName (a.modify i f) := by
  intro j s hs
  rw [List.getElem?_modify] at hs
  cases ha : a[j]? with
  | none => rw [ha] at hs; simp at hs
  | some s0 =>
    rw [ha] at hs
    by_cases hij : i = j
    · simp [hij] at hs
      subst hs; rw [(hf s0).2, (hf s0).1]; exact h j s0 ha
    · simp [hij] at hs
      subst hs; exact h j s0 ha

theorem MemNames.ext {a b : Syms} (h : SymsExt a b) {m : Members} (hm : MemNames a m) : MemNames b m := by
  intro n r hl
  obtain ⟨s, hs, hn⟩ := hm n r hl
  obtain ⟨s', hs', _, hn'⟩ := h r s hs
  exact ⟨s', hs', hn'.trans hn⟩

theorem MemNames.insert {a : Syms} {m : Members} (hm : MemNames a m) {n r : Nat} {s : Sym} (hs : a[r]? = some s)
    (hn : s.name = n) : MemNames a (insert n r m) := by
  intro n' r' hl
  by_cases hnn : n' = n
  · subst hnn; rw [lookup_insert_self] at hl; cases hl; exact ⟨s, hs, hn⟩
  · rw [lookup_insert_ne hnn] at hl; exact hm n' r' hl

/-- declareSymbol keeps the bookkeeping invariants -/
theorem declareSymbol_cinv {cur cur' : Frame} {st st' : PSt} {k : SK} {n : Name} {r : Nat}
    (h : declareSymbol cur st k n = some (cur', st', r)) (hnp : k.noPair = true)
    (hka : k = .arguments → n = argumentsName) (hku : k ≠ .unbound)
    (hnm : MemNames st.syms cur.members) (hnd : (keys cur.members).Nodup) (ha : ArgsName st.syms) :
    SymsExt st.syms st'.syms ∧ (∃ e, st'.errs = st.errs ++ e) ∧ MemNames st'.syms cur'.members ∧
    (keys cur'.members).Nodup ∧ ArgsName st'.syms ∧ st'.declRefs = st.declRefs := by
  have hext1 : SymsExt st.syms (st.syms ++ [⟨k, n, none, false⟩]) := SymsExt.append _ _
  have ha1 : ArgsName (st.syms ++ [⟨k, n, none, false⟩]) := ha.ext_new hka hku
  have hnew : (st.syms ++ [⟨k, n, none, false⟩])[st.syms.length]? = some ⟨k, n, none, false⟩ := by simp
  have hnm1 := hnm.ext hext1
  unfold declareSymbol at h
  simp only [newSymbol] at h
  split at h
  · cases h
    exact ⟨hext1, ⟨[], by simp⟩, hnm1.insert hnew rfl, nodup_insert hnd, ha1, rfl⟩
  · next existing hex =>
    split at h
    · cases h
    · next ek hek =>
      have hnp' := canMerge_noPair (sk := cur.kind) (ek := ek) hnp
      split at h <;> cases h
      · exact ⟨hext1, ⟨[n], rfl⟩, hnm1, hnd, ha1, rfl⟩
      · refine ⟨hext1, ⟨[], by simp⟩, ?_, nodup_insert hnd, ha1, rfl⟩
        rw [insert_same hex]; exact hnm1
      · have hext2 := SymsExt.setLink (st.syms ++ [⟨k, n, none, false⟩]) existing (some st.syms.length)
        refine ⟨hext1.trans hext2, ⟨[], by simp⟩, (hnm1.ext hext2).insert (s := ⟨k, n, none, false⟩) ?_ rfl, nodup_insert hnd,
          ha1.modify _ _ (fun s => ⟨rfl, rfl⟩), rfl⟩
        unfold Scopes.setLink
        rw [List.getElem?_modify]
        have hne : existing ≠ st.syms.length := by
          obtain ⟨s, hs, _⟩ := hnm _ _ hex
          have : existing < st.syms.length := by
            rcases Nat.lt_or_ge existing st.syms.length with h1 | h1
            · exact h1
            · rw [List.getElem?_eq_none h1] at hs; cases hs
          omega
        simp [hne]
      · next hc => exact absurd hc hnp'.1
      · next hc => exact absurd hc hnp'.2
      · exact ⟨hext1, ⟨[], by simp⟩, hnm1.insert hnew rfl, nodup_insert hnd, ha1, rfl⟩

theorem mem_refsOf_lookup {r : Nat} : ∀ {m : Members}, (keys m).Nodup → r ∈ refsOf m → ∃ n, lookup n m = some r
  | [], _, h => by simp [refsOf] at h
  | (k, v) :: rest, hnd, h => by
    simp only [refsOf, List.map_cons, List.mem_cons] at h
    simp only [keys, List.map_cons, List.nodup_cons] at hnd
    rcases h with h | h
    · exact ⟨k, by simp [lookup, h]⟩
    · obtain ⟨n, hn⟩ := mem_refsOf_lookup (m := rest) hnd.2 (by simpa [refsOf] using h)
      have hne : k ≠ n := fun e => hnd.1 (by have := lookup_some_key hn; rw [← e] at this; simpa [keys] using this)
      exact ⟨n, by simp [lookup, hne, hn]⟩

theorem MemNames.bound {syms : Syms} {m : Members} (h : MemNames syms m) (hnd : (keys m).Nodup) :
    ∀ r, r ∈ refsOf m → r < syms.length := by
  intro r hr
  obtain ⟨n, hn⟩ := mem_refsOf_lookup hnd hr
  obtain ⟨s, hs, _⟩ := h n r hn
  rcases Nat.lt_or_ge r syms.length with h1 | h1
  · exact h1
  · rw [List.getElem?_eq_none h1] at hs; cases hs

/-- the declaration kinds of the fragment of the lookup theorem -/
def SK.plain (k : SK) : Bool :=
  k == .hoisted || k == .hoistedFunction || k == .generatorOrAsyncFunction || k == .catchIdentifier || k == .other
    || k == .const_ || k == .class_

theorem SK.plain_noPair {k : SK} (h : k.plain = true) : k.noPair = true := by cases k <;> simp_all [SK.plain, SK.noPair]
theorem SK.plain_ne_arguments {k : SK} (h : k.plain = true) : k ≠ .arguments := by cases k <;> simp_all [SK.plain]
theorem SK.plain_ne_unbound {k : SK} (h : k.plain = true) : k ≠ .unbound := by cases k <;> simp_all [SK.plain]

theorem canMerge_keep {sk : ScK} {ek nk : SK} (h : canMergeSymbols sk ek nk = .keepExisting) (hp : nk.plain = true) :
    ek = .arguments := by
  unfold canMergeSymbols at h
  repeat' (split at h)
  all_goals first | (cases h; done) | skip
  · next hc => rw [hc.1] at hp; simp [SK.plain] at hp
  · next hc => rw [hc.1] at hp; simp [SK.plain] at hp
  · next hc => exact hc.1

theorem declareSymbol_fresh {cur cur' : Frame} {st st' : PSt} {k : SK} {n : Name} {r : Nat}
    (h : declareSymbol cur st k n = some (cur', st', r)) (hl : lookup n cur.members = none) :
    cur'.members = insert n st.syms.length cur.members ∧ st'.errs = st.errs ∧
    st'.syms = st.syms ++ [⟨k, n, none, false⟩] := by
  unfold declareSymbol at h
  simp only [newSymbol, hl] at h
  cases h; exact ⟨rfl, rfl, rfl⟩

/-- the kind of the member of a name -/
def memberKind (syms : Syms) (mem : Members) (n : Name) : Option SK := (lookup n mem).bind (kindOf? syms)

/-- declareSymbol: which names have a member afterwards, and of which kind -/
theorem declareSymbol_kind {cur cur' : Frame} {st st' : PSt} {k : SK} {n : Name} {r : Nat}
    (h : declareSymbol cur st k n = some (cur', st', r)) (hp : k.plain = true)
    (hnm : MemNames st.syms cur.members) (ha : ArgsName st.syms) :
    (∀ n', n' ≠ n → lookup n' cur'.members = lookup n' cur.members) ∧
    (lookup n cur'.members).isSome = true ∧
    (st'.errs = st.errs → n ≠ argumentsName → memberKind st'.syms cur'.members n = some k) := by
  have hnewk : kindOf? (st.syms ++ [⟨k, n, none, false⟩]) st.syms.length = some k := by simp [kindOf?]
  unfold declareSymbol at h
  simp only [newSymbol] at h
  split at h
  · cases h
    exact ⟨fun n' hn => lookup_insert_ne hn _, by simp [lookup_insert_self], fun _ _ => by
      simp [memberKind, lookup_insert_self, hnewk]⟩
  · next existing hex =>
    obtain ⟨s, hs, hsn⟩ := hnm _ _ hex
    have hlt : existing < st.syms.length := by
      rcases Nat.lt_or_ge existing st.syms.length with h1 | h1
      · exact h1
      · rw [List.getElem?_eq_none h1] at hs; cases hs
    split at h
    · cases h
    · next ek hek =>
      have hnp' := canMerge_noPair (sk := cur.kind) (ek := ek) (SK.plain_noPair hp)
      have heks : s.kind = ek := by
        simpa [kindOf?, List.getElem?_append_left hlt, hs] using hek
      split at h <;> cases h
      · exact ⟨fun _ _ => rfl, by simp [hex], fun he => by simp at he⟩
      · next hc =>
        have := canMerge_keep hc hp
        refine ⟨fun n' hn => lookup_insert_ne hn _, by simp [lookup_insert_self], fun _ hn => ?_⟩
        exact absurd (hsn ▸ (ha _ s hs).1 (heks.trans this)) hn
      · refine ⟨fun n' hn => lookup_insert_ne hn _, by simp [lookup_insert_self], fun _ _ => ?_⟩
        have hne : existing ≠ st.syms.length := by omega
        simp [memberKind, lookup_insert_self, kindOf?, Scopes.setLink, List.getElem?_modify, hne]
      · next hc => exact absurd hc hnp'.1
      · next hc => exact absurd hc hnp'.2
      · exact ⟨fun n' hn => lookup_insert_ne hn _, by simp [lookup_insert_self], fun _ _ => by
          simp [memberKind, lookup_insert_self, hnewk]⟩

theorem memberKind_ext {a b : Syms} (h : SymsExt a b) {mem : Members} (hm : MemNames a mem) (n : Name) :
    memberKind b mem n = memberKind a mem n := by
  unfold memberKind
  cases hl : lookup n mem with
  | none => rfl
  | some m =>
    obtain ⟨s, hs, _⟩ := hm n m hl
    obtain ⟨s', hs', hk, _⟩ := h m s hs
    simp [kindOf?, hs, hs', hk]

/-- no copied member is a function -/
theorem copyArgs_not_fn {syms : Syms} {n r : Nat} : ∀ {m m' : Members}, copyArgs syms m = some m' →
    lookup n m' = some r → kindOf? syms r = some .hoistedFunction → False
  | [], m', h, hl, _ => by simp [copyArgs] at h; subst h; simp [lookup] at hl
  | (k, v) :: rest, m', h, hl, hk => by
    simp only [copyArgs] at h
    split at h
    · next kk m hkk hm =>
      split at h <;> cases h
      · exact copyArgs_not_fn hm hl hk
      · next hne =>
        simp only [lookup] at hl
        split at hl
        · cases hl; rw [hkk] at hk; cases hk; exact hne rfl
        · exact copyArgs_not_fn hm hl hk
    · cases h

/-- what the copy into a function body scope does to the kind of a member -/
def copyKind (x : Option SK) : Option SK := if x = some .hoistedFunction then none else x

theorem lookup_none_of_not_key {n : Nat} : ∀ {m : Members}, n ∉ keys m → lookup n m = none
  | [], _ => rfl
  | (k, v) :: rest, h => by
    simp only [keys, List.map_cons, List.mem_cons, not_or] at h
    have hk : k ≠ n := fun e => h.1 e.symm
    simp only [lookup, hk, if_false]
    exact lookup_none_of_not_key (m := rest) (by simpa [keys] using h.2)

theorem copyArgs_memberKind {syms : Syms} {m m' : Members} (h : copyArgs syms m = some m') (hnd : (keys m).Nodup)
    (hnm : MemNames syms m) (n : Name) :
    memberKind syms m' n = copyKind (memberKind syms m n) ∧
    (lookup n m').isSome = (copyKind (memberKind syms m n)).isSome := by
  cases hl : lookup n m with
  | none =>
    have : lookup n m' = none := by
      cases hl' : lookup n m' with
      | none => rfl
      | some r => rw [copyArgs_lookup h hnd hl'] at hl; cases hl
    simp [memberKind, hl, this, copyKind]
  | some r =>
    obtain ⟨s, hs, _⟩ := hnm n r hl
    have hk : kindOf? syms r = some s.kind := by simp [kindOf?, hs]
    by_cases hf : s.kind = .hoistedFunction
    · have : lookup n m' = none := by
        cases hl' : lookup n m' with
        | none => rfl
        | some r' =>
          have := copyArgs_lookup h hnd hl'
          rw [hl] at this; cases this
          exfalso
          -- `r` has kind hoistedFunction: it was not copied
          exact copyArgs_not_fn h hl' (by rw [hk, hf])
      simp [memberKind, hl, this, hk, hf, copyKind]
    · have := copyArgs_copied h hl (by rw [hk]; simpa using hf)
      simp [memberKind, hl, this, hk, hf, copyKind]

end EsbuildModel.Scopes
