import EsbuildModel.Lemmas.CssLexDecode
/-!
Decoding a token's text again (`Token.DecodedText` slices `contents` and runs `utf8.DecodeRuneInString` over the
slice) finds the runes the lexer saw: a decoded rune does not depend on the bytes after it.
-/
namespace EsbuildModel.CssLex
open EsbuildModel.Wtf8

/-- what `utf8.DecodeRuneInString` returns does not change when bytes it did not use are cut off -/
theorem goDecodeRune_truncate (a : Nat) (x y : List Nat) (h : (goDecodeRune a (x ++ y)).2 - 1 ≤ x.length) :
    goDecodeRune a x = goDecodeRune a (x ++ y) := by
  unfold goDecodeRune at h ⊢
  by_cases h1 : a < 0x80
  · simp only [h1, if_true]
  · simp only [h1, if_false] at h ⊢
    by_cases h2 : 0xC2 ≤ a ∧ a ≤ 0xDF
    · simp only [h2, and_self, if_true] at h ⊢
      match x with
      | [] =>
        match y with
        | [] => rfl
        | s1 :: r =>
          simp only [List.nil_append] at h ⊢
          by_cases hc : isCont s1 = true
          · simp [hc] at h
          · simp [hc]
      | s1 :: r => rfl
    · simp only [h2, if_false] at h ⊢
      by_cases h3 : 0xE0 ≤ a ∧ a ≤ 0xEF
      · simp only [h3, and_self, if_true] at h ⊢
        match x with
        | [] =>
          match y with
          | [] => rfl
          | [_] => rfl
          | s1 :: s2 :: r =>
            simp only [List.nil_append] at h ⊢
            by_cases hc : acceptLo a ≤ s1 ∧ s1 ≤ acceptHi a ∧ isCont s2 = true
            · simp [hc] at h
            · simp [hc]
        | [x1] =>
          match y with
          | [] => rfl
          | s2 :: r =>
            simp only [List.cons_append, List.nil_append] at h ⊢
            by_cases hc : acceptLo a ≤ x1 ∧ x1 ≤ acceptHi a ∧ isCont s2 = true
            · simp [hc] at h
            · simp [hc]
        | x1 :: x2 :: r => rfl
      · simp only [h3, if_false] at h ⊢
        by_cases h4 : 0xF0 ≤ a ∧ a ≤ 0xF4
        · simp only [h4, and_self, if_true] at h ⊢
          match x with
          | [] =>
            match y with
            | [] => rfl
            | [_] => rfl
            | [_, _] => rfl
            | s1 :: s2 :: s3 :: r =>
              simp only [List.nil_append] at h ⊢
              by_cases hc : acceptLo a ≤ s1 ∧ s1 ≤ acceptHi a ∧ isCont s2 = true ∧ isCont s3 = true
              · simp [hc] at h
              · simp [hc]
          | [x1] =>
            match y with
            | [] => rfl
            | [_] => rfl
            | s2 :: s3 :: r =>
              simp only [List.cons_append, List.nil_append] at h ⊢
              by_cases hc : acceptLo a ≤ x1 ∧ x1 ≤ acceptHi a ∧ isCont s2 = true ∧ isCont s3 = true
              · simp [hc] at h
              · simp [hc]
          | [x1, x2] =>
            match y with
            | [] => rfl
            | s3 :: r =>
              simp only [List.cons_append, List.nil_append] at h ⊢
              by_cases hc : acceptLo a ≤ x1 ∧ x1 ≤ acceptHi a ∧ isCont x2 = true ∧ isCont s3 = true
              · simp [hc] at h
              · simp [hc]
          | x1 :: x2 :: x3 :: r => rfl
        · simp only [h4, if_false]

/-- the first part of a decoding, decoded on its own -/
theorem decodeAll_rawOf_prefix (a b : List Ch) (input : List Nat) (h : decodeAll input = a ++ b) :
    decodeAll (rawOf a) = a := by
  induction a generalizing input with
  | nil => rfl
  | cons c a ih =>
    cases input with
    | nil => simp [decodeAll_nil] at h
    | cons x t =>
      rw [decodeAll_cons] at h
      simp only [List.cons_append, List.cons.injEq] at h
      obtain ⟨hc, hrest⟩ := h
      have hsh := goDecodeRune_shape x t
      obtain ⟨h1, h2, _⟩ := hsh
      have iha := ih (t.drop ((goDecodeRune x t).2 - 1)) hrest
      -- the bytes of `a ++ b` are the rest of the input
      have hraw : rawOf (a ++ b) = t.drop ((goDecodeRune x t).2 - 1) := by rw [← hrest, rawOf_decodeAll]
      have hcraw : c.raw = (x :: t).take (goDecodeRune x t).2 := by rw [← hc]
      generalize hw : (goDecodeRune x t).2 = w at *
      obtain ⟨w', rfl⟩ : ∃ w', w = w' + 1 := ⟨w - 1, by omega⟩
      simp only [Nat.add_sub_cancel, List.take_succ_cons] at hcraw hraw iha hrest
      have ht : t = t.take w' ++ (rawOf a ++ rawOf b) := by
        rw [← rawOf_append', hraw]; exact (List.take_append_drop w' t).symm
      rw [rawOf_cons', hcraw]
      simp only [List.cons_append]
      rw [decodeAll_cons]
      have htr : goDecodeRune x (t.take w' ++ rawOf a) = goDecodeRune x t := by
        have := goDecodeRune_truncate x (t.take w' ++ rawOf a) (rawOf b) (by
          rw [List.append_assoc, ← ht, hw]; simp only [Nat.add_sub_cancel, List.length_append, List.length_take]; omega)
        rw [this, List.append_assoc, ← ht]
      rw [htr, hw]
      simp only [Nat.add_sub_cancel, List.take_succ_cons]
      have hlen : (t.take w').length = w' := by simp only [List.length_take]; omega
      rw [List.take_append_of_le_length (by omega), List.take_take, Nat.min_self]
      rw [List.drop_append_of_le_length (by omega)]
      have : List.drop w' (List.take w' t) = [] := by
        rw [List.drop_eq_nil_iff]; omega
      rw [this, List.nil_append, iha, ← hc]
      simp [hw]
where
  rawOf_append' (a b : List Ch) : rawOf (a ++ b) = rawOf a ++ rawOf b := by simp [rawOf]
  rawOf_cons' (c : Ch) (t : List Ch) : rawOf (c :: t) = c.raw ++ rawOf t := by simp [rawOf]

/-- `s` is (a suffix of) the decoding of some byte string -/
def IsDec (s : List Ch) : Prop := ∃ input, decodeAll input = s

theorem IsDec.ofInput (input : List Nat) : IsDec (CssLex.decodeAll input) := ⟨input, rfl⟩

theorem IsDec.wf {s : List Ch} (h : IsDec s) : WfS s := by obtain ⟨i, rfl⟩ := h; exact wfS_decodeAll i

theorem IsDec.tail {c : Ch} {t : List Ch} (h : IsDec (c :: t)) : IsDec t := by
  obtain ⟨input, hi⟩ := h
  cases input with
  | nil => simp [decodeAll_nil] at hi
  | cons x r =>
    rw [decodeAll_cons] at hi
    simp only [List.cons.injEq] at hi
    exact ⟨_, hi.2⟩

theorem IsDec.drop_prefix {a b : List Ch} (h : IsDec (a ++ b)) : IsDec b := by
  induction a with
  | nil => exact h
  | cons c a ih => exact ih (IsDec.tail h)

theorem IsDec.suffix {a b : List Ch} (h : IsDec b) (hs : a <:+ b) : IsDec a := by
  obtain ⟨pre, rfl⟩ := hs; exact h.drop_prefix

/-- `Token.DecodedText` sees the runes the lexer saw: any contiguous part of a decoding decodes to itself -/
theorem IsDec.redecode {a b : List Ch} (h : IsDec (a ++ b)) : CssLex.decodeAll (rawOf a) = a := by
  obtain ⟨input, hi⟩ := h; exact decodeAll_rawOf_prefix a b input hi

theorem IsDec.prefix {a b : List Ch} (h : IsDec (a ++ b)) : IsDec a := ⟨rawOf a, h.redecode⟩

theorem IsDec.nil : IsDec [] := ⟨[], rfl⟩

/-- the byte string is empty or starts with a byte that is not a UTF-8 continuation byte -/
def NonContStart (y : List Nat) : Prop := ∀ b, y.head? = some b → isCont b = false

theorem acceptRange_cont (a s1 : Nat) (h : acceptLo a ≤ s1 ∧ s1 ≤ acceptHi a) : isCont s1 = true := by
  have := acceptLo_ge a; have := acceptHi_le a
  simp only [isCont, Bool.and_eq_true, decide_eq_true_eq]; omega

/-- bytes that cannot continue a sequence do not change what is decoded in front of them -/
theorem goDecodeRune_nonCont (a : Nat) (x y : List Nat) (hy : NonContStart y) :
    goDecodeRune a (x ++ y) = goDecodeRune a x := by
  cases y with
  | nil => simp
  | cons b r =>
    have hb : isCont b = false := hy b rfl
    unfold goDecodeRune
    by_cases h1 : a < 0x80
    · simp only [h1, if_true]
    · simp only [h1, if_false]
      by_cases h2 : 0xC2 ≤ a ∧ a ≤ 0xDF
      · simp only [h2, and_self, if_true]
        match x with
        | [] => simp [hb]
        | s1 :: r' => rfl
      · simp only [h2, if_false]
        by_cases h3 : 0xE0 ≤ a ∧ a ≤ 0xEF
        · simp only [h3, and_self, if_true]
          match x with
          | [] =>
            cases r with
            | nil => rfl
            | cons s2 r2 =>
              simp only [List.nil_append]
              have : ¬ (acceptLo a ≤ b ∧ b ≤ acceptHi a ∧ isCont s2 = true) := by
                intro hc; have := acceptRange_cont a b ⟨hc.1, hc.2.1⟩; simp [hb] at this
              simp [this]
          | [x1] => simp [hb]
          | x1 :: x2 :: r' => rfl
        · simp only [h3, if_false]
          by_cases h4 : 0xF0 ≤ a ∧ a ≤ 0xF4
          · simp only [h4, and_self, if_true]
            match x with
            | [] =>
              match r with
              | [] => rfl
              | [_] => rfl
              | s2 :: s3 :: r2 =>
                simp only [List.nil_append]
                have : ¬ (acceptLo a ≤ b ∧ b ≤ acceptHi a ∧ isCont s2 = true ∧ isCont s3 = true) := by
                  intro hc; have := acceptRange_cont a b ⟨hc.1, hc.2.1⟩; simp [hb] at this
                simp [this]
            | [x1] =>
              cases r with
              | nil => rfl
              | cons s3 r2 => simp [hb]
            | [x1, x2] => simp [hb]
            | x1 :: x2 :: x3 :: r' => rfl
          · simp only [h4, if_false]

/-- decoding is compositional at a position where no continuation byte follows -/
theorem decodeAll_append_nonCont (x y : List Nat) (hy : NonContStart y) :
    decodeAll (x ++ y) = decodeAll x ++ decodeAll y := by
  induction x using list_length_induction with
  | _ x ih =>
    cases x with
    | nil => simp [decodeAll_nil]
    | cons a t =>
      simp only [List.cons_append]
      rw [decodeAll_cons, decodeAll_cons, goDecodeRune_nonCont a t y hy]
      obtain ⟨h1, h2, _⟩ := goDecodeRune_shape a t
      generalize (goDecodeRune a t).2 = w at h1 h2
      obtain ⟨w', rfl⟩ : ∃ w', w = w' + 1 := ⟨w - 1, by omega⟩
      simp only [Nat.add_sub_cancel, List.take_succ_cons, List.cons_append, List.cons.injEq]
      refine ⟨?_, ?_⟩
      · rw [List.take_append_of_le_length (by omega)]
      · rw [List.drop_append_of_le_length (by omega)]
        exact ih _ (by simp only [List.length_drop, List.length_cons]; omega)

end EsbuildModel.CssLex
