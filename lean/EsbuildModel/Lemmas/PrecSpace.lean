/-
Helper lemmas for the white-space model (Impl/PrecSpace.lean): cleaned equations, the token stream of `printS` is
`print true`, and the invariant behind "no two tokens are glued" (Props/C13Prec.lean).
-/
import EsbuildModel.Impl.PrecSpace
import EsbuildModel.Spec.JsLexGlue
import EsbuildModel.Lemmas.PrecPrint
import EsbuildModel.Lemmas.PrecParse

namespace EsbuildModel.PrecSpace
open EsbuildModel.JsExpr EsbuildModel.PrecPrint

theorem printS_ident (n L fi nt st) : printS (.ident n) L fi nt st = emit (spaceBeforeIdent st) (.ident n) := by
  simp [printS]
theorem printS_num (n L fi nt st) : printS (.num n) L fi nt st = emit (spaceBeforeIdent st) (.num n) := by
  simp [printS]

theorem printS_unary (op : UnOp) (v : Expr) (L : Nat) (fi nt : Bool) (st : St) :
    printS (.unary op v) L fi nt st =
      let wrap := decide (L ≥ (if op.isPostfix then 19 else 18))
      close_ wrap
        (if op.isPostfix then emitOperator (printS v 18 false false (open_ wrap st)) (unEntry op)
         else printS v 17 false false (emitOperator (open_ wrap st) (unEntry op))) := by
  simp only [printS, unEntry_level, isPrefix_unEntry, lvl_LPrefix, lvl_LPostfix]
  cases h : op.isPostfix <;> simp

theorem printS_binary (op : BinOp) (l r : Expr) (L : Nat) (fi nt : Bool) (st : St) :
    printS (.binary op l r) L fi nt st =
      let wrap := binWrap op L fi
      close_ wrap (printS r (rightLevel op r) (fi && !wrap) false
        (emitOperator (printS l (leftLevel op l) (fi && !wrap) false (open_ wrap st)) (binEntry op))) := by
  simp only [printS, binaryLevels_eq]

theorem printS_cond (t y n : Expr) (L : Nat) (fi nt : Bool) (st : St) :
    printS (.cond t y n) L fi nt st =
      let wrap := decide (L ≥ 5)
      close_ wrap (printS n 3 (fi && !wrap) false (emit (printS y 3 false false
        (emit (printS t 5 (fi && !wrap) false (open_ wrap st)) (.p .question))) (.p .colon))) := by
  simp only [printS, lvl_LConditional, lvl_LYield]

theorem printS_dot (e : Expr) (name L : Nat) (fi nt : Bool) (st : St) :
    printS (.dot e name) L fi nt st =
      let st1 := printS e 19 false nt st
      emit (emit (if needSpaceBeforeDot st1 then emitSp st1 else st1) (.p .dot)) (.ident name) := by
  simp only [printS, lvl_LPostfix]

theorem printS_index (e i : Expr) (L : Nat) (fi nt : Bool) (st : St) :
    printS (.index e i) L fi nt st =
      emit (printS i 0 false false (emit (printS e 19 false nt st) (.p .lbrack))) (.p .rbrack) := by
  simp only [printS, lvl_LPostfix, lvl_LLowest]

theorem printS_call (f : Expr) (as : Args) (L : Nat) (fi nt : Bool) (st : St) :
    printS (.call f as) L fi nt st =
      let wrap := decide (L ≥ 20) || nt
      close_ wrap (emit (printArgsS as (emit (printS f 19 false false (open_ wrap st)) (.p .lparen))) (.p .rparen)) := by
  simp only [printS, lvl_LPostfix, lvl_LNew]

theorem printS_new (f : Expr) (as : Args) (L : Nat) (fi nt : Bool) (st : St) :
    printS (.new f as) L fi nt st =
      let wrap := decide (L ≥ 21)
      let st1 := printS f 20 false true (emit (spaceBeforeIdent (open_ wrap st)) (.p .kNew))
      close_ wrap (if newParens true as L then emit (printArgsS as (emit st1 (.p .lparen))) (.p .rparen) else st1) := by
  simp only [printS, lvl_LCall, lvl_LNew, lvl_LPostfix, newParens, Bool.not_true, Bool.false_or]

theorem printArgsS_nil (st : St) : printArgsS .nil st = st := by simp [printArgsS]
theorem printArgsS_one (a : Expr) (st : St) : printArgsS (.cons a .nil) st = printS a 1 false false st := by
  simp only [printArgsS, lvl_LComma]
theorem printArgsS_cons (a b : Expr) (rest : Args) (st : St) :
    printArgsS (.cons a (.cons b rest)) st = printArgsS (.cons b rest) (emit (printS a 1 false false st) (.p .comma)) := by
  simp only [printArgsS, lvl_LComma]

/-- the tokens of a piece list, blanks dropped -/
def toks : List STok → List Tok
  | [] => []
  | .t a :: r => a :: toks r
  | .sp :: r => toks r

@[simp] theorem toks_emit (st : St) (a : Tok) : toks (emit st a).rev = a :: toks st.rev := rfl
@[simp] theorem toks_emitSp (st : St) : toks (emitSp st).rev = toks st.rev := rfl
@[simp] theorem toks_emitOp (st : St) (e : Entry) : toks (emitOp st e).rev = Tok.ofText e.text :: toks st.rev := rfl

@[simp] theorem toks_spaceBeforeIdent (st : St) : toks (spaceBeforeIdent st).rev = toks st.rev := by
  unfold spaceBeforeIdent
  split
  · split <;> simp
  · rfl

@[simp] theorem toks_spaceBeforeOp (st : St) (n : Nat) : toks (spaceBeforeOp st n).rev = toks st.rev := by
  unfold spaceBeforeOp
  split
  · rfl
  · simp only []; split <;> simp

@[simp] theorem toks_emitOperator (st : St) (e : Entry) :
    toks (emitOperator st e).rev = Tok.ofText e.text :: toks st.rev := by
  unfold emitOperator
  split <;> simp

@[simp] theorem toks_open (w : Bool) (st : St) :
    toks (open_ w st).rev = (if w then [Tok.p .lparen] else []) ++ toks st.rev := by
  cases w <;> simp [open_]

@[simp] theorem toks_close (w : Bool) (st : St) :
    toks (close_ w st).rev = (if w then [Tok.p .rparen] else []) ++ toks st.rev := by
  cases w <;> simp [close_]

theorem paren_reverse (w : Bool) (ts : List Tok) :
    (paren w ts).reverse = (if w then [Tok.p .rparen] else []) ++ ts.reverse ++ (if w then [Tok.p .lparen] else []) := by
  cases w <;> simp [paren]

mutual
theorem toks_printS : (e : Expr) → (L : Nat) → (fi nt : Bool) → (st : St) →
    toks (printS e L fi nt st).rev = (print true e L fi nt).reverse ++ toks st.rev
  | .ident n, L, fi, nt, st => by simp [printS_ident, print_ident]
  | .num n, L, fi, nt, st => by simp [printS_num, print_num]
  | .unary op v, L, fi, nt, st => by
    rw [printS_unary, print_unary, paren_reverse]
    cases hp : op.isPostfix <;>
      simp [toks_printS v, unEntry_tok, List.append_assoc]
  | .binary op l r, L, fi, nt, st => by
    rw [printS_binary, print_binary, paren_reverse]
    simp [toks_printS l, toks_printS r, binEntry_tok, List.append_assoc]
  | .cond t y n, L, fi, nt, st => by
    rw [printS_cond, print_cond, paren_reverse]
    simp [toks_printS t, toks_printS y, toks_printS n, List.append_assoc]
  | .dot e name, L, fi, nt, st => by
    rw [printS_dot, print_dot]
    simp only [toks_emit]
    split <;> simp [toks_printS e]
  | .index e i, L, fi, nt, st => by
    rw [printS_index, print_index]
    simp [toks_printS e, toks_printS i, List.append_assoc]
  | .call f as, L, fi, nt, st => by
    rw [printS_call, print_call, paren_reverse]
    simp [toks_printS f, toks_printArgsS as, List.append_assoc]
  | .new f as, L, fi, nt, st => by
    rw [printS_new, print_new, paren_reverse]
    cases hp : newParens true as L <;>
      simp [toks_printS f, toks_printArgsS as, List.append_assoc]
theorem toks_printArgsS : (as : Args) → (st : St) →
    toks (printArgsS as st).rev = (printArgs true as).reverse ++ toks st.rev
  | .nil, st => by simp [printArgsS_nil, printArgs_nil]
  | .cons a .nil, st => by simp [printArgsS_one, printArgs_one, toks_printS a]
  | .cons a (.cons b rest), st => by
    rw [printArgsS_cons, printArgs_cons]
    simp [toks_printArgsS (.cons b rest), toks_printS a, List.append_assoc]
end


/-- does the piece list (last first) start with a token `c` that makes `c a b` the comment opener `<!--`? -/
def tripleHead (a b : Tok) : List STok → Bool
  | .t c :: _ => glue3 c a b
  | _ => false

/-- no two neighbouring tokens glue and no `<!--` appears; on the reversed piece list (last piece first) -/
def safeRev : List STok → Bool
  | [] => true
  | .sp :: rest => safeRev rest
  | [.t _] => true
  | .t _ :: .sp :: rest => safeRev rest
  | .t b :: .t a :: rest => !glue a b && !tripleHead a b rest && safeRev (.t a :: rest)

/-- the condition of `printSpaceBeforeOperator` -/
def spCond (prev next : Nat) (lt : Bool) : Bool :=
  ((prev == (binEntry .add).code || prev == (unEntry .pos).code) &&
     (next == (binEntry .add).code || next == (unEntry .pos).code || next == (unEntry .preInc).code)) ||
  ((prev == (binEntry .sub).code || prev == (unEntry .neg).code) &&
     (next == (binEntry .sub).code || next == (unEntry .neg).code || next == (unEntry .preDec).code)) ||
  (prev == (unEntry .postDec).code && next == (binEntry .gt).code) ||
  (prev == (unEntry .not).code && next == (unEntry .preDec).code && lt)

theorem spaceBeforeOp_eq (st : St) (next : Nat) :
    spaceBeforeOp st next =
      match st.prevOp with
      | none => st
      | some prev => if spCond prev next (secondLastIsLt st) then emitSp st else st := by
  unfold spaceBeforeOp spCond
  rfl

/-- a reference to a row of the operator table -/
inductive OpRef
  | un (op : UnOp)
  | bin (op : BinOp)
  deriving DecidableEq

def OpRef.entry : OpRef → Entry
  | .un op => unEntry op
  | .bin op => binEntry op
def OpRef.tok : OpRef → P
  | .un op => op.tok
  | .bin op => op.tok
def OpRef.isPostfix : OpRef → Bool
  | .un op => op.isPostfix
  | .bin _ => false
def OpRef.all : List OpRef :=
  [.un .pos, .un .neg, .un .cpl, .un .not, .un .void, .un .typeof, .un .delete, .un .preDec, .un .preInc, .un .postDec,
   .un .postInc] ++
  [BinOp.add, .sub, .mul, .div, .rem, .pow, .lt, .le, .gt, .ge, .in_, .instanceof, .shl, .shr, .ushr, .looseEq, .looseNe,
   .strictEq, .strictNe, .nullish, .logicalOr, .logicalAnd, .bitOr, .bitAnd, .bitXor, .comma, .assign, .addAssign,
   .subAssign, .mulAssign, .divAssign, .remAssign, .powAssign, .shlAssign, .shrAssign, .ushrAssign, .bitOrAssign,
   .bitAndAssign, .bitXorAssign, .nullishAssign, .logicalOrAssign, .logicalAndAssign].map .bin

theorem OpRef.mem_all (r : OpRef) : r ∈ OpRef.all := by
  cases r with
  | un op => cases op <;> decide
  | bin op => cases op <;> decide

theorem entry_tok (r : OpRef) : Tok.ofText r.entry.text = .p r.tok := by
  cases r with
  | un op => exact unEntry_tok op
  | bin op => exact binEntry_tok op

theorem entry_isKeyword : ∀ r ∈ OpRef.all, r.entry.isKeyword = r.tok.isWord := by decide +kernel

/-! ### gluing facts, decided over the finite token alphabet -/

theorem glue_inert : ∀ a ∈ P.all, ∀ b ∈ [P.lparen, .rparen, .lbrack, .rbrack, .comma, .colon],
    glue (.p a) (.p b) = false := by decide +kernel

theorem glue_end : ∀ a ∈ [P.rparen, .rbrack, .plusplus, .minusminus], ∀ b ∈ P.all, glue (.p a) (.p b) = false := by
  decide +kernel

theorem glue_open : ∀ a ∈ [P.lparen, .lbrack, .comma, .question, .colon],
    ∀ b ∈ [P.plus, .minus, .tilde, .bang, .plusplus, .minusminus], glue (.p a) (.p b) = false := by decide +kernel

def OpRef.isPrefixOp : OpRef → Bool
  | .un op => !op.isPostfix
  | .bin _ => false

/-- position in `OpRef.all` = position in js_ast.go's OpCode block -/
def OpRef.idx (r : OpRef) : Nat := OpRef.all.idxOf r

theorem entry_code_table : OpRef.all.map (fun r => r.entry.code) = OpRef.all.map OpRef.idx := by decide +kernel

theorem entry_code (r : OpRef) : r.entry.code = r.idx := by
  have h := entry_code_table
  have hm := OpRef.mem_all r
  obtain ⟨i, hi, rfl⟩ := List.getElem_of_mem hm
  have := congrArg (fun l => l[i]?) h
  simpa [List.getElem?_map, List.getElem?_eq_getElem hi] using this

/-- `spCond` with the opcode numbers written out -/
def spCondNum (prev next : Nat) (lt : Bool) : Bool :=
  ((prev == 11 || prev == 0) && (next == 11 || next == 0 || next == 8)) ||
  ((prev == 12 || prev == 1) && (next == 12 || next == 1 || next == 7)) ||
  (prev == 9 && next == 19) ||
  (prev == 3 && next == 7 && lt)

theorem spCond_eq (prev next : Nat) (lt : Bool) : spCond prev next lt = spCondNum prev next lt := by
  have e1 : (binEntry .add).code = 11 := entry_code (.bin .add)
  have e2 : (unEntry .pos).code = 0 := entry_code (.un .pos)
  have e3 : (unEntry .preInc).code = 8 := entry_code (.un .preInc)
  have e4 : (binEntry .sub).code = 12 := entry_code (.bin .sub)
  have e5 : (unEntry .neg).code = 1 := entry_code (.un .neg)
  have e6 : (unEntry .preDec).code = 7 := entry_code (.un .preDec)
  have e7 : (unEntry .postDec).code = 9 := entry_code (.un .postDec)
  have e8 : (binEntry .gt).code = 19 := entry_code (.bin .gt)
  have e9 : (unEntry .not).code = 3 := entry_code (.un .not)
  simp only [spCond, spCondNum, e1, e2, e3, e4, e5, e6, e7, e8, e9]

theorem glue_ops_num : ∀ r ∈ OpRef.all, ∀ r' ∈ OpRef.all, ∀ lt ∈ [true, false],
    r.tok.isWord = false → r.isPostfix = false → r'.tok.isWord = false → r'.isPrefixOp = true →
    spCondNum r.idx r'.idx lt = false → glue (.p r.tok) (.p r'.tok) = false := by decide +kernel

theorem glue_ops : ∀ r ∈ OpRef.all, ∀ r' ∈ OpRef.all, ∀ lt ∈ [true, false],
    r.tok.isWord = false → r.isPostfix = false → r'.tok.isWord = false → r'.isPrefixOp = true →
    spCond r.entry.code r'.entry.code lt = false → glue (.p r.tok) (.p r'.tok) = false := by
  intro r hr r' hr' lt hlt h1 h2 h3 h4 h5
  rw [spCond_eq, entry_code, entry_code] at h5
  exact glue_ops_num r hr r' hr' lt hlt h1 h2 h3 h4 h5

theorem spCond_not_preDec : ∀ lt ∈ [true, false], spCond (unEntry .not).code (unEntry .preDec).code lt = lt := by
  intro lt _
  have e1 : (unEntry .not).code = 3 := entry_code (.un .not)
  have e2 : (unEntry .preDec).code = 7 := entry_code (.un .preDec)
  rw [spCond_eq, e1, e2]
  cases lt <;> decide

def endTok : Tok → Bool
  | .ident _ | .num _ | .p .rparen | .p .rbrack | .p .plusplus | .p .minusminus => true
  | _ => false

def openTok : Tok → Bool
  | .p x => x.isWord || x == .lparen || x == .lbrack || x == .comma || x == .question || x == .colon
  | _ => false

/-- the state when an operand is about to be printed -/
def StartOK (st : St) : Prop :=
  safeRev st.rev = true ∧
  ((st.rev = [] ∧ st.prevOp = none) ∨
   ∃ a rest, st.rev = .t a :: rest ∧
     ((st.prevOp = none ∧ openTok a = true) ∨
      ∃ r : OpRef, r.tok.isWord = false ∧ r.isPostfix = false ∧ st.prevOp = some r.entry.code ∧ a = .p r.tok))

/-- the state after an operand has been printed -/
def EndOK (st : St) : Prop :=
  safeRev st.rev = true ∧ ∃ a rest, st.rev = .t a :: rest ∧ endTok a = true ∧
    (st.prevOp = none ∨ ∃ op : UnOp, op.isPostfix = true ∧ st.prevOp = some (unEntry op).code ∧ a = .p op.tok)

theorem safeRev_cons_tt (a b : Tok) (rest : List STok) :
    safeRev (.t b :: .t a :: rest) =
      (!glue a b && !tripleHead a b rest && safeRev (.t a :: rest)) := by
  simp [safeRev]

theorem safeRev_after_sp (b : Tok) (rest : List STok) : safeRev (.t b :: .sp :: rest) = safeRev rest := by
  simp [safeRev]

theorem safeRev_sp (rest : List STok) : safeRev (.sp :: rest) = safeRev rest := by simp [safeRev]

theorem glue3_false_of_ne (c a b : Tok) (h : b ≠ .p .minusminus) : glue3 c a b = false := by
  have : (b == Tok.p P.minusminus) = false := by simpa using h
  simp [glue3, this]

/-- emitting a token that never glues to what precedes it -/
theorem safe_emit (st : St) (b : Tok) (hs : safeRev st.rev = true) (hb : b ≠ .p .minusminus)
    (hg : ∀ a rest, st.rev = .t a :: rest → glue a b = false) : safeRev (emit st b).rev = true := by
  simp only [emit]
  cases h : st.rev with
  | nil => simp [safeRev]
  | cons x rest =>
    cases x with
    | sp => rw [safeRev_after_sp]; rw [h, safeRev_sp] at hs; exact hs
    | t a =>
      rw [safeRev_cons_tt, hg a rest h, ← h, hs]
      cases rest with
      | nil => simp [tripleHead]
      | cons y r => cases y <;> simp [tripleHead, glue3_false_of_ne _ _ _ hb]

theorem isWord_lastChar (a : Tok) (h : a.isWord = true) : (lastChar (.t a)).any isIdentChar = true := by
  cases a with
  | ident n => simp [lastChar, isIdentChar]
  | num n => simp [lastChar, isIdentChar]
  | p x => cases x <;> simp [Tok.isWord, P.isWord] at h <;> decide
  | other s => simp [Tok.isWord] at h

theorem glue_word_right (a b : Tok) (ha : a.isWord = false) (hb : b.isWord = true) (hd : a ≠ .p .dot) :
    glue a b = false := by
  unfold glue
  simp only [ha, Bool.false_and, Bool.false_eq_true, if_false]
  cases a with
  | ident n => simp [Tok.isWord] at ha
  | num n => simp [Tok.isWord] at ha
  | other s => rfl
  | p x =>
    cases b with
    | ident n => cases x <;> rfl
    | num n => cases x <;> simp_all
    | other s => cases x <;> rfl
    | p y =>
      have : y.isWord = true := by simpa [Tok.isWord] using hb
      simp [this]

/-- an identifier, number or reserved word after `printSpaceBeforeIdentifier` -/
theorem safe_emit_word (st : St) (b : Tok) (hs : safeRev st.rev = true) (hb : b.isWord = true)
    (hd : ∀ rest, st.rev ≠ .t (.p .dot) :: rest) : safeRev (emit (spaceBeforeIdent st) b).rev = true := by
  have hbm : b ≠ .p .minusminus := by intro h; subst h; simp [Tok.isWord, P.isWord] at hb
  unfold spaceBeforeIdent
  cases h : st.rev with
  | nil => simp [emit, h, safeRev]
  | cons x rest =>
    simp only []
    by_cases hc : (lastChar x).any isIdentChar = true
    · simp only [hc, if_true, emit, emitSp, h, safeRev_after_sp]
      rw [h] at hs; exact hs
    · simp only [hc, Bool.false_eq_true, if_false]
      apply safe_emit st b hs hbm
      intro a rest' ha
      rw [h] at ha
      simp only [List.cons.injEq] at ha
      obtain ⟨rfl, rfl⟩ := ha
      apply glue_word_right a b _ hb
      · intro hdot; subst hdot; exact hd rest h
      · cases hw : a.isWord with
        | false => rfl
        | true => exact absurd (isWord_lastChar a hw) hc

theorem glue_punct_right (a : Tok) (b : P) (hb : b.isWord = false) (hbd : b ≠ .dot)
    (ha : ∀ x, a = .p x → glue (.p x) (.p b) = false) : glue a (.p b) = false := by
  cases a with
  | p x => exact ha x rfl
  | ident n => cases b <;> simp_all [glue, Tok.isWord, P.isWord]
  | num n => cases b <;> simp_all [glue, Tok.isWord, P.isWord]
  | other s => cases b <;> simp_all [glue, Tok.isWord, P.isWord]

def inert (b : P) : Bool := b == .lparen || b == .rparen || b == .lbrack || b == .rbrack || b == .comma || b == .colon

theorem safe_emit_inert (st : St) (b : P) (hs : safeRev st.rev = true) (hb : inert b = true) :
    safeRev (emit st (.p b)).rev = true := by
  have hmem : b ∈ [P.lparen, .rparen, .lbrack, .rbrack, .comma, .colon] := by
    cases b <;> simp [inert] at hb <;> simp
  apply safe_emit st _ hs (by cases b <;> simp [inert] at hb <;> simp)
  intro a rest _
  apply glue_punct_right a b (by cases b <;> simp [inert] at hb <;> rfl) (by cases b <;> simp [inert] at hb <;> simp)
  intro x _
  exact glue_inert x (P.mem_all x) b hmem

/-- after an operand, any punctuator may follow (a `.` only if the operand does not end in a number) -/
theorem glue_after_end (a : Tok) (b : P) (ha : endTok a = true) (hb : b.isWord = false)
    (hnum : b = .dot → ∀ n, a ≠ .num n) : glue a (.p b) = false := by
  cases a with
  | p x =>
    have hx : x ∈ [P.rparen, .rbrack, .plusplus, .minusminus] := by cases x <;> simp [endTok] at ha <;> simp
    exact glue_end x hx b (P.mem_all b)
  | ident n => cases b <;> simp_all [glue, Tok.isWord, P.isWord]
  | num n =>
    by_cases hd : b = .dot
    · exact absurd rfl (hnum hd n)
    · cases b <;> simp_all [glue, Tok.isWord, P.isWord]
  | other s => simp [endTok] at ha

theorem endTok_ne_bang (a : Tok) (h : endTok a = true) : a ≠ .p .bang := by
  intro h'; subst h'; simp [endTok] at h

theorem tripleHead_false_of_ne_bang (a b : Tok) (rest : List STok) (h : a ≠ .p .bang) : tripleHead a b rest = false := by
  have : (a == Tok.p P.bang) = false := by simpa using h
  cases rest with
  | nil => rfl
  | cons y r => cases y <;> simp [tripleHead, glue3, this]

/-- emitting a punctuator right after an operand -/
theorem safe_emit_after_end (st : St) (b : P) (a : Tok) (rest : List STok) (hs : safeRev st.rev = true)
    (hr : st.rev = .t a :: rest) (ha : endTok a = true) (hb : b.isWord = false)
    (hnum : b = .dot → ∀ n, a ≠ .num n) : safeRev (.t (.p b) :: st.rev) = true := by
  rw [hr, safeRev_cons_tt, glue_after_end a b ha hb hnum, tripleHead_false_of_ne_bang a _ rest (endTok_ne_bang a ha),
    ← hr, hs]
  rfl

theorem OpRef.tok_ne_dot (r : OpRef) : r.tok ≠ .dot := by
  cases r with
  | un op => cases op <;> simp [OpRef.tok, UnOp.tok]
  | bin op => cases op <;> simp [OpRef.tok, BinOp.tok]

theorem endTok_ne_dot (a : Tok) (h : endTok a = true) : a ≠ .p .dot := by
  intro h'; subst h'; simp [endTok] at h

/-- an operator (binary or postfix) printed right after an operand -/
theorem emitOperator_after_end (st : St) (r : OpRef) (h : EndOK st) :
    safeRev (emitOperator st r.entry).rev = true ∧
    (∃ rest, (emitOperator st r.entry).rev = .t (.p r.tok) :: rest) ∧
    (emitOperator st r.entry).prevOp = (if r.tok.isWord then none else some r.entry.code) := by
  obtain ⟨hs, a, rest, hr, ha, _⟩ := h
  unfold emitOperator
  rw [entry_isKeyword r (OpRef.mem_all r), entry_tok]
  cases hw : r.tok.isWord with
  | true =>
    simp only [if_true]
    refine ⟨safe_emit_word st _ hs (by simpa [Tok.isWord] using hw) ?_, ⟨_, rfl⟩, rfl⟩
    intro rest' h'
    rw [hr] at h'
    simp only [List.cons.injEq, STok.t.injEq] at h'
    exact endTok_ne_dot a ha h'.1
  | false =>
    simp only [Bool.false_eq_true, if_false]
    have key : safeRev (.t (.p r.tok) :: st.rev) = true :=
      safe_emit_after_end st r.tok a rest hs hr ha hw (fun hd => absurd hd (OpRef.tok_ne_dot r))
    rw [spaceBeforeOp_eq]
    cases hp : st.prevOp with
    | none => exact ⟨by simpa [emitOp, entry_tok] using key, ⟨_, by simp only [emitOp, entry_tok]; rfl⟩, rfl⟩
    | some prev =>
      simp only []
      by_cases hc : spCond prev r.entry.code (secondLastIsLt st) = true
      · simp only [hc, if_true]
        exact ⟨by simpa [emitOp, emitSp, entry_tok, safeRev_after_sp] using hs, ⟨_, by simp only [emitOp, entry_tok]; rfl⟩, rfl⟩
      · simp only [hc, Bool.false_eq_true, if_false]
        exact ⟨by simpa [emitOp, entry_tok] using key, ⟨_, by simp only [emitOp, entry_tok]; rfl⟩, rfl⟩

theorem prefix_tok_mem (r : OpRef) (hp : r.isPrefixOp = true) (hw : r.tok.isWord = false) :
    r.tok ∈ [P.plus, .minus, .tilde, .bang, .plusplus, .minusminus] := by
  cases r with
  | bin op => simp [OpRef.isPrefixOp] at hp
  | un op => cases op <;> simp_all [OpRef.isPrefixOp, UnOp.isPostfix, OpRef.tok, UnOp.tok, P.isWord]

theorem openTok_ne_dot (a : Tok) (h : openTok a = true) : a ≠ .p .dot := by
  intro h'; subst h'; simp [openTok, P.isWord] at h

theorem openTok_ne_bang (a : Tok) (h : openTok a = true) : a ≠ .p .bang := by
  intro h'; subst h'; simp [openTok, P.isWord] at h

theorem glue_open_prefix (a : Tok) (b : P) (ha : openTok a = true)
    (hb : b ∈ [P.plus, .minus, .tilde, .bang, .plusplus, .minusminus]) : glue a (.p b) = false := by
  cases a with
  | p x =>
    by_cases hx : x.isWord = true
    · simp [glue, Tok.isWord, hx]
      cases b <;> simp_all [P.isWord]
    · have : x ∈ [P.lparen, .lbrack, .comma, .question, .colon] := by
        cases x <;> simp_all [openTok, P.isWord]
      exact glue_open x this b hb
  | _ => simp [openTok] at ha

theorem tok_bang (r : OpRef) (h : r.tok = .bang) : r = .un .not := by
  cases r with
  | un op => cases op <;> simp_all [OpRef.tok, UnOp.tok]
  | bin op => cases op <;> simp_all [OpRef.tok, BinOp.tok]

theorem prefix_minusminus (r : OpRef) (hp : r.isPrefixOp = true) (h : r.tok = .minusminus) : r = .un .preDec := by
  cases r with
  | un op => cases op <;> simp_all [OpRef.tok, UnOp.tok, OpRef.isPrefixOp, UnOp.isPostfix]
  | bin op => simp [OpRef.isPrefixOp] at hp

/-- a prefix operator printed where an operand is expected -/
theorem emitOperator_at_start (st : St) (r' : OpRef) (h : StartOK st) (hp : r'.isPrefixOp = true) :
    safeRev (emitOperator st r'.entry).rev = true ∧
    (∃ rest, (emitOperator st r'.entry).rev = .t (.p r'.tok) :: rest) ∧
    (emitOperator st r'.entry).prevOp = (if r'.tok.isWord then none else some r'.entry.code) := by
  obtain ⟨hs, hshape⟩ := h
  unfold emitOperator
  rw [entry_isKeyword r' (OpRef.mem_all r'), entry_tok]
  cases hw : r'.tok.isWord with
  | true =>
    simp only [if_true]
    refine ⟨safe_emit_word st _ hs (by simpa [Tok.isWord] using hw) ?_, ⟨_, rfl⟩, rfl⟩
    intro rest' h'
    rcases hshape with ⟨h0, _⟩ | ⟨a, rest, hr, hcase⟩
    · rw [h0] at h'; cases h'
    · rw [hr] at h'
      simp only [List.cons.injEq, STok.t.injEq] at h'
      rcases hcase with ⟨_, ho⟩ | ⟨r, _, _, _, rfl⟩
      · exact openTok_ne_dot a ho h'.1
      · exact OpRef.tok_ne_dot r (by simpa using h'.1)
  | false =>
    simp only [Bool.false_eq_true, if_false]
    have hmem := prefix_tok_mem r' hp hw
    rw [spaceBeforeOp_eq]
    rcases hshape with ⟨h0, hp0⟩ | ⟨a, rest, hr, hcase⟩
    · simp only [hp0]
      exact ⟨by simp [emitOp, h0, safeRev], ⟨_, by simp only [emitOp, entry_tok]; rfl⟩, rfl⟩
    · rcases hcase with ⟨hp0, ho⟩ | ⟨r, hrw, hrp, hpr, rfl⟩
      · simp only [hp0]
        refine ⟨?_, ⟨_, by simp only [emitOp, entry_tok]; rfl⟩, rfl⟩
        simp only [emitOp, entry_tok, hr, safeRev_cons_tt, glue_open_prefix a r'.tok ho hmem,
          tripleHead_false_of_ne_bang a _ rest (openTok_ne_bang a ho)]
        rw [← hr, hs]; rfl
      · simp only [hpr]
        by_cases hc : spCond r.entry.code r'.entry.code (secondLastIsLt st) = true
        · simp only [hc, if_true]
          exact ⟨by simpa [emitOp, emitSp, entry_tok, safeRev_after_sp] using hs,
            ⟨_, by simp only [emitOp, entry_tok]; rfl⟩, rfl⟩
        · simp only [hc, Bool.false_eq_true, if_false]
          refine ⟨?_, ⟨_, by simp only [emitOp, entry_tok]; rfl⟩, rfl⟩
          have hcf : spCond r.entry.code r'.entry.code (secondLastIsLt st) = false := by simpa using hc
          have hg := glue_ops r (OpRef.mem_all r) r' (OpRef.mem_all r') (secondLastIsLt st)
            (by cases secondLastIsLt st <;> simp) hrw hrp hw hp hcf
          simp only [emitOp, entry_tok, hr, safeRev_cons_tt, hg]
          have htrip : tripleHead (.p r.tok) (.p r'.tok) rest = false := by
            by_cases hb : r.tok = .bang
            · by_cases hm : r'.tok = .minusminus
              · have e1 := tok_bang r hb
                have e2 := prefix_minusminus r' hp hm
                subst e1 e2
                have hlt := spCond_not_preDec (secondLastIsLt st) (by cases secondLastIsLt st <;> simp)
                simp only [OpRef.entry] at hcf
                rw [hlt] at hcf
                cases rest with
                | nil => rfl
                | cons y ys =>
                  cases y with
                  | sp => rfl
                  | t c =>
                    simp only [tripleHead, glue3]
                    by_cases hcl : c = .p .lt
                    · subst hcl
                      simp [secondLastIsLt, hr, lastChar, tokText, P.text] at hcf
                    · have : (c == Tok.p P.lt) = false := by simpa using hcl
                      simp [this]
              · have : (Tok.p r'.tok == Tok.p P.minusminus) = false := by simpa using hm
                cases rest with
                | nil => rfl
                | cons y ys => cases y <;> simp [tripleHead, glue3, this]
            · exact tripleHead_false_of_ne_bang _ _ rest (by simpa using hb)
          rw [htrip, ← hr, hs]; rfl


/-- after one of `( [ , :` an operand may start -/
theorem start_after_inert (st : St) (b : P) (hs : safeRev st.rev = true)
    (hb : b = .lparen ∨ b = .lbrack ∨ b = .comma ∨ b = .colon) : StartOK (emit st (.p b)) := by
  refine ⟨safe_emit_inert st b hs (by rcases hb with rfl | rfl | rfl | rfl <;> rfl), Or.inr ⟨.p b, st.rev, rfl, Or.inl ⟨rfl, ?_⟩⟩⟩
  rcases hb with rfl | rfl | rfl | rfl <;> rfl

theorem start_open (w : Bool) (st : St) (h : StartOK st) : StartOK (open_ w st) := by
  cases w with
  | false => exact h
  | true => exact start_after_inert st .lparen h.1 (Or.inl rfl)

theorem end_after_close (st : St) (b : P) (hs : safeRev st.rev = true) (hb : b = .rparen ∨ b = .rbrack) :
    EndOK (emit st (.p b)) := by
  refine ⟨safe_emit_inert st b hs (by rcases hb with rfl | rfl <;> rfl), .p b, st.rev, rfl, ?_, Or.inl rfl⟩
  rcases hb with rfl | rfl <;> rfl

theorem end_close (w : Bool) (st : St) (h : EndOK st) : EndOK (close_ w st) := by
  cases w with
  | false => exact h
  | true => exact end_after_close st .rparen h.1 (Or.inl rfl)

/-- a leaf (identifier, number) or `new` where an operand may start -/
theorem safe_word_at_start (st : St) (b : Tok) (h : StartOK st) (hb : b.isWord = true) :
    safeRev (emit (spaceBeforeIdent st) b).rev = true := by
  apply safe_emit_word st b h.1 hb
  intro rest' h'
  rcases h.2 with ⟨h0, _⟩ | ⟨a, rest, hr, hcase⟩
  · rw [h0] at h'; cases h'
  · rw [hr] at h'
    simp only [List.cons.injEq, STok.t.injEq] at h'
    rcases hcase with ⟨_, ho⟩ | ⟨r, _, _, _, rfl⟩
    · exact openTok_ne_dot a ho h'.1
    · exact OpRef.tok_ne_dot r (by simpa using h'.1)

theorem start_of_prefix (st : St) (r' : OpRef) (h : StartOK st) (hp : r'.isPrefixOp = true) :
    StartOK (emitOperator st r'.entry) := by
  obtain ⟨h1, ⟨rest, h2⟩, h3⟩ := emitOperator_at_start st r' h hp
  refine ⟨h1, Or.inr ⟨_, rest, h2, ?_⟩⟩
  cases hw : r'.tok.isWord with
  | true => left; exact ⟨by rw [h3, hw]; rfl, by simp [openTok, hw]⟩
  | false =>
    right
    refine ⟨r', hw, ?_, by rw [h3, hw]; rfl, rfl⟩
    cases r' with
    | un op => simpa [OpRef.isPrefixOp, OpRef.isPostfix] using hp
    | bin op => rfl

theorem start_of_binary (st : St) (op : BinOp) (h : EndOK st) : StartOK (emitOperator st (binEntry op)) := by
  obtain ⟨h1, ⟨rest, h2⟩, h3⟩ := emitOperator_after_end st (.bin op) h
  refine ⟨h1, Or.inr ⟨_, rest, h2, ?_⟩⟩
  cases hw : (OpRef.bin op).tok.isWord with
  | true => left; exact ⟨by show (emitOperator st (OpRef.bin op).entry).prevOp = none; rw [h3, hw]; rfl, by simp [openTok, hw]⟩
  | false => right; exact ⟨.bin op, hw, rfl, by show (emitOperator st (OpRef.bin op).entry).prevOp = _; rw [h3, hw]; rfl, rfl⟩

theorem end_of_postfix (st : St) (op : UnOp) (h : EndOK st) (hp : op.isPostfix = true) :
    EndOK (emitOperator st (unEntry op)) := by
  obtain ⟨h1, ⟨rest, h2⟩, h3⟩ := emitOperator_after_end st (.un op) h
  have hw : (OpRef.un op).tok.isWord = false := by cases op <;> simp_all [UnOp.isPostfix, OpRef.tok, UnOp.tok, P.isWord]
  refine ⟨h1, _, rest, h2, ?_, Or.inr ⟨op, hp, by show (emitOperator st (OpRef.un op).entry).prevOp = _; rw [h3, hw]; rfl, rfl⟩⟩
  cases op <;> simp_all [UnOp.isPostfix, OpRef.tok, UnOp.tok, endTok]

theorem end_of_word (st : St) (b : Tok) (h : StartOK st) (hb : b.isWord = true) (he : endTok b = true) :
    EndOK (emit (spaceBeforeIdent st) b) :=
  ⟨safe_word_at_start st b h hb, b, _, rfl, he, Or.inl rfl⟩

theorem start_of_question (st : St) (h : EndOK st) : StartOK (emit st (.p .question)) := by
  obtain ⟨hs, a, rest, hr, ha, _⟩ := h
  exact ⟨safe_emit_after_end st .question a rest hs hr ha rfl (by intro hd; cases hd),
    Or.inr ⟨_, st.rev, rfl, Or.inl ⟨rfl, rfl⟩⟩⟩

theorem end_of_dot (st : St) (name : Nat) (h : EndOK st) :
    EndOK (emit (emit (if needSpaceBeforeDot st then emitSp st else st) (.p .dot)) (.ident name)) := by
  obtain ⟨hs, a, rest, hr, ha, _⟩ := h
  have h1 : safeRev (emit (if needSpaceBeforeDot st then emitSp st else st) (.p .dot)).rev = true := by
    cases hn : needSpaceBeforeDot st with
    | true => simpa [emit, emitSp, safeRev_after_sp] using hs
    | false =>
      simp only [Bool.false_eq_true, if_false, emit]
      apply safe_emit_after_end st .dot a rest hs hr ha rfl
      intro _ n hn'
      subst hn'
      simp [needSpaceBeforeDot, hr] at hn
  refine ⟨?_, .ident name, _, rfl, rfl, Or.inl rfl⟩
  apply safe_emit _ _ h1 (by simp)
  intro a' rest' h'
  simp only [emit, List.cons.injEq, STok.t.injEq] at h'
  rw [← h'.1]
  rfl

mutual
theorem printS_ok : (e : Expr) → (L : Nat) → (fi nt : Bool) → (st : St) → StartOK st → EndOK (printS e L fi nt st)
  | .ident n, L, fi, nt, st, h => by rw [printS_ident]; exact end_of_word st _ h rfl rfl
  | .num n, L, fi, nt, st, h => by rw [printS_num]; exact end_of_word st _ h rfl rfl
  | .unary op v, L, fi, nt, st, h => by
    rw [printS_unary]
    apply end_close
    cases hp : op.isPostfix with
    | true =>
      simp only [if_true]
      exact end_of_postfix _ op (printS_ok v 18 false false _ (start_open _ st h)) hp
    | false =>
      simp only [Bool.false_eq_true, if_false]
      exact printS_ok v 17 false false _ (start_of_prefix _ (.un op) (start_open _ st h) (by simp [OpRef.isPrefixOp, hp]))
  | .binary op l r, L, fi, nt, st, h => by
    rw [printS_binary]
    apply end_close
    exact printS_ok r _ _ false _ (start_of_binary _ op (printS_ok l _ _ false _ (start_open _ st h)))
  | .cond t y n, L, fi, nt, st, h => by
    rw [printS_cond]
    apply end_close
    apply printS_ok n
    apply start_after_inert _ .colon (printS_ok y 3 false false _ ?_).1 (by simp)
    exact start_of_question _ (printS_ok t 5 _ false _ (start_open _ st h))
  | .dot e name, L, fi, nt, st, h => by
    rw [printS_dot]
    exact end_of_dot _ name (printS_ok e 19 false nt st h)
  | .index e i, L, fi, nt, st, h => by
    rw [printS_index]
    apply end_after_close _ .rbrack _ (Or.inr rfl)
    exact (printS_ok i 0 false false _ (start_after_inert _ .lbrack (printS_ok e 19 false nt st h).1 (by simp))).1
  | .call f as, L, fi, nt, st, h => by
    rw [printS_call]
    apply end_close
    apply end_after_close _ .rparen _ (Or.inl rfl)
    have hst := start_after_inert _ .lparen (printS_ok f 19 false false _ (start_open (decide (L ≥ 20) || nt) st h)).1 (Or.inl rfl)
    cases as with
    | nil => rw [printArgsS_nil]; exact hst.1
    | cons a rest => exact (printArgsS_ok (.cons a rest) _ hst rfl).1
  | .new f as, L, fi, nt, st, h => by
    rw [printS_new]
    apply end_close
    have hnew : StartOK (emit (spaceBeforeIdent (open_ (decide (L ≥ 21)) st)) (.p .kNew)) :=
      ⟨safe_word_at_start _ _ (start_open _ st h) rfl, Or.inr ⟨_, _, rfl, Or.inl ⟨rfl, rfl⟩⟩⟩
    have hf := printS_ok f 20 false true _ hnew
    cases hpar : newParens true as L with
    | false => simpa using hf
    | true =>
      simp only [if_true]
      apply end_after_close _ .rparen _ (Or.inl rfl)
      have hst := start_after_inert _ .lparen hf.1 (Or.inl rfl)
      cases as with
      | nil => rw [printArgsS_nil]; exact hst.1
      | cons a rest => exact (printArgsS_ok (.cons a rest) _ hst rfl).1
theorem printArgsS_ok : (as : Args) → (st : St) → StartOK st → as.isNil = false → EndOK (printArgsS as st)
  | .nil, st, h, hn => by simp [Args.isNil] at hn
  | .cons a .nil, st, h, _ => by rw [printArgsS_one]; exact printS_ok a 1 false false st h
  | .cons a (.cons b more), st, h, _ => by
    rw [printArgsS_cons]
    exact printArgsS_ok (.cons b more) _ (start_after_inert _ .comma (printS_ok a 1 false false st h).1 (by simp)) rfl
end


theorem safeRev_tail (x : STok) (l : List STok) (h : safeRev (x :: l) = true) : safeRev l = true := by
  cases x with
  | sp => simpa [safeRev] using h
  | t b =>
    cases l with
    | nil => rfl
    | cons y rest =>
      cases y with
      | sp => simpa [safeRev] using h
      | t a => rw [safeRev_cons_tt] at h; simp only [Bool.and_eq_true] at h; exact h.2

theorem safeRev_drop (xs l : List STok) (h : safeRev (xs ++ l) = true) : safeRev l = true := by
  induction xs with
  | nil => exact h
  | cons x xs ih => exact ih (safeRev_tail x _ h)

/-- what `safeRev` means, in output order -/
theorem safeRev_spec (rev : List STok) (h : safeRev rev = true) (pre post : List STok) (a b : Tok)
    (hout : rev.reverse = pre ++ .t a :: .t b :: post) :
    glue a b = false ∧ ∀ c pre', pre = pre' ++ [.t c] → glue3 c a b = false := by
  have hrev : rev = post.reverse ++ (.t b :: .t a :: pre.reverse) := by
    have := congrArg List.reverse hout
    simpa using this
  rw [hrev] at h
  have h2 := safeRev_drop _ _ h
  rw [safeRev_cons_tt] at h2
  simp only [Bool.and_eq_true, Bool.not_eq_eq_eq_not, Bool.not_true] at h2
  refine ⟨h2.1.1, ?_⟩
  intro c pre' hp
  subst hp
  simpa [tripleHead] using h2.1.2


end EsbuildModel.PrecSpace
