import EsbuildModel.Lemmas.ScopesTree
/-!
The parse pass keeps sibling scopes disjoint: every symbol is fresh when it is declared, and the only copy the parse
pass makes goes from an argument scope into its (single) function body scope.
-/
namespace EsbuildModel.Scopes

def isBodyItem : Item → Bool
  | .scope .fnBody _ _ _ => true
  | _ => false

mutual
/-- no scope has two function body scopes as direct children (the parser pushes one body per argument scope) -/
def wsItem : Item → Bool
  | .scope _ _ _ body => wsItems false body
  | _ => true
def wsItems (seen : Bool) : List Item → Bool
  | [] => true
  | i :: is => wsItem i && !(isBodyItem i && seen) && wsItems (seen || isBodyItem i) is
end

def hasBody (ks : List Sc) : Bool := ks.any (fun k => k.frame.kind == .fnBody)

theorem hasBody_append (a b : List Sc) : hasBody (a ++ b) = (hasBody a || hasBody b) := by
  simp [hasBody]

theorem declareSymbol_spec {cur cur' : Frame} {st st' : PSt} {k : SK} {n : Name} {r : Nat}
    (h : declareSymbol cur st k n = some (cur', st', r)) :
    st'.syms.length = st.syms.length + 1 ∧ cur'.kind = cur.kind ∧ cur'.strict = cur.strict ∧
    cur'.generated = cur.generated ∧ cur'.label = cur.label ∧
    (∀ s, s ∈ refsOf cur'.members → s ∈ refsOf cur.members ∨ s = st.syms.length) ∧
    (r = st.syms.length ∨ r ∈ refsOf cur.members) := by
  unfold declareSymbol at h
  simp only [newSymbol] at h
  split at h
  · cases h
    refine ⟨by simp, rfl, rfl, rfl, rfl, ?_, Or.inl rfl⟩
    intro s hs; rcases mem_refsOf_insert hs with h | h
    · exact Or.inr h
    · exact Or.inl h
  · next existing hex =>
    have hmem := lookup_mem_refsOf hex
    split at h
    · cases h
    · split at h <;> cases h
      all_goals first
        | exact ⟨by simp, rfl, rfl, rfl, rfl, fun s hs => Or.inl hs, Or.inr hmem⟩
        | (refine ⟨by simp, rfl, rfl, rfl, rfl, ?_, Or.inl rfl⟩
           intro s hs; rcases mem_refsOf_insert hs with h | h
           · exact Or.inr h
           · exact Or.inl h)
        | (refine ⟨by simp, rfl, rfl, rfl, rfl, ?_, Or.inr hmem⟩
           intro s hs; rcases mem_refsOf_insert hs with h | h
           · subst h; exact Or.inl hmem
           · exact Or.inl h)

theorem copyArgs_sub {syms : Syms} : ∀ {m m' : Members}, copyArgs syms m = some m' → ∀ s, s ∈ refsOf m' → s ∈ refsOf m
  | [], m', h => by simp [copyArgs] at h; subst h; simp [refsOf]
  | (n, r) :: rest, m', h => by
    simp only [copyArgs] at h
    split at h
    · next k m hk hm =>
      have ih := copyArgs_sub hm
      split at h <;> cases h
      · intro s hs; simp only [refsOf, List.map_cons, List.mem_cons]; exact Or.inr (ih s hs)
      · intro s hs
        simp only [refsOf, List.map_cons, List.mem_cons] at hs ⊢
        rcases hs with hs | hs
        · exact Or.inl hs
        · exact Or.inr (ih s hs)
    · cases h

theorem pushFrame_spec {parent child : Frame} {k : ScK} {syms : Syms} (h : pushFrame parent k syms = some child) :
    child.kind = k ∧ (∀ s, s ∈ child.decls → s ∈ refsOf parent.members ∧ k = .fnBody) := by
  unfold pushFrame at h
  split at h
  · next hk =>
    split at h
    · cases h
    · split at h
      · cases h
      · next m hm =>
        cases h
        refine ⟨hk.symm ▸ rfl, ?_⟩
        intro s hs
        simp only [Frame.decls, List.append_nil, Option.toList] at hs
        exact ⟨copyArgs_sub hm s (by simpa using hs), hk⟩
  · cases h
    exact ⟨rfl, by intro s hs; simp [Frame.decls, refsOf] at hs⟩

@[simp] theorem classStrict_decls (f : Frame) : (classStrict f).decls = f.decls := by
  unfold classStrict; split <;> rfl
@[simp] theorem classStrict_kind (f : Frame) : (classStrict f).kind = f.kind := by
  unfold classStrict; split <;> rfl
@[simp] theorem applyUseStrict_decls1 (p c : Frame) : (applyUseStrict p c).1.decls = p.decls := by
  unfold applyUseStrict; simp only; split <;> rfl
@[simp] theorem applyUseStrict_decls2 (p c : Frame) : (applyUseStrict p c).2.decls = c.decls := by
  unfold applyUseStrict; simp only; split <;> rfl
@[simp] theorem applyUseStrict_kind1 (p c : Frame) : (applyUseStrict p c).1.kind = p.kind := by
  unfold applyUseStrict; simp only; split <;> rfl
@[simp] theorem applyUseStrict_kind2 (p c : Frame) : (applyUseStrict p c).2.kind = c.kind := by
  unfold applyUseStrict; simp only; split <;> rfl

/-- the invariant of the parse pass on the current scope and the children it has so far -/
structure PInv (c : PCtx) : Prop where
  bnd : ∀ s, s ∈ c.cur.decls → s < c.st.syms.length
  kbnd : KidsBelow c.st.syms.length c.kids
  disj : KidsDisj c.kids
  own : hasBody c.kids = false → ∀ s, s ∈ c.cur.decls → s ∉ allKids c.kids

/-- what a step of the parse pass may change -/
structure PGrow (c c' : PCtx) : Prop where
  len : c.st.syms.length ≤ c'.st.syms.length
  kind : c'.cur.kind = c.cur.kind
  cur : ∀ s, s ∈ c'.cur.decls → s ∈ c.cur.decls ∨ c.st.syms.length ≤ s
  kids : ∃ new, c'.kids = c.kids ++ new ∧ (∀ s, s ∈ allKids new → c.st.syms.length ≤ s ∨ s ∈ c.cur.decls)

theorem PGrow.refl (c : PCtx) : PGrow c c :=
  ⟨Nat.le_refl _, rfl, fun _ h => Or.inl h, [], by simp, by simp [allKids]⟩

theorem PGrow.trans {a b c : PCtx} (h1 : PGrow a b) (h2 : PGrow b c) : PGrow a c := by
  obtain ⟨n1, hk1, hn1⟩ := h1.kids
  obtain ⟨n2, hk2, hn2⟩ := h2.kids
  refine ⟨Nat.le_trans h1.len h2.len, h2.kind.trans h1.kind, ?_, n1 ++ n2, by rw [hk2, hk1, List.append_assoc], ?_⟩
  · intro s hs
    rcases h2.cur s hs with h | h
    · exact h1.cur s h
    · exact Or.inr (Nat.le_trans h1.len h)
  · intro s hs
    rw [allKids_append, List.mem_append] at hs
    rcases hs with hs | hs
    · exact hn1 s hs
    · rcases hn2 s hs with h | h
      · exact Or.inl (Nat.le_trans h1.len h)
      · rcases h1.cur s h with h | h
        · exact Or.inr h
        · exact Or.inl h

/-- a step that only touches the current scope: it may gain fresh symbols -/
theorem PInv.step {c : PCtx} (h : PInv c) {cur' : Frame} {st' : PSt} (hl : c.st.syms.length ≤ st'.syms.length)
    (hk : cur'.kind = c.cur.kind)
    (hd : ∀ s, s ∈ cur'.decls → s ∈ c.cur.decls ∨ (c.st.syms.length ≤ s ∧ s < st'.syms.length)) :
    PInv ⟨cur', c.kids, st'⟩ ∧ PGrow c ⟨cur', c.kids, st'⟩ := by
  refine ⟨⟨?_, ?_, h.disj, ?_⟩, ⟨hl, hk, ?_, [], by simp, by simp [allKids]⟩⟩
  · intro s hs
    rcases hd s hs with h1 | h1
    · exact Nat.lt_of_lt_of_le (h.bnd s h1) hl
    · exact h1.2
  · intro s hs; exact Nat.lt_of_lt_of_le (h.kbnd s hs) hl
  · intro hb s hs
    rcases hd s hs with h1 | h1
    · exact h.own hb s h1
    · intro hk; exact absurd (h.kbnd s hk) (Nat.not_lt.mpr h1.1)
  · intro s hs
    rcases hd s hs with h1 | h1
    · exact Or.inl h1
    · exact Or.inr h1.1

theorem decls_of_parts {f g : Frame} {s : Nat} {x : Nat} (hs : s ∈ f.decls)
    (hm : ∀ s, s ∈ refsOf f.members → s ∈ refsOf g.members ∨ s = x) (hg : f.generated = g.generated)
    (hl : f.label = g.label) : s ∈ g.decls ∨ s = x := by
  rw [mem_decls] at hs
  rcases hs with hs | hs | hs
  · rcases hm s hs with h | h
    · exact Or.inl (mem_decls.mpr (Or.inl h))
    · exact Or.inr h
  · exact Or.inl (mem_decls.mpr (Or.inr (Or.inl (hg ▸ hs))))
  · exact Or.inl (mem_decls.mpr (Or.inr (Or.inr (hl ▸ hs))))

theorem hasBody_singleton (k : Sc) : hasBody [k] = (k.frame.kind == .fnBody) := by simp [hasBody]

theorem isBodyItem_scope (k : ScK) (us : Bool) (l : Option Name) (b : List Item) :
    isBodyItem (.scope k us l b) = (k == .fnBody) := by
  cases k <;> rfl

mutual
theorem parseItem_inv : ∀ (i : Item) (c c' : PCtx), parseItem i c = some c' → PInv c → wsItem i = true →
    (isBodyItem i = true → hasBody c.kids = false) →
    PInv c' ∧ PGrow c c' ∧ hasBody c'.kids = (hasBody c.kids || isBodyItem i)
  | .decl k n, c, c', h, hi, _, _ => by
    simp only [parseItem] at h
    split at h
    · cases h
    · next cur st r hd =>
      cases h
      obtain ⟨hl, hk, _, hg, hlb, hm, _⟩ := declareSymbol_spec hd
      have := hi.step (cur' := cur) (st' := { st with declRefs := st.declRefs ++ [r] }) (by simp [hl]) hk
        (by
          intro s hs
          rcases decls_of_parts hs hm hg hlb with h1 | h1
          · exact Or.inl h1
          · subst h1; exact Or.inr ⟨Nat.le_refl _, by simp [hl]⟩)
      exact ⟨this.1, this.2, by simp [isBodyItem]⟩
  | .declArgs, c, c', h, hi, _, _ => by
    simp only [parseItem] at h
    split at h
    · cases h; exact ⟨hi, PGrow.refl _, by simp [isBodyItem]⟩
    · split at h
      · cases h
      · next cur st r hd =>
        cases h
        obtain ⟨hl, hk, _, hg, hlb, hm, _⟩ := declareSymbol_spec hd
        have := hi.step (cur' := cur) (st' := { st with syms := pin st.syms r }) (by simp [hl]) hk
          (by
            intro s hs
            rcases decls_of_parts hs hm hg hlb with h1 | h1
            · exact Or.inl h1
            · subst h1; exact Or.inr ⟨Nat.le_refl _, by simp [hl]⟩)
        exact ⟨this.1, this.2, by simp [isBodyItem]⟩
  | .rawSym n, c, c', h, hi, _, _ => by
    simp only [parseItem, newSymbol] at h
    cases h
    have := hi.step (cur' := c.cur)
      (st' := { c.st with syms := c.st.syms ++ [⟨.other, n, none, false⟩], declRefs := c.st.declRefs ++ [c.st.syms.length] })
      (by simp) rfl (fun s hs => Or.inl hs)
    exact ⟨this.1, this.2, by simp [isBodyItem]⟩
  | .genSym n, c, c', h, hi, _, _ => by
    simp only [parseItem, newSymbol] at h
    cases h
    have := hi.step (cur' := { c.cur with generated := c.cur.generated ++ [c.st.syms.length] })
      (st' := { c.st with syms := c.st.syms ++ [⟨.other, n, none, false⟩] })
      (by simp) rfl
      (by
        intro s hs
        simp only [Frame.decls, List.mem_append, List.mem_singleton] at hs ⊢
        rcases hs with (hs | hs | hs) | hs
        · exact Or.inl (Or.inl (Or.inl hs))
        · exact Or.inl (Or.inl (Or.inr hs))
        · subst hs; exact Or.inr ⟨Nat.le_refl _, by simp⟩
        · exact Or.inl (Or.inr hs))
    exact ⟨this.1, this.2, by simp [isBodyItem]⟩
  | .classInner _, c, c', h, hi, _, _ => by
    simp only [parseItem] at h; cases h; exact ⟨hi, PGrow.refl _, by simp [isBodyItem]⟩
  | .ref _, c, c', h, hi, _, _ => by
    simp only [parseItem] at h; cases h; exact ⟨hi, PGrow.refl _, by simp [isBodyItem]⟩
  | .eval, c, c', h, hi, _, _ => by
    simp only [parseItem] at h; cases h; exact ⟨hi, PGrow.refl _, by simp [isBodyItem]⟩
  | .cut, c, c', h, hi, _, _ => by
    simp only [parseItem] at h; cases h; exact ⟨hi, PGrow.refl _, by simp [isBodyItem]⟩
  | .scope k us lbl body, c, c', h, hi, hws, hb => by
    simp only [parseItem] at h
    split at h
    · cases h
    · next child0 hpush =>
      obtain ⟨hck, hcd⟩ := pushFrame_spec hpush
      split at h
      · cases h
      · next r hr =>
        cases h
        -- the child context
        have hchild_decls : ∀ s, s ∈ (if us = true then applyUseStrict c.cur (classStrict child0)
            else (c.cur, classStrict child0)).2.decls → s ∈ refsOf c.cur.members ∧ k = .fnBody := by
          intro s hs
          split at hs
          · simp at hs; exact hcd s hs
          · simp at hs; exact hcd s hs
        have hchild_kind : (if us = true then applyUseStrict c.cur (classStrict child0)
            else (c.cur, classStrict child0)).2.kind = k := by
          split <;> simp [hck]
        have hpar_decls : (if us = true then applyUseStrict c.cur (classStrict child0)
            else (c.cur, classStrict child0)).1.decls = c.cur.decls := by
          split <;> simp
        have hpar_kind : (if us = true then applyUseStrict c.cur (classStrict child0)
            else (c.cur, classStrict child0)).1.kind = c.cur.kind := by
          split <;> simp
        have hci : PInv ⟨(if us = true then applyUseStrict c.cur (classStrict child0)
            else (c.cur, classStrict child0)).2, [], c.st⟩ := by
          refine ⟨?_, ?_, ?_, ?_⟩
          · intro s hs
            exact hi.bnd s (mem_decls.mpr (Or.inl (hchild_decls s hs).1))
          · intro s hs; simp [allKids] at hs
          · simp [KidsDisj]
          · intro _ s _ hk; simp [allKids] at hk
        simp only [wsItem] at hws
        obtain ⟨hri, hrg⟩ := parseItems_inv body _ r hr hci (by simpa [hasBody] using hws)
        obtain ⟨new, hnew, hnewfresh⟩ := hrg.kids
        simp only [List.nil_append] at hnew
        have hrk : r.cur.kind = k := hrg.kind.trans hchild_kind
        -- every symbol of the new child is fresh or a copied argument
        have hK : ∀ s, s ∈ (Sc.node r.cur r.kids).all →
            c.st.syms.length ≤ s ∨ (s ∈ refsOf c.cur.members ∧ k = .fnBody) := by
          intro s hs
          simp only [Sc.all, List.mem_append] at hs
          rcases hs with hs | hs
          · rcases hrg.cur s hs with h1 | h1
            · exact Or.inr (hchild_decls s h1)
            · exact Or.inl h1
          · rw [hnew] at hs
            rcases hnewfresh s hs with h1 | h1
            · exact Or.inl h1
            · exact Or.inr (hchild_decls s h1)
        have hKlt : ∀ s, s ∈ (Sc.node r.cur r.kids).all → s < r.st.syms.length := by
          intro s hs
          simp only [Sc.all, List.mem_append] at hs
          rcases hs with hs | hs
          · exact hri.bnd s hs
          · exact hri.kbnd s hs
        have hbk : isBodyItem (.scope k us lbl body) = (k == .fnBody) := isBodyItem_scope k us lbl body
        refine ⟨⟨?_, ?_, ?_, ?_⟩, ⟨hrg.len, hpar_kind, ?_, [Sc.node r.cur r.kids], rfl, ?_⟩, ?_⟩
        · intro s hs
          rw [hpar_decls] at hs
          exact Nat.lt_of_lt_of_le (hi.bnd s hs) hrg.len
        · intro s hs
          rw [allKids_append, List.mem_append, allKids_singleton] at hs
          rcases hs with hs | hs
          · exact Nat.lt_of_lt_of_le (hi.kbnd s hs) hrg.len
          · exact hKlt s hs
        · refine kidsDisj_append hi.disj ?_ ?_
          · simp only [Sc.SibDisj]; exact hri.disj
          · intro s hs hsK
            rcases hK s hsK with h1 | ⟨h1, h2⟩
            · exact absurd (hi.kbnd s hs) (Nat.not_lt.mpr h1)
            · have : hasBody c.kids = false := hb (by rw [hbk, h2]; rfl)
              exact hi.own this s (mem_decls.mpr (Or.inl h1)) hs
        · intro hnb s hs
          rw [hpar_decls] at hs
          rw [hasBody_append, hasBody_singleton] at hnb
          simp only [Sc.frame, Bool.or_eq_false_iff] at hnb
          rw [allKids_append, List.mem_append, allKids_singleton]
          rintro (h1 | h1)
          · exact hi.own hnb.1 s hs h1
          · rcases hK s h1 with h2 | ⟨_, h2⟩
            · exact absurd (hi.bnd s hs) (Nat.not_lt.mpr h2)
            · rw [hrk, h2] at hnb; simp at hnb
        · intro s hs; rw [hpar_decls] at hs; exact Or.inl hs
        · intro s hs
          rw [allKids_singleton] at hs
          rcases hK s hs with h1 | ⟨h1, _⟩
          · exact Or.inl h1
          · exact Or.inr (mem_decls.mpr (Or.inl h1))
        · rw [hasBody_append, hasBody_singleton, hbk]; simp only [Sc.frame, hrk]
theorem parseItems_inv : ∀ (is : List Item) (c c' : PCtx), parseItems is c = some c' → PInv c →
    wsItems (hasBody c.kids) is = true → PInv c' ∧ PGrow c c'
  | [], c, c', h, hi, _ => by
    simp only [parseItems] at h; cases h; exact ⟨hi, PGrow.refl _⟩
  | i :: is, c, c', h, hi, hws => by
    simp only [parseItems] at h
    split at h
    · cases h
    · next c1 h1 =>
      simp only [wsItems, Bool.and_eq_true, Bool.not_eq_true', Bool.and_eq_false_iff] at hws
      obtain ⟨hi1, hg1, hb1⟩ := parseItem_inv i c c1 h1 hi hws.1.1 (by
        intro hb; rcases hws.1.2 with h2 | h2
        · rw [hb] at h2; cases h2
        · exact h2)
      obtain ⟨hi2, hg2⟩ := parseItems_inv is c1 c' h hi1 (by rw [hb1]; exact hws.2)
      exact ⟨hi2, hg1.trans hg2⟩
end

end EsbuildModel.Scopes
