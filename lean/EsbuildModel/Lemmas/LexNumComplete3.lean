import EsbuildModel.Lemmas.LexNumComplete2
/-
Completeness for DecimalLiteral derivations scanned by the floating-point branch.
-/
namespace EsbuildModel.LexNum
open EsbuildModel.Spec.Num EsbuildModel.Spec.NumLit

theorem dec_valid_parts {i : List Char} {f : Option (List Char)} {e : Option ExpS}
    (hv : (Lit.dec i f e).valid = true) :
    expSOk e = true ∧ ((i = [] ∧ ∃ g, f = some g ∧ sepDigits Spec.Num.isDigit g = true) ∨
      (i ≠ [] ∧ decIntOk i = true ∧ fracOk f = true)) := by
  simp only [Lit.valid, Bool.and_eq_true] at hv
  refine ⟨hv.2, ?_⟩
  have h1 := hv.1
  cases i with
  | nil =>
    cases f with
    | none => simp at h1
    | some g => exact Or.inl ⟨rfl, g, rfl, h1⟩
  | cons c r =>
    cases f with
    | none => exact Or.inr ⟨by simp, h1, rfl⟩
    | some g =>
      simp only [Bool.and_eq_true] at h1
      exact Or.inr ⟨by simp, h1.1, h1.2⟩

theorem dec_complete_float {P : Params} {R : Rat → F64} (hP : ParamsOK P R) {i : List Char}
    {f : Option (List Char)} {e : Option ExpS} {rest : List Char} (hv : (Lit.dec i f e).valid = true)
    (hfol : FollowOK P rest) (hnd : secondIsOctal i = false) :
    lexNum P ((Lit.dec i f e).render ++ rest) =
      .num (Lit.dec i f e).render.length (R (Lit.dec i f e).mv) (nonOctalDec i) := by
  obtain ⟨he, hcase⟩ := dec_valid_parts hv
  rcases hcase with ⟨rfl, g, rfl, hg⟩ | ⟨hne, hi, hfr⟩
  · -- `.5`
    have hsrc : (Lit.dec [] (some g) e).render ++ rest = '.' :: (g ++ (fracText none ++ (expSText e ++ rest))) := by
      simp [Lit.render, fracText]
    have hhd : headIsDig (g ++ (fracText none ++ (expSText e ++ rest))) = true := by
      have := sepDigits_head hg
      cases g with
      | nil => simp [headIsDig] at this
      | cons d g' => simpa [headIsDig] using this
    obtain ⟨s3, hfp, hl⟩ := float_complete_gen (P := P) (first := '.') (by decide) (run1 := g) none e (rest := rest)
      (runOK_of_sepDigits isDigit_us hg false) (by intro h; simp at h) (fun h => absurd rfl h) (fun _ => rfl) he hfol
    rw [hsrc]
    have hlex : lexNum P ('.' :: (g ++ (fracText none ++ (expSText e ++ rest)))) =
        floatPath P '.' ('.' :: (g ++ (fracText none ++ (expSText e ++ rest)))) (g ++ (fracText none ++ (expSText e ++ rest))) := by
      simp [lexNum, hhd]
    rw [hlex, hfp]
    have hrender : (Lit.dec [] (some g) e).render = '.' :: (g ++ (fracText none ++ expSText e)) := by
      simp [Lit.render, fracText]
    simp only [Res.num.injEq]
    refine ⟨by rw [hl, hrender], ?_, by simp [nonOctalDec]⟩
    simp only [beq_self_eq_true, Bool.true_or, Bool.not_true, Bool.false_and, Bool.false_eq_true, if_false]
    rw [← hrender]
    exact dec_pf hP hv
  · cases i with
    | nil => exact absurd rfl hne
    | cons c run1 =>
      obtain ⟨hdig, hrun1, hshape⟩ := decIntOk_cons hi
      have hdot : c ≠ '.' := by rintro rfl; revert hdig; decide
      have hsrc : (Lit.dec (c :: run1) f e).render ++ rest = c :: (run1 ++ (fracText f ++ (expSText e ++ rest))) := by
        simp [Lit.render]
      have hz : c = '0' → ∀ x r, run1 ++ (fracText f ++ (expSText e ++ rest)) = x :: r → NoBaseTrigger x := by
        intro hc0 x r hx
        subst hc0
        cases run1 with
        | nil => exact noBaseTrigger_tail f e hfol x r hx
        | cons d run1' =>
          simp only [List.cons_append, List.cons.injEq] at hx
          rw [← hx.1]
          have hd : isDig d = true := by
            rcases hshape with ⟨_, h⟩ | ⟨h, _⟩ | ⟨_, _, h, _⟩
            · cases h
            · exact absurd rfl h
            · exact h d List.mem_cons_self
          exact noBaseTrigger_digit hd (by simpa [secondIsOctal] using hnd)
      have hil : (c == '0' && headIs (run1 ++ (fracText f ++ (expSText e ++ rest))) (fun c => c == '8' || c == '9')) = true →
          ∀ x ∈ run1, x ≠ '_' := by
        intro h x hx
        simp only [Bool.and_eq_true, beq_iff_eq] at h
        rcases hshape with ⟨_, h'⟩ | ⟨h', _⟩ | ⟨_, _, h', _⟩
        · subst h'; cases hx
        · exact absurd h.1 h'
        · exact isDig_ne_us (h' x hx)
      obtain ⟨s3, hfp, hl⟩ := float_complete_gen (P := P) (first := c) (isDig_ne_us hdig) (run1 := run1) f e (rest := rest)
        hrun1 hil (fun _ => hfr) (fun h => absurd h hdot) he hfol
      rw [hsrc, lexNum_float_of hdot hdig hz, hfp]
      have hrender : (Lit.dec (c :: run1) f e).render = c :: (run1 ++ (fracText f ++ expSText e)) := by
        simp [Lit.render]
      have hcd : (c == '.') = false := by simpa using hdot
      simp only [Res.num.injEq]
      refine ⟨by rw [hl, hrender], ?_, ?_⟩
      · rw [← hrender, hcd, Bool.false_or]
        exact dec_value hP hv (f.isSome || e.isSome) rfl s3.end_ (by rw [hl, hrender])
      · exact ((decInt_valid hdig rfl hrun1 (stop_frac f e hfol) (fun h x r hx => by
            obtain ⟨h1, h2, _⟩ := hz h x r hx; exact ⟨h1, h2⟩) hil).2).symm

end EsbuildModel.LexNum
