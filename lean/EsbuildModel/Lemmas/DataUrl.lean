import EsbuildModel.Impl.DataUrl
namespace EsbuildModel.DataUrl

theorem hexDigit_isHex (d : Nat) (h : d < 16) : isHex (hexDigit d) = true := by
  unfold hexDigit isHex; split <;> simp <;> omega

theorem hexVal_hexDigit (d : Nat) (h : d < 16) : hexVal (hexDigit d) = d := by
  unfold hexDigit hexVal; split <;> simp <;> (repeat' split) <;> omega

theorem not_isHex_37 : isHex 37 = false := by decide

/-- if the encoding of `rest` begins with two hex digits then so does `rest` -/
theorem hex2_enc (rest : List Nat) (h : hex2 (enc rest) = true) : hex2 rest = true := by
  match rest with
  | [] => simp [enc, hex2] at h
  | [a] =>
    simp only [enc] at h
    split at h
    · simp [hex2, not_isHex_37] at h
    · simp [hex2] at h
  | a :: b :: r =>
    simp only [enc] at h
    split at h
    · simp [hex2, not_isHex_37] at h
    · split at h
      · simp [hex2, not_isHex_37] at h
      · simpa [hex2] using h

theorem dec_cons_ne (c : Nat) (l : List Nat) (hc : c ≠ 37) : dec (c :: l) = c :: dec l := by
  match l with
  | [] => simp [dec]
  | [d] => simp [dec]
  | a :: b :: r => simp [dec, hc]

theorem dec_37_nohex (l : List Nat) (h : hex2 l = false) : dec (37 :: l) = 37 :: dec l := by
  match l with
  | [] => simp [dec]
  | [d] => simp [dec]
  | a :: b :: r =>
    simp only [hex2, Bool.and_eq_false_iff] at h
    simp only [dec]
    split
    · rename_i hh; rcases h with h | h <;> simp_all
    · rfl

theorem dec_enc (t : List Nat) (hb : ∀ c ∈ t, c < 256) : dec (enc t) = t := by
  induction t with
  | nil => rfl
  | cons c rest ih =>
    have hc : c < 256 := hb c (by simp)
    have ih' := ih (fun x hx => hb x (by simp [hx]))
    simp only [enc]
    split
    · -- escaped
      have h1 : c / 16 < 16 := by omega
      have h2 : c % 16 < 16 := by omega
      simp only [dec, hexDigit_isHex _ h1, hexDigit_isHex _ h2, hexVal_hexDigit _ h1, hexVal_hexDigit _ h2, and_self, ↓reduceIte, ih']
      congr 1; omega
    · rename_i hne
      by_cases h37 : c = 37
      · subst h37
        have hnh : hex2 rest = false := by
          simp only [needsEscape, Bool.or_eq_true, Bool.and_eq_true, not_or] at hne
          simpa using hne.2
        have : hex2 (enc rest) = false := by
          cases hh : hex2 (enc rest) with
          | false => rfl
          | true => rw [hex2_enc rest hh] at hnh; exact absurd hnh (by simp)
        rw [dec_37_nohex _ this, ih']
      · rw [dec_cons_ne _ _ h37, ih']

theorem hexDigit_range (d : Nat) (h : d < 16) : 48 ≤ hexDigit d ∧ hexDigit d ≤ 70 := by
  unfold hexDigit; split <;> omega

theorem enc_no_forbidden (t : List Nat) (hb : ∀ c ∈ t, c < 256) :
    ∀ b ∈ enc t, b ≠ 9 ∧ b ≠ 10 ∧ b ≠ 13 ∧ b ≠ 35 := by
  induction t with
  | nil => simp [enc]
  | cons c rest ih =>
    have hc : c < 256 := hb c (by simp)
    have ih' := ih (fun x hx => hb x (by simp [hx]))
    intro b hbm
    simp only [enc] at hbm
    split at hbm
    · simp only [List.mem_cons] at hbm
      have r1 := hexDigit_range (c / 16) (by omega)
      have r2 := hexDigit_range (c % 16) (by omega)
      rcases hbm with h | h | h | h
      · omega
      · omega
      · omega
      · exact ih' b h
    · rename_i hne
      simp only [List.mem_cons] at hbm
      rcases hbm with h | h
      · subst h
        simp only [needsEscape, Bool.or_eq_true, not_or] at hne
        simp at hne
        omega
      · exact ih' b h
end EsbuildModel.DataUrl
