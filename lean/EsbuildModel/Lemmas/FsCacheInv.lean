import EsbuildModel.Lemmas.FsCache
/-
Preservation of the trust invariant by the world's steps (edits, time), frame lemmas.
-/
namespace EsbuildModel.FsCache
open EsbuildModel.StatCache

/-! ## frame: acts touch only clock, world, seen -/
@[simp] theorem stepAct_cache (cfg : Cfg) (s : State) (a : Act) : (stepAct cfg s a).cache = s.cache := by cases a <;> rfl
@[simp] theorem stepAct_wd (cfg : Cfg) (s : State) (a : Act) : (stepAct cfg s a).wd = s.wd := by cases a <;> rfl
@[simp] theorem stepAct_log (cfg : Cfg) (s : State) (a : Act) : (stepAct cfg s a).log = s.log := by cases a <;> rfl
@[simp] theorem stepAct_lastRead (cfg : Cfg) (s : State) (a : Act) : (stepAct cfg s a).lastRead = s.lastRead := by cases a <;> rfl
@[simp] theorem stepAct_sawMissing (cfg : Cfg) (s : State) (a : Act) : (stepAct cfg s a).sawMissing = s.sawMissing := by cases a <;> rfl
@[simp] theorem stepAct_flip (cfg : Cfg) (s : State) (a : Act) : (stepAct cfg s a).flip = s.flip := by cases a <;> rfl

@[simp] theorem runActs_cache (cfg : Cfg) (s : State) (as : List Act) : (runActs cfg s as).cache = s.cache := by
  induction as generalizing s with
  | nil => rfl
  | cons a as ih => simp [runActs, ih]
@[simp] theorem runActs_wd (cfg : Cfg) (s : State) (as : List Act) : (runActs cfg s as).wd = s.wd := by
  induction as generalizing s with
  | nil => rfl
  | cons a as ih => simp [runActs, ih]
@[simp] theorem runActs_log (cfg : Cfg) (s : State) (as : List Act) : (runActs cfg s as).log = s.log := by
  induction as generalizing s with
  | nil => rfl
  | cons a as ih => simp [runActs, ih]
@[simp] theorem runActs_lastRead (cfg : Cfg) (s : State) (as : List Act) : (runActs cfg s as).lastRead = s.lastRead := by
  induction as generalizing s with
  | nil => rfl
  | cons a as ih => simp [runActs, ih]
@[simp] theorem runActs_sawMissing (cfg : Cfg) (s : State) (as : List Act) : (runActs cfg s as).sawMissing = s.sawMissing := by
  induction as generalizing s with
  | nil => rfl
  | cons a as ih => simp [runActs, ih]
@[simp] theorem runActs_flip (cfg : Cfg) (s : State) (as : List Act) : (runActs cfg s as).flip = s.flip := by
  induction as generalizing s with
  | nil => rfl
  | cons a as ih => simp [runActs, ih]

theorem upd_same {α : Type} (m : Nat → α) (k : Nat) (v : α) : upd m k v k = v := by simp [upd]
theorem upd_other {α : Type} (m : Nat → α) {k k' : Nat} (v : α) (h : k' ≠ k) : upd m k v k' = m k' := by simp [upd, h]

/-! ## one act -/

theorem stepAct_clock_mono {cfg : Cfg} {s : State} {a : Act} (hok : ActOK cfg s a) : s.clock ≤ (stepAct cfg s a).clock := by
  cases a with
  | edit e => exact Int.le_refl _
  | tick d => simp only [stepAct]; omega
  | setClock t => exact hok

theorem stepAct_seen_sub (cfg : Cfg) (s : State) (a : Act) (p x : Nat) (h : x ∈ s.seen p) : x ∈ (stepAct cfg s a).seen p := by
  cases a with
  | edit e =>
    simp only [stepAct]
    by_cases hp : p = e.path
    · subst hp; rw [upd_same]; exact List.mem_append_right _ h
    · rw [upd_other _ _ hp]; exact h
  | tick d => exact h
  | setClock t => exact h

theorem SeenInv_stepAct {cfg : Cfg} {s : State} (a : Act) (h : SeenInv s) : SeenInv (stepAct cfg s a) := by
  cases a with
  | edit e =>
    intro p f hf
    simp only [stepAct] at hf ⊢
    by_cases hp : p = e.path
    · subst hp
      rw [upd_same] at hf
      rw [upd_same, hf]
      simp [inoOf]
    · rw [upd_other _ _ hp] at hf
      rw [upd_other _ _ hp]
      exact h p f hf
  | tick d => exact h
  | setClock t => exact h

theorem Trusts_clock {cfg : Cfg} {c c' : Int} {seenp : List Nat} {fp : Option File} {K : ModKey} {C : Contents}
    (hc : c ≤ c') (h : Trusts cfg c seenp fp K C) : Trusts cfg c' seenp fp K C := by
  refine ⟨?_, h.2.1, h.2.2⟩
  have : keyTime cfg.plat (c - gapNs cfg) ≤ keyTime cfg.plat (c' - gapNs cfg) := keyTime_mono _ (by omega)
  exact Int.le_trans h.1 this

/-- the heart of the matter: a change of the path that satisfies `StepOK` keeps every trusted key trusted -/
theorem Trusts_change {cfg : Cfg} {t : Int} {seenp : List Nat} {old new : Option File} {K : ModKey} {C : Contents}
    (hok : StepOK cfg t seenp old new) (h : Trusts cfg t seenp old K C) :
    Trusts cfg t (inoOf new ++ seenp) new K C := by
  obtain ⟨hA, hB, hC⟩ := h
  refine ⟨hA, fun hu => List.mem_append_right _ (hB hu), ?_⟩
  intro f hf
  subst hf
  simp only [StepOK] at hok
  rcases hok with hfresh | ⟨hu, hnew⟩ | ⟨o, ho, hcont, htime, hino⟩
  · left
    exact Int.lt_of_le_of_lt hA hfresh
  · right; left
    refine ⟨hu, ?_⟩
    intro heq
    exact hnew (heq ▸ hB hu)
  · rcases hC o ho with h1 | ⟨hu, h2⟩ | h3
    · left; exact Int.lt_of_lt_of_le h1 htime
    · right; left; exact ⟨hu, by rw [hino hu]; exact h2⟩
    · right; right; rw [hcont]; exact h3

theorem Trusts_stepAct {cfg : Cfg} {s : State} {a : Act} {p : Nat} {K : ModKey} {C : Contents}
    (hok : ActOK cfg s a) (h : Trusts cfg s.clock (s.seen p) (s.world p) K C) :
    Trusts cfg (stepAct cfg s a).clock ((stepAct cfg s a).seen p) ((stepAct cfg s a).world p) K C := by
  cases a with
  | edit e =>
    simp only [stepAct]
    by_cases hp : p = e.path
    · subst hp
      rw [upd_same, upd_same]
      exact Trusts_change hok h
    · rw [upd_other _ _ hp, upd_other _ _ hp]; exact h
  | tick d => exact Trusts_clock (stepAct_clock_mono (a := .tick d) hok) h
  | setClock t => exact Trusts_clock (stepAct_clock_mono (a := .setClock t) hok) h

/-! ## lists of acts -/

theorem runActs_clock_mono {cfg : Cfg} {s : State} {as : List Act} (hok : ActsOK cfg s as) : s.clock ≤ (runActs cfg s as).clock := by
  induction as generalizing s with
  | nil => exact Int.le_refl _
  | cons a as ih => exact Int.le_trans (stepAct_clock_mono hok.1) (ih hok.2)

theorem runActs_seen_sub (cfg : Cfg) (s : State) (as : List Act) (p x : Nat) (h : x ∈ s.seen p) : x ∈ (runActs cfg s as).seen p := by
  induction as generalizing s with
  | nil => exact h
  | cons a as ih => exact ih _ (stepAct_seen_sub cfg s a p x h)

theorem SeenInv_runActs {cfg : Cfg} {s : State} (as : List Act) (h : SeenInv s) : SeenInv (runActs cfg s as) := by
  induction as generalizing s with
  | nil => exact h
  | cons a as ih => exact ih (SeenInv_stepAct a h)

theorem Trusts_runActs {cfg : Cfg} {s : State} {as : List Act} {p : Nat} {K : ModKey} {C : Contents}
    (hok : ActsOK cfg s as) (h : Trusts cfg s.clock (s.seen p) (s.world p) K C) :
    Trusts cfg (runActs cfg s as).clock ((runActs cfg s as).seen p) ((runActs cfg s as).world p) K C := by
  induction as generalizing s with
  | nil => exact h
  | cons a as ih => exact ih hok.2 (Trusts_stepAct hok.1 h)

theorem CacheInv_runActs {cfg : Cfg} {s : State} {as : List Act} (hok : ActsOK cfg s as) (h : CacheInv cfg s) :
    CacheInv cfg (runActs cfg s as) := by
  intro p e he hu
  rw [runActs_cache] at he
  exact Trusts_runActs hok (h p e he hu)

/-- a hit under the invariant returns the contents of the file that `stat` just looked at -/
theorem trusted_key_current {cfg : Cfg} {clock now : Int} {seenp : List Nat} {fp : Option File} {K : ModKey} {C : Contents}
    (h : Trusts cfg clock seenp fp K C) (hk : modKey cfg.plat cfg.gapSec now fp = .ok K) : resOf fp = .ok C := by
  obtain ⟨f, hf, hkt, _, hino, _, _, _⟩ := modKey_ok hk
  rcases h.2.2 f hf with h1 | ⟨hu, h2⟩ | h3
  · omega
  · exact absurd (hino hu).symm h2
  · subst hf; simp [resOf, h3]

/-- the key `stat` gives now, with the contents read afterwards (after trusted acts), can be trusted -/
theorem new_key_trusted {cfg : Cfg} {s : State} {as : List Act} {p : Nat} {K : ModKey} {f : File}
    (hseen : SeenInv s) (hok : ActsOK cfg s as)
    (hk : modKey cfg.plat cfg.gapSec s.clock (s.world p) = .ok K) (hf : (runActs cfg s as).world p = some f) :
    Trusts cfg (runActs cfg s as).clock ((runActs cfg s as).seen p) ((runActs cfg s as).world p) K f.contents := by
  obtain ⟨f0, hf0, hkt, hold, hino, _, _, _⟩ := modKey_ok hk
  refine ⟨?_, ?_, ?_⟩
  · rw [hkt]
    apply keyTime_mono
    have := runActs_clock_mono hok
    simp only [gapNs]
    omega
  · intro hu
    rw [hino hu]
    exact runActs_seen_sub cfg s as p _ (hseen p f0 hf0)
  · intro f' hf'
    rw [hf] at hf'
    cases hf'
    right; right; rfl

end EsbuildModel.FsCache
