import EsbuildModel.Lemmas.ScopesLookupThm
/-!
MustNotBeRenamed in hoistSymbols: a variable that is declared in the body of a `with` statement or hoisted past one keeps
its name, and so does the declaration it is merged into; the implicit `arguments` binding that a hoisted `var arguments`
is merged with keeps its name.
-/
namespace EsbuildModel.Scopes

theorem isPinned_of_get {syms : Syms} {i : Nat} {s : Sym} (h : syms[i]? = some s) : isPinned syms i = s.pinned := by
  simp [isPinned, h]

theorem isPinned_lt {syms : Syms} {i : Nat} (h : isPinned syms i = true) : i < syms.length := by
  rcases Nat.lt_or_ge i syms.length with h1 | h1
  · exact h1
  · simp [isPinned, List.getElem?_eq_none h1] at h

theorem isPinned_modify (syms : Syms) (i j : Nat) (f : Sym → Sym) :
    isPinned (syms.modify i f) j = if i = j then (match syms[j]? with | some s => (f s).pinned | none => false) else isPinned syms j := by
  unfold isPinned
  rw [List.getElem?_modify]
  by_cases h : i = j
  · subst h; cases syms[i]? <;> simp
  · cases syms[j]? <;> simp [h]

theorem isPinned_pin_self {syms : Syms} {i : Nat} (h : i < syms.length) : isPinned (pin syms i) i = true := by
  unfold Scopes.pin; rw [isPinned_modify]; simp [List.getElem?_eq_getElem h]

theorem isPinned_pin_mono {syms : Syms} {i j : Nat} (h : isPinned syms j = true) : isPinned (pin syms i) j = true := by
  unfold Scopes.pin; rw [isPinned_modify]
  split
  · next e => subst e; unfold isPinned at h; cases hs : syms[i]? <;> simp_all
  · exact h

theorem isPinned_setLink (syms : Syms) (i : Nat) (l : Option Nat) (j : Nat) :
    isPinned (setLink syms i l) j = isPinned syms j := by
  unfold Scopes.setLink; rw [isPinned_modify]
  split
  · next e => subst e; unfold isPinned; cases syms[i]? <;> simp
  · rfl

/-- MustNotBeRenamed is never taken away -/
def PinKept (a b : Syms) : Prop := ∀ i, isPinned a i = true → isPinned b i = true

theorem PinKept.refl (a : Syms) : PinKept a a := fun _ h => h
theorem PinKept.trans {a b c : Syms} (h1 : PinKept a b) (h2 : PinKept b c) : PinKept a c := fun i h => h2 i (h1 i h)
theorem PinKept.pin (a : Syms) (i : Nat) : PinKept a (pin a i) := fun _ h => isPinned_pin_mono h
theorem PinKept.setLink (a : Syms) (i : Nat) (l : Option Nat) : PinKept a (setLink a i l) :=
  fun j h => by rw [isPinned_setLink]; exact h

theorem pin_of_pinned {syms : Syms} {i : Nat} (h : isPinned syms i = true) : pin syms i = syms := by
  unfold Scopes.pin
  apply List.ext_getElem?
  intro j
  rw [List.getElem?_modify]
  by_cases hij : i = j
  · subst hij
    unfold isPinned at h
    cases hs : syms[i]? with
    | none => simp
    | some s =>
      rw [hs] at h
      simp only [if_true, Option.map_some]
      cases s; simp_all
  · simp [hij]

theorem pinKept_pinLinks (fuel : Nat) (syms : Syms) (t : Nat) : PinKept syms (pinLinks fuel syms t) :=
  pinLinks_ind (fun a => PinKept syms a) (fun a i h => h.trans (PinKept.pin a i)) fuel syms t (.refl _)

theorem linkOf_pinLinks (fuel : Nat) (syms : Syms) (t j : Nat) : linkOf (pinLinks fuel syms t) j = linkOf syms j :=
  pinLinks_ind (fun a => linkOf a j = linkOf syms j) (fun a i h => by rw [linkOf_pin]; exact h) fuel syms t rfl

theorem isPinned_pinLinks_self {syms : Syms} {t : Nat} (h : t < syms.length) (fuel : Nat) :
    isPinned (pinLinks (fuel + 1) syms t) t = true := by
  simp only [pinLinks, List.getElem?_eq_getElem h]
  split
  · exact isPinned_pin_self h
  · exact pinKept_pinLinks _ _ _ _ (isPinned_pin_self h)

/-- the symbol `m` is merged into, or `m` itself -/
def target (syms : Syms) (m : Nat) : Nat :=
  match linkOf syms m with
  | some t => t
  | none => m

theorem target_of_none {syms : Syms} {m : Nat} (h : linkOf syms m = none) : target syms m = m := by
  simp [target, h]

theorem kindOf_lt {syms : Syms} {i : Nat} {k : SK} (h : kindOf? syms i = some k) : i < syms.length := by
  rcases Nat.lt_or_ge i syms.length with h1 | h1
  · exact h1
  · simp [kindOf?, List.getElem?_eq_none h1] at h

/-- the walk of hoistSymbols for a symbol that must not be renamed: what it is merged into must not be renamed either -/
theorem hoistUp_pinned (name : Name) (mref orig : Nat) (sl : Bool) :
    ∀ (first : Bool) (anc : List Frame) (st : HSt) (anc' : List Frame) (st' : HSt),
    hoistUp name mref orig sl first anc st = some (anc', st') →
    isPinned st.syms mref = true → linkOf st.syms mref = none →
    (∀ X, X ∈ anc → ∀ x, lookup name X.members = some x → x ≠ mref) →
    isPinned st'.syms (target st'.syms mref) = true ∧ PinKept st.syms st'.syms
  | _, [], _, _, _, h, _, _, _ => by simp [hoistUp] at h
  | first, s :: rest, st, anc', st', h, hp, hl, hfr => by
    simp only [hoistUp] at h
    have hcont : ∀ (s0 : Frame) (st0 : HSt), isPinned st0.syms mref = true → linkOf st0.syms mref = none →
        PinKept st.syms st0.syms →
        (if s0.kind.stopsHoisting = true then some ({ s0 with members := insert name mref s0.members } :: rest, st0)
          else match hoistUp name mref orig sl false rest st0 with
            | none => none
            | some (rest', st') => some (s0 :: rest', st')) = some (anc', st') →
        isPinned st'.syms (target st'.syms mref) = true ∧ PinKept st.syms st'.syms := by
      intro s0 st0 hp0 hl0 hk0 h
      split at h
      · cases h
        rw [target_of_none hl0]; exact ⟨hp0, hk0⟩
      · split at h
        · cases h
        · next rest' st1 hr =>
          cases h
          obtain ⟨h1, h2⟩ := hoistUp_pinned name mref orig sl false rest st0 rest' st' hr hp0 hl0
            (fun X hX => hfr X (by simp [hX]))
          exact ⟨h1, hk0.trans h2⟩
    have hst1 : isPinned (if s.kind = ScK.with_ then { st with syms := pin st.syms mref } else st).syms mref = true ∧
        linkOf (if s.kind = ScK.with_ then { st with syms := pin st.syms mref } else st).syms mref = none ∧
        PinKept st.syms (if s.kind = ScK.with_ then { st with syms := pin st.syms mref } else st).syms := by
      split
      · exact ⟨isPinned_pin_mono hp, by simp only [linkOf_pin]; exact hl, PinKept.pin _ _⟩
      · exact ⟨hp, hl, .refl _⟩
    generalize (if s.kind = ScK.with_ then { st with syms := pin st.syms mref } else st) = st1 at h hst1
    obtain ⟨hp1, hl1, hk1⟩ := hst1
    split at h
    · exact hcont s _ hp1 hl1 hk1 h
    · next ex hex =>
      have hne : ex ≠ mref := hfr s (by simp) ex hex
      split at h
      · next ek blocked mk hek _ _ =>
        have hexlt := kindOf_lt hek
        split at h
        · cases h
          rw [target_of_none hl1]; exact ⟨hp1, hk1⟩
        · split at h
          · cases h
            simp only [hp1, if_true]
            have hmlt : mref < (pinLinks (st1.syms.length + 1) st1.syms ex).length := by simp; exact isPinned_lt hp1
            have hlk : linkOf (setLink (pinLinks (st1.syms.length + 1) st1.syms ex) mref (some ex)) mref = some ex :=
              linkOf_setLink_self _ _ _ hmlt
            refine ⟨?_, hk1.trans ((pinKept_pinLinks _ _ _).trans (PinKept.setLink _ _ _))⟩
            simp only [target, hlk, isPinned_setLink]
            exact isPinned_pinLinks_self hexlt _
          · split at h
            · split at h
              · split at h
                · cases h; rw [target_of_none hl1]; exact ⟨hp1, hk1⟩
                · split at h <;> cases h <;> (rw [target_of_none hl1]; exact ⟨hp1, hk1⟩)
              · cases h; rw [target_of_none hl1]; exact ⟨hp1, hk1⟩
            · refine hcont { s with members := insert name mref s.members } _ ?_ ?_ ?_ h
              · simp only [isPinned_setLink]; split
                · exact isPinned_pin_mono hp1
                · exact hp1
              · simp only
                rw [linkOf_setLink_other _ _ _ _ hne]
                split
                · simp only [linkOf_pin]; exact hl1
                · exact hl1
              · refine hk1.trans ?_
                split
                · exact (PinKept.pin _ _).trans (PinKept.setLink _ _ _)
                · exact PinKept.setLink _ _ _
      · cases h

/-- at a `with` scope the walk goes on as for a symbol that must not be renamed -/
theorem hoistUp_with_head (name : Name) (mref orig : Nat) (sl first : Bool) (s : Frame) (rest : List Frame) (st : HSt)
    (hw : s.kind = .with_) :
    hoistUp name mref orig sl first (s :: rest) st =
      hoistUp name mref orig sl first (s :: rest) { st with syms := pin st.syms mref } := by
  have : pin (pin st.syms mref) mref = pin st.syms mref := by
    rcases Nat.lt_or_ge mref st.syms.length with h | h
    · exact pin_of_pinned (isPinned_pin_self h)
    · unfold Scopes.pin
      apply List.ext_getElem?
      intro j
      simp only [List.getElem?_modify]
      by_cases hj : mref = j
      · subst hj; simp [List.getElem?_eq_none h]
      · simp [hj]
  simp only [hoistUp, hw, if_true, this]

/-- the scopes `pre` let the walk through: they do not stop hoisting and hold nothing of the name -/
def LetsThrough (name : Name) (pre : List Frame) : Prop :=
  ∀ X, X ∈ pre → X.kind.stopsHoisting = false ∧ lookup name X.members = none

/-- a symbol hoisted past a `with` scope: what it is merged into must not be renamed -/
theorem hoistUp_past_with (name : Name) (mref orig : Nat) (sl : Bool) : ∀ (pre : List Frame) (first : Bool) (s : Frame)
    (post : List Frame) (st : HSt) (anc' : List Frame) (st' : HSt),
    hoistUp name mref orig sl first (pre ++ s :: post) st = some (anc', st') → s.kind = .with_ → LetsThrough name pre →
    mref < st.syms.length → linkOf st.syms mref = none →
    (∀ X, X ∈ pre ++ s :: post → ∀ x, lookup name X.members = some x → x ≠ mref) →
    isPinned st'.syms (target st'.syms mref) = true
  | [], first, s, post, st, anc', st', h, hw, _, hm, hl, hfr => by
    rw [List.nil_append, hoistUp_with_head _ _ _ _ _ _ _ _ hw] at h
    exact (hoistUp_pinned name mref orig sl first _ _ _ _ h (isPinned_pin_self hm) (by simp only [linkOf_pin]; exact hl)
      (by simpa using hfr)).1
  | X :: pre, first, s, post, st, anc', st', h, hw, hlt, hm, hl, hfr => by
    obtain ⟨hx1, hx2⟩ := hlt X (by simp)
    simp only [List.cons_append, hoistUp, hx2, hx1, Bool.false_eq_true, if_false] at h
    split at h
    · cases h
    · next rest' st1 hr =>
      cases h
      refine hoistUp_past_with name mref orig sl pre false s post _ rest' st' hr hw (fun Y hY => hlt Y (by simp [hY])) ?_ ?_
        (fun Y hY => hfr Y (by simp only [List.cons_append, List.mem_cons]; exact Or.inr hY))
      · split <;> simp [hm]
      · split
        · simp only [linkOf_pin]; exact hl
        · exact hl

/-- a hoisted `var arguments` in a function: the implicit `arguments` symbol is linked to the variable, which must not
be renamed -/
theorem hoistUp_arguments (name : Name) (mref orig : Nat) (first : Bool) (s : Frame) (rest : List Frame) (st : HSt)
    (anc' : List Frame) (st' : HSt) (ex : Nat)
    (h : hoistUp name mref orig false first (s :: rest) st = some (anc', st'))
    (hex : lookup name s.members = some ex) (hk : kindOf? st.syms ex = some .arguments) (hne : ex ≠ mref)
    (hm : mref < st.syms.length) (hl : linkOf st.syms mref = none) (hstop : s.kind.stopsHoisting = true) :
    linkOf st'.syms ex = some mref ∧ isPinned st'.syms mref = true ∧ linkOf st'.syms mref = none := by
  have hnw : s.kind ≠ .with_ := by intro e; rw [e] at hstop; simp [ScK.stopsHoisting] at hstop
  have hexlt := kindOf_lt hk
  simp only [hoistUp, hnw, if_false, hex, hk, argBlocks, Bool.false_eq_true, false_and, if_false] at h
  cases hmk : kindOf? st.syms mref with
  | none => rw [hmk] at h; simp at h
  | some mk =>
    rw [hmk] at h
    simp only [reduceCtorEq, false_or, SK.isFunction, if_true, hstop, ne_eq, not_true_eq_false, and_false,
      Option.some.injEq, Prod.mk.injEq] at h
    simp at h
    obtain ⟨_, h2⟩ := h
    subst h2
    simp only [isPinned_setLink]
    refine ⟨linkOf_setLink_self _ _ _ (by simpa using hexlt), isPinned_pin_self hm, ?_⟩
    rw [linkOf_setLink_other _ _ _ _ hne, linkOf_pin]; exact hl

/-- a `var` declared directly in the body of a `with` statement -/
theorem hoistMember_with_body {anc anc' : List Frame} {f f' : Frame} {st st' : HSt} {mref : Nat} {sym : Sym}
    (h : hoistMember anc f st mref = some (anc', f', st')) (hw : f.kind = .with_) (hs : st.syms[mref]? = some sym)
    (hk : sym.kind = .hoisted) (hl : linkOf st.syms mref = none)
    (hfr : ∀ X, X ∈ anc → ∀ x, lookup sym.name X.members = some x → x ≠ mref) :
    isPinned st'.syms (target st'.syms mref) = true := by
  have hm : mref < st.syms.length := by
    rcases Nat.lt_or_ge mref st.syms.length with h1 | h1
    · exact h1
    · rw [List.getElem?_eq_none h1] at hs; cases hs
  unfold hoistMember at h
  rw [hs] at h
  cases anc with
  | nil => simp at h
  | cons p rest =>
    simp only [hk, ne_eq, not_true_eq_false, false_and, and_false, if_false, SK.isHoisted, beq_self_eq_true, Bool.true_or,
      Bool.not_true, Bool.false_eq_true, reduceCtorEq, pinIfWith, hw, if_true] at h
    split at h
    · cases h
    · next a1 s1 hu =>
      cases h
      exact (hoistUp_pinned _ _ _ _ _ _ _ _ _ hu (isPinned_pin_self hm) (by simp only [linkOf_pin]; exact hl) hfr).1

/-- when the symbol a variable is merged into is not itself merged into another one, it is what ast.FollowSymbols
returns -/
theorem followSym_target {syms : Syms} {m : Nat} (hm : m < syms.length) (ht : target syms m < syms.length)
    (hl : linkOf syms (target syms m) = none) : followSym syms m = some (target syms m) := by
  have hbase : ∀ (t f : Nat), t < syms.length → linkOf syms t = none → follow (f + 1) syms t = some t := by
    intro t f htl hln
    simp only [follow, List.getElem?_eq_getElem htl]
    have : syms[t].link = none := by simpa [linkOf, List.getElem?_eq_getElem htl] using hln
    simp [this]
  unfold followSym
  cases hlm : linkOf syms m with
  | none =>
    rw [target_of_none hlm]
    exact hbase m _ hm hlm
  | some t =>
    have htt : target syms m = t := by simp [target, hlm]
    rw [htt] at ht hl ⊢
    rw [follow_succ_link hlm]
    cases hlen : syms.length with
    | zero => omega
    | succ n => exact hbase t n (by omega) hl

-- the whole link chain ----------------------------------------------------------------------------------------------------

/-- `x` is reached from `m` by following links -/
inductive OnChain (syms : Syms) : Nat → Nat → Prop
  | refl (m : Nat) : OnChain syms m m
  | step {m l x : Nat} : linkOf syms m = some l → OnChain syms l x → OnChain syms m x

/-- every symbol on the link chain of `m` must not be renamed -/
def ChainPinned (syms : Syms) (m : Nat) : Prop := ∀ x, OnChain syms m x → isPinned syms x = true

theorem follow_unfold (f : Nat) (syms : Syms) (r : Nat) :
    follow (f + 1) syms r = if r < syms.length then (match linkOf syms r with | none => some r | some l => follow f syms l)
      else none := by
  simp only [follow]
  by_cases h : r < syms.length
  · simp only [h, if_true, List.getElem?_eq_getElem h, linkOf, Option.bind_some]
    cases syms[r].link <;> rfl
  · simp [h, List.getElem?_eq_none (Nat.le_of_not_lt h)]

theorem follow_eq_of_links {a b : Syms} (hl : ∀ j, linkOf b j = linkOf a j) (hlen : b.length = a.length) :
    ∀ (f m : Nat), follow f b m = follow f a m
  | 0, _ => rfl
  | f + 1, m => by
    rw [follow_unfold, follow_unfold, hl, hlen]
    split
    · cases linkOf a m with
      | none => rfl
      | some l => exact follow_eq_of_links hl hlen f l
    · rfl

theorem follow_onChain {syms : Syms} : ∀ (f m t : Nat), follow f syms m = some t → OnChain syms m t
  | 0, _, _, h => by simp [follow] at h
  | f + 1, m, t, h => by
    rw [follow_unfold] at h
    split at h
    · cases hl : linkOf syms m with
      | none => rw [hl] at h; simp only [Option.some.injEq] at h; subst h; exact .refl _
      | some l => rw [hl] at h; exact .step hl (follow_onChain f l t h)
    · cases h

theorem chainPinned_of_unlinked {syms : Syms} {m : Nat} (hl : linkOf syms m = none) (hp : isPinned syms m = true) :
    ChainPinned syms m := by
  intro x hx
  cases hx with
  | refl => exact hp
  | step h _ => rw [hl] at h; cases h

/-- the loop `for target := m; …; target = Link` flags the whole chain of `m` when the chain ends -/
theorem pinLinks_chain : ∀ (f : Nat) (syms : Syms) (m t : Nat), follow f syms m = some t → ChainPinned (pinLinks f syms m) m
  | 0, _, _, _, h => by simp [follow] at h
  | f + 1, syms, m, t, h => by
    rw [follow_unfold] at h
    split at h
    · next hm =>
      have hpm : isPinned (pinLinks (f + 1) syms m) m = true := isPinned_pinLinks_self hm f
      cases hl : linkOf syms m with
      | none =>
        exact chainPinned_of_unlinked (by rw [linkOf_pinLinks]; exact hl) hpm
      | some l =>
        rw [hl] at h
        simp only at h
        have hlk : syms[m].link = some l := by simpa [linkOf, List.getElem?_eq_getElem hm] using hl
        have hunf : pinLinks (f + 1) syms m = pinLinks f (pin syms m) l := by
          simp only [pinLinks, List.getElem?_eq_getElem hm, hlk]
        have hf' : follow f (pin syms m) l = some t := by
          rw [follow_eq_of_links (fun j => linkOf_pin syms m j) (by simp)]; exact h
        have ih := pinLinks_chain f (pin syms m) l t hf'
        intro x hx
        cases hx with
        | refl => exact hpm
        | step h1 h2 =>
          rw [linkOf_pinLinks, hl] at h1
          cases h1
          rw [hunf]
          rw [hunf] at h2
          exact ih x h2
    · cases h

/-- linking an unlinked symbol `m` to `ex`: what is on the chains afterwards -/
theorem onChain_setLink {a : Syms} {m ex : Nat} : ∀ {y x : Nat}, OnChain (setLink a m (some ex)) y x →
    OnChain a y x ∨ OnChain a ex x := by
  intro y x h
  induction h with
  | refl y => exact Or.inl (.refl y)
  | @step y l x hl _ ih =>
    by_cases hy : m = y
    · subst hy
      have hex : l = ex := by
        rcases Nat.lt_or_ge m a.length with h1 | h1
        · rw [linkOf_setLink_self _ _ _ h1] at hl; cases hl; rfl
        · rw [linkOf_none_of_ge _ (by simpa using h1)] at hl; cases hl
      subst hex
      rcases ih with h | h
      · exact Or.inr h
      · exact Or.inr h
    · rw [linkOf_setLink_other _ _ _ _ hy] at hl
      rcases ih with h | h
      · exact Or.inl (.step hl h)
      · exact Or.inr h

theorem kindOf_pin (a : Syms) (i j : Nat) : kindOf? (pin a i) j = kindOf? a j := by
  unfold Scopes.pin kindOf?
  rw [List.getElem?_modify]
  by_cases h : i = j
  · subst h; cases a[i]? <;> simp
  · cases a[j]? <;> simp [h]

/-- every link chain of the table ends (ast.FollowSymbols terminates everywhere) -/
def ChainsEnd (syms : Syms) : Prop := ∀ i, i < syms.length → ∃ t, followSym syms i = some t

theorem ChainsEnd.pin {a : Syms} (h : ChainsEnd a) (i : Nat) : ChainsEnd (pin a i) := by
  intro j hj
  obtain ⟨t, ht⟩ := h j (by simpa using hj)
  refine ⟨t, ?_⟩
  unfold followSym at ht ⊢
  rw [follow_eq_of_links (fun j => linkOf_pin a i j) (by simp)]
  simpa using ht

/-- no scope on the way holds a catch parameter or the implicit `arguments` symbol under the name -/
def NoPassing (syms : Syms) (name : Name) (anc : List Frame) : Prop :=
  ∀ X, X ∈ anc → ∀ x, lookup name X.members = some x →
    kindOf? syms x ≠ some .catchIdentifier ∧ kindOf? syms x ≠ some .arguments

/-- the walk of hoistSymbols for a symbol that must not be renamed: afterwards every symbol on its link chain must not be
renamed -/
theorem hoistUp_pinned_chain (name : Name) (mref orig : Nat) (sl : Bool) :
    ∀ (first : Bool) (anc : List Frame) (st : HSt) (anc' : List Frame) (st' : HSt),
    hoistUp name mref orig sl first anc st = some (anc', st') →
    isPinned st.syms mref = true → linkOf st.syms mref = none →
    (∀ X, X ∈ anc → ∀ x, lookup name X.members = some x → x ≠ mref) →
    NoPassing st.syms name anc → ChainsEnd st.syms →
    ChainPinned st'.syms mref
  | _, [], _, _, _, h, _, _, _, _, _ => by simp [hoistUp] at h
  | first, s :: rest, st, anc', st', h, hp, hl, hfr, hnp, hce => by
    simp only [hoistUp] at h
    have hst1 : isPinned (if s.kind = ScK.with_ then { st with syms := pin st.syms mref } else st).syms mref = true ∧
        linkOf (if s.kind = ScK.with_ then { st with syms := pin st.syms mref } else st).syms mref = none ∧
        ChainsEnd (if s.kind = ScK.with_ then { st with syms := pin st.syms mref } else st).syms ∧
        (∀ j, kindOf? (if s.kind = ScK.with_ then { st with syms := pin st.syms mref } else st).syms j = kindOf? st.syms j) := by
      split
      · exact ⟨isPinned_pin_mono hp, by simp only [linkOf_pin]; exact hl, hce.pin _, fun j => kindOf_pin _ _ _⟩
      · exact ⟨hp, hl, hce, fun _ => rfl⟩
    generalize (if s.kind = ScK.with_ then { st with syms := pin st.syms mref } else st) = st1 at h hst1
    obtain ⟨hp1, hl1, hce1, hk1⟩ := hst1
    have hunl : ChainPinned st1.syms mref := chainPinned_of_unlinked hl1 hp1
    split at h
    · -- nothing of that name here: the scope stops the hoisting, or the walk goes on
      split at h
      · cases h; exact hunl
      · split at h
        · cases h
        · next rest' st2 hr =>
          cases h
          exact hoistUp_pinned_chain name mref orig sl false rest st1 rest' st' hr hp1 hl1
            (fun X hX => hfr X (by simp [hX]))
            (fun X hX x hx => by show kindOf? st1.syms x ≠ _ ∧ kindOf? st1.syms x ≠ _; rw [hk1]; exact hnp X (by simp [hX]) x hx) hce1
    · next ex hex =>
      have hne : ex ≠ mref := hfr s (by simp) ex hex
      split at h
      · next ek blocked mk hek _ _ =>
        have hexlt := kindOf_lt hek
        split at h
        · cases h; exact hunl
        · split at h
          · -- merged: the whole chain of the existing symbol is flagged first
            cases h
            simp only [hp1, if_true]
            obtain ⟨t, ht⟩ := hce1 ex hexlt
            have hcp := pinLinks_chain _ _ _ _ ht
            intro x hx
            rw [isPinned_setLink]
            rcases onChain_setLink hx with h1 | h1
            · cases h1 with
              | refl => exact pinKept_pinLinks _ _ _ _ hp1
              | step h2 _ => rw [linkOf_pinLinks, hl1] at h2; cases h2
            · exact hcp x h1
          · split at h
            · split at h
              · split at h
                · cases h; exact hunl
                · split at h <;> cases h <;> exact hunl
              · cases h; exact hunl
            · next hnm hpass =>
              exfalso
              have := hnp s (by simp) ex hex
              rw [← hk1, hek] at this
              exact hpass ⟨fun e => this.1 (by rw [e]), fun e => this.2 (by rw [e])⟩
      · cases h

/-- the reference of an identifier inside a `with` statement: every symbol on the link chain of the symbol it resolves to
must not be renamed -/
theorem findSymbol_with_chain (chain : List Frame) (syms : Syms) (n : Name) (r : Nat)
    (hfound : findLoop n false chain = .member r true) (hce : ChainsEnd syms) (hr : r < syms.length) :
    (findSymbol chain syms n).2.2 = r ∧ ChainPinned (findSymbol chain syms n).2.1 r := by
  unfold findSymbol
  rw [hfound]
  simp only [if_true]
  obtain ⟨t, ht⟩ := hce r hr
  exact ⟨trivial, pinLinks_chain _ _ _ _ ht⟩

/-- what ast.FollowSymbols returns is on the chain -/
theorem ChainPinned.followSym {syms : Syms} {m t : Nat} (h : ChainPinned syms m) (hf : Scopes.followSym syms m = some t) :
    isPinned syms t = true :=
  h t (follow_onChain _ _ _ hf)

theorem NoPassing.pin {syms : Syms} {name : Name} {anc : List Frame} (h : NoPassing syms name anc) (i : Nat) :
    NoPassing (pin syms i) name anc := by
  intro X hX x hx
  rw [kindOf_pin]; exact h X hX x hx

/-- a symbol hoisted past a `with` scope: afterwards every symbol on its link chain must not be renamed -/
theorem hoistUp_past_with_chain (name : Name) (mref orig : Nat) (sl : Bool) : ∀ (pre : List Frame) (first : Bool) (s : Frame)
    (post : List Frame) (st : HSt) (anc' : List Frame) (st' : HSt),
    hoistUp name mref orig sl first (pre ++ s :: post) st = some (anc', st') → s.kind = .with_ → LetsThrough name pre →
    mref < st.syms.length → linkOf st.syms mref = none →
    (∀ X, X ∈ pre ++ s :: post → ∀ x, lookup name X.members = some x → x ≠ mref) →
    NoPassing st.syms name (pre ++ s :: post) → ChainsEnd st.syms →
    ChainPinned st'.syms mref
  | [], first, s, post, st, anc', st', h, hw, _, hm, hl, hfr, hnp, hce => by
    rw [List.nil_append, hoistUp_with_head _ _ _ _ _ _ _ _ hw] at h
    exact hoistUp_pinned_chain name mref orig sl first _ _ _ _ h (isPinned_pin_self hm) (by simp only [linkOf_pin]; exact hl)
      (by simpa using hfr) (by simpa using hnp.pin mref) (hce.pin mref)
  | X :: pre, first, s, post, st, anc', st', h, hw, hlt, hm, hl, hfr, hnp, hce => by
    obtain ⟨hx1, hx2⟩ := hlt X (by simp)
    simp only [List.cons_append, hoistUp, hx2, hx1, Bool.false_eq_true, if_false] at h
    split at h
    · cases h
    · next rest' st1 hr =>
      cases h
      have hnp' : NoPassing st.syms name (pre ++ s :: post) :=
        fun Y hY => hnp Y (by simp only [List.cons_append, List.mem_cons]; exact Or.inr hY)
      refine hoistUp_past_with_chain name mref orig sl pre false s post _ rest' st' hr hw (fun Y hY => hlt Y (by simp [hY]))
        ?_ ?_ (fun Y hY => hfr Y (by simp only [List.cons_append, List.mem_cons]; exact Or.inr hY)) ?_ ?_
      · split <;> simp [hm]
      · split
        · simp only [linkOf_pin]; exact hl
        · exact hl
      · split
        · exact hnp'.pin mref
        · exact hnp'
      · split
        · exact hce.pin mref
        · exact hce

/-- a `var` declared directly in the body of a `with` statement: afterwards every symbol on its link chain must not be
renamed -/
theorem hoistMember_with_body_chain {anc anc' : List Frame} {f f' : Frame} {st st' : HSt} {mref : Nat} {sym : Sym}
    (h : hoistMember anc f st mref = some (anc', f', st')) (hw : f.kind = .with_) (hs : st.syms[mref]? = some sym)
    (hk : sym.kind = .hoisted) (hl : linkOf st.syms mref = none)
    (hfr : ∀ X, X ∈ anc → ∀ x, lookup sym.name X.members = some x → x ≠ mref)
    (hnp : NoPassing st.syms sym.name anc) (hce : ChainsEnd st.syms) :
    ChainPinned st'.syms mref := by
  have hm : mref < st.syms.length := by
    rcases Nat.lt_or_ge mref st.syms.length with h1 | h1
    · exact h1
    · rw [List.getElem?_eq_none h1] at hs; cases hs
  unfold hoistMember at h
  rw [hs] at h
  cases anc with
  | nil => simp at h
  | cons p rest =>
    simp only [hk, ne_eq, not_true_eq_false, false_and, and_false, if_false, SK.isHoisted, beq_self_eq_true, Bool.true_or,
      Bool.not_true, Bool.false_eq_true, reduceCtorEq, pinIfWith, hw, if_true] at h
    split at h
    · cases h
    · next a1 s1 hu =>
      cases h
      exact hoistUp_pinned_chain _ _ _ _ _ _ _ _ _ hu (isPinned_pin_self hm) (by simp only [linkOf_pin]; exact hl) hfr
        (hnp.pin mref) (hce.pin mref)

/-- a table in which every link goes to a later symbol has no link cycle -/
theorem chainsEnd_of_linksInc {syms : Syms} (h : LinksInc syms) : ChainsEnd syms :=
  fun _ hi => followSym_total h hi

end EsbuildModel.Scopes
