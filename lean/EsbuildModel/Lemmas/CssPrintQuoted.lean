import EsbuildModel.Lemmas.CssPrintIdent
import EsbuildModel.Lemmas.CssSpecSim4
/-!
`printQuotedWithQuote` followed by `consumeString` / `decodeEscapesInToken`: the escapes written into a quoted string
are sound and sufficient.
-/
namespace EsbuildModel.CssLex
open EsbuildModel.Spec.Unicode (IsScalar)

/-- the escape kind `printQuotedWithQuote` chooses for a rune (`quote` is `"` or `'`) -/
def quotedEsc (o : POpts) (quote : Nat) (prev : Option Nat) (c : Ch) (t : List Ch) : Esc :=
  if c.cp == 0 || c.cp == 13 || c.cp == 10 || c.cp == 12 then .hex
  else if c.cp == 92 || (quote != quoteForURL && c.cp == quote) then .backslash
  else if c.cp == 40 || c.cp == 41 || c.cp == 32 || c.cp == 9 || c.cp == 34 || c.cp == 39 then
    (if quote == quoteForURL then .backslash else .none)
  else if c.cp == 47 then
    (if !o.inlineStyleUnsupported && closesStyle prev (rawOf t) then .backslash else .none)
  else if (o.asciiOnly && decide (c.cp ≥ 0x80)) || c.cp == 0xFEFF then .hex
  else .none

theorem quotedLoop_cons (o : POpts) (quote : Nat) (prev : Option Nat) (c : Ch) (t : List Ch) :
    quotedLoop o quote prev (c :: t) =
      (if quotedEsc o quote prev c t = .none then c.raw
       else printWithEscape c.cp (quotedEsc o quote prev c t) (rawOf (c :: t)) false)
      ++ quotedLoop o quote c.raw.getLast? t := by
  rw [quotedLoop]; rfl

/-- both results of reading a string body: where `consumeString` stops and the value -/
def strRun (quote : Nat) (s : List Ch) : (T × List Ch) × List Nat := (stringLoop quote s, strVal quote s)

theorem strRun_ordinary (quote : Nat) (c : Ch) (t : List Ch) (h1 : c.cp ≠ 92) (h2 : isNewline c.cp = false)
    (h3 : c.cp ≠ quote) : strRun quote (c :: t) = ((strRun quote t).1, c.cp :: (strRun quote t).2) := by
  unfold strRun
  rw [stringLoop_ordinary quote c t h1 h2 h3, strVal.eq_def]
  simp [h1, h2, h3]

theorem strRun_backslash (quote : Nat) (b d : Ch) (u : List Ch) (hb : b.cp = 92) (hd : isHex d.cp = none)
    (hnl : isNewline d.cp = false) :
    strRun quote (b :: d :: u) = ((strRun quote u).1, d.cp :: (strRun quote u).2) := by
  have hd13 : d.cp ≠ 13 := by intro h; simp [isNewline, h] at hnl
  unfold strRun
  rw [stringLoop.eq_def, strVal.eq_def]
  simp [hb, hd13, hnl, hd]

theorem strRun_hex (quote : Nat) (hq : quote = 34 ∨ quote = 39) (b d : Ch) (u : List Ch) (hb : b.cp = 92) (h : Nat)
    (hd : isHex d.cp = some h) :
    strRun quote (b :: d :: u) =
      ((strRun quote (strEscRest h u)).1, fixHex (hexLoop 5 h u).1 :: (strRun quote (strEscRest h u)).2) := by
  obtain ⟨_, hnl, _⟩ := isHex_ordinary d.cp h quote hd hq
  have hd13 : d.cp ≠ 13 := by intro h'; simp [isNewline, h'] at hnl
  unfold strRun
  rw [stringLoop.eq_def, strVal.eq_def]
  simp only [hb, beq_self_eq_true, if_true, hd13, beq_iff_eq, if_false, hnl, Bool.false_eq_true, hd]
  rw [stringLoop_strEscRest quote hq h u]

theorem strRun_close (quote : Nat) (hq : quote = 34 ∨ quote = 39) (c : Ch) (t : List Ch) (hc : c.cp = quote) :
    strRun quote (c :: t) = ((.TString, t), []) := by
  obtain ⟨_, h92, hnl, _⟩ := quote_facts quote hq
  unfold strRun
  rw [stringLoop.eq_def, strVal.eq_def]
  simp [hc, h92, hnl]

/-- `consumeString` and `decodeEscapesInToken` read back a hexadecimal escape as written by `printWithEscape` -/
theorem strRun_printed_hex (quote : Nat) (hq : quote = 34 ∨ quote = 39) (c : Nat) (hs : IsScalar c) (h0 : c ≠ 0)
    (sp : Bool) (m : List Ch) (hws : sp = false → headIs isWhitespace m = false)
    (hhex : sp = false → (hexDigitsOf c).length < 6 → headIs (fun x => (isHex x).isSome) m = false) :
    strRun quote (chOf 92 :: ((hexDigitsOf c).map chOf ++ ((if sp then [chOf 32] else []) ++ m))) =
      ((strRun quote m).1, c :: (strRun quote m).2) := by
  rw [hexDigitsOf_eq, List.map_map]
  have hlen : (digitVals c).length ≤ 6 := digitVals_length c 6 (by omega) (by unfold IsScalar at hs; omega)
  have hdl := digitVals_lt c
  have hfold := digitVals_foldl c 0
  rw [hexDigitsOf_eq, List.length_map] at hhex
  cases hd : digitVals c with
  | nil => exact absurd hd (digitVals_ne_nil c)
  | cons d0 ds =>
    rw [hd] at hlen hdl hfold hhex
    simp only [List.map_cons, List.cons_append, Function.comp_apply]
    have hh0 := isHex_hexChar d0 (hdl d0 (by simp))
    rw [strRun_hex quote hq (chOf 92) (chOf (hexChar d0)) _ rfl d0 (by simpa [chOf] using hh0)]
    have hl := hexLoop_digits ds (fun x hx => hdl x (List.mem_cons_of_mem _ hx)) 5 d0
      ((if sp then [chOf 32] else []) ++ m) (by simp only [List.length_cons] at hlen; omega) (by
        intro hl
        cases sp with
        | true => simp [headIs, chOf, isHex]
        | false => simpa using hhex rfl (by simp only [List.length_cons]; omega))
    have hmap : List.map (chOf ∘ hexChar) ds = List.map (fun d => chOf (hexChar d)) ds := by simp [Function.comp_def]
    simp only [List.foldl_cons, Nat.zero_mul, Nat.zero_add] at hfold
    have hfix : fixHex c = c := by
      unfold fixHex; unfold IsScalar at hs
      have : ¬ (c = 0 ∨ (0xD800 ≤ c ∧ c ≤ 0xDFFF) ∨ c > 0x10FFFF) := by omega
      simp [this]
    have hrest : strEscRest d0 (List.map (chOf ∘ hexChar) ds ++ ((if sp = true then [chOf 32] else []) ++ m)) = m := by
      unfold strEscRest
      rw [hmap, hl]
      simp only
      cases sp with
      | true => simp [headIs, chOf, isNewline, skipOneWs, isWhitespace]
      | false =>
        have hw := hws rfl
        simp only [Bool.false_eq_true, if_false, List.nil_append]
        cases m with
        | nil => simp [headIs, skipOneWs]
        | cons x xs =>
          simp only [headIs] at hw
          have hnl : isNewline x.cp = false := by
            unfold isWhitespace at hw; unfold isNewline
            simp only [Bool.or_eq_false_iff, beq_eq_false_iff_ne, ne_eq] at hw ⊢; omega
          simp [headIs, hnl, skipOneWs, hw]
    rw [hrest, hmap, hl, hfold, hfix]

theorem quotedEsc_none (o : POpts) (quote : Nat) (hq : quote = 34 ∨ quote = 39) (prev : Option Nat) (c : Ch) (t : List Ch)
    (h : quotedEsc o quote prev c t = .none) : c.cp ≠ 92 ∧ isNewline c.cp = false ∧ c.cp ≠ quote ∧ c.cp ≠ 0 := by
  unfold quotedEsc at h
  have hqu : (quote != quoteForURL) = true := by rcases hq with rfl | rfl <;> decide
  split at h
  · simp at h
  · next h1 =>
    simp only [Bool.or_eq_true, beq_iff_eq, not_or] at h1
    split at h
    · simp at h
    · next h2 =>
      simp only [hqu, Bool.true_and, Bool.or_eq_true, beq_iff_eq, not_or] at h2
      refine ⟨h2.1, ?_, h2.2, h1.1.1.1⟩
      simp [isNewline, h1.1.1.2, h1.1.2, h1.2]

theorem quotedEsc_backslash (o : POpts) (quote : Nat) (hq : quote = 34 ∨ quote = 39) (prev : Option Nat) (c : Ch) (t : List Ch)
    (h : quotedEsc o quote prev c t = .backslash) : isHex c.cp = none ∧ isNewline c.cp = false := by
  unfold quotedEsc at h
  have hqu : (quote == quoteForURL) = false := by rcases hq with rfl | rfl <;> decide
  split at h
  · simp at h
  · next h1 =>
    simp only [Bool.or_eq_true, beq_iff_eq, not_or] at h1
    have hnl : isNewline c.cp = false := by simp [isNewline, h1.1.1.2, h1.1.2, h1.2]
    split at h
    · next h2 =>
      simp only [Bool.or_eq_true, beq_iff_eq, Bool.and_eq_true] at h2
      refine ⟨?_, hnl⟩
      rcases h2 with h2 | ⟨_, h2⟩
      · rw [h2]; rfl
      · rw [h2]; rcases hq with rfl | rfl <;> rfl
    · split at h
      · simp [hqu] at h
      · split at h
        · next h47 => simp only [beq_iff_eq] at h47; exact ⟨by rw [h47]; rfl, hnl⟩
        · split at h <;> simp at h

/-- the first rune of what `printQuotedWithQuote` writes for a non-empty rest: whitespace only if the text goes on
with a blank or a tab, a hex digit only if the text goes on with that hex digit -/
theorem quotedLoop_head (o : POpts) (quote : Nat) (hq : quote = 34 ∨ quote = 39) (prev : Option Nat) (c : Nat)
    (hs : IsScalar c) (t : List Ch) (R : List Nat) :
    (headIs isWhitespace (decodeAll (quotedLoop o quote prev (mk c :: t) ++ R)) = true → c = 32 ∨ c = 9) ∧
    (headIs (fun x => (isHex x).isSome) (decodeAll (quotedLoop o quote prev (mk c :: t) ++ R)) = true →
      c < 128 ∧ (isHex c).isSome = true) := by
  rw [quotedLoop_cons, List.append_assoc]
  have hb : ∀ X : List Nat,
      (headIs isWhitespace (decodeAll (92 :: X)) = true → c = 32 ∨ c = 9) ∧
      (headIs (fun x => (isHex x).isSome) (decodeAll (92 :: X)) = true → c < 128 ∧ (isHex c).isSome = true) := by
    intro X
    rw [decodeAll_ascii 92 _ (by omega)]
    simp [headIs, isWhitespace, isHex]
  generalize hE : quotedEsc o quote prev (mk c) t = esc
  cases esc with
  | none =>
    obtain ⟨h92, hnl, hq', h0⟩ := quotedEsc_none o quote hq prev (mk c) t hE
    simp only [if_true, mk]
    rw [decodeAll_enc c hs]
    simp only [headIs, mk] at hnl ⊢
    refine ⟨?_, fun hh => ⟨isHexDigitCp_ascii c hh, hh⟩⟩
    intro hh
    unfold isWhitespace at hh; unfold isNewline at hnl
    simp only [Bool.or_eq_true, beq_iff_eq] at hh
    simp only [Bool.or_eq_false_iff, beq_eq_false_iff_ne, ne_eq] at hnl
    omega
  | hex =>
    simp only [show (Esc.hex = Esc.none) = False by simp, if_false]
    rw [printWithEscape_hex]; exact hb _
  | backslash =>
    simp only [show (Esc.backslash = Esc.none) = False by simp, if_false]
    rw [printWithEscape_backslash]
    split <;> exact hb _

theorem mk_raw (c : Nat) : (mk c).raw = encRune c := rfl
theorem mk_cp (c : Nat) : (mk c).cp = c := rfl

theorem decodeAll_mk (c : Nat) (hs : IsScalar c) (rest : List Nat) :
    decodeAll (encRune c ++ rest) = mk c :: decodeAll rest := decodeAll_enc c hs rest

/-- (string round trip) `consumeString` and `decodeEscapesInToken` read back the body `printQuotedWithQuote` wrote,
up to the closing quote -/
theorem quotedLoop_strRun (o : POpts) (quote : Nat) (hq : quote = 34 ∨ quote = 39) (follow : List Nat)
    (l : List Nat) (hs : ∀ c ∈ l, IsScalar c ∧ c ≠ 0) (prev : Option Nat) :
    strRun quote (decodeAll (quotedLoop o quote prev (l.map mk) ++ quote :: follow)) =
      ((.TString, decodeAll follow), l) := by
  have hqasc : quote < 128 := by omega
  induction l generalizing prev with
  | nil =>
    simp only [List.map_nil, quotedLoop, List.nil_append]
    rw [decodeAll_ascii quote _ hqasc]
    exact strRun_close quote hq _ _ rfl
  | cons c t ih =>
    have hc := hs c (by simp)
    have hst : ∀ x ∈ t, IsScalar x ∧ x ≠ 0 := fun x hx => hs x (List.mem_cons_of_mem _ hx)
    have ih' := ih hst (mk c).raw.getLast?
    rw [List.map_cons, quotedLoop_cons, List.append_assoc]
    generalize hE : quotedEsc o quote prev (mk c) (t.map mk) = esc
    cases esc with
    | none =>
      obtain ⟨h92, hnl, hq', _⟩ := quotedEsc_none o quote hq prev (mk c) _ hE
      simp only [if_true]
      rw [mk_raw, decodeAll_mk c hc.1, strRun_ordinary quote (mk c) _ h92 hnl hq', ← mk_raw, ih', mk_cp]
    | backslash =>
      obtain ⟨hhex, hnl⟩ := quotedEsc_backslash o quote hq prev (mk c) _ hE
      simp only [show (Esc.backslash = Esc.none) = False by simp, if_false]
      rw [printWithEscape_backslash]
      have : isHexDigitCp (mk c).cp = false := by simp [isHexDigitCp, hhex]
      simp only [this, Bool.false_eq_true, if_false]
      rw [List.cons_append, decodeAll_ascii 92 _ (by omega), mk_cp, decodeAll_mk c hc.1,
        strRun_backslash quote ⟨92, [92]⟩ (mk c) _ rfl hhex hnl, ih', mk_cp]
    | hex =>
      simp only [show (Esc.hex = Esc.none) = False by simp, if_false]
      rw [printWithEscape_hex, mk_cp]
      generalize hrem : rawOf (mk c :: t.map mk) = rem
      -- decode the ASCII part
      have hasc : ∀ b ∈ (92 :: hexDigitsOf c ++ hexSpace c rem false), b < 128 := by
        intro b hb
        simp only [List.cons_append, List.mem_cons, List.mem_append] at hb
        rcases hb with rfl | hb | hb
        · omega
        · exact hexDigitsOf_ascii c b hb
        · rcases hexSpace_cases c rem false with e | e <;> rw [e] at hb <;> simp at hb; omega
      rw [decodeAll_asciis _ hasc]
      simp only [List.cons_append, List.map_cons, List.map_append, List.append_assoc]
      have hsp : (hexSpace c rem false).map chOf = if (hexSpace c rem false == [32]) then [chOf 32] else [] := by
        rcases hexSpace_cases c rem false with e | e <;> simp [e]
      rw [hsp]
      have hrl := runeLen_scalar c hc.1
      have hnone_of : (hexSpace c rem false == [32]) = false → hexSpace c rem false = [] := by
        intro hsp0
        rcases hexSpace_cases c rem false with e | e
        · rw [e] at hsp0; simp at hsp0
        · exact e
      -- what follows in the output
      have hfollow : (hexSpace c rem false = [] →
          headIs isWhitespace (decodeAll (quotedLoop o quote (mk c).raw.getLast? (t.map mk) ++ quote :: follow)) = false) ∧
          (hexSpace c rem false = [] → (hexDigitsOf c).length < 6 →
          headIs (fun x => (isHex x).isSome) (decodeAll (quotedLoop o quote (mk c).raw.getLast? (t.map mk) ++ quote :: follow)) = false) := by
        cases t with
        | nil =>
          simp only [List.map_nil, quotedLoop, List.nil_append]
          rw [decodeAll_ascii quote _ hqasc]
          rcases hq with rfl | rfl <;> simp [headIs, isWhitespace, isHex]
        | cons c' t' =>
          have hc' := hst c' (by simp)
          obtain ⟨hh1, hh2⟩ := quotedLoop_head o quote hq (mk c).raw.getLast? c' hc'.1 (t'.map mk) (quote :: follow)
          simp only [List.map_cons] at hh1 hh2 ⊢
          have hasc1 : c' = 32 ∨ c' = 9 → c' < 128 := by omega
          -- the byte the printer looked at is the first byte of the next rune
          have hlook : ∀ (hasc' : c' < 128), rem[(runeLen c).toNat]? = some c' := by
            intro hasc'
            rw [← hrem, List.map_cons, rawOf_cons, rawOf_cons, mk_raw, mk_raw, encRune_ascii c' hasc', hrl]
            simp
          have hlen : runeLen c < (rem.length : Int) := by
            rw [← hrem, List.map_cons, rawOf_cons, rawOf_cons, mk_raw, mk_raw, hrl]
            have := encRune_ne_nil c'
            cases he : encRune c' with
            | nil => exact absurd he this
            | cons x xs => simp only [List.length_append, List.length_cons]; omega
          constructor
          · intro hnone
            cases hw : headIs isWhitespace (decodeAll (quotedLoop o quote (mk c).raw.getLast? (mk c' :: t'.map mk) ++ quote :: follow)) with
            | false => rfl
            | true =>
              exfalso
              have hcls := hh1 hw
              have hasc' := hasc1 hcls
              unfold hexSpace at hnone
              simp only [hlen, if_true, hlook hasc'] at hnone
              rcases hcls with h | h <;> simp [h] at hnone
          · intro hnone hl
            cases hx : headIs (fun x => (isHex x).isSome) (decodeAll (quotedLoop o quote (mk c).raw.getLast? (mk c' :: t'.map mk) ++ quote :: follow)) with
            | false => rfl
            | true =>
              exfalso
              obtain ⟨hasc', hcls⟩ := hh2 hx
              unfold hexSpace at hnone
              have hsix : (92 :: hexDigitsOf c).length < 1 + 6 := by simp only [List.length_cons]; omega
              simp only [hsix, hlen, if_true, hlook hasc'] at hnone
              have : isHexDigitCp c' = true := hcls
              simp [this] at hnone
      rw [strRun_printed_hex quote hq c hc.1 hc.2 _ _ (fun h => hfollow.1 (hnone_of h)) (fun h hl => hfollow.2 (hnone_of h) hl), ih']

theorem quotedLoop_decode (o : POpts) (quote : Nat) (l : List Nat) (hs : ∀ c ∈ l, IsScalar c ∧ c ≠ 0) (prev : Option Nat)
    (R : List Nat) :
    ∃ P, decodeAll (quotedLoop o quote prev (l.map mk) ++ R) = P ++ decodeAll R ∧ WellEnc P ∧ ∀ x ∈ P, x.cp ≠ 0 := by
  induction l generalizing prev with
  | nil => exact ⟨[], by simp [quotedLoop], by intro x hx; simp at hx, by intro x hx; simp at hx⟩
  | cons c t ih =>
    have hc := hs c (by simp)
    obtain ⟨P2, h2, hw2, hn2⟩ := ih (fun x hx => hs x (List.mem_cons_of_mem _ hx)) (mk c).raw.getLast?
    rw [List.map_cons, quotedLoop_cons, List.append_assoc]
    by_cases hE : quotedEsc o quote prev (mk c) (t.map mk) = .none
    · simp only [hE, if_true]
      refine ⟨mk c :: P2, by rw [mk_raw] at h2 ⊢; rw [decodeAll_mk c hc.1, h2]; rfl, ?_, ?_⟩
      · intro x hx; simp only [List.mem_cons] at hx; rcases hx with rfl | hx; rfl; exact hw2 x hx
      · intro x hx; simp only [List.mem_cons] at hx; rcases hx with rfl | hx; exact hc.2; exact hn2 x hx
    · simp only [hE, if_false]
      obtain ⟨P1, h1, hw1, hn1⟩ := printWithEscape_decode c hc.1 hc.2 (quotedEsc o quote prev (mk c) (t.map mk))
        (rawOf (mk c :: t.map mk)) false (quotedLoop o quote (mk c).raw.getLast? (t.map mk) ++ R)
      refine ⟨P1 ++ P2, by rw [mk_cp, h1, h2, List.append_assoc], hw1.append hw2, ?_⟩
      intro x hx; simp only [List.mem_append] at hx; rcases hx with h | h; exact hn1 x h; exact hn2 x h

theorem bestQuote_cases (text : List Nat) : bestQuoteCharForString text false = 34 ∨ bestQuoteCharForString text false = 39 := by
  unfold bestQuoteCharForString
  simp only [Bool.false_and, Bool.false_eq_true, if_false]
  split <;> simp

/-- the text between the quotes that `printQuotedWithQuote` writes, read back -/
theorem quoted_text_roundtrip (o : POpts) (quote : Nat) (hq : quote = 34 ∨ quote = 39) (l : List Nat)
    (hs : ∀ c ∈ l, IsScalar c ∧ c ≠ 0) :
    decodeEscapes (quotedLoop o quote none (l.map mk)) = l.flatMap encRune := by
  have hqasc : quote < 128 := by omega
  obtain ⟨P, hP, hwe, hnul⟩ := quotedLoop_decode o quote l hs none []
  simp only [List.append_nil, decodeAll_nil] at hP
  have hrun := quotedLoop_strRun o quote hq [] l hs none
  generalize hbody : quotedLoop o quote none (l.map mk) = body at *
  -- the decoded body followed by the closing quote
  have hdq : decodeAll (body ++ [quote]) = P ++ [chOf quote] := by
    have hnc : NonContStart [quote] := by
      intro b hb; simp at hb; rw [← hb]
      rcases hq with rfl | rfl <;> decide
    rw [decodeAll_append_nonCont _ _ hnc, hP, decodeAll_ascii quote [] hqasc, decodeAll_nil]; rfl
  rw [hdq] at hrun
  simp only [decodeAll_nil, strRun, Prod.mk.injEq] at hrun
  obtain ⟨hloop, hval⟩ := hrun
  have hk : (stringLoop quote (P ++ [chOf quote])).1 = .TString := by rw [hloop]
  obtain ⟨cq, _, hsplit⟩ := strChars_split quote _ hk
  rw [hloop] at hsplit
  have hsc : strChars quote (P ++ [chOf quote]) = P :=
    ((List.append_inj' hsplit (by simp)).1).symm
  have hdc : decCps P = l := by
    have := decCps_strChars quote hq (P ++ [chOf quote]) (by
      intro c hc
      simp only [List.mem_append, List.mem_singleton] at hc
      rcases hc with hc | rfl
      · exact hnul c hc
      · simp [chOf]; omega) hk
    rw [hsc, hval] at this
    exact this
  have hdecP : IsDec (P ++ []) := by rw [List.append_nil, ← hP]; exact IsDec.ofInput _
  have hraw : rawOf P = body := by rw [← hP, rawOf_decodeAll]
  have hcps := decodeEscapes_cps P [] hdecP
  have hwe2 := decodeEscapes_wellEnc P [] hdecP hwe
  rw [hraw] at hcps hwe2
  have := hwe2.raw
  rw [rawOf_decodeAll, hcps, hdc] at this
  exact this

end EsbuildModel.CssLex
