import EsbuildModel.Impl.WatchLoop
/-
Lemmas about the watcher model (Impl/WatchLoop.lean): what a scan returns, the invariant of the watcher state, what one
poll does in each of its three outcomes, and the vocabulary of the property theorems in Props/C09WatchLoop.lean
(`PollIn`, `firstHit`, `runPolls`, `cdiv`, `roundLen`, `lastN`, `dedupKeepLast`).
-/
namespace EsbuildModel.WatchLoop

set_option linter.unusedSectionVars false

variable {α : Type} [DecidableEq α]

/-! ## `scan` -/

theorem scan_clean {keys : List α} {ask : Ask α} : ∀ (l : List α) (c : Nat), scan keys ask c l = .clean →
    (∀ x ∈ l, x ∈ keys) ∧ ∀ i x, l[i]? = some x → ask (c + i) x = ""
  | [], _, _ => ⟨by simp, by simp⟩
  | p :: rest, c, h => by
    unfold scan at h
    by_cases hp : p ∈ keys
    · rw [if_pos hp] at h
      by_cases ha : ask c p ≠ ""
      · rw [if_pos ha] at h; cases h
      · rw [if_neg ha] at h
        have ha' : ask c p = "" := by simpa using ha
        cases hs : scan keys ask (c + 1) rest with
        | panic i => rw [hs] at h; cases h
        | hit i q d => rw [hs] at h; cases h
        | clean =>
          have ih := scan_clean rest (c + 1) hs
          refine ⟨?_, ?_⟩
          · intro x hx
            rcases List.mem_cons.mp hx with rfl | hx
            · exact hp
            · exact ih.1 x hx
          · intro i x hix
            cases i with
            | zero => simp at hix; subst hix; simpa using ha'
            | succ i =>
              have := ih.2 i x (by simpa using hix)
              have e : c + (i + 1) = c + 1 + i := by omega
              rw [e]; exact this
    · rw [if_neg hp] at h; cases h

theorem scan_hit {keys : List α} {ask : Ask α} : ∀ (l : List α) (c i : Nat) (p : α) (d : String),
    scan keys ask c l = .hit i p d →
    l[i]? = some p ∧ p ∈ keys ∧ d = ask (c + i) p ∧ d ≠ "" ∧ ∀ j x, j < i → l[j]? = some x → ask (c + j) x = ""
  | [], _, _, _, _, h => by simp [scan] at h
  | q :: rest, c, i, p, d, h => by
    unfold scan at h
    by_cases hq : q ∈ keys
    · rw [if_pos hq] at h
      by_cases ha : ask c q ≠ ""
      · rw [if_pos ha] at h
        cases h
        exact ⟨by simp, hq, by simp, ha, by intro j x hj; omega⟩
      · rw [if_neg ha] at h
        have ha' : ask c q = "" := by simpa using ha
        cases hs : scan keys ask (c + 1) rest with
        | panic i => rw [hs] at h; cases h
        | clean => rw [hs] at h; cases h
        | hit i' q' d' =>
          rw [hs] at h
          cases h
          obtain ⟨h1, h2, h3, h4, h5⟩ := scan_hit rest (c + 1) i' p d hs
          refine ⟨by simpa using h1, h2, ?_, h4, ?_⟩
          · rw [h3]; congr 1; omega
          · intro j x hj hjx
            cases j with
            | zero => simp at hjx; subst hjx; simpa using ha'
            | succ j =>
              have := h5 j x (by omega) (by simpa using hjx)
              have e : c + (j + 1) = c + 1 + j := by omega
              rw [e]; exact this
    · rw [if_neg hq] at h; cases h

theorem scan_ne_panic {keys : List α} {ask : Ask α} : ∀ (l : List α) (c i : Nat), (∀ x ∈ l, x ∈ keys) →
    scan keys ask c l ≠ .panic i
  | [], _, _, _ => by simp [scan]
  | p :: rest, c, i, hl => by
    unfold scan
    have hp : p ∈ keys := hl p (by simp)
    rw [if_pos hp]
    by_cases ha : ask c p ≠ ""
    · rw [if_pos ha]; intro h; cases h
    · rw [if_neg ha]
      cases hs : scan keys ask (c + 1) rest with
      | panic i' => exact absurd hs (scan_ne_panic rest (c + 1) i' (fun x hx => hl x (by simp [hx])))
      | clean => intro h; cases h
      | hit i' q d => intro h; cases h

/-- a scan that panics met a path that is not a key -/
theorem scan_panic {keys : List α} {ask : Ask α} : ∀ (l : List α) (c i : Nat), scan keys ask c l = .panic i →
    ∃ x, l[i]? = some x ∧ x ∉ keys
  | [], _, _, h => by simp [scan] at h
  | p :: rest, c, i, h => by
    unfold scan at h
    by_cases hp : p ∈ keys
    · rw [if_pos hp] at h
      by_cases ha : ask c p ≠ ""
      · rw [if_pos ha] at h; cases h
      · rw [if_neg ha] at h
        cases hs : scan keys ask (c + 1) rest with
        | clean => rw [hs] at h; cases h
        | hit i' q d => rw [hs] at h; cases h
        | panic i' =>
          rw [hs] at h; cases h
          obtain ⟨x, hx, hk⟩ := scan_panic rest (c + 1) i' hs
          exact ⟨x, by simpa using hx, hk⟩
    · rw [if_neg hp] at h; cases h
      exact ⟨p, by simp, hp⟩

/-- a path of the list whose predicate answers "dirty" whenever it is asked makes the scan hit (it or an earlier one) -/
theorem scan_dirty_hits {keys : List α} {ask : Ask α} {p : α} (hd : ∀ c, ask c p ≠ "") (l : List α) (c : Nat)
    (hl : ∀ x ∈ l, x ∈ keys) (hp : p ∈ l) : ∃ i q d, scan keys ask c l = .hit i q d := by
  cases hs : scan keys ask c l with
  | hit i q d => exact ⟨i, q, d, rfl⟩
  | panic i => exact absurd hs (scan_ne_panic l c i hl)
  | clean =>
    obtain ⟨i, hi, hip⟩ := List.mem_iff_getElem.mp hp
    have := (scan_clean l c hs).2 i p (by simp [List.getElem?_eq_getElem hi, hip])
    exact absurd this (hd _)

/-! ## the three outcomes of a poll -/

/-- `remainingCount` -/
def remCount (w : W α) : Nat := w.itemsToScan.length - w.perIter
/-- `toCheck`: the tail of `itemsToScan` this poll looks at -/
def toCheck (w : W α) : List α := w.itemsToScan.drop (remCount w)
/-- `remaining`: what stays in `itemsToScan` -/
def remaining (w : W α) : List α := w.itemsToScan.take (remCount w)

omit [DecidableEq α] in
theorem remaining_append_toCheck (w : W α) : remaining w ++ toCheck w = w.itemsToScan := List.take_append_drop _ _

omit [DecidableEq α] in
theorem length_remaining (w : W α) : (remaining w).length = w.itemsToScan.length - w.perIter := by
  unfold remaining remCount; rw [List.length_take]; omega

theorem pollCore_cases (w : W α) (ask : Ask α) (hr : ∀ x ∈ w.recentItems, x ∈ w.keys)
    (hi : ∀ x ∈ w.itemsToScan, x ∈ w.keys) :
    (∃ i p d, scan w.keys ask 0 w.recentItems = .hit i p d ∧
      pollCore w ask = some { w := { w with recentItems := w.recentItems.eraseIdx i ++ [p] }, ret := d, hit := some p,
                              calls := w.recentItems.take (i + 1) }) ∨
    (scan w.keys ask 0 w.recentItems = .clean ∧
      ∃ i p d, scan w.keys ask w.recentItems.length (toCheck w) = .hit i p d ∧
      pollCore w ask = some { w := { w with itemsToScan := remaining w, recentItems := pushRecent w.recentItems p },
                              ret := d, hit := some p, calls := w.recentItems ++ (toCheck w).take (i + 1) }) ∨
    (scan w.keys ask 0 w.recentItems = .clean ∧ scan w.keys ask w.recentItems.length (toCheck w) = .clean ∧
      pollCore w ask = some { w := { w with itemsToScan := remaining w }, ret := "", hit := none,
                              calls := w.recentItems ++ toCheck w }) := by
  have ht : ∀ x ∈ toCheck w, x ∈ w.keys := fun x hx => hi x (List.mem_of_mem_drop hx)
  cases h1 : scan w.keys ask 0 w.recentItems with
  | panic i => exact absurd h1 (scan_ne_panic _ _ _ hr)
  | hit i p d =>
    left
    refine ⟨i, p, d, rfl, ?_⟩
    simp only [pollCore, h1]
  | clean =>
    right
    cases h2 : scan w.keys ask w.recentItems.length (toCheck w) with
    | panic i => exact absurd h2 (scan_ne_panic _ _ _ ht)
    | hit i p d =>
      left
      refine ⟨rfl, i, p, d, rfl, ?_⟩
      have h2' := h2
      simp only [toCheck, remCount] at h2'
      simp only [pollCore, h1, h2', toCheck, remaining, remCount]
    | clean =>
      right
      refine ⟨rfl, rfl, ?_⟩
      have h2' := h2
      simp only [toCheck, remCount] at h2'
      simp only [pollCore, h1, h2', toCheck, remaining, remCount]

/-- a poll (after the refill) panics only if one of its two lists holds a path that is not a key of the watch data -/
theorem pollCore_none {w : W α} {ask : Ask α} (h : pollCore w ask = none) :
    (∃ x ∈ w.recentItems, x ∉ w.keys) ∨ (∃ x ∈ w.itemsToScan, x ∉ w.keys) := by
  by_cases hr : ∀ x ∈ w.recentItems, x ∈ w.keys
  · by_cases hi : ∀ x ∈ w.itemsToScan, x ∈ w.keys
    · rcases pollCore_cases w ask hr hi with ⟨_, _, _, _, h'⟩ | ⟨_, _, _, _, _, h'⟩ | ⟨_, _, h'⟩ <;> rw [h] at h' <;> cases h'
    · right; simpa using hi
  · left; simpa using hr

/-! ## the invariant of the watcher state -/

/-- what every state the real code can reach satisfies (`inv_init`, `inv_setWatchData`, `inv_poll`) -/
structure Inv (w : W α) : Prop where
  keysNodup : w.keys.Nodup                                      -- keys of a Go map
  itemsNodup : w.itemsToScan.Nodup
  itemsSub : ∀ x ∈ w.itemsToScan, x ∈ w.keys
  recentSub : ∀ x ∈ w.recentItems, x ∈ w.keys
  recentLen : w.recentItems.length ≤ maxRecentItemCount
  perPos : w.itemsToScan ≠ [] → 0 < w.perIter

theorem minItemCount_le_perIterOf (n : Nat) : minItemCountPerIter ≤ perIterOf n := by
  unfold perIterOf; simp only []; split <;> omega

theorem perIterOf_pos (n : Nat) : 0 < perIterOf n := by
  have := minItemCount_le_perIterOf n; unfold minItemCountPerIter at this; omega

omit [DecidableEq α] in
theorem length_pushRecent_le (r : List α) (p : α) : (pushRecent r p).length ≤ maxRecentItemCount := by
  unfold pushRecent; simp only []
  split
  · rw [List.length_take]; exact Nat.min_le_left _ _
  · omega

omit [DecidableEq α] in
theorem mem_pushRecent {r : List α} {p x : α} (h : x ∈ pushRecent r p) : x ∈ r ∨ x = p := by
  unfold pushRecent at h; simp only [] at h
  split at h
  · have := List.mem_of_mem_drop (List.mem_of_mem_take h)
    simpa using this
  · simpa using h

omit [DecidableEq α] in
theorem inv_init : Inv (W.init : W α) :=
  ⟨by simp [W.init], by simp [W.init], by simp [W.init], by simp [W.init], by simp [W.init], by simp [W.init]⟩

theorem inv_setWatchData {w : W α} (hl : w.recentItems.length ≤ maxRecentItemCount) {newKeys : List α}
    (hk : newKeys.Nodup) : Inv (setWatchData w newKeys) := by
  refine ⟨hk, by simp [setWatchData], by simp [setWatchData], ?_, ?_, by simp [setWatchData]⟩
  · intro x hx
    simp only [setWatchData, List.mem_filter] at hx
    show x ∈ newKeys
    simpa using hx.2
  · exact Nat.le_trans (List.length_filter_le _ _) hl

theorem inv_refill {w : W α} (hw : Inv w) {order : List α} (ho : ValidOrder w order) : Inv (refill w order) := by
  unfold refill
  split
  · exact ⟨hw.keysNodup, ho.nodup_iff.mpr hw.keysNodup, fun x hx => ho.mem_iff.mp hx, hw.recentSub, hw.recentLen,
      fun _ => perIterOf_pos _⟩
  · exact hw

theorem refill_of_ne_nil {w : W α} (h : w.itemsToScan ≠ []) (order : List α) : refill w order = w := by
  unfold refill
  rw [if_neg]
  intro h0; exact h (List.length_eq_zero_iff.mp h0)

theorem inv_pollCore {w : W α} (hw : Inv w) {ask : Ask α} {o : Out α} (h : pollCore w ask = some o) : Inv o.w := by
  have hrem : Inv { w with itemsToScan := remaining w } :=
    ⟨hw.keysNodup, hw.itemsNodup.sublist (List.take_sublist _ _), fun x hx => hw.itemsSub x (List.mem_of_mem_take hx),
     hw.recentSub, hw.recentLen, fun hne => hw.perPos (fun h0 => hne (by simp [remaining, h0]))⟩
  rcases pollCore_cases w ask hw.recentSub hw.itemsSub with ⟨i, p, d, hs, ho⟩ | ⟨_, i, p, d, hs, ho⟩ | ⟨_, _, ho⟩
  · rw [h] at ho; cases ho
    obtain ⟨hip, hpk, _, _, _⟩ := scan_hit _ _ _ _ _ hs
    have hi : i < w.recentItems.length := by
      rcases List.getElem?_eq_some_iff.mp hip with ⟨hi, _⟩; exact hi
    refine ⟨hw.keysNodup, hw.itemsNodup, hw.itemsSub, ?_, ?_, hw.perPos⟩
    · intro x hx
      rcases List.mem_append.mp hx with hx | hx
      · exact hw.recentSub x (List.mem_of_mem_eraseIdx hx)
      · simp at hx; subst hx; exact hpk
    · have := hw.recentLen
      simp only [List.length_append, List.length_eraseIdx, if_pos hi, List.length_singleton]
      omega
  · rw [h] at ho; cases ho
    obtain ⟨_, hpk, _, _, _⟩ := scan_hit _ _ _ _ _ hs
    refine ⟨hw.keysNodup, hrem.itemsNodup, hrem.itemsSub, ?_, length_pushRecent_le _ _, hrem.perPos⟩
    intro x hx
    rcases mem_pushRecent hx with hx | rfl
    · exact hw.recentSub x hx
    · exact hpk
  · rw [h] at ho; cases ho
    exact hrem

theorem inv_poll {w : W α} (hw : Inv w) {order : List α} (ho : ValidOrder w order) {ask : Ask α} {o : Out α}
    (h : poll w order ask = some o) : Inv o.w := inv_pollCore (inv_refill hw ho) h

theorem pollCore_isSome {w : W α} (hw : Inv w) (ask : Ask α) : ∃ o, pollCore w ask = some o := by
  rcases pollCore_cases w ask hw.recentSub hw.itemsSub with ⟨_, _, _, _, ho⟩ | ⟨_, _, _, _, _, ho⟩ | ⟨_, _, ho⟩ <;>
    exact ⟨_, ho⟩

theorem poll_isSome {w : W α} (hw : Inv w) {order : List α} (ho : ValidOrder w order) (ask : Ask α) :
    ∃ o, poll w order ask = some o := pollCore_isSome (inv_refill hw ho) ask

/-! ## vocabulary of the property theorems -/

/-- the last `n` elements -/
def lastN (n : Nat) (l : List α) : List α := l.drop (l.length - n)

/-- the distinct elements of a history, each at the position of its LAST occurrence -/
def dedupKeepLast : List α → List α
  | [] => []
  | x :: xs => if x ∈ xs then dedupKeepLast xs else x :: dedupKeepLast xs

/-- `⌈a / b⌉` -/
def cdiv (a b : Nat) : Nat := (a + b - 1) / b

/-- number of polls of one complete round over `n` paths: `⌈n / itemsPerIteration⌉` -/
def roundLen (n : Nat) : Nat := cdiv n (perIterOf n)

/-- what one poll gets from outside: the refill order (used only if the poll refills) and the predicate answers -/
structure PollIn (α : Type) where
  order : List α
  ask : Ask α

/-- run polls until the first one that returns a path (the loop would rebuild then): its index and the path -/
def firstHit : W α → List (PollIn α) → Option (Nat × String)
  | _, [] => none
  | w, q :: qs =>
    match poll w q.order q.ask with
    | none => none
    | some o => if o.ret ≠ "" then some (0, o.ret) else (firstHit o.w qs).map (fun r => (r.1 + 1, r.2))

/-- run all polls (no rebuild in between): the final state, the keys whose predicates fired (oldest first), and every
predicate call that was made -/
def runPolls : W α → List (PollIn α) → Option (W α × List α × List α)
  | w, [] => some (w, [], [])
  | w, q :: qs =>
    match poll w q.order q.ask with
    | none => none
    | some o =>
      match runPolls o.w qs with
      | none => none
      | some (wf, hs, cs) => some (wf, o.hit.toList ++ hs, o.calls ++ cs)

theorem cdiv_zero (b : Nat) : cdiv 0 b = 0 := by
  unfold cdiv
  rcases Nat.eq_zero_or_pos b with rfl | hb
  · simp
  · exact Nat.div_eq_of_lt (by omega)

theorem cdiv_pos {a b : Nat} (ha : 0 < a) (hb : 0 < b) : 0 < cdiv a b := by
  unfold cdiv; exact Nat.div_pos (by omega) hb

theorem cdiv_step {a b : Nat} (ha : 0 < a) (hb : 0 < b) : cdiv (a - b) b + 1 = cdiv a b := by
  unfold cdiv
  have e : a + b - 1 = (a - 1) + b := by omega
  rw [e, Nat.add_div_right _ hb]
  by_cases hab : a ≤ b
  · have h0 : a - b = 0 := by omega
    rw [h0, Nat.div_eq_of_lt (show 0 + b - 1 < b by omega), Nat.div_eq_of_lt (show a - 1 < b by omega)]
  · have e2 : a - b + b - 1 = a - 1 := by omega
    rw [e2]

theorem roundLen_le (n : Nat) : roundLen n ≤ maxIntervalsBeforeUpdate := by
  unfold roundLen cdiv
  have hp := perIterOf_pos n
  have h20 : n ≤ 20 * perIterOf n := by
    unfold perIterOf maxIntervalsBeforeUpdate minItemCountPerIter; simp only []; split <;> omega
  apply Nat.le_of_lt_succ
  apply (Nat.div_lt_iff_lt_mul hp).mpr
  unfold maxIntervalsBeforeUpdate; omega

/-! ## a poll that returns "" and a poll that returns a path -/

theorem pollCore_ret_empty {w : W α} (hw : Inv w) {ask : Ask α} {o : Out α} (h : pollCore w ask = some o)
    (hr : o.ret = "") :
    o = { w := { w with itemsToScan := remaining w }, ret := "", hit := none, calls := w.recentItems ++ toCheck w } ∧
    scan w.keys ask 0 w.recentItems = .clean ∧ scan w.keys ask w.recentItems.length (toCheck w) = .clean := by
  rcases pollCore_cases w ask hw.recentSub hw.itemsSub with ⟨i, p, d, hs, ho⟩ | ⟨_, i, p, d, hs, ho⟩ | ⟨h1, h2, ho⟩
  · rw [h] at ho; cases ho
    exact absurd hr (scan_hit _ _ _ _ _ hs).2.2.2.1
  · rw [h] at ho; cases ho
    exact absurd hr (scan_hit _ _ _ _ _ hs).2.2.2.1
  · rw [h] at ho; cases ho
    exact ⟨rfl, h1, h2⟩

/-- a path of `itemsToScan` whose predicate answers "dirty" whenever asked is still waiting after a poll that returned "" -/
theorem pollCore_clean_keeps {w : W α} (hw : Inv w) {ask : Ask α} {o : Out α} (h : pollCore w ask = some o)
    (hr : o.ret = "") {p : α} (hd : ∀ c, ask c p ≠ "") (hp : p ∈ w.itemsToScan) : p ∈ o.w.itemsToScan := by
  obtain ⟨ho, _, h2⟩ := pollCore_ret_empty hw h hr
  subst ho
  show p ∈ remaining w
  rw [← remaining_append_toCheck w] at hp
  rcases List.mem_append.mp hp with hp | hp
  · exact hp
  · obtain ⟨i, hi, hip⟩ := List.mem_iff_getElem.mp hp
    have := (scan_clean _ _ h2).2 i p (by simp [List.getElem?_eq_getElem hi, hip])
    exact absurd this (hd _)

/-- a path of `recentItems` whose predicate answers "dirty" whenever asked makes the poll return a path -/
theorem pollCore_recent_dirty {w : W α} (hw : Inv w) {ask : Ask α} {o : Out α} (h : pollCore w ask = some o)
    {p : α} (hd : ∀ c, ask c p ≠ "") (hp : p ∈ w.recentItems) : o.ret ≠ "" := by
  intro hr
  obtain ⟨_, h1, _⟩ := pollCore_ret_empty hw h hr
  obtain ⟨i, hi, hip⟩ := List.mem_iff_getElem.mp hp
  have := (scan_clean _ _ h1).2 i p (by simp [List.getElem?_eq_getElem hi, hip])
  exact absurd this (hd _)

theorem pollCore_keys {w : W α} (hw : Inv w) {ask : Ask α} {o : Out α} (h : pollCore w ask = some o) :
    o.w.keys = w.keys := by
  rcases pollCore_cases w ask hw.recentSub hw.itemsSub with ⟨_, _, _, _, ho⟩ | ⟨_, _, _, _, _, ho⟩ | ⟨_, _, ho⟩ <;>
    (rw [h] at ho; cases ho; rfl)

theorem refill_keys (w : W α) (order : List α) : (refill w order).keys = w.keys := by
  unfold refill; split <;> rfl

theorem poll_keys {w : W α} (hw : Inv w) {order : List α} (hv : ValidOrder w order) {ask : Ask α} {o : Out α}
    (h : poll w order ask = some o) : o.w.keys = w.keys := by
  rw [pollCore_keys (inv_refill hw hv) h, refill_keys]

/-! ## how many polls until a path that stays dirty is found -/

/-- the path is waiting in `itemsToScan`: it is reached within `⌈len / itemsPerIteration⌉` polls -/
theorem firstHit_phase1 {p : α} : ∀ (polls : List (PollIn α)) (w : W α), Inv w → p ∈ w.itemsToScan →
    (∀ q ∈ polls, ∀ c, q.ask c p ≠ "") → cdiv w.itemsToScan.length w.perIter ≤ polls.length →
    ∃ i d, firstHit w polls = some (i, d) ∧ i < cdiv w.itemsToScan.length w.perIter ∧ d ≠ "" := by
  intro polls
  induction polls with
  | nil =>
    intro w hw hp _ hlen
    have hne : w.itemsToScan ≠ [] := List.ne_nil_of_mem hp
    have := cdiv_pos (List.length_pos_iff.mpr hne) (hw.perPos hne)
    simp at hlen; omega
  | cons q qs ih =>
    intro w hw hp hd hlen
    have hne : w.itemsToScan ≠ [] := List.ne_nil_of_mem hp
    have hpoll : poll w q.order q.ask = pollCore w q.ask := by unfold poll; rw [refill_of_ne_nil hne]
    obtain ⟨o, ho⟩ := pollCore_isSome hw q.ask
    have hcpos := cdiv_pos (List.length_pos_iff.mpr hne) (hw.perPos hne)
    unfold firstHit
    rw [hpoll, ho]
    simp only []
    by_cases hr : o.ret ≠ ""
    · rw [if_pos hr]; exact ⟨0, o.ret, rfl, hcpos, hr⟩
    · rw [if_neg hr]
      have hr' : o.ret = "" := by simpa using hr
      have hkeep := pollCore_clean_keeps hw ho hr' (hd q (by simp)) hp
      obtain ⟨heq, _, _⟩ := pollCore_ret_empty hw ho hr'
      have hlen' : o.w.itemsToScan.length = w.itemsToScan.length - w.perIter := by
        rw [heq]; exact length_remaining w
      have hper : o.w.perIter = w.perIter := by rw [heq]
      have hstep := cdiv_step (List.length_pos_iff.mpr hne) (hw.perPos hne)
      have hlen2 : cdiv o.w.itemsToScan.length o.w.perIter ≤ qs.length := by
        rw [hlen', hper]; simp at hlen; omega
      obtain ⟨i, d, hf, hi, hdne⟩ :=
        ih o.w (inv_pollCore hw ho) hkeep (fun q' hq' => hd q' (by simp [hq'])) hlen2
      refine ⟨i + 1, d, by rw [hf]; rfl, ?_, hdne⟩
      rw [hlen', hper] at hi; omega

/-- from ANY state: the rest of the current round, then one complete round -/
theorem firstHit_anywhere {p : α} : ∀ (polls : List (PollIn α)) (w : W α), Inv w → p ∈ w.keys →
    (∀ q ∈ polls, q.order.Perm w.keys ∧ ∀ c, q.ask c p ≠ "") →
    cdiv w.itemsToScan.length w.perIter + roundLen w.keys.length ≤ polls.length →
    ∃ i d, firstHit w polls = some (i, d) ∧
      i < cdiv w.itemsToScan.length w.perIter + roundLen w.keys.length ∧ d ≠ "" := by
  intro polls
  induction polls with
  | nil =>
    intro w hw hp _ hlen
    have hn : 0 < w.keys.length := List.length_pos_iff.mpr (List.ne_nil_of_mem hp)
    have : 0 < roundLen w.keys.length := cdiv_pos hn (perIterOf_pos _)
    simp at hlen; omega
  | cons q qs ih =>
    intro w hw hp hd hlen
    have hv : ValidOrder w q.order := (hd q (by simp)).1
    have hdq : ∀ c, q.ask c p ≠ "" := (hd q (by simp)).2
    have hn : 0 < w.keys.length := List.length_pos_iff.mpr (List.ne_nil_of_mem hp)
    have hrpos : 0 < roundLen w.keys.length := cdiv_pos hn (perIterOf_pos _)
    obtain ⟨o, ho⟩ := poll_isSome hw hv q.ask
    unfold firstHit
    rw [ho]
    simp only []
    by_cases hr : o.ret ≠ ""
    · rw [if_pos hr]; exact ⟨0, o.ret, rfl, by omega, hr⟩
    · rw [if_neg hr]
      have hr' : o.ret = "" := by simpa using hr
      have hwo : Inv o.w := inv_poll hw hv ho
      have hko : o.w.keys = w.keys := poll_keys hw hv ho
      have hd' : ∀ q' ∈ qs, q'.order.Perm o.w.keys ∧ ∀ c, q'.ask c p ≠ "" := by
        intro q' hq'; rw [hko]; exact hd q' (by simp [hq'])
      by_cases hnil : w.itemsToScan = []
      · -- this poll refills: `p` is in the new order, and the complete round reaches it
        have hw1 : Inv (refill w q.order) := inv_refill hw hv
        have href : refill w q.order = { w with itemsToScan := q.order, perIter := perIterOf q.order.length } := by
          unfold refill; rw [if_pos (by simp [hnil])]
        have hp1 : p ∈ (refill w q.order).itemsToScan := by rw [href]; exact hv.mem_iff.mpr hp
        have hkeep := pollCore_clean_keeps hw1 ho hr' hdq hp1
        obtain ⟨heq, _, _⟩ := pollCore_ret_empty hw1 ho hr'
        have hlen' : o.w.itemsToScan.length = w.keys.length - perIterOf w.keys.length := by
          rw [heq]; show (remaining (refill w q.order)).length = _
          rw [length_remaining, href]; show q.order.length - perIterOf q.order.length = _
          rw [hv.length_eq]
        have hper : o.w.perIter = perIterOf w.keys.length := by
          rw [heq]; show (refill w q.order).perIter = _
          rw [href]; show perIterOf q.order.length = _
          rw [hv.length_eq]
        have hstep := cdiv_step hn (perIterOf_pos w.keys.length)
        have h0 : cdiv w.itemsToScan.length w.perIter = 0 := by rw [hnil]; exact cdiv_zero _
        have hlen2 : cdiv o.w.itemsToScan.length o.w.perIter ≤ qs.length := by
          rw [hlen', hper]; simp at hlen; unfold roundLen at hlen; omega
        obtain ⟨i, d, hf, hi, hdne⟩ := firstHit_phase1 qs o.w hwo hkeep (fun q' hq' => (hd' q' hq').2) hlen2
        refine ⟨i + 1, d, by rw [hf]; rfl, ?_, hdne⟩
        rw [hlen', hper] at hi; unfold roundLen; omega
      · -- the round in progress goes on
        have hpoll : poll w q.order q.ask = pollCore w q.ask := by unfold poll; rw [refill_of_ne_nil hnil]
        rw [hpoll] at ho
        obtain ⟨heq, _, _⟩ := pollCore_ret_empty hw ho hr'
        have hlen' : o.w.itemsToScan.length = w.itemsToScan.length - w.perIter := by
          rw [heq]; exact length_remaining w
        have hper : o.w.perIter = w.perIter := by rw [heq]
        have hstep := cdiv_step (List.length_pos_iff.mpr hnil) (hw.perPos hnil)
        have hlen2 : cdiv o.w.itemsToScan.length o.w.perIter + roundLen o.w.keys.length ≤ qs.length := by
          rw [hlen', hper, hko]; simp at hlen; omega
        obtain ⟨i, d, hf, hi, hdne⟩ := ih o.w hwo (by rw [hko]; exact hp) hd' hlen2
        refine ⟨i + 1, d, by rw [hf]; rfl, ?_, hdne⟩
        rw [hlen', hper, hko] at hi; omega

/-! ## a poll that returns a path -/

theorem pushRecent_eq_lastN {r : List α} (hl : r.length ≤ maxRecentItemCount) (p : α) :
    pushRecent r p = lastN maxRecentItemCount (r ++ [p]) := by
  unfold pushRecent lastN
  unfold maxRecentItemCount at *
  simp only [List.length_append, List.length_singleton]
  split
  · have e : r.length + 1 - 16 = 1 := by omega
    rw [e]
    apply List.take_of_length_le
    simp; omega
  · have e : r.length + 1 - 16 = 0 := by omega
    rw [e]; simp

theorem getLast?_pushRecent {r : List α} (hl : r.length ≤ maxRecentItemCount) (p : α) :
    (pushRecent r p).getLast? = some p := by
  rw [pushRecent_eq_lastN hl]
  unfold lastN
  rw [List.getLast?_drop]
  unfold maxRecentItemCount
  simp
  omega

/-- everything about a poll that returned a path: the path is the answer `ask c p` of the LAST predicate call the poll
made, that predicate belongs to a key `p` of the watch data, every earlier call answered "", and `p` is now the most
recent of the recent items -/
theorem pollCore_ret_ne {w : W α} (hw : Inv w) {ask : Ask α} {o : Out α} (h : pollCore w ask = some o)
    (hr : o.ret ≠ "") :
    ∃ c p, o.hit = some p ∧ p ∈ w.keys ∧ o.calls[c]? = some p ∧ o.calls.length = c + 1 ∧ o.ret = ask c p ∧
      (∀ j x, j < c → o.calls[j]? = some x → ask j x = "") ∧ o.w.recentItems.getLast? = some p ∧
      o.calls <+: w.recentItems ++ toCheck w := by
  rcases pollCore_cases w ask hw.recentSub hw.itemsSub with ⟨i, p, d, hs, ho⟩ | ⟨h1, i, p, d, hs, ho⟩ | ⟨_, _, ho⟩
  · rw [h] at ho; cases ho
    obtain ⟨hip, hpk, hd, _, hbefore⟩ := scan_hit _ _ _ _ _ hs
    have hi : i < w.recentItems.length := (List.getElem?_eq_some_iff.mp hip).1
    refine ⟨i, p, rfl, hpk, ?_, ?_, by simpa using hd, ?_, by simp, ?_⟩
    · show (w.recentItems.take (i + 1))[i]? = some p
      rw [List.getElem?_take_of_lt (by omega)]; exact hip
    · show (w.recentItems.take (i + 1)).length = i + 1
      rw [List.length_take]; omega
    · intro j x hj hjx
      have hjx' : (w.recentItems.take (i + 1))[j]? = some x := hjx
      rw [List.getElem?_take_of_lt (by omega)] at hjx'
      simpa using hbefore j x hj hjx'
    · exact List.prefix_append_of_prefix (List.take_prefix _ _)
  · rw [h] at ho; cases ho
    obtain ⟨hip, hpk, hd, _, hbefore⟩ := scan_hit _ _ _ _ _ hs
    have hi : i < (toCheck w).length := (List.getElem?_eq_some_iff.mp hip).1
    have hrec := (scan_clean _ _ h1).2
    refine ⟨w.recentItems.length + i, p, rfl, hpk, ?_, ?_, hd, ?_, getLast?_pushRecent hw.recentLen p, ?_⟩
    · show (w.recentItems ++ (toCheck w).take (i + 1))[w.recentItems.length + i]? = some p
      rw [List.getElem?_append_right (by omega)]
      have e : w.recentItems.length + i - w.recentItems.length = i := by omega
      rw [e, List.getElem?_take_of_lt (by omega)]; exact hip
    · show (w.recentItems ++ (toCheck w).take (i + 1)).length = _
      rw [List.length_append, List.length_take]; omega
    · intro j x hj hjx
      have hjx' : (w.recentItems ++ (toCheck w).take (i + 1))[j]? = some x := hjx
      by_cases hjr : j < w.recentItems.length
      · rw [List.getElem?_append_left hjr] at hjx'
        simpa using hrec j x hjx'
      · rw [List.getElem?_append_right (by omega)] at hjx'
        rw [List.getElem?_take_of_lt (by omega)] at hjx'
        have := hbefore (j - w.recentItems.length) x (by omega) hjx'
        have e : w.recentItems.length + (j - w.recentItems.length) = j := by omega
        rw [e] at this; exact this
    · exact (List.prefix_append_right_inj _).mpr (List.take_prefix _ _)
  · rw [h] at ho; cases ho
    exact absurd rfl hr

end EsbuildModel.WatchLoop
