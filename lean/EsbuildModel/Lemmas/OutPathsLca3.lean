import EsbuildModel.Lemmas.OutPathsLca2
/-
`lowestCommonAncestorDirectory`, part 3: the fold over all entry points; `lca2` / `lcaAll` of the
specification are greatest common prefixes.
-/
namespace EsbuildModel.OutPaths
open EsbuildModel.Spec.OutPath

/-- names on which the loop's comparison is exact -/
def PlainPath (P : AbsPath) : Prop := ∀ x ∈ P, ValidName x ∧ Plain x

instance (P : AbsPath) : Decidable (PlainPath P) := by unfold PlainPath; infer_instance

theorem PlainPath.dropLast {P : AbsPath} (h : PlainPath P) : PlainPath P.dropLast :=
  fun x hx => h x (List.dropLast_subset _ hx)

theorem PlainPath.lca2_left {A L : AbsPath} (h : PlainPath A) : PlainPath (lca2 A L) :=
  fun x hx => h x (lca2_mem hx)

theorem lca_fold (rest : List AbsPath) : ∀ (Lw : AbsPath), PlainPath Lw → (∀ P ∈ rest, PlainPath P) →
    (rest.map render).foldl (fun lowest absPath => let d := dir absPath; lcaLoop d d lowest 0 0) (render Lw) =
      render ((rest.map List.dropLast).foldl lca2 Lw) := by
  induction rest with
  | nil => intro Lw _ _; rfl
  | cons Q rest ih =>
    intro Lw hLw hrest
    have hQ := hrest Q (by simp)
    simp only [List.map_cons, List.foldl_cons]
    rw [dir_render (fun x hx => (hQ x hx).1), lcaLoop_render hQ.dropLast hLw, lca2_comm]
    exact ih _ hLw.lca2_left (fun P hP => hrest P (by simp [hP]))

/-- `lowestCommonAncestorDirectory` of automatically generated output paths in normal form -/
theorem lca_render (Ps : List AbsPath) (h : ∀ P ∈ Ps, PlainPath P) :
    lca (Ps.map fun P => (render P, true)) =
      if Ps = [] then [] else render (lcaAll (Ps.map List.dropLast)) := by
  unfold lca
  have hf : ((Ps.map fun P => (render P, true)).filter (·.2)).map (·.1) = Ps.map render := by
    induction Ps with
    | nil => rfl
    | cons P Ps ih => simp [ih (fun Q hQ => h Q (by simp [hQ]))]
  rw [hf]
  cases Ps with
  | nil => rfl
  | cons P Ps =>
    have hP := h P (by simp)
    simp only [List.map_cons, List.cons_ne_nil, if_false, lcaAll]
    rw [dir_render (fun x hx => (hP x hx).1)]
    exact lca_fold Ps _ hP.dropLast (fun Q hQ => h Q (by simp [hQ]))

/-- explicitly specified output paths are ignored -/
theorem lca_ignores_explicit (eps : List (Str × Bool)) : lca eps = lca (eps.filter (·.2)) := by
  unfold lca
  rw [List.filter_filter]
  simp

theorem lca2_prefix_left (A L : AbsPath) : lca2 A L <+: A := by
  induction A generalizing L with
  | nil => cases L <;> exact List.prefix_refl _
  | cons a A ih =>
    cases L with
    | nil => exact List.nil_prefix
    | cons y L =>
      by_cases hay : a = y
      · subst hay
        simp only [lca2, if_true]
        exact (List.prefix_cons_inj a).mpr (ih L)
      · simp only [lca2, hay, if_false]
        exact List.nil_prefix

theorem lca2_prefix_right (A L : AbsPath) : lca2 A L <+: L := by
  rw [lca2_comm]; exact lca2_prefix_left L A

theorem lca2_greatest {C A L : AbsPath} (hA : C <+: A) (hL : C <+: L) : C <+: lca2 A L := by
  induction C generalizing A L with
  | nil => exact List.nil_prefix
  | cons c C ih =>
    obtain ⟨ra, rfl⟩ := hA
    obtain ⟨rl, rfl⟩ := hL
    simp only [List.cons_append, lca2, if_true]
    exact (List.prefix_cons_inj c).mpr (ih (List.prefix_append _ _) (List.prefix_append _ _))

theorem foldl_lca2_prefix (ds : List AbsPath) (d : AbsPath) :
    ds.foldl lca2 d <+: d ∧ ∀ e ∈ ds, ds.foldl lca2 d <+: e := by
  induction ds generalizing d with
  | nil => exact ⟨List.prefix_refl _, by simp⟩
  | cons e ds ih =>
    obtain ⟨h1, h2⟩ := ih (lca2 d e)
    simp only [List.foldl_cons]
    refine ⟨h1.trans (lca2_prefix_left d e), ?_⟩
    intro e' he'
    rcases List.mem_cons.mp he' with rfl | he'
    · exact h1.trans (lca2_prefix_right d e')
    · exact h2 e' he'

theorem foldl_lca2_greatest (ds : List AbsPath) (d : AbsPath) {C : AbsPath} (hd : C <+: d)
    (hds : ∀ e ∈ ds, C <+: e) : C <+: ds.foldl lca2 d := by
  induction ds generalizing d with
  | nil => exact hd
  | cons e ds ih =>
    simp only [List.foldl_cons]
    exact ih _ (lca2_greatest hd (hds e (by simp))) (fun e' he' => hds e' (by simp [he']))

/-- `lcaAll` is inside every member and contains every common ancestor: the lowest common ancestor -/
theorem lcaAll_is_lowest_common_ancestor (ds : List AbsPath) :
    (∀ d ∈ ds, Inside (lcaAll ds) d) ∧ ∀ C, (∀ d ∈ ds, Inside C d) → ds ≠ [] → Inside C (lcaAll ds) := by
  cases ds with
  | nil => simp
  | cons d ds =>
    have := foldl_lca2_prefix ds d
    refine ⟨?_, ?_⟩
    · intro e he
      rcases List.mem_cons.mp he with rfl | he
      · exact this.1
      · exact this.2 e he
    · intro C hC _
      exact foldl_lca2_greatest ds d (hC d (by simp)) (fun e he => hC e (by simp [he]))

end EsbuildModel.OutPaths
