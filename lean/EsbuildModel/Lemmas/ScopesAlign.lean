import EsbuildModel.Lemmas.ScopesFlat
/-!
The chain of scopes of the visit pass against the chain of environments of the spec: layers (a block and its
environment; the two scopes of a function and its two or three environments) in which findSymbol and ResolveBinding
agree, over the module scope.
-/
namespace EsbuildModel.Scopes
open JsScopes

/-- a symbol for every binding -/
abbrev Rho := EnvId → JsScopes.Name → Option Nat

/-- the loop of findSymbol without the `with` bookkeeping -/
def findIn (n : Name) : List Frame → Option Nat
  | [] => none
  | f :: fs => match lookup n f.members with
    | some r => some r
    | none => findIn n fs

theorem findIn_append (n : Name) : ∀ (a b : List Frame),
    findIn n (a ++ b) = match findIn n a with | some r => some r | none => findIn n b
  | [], b => rfl
  | f :: a, b => by
    simp only [List.cons_append, findIn]
    cases lookup n f.members with
    | some r => rfl
    | none => exact findIn_append n a b

theorem findLoop_noWith (n : Name) : ∀ (chain : List Frame), (∀ f, f ∈ chain → f.kind ≠ .with_) →
    findLoop n false chain = match findIn n chain with | some r => .member r false | none => .notFound false
  | [], _ => rfl
  | f :: fs, h => by
    have hf : (f.kind == ScK.with_) = false := by simpa using h f (by simp)
    simp only [findLoop, findIn, hf, Bool.or_false]
    cases lookup n f.members with
    | some r => rfl
    | none => exact findLoop_noWith n fs (fun g hg => h g (by simp [hg]))

theorem resolve_append (n : JsScopes.Name) : ∀ (a b : List Env),
    resolve n (a ++ b) = match resolve n a with | some x => some x | none => resolve n b
  | [], b => rfl
  | e :: a, b => by
    simp only [List.cons_append, resolve]
    split
    · rfl
    · exact resolve_append n a b

theorem resolve_mem {n : JsScopes.Name} {b : Binding} : ∀ {es : List Env}, resolve n es = some b →
    ∃ e, e ∈ es ∧ b = ⟨e.id, n⟩ ∧ n ∈ e.names
  | [], h => by simp [resolve] at h
  | e :: es, h => by
    simp only [resolve] at h
    split at h
    · next hc => cases h; exact ⟨e, by simp, rfl, by simpa using hc⟩
    · obtain ⟨e', h1, h2, h3⟩ := resolve_mem h; exact ⟨e', by simp [h1], h2, h3⟩

/-- a bound, non-global symbol -/
def Known (syms : Syms) (m : Nat) : Prop := ∃ k, kindOf? syms m = some k ∧ k ≠ .unbound

theorem Known.ext {a b : Syms} (h : SymsExt a b) {m : Nat} (hk : Known a m) : Known b m := by
  obtain ⟨k, h1, h2⟩ := hk; exact ⟨k, kindOf_ext h h1, h2⟩

/-- the scopes `fs` find what the environments `es` resolve -/
def LayerOK (ρ : Rho) (syms : Syms) (es : List Env) (fs : List Frame) : Prop :=
  (∀ f, f ∈ fs → f.kind ≠ .with_) ∧
  ∀ n, (∀ b, resolve n es = some b →
          ∃ m m', findIn n fs = some m ∧ ρ b.env n = some m' ∧ Conn syms m m' ∧ Known syms m) ∧
       (resolve n es = none → findIn n fs = none)

/-- the module scope against the outermost environments: it may also hold the symbols of unresolvable names -/
def RootOK (ρ : Rho) (syms : Syms) (es : List Env) (root : Frame) : Prop :=
  root.kind ≠ .with_ ∧
  ∀ n, (∀ b, resolve n es = some b →
          ∃ m m', lookup n root.members = some m ∧ ρ b.env n = some m' ∧ Conn syms m m' ∧ Known syms m) ∧
       (resolve n es = none → ∀ m, lookup n root.members = some m → kindOf? syms m = some .unbound)

abbrev Layers := List (List Env × List Frame)
def envsOf (L : Layers) : List Env := (L.map (·.1)).flatten
def framesOf (L : Layers) : List Frame := (L.map (·.2)).flatten
def LayersOK (ρ : Rho) (syms : Syms) (L : Layers) : Prop := ∀ l, l ∈ L → LayerOK ρ syms l.1 l.2

@[simp] theorem envsOf_cons (l : List Env × List Frame) (L : Layers) : envsOf (l :: L) = l.1 ++ envsOf L := by
  simp [envsOf]
@[simp] theorem framesOf_cons (l : List Env × List Frame) (L : Layers) : framesOf (l :: L) = l.2 ++ framesOf L := by
  simp [framesOf]
@[simp] theorem envsOf_nil : envsOf [] = [] := rfl
@[simp] theorem framesOf_nil : framesOf [] = [] := rfl

theorem framesOf_noWith {ρ : Rho} {syms : Syms} : ∀ {L : Layers}, LayersOK ρ syms L → ∀ f, f ∈ framesOf L → f.kind ≠ .with_
  | [], _, f, hf => by simp at hf
  | l :: L, h, f, hf => by
    simp only [framesOf_cons, List.mem_append] at hf
    rcases hf with hf | hf
    · exact (h l (by simp)).1 f hf
    · exact framesOf_noWith (L := L) (fun l' hl' => h l' (by simp [hl'])) f hf

/-- findSymbol's loop against ResolveBinding on aligned chains -/
theorem findIn_ok {ρ : Rho} {syms : Syms} {res : List Env} {root : Frame} (hR : RootOK ρ syms res root) (n : Name) :
    ∀ {L : Layers}, LayersOK ρ syms L →
    (∀ b, resolve n (envsOf L ++ res) = some b →
      ∃ m m', findIn n (framesOf L ++ [root]) = some m ∧ ρ b.env n = some m' ∧ Conn syms m m' ∧ Known syms m) ∧
    (resolve n (envsOf L ++ res) = none →
      findIn n (framesOf L ++ [root]) = none ∨
      ∃ m, findIn n (framesOf L ++ [root]) = some m ∧ kindOf? syms m = some .unbound ∧ lookup n root.members = some m)
  | [], _ => by
    simp only [envsOf_nil, framesOf_nil, List.nil_append, findIn]
    constructor
    · intro b hb
      obtain ⟨m, m', h1, h2, h3, h4⟩ := (hR.2 n).1 b hb
      exact ⟨m, m', by simp [h1], h2, h3, h4⟩
    · intro hn
      cases hl : lookup n root.members with
      | none => exact Or.inl rfl
      | some m => exact Or.inr ⟨m, rfl, (hR.2 n).2 hn m hl, rfl⟩
  | l :: L, hL => by
    have ih := findIn_ok hR n (L := L) (fun l' hl' => hL l' (by simp [hl']))
    have hl := (hL l (by simp)).2 n
    simp only [envsOf_cons, framesOf_cons, List.append_assoc]
    rw [resolve_append, findIn_append]
    cases hr : resolve n l.1 with
    | some b0 =>
      obtain ⟨m, m', h1, h2, h3, h4⟩ := hl.1 b0 hr
      simp only [h1]
      exact ⟨fun b hb => by cases hb; exact ⟨m, m', rfl, h2, h3, h4⟩, fun hb => by cases hb⟩
    | none =>
      simp only [hl.2 hr]
      exact ih

theorem updLast_append (g : Frame → Frame) : ∀ (fs : List Frame) (x : Frame), updLast g (fs ++ [x]) = fs ++ [g x]
  | [], x => rfl
  | [f], x => rfl
  | f :: f' :: fs, x => by
    have := updLast_append g (f' :: fs) x
    simp only [List.cons_append] at this ⊢
    simp only [updLast, this]

/-- `ρ'` agrees with `ρ` on the environments `es` -/
def AgreeOn (ρ ρ' : Rho) (es : List Env) : Prop := ∀ e, e ∈ es → ρ' e.id = ρ e.id

theorem LayerOK.mono {ρ ρ' : Rho} {a b : Syms} {es : List Env} {fs : List Frame} (h : LayerOK ρ a es fs)
    (hk : LinksKept a b) (he : SymsExt a b) (hag : AgreeOn ρ ρ' es) : LayerOK ρ' b es fs := by
  refine ⟨h.1, fun n => ⟨fun bd hb => ?_, (h.2 n).2⟩⟩
  obtain ⟨m, m', h1, h2, h3, h4⟩ := (h.2 n).1 bd hb
  obtain ⟨e, he1, he2, _⟩ := resolve_mem hb
  refine ⟨m, m', h1, ?_, h3.mono hk, h4.ext he⟩
  rw [he2] at h2 ⊢
  rw [hag e he1]; exact h2

theorem LayersOK.mono {ρ ρ' : Rho} {a b : Syms} {L : Layers} (h : LayersOK ρ a L)
    (hk : LinksKept a b) (he : SymsExt a b) (hag : AgreeOn ρ ρ' (envsOf L)) : LayersOK ρ' b L := by
  intro l hl
  refine (h l hl).mono hk he (fun e hel => hag e ?_)
  simp only [envsOf, List.mem_flatten, List.mem_map]
  exact ⟨l.1, ⟨l, hl, rfl⟩, hel⟩

theorem RootOK.mono {ρ ρ' : Rho} {a b : Syms} {es : List Env} {root : Frame} (h : RootOK ρ a es root)
    (hk : LinksKept a b) (he : SymsExt a b) (hag : AgreeOn ρ ρ' es) : RootOK ρ' b es root := by
  refine ⟨h.1, fun n => ⟨fun bd hb => ?_, fun hn m hm => kindOf_ext he ((h.2 n).2 hn m hm)⟩⟩
  obtain ⟨m, m', h1, h2, h3, h4⟩ := (h.2 n).1 bd hb
  obtain ⟨e, he1, he2, _⟩ := resolve_mem hb
  refine ⟨m, m', h1, ?_, h3.mono hk, h4.ext he⟩
  rw [he2] at h2 ⊢
  rw [hag e he1]; exact h2

/-- findSymbol's new global symbol for an unresolvable name -/
theorem RootOK.insert {ρ : Rho} {syms : Syms} {es : List Env} {root : Frame} (h : RootOK ρ syms es root) {n : Name}
    (hn : resolve n es = none) :
    RootOK ρ (syms ++ [⟨.unbound, n, none, false⟩]) es { root with members := insert n syms.length root.members } := by
  have hk := LinksKept.append syms [⟨.unbound, n, none, false⟩]
  have he := SymsExt.append syms [⟨.unbound, n, none, false⟩]
  refine ⟨h.1, fun n' => ⟨fun bd hb => ?_, fun hn' m hm => ?_⟩⟩
  · obtain ⟨m, m', h1, h2, h3, h4⟩ := (h.2 n').1 bd hb
    have hne : n' ≠ n := fun e => by rw [e, hn] at hb; cases hb
    exact ⟨m, m', by simp only [lookup_insert_ne hne]; exact h1, h2, h3.mono hk, h4.ext he⟩
  · by_cases hne : n' = n
    · subst hne
      simp only [lookup_insert_self] at hm
      cases hm; simp [kindOf?]
    · simp only [lookup_insert_ne hne] at hm
      exact kindOf_ext he ((h.2 n').2 hn' m hm)

/-- findSymbol on an aligned chain -/
theorem findSymbol_ok {ρ : Rho} {syms : Syms} {res : List Env} {root : Frame} {L : Layers} (hL : LayersOK ρ syms L)
    (hR : RootOK ρ syms res root) (n : Name) :
    (∀ b, resolve n (envsOf L ++ res) = some b → ∃ m m',
        findSymbol (framesOf L ++ [root]) syms n = (framesOf L ++ [root], syms, m) ∧
        ρ b.env n = some m' ∧ Conn syms m m' ∧ Known syms m) ∧
    (resolve n (envsOf L ++ res) = none →
      (∃ m, findSymbol (framesOf L ++ [root]) syms n = (framesOf L ++ [root], syms, m) ∧ kindOf? syms m = some .unbound) ∨
      (findSymbol (framesOf L ++ [root]) syms n =
          (framesOf L ++ [{ root with members := insert n syms.length root.members }],
            syms ++ [⟨.unbound, n, none, false⟩], syms.length) ∧ resolve n res = none ∧
        lookup n root.members = none)) := by
  have hnw : ∀ f, f ∈ framesOf L ++ [root] → f.kind ≠ .with_ := by
    intro f hf
    simp only [List.mem_append, List.mem_singleton] at hf
    rcases hf with hf | hf
    · exact framesOf_noWith hL f hf
    · rw [hf]; exact hR.1
  have hfl := findLoop_noWith n _ hnw
  obtain ⟨h1, h2⟩ := findIn_ok hR n hL
  constructor
  · intro b hb
    obtain ⟨m, m', e1, e2, e3, e4⟩ := h1 b hb
    refine ⟨m, m', ?_, e2, e3, e4⟩
    unfold findSymbol; rw [hfl, e1]; rfl
  · intro hb
    rcases h2 hb with e1 | ⟨m, e1, e2, _⟩
    · right
      refine ⟨?_, ?_, ?_⟩
      rotate_left 2
      · rw [findIn_append] at e1
        cases hx : findIn n (framesOf L) with
        | some x => rw [hx] at e1; cases e1
        | none =>
          rw [hx] at e1
          simp only [findIn] at e1
          cases hl : lookup n root.members with
          | none => rfl
          | some y => rw [hl] at e1; cases e1
      · unfold findSymbol; rw [hfl, e1]
        simp only [newSymbol, Bool.false_eq_true, if_false]
        rw [updLast_append]
      · rw [resolve_append] at hb
        cases hr : resolve n (envsOf L) with
        | some x => rw [hr] at hb; cases hb
        | none => rw [hr] at hb; exact hb
    · left
      refine ⟨m, ?_, e2⟩
      unfold findSymbol; rw [hfl, e1]; rfl

end EsbuildModel.Scopes
