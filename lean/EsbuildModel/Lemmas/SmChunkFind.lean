import EsbuildModel.Impl.SmChunk
import EsbuildModel.Spec.SourceMapCompose
/-!
`SourceMap.Find` (binary search, model in `Impl/SmParse.lean`) on a map whose mappings are ordered by generated
position (what `ParseSourceMap` establishes with `sort.Stable`) is the lookup of `Spec/SourceMapCompose.lean`.
-/
namespace EsbuildModel.SmChunk
open Spec.SourceMapCompose

def FPred (line col : Int) (m : SmParse.Mapping) : Prop :=
  m.genLine < line ∨ (m.genLine = line ∧ m.genCol ≤ col)

/-- ordered by generated position (line, then column) -/
def SortedArr (ms : Array SmParse.Mapping) : Prop :=
  ∀ i j (hi : i < ms.size) (hj : j < ms.size), i ≤ j →
    ms[i].genLine < ms[j].genLine ∨ (ms[i].genLine = ms[j].genLine ∧ ms[i].genCol ≤ ms[j].genCol)

theorem findLoop_partition (ms : Array SmParse.Mapping) (hs : SortedArr ms) (line col : Int) :
    ∀ (fuel : Nat) (count index : Int),
    0 ≤ count → 0 ≤ index → index + count ≤ ms.size → count < fuel →
    (∀ i (h : i < ms.size), (i : Int) < index → FPred line col ms[i]) →
    (∀ i (h : i < ms.size), index + count ≤ (i : Int) → ¬ FPred line col ms[i]) →
    ∃ r : Nat, SmParse.findLoop ms line col fuel count index = some (r : Int) ∧ r ≤ ms.size ∧
      (∀ i (h : i < ms.size), i < r → FPred line col ms[i]) ∧
      (∀ i (h : i < ms.size), r ≤ i → ¬ FPred line col ms[i]) := by
  intro fuel
  induction fuel with
  | zero => intro count index h0 _ _ h; omega
  | succ fuel ih =>
    intro count index hc hi hsz hf hlo hhi
    unfold SmParse.findLoop
    split
    · next hpos =>
      simp only
      have hlt : (index + count / 2).toNat < ms.size := by omega
      split
      · omega
      · rw [Array.getElem?_eq_getElem hlt]
        simp only
        split
        · next hp =>
          refine ih _ _ (by omega) (by omega) (by omega) (by omega) ?_ ?_
          · intro i h hi'
            have hle : i ≤ (index + count / 2).toNat := by omega
            have := hs i _ h hlt hle
            unfold FPred
            omega
          · intro i h hi'
            exact hhi i h (by omega)
        · next hp =>
          refine ih _ _ (by omega) hi (by omega) (by omega) hlo ?_
          intro i h hi' hpi
          have hle : (index + count / 2).toNat ≤ i := by omega
          have := hs _ i hlt h hle
          unfold FPred at hpi
          omega
    · refine ⟨index.toNat, by rw [Int.toNat_of_nonneg hi], by omega, ?_, ?_⟩
      · intro i h hi'; exact hlo i h (by omega)
      · intro i h hi'; exact hhi i h (by omega)

/-- a mapping as an entry of the specification (sources and names still as indices) -/
def entryOf (m : SmParse.Mapping) : Entry Int Nat := ⟨m.genLine, m.genCol, m.srcIdx, m.origLine, m.origCol, m.name⟩

theorem lastLE_partition {σ ν : Type} (line col : Int) : ∀ (L : List (Entry σ ν)) (r : Nat), r ≤ L.length →
    (∀ i (h : i < L.length), i < r → posLE L[i].gline L[i].gcol line col = true) →
    (∀ i (h : i < L.length), r ≤ i → posLE L[i].gline L[i].gcol line col = false) →
    lastLE line col L = if r = 0 then none else L[r - 1]? := by
  intro L
  induction L with
  | nil => intro r hr _ _; simp [lastLE]
  | cons e rest ih =>
    intro r hr hlo hhi
    cases r with
    | zero =>
      have := ih 0 (by omega) (fun i h hi => by omega) (fun i h _ => by
        have := hhi (i + 1) (by simp; omega) (by omega)
        simpa using this)
      have h0 := hhi 0 (by simp) (by omega)
      simp only [List.getElem_cons_zero] at h0
      simp [lastLE, this, h0]
    | succ r' =>
      have := ih r' (by simp at hr; omega) (fun i h hi => by
        have := hlo (i + 1) (by simp; omega) (by omega)
        simpa using this) (fun i h hi => by
        have := hhi (i + 1) (by simp; omega) (by omega)
        simpa using this)
      simp only [lastLE, this]
      cases r' with
      | zero =>
        have h0 := hlo 0 (by simp) (by omega)
        simp only [List.getElem_cons_zero] at h0
        simp [h0]
      | succ r'' =>
        have hlt : r'' < rest.length := by simp at hr; omega
        simp [List.getElem?_eq_getElem hlt]

theorem posLE_iff (m : SmParse.Mapping) (line col : Int) :
    posLE (entryOf m).gline (entryOf m).gcol line col = true ↔ FPred line col m := by
  simp only [posLE, entryOf, FPred, Bool.or_eq_true, Bool.and_eq_true]
  constructor
  · rintro (h | ⟨h1, h2⟩)
    · exact Or.inl (of_decide_eq_true h)
    · exact Or.inr ⟨of_decide_eq_true h1, of_decide_eq_true h2⟩
  · rintro (h | ⟨h1, h2⟩)
    · exact Or.inl (decide_eq_true h)
    · exact Or.inr ⟨decide_eq_true h1, decide_eq_true h2⟩

/-- **Find = lookup.** On a map ordered by generated position `Find` does not panic and returns the entry that
the specification's lookup names (or nil when the position is unmapped). -/
theorem find_eq_lookup (ms : Array SmParse.Mapping) (hs : SortedArr ms) (line col : Int) :
    ∃ r, SmParse.find ms line col = some r ∧
      (match r with
       | none => lookup (ms.toList.map entryOf) line col = none
       | some k => ∃ h : k < ms.size, lookup (ms.toList.map entryOf) line col = some (entryOf ms[k])) := by
  obtain ⟨r, hr, hsz, hlo, hhi⟩ := findLoop_partition ms hs line col (ms.size + 1) ms.size 0 (by omega) (by omega)
    (by omega) (by omega) (fun i h hi => by omega) (fun i h hi => by omega)
  have hL : lastLE line col (ms.toList.map entryOf) = if r = 0 then none else (ms.toList.map entryOf)[r - 1]? := by
    apply lastLE_partition
    · simpa using hsz
    · intro i h hi
      simp only [List.getElem_map, Array.getElem_toList]
      exact (posLE_iff _ _ _).2 (hlo i (by simpa using h) hi)
    · intro i h hi
      have h' : i < ms.size := by simpa using h
      simp only [List.getElem_map, Array.getElem_toList]
      have := hhi i h' hi
      cases hx : posLE (entryOf ms[i]).gline (entryOf ms[i]).gcol line col with
      | false => rfl
      | true => exact absurd ((posLE_iff _ _ _).1 hx) this
  unfold SmParse.find
  rw [hr]
  simp only
  split
  · next hpos =>
    have hlt : r - 1 < ms.size := by omega
    have hcast : ((r : Int) - 1).toNat = r - 1 := by omega
    rw [hcast, Array.getElem?_eq_getElem hlt]
    simp only
    have hne : ¬ r = 0 := by omega
    have hget : (ms.toList.map entryOf)[r - 1]? = some (entryOf ms[r - 1]) := by
      rw [List.getElem?_map, Array.getElem?_toList, Array.getElem?_eq_getElem hlt]; rfl
    split
    · next hl =>
      refine ⟨_, rfl, hlt, ?_⟩
      simp only [lookup, hL, hne, if_false, hget]
      simp [entryOf, hl]
    · next hl =>
      refine ⟨_, rfl, ?_⟩
      simp only [lookup, hL, hne, if_false, hget]
      simp [entryOf, hl]
  · next hpos =>
    have : r = 0 := by omega
    refine ⟨_, rfl, ?_⟩
    simp [lookup, hL, this]

end EsbuildModel.SmChunk
