import EsbuildModel.Lemmas.JsxTextEntity
/-!
# JSX text: the index machine of `fixWhitespaceAndDecodeJSXEntities` against split / trim / join

Part 1: facts about the specification's `trimEnd`, `trimStart`, `splitLines`, `joinSpace` (any white-space class).
Part 2: what the model's loop does on one line; Part 3: the induction over the lines.
-/
set_option linter.unusedSimpArgs false
namespace EsbuildModel.JsxText
open EsbuildModel.Spec.JsxText
open EsbuildModel.Spec.Unicode (utf16)

/-! ### Part 1: trimming -/

theorem trimEnd_eq_nil_iff (ws : Nat → Bool) : ∀ (l : Text), trimEnd ws l = [] ↔ l.all ws = true := by
  intro l
  induction l with
  | nil => simp [trimEnd]
  | cons c l ih =>
    unfold trimEnd
    split
    · rename_i h
      have hl := ih.1 h
      cases hc : ws c <;> simp [hc, hl]
    · rename_i h
      have hl : ¬ l.all ws = true := fun e => h (ih.2 e)
      simp only [List.all_cons, Bool.and_eq_true]
      constructor
      · intro e; simp at e
      · intro e; exact absurd e.2 hl

theorem trimEnd_cons_of_ne (ws : Nat → Bool) (c : Nat) (l : Text) (h : trimEnd ws l ≠ []) :
    trimEnd ws (c :: l) = c :: trimEnd ws l := by
  conv => lhs; unfold trimEnd
  split
  · rename_i e; exact absurd e h
  · rfl

theorem trimEnd_cons_of_nil (ws : Nat → Bool) (c : Nat) (l : Text) (h : trimEnd ws l = []) :
    trimEnd ws (c :: l) = if ws c then [] else [c] := by
  conv => lhs; unfold trimEnd
  split
  · rfl
  · rename_i e; exact absurd h (e)

/-- `trimEnd` keeps a prefix -/
theorem trimEnd_prefix (ws : Nat → Bool) : ∀ (l : Text), l.take (trimEnd ws l).length = trimEnd ws l := by
  intro l
  induction l with
  | nil => simp [trimEnd]
  | cons c l ih =>
    by_cases h : trimEnd ws l = []
    · rw [trimEnd_cons_of_nil ws c l h]
      cases ws c <;> simp
    · rw [trimEnd_cons_of_ne ws c l h]
      simp [ih]

theorem trimEnd_length_le (ws : Nat → Bool) : ∀ (l : Text), (trimEnd ws l).length ≤ l.length := by
  intro l
  induction l with
  | nil => simp [trimEnd]
  | cons c l ih =>
    by_cases h : trimEnd ws l = []
    · rw [trimEnd_cons_of_nil ws c l h]
      cases ws c <;> simp
    · rw [trimEnd_cons_of_ne ws c l h]
      simp; omega

/-- number of leading white-space characters -/
def lead (ws : Nat → Bool) (l : Text) : Nat := (l.takeWhile ws).length

theorem lead_cons (ws : Nat → Bool) (c : Nat) (l : Text) :
    lead ws (c :: l) = if ws c then lead ws l + 1 else 0 := by
  unfold lead
  cases h : ws c <;> simp [List.takeWhile_cons, h]

theorem drop_lead (ws : Nat → Bool) : ∀ (l : Text), l.drop (lead ws l) = trimStart ws l := by
  intro l
  induction l with
  | nil => simp [lead, trimStart]
  | cons c l ih =>
    rw [lead_cons]
    cases h : ws c
    · simp [trimStart, List.dropWhile_cons, h]
    · simp [trimStart, List.dropWhile_cons, h]
      exact ih

theorem lead_le (ws : Nat → Bool) (l : Text) : lead ws l ≤ l.length := by
  induction l with
  | nil => simp [lead]
  | cons c l ih =>
    rw [lead_cons]
    cases ws c <;> simp
    omega

theorem dropWhile_of_all (ws : Nat → Bool) : ∀ (l : Text), l.all ws = true → l.dropWhile ws = [] := by
  intro l
  induction l with
  | nil => intro _; rfl
  | cons c l ih =>
    intro h
    simp only [List.all_cons, Bool.and_eq_true] at h
    simp [List.dropWhile_cons, h.1, ih h.2]

/-- trimming both ends = cutting `lead` characters off the end-trimmed line -/
theorem trimEnd_trimStart (ws : Nat → Bool) : ∀ (l : Text),
    trimEnd ws (trimStart ws l) = (trimEnd ws l).drop (lead ws l) := by
  intro l
  induction l with
  | nil => simp [trimStart, trimEnd]
  | cons c l ih =>
    rw [lead_cons]
    cases h : ws c
    · simp [trimStart, List.dropWhile_cons, h]
    · simp only [trimStart, List.dropWhile_cons, h, if_true]
      by_cases hn : trimEnd ws l = []
      · rw [trimEnd_cons_of_nil ws c l hn]
        have hall := (trimEnd_eq_nil_iff ws l).1 hn
        have : l.dropWhile ws = [] := dropWhile_of_all ws l hall
        simp [h, this, trimEnd]
      · rw [trimEnd_cons_of_ne ws c l hn]
        simp only [List.drop_succ_cons]
        exact ih

theorem lead_le_trimEnd (ws : Nat → Bool) : ∀ (l : Text), l.all ws = false →
    lead ws l < (trimEnd ws l).length + 1 ∧ lead ws l ≤ (trimEnd ws l).length := by
  intro l
  induction l with
  | nil => intro h; simp at h
  | cons c l ih =>
    intro h
    rw [lead_cons]
    cases hc : ws c
    · simp
    · simp only [List.all_cons, hc, Bool.true_and] at h
      have hall : l.all ws = false := h
      have hn : trimEnd ws l ≠ [] := by
        intro e
        have := (trimEnd_eq_nil_iff ws l).1 e
        rw [this] at hall
        simp at hall
      rw [trimEnd_cons_of_ne ws c l hn]
      have := ih hall
      simp
      omega

/-! ### lines -/

theorem splitLines_ne_nil : ∀ (t : Text), splitLines t ≠ [] := by
  intro t
  cases t with
  | nil => simp [splitLines]
  | cons c cs =>
    unfold splitLines
    split
    · simp
    · split <;> simp

theorem splitLines_no_nl : ∀ (line : Text), (∀ c ∈ line, isLineTerminator c = false) →
    splitLines line = [line] := by
  intro line
  induction line with
  | nil => intro _; rfl
  | cons c cs ih =>
    intro h
    have hc : isLineTerminator c = false := h c (by simp)
    have := ih (fun x hx => h x (List.mem_cons_of_mem _ hx))
    unfold splitLines
    simp [hc, this]

theorem splitLines_append_nl : ∀ (line : Text) (nl : Nat) (rest : Text),
    (∀ c ∈ line, isLineTerminator c = false) → isLineTerminator nl = true →
    splitLines (line ++ nl :: rest) = line :: splitLines rest := by
  intro line
  induction line with
  | nil =>
    intro nl rest _ hnl
    simp only [List.nil_append]
    conv => lhs; unfold splitLines
    simp [hnl]
  | cons c cs ih =>
    intro nl rest h hnl
    have hc : isLineTerminator c = false := h c (by simp)
    have := ih nl rest (fun x hx => h x (List.mem_cons_of_mem _ hx)) hnl
    simp only [List.cons_append]
    conv => lhs; unfold splitLines
    simp [hc, this]

/-- every text is one line, or a line, a line terminator and a text -/
theorem break_line : ∀ (t : Text), ∃ line, (∀ c ∈ line, isLineTerminator c = false) ∧
    (t = line ∨ ∃ nl rest, isLineTerminator nl = true ∧ t = line ++ nl :: rest) := by
  intro t
  induction t with
  | nil => exact ⟨[], by simp, Or.inl rfl⟩
  | cons c cs ih =>
    by_cases hc : isLineTerminator c = true
    · exact ⟨[], by simp, Or.inr ⟨c, cs, hc, rfl⟩⟩
    · obtain ⟨line, hl, hcase⟩ := ih
      have hc' : isLineTerminator c = false := by simpa using hc
      refine ⟨c :: line, ?_, ?_⟩
      · intro x hx
        simp at hx
        rcases hx with rfl | hx
        · exact hc'
        · exact hl x hx
      · rcases hcase with rfl | ⟨nl, rest, hnl, rfl⟩
        · exact Or.inl rfl
        · exact Or.inr ⟨nl, rest, hnl, rfl⟩

/-! ### Part 2: the model's loop on one line -/

theorem isNewline_eq (c : Nat) : isNewline c = isLineTerminator c := by
  unfold isNewline isLineTerminator
  cases (c == 0x0D) <;> cases (c == 0x0A) <;> simp

theorem fixStep_ws (names : Text → Option Nat) (text : Text) (i c : Nat) (st : St)
    (hnl : isNewline c = false) (hw : isWhitespace c = true) : fixStep names text i c st = some st := by
  unfold fixStep
  simp only [hnl, Bool.false_eq_true, if_false, hw, Bool.not_true]
  split <;> rfl

theorem fixStep_nonws (names : Text → Option Nat) (text : Text) (i c : Nat) (st : St)
    (hnl : isNewline c = false) (hw : isWhitespace c = false) :
    fixStep names text i c st =
      some { st with afterLast := some (i + 1),
                     first := match st.first with | none => some i | some f => some f } := by
  have h9 : c ≠ 9 := by intro e; subst e; simp [isWhitespace] at hw
  have h32 : c ≠ 32 := by intro e; subst e; simp [isWhitespace] at hw
  unfold fixStep
  simp [hnl, hw, h9, h32]
  cases st.first <;> rfl

theorem fixLoop_append (names : Text → Option Nat) (text : Text) : ∀ (a b : Text) (i : Nat) (st : St),
    fixLoop names text (a ++ b) i st =
      (fixLoop names text a i st).bind (fun st' => fixLoop names text b (i + a.length) st') := by
  intro a
  induction a with
  | nil => intro b i st; simp [fixLoop]
  | cons c a ih =>
    intro b i st
    simp only [List.cons_append, fixLoop]
    cases fixStep names text i c st with
    | none => rfl
    | some st' =>
      simp only [ih b (i + 1) st', List.length_cons]
      have : i + 1 + a.length = i + (a.length + 1) := by omega
      rw [this]

/-- the state after a segment without line terminators that starts at index `i` -/
def afterLine (line : Text) (i : Nat) (st : St) : St :=
  { decoded := st.decoded,
    first := match st.first with
      | some f => some f
      | none => if line.all isWhitespace then none else some (i + lead isWhitespace line),
    afterLast := if line.all isWhitespace then st.afterLast
                 else some (i + (trimEnd isWhitespace line).length) }

theorem scan_line (names : Text → Option Nat) (text : Text) : ∀ (line : Text) (i : Nat) (st : St),
    (∀ c ∈ line, isNewline c = false) → fixLoop names text line i st = some (afterLine line i st) := by
  intro line
  induction line with
  | nil =>
    intro i st _
    obtain ⟨a, f, d⟩ := st
    cases f <;> simp [fixLoop, afterLine]
  | cons c l ih =>
    intro i st h
    have hc : isNewline c = false := h c (by simp)
    have ihl : ∀ st', fixLoop names text l (i + 1) st' = some (afterLine l (i + 1) st') :=
      fun st' => ih (i + 1) st' (fun x hx => h x (List.mem_cons_of_mem _ hx))
    obtain ⟨a, f, d⟩ := st
    unfold fixLoop
    cases hw : isWhitespace c
    · -- not white space
      rw [fixStep_nonws names text i c _ hc hw]
      simp only [ihl]
      by_cases hall : l.all isWhitespace = true
      · have hn := (trimEnd_eq_nil_iff isWhitespace l).2 hall
        cases f <;>
          simp [afterLine, hall, hw, lead_cons, trimEnd_cons_of_nil isWhitespace c l hn]
      · have hn : trimEnd isWhitespace l ≠ [] := fun e => hall ((trimEnd_eq_nil_iff isWhitespace l).1 e)
        cases f <;>
          simp [afterLine, hall, hw, lead_cons, trimEnd_cons_of_ne isWhitespace c l hn] <;> omega
    · -- white space
      rw [fixStep_ws names text i c _ hc hw]
      simp only [ihl]
      by_cases hall : l.all isWhitespace = true
      · cases f <;> simp [afterLine, hall, hw, lead_cons]
      · have hn : trimEnd isWhitespace l ≠ [] := fun e => hall ((trimEnd_eq_nil_iff isWhitespace l).1 e)
        cases f <;>
          simp [afterLine, hall, hw, lead_cons, trimEnd_cons_of_ne isWhitespace c l hn] <;> omega

/-! ### Part 3: helpers for the induction over the lines -/

/-- the code after the loop -/
def finish (names : Text → Option Nat) (text : Text) (st : St) : Option (List Nat) :=
  match st.first with
  | some f =>
    match slice text f text.length with
    | none => none
    | some s => some (decodeJSXEntities names (sep st.decoded) s)
  | none => some st.decoded

/-- the loop from index `i` on, then the code after the loop -/
def runFrom (names : Text → Option Nat) (text rest : Text) (i : Nat) (st : St) : Option (List Nat) :=
  (fixLoop names text rest i st).bind (finish names text)

theorem fix_eq_runFrom (names : Text → Option Nat) (text : Text) :
    fixWhitespaceAndDecodeJSXEntities names text =
      runFrom names text text 0 { afterLast := none, first := some 0, decoded := [] } := by
  unfold fixWhitespaceAndDecodeJSXEntities runFrom
  cases fixLoop names text text 0 { afterLast := none, first := some 0, decoded := [] } with
  | none => rfl
  | some st =>
    simp only [Option.bind_some, finish]
    cases st.first with
    | none => rfl
    | some f => simp only []; cases slice text f text.length <;> rfl

/-- what one (already trimmed) line adds to the result: nothing when it is empty, otherwise a separating space if
something precedes it, and its decoded characters -/
def addLine (dec : Text → List Nat) (d : List Nat) (l : Text) : List Nat :=
  if l = [] then d else sep d ++ dec l

theorem slice_mid (pre line post : Text) (a b : Nat) (hab : a ≤ b) (hb : b ≤ line.length) :
    slice (pre ++ line ++ post) (pre.length + a) (pre.length + b) = some ((line.take b).drop a) := by
  unfold slice
  have hc : pre.length + a ≤ pre.length + b ∧ pre.length + b ≤ (pre ++ line ++ post).length := by
    simp; omega
  rw [if_pos hc]
  simp only [List.append_assoc]
  rw [List.take_length_add_append, List.drop_length_add_append, List.take_append_of_le_length hb]

theorem Runes.infix {a t b : Text} (h : Runes (a ++ t ++ b)) : Runes t :=
  Runes.of_append_right (Runes.of_append_left h)

theorem trimStart_all (ws : Nat → Bool) (l : Text) (h : l.all ws = true) : trimStart ws l = [] :=
  dropWhile_of_all ws l h

theorem trimStart_not_all (ws : Nat → Bool) : ∀ (l : Text), l.all ws = false →
    (trimStart ws l).all ws = false := by
  intro l
  induction l with
  | nil => intro h; simp at h
  | cons c l ih =>
    intro h
    cases hc : ws c
    · simp [trimStart, List.dropWhile_cons, hc]
    · simp only [List.all_cons, hc, Bool.true_and] at h
      simp only [trimStart, List.dropWhile_cons, hc, if_true]
      exact ih h

theorem trimFollowing_cons (ws : Nat → Bool) (l : Text) (L : List Text) (h : L ≠ []) :
    trimFollowing ws (l :: L) = trimEnd ws (trimStart ws l) :: trimFollowing ws L := by
  cases L with
  | nil => exact absurd rfl h
  | cons x xs => rfl

theorem step_newline_blank (names : Text → Option Nat) (text : Text) (i nl : Nat) (st : St)
    (hnl : isNewline nl = true) (hf : st.first = none) :
    fixStep names text i nl st = some { st with first := none } := by
  unfold fixStep
  simp only [hnl, if_true]
  split
  · rename_i f a h1 h2; rw [hf] at h1; simp at h1
  · rfl

theorem step_newline_first_blank (names : Text → Option Nat) (text : Text) (i nl : Nat) (st : St)
    (hnl : isNewline nl = true) (ha : st.afterLast = none) :
    fixStep names text i nl st = some { st with first := none } := by
  unfold fixStep
  simp only [hnl, if_true]
  split
  · rename_i f a h1 h2; rw [ha] at h2; simp at h2
  · rfl

theorem step_newline_flush (names : Text → Option Nat) (text : Text) (i nl : Nat) (st : St) (f a : Nat) (s : Text)
    (hnl : isNewline nl = true) (hf : st.first = some f) (ha : st.afterLast = some a)
    (hs : slice text f a = some s) :
    fixStep names text i nl st =
      some { st with decoded := decodeJSXEntities names (sep st.decoded) s, first := none } := by
  unfold fixStep
  simp only [hnl, if_true, hf, ha, hs]

theorem slice_infix (text : Text) (lo hi : Nat) (s : Text) (h : slice text lo hi = some s) :
    ∃ a b, text = a ++ s ++ b := by
  unfold slice at h
  split at h
  · rename_i hc
    simp at h
    refine ⟨text.take lo, text.drop hi, ?_⟩
    rw [← h]
    have h1 : text.take lo = (text.take hi).take lo := by
      rw [List.take_take]; congr 1; omega
    rw [h1, List.take_append_drop, List.take_append_drop]
  · simp at h

/-- on every slice of a text the model's entity decoder is the specification's -/
theorem decode_slice (names : Text → Option Nat) (hn : NamesOK names) (text : Text) (hr : Runes text)
    (lo hi : Nat) (s : Text) (d : List Nat) (h : slice text lo hi = some s) :
    decodeJSXEntities names d s = d ++ decodeEntities names s := by
  obtain ⟨a, b, hab⟩ := slice_infix text lo hi s h
  subst hab
  exact decodeJSXEntities_eq names hn d s hr.infix

theorem trimEnd_trimStart_ne_nil (ws : Nat → Bool) (l : Text) (h : l.all ws = false) :
    trimEnd ws (trimStart ws l) ≠ [] := by
  intro e
  have h1 := (trimEnd_eq_nil_iff ws _).1 e
  have h2 := trimStart_not_all ws l h
  rw [h1] at h2
  simp at h2

/-- the lines after the first one -/
theorem run_following (names : Text → Option Nat) (dec : Text → List Nat) (text : Text)
    (hdec : ∀ (lo hi : Nat) (s : Text) (d : List Nat), slice text lo hi = some s →
      decodeJSXEntities names d s = d ++ dec s) :
    ∀ (n : Nat) (rest pre : Text) (st : St), rest.length ≤ n → text = pre ++ rest → st.first = none →
      runFrom names text rest pre.length st =
        some ((trimFollowing isWhitespace (splitLines rest)).foldl (addLine dec) st.decoded) := by
  intro n
  induction n with
  | zero =>
    intro rest pre st hlen _ hf
    have : rest = [] := List.eq_nil_of_length_eq_zero (by omega)
    subst this
    simp [runFrom, fixLoop, finish, hf, splitLines, trimFollowing, trimStart, addLine]
  | succ n ih =>
    intro rest pre st hlen htext hf
    obtain ⟨line, hline, hcase⟩ := break_line rest
    have hline' : ∀ c ∈ line, isNewline c = false := fun c hc => by rw [isNewline_eq]; exact hline c hc
    obtain ⟨a0, f0, d⟩ := st
    simp only at hf
    subst hf
    rcases hcase with rfl | ⟨nl, rest', hnl, rfl⟩
    · -- the last line
      unfold runFrom
      rw [scan_line names text rest pre.length _ hline']
      simp only [Option.bind_some]
      rw [splitLines_no_nl rest hline]
      simp only [trimFollowing, List.foldl]
      by_cases hall : rest.all isWhitespace = true
      · simp [finish, afterLine, hall, addLine, trimStart_all _ _ hall]
      · have hall' : rest.all isWhitespace = false := by simpa using hall
        have hlen' : text.length = pre.length + rest.length := by rw [htext]; simp
        have hsl : slice text (pre.length + lead isWhitespace rest) text.length
            = some (trimStart isWhitespace rest) := by
          have := slice_mid pre rest [] (lead isWhitespace rest) rest.length (lead_le _ _) (Nat.le_refl _)
          simp only [List.append_nil, List.take_length] at this
          rw [hlen', htext, this, drop_lead]
        have hne : trimStart isWhitespace rest ≠ [] := by
          intro e
          have := trimStart_not_all isWhitespace rest hall'
          rw [e] at this
          simp at this
        simp [finish, afterLine, hall', hsl, addLine, hne,
          hdec _ _ _ _ hsl]
    · -- a line, a line terminator, more text
      have hnl' : isNewline nl = true := by rw [isNewline_eq]; exact hnl
      have hpre : text = (pre ++ line ++ [nl]) ++ rest' := by rw [htext]; simp
      have hlen2 : rest'.length ≤ n := by simp at hlen; omega
      have hplen : (pre ++ line ++ [nl]).length = pre.length + line.length + 1 := by simp; omega
      unfold runFrom
      rw [fixLoop_append, scan_line names text line pre.length _ hline']
      simp only [Option.bind_some, fixLoop]
      rw [splitLines_append_nl line nl rest' hline hnl,
        trimFollowing_cons _ _ _ (splitLines_ne_nil rest')]
      simp only [List.foldl_cons]
      by_cases hall : line.all isWhitespace = true
      · have hst1 : afterLine line pre.length { afterLast := a0, first := none, decoded := d }
            = { afterLast := a0, first := none, decoded := d } := by simp [afterLine, hall]
        rw [hst1, step_newline_blank names text _ nl _ hnl' rfl]
        have hx : trimEnd isWhitespace (trimStart isWhitespace line) = [] := by
          rw [trimStart_all _ _ hall]; rfl
        have := ih rest' (pre ++ line ++ [nl]) { afterLast := a0, first := none, decoded := d } hlen2 hpre rfl
        rw [hplen] at this
        simp only [hx, addLine, if_true]
        exact this
      · have hall' : line.all isWhitespace = false := by simpa using hall
        have hst1 : afterLine line pre.length { afterLast := a0, first := none, decoded := d }
            = { afterLast := some (pre.length + (trimEnd isWhitespace line).length),
                first := some (pre.length + lead isWhitespace line), decoded := d } := by
          simp [afterLine, hall']
        have hsl : slice text (pre.length + lead isWhitespace line)
            (pre.length + (trimEnd isWhitespace line).length)
            = some (trimEnd isWhitespace (trimStart isWhitespace line)) := by
          have := slice_mid pre line (nl :: rest') (lead isWhitespace line) (trimEnd isWhitespace line).length
            (lead_le_trimEnd isWhitespace line hall').2 (trimEnd_length_le _ _)
          rw [trimEnd_prefix, ← trimEnd_trimStart] at this
          rw [htext, ← this]
          simp
        have hne := trimEnd_trimStart_ne_nil isWhitespace line hall'
        rw [hst1, step_newline_flush names text _ nl _ _ _ _ hnl' rfl rfl hsl]
        have := ih rest' (pre ++ line ++ [nl])
          { afterLast := some (pre.length + (trimEnd isWhitespace line).length), first := none,
            decoded := decodeJSXEntities names (sep d) (trimEnd isWhitespace (trimStart isWhitespace line)) }
          hlen2 hpre rfl
        rw [hplen] at this
        simp only [addLine, hne, if_false]
        rw [hdec _ _ _ _ hsl] at this ⊢
        exact this

/-! ### joining -/

theorem joinSpace_merge (d x : List Nat) (xs : List (List Nat)) :
    joinSpace ((d ++ 32 :: x) :: xs) = d ++ 32 :: joinSpace (x :: xs) := by
  cases xs with
  | nil => simp [joinSpace]
  | cons y ys => simp [joinSpace]

theorem sep_of_ne_nil (d : List Nat) (h : d ≠ []) : sep d = d ++ [32] := by
  unfold sep
  have : d.length > 0 := List.length_pos_iff.2 h
  simp [this]

theorem sep_nil : sep [] = [] := rfl

theorem foldl_addLine_of_ne_nil (dec : Text → List Nat) : ∀ (ls : List Text) (d : List Nat), d ≠ [] →
    ls.foldl (addLine dec) d =
      joinSpace (d :: (ls.filter (fun l => !l.isEmpty)).map dec) := by
  intro ls
  induction ls with
  | nil => intro d _; simp [joinSpace]
  | cons l ls ih =>
    intro d hd
    simp only [List.foldl_cons]
    by_cases hl : l = []
    · subst hl
      simp [addLine, ih d hd]
    · have hemp : l.isEmpty = false := by cases l <;> simp_all
      have hne : sep d ++ dec l ≠ [] := by
        rw [sep_of_ne_nil d hd]; simp
      rw [show addLine dec d l = sep d ++ dec l by simp [addLine, hl], ih _ hne]
      rw [sep_of_ne_nil d hd]
      simp only [List.filter_cons, hemp, Bool.not_false, if_true, List.map_cons, List.append_assoc,
        List.singleton_append]
      rw [joinSpace_merge]
      rfl

/-- folding the lines into the result = dropping the empty ones and joining the rest with single spaces -/
theorem foldl_addLine_nil (dec : Text → List Nat) (hdne : ∀ s, s ≠ [] → dec s ≠ []) : ∀ (ls : List Text),
    ls.foldl (addLine dec) [] = joinSpace ((ls.filter (fun l => !l.isEmpty)).map dec) := by
  intro ls
  induction ls with
  | nil => rfl
  | cons l ls ih =>
    simp only [List.foldl_cons]
    by_cases hl : l = []
    · subst hl
      simp [addLine, ih]
    · have hemp : l.isEmpty = false := by cases l <;> simp_all
      have hne : dec l ≠ [] := hdne l hl
      rw [show addLine dec [] l = dec l by simp [addLine, hl, sep_nil],
        foldl_addLine_of_ne_nil dec ls _ hne]
      simp [List.filter_cons, hemp]

theorem trimLines_cons (ws : Nat → Bool) (l : Text) (L : List Text) (h : L ≠ []) :
    trimLines ws (l :: L) = trimEnd ws l :: trimFollowing ws L := by
  cases L with
  | nil => exact absurd rfl h
  | cons x xs => rfl

theorem slice_all (text : Text) : slice text 0 text.length = some text := by
  simp [slice]

/-! ### the whole function -/

/-- **`fixWhitespaceAndDecodeJSXEntities` is split / trim / drop / join**, for the white-space class
`js_ast.IsWhitespace` and for ANY reading `dec` of a trimmed line that agrees with the model's entity decoder on the
slices of this text; in particular it never panics -/
theorem fix_eq_specWith (names : Text → Option Nat) (dec : Text → List Nat) (text : Text)
    (hdec : ∀ (lo hi : Nat) (s : Text) (d : List Nat), slice text lo hi = some s →
      decodeJSXEntities names d s = d ++ dec s)
    (hdne : ∀ s, s ≠ [] → dec s ≠ []) :
    fixWhitespaceAndDecodeJSXEntities names text = some (jsxTextValueWith isWhitespace dec text) := by
  rw [fix_eq_runFrom]
  obtain ⟨line, hline, hcase⟩ := break_line text
  have hline' : ∀ c ∈ line, isNewline c = false := fun c hc => by rw [isNewline_eq]; exact hline c hc
  rcases hcase with rfl | ⟨nl, rest', hnl, rfl⟩
  · -- one line: kept as it is
    unfold runFrom
    rw [scan_line names text text 0 _ hline']
    simp only [Option.bind_some, finish, afterLine, slice_all]
    rw [hdec _ _ _ _ (slice_all text)]
    unfold jsxTextValueWith
    rw [splitLines_no_nl text hline]
    by_cases he : text = []
    · subst he
      have h0 : dec [] = [] := by
        have := hdec 0 0 [] [] (by simp [slice])
        simpa [decodeJSXEntities, decodeFrom] using this.symm
      simp [h0, sep_nil, trimLines, joinSpace]
    · have hemp : text.isEmpty = false := by cases text <;> simp_all
      simp [trimLines, hemp, joinSpace, sep_nil]
  · have hnl' : isNewline nl = true := by rw [isNewline_eq]; exact hnl
    have hpre : line ++ nl :: rest' = (line ++ [nl]) ++ rest' := by simp
    have hplen : (line ++ [nl]).length = 0 + line.length + 1 := by simp
    unfold runFrom jsxTextValueWith
    rw [fixLoop_append, scan_line names _ line 0 _ hline']
    simp only [Option.bind_some, fixLoop]
    rw [splitLines_append_nl line nl rest' hline hnl, trimLines_cons _ _ _ (splitLines_ne_nil rest'),
      ← foldl_addLine_nil dec hdne]
    simp only [List.foldl_cons]
    by_cases hall : line.all isWhitespace = true
    · have hst1 : afterLine line 0 { afterLast := none, first := some 0, decoded := [] }
          = { afterLast := none, first := some 0, decoded := [] } := by simp [afterLine, hall]
      rw [hst1, step_newline_first_blank names _ _ nl _ hnl' rfl]
      have hx : trimEnd isWhitespace line = [] := (trimEnd_eq_nil_iff _ _).2 hall
      have := run_following names dec _ hdec rest'.length rest' (line ++ [nl])
        { afterLast := none, first := none, decoded := [] } (Nat.le_refl _) hpre rfl
      rw [hplen] at this
      simp only [hx, addLine, if_true]
      exact this
    · have hall' : line.all isWhitespace = false := by simpa using hall
      have hst1 : afterLine line 0 { afterLast := none, first := some 0, decoded := [] }
          = { afterLast := some (0 + (trimEnd isWhitespace line).length), first := some 0, decoded := [] } := by
        simp [afterLine, hall']
      have hsl : slice (line ++ nl :: rest') 0 (0 + (trimEnd isWhitespace line).length)
          = some (trimEnd isWhitespace line) := by
        have := slice_mid [] line (nl :: rest') 0 (trimEnd isWhitespace line).length (Nat.zero_le _)
          (trimEnd_length_le _ _)
        simp only [List.nil_append, List.length_nil, List.drop_zero, trimEnd_prefix] at this
        exact this
      have hne : trimEnd isWhitespace line ≠ [] := fun e => by
        rw [(trimEnd_eq_nil_iff _ _).1 e] at hall'; simp at hall'
      rw [hst1, step_newline_flush names _ _ nl _ _ _ _ hnl' rfl rfl hsl]
      have := run_following names dec _ hdec rest'.length rest' (line ++ [nl])
        { afterLast := some (0 + (trimEnd isWhitespace line).length), first := none,
          decoded := decodeJSXEntities names (sep []) (trimEnd isWhitespace line) } (Nat.le_refl _) hpre rfl
      rw [hplen] at this
      simp only [addLine, hne, if_false]
      rw [hdec _ _ _ _ hsl] at this ⊢
      exact this

/-- the model's own reading of a trimmed line -/
def modelDec (names : Text → Option Nat) (s : Text) : List Nat := decodeFrom names s.length s

theorem emit_ne_nil (c : Int) : emit c ≠ [] := by
  unfold emit; split <;> simp

theorem modelDec_ne_nil (names : Text → Option Nat) (s : Text) (h : s ≠ []) : modelDec names s ≠ [] := by
  cases s with
  | nil => exact absurd rfl h
  | cons c rest =>
    unfold modelDec
    simp only [List.length_cons]
    unfold decodeFrom
    split <;> simp [emit_ne_nil]

/-- **for ALL texts**: the line structure is the specification's; only the entity decoder is the model's own -/
theorem fix_structure (names : Text → Option Nat) (text : Text) :
    fixWhitespaceAndDecodeJSXEntities names text = some (jsxTextValueWith isWhitespace (modelDec names) text) :=
  fix_eq_specWith names (modelDec names) text (fun _ _ _ _ _ => rfl) (modelDec_ne_nil names)

/-- **the specification**, for every text of code points -/
theorem fix_eq_spec (names : Text → Option Nat) (hn : NamesOK names) (text : Text) (hr : Runes text) :
    fixWhitespaceAndDecodeJSXEntities names text = some (jsxTextValue isWhitespace names text) :=
  fix_eq_specWith names (decodeEntities names) text
    (fun lo hi s d h => decode_slice names hn text hr lo hi s d h) (decodeEntities_ne_nil names)

end EsbuildModel.JsxText
