import EsbuildModel.Lemmas.ExportMatchBridge
import EsbuildModel.Lemmas.EsModulesResolve
/-! Helper lemmas for the import tracker: `mapOpt`, access to `allResolved`, the finite universe of trackers (for the
fuel), `advance` on an ESM-only table, `finish`. -/
namespace EsbuildModel.ExportMatch
open EsbuildModel.Spec EsbuildModel.Spec.EsModules

theorem mapOpt_getElem {α β : Type} (f : α → Option β) : ∀ (l : List α) (out : List β), mapOpt f l = some out →
    ∀ (i : Nat) (x : α), l[i]? = some x → ∃ y, out[i]? = some y ∧ f x = some y := by
  intro l
  induction l with
  | nil => intro out _ i x hx; simp at hx
  | cons a as ih =>
    intro out h i x hx
    simp only [mapOpt] at h
    split at h
    · cases h
    · rename_i b hb
      split at h
      · cases h
      · rename_i bs hbs
        cases h
        cases i with
        | zero => simp at hx; subst hx; exact ⟨b, by simp, hb⟩
        | succ i => simpa using ih bs hbs i x (by simpa using hx)

theorem mapOpt_rel {α β : Type} (f : α → Option β) (R : α → β → Prop) : ∀ (l : List α),
    (∀ a ∈ l, ∃ b, f a = some b ∧ R a b) →
    ∃ bs, mapOpt f l = some bs ∧ (∀ b ∈ bs, ∃ a ∈ l, R a b) ∧ (∀ a ∈ l, ∃ b ∈ bs, R a b) := by
  intro l
  induction l with
  | nil => intro _; exact ⟨[], rfl, by simp, by simp⟩
  | cons a as ih =>
    intro h
    obtain ⟨b, hb, hr⟩ := h a (by simp)
    obtain ⟨bs, hbs, h1, h2⟩ := ih (fun a' ha' => h a' (by simp [ha']))
    refine ⟨b :: bs, by simp [mapOpt, hb, hbs], ?_, ?_⟩
    · intro b' hb'
      rcases List.mem_cons.1 hb' with rfl | hb'
      · exact ⟨a, by simp, hr⟩
      · obtain ⟨a', ha', hr'⟩ := h1 b' hb'
        exact ⟨a', by simp [ha'], hr'⟩
    · intro a' ha'
      rcases List.mem_cons.1 ha' with rfl | ha'
      · exact ⟨b, by simp, hr⟩
      · obtain ⟨b', hb', hr'⟩ := h2 a' ha'
        exact ⟨b', by simp [hb'], hr'⟩

theorem allResolved_get {t : Table} {rs : List Resolved} (h : allResolved t = some rs) {m : Nat} (hm : m < t.length) :
    ∃ res, rs[m]? = some res ∧ resolvedExports t m = some res := by
  have := mapOpt_getElem (resolvedExports t) _ rs h m m (by simp [hm])
  exact this

theorem allResolved_some {t : Table} (hwf : WF t) : ∃ rs, allResolved t = some rs := by
  obtain ⟨bs, hbs, _, _⟩ := mapOpt_rel (resolvedExports t) (fun _ _ => True) (List.range t.length) (by
    intro m hm
    obtain ⟨res, hres⟩ := resolvedExports_some hwf (List.mem_range.1 hm)
    exact ⟨res, hres, trivial⟩)
  exact ⟨bs, hbs⟩

/-! ### the universe of trackers -/

def trackersOf (s : Nat) (f : File) : List Tracker :=
  f.imports.flatMap (fun ni => (0 :: f.exports.map (·.loc)).map (fun l => ⟨s, l, ni.ref⟩))

def trackersFrom : Nat → List File → List Tracker
  | _, [] => []
  | s, f :: fs => trackersOf s f ++ trackersFrom (s + 1) fs

def trackers (t : Table) : List Tracker := trackersFrom 0 t

theorem length_trackersOf (s : Nat) (f : File) : (trackersOf s f).length = f.imports.length * (f.exports.length + 1) := by
  unfold trackersOf
  induction f.imports with
  | nil => simp
  | cons ni nis ih =>
    simp only [List.flatMap_cons, List.length_append, ih, List.length_map, List.length_cons]
    rw [Nat.succ_mul]
    omega

theorem length_trackersFrom (s : Nat) (fs : List File) :
    (trackersFrom s fs).length = (fs.map (fun f => f.imports.length * (f.exports.length + 1))).sum := by
  induction fs generalizing s with
  | nil => rfl
  | cons f fs ih => simp [trackersFrom, length_trackersOf, ih]

theorem length_trackers_lt (t : Table) : (trackers t).length < matchFuel t := by
  unfold trackers matchFuel
  rw [length_trackersFrom]
  omega

theorem mem_trackersOf {s : Nat} {f : File} {q : Tracker} :
    q ∈ trackersOf s f ↔ q.src = s ∧ (∃ ni ∈ f.imports, ni.ref = q.ref) ∧ (q.loc = 0 ∨ ∃ e ∈ f.exports, e.loc = q.loc) := by
  obtain ⟨qs, ql, qr⟩ := q
  simp only [trackersOf, List.mem_flatMap, List.mem_map, List.mem_cons, Tracker.mk.injEq]
  constructor
  · rintro ⟨ni, hni, l, hl, rfl, rfl, rfl⟩
    refine ⟨rfl, ⟨ni, hni, rfl⟩, ?_⟩
    rcases hl with rfl | ⟨e, he, rfl⟩
    · exact Or.inl rfl
    · exact Or.inr ⟨e, he, rfl⟩
  · rintro ⟨rfl, ⟨ni, hni, rfl⟩, hl⟩
    refine ⟨ni, hni, ql, ?_, rfl, rfl, rfl⟩
    rcases hl with hl | ⟨e, he, hl⟩
    · exact Or.inl hl
    · exact Or.inr ⟨e, he, hl⟩

theorem mem_trackersFrom {s : Nat} {fs : List File} {q : Tracker} {i : Nat} {f : File} (hf : fs[i]? = some f)
    (h : q ∈ trackersOf (s + i) f) : q ∈ trackersFrom s fs := by
  induction fs generalizing s i with
  | nil => simp at hf
  | cons g gs ih =>
    cases i with
    | zero =>
      simp at hf; subst hf
      exact List.mem_append_left _ (by simpa using h)
    | succ i =>
      refine List.mem_append_right _ (ih (s := s + 1) (i := i) (by simpa using hf) ?_)
      have : s + 1 + i = s + (i + 1) := by omega
      rw [this]; exact h

theorem mem_trackers {t : Table} {q : Tracker} {f : File} (hf : t[q.src]? = some f)
    (hr : ∃ ni ∈ f.imports, ni.ref = q.ref) (hl : q.loc = 0 ∨ ∃ e ∈ f.exports, e.loc = q.loc) : q ∈ trackers t :=
  mem_trackersFrom (s := 0) hf (by rw [mem_trackersOf]; exact ⟨by simp, hr, hl⟩)

/-! ### `finish` -/

theorem noLoc_fields {r x : MResult} (h : noLoc r = x) : r.kind = x.kind ∧ r.src = x.src ∧ r.ref = x.ref := by
  subst h; exact ⟨rfl, rfl, rfl⟩

theorem finish_all_eq (R : MResult) : ∀ (l : List MResult), (∀ r ∈ l, noLoc r = noLoc R) → finish R l = R := by
  intro l h
  unfold finish
  have : l.find? (fun a => noLoc a ≠ noLoc R) = none := by
    rw [List.find?_eq_none]
    intro r hr
    simp [h r hr]
  rw [this]

theorem finish_append_eq (R : MResult) (l1 l2 : List MResult) (h : ∀ r ∈ l2, noLoc r = noLoc R) :
    finish R (l1 ++ l2) = finish R l1 := by
  unfold finish
  have : (l1 ++ l2).find? (fun a => noLoc a ≠ noLoc R) = l1.find? (fun a => noLoc a ≠ noLoc R) := by
    rw [List.find?_append]
    cases h1 : l1.find? (fun a => noLoc a ≠ noLoc R) with
    | some x => simp
    | none =>
      simp only [Option.none_or]
      rw [List.find?_eq_none]
      intro r hr
      simp [h r hr]
  rw [this]

theorem finish_kind_of_ne (R : MResult) (l : List MResult) (h : ∃ r ∈ l, noLoc r ≠ noLoc R) :
    (finish R l).kind = .ambiguous := by
  unfold finish
  cases hf : l.find? (fun a => noLoc a ≠ noLoc R) with
  | none =>
    obtain ⟨r, hr, hne⟩ := h
    have := List.find?_eq_none.1 hf r hr
    simp at this
    exact absurd this hne
  | some a => simp only; split <;> rfl

end EsbuildModel.ExportMatch
