import EsbuildModel.Lemmas.JsonSoundParse5
/-
Soundness of the parser (either flavour): the induction on the fuel, arrays.
-/
namespace EsbuildModel.Json
open EsbuildModel.Spec.Json EsbuildModel.Spec.NumLit

section
variable {P : Params} {Rd : Rat → F64} (hP : ParamsOK P Rd) (o : Opts) {fl : Flavor} (hfl : o.flavor = fl)
include hP hfl

/-- one more element: the parser has read `, ws`, parses a value and goes on with the loop -/
theorem arr_elem_sound (n : Nat) (ih : SoundAt fl Rd o P n) {L1 : Lx} {inp1 : List Cp} {items : List Ast} {s : Bool} {a : Ast}
    {L' : Lx} (hat : AtTok fl Rd L1 inp1)
    (h : (parseExpr o P n L1).bind (fun p => arrLoop o P n p.2 (items ++ [p.1]) s) = .ok (a, L'))
    (hne : L'.log.hasErrors = false) :
    ∃ (v : Val) (s2 : List SepItem) (t : ETail) (av : Ast) (asts : List Ast) (rest : List Cp) (s' : Bool),
      chars inp1 = v.render ++ (Sep.render s2 ++ (t.render ++ ']' :: chars rest)) ∧ v.ok (dialectOf fl) = true ∧
      Sep.ok (dialectOf fl) false false s2 = true ∧ t.ok (dialectOf fl) = true ∧ a = .arr (items ++ (av :: asts)) s' ∧
      RepV Rd o.objExt v av ∧ RepT Rd o.objExt t asts ∧ After fl P rest L' := by
  obtain ⟨⟨av, L2⟩, hp, hl⟩ := R.bind_eq_ok h
  simp only at hl
  have hne2 : L2.log.hasErrors = false := noErr_of_le ((mono_step o P n).2.1 L2 _ _ _ hl) hne
  obtain ⟨v, restv, v1, v2, v3, v4⟩ := ih.1 L1 inp1 av L2 hat hp hne2
  obtain ⟨s2, inp2, k1, k2, k3⟩ := after_tok hP v4 hne2
  obtain ⟨t, asts, rest, s', t1, t2, t3, t4, t5⟩ := ih.2.1 L2 inp2 (items ++ [av]) s a L' (by simp) k3 hl hne
  refine ⟨v, s2, t, av, asts, rest, s', ?_, v2, ?_, t2, by simp [t3], v3, t4, t5⟩
  · rw [v1, k1, t1]
  · apply sepok_final k2
    cases htr : t.render with
    | nil => rw [htr] at t1; exact nonempty_of_chars t1
    | cons c x => rw [htr] at t1; exact nonempty_of_chars t1

theorem arr_tail_sound (n : Nat) (ih : SoundAt fl Rd o P n) {L : Lx} {inp : List Cp} {items : List Ast} {single : Bool}
    {a : Ast} {L' : Lx} (hi : items ≠ []) (hat : AtTok fl Rd L inp) (h : arrLoop o P (n + 1) L items single = .ok (a, L'))
    (hne : L'.log.hasErrors = false) : ArrTailSound fl Rd o P inp items a L' := by
  rw [arrLoop_succ] at h
  split at h
  · rename_i hc
    obtain ⟨⟨s', L1⟩, hcs, h⟩ := R.bind_eq_ok h
    simp only [R.ok.injEq, Prod.mk.injEq] at h
    obtain ⟨rfl, rfl⟩ := h
    obtain ⟨_, hn⟩ := closeStep_ok hP o hfl hcs
    have hf := hat.1
    simp only [TokFacts, hc] at hf
    exact ⟨.done none, [], L.rest, s', by simpa [ETail.render, trailingRender] using hf, rfl, by simp, rfl,
      after_of_tok hat hn (by rw [hc]; simp) (by rw [hc]; simp)⟩
  · obtain ⟨r, hs, h⟩ := R.bind_eq_ok h
    have hie : (!items.isEmpty) = true := by cases items <;> simp_all
    rw [hie] at hs
    obtain ⟨htc, L1, s, hn, hr⟩ := sepStep_comma hP o hfl hs
    rcases hr with ⟨rfl, hnc⟩ | ⟨L1', rfl, hc1, hcase⟩
    · simp only at h
      have hf := hat.1
      simp only [TokFacts, htc] at hf
      have hne1 : L1.log.hasErrors = false := by
        obtain ⟨⟨av, L2⟩, hp, hl⟩ := R.bind_eq_ok h
        exact noErr_of_le (Log.le_trans ((mono_step o P n).1 L1 _ hp) ((mono_step o P n).2.1 L2 _ _ _ hl)) hne
      obtain ⟨s1, inp1, k1, k2, k3⟩ := after_tok hP (after_of_tok hat hn (by rw [htc]; simp) (by rw [htc]; simp)) hne1
      obtain ⟨v, s2, t, av, asts, rest, s', e1, e2, e3, e4, e5, e6, e7, e8⟩ := arr_elem_sound hP o hfl n ih k3 h hne
      refine ⟨.more s1 v s2 t, av :: asts, rest, s', ?_, ?_, e5, ⟨av, asts, rfl, e6, e7⟩, e8⟩
      · simp only [ETail.render, List.cons_append, List.append_assoc]
        rw [hf, k1, e1]
      · simp only [ETail.ok, e2, e3, e4, Bool.and_true]
        apply sepok_final k2
        have := val_render_ne v e2
        cases hvr : v.render with
        | nil => exact absurd hvr this
        | cons c x => rw [hvr] at e1; exact nonempty_of_chars e1
    · simp only at h
      obtain ⟨⟨s', L2⟩, hcs, h⟩ := R.bind_eq_ok h
      simp only [R.ok.injEq, Prod.mk.injEq] at h
      obtain ⟨rfl, rfl⟩ := h
      obtain ⟨_, hn2⟩ := closeStep_ok hP o hfl hcs
      rcases hcase with ⟨hj, herr⟩ | ⟨hts, rfl⟩
      · exfalso
        have := next_log_le fl P L1' L2 hn2 herr
        rw [this] at hne; cases hne
      · -- a trailing comma (tsconfig flavour)
        have hf := hat.1
        simp only [TokFacts, htc] at hf
        have hne1 : L1'.log.hasErrors = false := noErr_of_le (next_log_le fl P L1' L2 hn2) hne
        obtain ⟨s1, inp1, k1, k2, k3⟩ := after_tok hP (after_of_tok hat hn (by rw [htc]; simp) (by rw [htc]; simp)) hne1
        have hf1 := k3.1
        simp only [TokFacts, hc1] at hf1
        refine ⟨.done (some s1), [], L1'.rest, s', ?_, ?_, by simp, rfl,
          after_of_tok k3 hn2 (by rw [hc1]; simp) (by rw [hc1]; simp)⟩
        · simp only [ETail.render, trailingRender, List.cons_append, List.append_assoc]
          rw [hf, k1, hf1]
        · subst hts
          simp only [ETail.ok, trailingOk, Bool.and_eq_true]
          exact ⟨rfl, sepok_final k2 (nonempty_of_chars hf1)⟩

theorem arr_first_sound (n : Nat) (ih : SoundAt fl Rd o P n) {L : Lx} {inp : List Cp} {single : Bool}
    {a : Ast} {L' : Lx} (hat : AtTok fl Rd L inp) (h : arrLoop o P (n + 1) L [] single = .ok (a, L'))
    (hne : L'.log.hasErrors = false) : ArrFirstSound fl Rd o P inp a L' := by
  rw [arrLoop_succ] at h
  split at h
  · rename_i hc
    obtain ⟨⟨s', L1⟩, hcs, h⟩ := R.bind_eq_ok h
    simp only [R.ok.injEq, Prod.mk.injEq] at h
    obtain ⟨rfl, rfl⟩ := h
    obtain ⟨_, hn⟩ := closeStep_ok hP o hfl hcs
    have hf := hat.1
    simp only [TokFacts, hc] at hf
    exact Or.inl ⟨L.rest, s', hf, rfl, after_of_tok hat hn (by rw [hc]; simp) (by rw [hc]; simp)⟩
  · simp only [sepStep, List.isEmpty_nil, Bool.not_true, Bool.not_false, if_true, R.bind_ok] at h
    obtain ⟨v, s2, t, av, asts, rest, s', e1, e2, e3, e4, e5, e6, e7, e8⟩ := arr_elem_sound hP o hfl n ih hat h hne
    exact Or.inr ⟨v, s2, t, av, asts, rest, s', e1, e2, e3, e4, by simpa using e5, e6, e7, e8⟩

end
end EsbuildModel.Json
