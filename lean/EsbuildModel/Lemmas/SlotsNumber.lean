import EsbuildModel.Lemmas.Slots
/-!
Helper lemmas for Props/C15Slots.lean, part B (NumberRenamer).
-/
namespace EsbuildModel.Slots

/-- the names in use in one numberScope / along a chain of them -/
def keys (m : NameMap) : List Name := m.map (·.1)
def chainKeys (chain : List NameMap) : List Name := chain.flatMap keys

theorem lookup_none_iff (m : NameMap) (n : Name) : m.lookup n = none ↔ n ∉ keys m := by
  unfold keys
  induction m with
  | nil => simp
  | cons p l ih =>
    obtain ⟨k, v⟩ := p
    simp only [List.lookup_cons, List.map_cons, List.mem_cons, not_or]
    by_cases h : n = k
    · subst h; simp
    · have : (n == k) = false := by simpa using h
      simp [this, ih, h]

theorem findInChain_none_iff (ms : List NameMap) (n : Name) : findInChain ms n = none ↔ n ∉ chainKeys ms := by
  unfold chainKeys
  induction ms with
  | nil => simp [findInChain]
  | cons m ms ih =>
    simp only [findInChain, List.flatMap_cons, List.mem_append, not_or]
    cases h : m.lookup n with
    | none => simp only [ih]; exact ⟨fun h' => ⟨(lookup_none_iff m n).mp h, h'⟩, fun h' => h'.2⟩
    | some c =>
      simp only [reduceCtorEq, false_iff, not_and]
      intro h'
      rw [(lookup_none_iff m n).mpr h'] at h; cases h

theorem findNameUse_unused_iff (cur : NameMap) (parents : List NameMap) (n : Name) :
    findNameUse cur parents n = .unused ↔ n ∉ keys cur ∧ n ∉ chainKeys parents := by
  unfold findNameUse findNameUseAndCount
  cases h : cur.lookup n with
  | some c =>
    simp only [reduceCtorEq, false_iff, not_and]
    intro h'
    rw [(lookup_none_iff cur n).mpr h'] at h; cases h
  | none =>
    have hk := (lookup_none_iff cur n).mp h
    cases h2 : findInChain parents n with
    | some c =>
      simp only [reduceCtorEq, false_iff, not_and]
      intro _ h'
      rw [(findInChain_none_iff parents n).mpr h'] at h2; cases h2
    | none => simp only [true_iff]; exact ⟨hk, (findInChain_none_iff parents n).mp h2⟩

theorem findNameUseAndCount_unused (cur : NameMap) (parents : List NameMap) (n : Name) (c : Nat)
    (h : findNameUseAndCount cur parents n = (.unused, c)) : n ∉ keys cur ∧ n ∉ chainKeys parents := by
  apply (findNameUse_unused_iff cur parents n).mp
  unfold findNameUse; rw [h]

theorem tryNames_spec {cur : NameMap} {parents : List NameMap} {pre : Name} : ∀ (fuel tries : Nat) {n : Name} {t : Nat},
    tryNames cur parents pre fuel tries = some (n, t) →
    n ∉ keys cur ∧ n ∉ chainKeys parents ∧ n = pre ++ itoa t ∧ tries < t
  | 0, _, _, _, h => by simp [tryNames] at h
  | fuel + 1, tries, n, t, h => by
    simp only [tryNames] at h
    split at h
    · next hu =>
      simp only [Option.some.injEq, Prod.mk.injEq] at h
      obtain ⟨rfl, rfl⟩ := h
      obtain ⟨h1, h2⟩ := (findNameUse_unused_iff _ _ _).mp hu
      exact ⟨h1, h2, rfl, Nat.lt_succ_self _⟩
    · obtain ⟨h1, h2, h3, h4⟩ := tryNames_spec fuel (tries + 1) h
      exact ⟨h1, h2, h3, by omega⟩

theorem forceValidIdentifier_ne_nil (pre n : Name) : forceValidIdentifier pre n ≠ [] := by
  cases n <;> simp [forceValidIdentifier]

theorem sanitize_ne_nil {ns : Nat} {name n : Name} (h : sanitize ns name = some n) : n ≠ [] := by
  unfold sanitize at h
  split at h
  · split at h
    · cases h
    · simp only [Option.some.injEq] at h
      subst h
      split
      · simp
      · exact forceValidIdentifier_ne_nil _ _
  · simp only [Option.some.injEq] at h
    subst h
    split
    · next hi => intro hn; subst hn; simp [isIdentifier] at hi
    · exact forceValidIdentifier_ne_nil _ _

/-- what findUnusedName returns: a non-empty name that is in use nowhere on the scope chain, recorded in the
scope's own map, which otherwise only grows, and only by names that were in use on the chain -/
theorem findUnusedName_spec {fuel : Nat} {cur cur' : NameMap} {parents : List NameMap} {name nm : Name} {ns : Nat}
    (h : findUnusedName fuel cur parents name ns = .ok (nm, cur')) :
    nm ≠ [] ∧ nm ∉ keys cur ∧ nm ∉ chainKeys parents ∧ nm ∈ keys cur' ∧ (∀ k, k ∈ keys cur → k ∈ keys cur') ∧
    (∀ k, k ∈ keys cur' → k = nm ∨ k ∈ keys cur ∨ k ∈ chainKeys parents) ∧
    ∃ base, sanitize ns name = some base ∧
      ((nm = base) ∨ ((base ∈ keys cur ∨ base ∈ chainKeys parents) ∧ ∃ t, nm = base ++ itoa t)) := by
  unfold findUnusedName at h
  split at h
  · cases h
  · next base hb =>
    have hbase := sanitize_ne_nil hb
    split at h
    · next c hu =>
      simp only [Res.ok.injEq, Prod.mk.injEq] at h
      obtain ⟨rfl, rfl⟩ := h
      obtain ⟨h1, h2⟩ := findNameUseAndCount_unused _ _ _ _ hu
      refine ⟨hbase, h1, h2, by simp [keys], fun k hk => by simp only [keys, List.map_cons, List.mem_cons]; exact Or.inr hk, ?_,
        base, hb, Or.inl rfl⟩
      intro k hk
      simp only [keys, List.map_cons, List.mem_cons] at hk
      rcases hk with hk | hk
      · exact Or.inl hk
      · exact Or.inr (Or.inl hk)
    · next u count hnu hq =>
      split at h
      · cases h
      · next n t ht =>
        simp only [Res.ok.injEq, Prod.mk.injEq] at h
        obtain ⟨rfl, rfl⟩ := h
        obtain ⟨h1, h2, h3, _⟩ := tryNames_spec _ _ ht
        have hused : base ∈ keys cur ∨ base ∈ chainKeys parents := by
          apply Classical.byContradiction
          intro hc
          simp only [not_or] at hc
          have hun := (findNameUse_unused_iff cur parents base).mpr hc
          unfold findNameUse at hun
          rw [hq] at hun
          exact hnu hun
        refine ⟨?_, h1, h2, by simp [keys], ?_, ?_, base, hb, Or.inr ⟨hused, t, h3⟩⟩
        · rw [h3]; intro hn; exact hbase (List.append_eq_nil_iff.mp hn).1
        · intro k hk; simp only [keys, List.map_cons, List.mem_cons]; exact Or.inr (Or.inr hk)
        · intro k hk
          simp only [keys, List.map_cons, List.mem_cons] at hk
          rcases hk with hk | hk | hk
          · exact Or.inl hk
          · subst hk
            rcases hused with hu | hu
            · exact Or.inr (Or.inl hu)
            · exact Or.inr (Or.inr hu)
          · exact Or.inr (Or.inl hk)

-- ------------------------------------------------------------------------------------------------
-- one scope: assignName over a list of refs, all into the same numberScope

abbrev Names := List Name

/-- the symbol exists and is one the number renamer renames (default or private-name namespace) -/
def Ren (syms : List NSym) (j : Nat) : Prop := ∃ sym, syms[j]? = some sym ∧ (sym.ns = 0 ∨ sym.ns = 2)

/-- the name a symbol asks for: its original name after the JSX rule and after being made an identifier -/
def baseName (syms : List NSym) (j : Nat) : Option Name :=
  match syms[j]? with
  | none => none
  | some sym =>
    match capitalize sym.jsx sym.name with
    | none => none
    | some n => sanitize sym.ns n

structure NStep (syms : List NSym) (D : List Nat) (names names' : Names) (cur cur' : NameMap) (parents : List NameMap) : Prop where
  len : names'.length = names.length
  frame : ∀ j : Nat, j ∉ D → names'[j]? = names[j]?
  stable : ∀ (j : Nat) (nm : Name), names[j]? = some nm → nm ≠ [] → names'[j]? = some nm
  grow : ∀ k : Name, k ∈ keys cur → k ∈ keys cur'
  gets : ∀ j : Nat, j ∈ D → Ren syms j → names[j]? = some [] → ∃ nm, names'[j]? = some nm ∧ nm ≠ []
  fresh : ∀ (j : Nat) (nm : Name), names[j]? = some [] → names'[j]? = some nm → nm ≠ [] →
      Ren syms j ∧ nm ∉ keys cur ∧ nm ∉ chainKeys parents ∧ nm ∈ keys cur' ∧
      ∃ base, baseName syms j = some base ∧ (nm = base ∨ (base ∈ keys cur' ∨ base ∈ chainKeys parents))
  inj : ∀ (i j : Nat) (nm : Name), names[i]? = some [] → names[j]? = some [] → names'[i]? = some nm →
      names'[j]? = some nm → nm ≠ [] → i = j
  newkeys : ∀ k : Name, k ∈ keys cur' → k ∈ keys cur ∨ k ∈ chainKeys parents ∨
      ∃ j : Nat, j ∈ D ∧ names[j]? = some [] ∧ names'[j]? = some k ∧ k ≠ []

theorem NStep.same (syms : List NSym) (D : List Nat) (names : Names) (cur : NameMap) (parents : List NameMap)
    (hD : ∀ j : Nat, j ∈ D → Ren syms j → names[j]? ≠ some []) : NStep syms D names names cur cur parents :=
  ⟨rfl, fun _ _ => rfl, fun _ _ h _ => h, fun _ h => h,
   fun j hj hr hu => absurd hu (hD j hj hr),
   fun j nm hu hn hne => by rw [hu] at hn; cases hn; exact absurd rfl hne,
   fun i j nm hi _ hin _ hne => by rw [hi] at hin; cases hin; exact absurd rfl hne,
   fun k hk => Or.inl hk⟩

theorem getElem?_some_of_len {α : Type} {l l' : List α} (h : l'.length = l.length) {j : Nat} {x : α}
    (hx : l[j]? = some x) : ∃ y, l'[j]? = some y := by
  have hl : j < l.length := by
    rcases Nat.lt_or_ge j l.length with h | h
    · exact h
    · rw [List.getElem?_eq_none h] at hx; cases hx
  rw [← h] at hl
  exact ⟨l'[j], List.getElem?_eq_getElem hl⟩

/-- unnamed after ⇒ unnamed before -/
theorem unnamed_before {names names' : Names} (hlen : names'.length = names.length)
    (hstable : ∀ (j : Nat) (nm : Name), names[j]? = some nm → nm ≠ [] → names'[j]? = some nm)
    {j : Nat} (hx : names'[j]? = some []) : names[j]? = some [] := by
  obtain ⟨y, hy⟩ := getElem?_some_of_len hlen.symm hx
  by_cases hy0 : y = []
  · rw [hy, hy0]
  · have := hstable j y hy hy0
    rw [hx] at this; cases this; exact absurd rfl hy0

theorem NStep.comp {syms D1 D2 names names1 names2 cur cur1 cur2 parents}
    (h1 : NStep syms D1 names names1 cur cur1 parents) (h2 : NStep syms D2 names1 names2 cur1 cur2 parents) :
    NStep syms (D1 ++ D2) names names2 cur cur2 parents := by
  refine ⟨by rw [h2.len, h1.len], ?_, ?_, fun k hk => h2.grow k (h1.grow k hk), ?_, ?_, ?_, ?_⟩
  · intro j hj
    simp only [List.mem_append, not_or] at hj
    rw [h2.frame j hj.2, h1.frame j hj.1]
  · intro j nm hn hne
    exact h2.stable j nm (h1.stable j nm hn hne) hne
  · intro j hj hr hu
    obtain ⟨x, hx⟩ := getElem?_some_of_len h1.len hu
    by_cases hx0 : x = []
    · subst hx0
      rcases List.mem_append.mp hj with hj | hj
      · obtain ⟨nm, hnm, hne⟩ := h1.gets j hj hr hu
        rw [hx] at hnm; cases hnm; exact absurd rfl hne
      · exact h2.gets j hj hr hx
    · exact ⟨x, h2.stable j x hx hx0, hx0⟩
  · intro j nm hu hn hne
    obtain ⟨x, hx⟩ := getElem?_some_of_len h1.len hu
    by_cases hx0 : x = []
    · subst hx0
      obtain ⟨hr, f1, f2, f3, base, hb, hbb⟩ := h2.fresh j nm hx hn hne
      exact ⟨hr, fun hk => f1 (h1.grow nm hk), f2, f3, base, hb, hbb⟩
    · have := h2.stable j x hx hx0
      rw [hn] at this; cases this
      obtain ⟨hr, f1, f2, f3, base, hb, hbb⟩ := h1.fresh j nm hu hx hne
      refine ⟨hr, f1, f2, h2.grow nm f3, base, hb, ?_⟩
      rcases hbb with hbb | hbb | hbb
      · exact Or.inl hbb
      · exact Or.inr (Or.inl (h2.grow base hbb))
      · exact Or.inr (Or.inr hbb)
  · intro i j nm hi hj hin hjn hne
    obtain ⟨x, hx⟩ := getElem?_some_of_len h1.len hi
    obtain ⟨y, hy⟩ := getElem?_some_of_len h1.len hj
    by_cases hx0 : x = []
    · subst hx0
      by_cases hy0 : y = []
      · subst hy0
        exact h2.inj i j nm hx hy hin hjn hne
      · have := h2.stable j y hy hy0
        rw [hjn] at this; cases this
        have k1 := (h1.fresh j nm hj hy hne).2.2.2.1
        have k2 := (h2.fresh i nm hx hin hne).2.1
        exact absurd k1 k2
    · have := h2.stable i x hx hx0
      rw [hin] at this; cases this
      by_cases hy0 : y = []
      · subst hy0
        have k1 := (h1.fresh i nm hi hx hne).2.2.2.1
        have k2 := (h2.fresh j nm hy hjn hne).2.1
        exact absurd k1 k2
      · have := h2.stable j y hy hy0
        rw [hjn] at this; cases this
        exact h1.inj i j nm hi hj hx hy hne
  · intro k hk
    rcases h2.newkeys k hk with hk | hk | ⟨j, hj, hu, hn, hne⟩
    · rcases h1.newkeys k hk with hk | hk | ⟨j, hj, hu, hn, hne⟩
      · exact Or.inl hk
      · exact Or.inr (Or.inl hk)
      · exact Or.inr (Or.inr ⟨j, List.mem_append_left _ hj, hu, h2.stable j k hn hne, hne⟩)
    · exact Or.inr (Or.inl hk)
    · exact Or.inr (Or.inr ⟨j, List.mem_append_right _ hj, unnamed_before h1.len h1.stable hu, hn, hne⟩)

theorem assignName_step {fuel : Nat} {syms : List NSym} {cur cur' : NameMap} {parents : List NameMap} {names names' : Names} {i : Nat}
    (h : assignName fuel syms cur parents names i = .ok (cur', names')) :
    NStep syms [i] names names' cur cur' parents := by
  unfold assignName at h
  split at h
  · next sym old hs ho =>
    split at h
    · next hold =>
      simp only [Res.ok.injEq, Prod.mk.injEq] at h
      obtain ⟨rfl, rfl⟩ := h
      apply NStep.same
      intro j hj _ hu
      simp only [List.mem_singleton] at hj; subst hj
      rw [ho] at hu; cases hu; exact hold rfl
    · next hold =>
      have hold' : old = [] := Classical.byContradiction hold
      subst hold'
      split at h
      · next hns =>
        simp only [Res.ok.injEq, Prod.mk.injEq] at h
        obtain ⟨rfl, rfl⟩ := h
        apply NStep.same
        intro j hj hr _
        simp only [List.mem_singleton] at hj; subst hj
        obtain ⟨sym', hs', hr⟩ := hr
        rw [hs] at hs'; cases hs'
        rcases hr with hr | hr
        · exact hns.1 hr
        · exact hns.2 hr
      · next hns =>
        have hren : Ren syms i := ⟨sym, hs, by omega⟩
        split at h
        · cases h
        · next original hcap =>
          split at h
          · next nm cur'' hf =>
            simp only [Res.ok.injEq, Prod.mk.injEq] at h
            obtain ⟨rfl, rfl⟩ := h
            obtain ⟨hne, f1, f2, f3, f4, f5, base, hb, hbb⟩ := findUnusedName_spec hf
            have hi : i < names.length := by
              rcases Nat.lt_or_ge i names.length with h | h
              · exact h
              · rw [List.getElem?_eq_none h] at ho; cases ho
            have hbase : baseName syms i = some base := by
              unfold baseName; rw [hs]; simp only; rw [hcap]; exact hb
            refine ⟨by simp, ?_, ?_, f4, ?_, ?_, ?_, ?_⟩
            · intro j hj
              simp only [List.mem_singleton] at hj
              rw [List.getElem?_set_ne (Ne.symm hj)]
            · intro j n hn hnn
              by_cases hji : j = i
              · subst hji; rw [ho] at hn; cases hn; exact absurd rfl hnn
              · rw [List.getElem?_set_ne (Ne.symm hji)]; exact hn
            · intro j hj _ _
              simp only [List.mem_singleton] at hj; subst hj
              exact ⟨nm, by rw [List.getElem?_set_self hi], hne⟩
            · intro j n hu hn hnn
              by_cases hji : j = i
              · subst hji
                rw [List.getElem?_set_self hi] at hn
                cases hn
                refine ⟨hren, f1, f2, f3, base, hbase, ?_⟩
                rcases hbb with hbb | ⟨hbb, _⟩
                · exact Or.inl hbb
                · rcases hbb with hbb | hbb
                  · exact Or.inr (Or.inl (f4 base hbb))
                  · exact Or.inr (Or.inr hbb)
              · rw [List.getElem?_set_ne (Ne.symm hji), hu] at hn; cases hn; exact absurd rfl hnn
            · intro a b n ha hb' han hbn hnn
              by_cases hai : a = i
              · by_cases hbi : b = i
                · rw [hai, hbi]
                · rw [List.getElem?_set_ne (Ne.symm hbi), hb'] at hbn; cases hbn; exact absurd rfl hnn
              · rw [List.getElem?_set_ne (Ne.symm hai), ha] at han; cases han; exact absurd rfl hnn
            · intro k hk
              rcases f5 k hk with hk | hk | hk
              · subst hk
                exact Or.inr (Or.inr ⟨i, by simp, ho, by rw [List.getElem?_set_self hi], hne⟩)
              · exact Or.inl hk
              · exact Or.inr (Or.inl hk)
          · cases h
          · cases h
  · cases h

theorem assignNames_step {fuel : Nat} {syms : List NSym} {parents : List NameMap} : ∀ (rs : List Nat) {cur cur' : NameMap} {names names' : Names},
    assignNames fuel syms parents cur names rs = .ok (cur', names') → NStep syms rs names names' cur cur' parents
  | [], cur, cur', names, names', h => by
    simp only [assignNames, Res.ok.injEq, Prod.mk.injEq] at h
    obtain ⟨rfl, rfl⟩ := h
    exact NStep.same syms [] names cur parents (fun j hj => by simp at hj)
  | r :: rs, cur, cur', names, names', h => by
    simp only [assignNames] at h
    split at h
    · next cur1 names1 h1 =>
      exact NStep.comp (D1 := [r]) (assignName_step h1) (assignNames_step rs h)
    · cases h
    · cases h

-- ------------------------------------------------------------------------------------------------
-- the tree walk

/-- what renaming some scopes under the scope chain `chain` does to the name table -/
structure TStep (syms : List NSym) (D : List Nat) (names names' : Names) (chain : List NameMap) : Prop where
  len : names'.length = names.length
  frame : ∀ j : Nat, j ∉ D → names'[j]? = names[j]?
  stable : ∀ (j : Nat) (nm : Name), names[j]? = some nm → nm ≠ [] → names'[j]? = some nm
  gets : ∀ j : Nat, j ∈ D → Ren syms j → names[j]? = some [] → ∃ nm, names'[j]? = some nm ∧ nm ≠ []
  avoid : ∀ (j : Nat) (nm : Name), names[j]? = some [] → names'[j]? = some nm → nm ≠ [] →
      Ren syms j ∧ nm ∉ chainKeys chain

theorem TStep.refl (syms : List NSym) (names : Names) (chain : List NameMap) : TStep syms [] names names chain :=
  ⟨rfl, fun _ _ => rfl, fun _ _ h _ => h, fun _ h => by simp at h,
   fun j nm hu hn hne => by rw [hu] at hn; cases hn; exact absurd rfl hne⟩

theorem TStep.congr {syms D D' names names' chain} (h : TStep syms D names names' chain) (hD : ∀ j, j ∈ D ↔ j ∈ D') :
    TStep syms D' names names' chain :=
  ⟨h.len, fun j hj => h.frame j (fun hj' => hj ((hD j).mp hj')), h.stable,
   fun j hj => h.gets j ((hD j).mpr hj), h.avoid⟩

theorem TStep.comp {syms D1 D2 names names1 names2 chain}
    (h1 : TStep syms D1 names names1 chain) (h2 : TStep syms D2 names1 names2 chain) :
    TStep syms (D1 ++ D2) names names2 chain := by
  refine ⟨by rw [h2.len, h1.len], ?_, ?_, ?_, ?_⟩
  · intro j hj
    simp only [List.mem_append, not_or] at hj
    rw [h2.frame j hj.2, h1.frame j hj.1]
  · intro j nm hn hne
    exact h2.stable j nm (h1.stable j nm hn hne) hne
  · intro j hj hr hu
    obtain ⟨x, hx⟩ := getElem?_some_of_len h1.len hu
    by_cases hx0 : x = []
    · subst hx0
      rcases List.mem_append.mp hj with hj | hj
      · obtain ⟨nm, hnm, hne⟩ := h1.gets j hj hr hu
        rw [hx] at hnm; cases hnm; exact absurd rfl hne
      · exact h2.gets j hj hr hx
    · exact ⟨x, h2.stable j x hx hx0, hx0⟩
  · intro j nm hu hn hne
    obtain ⟨x, hx⟩ := getElem?_some_of_len h1.len hu
    by_cases hx0 : x = []
    · subst hx0
      exact h2.avoid j nm hx hn hne
    · have := h2.stable j x hx hx0
      rw [hn] at this; cases this
      exact h1.avoid j nm hu hx hne

theorem chainKeys_cons (m : NameMap) (ms : List NameMap) (k : Name) :
    k ∈ chainKeys (m :: ms) ↔ k ∈ keys m ∨ k ∈ chainKeys ms := by
  simp [chainKeys]

/-- a scope with symbols: its own pass into a fresh numberScope, then the children below it -/
theorem TStep.ofNode {syms D1 D2 names names1 names2 cur cur' chain}
    (h1 : NStep syms D1 names names1 cur cur' chain) (h2 : TStep syms D2 names1 names2 (cur' :: chain)) :
    TStep syms (D1 ++ D2) names names2 chain := by
  refine ⟨by rw [h2.len, h1.len], ?_, ?_, ?_, ?_⟩
  · intro j hj
    simp only [List.mem_append, not_or] at hj
    rw [h2.frame j hj.2, h1.frame j hj.1]
  · intro j nm hn hne
    exact h2.stable j nm (h1.stable j nm hn hne) hne
  · intro j hj hr hu
    obtain ⟨x, hx⟩ := getElem?_some_of_len h1.len hu
    by_cases hx0 : x = []
    · subst hx0
      rcases List.mem_append.mp hj with hj | hj
      · obtain ⟨nm, hnm, hne⟩ := h1.gets j hj hr hu
        rw [hx] at hnm; cases hnm; exact absurd rfl hne
      · exact h2.gets j hj hr hx
    · exact ⟨x, h2.stable j x hx hx0, hx0⟩
  · intro j nm hu hn hne
    obtain ⟨x, hx⟩ := getElem?_some_of_len h1.len hu
    by_cases hx0 : x = []
    · subst hx0
      obtain ⟨hr, ha⟩ := h2.avoid j nm hx hn hne
      exact ⟨hr, fun hk => ha ((chainKeys_cons _ _ _).mpr (Or.inr hk))⟩
    · have := h2.stable j x hx hx0
      rw [hn] at this; cases this
      obtain ⟨hr, _, f2, _⟩ := h1.fresh j nm hu hx hne
      exact ⟨hr, f2⟩

mutual
theorem assignRec_step {fuel : Nat} {syms : List NSym} : (sc : Scope) → ∀ {chain : List NameMap} {names names' : Names},
    assignRec fuel syms sc chain names = .ok names' → TStep syms (sc.all declB) names names' chain
  | ⟨m, g, l, ch⟩, chain, names, names', h => by
    simp only [assignRec] at h
    split at h
    · next hempty =>
      refine (assignRecList_step ch h).congr ?_
      intro j; simp [Scope.all, declB, hempty.1, hempty.2]
    · split at h
      · next cur names1 h1 =>
        have s1 := assignNames_step _ h1
        have s2 := assignRecList_step ch h
        refine (TStep.ofNode s1 s2).congr ?_
        intro j; simp [Scope.all, declB, mem_sortNat]
      · cases h
      · cases h
theorem assignRecList_step {fuel : Nat} {syms : List NSym} : (ch : List Scope) → ∀ {chain : List NameMap} {names names' : Names},
    assignRecList fuel syms ch chain names = .ok names' → TStep syms (allList declB ch) names names' chain
  | [], chain, names, names', h => by
    simp only [assignRecList, Res.ok.injEq] at h
    subst h
    simp only [allList]
    exact TStep.refl syms names chain
  | y :: cs, chain, names, names', h => by
    simp only [assignRecList] at h
    split at h
    · next names1 h1 =>
      simp only [allList]
      exact TStep.comp (assignRec_step y h1) (assignRecList_step cs h)
    · cases h
    · cases h
end

-- ------------------------------------------------------------------------------------------------
-- separation

/-- every renameable symbol of the enclosing scopes (and of the top level) has been named -/
def CtxNamed (syms : List NSym) (ctx : List Nat) (names : Names) : Prop :=
  ∀ i : Nat, i ∈ ctx → Ren syms i → names[i]? ≠ some []

theorem CtxNamed.mono {syms ctx names names'} (h : CtxNamed syms ctx names) (hlen : names'.length = names.length)
    (hstable : ∀ (j : Nat) (nm : Name), names[j]? = some nm → nm ≠ [] → names'[j]? = some nm) :
    CtxNamed syms ctx names' :=
  fun i hi hr hu => h i hi hr (unnamed_before hlen hstable hu)

theorem CtxNamed.step {syms ctx D names names' cur cur' parents} (h : CtxNamed syms ctx names)
    (s : NStep syms D names names' cur cur' parents) : CtxNamed syms (ctx ++ D) names' := by
  intro i hi hr hu
  have hu0 := unnamed_before s.len s.stable hu
  rcases List.mem_append.mp hi with hi | hi
  · exact h i hi hr hu0
  · obtain ⟨nm, hnm, hne⟩ := s.gets i hi hr hu0
    rw [hu] at hnm; cases hnm; exact absurd rfl hne

/-- the four-way case analysis shared by a scope with symbols and by the top level -/
theorem node_sep_core {syms : List NSym} {D : List Nat} {ch : List Scope} {names names1 names' : Names}
    {cur cur' : NameMap} {parents : List NameMap} {s t : Nat}
    (hown : NStep syms D names names1 cur cur' parents)
    (hlist : TStep syms (allList declB ch) names1 names' (cur' :: parents))
    (hsep : ∀ x, x ∈ ch → Vis declB x s t → names1[s]? = some [] → names1[t]? = some [] →
      ∃ a b, names'[s]? = some a ∧ names'[t]? = some b ∧ a ≠ [] ∧ b ≠ [] ∧ a ≠ b)
    (hvis : (s ∈ D ∧ t ∈ D) ∨ (∃ c, c ∈ ch ∧ t ∈ D ∧ s ∈ c.all declB) ∨ (∃ c, c ∈ ch ∧ Vis declB c s t))
    (hst : s ≠ t) (hrs : Ren syms s) (hrt : Ren syms t) (hus : names[s]? = some []) (hut : names[t]? = some []) :
    ∃ a b, names'[s]? = some a ∧ names'[t]? = some b ∧ a ≠ [] ∧ b ≠ [] ∧ a ≠ b := by
  have hs_in : s ∈ D ∨ s ∈ allList declB ch := by
    rcases hvis with ⟨h, _⟩ | ⟨c, hc, _, h⟩ | ⟨c, hc, hv⟩
    · exact Or.inl h
    · exact Or.inr (mem_allList hc h)
    · exact Or.inr (mem_allList hc hv.mem_all.1)
  have ht_in : t ∈ D ∨ t ∈ allList declB ch := by
    rcases hvis with ⟨_, h⟩ | ⟨c, hc, h, _⟩ | ⟨c, hc, hv⟩
    · exact Or.inl h
    · exact Or.inl h
    · exact Or.inr (mem_allList hc hv.mem_all.2)
  obtain ⟨x, hx⟩ := getElem?_some_of_len hown.len hus
  obtain ⟨y, hy⟩ := getElem?_some_of_len hown.len hut
  -- named by this scope: the name is a key of the scope's map
  have above : ∀ (j : Nat) (a : Name), names[j]? = some [] → names1[j]? = some a → a ≠ [] →
      names'[j]? = some a ∧ a ∈ keys cur' := fun j a hu h1 hne =>
    ⟨hlist.stable j a h1 hne, (hown.fresh j a hu h1 hne).2.2.2.1⟩
  -- not named by this scope: named further down, avoiding the keys of the scope's map
  have below : ∀ j : Nat, (j ∈ D ∨ j ∈ allList declB ch) → Ren syms j → names[j]? = some [] → names1[j]? = some [] →
      ∃ b, names'[j]? = some b ∧ b ≠ [] ∧ b ∉ keys cur' := by
    intro j hj hr hu h1
    have hjl : j ∈ allList declB ch := by
      rcases hj with hj | hj
      · obtain ⟨nm, hnm, hne⟩ := hown.gets j hj hr hu
        rw [h1] at hnm; cases hnm; exact absurd rfl hne
      · exact hj
    obtain ⟨b, hb, hne⟩ := hlist.gets j hjl hr h1
    obtain ⟨_, hav⟩ := hlist.avoid j b h1 hb hne
    exact ⟨b, hb, hne, fun hk => hav ((chainKeys_cons _ _ _).mpr (Or.inl hk))⟩
  by_cases hx0 : x = []
  · subst hx0
    by_cases hy0 : y = []
    · subst hy0
      have hsd : s ∉ D := fun hj => by
        obtain ⟨nm, hnm, hne⟩ := hown.gets s hj hrs hus
        rw [hx] at hnm; cases hnm; exact absurd rfl hne
      have htd : t ∉ D := fun hj => by
        obtain ⟨nm, hnm, hne⟩ := hown.gets t hj hrt hut
        rw [hy] at hnm; cases hnm; exact absurd rfl hne
      rcases hvis with ⟨h, _⟩ | ⟨_, _, h, _⟩ | ⟨c, hc, hv⟩
      · exact absurd h hsd
      · exact absurd h htd
      · exact hsep c hc hv hx hy
    · obtain ⟨hb', hbk⟩ := above t y hut hy hy0
      obtain ⟨a, ha', hane, hak⟩ := below s hs_in hrs hus hx
      exact ⟨a, y, ha', hb', hane, hy0, fun hab => by subst hab; exact hak hbk⟩
  · obtain ⟨ha', hak⟩ := above s x hus hx hx0
    by_cases hy0 : y = []
    · subst hy0
      obtain ⟨b, hb', hbne, hbk⟩ := below t ht_in hrt hut hy
      exact ⟨x, b, ha', hb', hx0, hbne, fun hab => by subst hab; exact hbk hak⟩
    · obtain ⟨hb', _⟩ := above t y hut hy hy0
      refine ⟨x, y, ha', hb', hx0, hy0, fun hab => ?_⟩
      subst hab
      exact hst (hown.inj s t x hus hut hx hy hx0)

mutual
theorem assignRec_sep {fuel : Nat} {syms : List NSym} : (sc : Scope) → ∀ {chain : List NameMap} {names names' : Names} {ctx : List Nat} {s t : Nat},
    assignRec fuel syms sc chain names = .ok names' → sc.WF declB ctx → CtxNamed syms ctx names → Vis declB sc s t → s ≠ t →
    Ren syms s → Ren syms t → names[s]? = some [] → names[t]? = some [] →
    ∃ a b, names'[s]? = some a ∧ names'[t]? = some b ∧ a ≠ [] ∧ b ≠ [] ∧ a ≠ b
  | ⟨m, g, l, ch⟩, chain, names, names', ctx, s, t, h, hwf, hctx, hvis, hst, hrs, hrt, hus, hut => by
    simp only [assignRec] at h
    simp only [Scope.WF] at hwf
    split at h
    · next hempty =>
      have hd : declB ⟨m, g, l, ch⟩ = [] := by simp [declB, hempty.1, hempty.2]
      rw [hd, List.append_nil] at hwf
      rcases hvis.inv with ⟨hs, _⟩ | ⟨_, _, ht, _⟩ | ⟨x, hc, hv⟩
      · rw [hd] at hs; cases hs
      · rw [hd] at ht; cases ht
      · exact assignRecList_sep ch h hwf hctx hc hv hst hrs hrt hus hut
    · split at h
      · next cur names1 h1 =>
        have hD : ∀ j, j ∈ sortNat m ++ g ↔ j ∈ declB ⟨m, g, l, ch⟩ := by
          intro j; simp [declB, mem_sortNat]
        have s1 := assignNames_step _ h1
        have s2 := assignRecList_step ch h
        apply node_sep_core s1 s2 ?_ ?_ hst hrs hrt hus hut
        · intro x hc hv h1s h1t
          have hctx' : CtxNamed syms (ctx ++ declB ⟨m, g, l, ch⟩) names1 := by
            intro i hi
            apply hctx.step s1 i
            rcases List.mem_append.mp hi with hi | hi
            · exact List.mem_append_left _ hi
            · exact List.mem_append_right _ ((hD i).mpr hi)
          exact assignRecList_sep ch h hwf hctx' hc hv hst hrs hrt h1s h1t
        · rcases hvis.inv with ⟨hs, ht⟩ | ⟨x, hc, ht, hs⟩ | ⟨x, hc, hv⟩
          · exact Or.inl ⟨(hD s).mpr hs, (hD t).mpr ht⟩
          · exact Or.inr (Or.inl ⟨x, hc, (hD t).mpr ht, hs⟩)
          · exact Or.inr (Or.inr ⟨x, hc, hv⟩)
      · cases h
      · cases h
theorem assignRecList_sep {fuel : Nat} {syms : List NSym} : (ch : List Scope) → ∀ {chain : List NameMap} {names names' : Names} {ctx : List Nat} {x : Scope} {s t : Nat},
    assignRecList fuel syms ch chain names = .ok names' → WFList declB ctx ch → CtxNamed syms ctx names → x ∈ ch → Vis declB x s t → s ≠ t →
    Ren syms s → Ren syms t → names[s]? = some [] → names[t]? = some [] →
    ∃ a b, names'[s]? = some a ∧ names'[t]? = some b ∧ a ≠ [] ∧ b ≠ [] ∧ a ≠ b
  | [], _, _, _, _, _, _, _, _, _, _, hx, _, _, _, _, _, _ => by cases hx
  | y :: cs, chain, names, names', ctx, x, s, t, h, hwf, hctx, hx, hvis, hst, hrs, hrt, hus, hut => by
    simp only [assignRecList] at h
    split at h
    · next names1 h1 =>
      have s1 := assignRec_step y h1
      have s2 := assignRecList_step cs h
      simp only [WFList] at hwf
      obtain ⟨hwfy, hwfcs, hcross⟩ := hwf
      rcases List.mem_cons.mp hx with hxy | hx
      · rw [hxy] at hvis
        obtain ⟨a, b, ha, hb, hane, hbne, hab⟩ := assignRec_sep y h1 hwfy hctx hvis hst hrs hrt hus hut
        exact ⟨a, b, s2.stable s a ha hane, s2.stable t b hb hbne, hane, hbne, hab⟩
      · obtain ⟨hs_all, ht_all⟩ := hvis.mem_all
        have notin : ∀ j, j ∈ x.all declB → Ren syms j → names[j]? = some [] → names1[j]? = some [] := by
          intro j hj hr hu
          have hjy : j ∉ y.all declB := fun hjy => by
            have := hcross j hjy (mem_allList hx hj)
            exact hctx j this hr hu
          rw [s1.frame j hjy]; exact hu
        exact assignRecList_sep cs h hwfcs (hctx.mono s1.len s1.stable) hx hvis hst hrs hrt
          (notin s hs_all hrs hus) (notin t ht_all hrt hut)
    · cases h
    · cases h
end

-- ------------------------------------------------------------------------------------------------
-- the whole renamer, ComputeReservedNames

theorem keys_reserved (reserved : List Name) : keys (reserved.map (fun n => (n, 1))) = reserved := by
  simp [keys, List.map_map, Function.comp_def]

theorem numberRenameWith_facts {fuel : Nat} {syms : List NSym} {reserved : List Name} {topLevel : List Nat}
    {scopes : List Scope} {names' : Names}
    (h : numberRenameWith fuel syms reserved topLevel scopes = .ok names') :
    ∃ root names1,
      NStep syms topLevel (List.replicate syms.length []) names1 (reserved.map (fun n => (n, 1))) root [] ∧
      assignRecList fuel syms scopes [root] names1 = .ok names' := by
  unfold numberRenameWith at h
  split at h
  · next root names1 h1 => exact ⟨root, names1, assignNames_step _ h1, h⟩
  · cases h
  · cases h

theorem unnamed_at_start {syms : List NSym} {j : Nat} (h : Ren syms j) : (List.replicate syms.length ([] : Name))[j]? = some [] := by
  obtain ⟨sym, hs, _⟩ := h
  have hl : j < syms.length := by
    rcases Nat.lt_or_ge j syms.length with h | h
    · exact h
    · rw [List.getElem?_eq_none h] at hs; cases hs
  simp [hl]

theorem reservedOf_mem {syms : List NSym} : ∀ (is : List Nat) {l : List Name}, reservedOf syms is = some l →
    ∀ (i : Nat) (sym : NSym), i ∈ is → syms[i]? = some sym → sym.ns = 4 → sym.name ∈ l
  | [], _, _, i, _, hi, _, _ => by simp at hi
  | j :: is, l, h, i, sym, hi, hs, h4 => by
    simp only [reservedOf] at h
    split at h
    · cases h
    · next symj hj =>
      split at h
      · cases h
      · next rest hrest =>
        simp only [Option.some.injEq] at h
        subst h
        rcases List.mem_cons.mp hi with rfl | hi
        · rw [hj] at hs; cases hs
          simp [h4]
        · have := reservedOf_mem is hrest i sym hi hs h4
          split
          · exact List.mem_cons_of_mem _ this
          · exact this

mutual
theorem reservedScope_mem {syms : List NSym} : (sc : Scope) → ∀ {l : List Name}, reservedScope syms sc = some l →
    ∀ (i : Nat) (sym : NSym), i ∈ sc.all declB → syms[i]? = some sym → sym.ns = 4 → sym.name ∈ l
  | ⟨m, g, lab, ch⟩, l, h, i, sym, hi, hs, h4 => by
    simp only [reservedScope] at h
    split at h
    · cases h
    · next own hown =>
      split at h
      · cases h
      · next below hbelow =>
        simp only [Option.some.injEq] at h
        subst h
        simp only [Scope.all, declB, List.mem_append] at hi
        rcases hi with hi | hi
        · exact List.mem_append_left _ (reservedOf_mem _ hown i sym (List.mem_append.mpr hi) hs h4)
        · exact List.mem_append_right _ (reservedScopes_mem ch hbelow i sym hi hs h4)
theorem reservedScopes_mem {syms : List NSym} : (ch : List Scope) → ∀ {l : List Name}, reservedScopes syms ch = some l →
    ∀ (i : Nat) (sym : NSym), i ∈ allList declB ch → syms[i]? = some sym → sym.ns = 4 → sym.name ∈ l
  | [], _, _, i, _, hi, _, _ => by simp [allList] at hi
  | y :: cs, l, h, i, sym, hi, hs, h4 => by
    simp only [reservedScopes] at h
    split at h
    · cases h
    · next a ha =>
      split at h
      · cases h
      · next b hb =>
        simp only [Option.some.injEq] at h
        subst h
        simp only [allList, List.mem_append] at hi
        rcases hi with hi | hi
        · exact List.mem_append_left _ (reservedScope_mem y ha i sym hi hs h4)
        · exact List.mem_append_right _ (reservedScopes_mem cs hb i sym hi hs h4)
end

-- ------------------------------------------------------------------------------------------------
-- a symbol is renamed only when its name is taken

/-- every name in use on the scope chain is reserved or is the current name of a symbol of the enclosing scopes -/
def ChainOK (R : List Name) (ctx : List Nat) (chain : List NameMap) (names : Names) : Prop :=
  ∀ k : Name, k ∈ chainKeys chain → k ∈ R ∨ ∃ u : Nat, u ∈ ctx ∧ names[u]? = some k ∧ k ≠ []

theorem ChainOK.mono {R ctx chain names names'} (h : ChainOK R ctx chain names)
    (hstable : ∀ (j : Nat) (nm : Name), names[j]? = some nm → nm ≠ [] → names'[j]? = some nm) :
    ChainOK R ctx chain names' := by
  intro k hk
  rcases h k hk with hr | ⟨u, hu, hn, hne⟩
  · exact Or.inl hr
  · exact Or.inr ⟨u, hu, hstable u k hn hne, hne⟩

/-- after a scope's own pass the chain extended by the scope's map is still accounted for -/
theorem ChainOK.push {R ctx chain names names1 syms D cur'} (h : ChainOK R ctx chain names)
    (s1 : NStep syms D names names1 [] cur' chain) : ChainOK R (ctx ++ D) (cur' :: chain) names1 := by
  intro k hk
  have hold : k ∈ chainKeys chain → k ∈ R ∨ ∃ u : Nat, u ∈ ctx ++ D ∧ names1[u]? = some k ∧ k ≠ [] := by
    intro hk
    rcases h k hk with hr | ⟨u, hu, hn, hne⟩
    · exact Or.inl hr
    · exact Or.inr ⟨u, List.mem_append_left _ hu, s1.stable u k hn hne, hne⟩
  rcases (chainKeys_cons _ _ _).mp hk with hk | hk
  · rcases s1.newkeys k hk with hk | hk | ⟨u, hu, _, hn, hne⟩
    · simp [keys] at hk
    · exact hold hk
    · exact Or.inr ⟨u, List.mem_append_right _ hu, hn, hne⟩
  · exact hold hk

mutual
theorem assignRec_origin {fuel : Nat} {syms : List NSym} {R : List Name} : (sc : Scope) →
    ∀ {chain : List NameMap} {names names' : Names} {ctx : List Nat} {j : Nat} {nm : Name},
    assignRec fuel syms sc chain names = .ok names' → ChainOK R ctx chain names →
    names[j]? = some [] → names'[j]? = some nm → nm ≠ [] →
    ∃ base, baseName syms j = some base ∧ (nm = base ∨ base ∈ R ∨
      ∃ u : Nat, names'[u]? = some base ∧ base ≠ [] ∧ (u ∈ ctx ∨ Vis declB sc j u))
  | ⟨m, g, l, ch⟩, chain, names, names', ctx, j, nm, h, hchain, hu, hn, hne => by
    simp only [assignRec] at h
    split at h
    · next hempty =>
      obtain ⟨base, hb, hcase, _⟩ := assignRecList_origin ch h hchain hu hn hne
      refine ⟨base, hb, ?_⟩
      rcases hcase with h1 | h1 | ⟨u, hun, hbne, hu' | ⟨x, hx, hv⟩⟩
      · exact Or.inl h1
      · exact Or.inr (Or.inl h1)
      · exact Or.inr (Or.inr ⟨u, hun, hbne, Or.inl hu'⟩)
      · exact Or.inr (Or.inr ⟨u, hun, hbne, Or.inr (Vis.deeper (sc := ⟨m, g, l, ch⟩) hx hv)⟩)
    · split at h
      · next cur names1 h1 =>
        have hD : ∀ j, j ∈ sortNat m ++ g ↔ j ∈ declB ⟨m, g, l, ch⟩ := by
          intro j; simp [declB, mem_sortNat]
        have s1 := assignNames_step _ h1
        have s2 := assignRecList_step ch h
        obtain ⟨x, hx⟩ := getElem?_some_of_len s1.len hu
        by_cases hx0 : x = []
        · subst hx0
          obtain ⟨base, hb, hcase, y, hy, hjy⟩ := assignRecList_origin ch h (hchain.push s1) hx hn hne
          refine ⟨base, hb, ?_⟩
          rcases hcase with h1 | h1 | ⟨u, hun, hbne, hu' | ⟨z, hz, hv⟩⟩
          · exact Or.inl h1
          · exact Or.inr (Or.inl h1)
          · rcases List.mem_append.mp hu' with hu' | hu'
            · exact Or.inr (Or.inr ⟨u, hun, hbne, Or.inl hu'⟩)
            · exact Or.inr (Or.inr ⟨u, hun, hbne, Or.inr (Vis.inner (sc := ⟨m, g, l, ch⟩) hy ((hD u).mp hu') hjy)⟩)
          · exact Or.inr (Or.inr ⟨u, hun, hbne, Or.inr (Vis.deeper (sc := ⟨m, g, l, ch⟩) hz hv)⟩)
        · have hnm := s2.stable j x hx hx0
          rw [hn] at hnm; cases hnm
          have hjD : j ∈ sortNat m ++ g := Classical.byContradiction fun hj => by
            have := s1.frame j hj
            rw [hx, hu] at this; cases this; exact hx0 rfl
          obtain ⟨_, _, _, _, base, hb, hcase⟩ := s1.fresh j nm hu hx hne
          refine ⟨base, hb, ?_⟩
          have fromChain : base ∈ chainKeys chain → base ∈ R ∨
              ∃ u : Nat, names'[u]? = some base ∧ base ≠ [] ∧ (u ∈ ctx ∨ Vis declB ⟨m, g, l, ch⟩ j u) := by
            intro hk
            rcases hchain base hk with hr | ⟨u, hu', hun, hbne⟩
            · exact Or.inl hr
            · exact Or.inr ⟨u, s2.stable u base (s1.stable u base hun hbne) hbne, hbne, Or.inl hu'⟩
          rcases hcase with h1 | h1 | h1
          · exact Or.inl h1
          · rcases s1.newkeys base h1 with hk | hk | ⟨u, hu', _, hun, hbne⟩
            · simp [keys] at hk
            · exact Or.inr (fromChain hk)
            · exact Or.inr (Or.inr ⟨u, s2.stable u base hun hbne, hbne,
                Or.inr (Vis.here ((hD j).mp hjD) ((hD u).mp hu'))⟩)
          · exact Or.inr (fromChain h1)
      · cases h
      · cases h
theorem assignRecList_origin {fuel : Nat} {syms : List NSym} {R : List Name} : (ch : List Scope) →
    ∀ {chain : List NameMap} {names names' : Names} {ctx : List Nat} {j : Nat} {nm : Name},
    assignRecList fuel syms ch chain names = .ok names' → ChainOK R ctx chain names →
    names[j]? = some [] → names'[j]? = some nm → nm ≠ [] →
    ∃ base, baseName syms j = some base ∧ (nm = base ∨ base ∈ R ∨
      ∃ u : Nat, names'[u]? = some base ∧ base ≠ [] ∧ (u ∈ ctx ∨ ∃ x, x ∈ ch ∧ Vis declB x j u)) ∧
      ∃ x, x ∈ ch ∧ j ∈ x.all declB
  | [], chain, names, names', ctx, j, nm, h, _, hu, hn, hne => by
    simp only [assignRecList, Res.ok.injEq] at h
    subst h
    rw [hu] at hn; cases hn; exact absurd rfl hne
  | y :: cs, chain, names, names', ctx, j, nm, h, hchain, hu, hn, hne => by
    simp only [assignRecList] at h
    split at h
    · next names1 h1 =>
      have s1 := assignRec_step y h1
      have s2 := assignRecList_step cs h
      obtain ⟨x, hx⟩ := getElem?_some_of_len s1.len hu
      by_cases hx0 : x = []
      · subst hx0
        obtain ⟨base, hb, hcase, z, hz, hjz⟩ := assignRecList_origin cs h (hchain.mono s1.stable) hx hn hne
        refine ⟨base, hb, ?_, z, List.mem_cons_of_mem _ hz, hjz⟩
        rcases hcase with h1 | h1 | ⟨u, hun, hbne, hu' | ⟨w, hw, hv⟩⟩
        · exact Or.inl h1
        · exact Or.inr (Or.inl h1)
        · exact Or.inr (Or.inr ⟨u, hun, hbne, Or.inl hu'⟩)
        · exact Or.inr (Or.inr ⟨u, hun, hbne, Or.inr ⟨w, List.mem_cons_of_mem _ hw, hv⟩⟩)
      · have hnm := s2.stable j x hx hx0
        rw [hn] at hnm; cases hnm
        have hjy : j ∈ y.all declB := Classical.byContradiction fun hj => by
          have := s1.frame j hj
          rw [hx, hu] at this; cases this; exact hx0 rfl
        obtain ⟨base, hb, hcase⟩ := assignRec_origin y h1 hchain hu hx hne
        refine ⟨base, hb, ?_, y, List.mem_cons_self, hjy⟩
        rcases hcase with h1 | h1 | ⟨u, hun, hbne, hu' | hv⟩
        · exact Or.inl h1
        · exact Or.inr (Or.inl h1)
        · exact Or.inr (Or.inr ⟨u, s2.stable u base hun hbne, hbne, Or.inl hu'⟩)
        · exact Or.inr (Or.inr ⟨u, s2.stable u base hun hbne, hbne, Or.inr ⟨y, List.mem_cons_self, hv⟩⟩)
    · cases h
    · cases h
end

-- ------------------------------------------------------------------------------------------------
-- the loop of findUnusedName ends

theorem itoa_injective {a b : Nat} (h : itoa a = itoa b) : a = b := by
  have := congrArg (fun l => Nat.ofDigitChars 10 l 0) h
  simpa [itoa, Nat.ofDigitChars_ten_toDigits] using this

theorem tryNames_total_aux {cur : NameMap} {parents : List NameMap} {pre : Name} : ∀ (fuel tries : Nat) (K : List Name),
    (∀ t, tries < t → pre ++ itoa t ∈ keys cur ++ chainKeys parents → pre ++ itoa t ∈ K) → K.length < fuel →
    ∃ r, tryNames cur parents pre fuel tries = some r
  | 0, _, _, _, h => by omega
  | fuel + 1, tries, K, hK, hlen => by
    simp only [tryNames]
    split
    · exact ⟨_, rfl⟩
    · next hu =>
      have hin : pre ++ itoa (tries + 1) ∈ keys cur ++ chainKeys parents := by
        apply Classical.byContradiction
        intro hn
        simp only [List.mem_append, not_or] at hn
        exact hu ((findNameUse_unused_iff _ _ _).mpr hn)
      have hinK := hK (tries + 1) (Nat.lt_succ_self _) hin
      apply tryNames_total_aux fuel (tries + 1) (K.erase (pre ++ itoa (tries + 1)))
      · intro t ht hm
        apply (List.mem_erase_of_ne ?_).mpr (hK t (by omega) hm)
        intro heq
        have := itoa_injective (List.append_cancel_left heq)
        omega
      · rw [List.length_erase_of_mem hinK]
        have := List.length_pos_of_mem hinK
        omega

/-- the renaming loop tries at most one more candidate than there are names in use on the scope chain -/
theorem tryNames_total (cur : NameMap) (parents : List NameMap) (pre : Name) (fuel tries : Nat)
    (h : (keys cur ++ chainKeys parents).length < fuel) : ∃ r, tryNames cur parents pre fuel tries = some r :=
  tryNames_total_aux fuel tries _ (fun _ _ hm => hm) h

/-- the final name is the assigned one -/
theorem nameFor_of_named {syms : List NSym} {names : Names} {j : Nat} {a : Name}
    (hr : Ren syms j) (ha : names[j]? = some a) (hne : a ≠ []) : nameForSymbol syms names j = some a := by
  obtain ⟨sym, hs, _⟩ := hr
  simp [nameForSymbol, hs, ha, hne]


end EsbuildModel.Slots
