import EsbuildModel.Lemmas.CommentIndentDecode
/-!
The line splitting loop of `CommentTextWithoutIndent` (`for i, c := range text` with the running `start` index)
never slices out of range and computes the byte-level `Spec.CommentIndent.splitLines`.
-/
namespace EsbuildModel.CommentIndent
open EsbuildModel.Wtf8
open EsbuildModel.Spec.CommentIndent

/-! ### the byte patterns of `termLen` -/

theorem termLen_lf (rest : List Nat) : termLen (10 :: rest) = 1 := rfl
theorem termLen_crlf (rest : List Nat) : termLen (13 :: 10 :: rest) = 2 := rfl
theorem termLen_cr_nil : termLen [13] = 1 := rfl
theorem termLen_cr (r0 : Nat) (rest : List Nat) (h : r0 ≠ 10) : termLen (13 :: r0 :: rest) = 1 := by
  unfold termLen; split <;> simp_all
theorem termLen_ls (t : List Nat) : termLen (0xE2 :: 0x80 :: 0xA8 :: t) = 3 := rfl
theorem termLen_ps (t : List Nat) : termLen (0xE2 :: 0x80 :: 0xA9 :: t) = 3 := rfl

theorem termLen_zero (b : Nat) (rest : List Nat) (h1 : b ≠ 10) (h2 : b ≠ 13)
    (h3 : ¬ (b = 0xE2 ∧ ∃ t, rest = 0x80 :: 0xA8 :: t)) (h4 : ¬ (b = 0xE2 ∧ ∃ t, rest = 0x80 :: 0xA9 :: t)) :
    termLen (b :: rest) = 0 := by
  unfold termLen; split <;> simp_all

theorem termLen_zero_of_ne (b : Nat) (rest : List Nat) (h1 : b ≠ 10) (h2 : b ≠ 13) (h3 : b ≠ 0xE2) :
    termLen (b :: rest) = 0 :=
  termLen_zero b rest h1 h2 (fun h => h3 h.1) (fun h => h3 h.1)

theorem termLen_le (s : List Nat) : termLen s ≤ s.length := by
  unfold termLen; split <;> simp

/-! ### `consHead`, `splitSkip` -/

theorem consHead_consHead (c1 c2 : List Nat) (L : List (List Nat)) (h : L ≠ []) :
    consHead c1 (consHead c2 L) = consHead (c1 ++ c2) L := by
  cases L with
  | nil => exact absurd rfl h
  | cons m ms => simp [consHead]

theorem consHead_nil (L : List (List Nat)) (h : L ≠ []) : consHead [] L = L := by
  cases L with
  | nil => exact absurd rfl h
  | cons m ms => simp [consHead]

theorem consHead_ne_nil (c : List Nat) (L : List (List Nat)) : consHead c L ≠ [] := by
  cases L <;> simp [consHead]

theorem splitSkip_ne_nil : ∀ (s : List Nat) (k : Nat), splitSkip k s ≠ []
  | [], k => by simp [splitSkip]
  | b :: rest, k + 1 => by simp only [splitSkip]; exact splitSkip_ne_nil rest k
  | b :: rest, 0 => by
    simp only [splitSkip]
    split
    · exact consHead_ne_nil _ _
    · simp

theorem splitSkip_succ (k b : Nat) (rest : List Nat) : splitSkip (k + 1) (b :: rest) = splitSkip k rest := rfl

theorem splitSkip_zero_plain (b : Nat) (rest : List Nat) (h : termLen (b :: rest) = 0) :
    splitSkip 0 (b :: rest) = consHead [b] (splitSkip 0 rest) := by
  simp [splitSkip, h]

theorem splitSkip_zero_term (b : Nat) (rest : List Nat) (h : termLen (b :: rest) ≠ 0) :
    splitSkip 0 (b :: rest) = [] :: splitSkip (termLen (b :: rest) - 1) rest := by
  simp [splitSkip, h]

/-! ### list facts -/

theorem drop_succ_of_drop {text rest : List Nat} {i b : Nat} (h : text.drop i = b :: rest) :
    text.drop (i + 1) = rest := by
  have : text.drop (i + 1) = (text.drop i).drop 1 := by rw [List.drop_drop]
  rw [this, h]; rfl

theorem lt_length_of_drop {text rest : List Nat} {i b : Nat} (h : text.drop i = b :: rest) : i < text.length := by
  by_cases hi : i < text.length
  · exact hi
  · have : text.drop i = [] := List.drop_eq_nil_of_le (by omega)
    rw [this] at h; cases h

theorem getElem?_of_drop {text rest : List Nat} {i b : Nat} (h : text.drop i = b :: rest) : text[i]? = some b := by
  have := List.getElem?_drop (xs := text) (i := i) (j := 0)
  rw [h] at this
  simpa using this.symm

theorem take_succ_drop {text rest : List Nat} {i b start : Nat} (h : text.drop i = b :: rest) (hs : start ≤ i) :
    (text.take (i + 1)).drop start = (text.take i).drop start ++ [b] := by
  have hlt := lt_length_of_drop h
  rw [List.take_add_one, getElem?_of_drop h]
  simp only [Option.toList]
  rw [List.drop_append_of_le_length (by rw [List.length_take]; omega)]

theorem take_drop_self (text : List Nat) (i : Nat) : (text.take i).drop i = [] := by
  apply List.drop_eq_nil_of_le; rw [List.length_take]; omega


/-! ### one iteration of the loop -/

theorem sliceN_ok (text : List Nat) (a b : Nat) (h1 : a ≤ b) (h2 : b ≤ text.length) :
    sliceN text a b = .ok ((text.take b).drop a) := by
  simp [sliceN, h1, h2]

theorem getAt_nat (text : List Nat) (i b : Nat) (h : text[i]? = some b) : getAt text (i : Int) = .ok b := by
  simp [getAt, h]

theorem splitStep_lf (text : List Nat) (st : SplitSt) (i : Nat) (hs : st.start ≤ i) (hi : i ≤ text.length) :
    splitStep text st i 10 = .ok ⟨i + 1, st.lines ++ [(text.take i).drop st.start]⟩ := by
  simp [splitStep, hs, sliceN_ok text st.start i hs hi]

theorem splitStep_lf_skip (text : List Nat) (st : SplitSt) (i : Nat) (hs : ¬ st.start ≤ i) :
    splitStep text st i 10 = .ok ⟨i + 1, st.lines⟩ := by
  simp [splitStep, hs]

theorem splitStep_cr_last (text : List Nat) (st : SplitSt) (i : Nat) (hs : st.start ≤ i) (hi : i ≤ text.length)
    (hend : ¬ i + 1 < text.length) :
    splitStep text st i 13 = .ok ⟨i + 1, st.lines ++ [(text.take i).drop st.start]⟩ := by
  simp [splitStep, hs, sliceN_ok text st.start i hs hi, hend]

theorem splitStep_cr_next (text : List Nat) (st : SplitSt) (i r0 : Nat) (hs : st.start ≤ i) (hi : i ≤ text.length)
    (hnext : text[i + 1]? = some r0) :
    splitStep text st i 13 =
      .ok ⟨if r0 = 10 then i + 2 else i + 1, st.lines ++ [(text.take i).drop st.start]⟩ := by
  have hlt : i + 1 < text.length := by
    rcases Nat.lt_or_ge (i + 1) text.length with h | h
    · exact h
    · rw [List.getElem?_eq_none h] at hnext; cases hnext
  have hg : getAt text ((i + 1 : Nat) : Int) = .ok r0 := getAt_nat text (i + 1) r0 hnext
  simp only [splitStep, hs, sliceN_ok text st.start i hs hi, if_true, true_or, true_and, hlt]
  rw [hg]
  by_cases h10 : r0 = 10 <;> simp [h10]

theorem splitStep_sep (text : List Nat) (st : SplitSt) (i c : Nat) (hc : c = 0x2028 ∨ c = 0x2029)
    (hs : st.start ≤ i) (hi : i ≤ text.length) :
    splitStep text st i c = .ok ⟨i + 3, st.lines ++ [(text.take i).drop st.start]⟩ := by
  have h1 : ¬ (c = 13 ∨ c = 10) := by omega
  simp [splitStep, h1, hc, sliceN_ok text st.start i hs hi]

theorem splitStep_other (text : List Nat) (st : SplitSt) (i c : Nat) (h1 : c ≠ 13) (h2 : c ≠ 10)
    (h3 : c ≠ 0x2028) (h4 : c ≠ 0x2029) : splitStep text st i c = .ok st := by
  simp [splitStep, h1, h2, h3, h4]

/-- the loop followed by the final `lines = append(lines, text[start:])` -/
def goSplitFrom (text : List Nat) (k i : Nat) (rem : List Nat) (st : SplitSt) : Res (List (List Nat)) :=
  match splitLoop text k i rem st with
  | .panic => .panic
  | .hang => .hang
  | .ok st =>
    match sliceN text st.start text.length with
    | .ok l => .ok (st.lines ++ [l])
    | .panic => .panic
    | .hang => .hang

theorem splitLines_eq (text : List Nat) : splitLines text = goSplitFrom text 0 0 text ⟨0, []⟩ := rfl

theorem goSplitFrom_skip (text : List Nat) (k i b : Nat) (rest : List Nat) (st : SplitSt) :
    goSplitFrom text (k + 1) i (b :: rest) st = goSplitFrom text k (i + 1) rest st := by
  simp [goSplitFrom, splitLoop]

theorem goSplitFrom_step (text : List Nat) (i b : Nat) (rest : List Nat) (st st' : SplitSt) (c w : Nat)
    (hd : goDecodeRune b rest = (c, w + 1)) (h : splitStep text st i c = .ok st') :
    goSplitFrom text 0 i (b :: rest) st = goSplitFrom text w (i + 1) rest st' := by
  simp [goSplitFrom, splitLoop, hd, h]

theorem goSplitFrom_nil (text : List Nat) (k i : Nat) (st : SplitSt) (h : st.start ≤ text.length) :
    goSplitFrom text k i [] st = .ok (st.lines ++ [text.drop st.start]) := by
  cases k <;> simp [goSplitFrom, splitLoop, sliceN_ok text st.start text.length h (Nat.le_refl _)]


/-! ### the simulation -/

/-- A: ordinary position (`skip` continuation bytes of an ordinary rune still ahead); B: the rest of an LS/PS is being
skipped and `start` already points behind it; C: at the LF of a CR LF whose CR has been handled -/
def SimA (text : List Nat) (rem : List Nat) : Prop :=
  ∀ (k i : Nat) (st : SplitSt), text.drop i = rem → i ≤ text.length → st.start ≤ i → k ≤ rem.length →
    (∀ x ∈ rem.take k, 128 ≤ x ∧ x ≤ 191) →
    goSplitFrom text k i rem st = .ok (st.lines ++ consHead ((text.take i).drop st.start) (splitSkip 0 rem))

def SimB (text : List Nat) (rem : List Nat) : Prop :=
  ∀ (k i : Nat) (st : SplitSt), text.drop i = rem → i ≤ text.length → st.start = i + k → k ≤ rem.length →
    goSplitFrom text k i rem st = .ok (st.lines ++ splitSkip k rem)

def SimC (text : List Nat) (rem : List Nat) : Prop :=
  ∀ (i : Nat) (st : SplitSt) (rest : List Nat), rem = 10 :: rest → text.drop i = rem → i ≤ text.length →
    st.start = i + 1 → goSplitFrom text 0 i rem st = .ok (st.lines ++ splitSkip 1 rem)

theorem simA_nil (text : List Nat) : SimA text [] := by
  intro k i st hrem hi hs _ _
  have hlen : text.length ≤ i := List.drop_eq_nil_iff.mp hrem
  have hi' : i = text.length := by omega
  rw [goSplitFrom_nil text k i st (by omega)]
  subst hi'
  simp [splitSkip, consHead]

theorem simA_cons (text : List Nat) (b : Nat) (rest : List Nat)
    (ihA : SimA text rest) (ihB : SimB text rest) (ihC : SimC text rest) : SimA text (b :: rest) := by
  intro k i st hrem hi hs hk hcont
  have hrest := drop_succ_of_drop hrem
  have hlt := lt_length_of_drop hrem
  have hcur := take_succ_drop (start := st.start) hrem hs
  cases k with
  | succ k' =>
    -- inside an ordinary multi-byte rune
    have hb : 128 ≤ b ∧ b ≤ 191 := hcont b (by simp)
    rw [goSplitFrom_skip, ihA k' (i + 1) st hrest (by omega) (by omega) (by simp at hk; omega)
      (fun x hx => hcont x (by simp only [List.take_succ_cons]; exact List.mem_cons_of_mem _ hx))]
    rw [splitSkip_zero_plain b rest (termLen_zero_of_ne b rest (by omega) (by omega) (by omega)),
      consHead_consHead _ _ _ (splitSkip_ne_nil rest 0), hcur]
  | zero =>
    have hw := dec_width b rest
    by_cases h10 : b = 10
    · -- LF
      subst h10
      have hd : goDecodeRune 10 rest = (10, 1) := dec_ascii 10 rest (by omega)
      rw [goSplitFrom_step text i 10 rest st _ 10 0 hd (splitStep_lf text st i hs (by omega))]
      rw [ihA 0 (i + 1) _ hrest (by omega) (by simp) (by simp) (by simp)]
      simp only [take_drop_self, consHead_nil _ (splitSkip_ne_nil rest 0)]
      rw [splitSkip_zero_term 10 rest (by rw [termLen_lf]; omega), termLen_lf]
      simp [consHead]
    · by_cases h13 : b = 13
      · -- CR
        subst h13
        have hd : goDecodeRune 13 rest = (13, 1) := dec_ascii 13 rest (by omega)
        cases rest with
        | nil =>
          have hend : ¬ i + 1 < text.length := by
            have := congrArg List.length hrem
            simp only [List.length_drop, List.length_cons, List.length_nil] at this; omega
          rw [goSplitFrom_step text i 13 [] st _ 13 0 hd (splitStep_cr_last text st i hs (by omega) hend)]
          rw [ihA 0 (i + 1) _ hrest (by omega) (by simp) (by simp) (by simp)]
          simp [take_drop_self, splitSkip, consHead, termLen_cr_nil]
        | cons r0 rest' =>
          have hnext : text[i + 1]? = some r0 := getElem?_of_drop hrest
          rw [goSplitFrom_step text i 13 (r0 :: rest') st _ 13 0 hd
            (splitStep_cr_next text st i r0 hs (by omega) hnext)]
          by_cases hr0 : r0 = 10
          · subst hr0
            simp only [if_true]
            rw [ihC (i + 1) _ rest' rfl hrest (by omega) (by simp)]
            rw [splitSkip_zero_term 13 (10 :: rest') (by rw [termLen_crlf]; omega), termLen_crlf]
            simp [consHead]
          · simp only [hr0, if_false]
            rw [ihA 0 (i + 1) _ hrest (by omega) (by simp) (by simp) (by simp)]
            simp only [take_drop_self, consHead_nil _ (splitSkip_ne_nil _ 0)]
            rw [splitSkip_zero_term 13 (r0 :: rest') (by rw [termLen_cr r0 rest' hr0]; omega), termLen_cr r0 rest' hr0]
            simp [consHead]
      · by_cases hls : b = 0xE2 ∧ ∃ t, rest = 0x80 :: 0xA8 :: t
        · -- LS
          obtain ⟨rfl, t, rfl⟩ := hls
          rw [goSplitFrom_step text i _ _ st _ 0x2028 2 (dec_ls_width t)
            (splitStep_sep text st i _ (Or.inl rfl) hs (by omega))]
          rw [ihB 2 (i + 1) _ hrest (by omega) (by simp) (by simp)]
          rw [splitSkip_zero_term _ _ (by rw [termLen_ls]; omega), termLen_ls]
          simp [consHead]
        · by_cases hps : b = 0xE2 ∧ ∃ t, rest = 0x80 :: 0xA9 :: t
          · -- PS
            obtain ⟨rfl, t, rfl⟩ := hps
            rw [goSplitFrom_step text i _ _ st _ 0x2029 2 (dec_ps_width t)
              (splitStep_sep text st i _ (Or.inr rfl) hs (by omega))]
            rw [ihB 2 (i + 1) _ hrest (by omega) (by simp) (by simp)]
            rw [splitSkip_zero_term _ _ (by rw [termLen_ps]; omega), termLen_ps]
            simp [consHead]
          · -- an ordinary rune
            have c10 : (goDecodeRune b rest).1 ≠ 10 := fun h => h10 ((dec_lt128 b rest 10 (by omega)).mp h)
            have c13 : (goDecodeRune b rest).1 ≠ 13 := fun h => h13 ((dec_lt128 b rest 13 (by omega)).mp h)
            have cls : (goDecodeRune b rest).1 ≠ 0x2028 := fun h => hls ((dec_ls b rest).mp h)
            have cps : (goDecodeRune b rest).1 ≠ 0x2029 := fun h => hps ((dec_ps b rest).mp h)
            have hd : goDecodeRune b rest = ((goDecodeRune b rest).1, ((goDecodeRune b rest).2 - 1) + 1) := by
              have := hw.1
              rw [Nat.sub_add_cancel this]
            rw [goSplitFrom_step text i b rest st st _ _ hd (splitStep_other text st i _ c13 c10 cls cps)]
            rw [ihA _ (i + 1) st hrest (by omega) (by omega) hw.2.1 hw.2.2]
            rw [splitSkip_zero_plain b rest (termLen_zero b rest h10 h13 hls hps),
              consHead_consHead _ _ _ (splitSkip_ne_nil rest 0), hcur]


theorem simB_of_simA (text rem : List Nat) (hA : SimA text rem)
    (ihB : ∀ b rest, rem = b :: rest → SimB text rest) : SimB text rem := by
  intro k i st hrem hi hs hk
  cases k with
  | zero =>
    rw [hA 0 i st hrem hi (by omega) (by omega) (by simp)]
    have : st.start = i := by omega
    rw [this, take_drop_self, consHead_nil _ (splitSkip_ne_nil rem 0)]
  | succ k' =>
    cases rem with
    | nil => simp at hk
    | cons b rest =>
      have hrest := drop_succ_of_drop hrem
      have hlt := lt_length_of_drop hrem
      rw [goSplitFrom_skip, splitSkip_succ]
      exact ihB b rest rfl k' (i + 1) st hrest (by omega) (by omega) (by simp at hk; omega)

theorem simC_cons (text : List Nat) (b : Nat) (rest : List Nat) (ihA : SimA text rest) : SimC text (b :: rest) := by
  intro i st rest' hrem' hrem hi hs
  cases hrem'
  have hrest := drop_succ_of_drop hrem
  have hlt := lt_length_of_drop hrem
  have hd : goDecodeRune 10 rest = (10, 1) := dec_ascii 10 rest (by omega)
  rw [goSplitFrom_step text i 10 rest st _ 10 0 hd (splitStep_lf_skip text st i (by omega))]
  rw [ihA 0 (i + 1) _ hrest (by omega) (by simp) (by simp) (by simp)]
  simp only [take_drop_self, consHead_nil _ (splitSkip_ne_nil rest 0), splitSkip_succ]

theorem sim_all (text : List Nat) : ∀ rem : List Nat, SimA text rem ∧ SimB text rem ∧ SimC text rem
  | [] => by
    refine ⟨simA_nil text, simB_of_simA text [] (simA_nil text) (fun _ _ h => by cases h), ?_⟩
    intro i st rest h; cases h
  | b :: rest => by
    obtain ⟨ihA, ihB, ihC⟩ := sim_all text rest
    have hA := simA_cons text b rest ihA ihB ihC
    refine ⟨hA, simB_of_simA text (b :: rest) hA (fun b' rest' h => by cases h; exact ihB), simC_cons text b rest ihA⟩

/-- the loop never slices out of range and finds exactly the lines between the terminator byte patterns -/
theorem splitLines_spec (text : List Nat) : splitLines text = .ok (Spec.CommentIndent.splitLines text) := by
  rw [splitLines_eq, (sim_all text text).1 0 0 ⟨0, []⟩ (by simp) (by omega) (by simp) (by omega) (by simp)]
  simp [consHead_nil _ (splitSkip_ne_nil text 0), Spec.CommentIndent.splitLines]

end EsbuildModel.CommentIndent
