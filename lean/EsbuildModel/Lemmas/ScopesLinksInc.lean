import EsbuildModel.Lemmas.ScopesVisitFlat
/-!
On a flat program every link goes from a symbol to a later one (the parse pass links a replaced symbol to the new one, the
other two passes set no link), so ast.FollowSymbols terminates on every symbol.
-/
namespace EsbuildModel.Scopes
open JsScopes

/-- every link goes to a later symbol of the table -/
def LinksInc (syms : Syms) : Prop := ∀ i l, linkOf syms i = some l → i < l ∧ l < syms.length

theorem LinksInc.append {a : Syms} (h : LinksInc a) (k : SK) (n : Name) : LinksInc (a ++ [⟨k, n, none, false⟩]) := by
  intro i l hl
  rcases Nat.lt_or_ge i a.length with hi | hi
  · rw [linkOf_append_old _ _ _ hi] at hl
    have := h i l hl
    exact ⟨this.1, by simp; omega⟩
  · rcases Nat.lt_or_ge a.length i with hi' | hi'
    · rw [linkOf_none_of_ge _ (by simp; omega)] at hl; cases hl
    · have : i = a.length := by omega
      subst this
      rw [linkOf_new] at hl; cases hl

theorem LinksInc.of_eq {a b : Syms} (h : LinksInc a) (he : ∀ i, linkOf b i = linkOf a i) (hl : a.length ≤ b.length) :
    LinksInc b := by
  intro i l hil
  rw [he] at hil
  have := h i l hil
  exact ⟨this.1, Nat.lt_of_lt_of_le this.2 hl⟩

theorem LinksInc.setLink {a : Syms} (h : LinksInc a) {i l : Nat} (hil : i < l) (hl : l < a.length) :
    LinksInc (setLink a i (some l)) := by
  intro j t hjt
  by_cases hij : i = j
  · subst hij
    rw [linkOf_setLink_self _ _ _ (by omega)] at hjt
    cases hjt
    exact ⟨hil, by simpa using hl⟩
  · rw [linkOf_setLink_other _ _ _ _ hij] at hjt
    have := h j t hjt
    exact ⟨this.1, by simpa using this.2⟩

theorem declareSymbol_inc {cur cur' : Frame} {st st' : PSt} {k : SK} {n : Name} {r : Nat}
    (h : declareSymbol cur st k n = some (cur', st', r)) (hb : ∀ m, m ∈ refsOf cur.members → m < st.syms.length)
    (hi : LinksInc st.syms) : LinksInc st'.syms := by
  have h1 := hi.append k n
  unfold declareSymbol at h
  simp only [newSymbol] at h
  split at h
  · cases h; exact h1
  · next existing hex =>
    have hlt := hb existing (lookup_mem_refsOf hex)
    split at h
    · cases h
    · split at h <;> cases h
      · exact h1
      · exact h1
      · exact h1.setLink hlt (by simp)
      · exact h1.of_eq (fun i => linkOf_setKind _ _ _ _) (by simp)
      · exact h1.of_eq (fun i => linkOf_setKind _ _ _ _) (by simp)
      · exact h1

mutual
theorem parseItem_inc : ∀ (i : Item) (c c' : PCtx), parseItem i c = some c' → CInv c → okItem (hasBody c.kids) i = true →
    LinksInc c.st.syms → LinksInc c'.st.syms
  | .decl k n, c, c', h, hci, _, hi => by
    simp only [parseItem] at h
    split at h
    · cases h
    · next cur st r hd =>
      cases h
      exact (declareSymbol_inc hd (hci.names.bound hci.nodup) hi : LinksInc st.syms)
  | .declArgs, c, c', h, hci, _, hi => by
    simp only [parseItem] at h
    split at h
    · cases h; exact hi
    · split at h
      · cases h
      · next cur st r hd =>
        cases h
        exact (declareSymbol_inc hd (hci.names.bound hci.nodup) hi).of_eq (fun i => linkOf_pin _ _ _) (by simp)
  | .rawSym n, c, c', h, _, _, hi => by simp only [parseItem, newSymbol] at h; cases h; exact hi.append _ _
  | .genSym n, c, c', h, _, _, hi => by simp only [parseItem, newSymbol] at h; cases h; exact hi.append _ _
  | .classInner _, c, c', h, _, _, hi => by simp only [parseItem] at h; cases h; exact hi
  | .ref _, c, c', h, _, _, hi => by simp only [parseItem] at h; cases h; exact hi
  | .eval, c, c', h, _, _, hi => by simp only [parseItem] at h; cases h; exact hi
  | .cut, c, c', h, _, _, hi => by simp only [parseItem] at h; cases h; exact hi
  | .scope k us l body, c, c', h, hci, hok, hi => by
    simp only [okItem, Bool.and_eq_true, Bool.not_eq_true', Bool.and_eq_false_iff, beq_eq_false_iff_ne, ne_eq] at hok
    have hseen : ¬ (k = .fnBody ∧ hasBody c.kids = true) := by
      rintro ⟨h1, h2⟩
      rcases hok.2 with h3 | h3
      · exact h3 h1
      · rw [h2] at h3; cases h3
    simp only [parseItem] at h
    split at h
    · cases h
    · next child0 hp =>
      split at h
      · cases h
      · next r hr =>
        cases h
        have hsc := parseItem_conn_scope (r := r) hci hp (pc := if us = true then applyUseStrict c.cur (classStrict child0)
            else (c.cur, classStrict child0))
          (by split <;> simp) (by split <;> simp) (by split <;> simp) (by split <;> simp) hseen
        exact parseItems_inc body _ r hr hsc.1 (by simpa [hasBody] using hok.1) hi
theorem parseItems_inc : ∀ (is : List Item) (c c' : PCtx), parseItems is c = some c' → CInv c →
    okItems (hasBody c.kids) is = true → LinksInc c.st.syms → LinksInc c'.st.syms
  | [], c, c', h, _, _, hi => by simp only [parseItems] at h; cases h; exact hi
  | i :: is, c, c', h, hci, hok, hi => by
    simp only [parseItems] at h
    simp only [okItems, Bool.and_eq_true] at hok
    split at h
    · cases h
    · next c1 h1 =>
      obtain ⟨hci1, _, hb1, _⟩ := parseItem_conn i c c1 h1 hci hok.1
      exact parseItems_inc is c1 c' h hci1 (by rw [hb1]; exact hok.2) (parseItem_inc i c c1 h1 hci hok.1 hi)
end

-- the visit pass sets no link on a flat program --------------------------------------------------------------------------

/-- the same links -/
def LinksEq (a b : Syms) : Prop := ∀ i, linkOf b i = linkOf a i

theorem LinksEq.refl (a : Syms) : LinksEq a a := fun _ => rfl
theorem LinksEq.trans {a b c : Syms} (h1 : LinksEq a b) (h2 : LinksEq b c) : LinksEq a c := fun i => (h2 i).trans (h1 i)

theorem LinksEq.append (a : Syms) (k : SK) (n : Name) : LinksEq a (a ++ [⟨k, n, none, false⟩]) := by
  intro i
  rcases Nat.lt_or_ge i a.length with hi | hi
  · exact linkOf_append_old _ _ _ hi
  · rw [linkOf_none_of_ge a hi]
    rcases Nat.lt_or_ge a.length i with hi' | hi'
    · exact linkOf_none_of_ge _ (by simp; omega)
    · have : i = a.length := by omega
      subst this; exact linkOf_new _ _ _

theorem LinksEq.pin (a : Syms) (i : Nat) : LinksEq a (pin a i) := fun j => linkOf_pin _ _ _

theorem pinMembers_eq (f : Frame) (syms : Syms) : LinksEq syms (pinMembers f syms) ∧ (pinMembers f syms).length = syms.length := by
  unfold pinMembers
  split
  · generalize f.members = ms
    induction ms generalizing syms with
    | nil => exact ⟨.refl _, rfl⟩
    | cons m ms ih =>
      simp only [List.foldl_cons]
      have := ih (Scopes.pin syms m.2)
      exact ⟨(LinksEq.pin syms m.2).trans this.1, by rw [this.2]; simp⟩
  · exact ⟨.refl _, rfl⟩

theorem updLast_kinds (g : Frame → Frame) (hg : ∀ m, (g m).kind = m.kind) :
    ∀ (l : List Frame), (updLast g l).map (·.kind) = l.map (·.kind)
  | [] => rfl
  | [x] => by simp [updLast, hg]
  | x :: y :: ys => by
    have ih := updLast_kinds g hg (y :: ys)
    simp only [updLast, List.map_cons] at ih ⊢
    rw [ih]

theorem findSymbol_eq (chain : List Frame) (syms : Syms) (n : Name) :
    LinksEq syms (findSymbol chain syms n).2.1 ∧ syms.length ≤ (findSymbol chain syms n).2.1.length ∧
    (findSymbol chain syms n).1.map (·.kind) = chain.map (·.kind) := by
  unfold findSymbol
  split
  · refine ⟨?_, ?_, rfl⟩
    · split
      · exact pinLinks_ind (fun a => LinksEq syms a) (fun a i h => h.trans (LinksEq.pin a i)) _ _ _ (.refl _)
      · exact .refl _
    · split <;> simp
  · simp only [newSymbol]
    refine ⟨?_, ?_, ?_⟩
    · split
      · exact (LinksEq.append _ _ _).trans (LinksEq.pin _ _)
      · exact LinksEq.append _ _ _
    · split <;> simp
    · exact updLast_kinds (fun m : Frame => { m with members := insert n syms.length m.members }) (fun _ => rfl) chain

/-- what a step of the visit pass on flat items keeps -/
structure Quiet (c c' : VCtx) : Prop where
  links : LinksEq c.st.syms c'.st.syms
  len : c.st.syms.length ≤ c'.st.syms.length
  pending : c'.pending = []
  cls : c'.cls = none
  kinds : (c'.cur :: c'.below).map (·.kind) = (c.cur :: c.below).map (·.kind)

theorem Quiet.trans {a b c : VCtx} (h1 : Quiet a b) (h2 : Quiet b c) : Quiet a c :=
  ⟨h1.links.trans h2.links, Nat.le_trans h1.len h2.len, h2.pending, h2.cls, h2.kinds.trans h1.kinds⟩

theorem setChain_quiet {c c0 c' : VCtx} {chain : List Frame} (h : setChain c0 chain = some c')
    (hk : chain.map (·.kind) = (c.cur :: c.below).map (·.kind)) (hl : LinksEq c.st.syms c0.st.syms)
    (hlen : c.st.syms.length ≤ c0.st.syms.length) (hp : c0.pending = []) (hc : c0.cls = none) : Quiet c c' := by
  unfold setChain at h
  cases chain with
  | nil => cases h
  | cons x xs =>
    simp only [Option.some.injEq] at h
    subst h
    exact ⟨hl, hlen, hp, hc, hk⟩

mutual
theorem visitItem_quiet : ∀ (i : Item) (c c' : VCtx), visitItem true i c = some c' →
    flatItem c.cur.kind.stopsHoisting i = true → c.pending = [] → c.cls = none → Quiet c c'
  | .decl k n, c, c', h, hf, hp, hc => by
    simp only [flatItem, Bool.and_eq_true, Bool.or_eq_true, Bool.not_eq_true', bne_iff_ne, ne_eq] at hf
    obtain ⟨d, rest, _, hc'⟩ := visit_decl h (fun hk => by
      rcases hf.1.1 with h1 | h1
      · exact h1
      · rcases hk with hk | hk
        · subst hk; simp [SK.isHoisted] at h1
        · exact absurd hk h1.2)
    subst hc'
    exact ⟨.refl _, Nat.le_refl _, hp, hc, rfl⟩
  | .declArgs, c, c', h, _, hp, hc => by
    simp only [visitItem, Option.some.injEq] at h; subst h; exact ⟨.refl _, Nat.le_refl _, hp, hc, rfl⟩
  | .genSym _, c, c', h, _, hp, hc => by
    simp only [visitItem, Option.some.injEq] at h; subst h; exact ⟨.refl _, Nat.le_refl _, hp, hc, rfl⟩
  | .rawSym _, c, c', h, _, hp, hc => by
    simp only [visitItem] at h
    split at h
    · cases h
    · cases h; exact ⟨.refl _, Nat.le_refl _, hp, hc, rfl⟩
  | .classInner _, c, c', _, hf, _, _ => by simp [flatItem] at hf
  | .ref n, c, c', h, _, hp, hc => by
    simp only [visitItem] at h
    have hfs := findSymbol_eq (c.cur :: c.below) c.st.syms n
    exact setChain_quiet h hfs.2.2 hfs.1 hfs.2.1 hp hc
  | .eval, c, c', h, _, hp, hc => by
    simp only [visitItem] at h
    have hfs := findSymbol_eq (c.cur :: c.below) c.st.syms evalName
    refine setChain_quiet h ?_ hfs.1 hfs.2.1 hp hc
    rw [← hfs.2.2]; simp [List.map_map, Function.comp_def]
  | .cut, c, c', h, _, hp, hc => by
    simp only [visitItem, if_true, endList, hp, relinkFns, Option.some.injEq] at h
    subst h
    exact ⟨.refl _, Nat.le_refl _, rfl, hc, rfl⟩
  | .scope k us lbl body, c, c', h, hf, hp, hc => by
    simp only [flatItem, Bool.and_eq_true, bne_iff_ne, ne_eq, Option.isNone_iff_eq_none] at hf
    obtain ⟨⟨hk, hl⟩, hfb⟩ := hf
    subst hl
    obtain ⟨f, kids, todo', r, _, hfk, hvis, hpop⟩ := visit_scope h hk hp
    have hq := visitItems_quiet body _ r hvis (by rw [hfk]; exact hfb) rfl rfl
    obtain ⟨cur', below', hb, hc'⟩ := hpop hq.pending hq.cls
    subst hc'
    have hpin := pinMembers_eq r.cur r.st.syms
    refine ⟨hq.links.trans hpin.1, by simp only; rw [hpin.2]; exact hq.len, rfl, hc, ?_⟩
    have := hq.kinds
    simp only [List.map_cons, List.cons.injEq] at this
    rw [← hb]; exact this.2
theorem visitItems_quiet : ∀ (is : List Item) (c c' : VCtx), visitItems true is c = some c' →
    flatItems c.cur.kind.stopsHoisting is = true → c.pending = [] → c.cls = none → Quiet c c'
  | [], c, c', h, _, hp, hc => by
    simp only [visitItems, Option.some.injEq] at h; subst h; exact ⟨.refl _, Nat.le_refl _, hp, hc, rfl⟩
  | i :: is, c, c', h, hf, hp, hc => by
    simp only [visitItems] at h
    simp only [flatItems, Bool.and_eq_true] at hf
    split at h
    · cases h
    · next c1 h1 =>
      have q1 := visitItem_quiet i c c1 h1 hf.1 hp hc
      have hk1 : c1.cur.kind = c.cur.kind := by
        have := q1.kinds
        simp only [List.map_cons, List.cons.injEq] at this
        exact this.1
      exact q1.trans (visitItems_quiet is c1 c' h (by rw [hk1]; exact hf.2) q1.pending q1.cls)
end

end EsbuildModel.Scopes
