import EsbuildModel.Lemmas.CssSpecSim1
/-!
Simulation model ↔ specification, part 2: the "would start" checks and numbers.
-/
namespace EsbuildModel.CssLex
open EsbuildModel.Spec
open EsbuildModel.Spec.Unicode (IsScalar)

theorem isNameStart_45 : isNameStart 45 = false := by decide
theorem isDigit_46 : isDigit 46 = false := by decide
theorem isDigit_43 : isDigit 43 = false := by decide
theorem isDigit_45 : isDigit 45 = false := by decide
theorem ppc_46 : ppc 46 = 46 := by decide
theorem ppc_43 : ppc 43 = 43 := by decide
theorem ppc_45 : ppc 45 = 45 := by decide

theorem ppc_eq_iff (c k : Nat) (hk : k ≠ 10) (hk2 : k ≠ 13) (hk3 : k ≠ 12) : ppc c = k ↔ c = k := by
  unfold ppc; split <;> omega

/-- S5: §4.3.9 -/
theorem sim_wouldStartIdent (s : List Ch) (ht : Tame s) : CssSyntax.wouldStartIdent (ppS s) = wouldStartIdentifier s := by
  cases s with
  | nil => rfl
  | cons c t =>
    by_cases h45 : c.cp = 45
    · rw [ht.cons (crlfAt_of_ne_cr c t (by omega))]
      have : ppc c.cp = 45 := (ppc_eq_iff _ 45 (by omega) (by omega) (by omega)).2 h45
      rw [this]
      have hns : isNameStart c.cp = false := by rw [h45]; decide
      simp only [CssSyntax.wouldStartIdent, if_true, wouldStartIdentifier, hns, Bool.false_eq_true, if_false, h45,
        beq_self_eq_true, isNameStart_45]
      cases t with
      | nil => simp [ppS_nil]
      | cons d u =>
        have hv := sim_validEscape (d :: u) ht.tail
        obtain ⟨r, hr⟩ := ht.tail.head
        rw [hr] at hv ⊢
        have hdi := ht.noDashIll (c :: d :: u) (List.suffix_refl _)
        simp only [dashIll, h45, beq_self_eq_true, Bool.true_and] at hdi
        simp only [hdi, Bool.false_eq_true, if_false, hv, cls_identStart d.cp ht.tail.ne0]
        have e45 : (ppc d.cp == 45) = (d.cp == 45) := by
          rw [Bool.eq_iff_iff]; simp only [beq_iff_eq]; exact ppc_eq_iff _ 45 (by omega) (by omega) (by omega)
        rw [e45]
        simp only [isValidEscape]
        by_cases h1 : (isNameStart d.cp || d.cp == 45) = true
        · simp only [h1, if_true, Bool.true_or]
        · have h1' : (isNameStart d.cp || d.cp == 45) = false := by simpa using h1
          simp only [h1', Bool.false_eq_true, if_false, Bool.false_or]
          by_cases h92 : d.cp = 92 <;> simp [h92]
    · obtain ⟨r, hr⟩ := ht.head
      have hv := sim_validEscape (c :: t) ht
      rw [hr] at hv ⊢
      have hne : ppc c.cp ≠ 45 := fun h => h45 ((ppc_eq_iff _ 45 (by omega) (by omega) (by omega)).1 h)
      have h45' : (c.cp == 45) = false := by simp [h45]
      simp only [CssSyntax.wouldStartIdent, hne, if_false, cls_identStart c.cp ht.ne0, wouldStartIdentifier, h45',
        Bool.false_eq_true]
      by_cases hns : isNameStart c.cp = true
      · simp [hns]
      · simp only [hns, Bool.false_eq_true, if_false, hv]
        by_cases h92 : c.cp = 92
        · have : ppc c.cp = 92 := (ppc_eq_92 _).2 h92
          simp [this]
        · have : ppc c.cp ≠ 92 := fun h => h92 ((ppc_eq_92 _).1 h)
          simp [this, isValidEscape, h92]

/-- the first code point of the preprocessed stream as an option -/
theorem Tame.headD {s : List Ch} (h : Tame s) (p : Nat → Bool) :
    (match ppS s with | d :: _ => p d | [] => false) = headIs (fun c => p (ppc c)) s := by
  cases s with
  | nil => rfl
  | cons c t => obtain ⟨r, hr⟩ := h.head; rw [hr]; rfl

/-- S6: §4.3.10 -/
theorem sim_wouldStartNumber (s : List Ch) (ht : Tame s) : CssSyntax.wouldStartNumber (ppS s) = wouldStartNumber s := by
  cases s with
  | nil => rfl
  | cons c t =>
    obtain ⟨r, hr⟩ := ht.head
    by_cases hsign : c.cp = 43 ∨ c.cp = 45
    · have hne : c.cp ≠ 13 := by omega
      rw [ht.cons (crlfAt_of_ne_cr c t hne)]
      have hp : ppc c.cp = c.cp := by unfold ppc; split <;> omega
      have hnd : isDigit c.cp = false := by rcases hsign with h | h <;> simp [isDigit, h]
      have h46 : (c.cp == 46) = false := by rcases hsign with h | h <;> simp [h]
      have hs' : (c.cp == 43 || c.cp == 45) = true := by rcases hsign with h | h <;> simp [h]
      simp only [CssSyntax.wouldStartNumber, hp, hsign, if_true, wouldStartNumber, hnd, Bool.false_eq_true, if_false, h46, hs']
      cases t with
      | nil => simp [ppS_nil]
      | cons d u =>
        by_cases hd46 : d.cp = 46
        · rw [ht.tail.cons (crlfAt_of_ne_cr d u (by omega))]
          have hpd : ppc d.cp = 46 := (ppc_eq_iff _ 46 (by omega) (by omega) (by omega)).2 hd46
          have hdd : isDigit d.cp = false := by simp [isDigit, hd46]
          simp only [hpd, cls_digit, hd46, hdd, Bool.false_eq_true, if_false, if_true, beq_self_eq_true]
          have := ht.tail.tail.headD CssSyntax.isDigit
          simp only [cls_digit] at this
          cases hu : ppS u with
          | nil => rw [hu] at this; simp only [isDigit_46, Bool.false_eq_true, if_false]; exact this
          | cons e v => rw [hu] at this; simp only [isDigit_46, Bool.false_eq_true, if_false]; exact this
        · obtain ⟨r2, hr2⟩ := ht.tail.head
          rw [hr2]
          have hpd : ppc d.cp ≠ 46 := fun h => hd46 ((ppc_eq_iff _ 46 (by omega) (by omega) (by omega)).1 h)
          have hd46' : (d.cp == 46) = false := by simp [hd46]
          simp only [cls_digit, hpd, if_false, hd46', Bool.false_eq_true]
    · have hs' : (c.cp == 43 || c.cp == 45) = false := by simp only [Bool.or_eq_false_iff, beq_eq_false_iff_ne]; omega
      have hpp : ¬ (ppc c.cp = 43 ∨ ppc c.cp = 45) := by
        intro h; apply hsign
        rcases h with h | h
        · left; exact (ppc_eq_iff _ 43 (by omega) (by omega) (by omega)).1 h
        · right; exact (ppc_eq_iff _ 45 (by omega) (by omega) (by omega)).1 h
      by_cases h46 : c.cp = 46
      · rw [ht.cons (crlfAt_of_ne_cr c t (by omega))]
        have hp : ppc c.cp = 46 := (ppc_eq_iff _ 46 (by omega) (by omega) (by omega)).2 h46
        have hnd : isDigit c.cp = false := by simp [isDigit, h46]
        have hs2 : ¬ ((46 : Nat) = 43 ∨ (46 : Nat) = 45) := by omega
        simp only [CssSyntax.wouldStartNumber, hp, hs2, if_false, if_true, wouldStartNumber, hnd, Bool.false_eq_true, h46,
          beq_self_eq_true]
        have := ht.tail.headD CssSyntax.isDigit
        simp only [cls_digit] at this
        cases hu : ppS t with
        | nil => rw [hu] at this; simp only [isDigit_46, Bool.false_eq_true, if_false]; exact this
        | cons e v => rw [hu] at this; simp only [isDigit_46, Bool.false_eq_true, if_false]; exact this
      · rw [hr]
        have hp : ppc c.cp ≠ 46 := fun h => h46 ((ppc_eq_iff _ 46 (by omega) (by omega) (by omega)).1 h)
        have h46' : (c.cp == 46) = false := by simp [h46]
        simp only [CssSyntax.wouldStartNumber, hpp, if_false, hp, cls_digit, wouldStartNumber, h46', hs', Bool.false_eq_true]
        by_cases hdig : isDigit c.cp = true <;> simp [hdig]

end EsbuildModel.CssLex
