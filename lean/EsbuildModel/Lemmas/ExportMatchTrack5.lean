import EsbuildModel.Lemmas.ExportMatchTrack4
/-! `matchLoop_spec`: the induction over the fuel. -/
namespace EsbuildModel.ExportMatch
open EsbuildModel.Spec EsbuildModel.Spec.EsModules

theorem isImport_eq {t : Table} {s r : Nat} {f : File} (hf : t[s]? = some f) :
    isImport t s r = some (findImport f r).isSome := by
  simp [isImport, hf]

/-- the value computed for one holder `d` of the request (o, a): the Normal result naming THE binding it provides
(up to its `nameLoc`) -/
def HolderVal (t : Table) (a : Name) (d : ImportData) (r : MResult) : Prop :=
  ∃ b, Reaches (toSpec t) (d.src, a) b ∧ (∀ b', Reaches (toSpec t) (d.src, a) b' → b' = b) ∧ noLoc r = normalOf t b

theorem matchLoop_spec {t : Table} {rs : List Resolved} (H : Hyps t rs) (k : Bool) :
    ∀ (fuel : Nat) (tr : Tracker) (cd : List Tracker) (result : MResult) (ambs : List MResult) (f : File)
      (ni : NamedImport), t[tr.src]? = some f → findImport f tr.ref = some ni → tr ∈ trackers t →
      cd.Nodup → (∀ q ∈ cd, q ∈ trackers t) → (trackers t).length < fuel + cd.length → Chain t cd ni →
      ∃ R, matchLoop ⟨t, rs, k⟩ fuel tr cd result ambs = some R ∧ Out t ni result ambs R := by
  intro fuel
  induction fuel with
  | zero =>
    intro tr cd result ambs f ni _ _ _ hn hs hfuel _
    have := List.Nodup.length_le_of_subset hn hs
    omega
  | succ fuel ih =>
    intro tr cd result ambs f ni hf hi htr hn hs hfuel hch
    have hnot : tr ∉ cd := not_on_chain H.nocycle hf hi hch
    have hcont : cd.contains tr = false := by simpa using hnot
    obtain ⟨o, other, res, htg, ho, hother, hres, hadv⟩ := advance_esm H k hf hi
    have hn1 : (cd ++ [tr]).Nodup := by
      rw [List.nodup_append]
      refine ⟨hn, by simp, ?_⟩
      intro p hp q hq hpq
      simp at hq; subst hq; subst hpq
      exact hnot hp
    have hs1 : ∀ q ∈ cd ++ [tr], q ∈ trackers t := by
      intro q hq
      rcases List.mem_append.1 hq with hq | hq
      · exact hs q hq
      · simp at hq; subst hq; exact htr
    have hfuel1 : (trackers t).length < fuel + (cd ++ [tr]).length := by simp; omega
    rw [matchLoop]
    simp only [hcont, Bool.false_eq_true, if_false, hadv]
    by_cases hstar : ni.isStar = true
    · -- `import * as ns`: the namespace object of the target
      simp only [hstar, if_true]
      have himp : isImport t o other.exportsRef = some false := by
        rw [isImport_eq hother]
        have : findImport other other.exportsRef = none := by
          unfold findImport
          rw [List.find?_eq_none]
          intro x hx
          simpa using H.wf.exportsRefImport other (List.mem_of_getElem? hother) x hx
        simp [this]
      simp only [mapOpt, himp]
      refine ⟨_, rfl, Or.inr ⟨⟨o, .namespace⟩, _, [], ?_, ?_, by simp, ?_, rfl⟩⟩
      · simp [Pointed, htg, hstar]
      · simp [normalOf, exportsRefOf, hother, noLoc]
      · intro b hb
        left
        simpa [Pointed, htg, hstar] using hb
    · have hstar' : ni.isStar = false := by simpa using hstar
      simp only [hstar', Bool.false_eq_true, if_false]
      have hpointed : ∀ b, Pointed t ni b ↔ Reaches (toSpec t) (o, ni.alias) b := by
        intro b; simp [Pointed, htg, hstar']
      obtain ⟨hnoneCase, hsomeCase⟩ := holders_of H.wf H.esm ho hres ni.alias
      cases hl : res.lookup ni.alias with
      | none =>
        simp only
        exact ⟨_, rfl, Or.inl ⟨fun b hb => hnoneCase hl b ((hpointed b).1 hb), rfl⟩⟩
      | some ex =>
        simp only
        obtain ⟨hhold, hcover⟩ := hsomeCase ex hl
        -- what one holder contributes, and how it is computed
        have holderCase : ∀ d, IsHolder t o ni.alias d → ∃ fo, t[d.src]? = some fo ∧
            ((findImport fo d.ref = none ∧
                HolderVal t ni.alias d { kind := .normal, src := d.src, loc := d.loc, ref := d.ref }) ∨
              (∃ nid, findImport fo d.ref = some nid ∧ Chain t (cd ++ [tr]) nid ∧
                (∀ l, (l = 0 ∨ l = d.loc) → (⟨d.src, l, d.ref⟩ : Tracker) ∈ trackers t) ∧
                ∃ b, Pointed t nid b ∧ (∀ b', Pointed t nid b' → b' = b) ∧
                  (∀ b', Reaches (toSpec t) (d.src, ni.alias) b' ↔ Pointed t nid b'))) := by
          intro d hd
          obtain ⟨⟨fo, e, hfo, he, her, hel⟩, hreach⟩ := hd
          refine ⟨fo, hfo, ?_⟩
          cases hnid : findImport fo d.ref with
          | none =>
            left
            obtain ⟨h1, h2⟩ := holder_local (d := d) H.wf hfo he her hnid
            exact ⟨rfl, ⟨d.src, .name d.ref⟩, (h1 _).2 rfl, fun b' hb' => (h1 b').1 hb', h2⟩
          | some nid =>
            right
            obtain ⟨hiff, hind⟩ := holder_import H.wf H.esm hfo he her hnid
            obtain ⟨b, hb, hu⟩ := pointed_unique H.wf H.esm H.link hfo he her hnid
            refine ⟨nid, rfl, chain_extend hf hi hstar' htg hch hreach hind, ?_, b, hb, hu, hiff⟩
            intro l hl'
            refine mem_trackers (q := ⟨d.src, l, d.ref⟩) hfo ⟨nid, (findImport_mem hnid).1, (findImport_mem hnid).2⟩ ?_
            rcases hl' with rfl | rfl
            · exact Or.inl rfl
            · exact Or.inr ⟨e, (entry_some he).1, hel⟩
        -- the potentially ambiguous ones
        have hone : ∀ d ∈ ex.ambs, ∃ r,
            (match isImport t d.src d.ref with
              | none => none
              | some true => matchLoop ⟨t, rs, k⟩ fuel ⟨d.src, 0, d.ref⟩ (cd ++ [tr]) {} []
              | some false => some { kind := .normal, src := d.src, loc := d.loc, ref := d.ref }) = some r ∧
            HolderVal t ni.alias d r := by
          intro d hd
          obtain ⟨fo, hfo, hcase⟩ := holderCase d (hhold d (by simp [hd]))
          rw [isImport_eq hfo]
          rcases hcase with ⟨hnid, hv⟩ | ⟨nid, hnid, hchain, htrk, b, hb, hu, hiff⟩
          · simp only [hnid, Option.isSome_none]
            exact ⟨_, rfl, hv⟩
          · simp only [hnid, Option.isSome_some]
            obtain ⟨R, hR, hout⟩ := ih ⟨d.src, 0, d.ref⟩ (cd ++ [tr]) {} [] fo nid hfo hnid (htrk 0 (Or.inl rfl))
              hn1 hs1 hfuel1 hchain
            obtain ⟨R0, hR0, hRR⟩ := hout.unique hb hu
            rw [finish_all_eq _ [] (by simp)] at hRR
            subst hRR
            exact ⟨R, hR, b, (hiff b).2 hb, fun b' hb' => hu b' ((hiff b').1 hb'), hR0⟩
        obtain ⟨rs1, hrs1, hback, hforth⟩ := mapOpt_rel _ (HolderVal t ni.alias) ex.ambs hone
        generalize hG : mapOpt _ ex.ambs = g
        have hg : g = some rs1 := by rw [← hG]; exact hrs1
        subst hg
        simp only
        -- the main one
        obtain ⟨fo, hfo, hcase⟩ := holderCase ⟨ex.src, ex.ref, ex.loc⟩ (hhold _ (by simp))
        rw [isImport_eq (s := ex.src) (r := ex.ref) hfo]
        have hmain : ∃ R b0 R0, Reaches (toSpec t) (ex.src, ni.alias) b0 ∧
            (∀ b', Reaches (toSpec t) (ex.src, ni.alias) b' → b' = b0) ∧ noLoc R0 = normalOf t b0 ∧
            R = finish R0 (ambs ++ rs1) ∧
            (match some (findImport fo ex.ref).isSome with
              | none => none
              | some true => matchLoop ⟨t, rs, k⟩ fuel ⟨ex.src, ex.loc, ex.ref⟩ (cd ++ [tr])
                  { kind := .normal, src := ex.src, loc := ex.loc, ref := ex.ref } (ambs ++ rs1)
              | some false => some (finish { kind := .normal, src := ex.src, loc := ex.loc, ref := ex.ref } (ambs ++ rs1)))
              = some R := by
          rcases hcase with ⟨hnid, b0, hb0, hu0, hv⟩ | ⟨nid, hnid, hchain, htrk, b, hb, hu, hiff⟩
          · simp only [hnid, Option.isSome_none]
            exact ⟨_, b0, _, hb0, hu0, hv, rfl, rfl⟩
          · simp only [hnid, Option.isSome_some]
            obtain ⟨R, hR, hout⟩ := ih ⟨ex.src, ex.loc, ex.ref⟩ (cd ++ [tr])
              { kind := .normal, src := ex.src, loc := ex.loc, ref := ex.ref } (ambs ++ rs1) fo nid hfo hnid
              (htrk ex.loc (Or.inr rfl)) hn1 hs1 hfuel1 hchain
            obtain ⟨R0, hR0, hRR⟩ := hout.unique hb hu
            exact ⟨R, b, R0, (hiff b).2 hb, fun b' hb' => hu b' ((hiff b').1 hb'), hR0, hRR, hR⟩
        obtain ⟨R, b0, R0, hb0, hu0, hR0, hReq, hRcomp⟩ := hmain
        refine ⟨R, hRcomp, Or.inr ⟨b0, R0, rs1, ?_, hR0, ?_, ?_, hReq⟩⟩
        · rw [hpointed]
          obtain ⟨z, hz, htz⟩ := hb0
          exact ⟨z, (hhold ⟨ex.src, ex.ref, ex.loc⟩ (by simp)).2.trans hz, htz⟩
        · intro r hr
          obtain ⟨d, hd, b, hb, _, hrb⟩ := hback r hr
          refine ⟨b, ?_, hrb⟩
          rw [hpointed]
          obtain ⟨z, hz, htz⟩ := hb
          exact ⟨z, (hhold d (by simp [hd])).2.trans hz, htz⟩
        · intro b hb
          obtain ⟨d, hd, hdb⟩ := hcover b ((hpointed b).1 hb)
          rcases List.mem_cons.1 hd with rfl | hd
          · exact Or.inl (hu0 b hdb)
          · obtain ⟨r, hr, b', _, hu', hrb⟩ := hforth d hd
            rw [hu' b hdb]
            exact Or.inr ⟨r, hr, hrb⟩

end EsbuildModel.ExportMatch
