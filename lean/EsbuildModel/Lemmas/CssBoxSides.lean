import EsbuildModel.Lemmas.CssBoxSide3
/-
`mangleSides`: the equation that exposes its effect, and what the unit-safety tracker of a whole shorthand value says
about its tokens.
-/
namespace EsbuildModel.CssBox
open EsbuildModel.Spec.BoxCascade

def incSafety (allowAuto : Bool) (u : Safety) (t : Token) : Safety :=
  if (!allowAuto || t.kind.isNumeric) = true then u.includeUnitOf t else u

/-- "Use a single tracker for the whole rule" -/
def quadSafety (allowAuto : Bool) (q : Token × Token × Token × Token) : Safety :=
  incSafety allowAuto (incSafety allowAuto (incSafety allowAuto (incSafety allowAuto {} q.1) q.2.1) q.2.2.1) q.2.2.2

def quadSide (U : Safety) (n : Nat) (t : Token) : BoxSide :=
  { token := if U.status = .safe then t.turn.1 else t, ruleIndex := n, unitSafety := U }

/-- the removal done by one `updateSide` of a shorthand -/
def rmOld (old : BoxSide) (U : Safety) (R : List (Option CssBox.Decl)) : List (Option CssBox.Decl) :=
  if old.present = true ∧ old.unitSafety.status = .safe ∧ U.status = .safe then R.set old.ruleIndex none else R

theorem rmOld_length (old : BoxSide) (U : Safety) (R : List (Option CssBox.Decl)) : (rmOld old U R).length = R.length := by
  unfold rmOld; split <;> simp

theorem updateSide_shorthand (box : Tracker) (R : List (Option CssBox.Decl)) (side : Side) (U : Safety) (n : Nat) (t : Token)
    (hlt : (box.sides.get side).present = true → (box.sides.get side).ruleIndex < R.length) :
    updateSide box { rules := R, panic := false } side (quadSide U n t) =
      ({ box with sides := box.sides.put side (quadSide U n t) },
       { rules := rmOld (box.sides.get side) U R, panic := false }) := by
  unfold CssBox.updateSide rmOld
  dsimp only
  have hiff : ((box.sides.get side).token.kind != Kind.eof && (!(quadSide U n t).wasSingleRule || (box.sides.get side).wasSingleRule) &&
        (box.sides.get side).unitSafety.status == Status.safe && (quadSide U n t).unitSafety.status == Status.safe) = true ↔
      ((box.sides.get side).present = true ∧ (box.sides.get side).unitSafety.status = .safe ∧ U.status = .safe) := by
    simp [BoxSide.present, quadSide, and_assoc]
  by_cases hc : (box.sides.get side).present = true ∧ (box.sides.get side).unitSafety.status = .safe ∧ U.status = .safe
  · rw [if_pos (hiff.mpr hc), if_pos hc]
    simp [RS.setAt, hlt hc.1]
  · rw [if_neg (fun h => hc (hiff.mp h)), if_neg hc]

theorem mangleSides_accepted (box : Tracker) (rules : List (Option CssBox.Decl)) (d : CssBox.Decl) (mw : Bool)
    (q : Token × Token × Token × Token)
    (hq : expandTokenQuad d.value (if (syncImportant box d).allowAuto = true then b "auto" else []) = some q)
    (hlt : ∀ s, ((syncImportant box d).sides.get s).present = true → ((syncImportant box d).sides.get s).ruleIndex < rules.length + 1) :
    mangleSides box { rules := rules ++ [some d], panic := false } d mw =
      compactRules
        { syncImportant box d with
          sides := { top := quadSide (quadSafety (syncImportant box d).allowAuto q) rules.length q.1,
                     right := quadSide (quadSafety (syncImportant box d).allowAuto q) rules.length q.2.1,
                     bottom := quadSide (quadSafety (syncImportant box d).allowAuto q) rules.length q.2.2.1,
                     left := quadSide (quadSafety (syncImportant box d).allowAuto q) rules.length q.2.2.2 } }
        { rules := rmOld ((syncImportant box d).sides.left) (quadSafety (syncImportant box d).allowAuto q)
            (rmOld ((syncImportant box d).sides.bottom) (quadSafety (syncImportant box d).allowAuto q)
              (rmOld ((syncImportant box d).sides.right) (quadSafety (syncImportant box d).allowAuto q)
                (rmOld ((syncImportant box d).sides.top) (quadSafety (syncImportant box d).allowAuto q) (rules ++ [some d])))),
          panic := false } mw := by
  unfold CssBox.mangleSides
  simp only [hq]
  generalize syncImportant box d = box1 at *
  obtain ⟨t0, t1, t2, t3⟩ := q
  have hU : (if (!box1.allowAuto || t3.kind.isNumeric) = true then
        (if (!box1.allowAuto || t2.kind.isNumeric) = true then
          (if (!box1.allowAuto || t1.kind.isNumeric) = true then
            (if (!box1.allowAuto || t0.kind.isNumeric) = true then ({} : Safety).includeUnitOf t0 else {}).includeUnitOf t1
           else (if (!box1.allowAuto || t0.kind.isNumeric) = true then ({} : Safety).includeUnitOf t0 else {})).includeUnitOf t2
         else (if (!box1.allowAuto || t1.kind.isNumeric) = true then
            (if (!box1.allowAuto || t0.kind.isNumeric) = true then ({} : Safety).includeUnitOf t0 else {}).includeUnitOf t1
           else (if (!box1.allowAuto || t0.kind.isNumeric) = true then ({} : Safety).includeUnitOf t0 else {}))).includeUnitOf t3
       else (if (!box1.allowAuto || t2.kind.isNumeric) = true then
          (if (!box1.allowAuto || t1.kind.isNumeric) = true then
            (if (!box1.allowAuto || t0.kind.isNumeric) = true then ({} : Safety).includeUnitOf t0 else {}).includeUnitOf t1
           else (if (!box1.allowAuto || t0.kind.isNumeric) = true then ({} : Safety).includeUnitOf t0 else {})).includeUnitOf t2
         else (if (!box1.allowAuto || t1.kind.isNumeric) = true then
            (if (!box1.allowAuto || t0.kind.isNumeric) = true then ({} : Safety).includeUnitOf t0 else {}).includeUnitOf t1
           else (if (!box1.allowAuto || t0.kind.isNumeric) = true then ({} : Safety).includeUnitOf t0 else {})))) =
      quadSafety box1.allowAuto (t0, t1, t2, t3) := rfl
  rw [hU]
  generalize quadSafety box1.allowAuto (t0, t1, t2, t3) = U
  have hmk : ∀ t : Token, ({ token := (if (U.status == Status.safe) = true then t.turn.1 else t), ruleIndex := (rules ++ [some d]).length - 1, unitSafety := U } : BoxSide) = quadSide U rules.length t := by
    intro t
    have : (rules ++ [some d]).length - 1 = rules.length := by simp
    rw [this]
    unfold quadSide
    by_cases hs : U.status = .safe <;> simp [hs]
  simp only [hmk]
  have l0 : (rules ++ [some d]).length = rules.length + 1 := by simp
  have g1 : ∀ s s' v, s' ≠ s → ((box1.sides.put s v).get s') = box1.sides.get s' := fun s s' v h => Sides.get_put_ne _ _ _ _ h
  rw [updateSide_shorthand box1 _ .top U _ t0 (fun hp => by rw [l0]; exact hlt _ hp)]
  simp only
  rw [updateSide_shorthand _ _ .right U _ t1 (fun hp => by
    rw [rmOld_length, l0]; exact hlt .right (by simpa [Sides.get, Sides.put] using hp))]
  simp only
  rw [updateSide_shorthand _ _ .bottom U _ t2 (fun hp => by
    rw [rmOld_length, rmOld_length, l0]; exact hlt .bottom (by simpa [Sides.get, Sides.put] using hp))]
  simp only
  rw [updateSide_shorthand _ _ .left U _ t3 (fun hp => by
    rw [rmOld_length, rmOld_length, rmOld_length, l0]; exact hlt .left (by simpa [Sides.get, Sides.put] using hp))]
  simp only [Sides.get, Sides.put]

end EsbuildModel.CssBox
