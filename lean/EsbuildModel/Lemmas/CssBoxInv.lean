import EsbuildModel.Lemmas.CssBoxSem
/-
The invariant that ties the tracker of family `F` to the rule list (`TInv`), stated semantically (through the
contributions `cAt` of the slots to the cascade), and its preservation by `compactRules`.
-/
namespace EsbuildModel.CssBox
open EsbuildModel.Spec.BoxCascade

section
variable {V : Type} (B : Browser Tok V) (F : Family) (ds : List CssBox.Decl)

/-- slot `i` was created for an input declaration that tracker `f` looks at -/
def Own (f : Family) (i : Nat) : Prop := ∃ d, ds[i]? = some d ∧ Tracked f d.key

/-- `v` is a possible validity of a declaration whose unit-safety tracker ended in `U` -/
def ClassOK (U : Safety) (v : Bool) : Prop :=
  (U.status = .safe → v = true) ∧ (U.status = .unsafeSingle → ∀ t, UDim U.unit t → okT B t = v)

structure TInv (box : Tracker) (rules : List (Option CssBox.Decl)) : Prop where
  kt : box.keyText = famName F
  aa : box.allowAuto = famAllowAuto F
  pres : ∀ s, (box.sides.get s).present = true →
    (box.sides.get s).ruleIndex < rules.length ∧ Own ds F (box.sides.get s).ruleIndex ∧
      TrackerAccepts F (box.sides.get s).token
  /-- nothing after the slot a side points to contributes to that side -/
  latest : ∀ s, (box.sides.get s).present = true → ∀ i, (box.sides.get s).ruleIndex < i →
    ∀ imp, cAt B F rules s imp i = none
  /-- the slot a side points to contributes exactly the tracked token, if it is valid at all -/
  value : ∀ s, (box.sides.get s).present = true → ∃ v : Bool, ClassOK B (box.sides.get s).unitSafety v ∧
    (∀ imp, cAt B F rules s imp (box.sides.get s).ruleIndex =
      if box.important = imp ∧ v = true then some (.known (B.den (box.sides.get s).token.core)) else none) ∧
    (∀ s' imp, cAt B F rules s' imp (box.sides.get s).ruleIndex ≠ none → v = true ∧ box.important = imp)
  single : ∀ s, (box.sides.get s).present = true → (box.sides.get s).wasSingleRule = true →
    ∀ s' imp, s' ≠ s → cAt B F rules s' imp (box.sides.get s).ruleIndex = none
  tokclass : ∀ s, (box.sides.get s).present = true →
    ((box.sides.get s).unitSafety.status = .safe → okT B (box.sides.get s).token = true) ∧
    ((box.sides.get s).unitSafety.status = .unsafeSingle →
      okT B (box.sides.get s).token = true ∨ UDim (box.sides.get s).unitSafety.unit (box.sides.get s).token)
  witness : ∀ s, (box.sides.get s).present = true → (box.sides.get s).unitSafety.status = .unsafeSingle →
    ∃ s', (box.sides.get s').present = false ∨
      ¬((box.sides.get s').unitSafety.status = .unsafeSingle ∧
          (box.sides.get s').unitSafety.unit = (box.sides.get s).unitSafety.unit) ∨
      UDim (box.sides.get s).unitSafety.unit (box.sides.get s').token

theorem isSafeWith_spec (a c : Safety) (h : a.isSafeWith c = true) :
    a.status = c.status ∧ a.status ≠ .unsafeMixed ∧ (a.status = .unsafeSingle → a.unit = c.unit) := by
  simp only [Safety.isSafeWith, Bool.and_eq_true, Bool.or_eq_true, beq_iff_eq, bne_iff_ne, ne_eq] at h
  refine ⟨h.1.1, h.1.2, fun hs => ?_⟩
  rcases h.2 with h' | h'
  · exact absurd hs h'
  · exact h'

theorem TInv.empty (box : Tracker) (rules : List (Option CssBox.Decl)) (hkt : box.keyText = famName F)
    (haa : box.allowAuto = famAllowAuto F) (imp : Bool) :
    TInv B F ds { box with sides := {}, important := imp } rules :=
  ⟨hkt, haa, fun s h => by simp at h, fun s h => by simp at h, fun s h => by simp at h, fun s h => by simp at h,
    fun s h => by simp at h, fun s h => by simp at h⟩

/-- the invariant only looks at the contributions of the slots -/
theorem TInv.congr {box : Tracker} {rules rules' : List (Option CssBox.Decl)} (h : TInv B F ds box rules)
    (hlen : rules.length ≤ rules'.length)
    (hc : ∀ i s imp, i < rules.length → cAt B F rules' s imp i = cAt B F rules s imp i)
    (hnew : ∀ i s imp, rules.length ≤ i → cAt B F rules' s imp i = none) : TInv B F ds box rules' := by
  have hc' : ∀ i s imp, cAt B F rules' s imp i = cAt B F rules s imp i := by
    intro i s imp
    by_cases hi : i < rules.length
    · exact hc i s imp hi
    · rw [hnew i s imp (Nat.le_of_not_lt hi), cAt_ge B F rules s imp i (Nat.le_of_not_lt hi)]
  refine ⟨h.kt, h.aa, ?_, ?_, ?_, ?_, h.tokclass, h.witness⟩
  · intro s hs; obtain ⟨a, c, d⟩ := h.pres s hs; exact ⟨by omega, c, d⟩
  · intro s hs i hi imp; rw [hc']; exact h.latest s hs i hi imp
  · intro s hs
    obtain ⟨v, h1, h2, h3⟩ := h.value s hs
    refine ⟨v, h1, ?_, ?_⟩
    · intro imp; rw [hc']; exact h2 imp
    · intro s' imp; rw [hc']; exact h3 s' imp
  · intro s hs h1 s' imp hne; rw [hc']; exact h.single s hs h1 s' imp hne


/-! ### `compactRules` -/

/-- the rule list after a merge -/
def compactList (box : Tracker) (rules : List (Option CssBox.Decl)) (mw : Bool) : List (Option CssBox.Decl) :=
  ((((rules.set box.sides.top.ruleIndex none).set box.sides.right.ruleIndex none).set box.sides.bottom.ruleIndex none).set
    box.sides.left.ruleIndex none).set box.lastIdx (some (box.merged mw))

theorem compactRules_list (box : Tracker) (rules : List (Option CssBox.Decl)) (mw : Bool)
    (hlt : ∀ s, (box.sides.get s).present = true → (box.sides.get s).ruleIndex < rules.length) :
    compactRules box { rules := rules, panic := false } mw =
      if box.fires = true then (box.afterMerge, { rules := compactList box rules mw, panic := false })
      else (box, { rules := rules, panic := false }) := by
  rw [compactRules_eq]
  split
  · rename_i hf
    have hp := box.fires_present hf
    have a := hlt .top (hp _)
    have b' := hlt .right (hp _)
    have c := hlt .bottom (hp _)
    have e := hlt .left (hp _)
    simp only [Sides.get] at a b' c e
    have hl : box.lastIdx < rules.length := by
      rcases box.lastIdx_mem with h | h | h | h <;> rw [h] <;> assumption
    simp [RS.setAt, a, b', c, e, hl, compactList]
  · rfl

theorem compactList_length (box : Tracker) (rules : List (Option CssBox.Decl)) (mw : Bool) :
    (compactList box rules mw).length = rules.length := by simp [compactList]

def Tracker.pointsAt (box : Tracker) (j : Nat) : Prop :=
  box.sides.top.ruleIndex = j ∨ box.sides.right.ruleIndex = j ∨ box.sides.bottom.ruleIndex = j ∨ box.sides.left.ruleIndex = j

instance (box : Tracker) (j : Nat) : Decidable (box.pointsAt j) := by unfold Tracker.pointsAt; exact inferInstance

theorem Tracker.pointsAt_iff (box : Tracker) (j : Nat) : box.pointsAt j ↔ ∃ s, (box.sides.get s).ruleIndex = j := by
  unfold Tracker.pointsAt
  constructor
  · rintro (h | h | h | h)
    · exact ⟨.top, h⟩
    · exact ⟨.right, h⟩
    · exact ⟨.bottom, h⟩
    · exact ⟨.left, h⟩
  · rintro ⟨s, h⟩; cases s <;> simp only [Sides.get] at h <;> simp [h]

theorem cAt_compactList (box : Tracker) (rules : List (Option CssBox.Decl)) (mw : Bool)
    (hl : box.lastIdx < rules.length) (s : Side) (imp : Bool) (j : Nat) :
    cAt B F (compactList box rules mw) s imp j =
      if j = box.lastIdx then cD B F s imp (box.merged mw)
      else if box.pointsAt j then none
      else cAt B F rules s imp j := by
  unfold compactList
  simp only [cAt_set, List.length_set, cR]
  by_cases h0 : j = box.lastIdx
  · simp [h0, hl]
  · have h0' : ¬(box.lastIdx = j) := fun h => h0 h.symm
    simp only [h0, h0', false_and, if_false]
    by_cases h1 : box.pointsAt j
    · simp only [h1, if_true]
      obtain ⟨s', hs'⟩ := (box.pointsAt_iff j).mp h1
      have hj : j < rules.length := by
        have := box.lastIdx_ge s'; omega
      unfold Tracker.pointsAt at h1
      by_cases e4 : box.sides.left.ruleIndex = j
      · simp [e4, hj]
      · by_cases e3 : box.sides.bottom.ruleIndex = j
        · simp [e4, e3, hj]
        · by_cases e2 : box.sides.right.ruleIndex = j
          · simp [e4, e3, e2, hj]
          · have e1 : box.sides.top.ruleIndex = j := by
              rcases h1 with h | h | h | h
              · exact h
              · exact absurd h e2
              · exact absurd h e3
              · exact absurd h e4
            simp [e4, e3, e2, e1, hj]
    · simp only [h1, if_false]
      unfold Tracker.pointsAt at h1
      have e1 : ¬(box.sides.top.ruleIndex = j) := fun h => h1 (Or.inl h)
      have e2 : ¬(box.sides.right.ruleIndex = j) := fun h => h1 (Or.inr (Or.inl h))
      have e3 : ¬(box.sides.bottom.ruleIndex = j) := fun h => h1 (Or.inr (Or.inr (Or.inl h)))
      have e4 : ¬(box.sides.left.ruleIndex = j) := fun h => h1 (Or.inr (Or.inr (Or.inr h)))
      simp [e1, e2, e3, e4]

end
end EsbuildModel.CssBox
