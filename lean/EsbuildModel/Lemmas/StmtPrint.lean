/-
Helper lemmas for Props/C13Stmt.lean: the first token of what `StmtPrint.printE` prints at a statement start, after
`export default`, and at the start of a for-initialiser.
-/
import EsbuildModel.Impl.StmtPrint
import EsbuildModel.Lemmas.PrecTable

namespace EsbuildModel.StmtPrint
open EsbuildModel.JsExpr EsbuildModel.PrecPrint EsbuildModel.JsStmt

variable {m : Bool}

/-- the first token is not an atom that the start marker forbids -/
def headOk (st : Start) : List Tok → Bool
  | .ident n :: _ =>
    (!st.stmt || !(n == 2 || n == 3 || n == 4 || n == 5)) && (!st.exportDefault || !(n == 3 || n == 4 || n == 5)) &&
      (!st.forInit || n != 0)
  | _ => true

theorem headOk_append (st : Start) (ts more : List Tok) (h : ts ≠ []) (hk : headOk st ts = true) :
    headOk st (ts ++ more) = true := by
  cases ts with
  | nil => contradiction
  | cons a r => cases a <;> simpa [headOk] using hk

theorem headOk_paren_true (st : Start) (ts : List Tok) : headOk st (paren true ts) = true := by simp [paren, headOk]

theorem headOk_ofText (st : Start) (s : String) (r : List Tok) : headOk st (Tok.ofText s :: r) = true := by
  unfold Tok.ofText; split <;> simp [headOk]

theorem paren_ne_nil (w : Bool) (ts : List Tok) (h : ts ≠ []) : paren w ts ≠ [] := by
  cases w <;> simp [paren, h]

theorem printE_ne_nil (e : Expr) (L : Nat) (fi nt : Bool) (st : Start) (o : Bool) : printE m e L fi nt st o ≠ [] := by
  cases e <;> simp only [printE]
  case ident n => exact paren_ne_nil _ _ (by simp)
  case num n => simp
  case unary op v => exact paren_ne_nil _ _ (by split <;> simp)
  case binary op l r =>
    cases binaryLevels op l r L fi with
    | mk w0 lv => cases lv with | mk ll rl => exact paren_ne_nil _ _ (by simp)
  case cond t y n => exact paren_ne_nil _ _ (by simp)
  case dot e name => simp
  case index e i => simp
  case call f as => exact paren_ne_nil _ _ (by simp)
  case new f as => exact paren_ne_nil _ _ (by simp)

theorem headOk_wrap (st : Start) (w : Bool) (ts more : List Tok) (hne : ts ≠ [])
    (h : w = false → headOk st ts = true) : headOk st (paren w (ts ++ more)) = true := by
  cases w with
  | true => exact headOk_paren_true _ _
  | false => simpa [paren] using headOk_append st ts more hne (h rfl)

theorem after_false (st : Start) : st.after false = st := by simp [Start.after]

theorem headOk_leaf (n : Nat) (st : Start) (o : Bool) : headOk st (paren (leafWrap n st o) [.ident n]) = true := by
  obtain ⟨a, b, c⟩ := st
  match n with
  | 0 | 1 | 2 | 3 | 4 | 5 => cases a <;> cases b <;> cases c <;> cases o <;> rfl
  | n + 6 => cases a <;> cases b <;> cases c <;> simp [leafWrap, paren, headOk, aObj, aFn, aCls, aAsyncFn, aLet, aAsync]

/-- whatever the level and flags: the printed expression never starts with an atom its start marker forbids -/
theorem printE_headOk : (e : Expr) → (L : Nat) → (fi nt : Bool) → (st : Start) → (o : Bool) →
    headOk st (printE m e L fi nt st o) = true
  | .ident n, L, fi, nt, st, o => by simp only [printE]; exact headOk_leaf n st o
  | .num n, L, fi, nt, st, o => by simp [printE, headOk]
  | .unary op v, L, fi, nt, st, o => by
    simp only [printE]
    cases hp : isPrefix (unEntry op).code with
    | true =>
      simp only [if_true]
      cases decide (L ≥ (unEntry op).level) with
      | true => exact headOk_paren_true _ _
      | false => simpa [paren] using headOk_ofText st _ _
    | false =>
      simp only [Bool.false_eq_true, if_false]
      refine headOk_wrap st _ _ _ (printE_ne_nil _ _ _ _ _ _) (fun hw => ?_)
      rw [hw, after_false]; exact printE_headOk v _ _ _ st false
  | .binary op l r, L, fi, nt, st, o => by
    simp only [printE]
    cases hb : binaryLevels op l r L fi with
    | mk w0 lv =>
      cases lv with
      | mk ll rl =>
        simp only []
        refine headOk_wrap st _ _ _ (printE_ne_nil _ _ _ _ _ _) (fun hw => ?_)
        rw [hw, after_false]; exact printE_headOk l _ _ _ st false
  | .cond t y n, L, fi, nt, st, o => by
    simp only [printE]
    refine headOk_wrap st _ _ _ (printE_ne_nil _ _ _ _ _ _) (fun hw => ?_)
    rw [hw, after_false]; exact printE_headOk t _ _ _ st false
  | .dot e name, L, fi, nt, st, o => by
    simp only [printE]
    exact headOk_append st _ _ (printE_ne_nil _ _ _ _ _ _) (printE_headOk e _ _ _ st false)
  | .index e i, L, fi, nt, st, o => by
    simp only [printE]
    cases hw : (isLetIdent e && st.stmt) with
    | true => simp [paren, headOk]
    | false =>
      simp only [paren, Bool.false_eq_true, if_false, after_false]
      exact headOk_append st _ _ (printE_ne_nil _ _ _ _ _ _) (printE_headOk e _ _ _ st false)
  | .call f as, L, fi, nt, st, o => by
    simp only [printE]
    refine headOk_wrap st _ _ _ (printE_ne_nil _ _ _ _ _ _) (fun hw => ?_)
    rw [hw, after_false]; exact printE_headOk f _ _ _ st false
  | .new f as, L, fi, nt, st, o => by
    simp only [printE]
    cases decide (L ≥ lvl "LCall") <;> simp [paren, headOk]

/-! ### `let [` -/

/-- the token list starts with the identifier `let` followed by `[` -/
def letBracket : List Tok → Bool
  | a :: b :: _ => a == .ident 0 && b == .p .lbrack
  | _ => false

theorem letBracket_paren_true (ts : List Tok) : letBracket (paren true ts) = false := by
  cases ts <;> simp [paren, letBracket]

theorem letBracket_ofText (s : String) (r : List Tok) : letBracket (Tok.ofText s :: r) = false := by
  unfold Tok.ofText; cases r <;> split <;> simp [letBracket]

theorem letBracket_append (A : List Tok) (t : Tok) (B : List Tok) (hne : A ≠ []) (hA : letBracket A = false)
    (h1 : A = [.ident 0] → t ≠ .p .lbrack) : letBracket (A ++ t :: B) = false := by
  match A, hne with
  | [a], _ =>
    simp only [List.cons_append, List.nil_append, letBracket, Bool.and_eq_false_iff, beq_eq_false_iff_ne, ne_eq]
    by_cases ha : a = .ident 0
    · right; exact h1 (by rw [ha])
    · left; exact ha
  | a :: b :: A', _ => simpa [letBracket] using hA

theorem letBracket_wrap (w : Bool) (A : List Tok) (t : Tok) (B : List Tok) (hne : A ≠ [])
    (hA : w = false → letBracket A = false) (h1 : A = [.ident 0] → t ≠ .p .lbrack) :
    letBracket (paren w (A ++ t :: B)) = false := by
  cases w with
  | true => exact letBracket_paren_true _
  | false => simpa [paren] using letBracket_append A t B hne (hA rfl) h1

theorem paren_len (w : Bool) (ts : List Tok) : ts.length ≤ (paren w ts).length := by
  cases w <;> simp [paren] <;> omega

theorem len2_append (A : List Tok) (t : Tok) (B : List Tok) (h : A ≠ []) : 2 ≤ (A ++ t :: B).length := by
  cases A with
  | nil => contradiction
  | cons a A' => simp; omega

/-- only the identifier `let` itself is printed as the single token `let` -/
theorem single_let (e : Expr) (L : Nat) (fi nt : Bool) (st : Start) (o : Bool)
    (h : printE m e L fi nt st o = [.ident 0]) : isLetIdent e = true := by
  have hn := fun (v : Expr) L fi nt st o => printE_ne_nil (m := m) v L fi nt st o
  have key : ∀ (w : Bool) (X : List Tok), 2 ≤ X.length → paren w X ≠ [.ident 0] := by
    intro w X hX hc
    have := paren_len w X
    rw [hc] at this; simp at this; omega
  cases e <;> simp only [printE] at h
  case ident n =>
    cases hw : leafWrap n st o <;> rw [hw] at h <;> simp [paren] at h
    simp [isLetIdent, aLet, h]
  case num n => simp at h
  case unary op v =>
    refine absurd h (key _ _ ?_)
    split
    · have := hn v (lvl "LPrefix" - 1) false false .no false
      cases hx : printE m v (lvl "LPrefix" - 1) false false .no false with
      | nil => exact absurd hx this
      | cons a r => simp
    · exact len2_append _ _ _ (hn _ _ _ _ _ _)
  case binary op l r =>
    revert h
    cases binaryLevels op l r L fi with
    | mk w0 lv => cases lv with | mk ll rl => exact fun h => absurd h (key _ _ (len2_append _ _ _ (hn _ _ _ _ _ _)))
  case cond t y n => exact absurd h (key _ _ (len2_append _ _ _ (hn _ _ _ _ _ _)))
  case dot e name =>
    have := len2_append _ (.p .dot) [Tok.ident name] (hn e (lvl "LPostfix") false nt st false)
    rw [h] at this; simp at this
  case index e i =>
    have h2 := paren_len (isLetIdent e && st.stmt) (printE m e (lvl "LPostfix") false nt (st.after (isLetIdent e && st.stmt)) false)
    have h3 := congrArg List.length h
    have h4 := hn e (lvl "LPostfix") false nt (st.after (isLetIdent e && st.stmt)) false
    cases hx : printE m e (lvl "LPostfix") false nt (st.after (isLetIdent e && st.stmt)) false with
    | nil => exact absurd hx h4
    | cons a r => rw [hx] at h2; simp at h3 h2; omega
  case call f as => exact absurd h (key _ _ (len2_append _ _ _ (hn _ _ _ _ _ _)))
  case new f as =>
    refine absurd h (key _ _ ?_)
    have := hn f (lvl "LNew") false true .no false
    cases hx : printE m f (lvl "LNew") false true .no false with
    | nil => exact absurd hx this
    | cons a r => simp

theorem letBracket_head (a : Tok) (r : List Tok) (h : a ≠ .ident 0) : letBracket (a :: r) = false := by
  cases r <;> simp [letBracket, h]

theorem unTok_ne_lbrack (op : UnOp) : Tok.ofText (unEntry op).text ≠ .p .lbrack := by
  rw [unEntry_tok]; cases op <;> simp [UnOp.tok]

theorem binTok_ne_lbrack (op : BinOp) : Tok.ofText (binEntry op).text ≠ .p .lbrack := by
  rw [binEntry_tok]; cases op <;> simp [BinOp.tok]

/-- at a statement start the printed expression never begins with the two tokens `let` `[` -/
theorem printE_not_letBracket : (e : Expr) → (L : Nat) → (fi nt : Bool) → (st : Start) → (o : Bool) → st.stmt = true →
    letBracket (printE m e L fi nt st o) = false
  | .ident n, L, fi, nt, st, o, _ => by
    simp only [printE]; cases leafWrap n st o <;> simp [paren, letBracket]
  | .num n, L, fi, nt, st, o, _ => by simp [printE, letBracket]
  | .unary op v, L, fi, nt, st, o, hs => by
    simp only [printE]
    cases hp : isPrefix (unEntry op).code with
    | true =>
      simp only [if_true]
      cases decide (L ≥ (unEntry op).level) with
      | true => exact letBracket_paren_true _
      | false => simpa [paren] using letBracket_ofText _ _
    | false =>
      simp only [Bool.false_eq_true, if_false]
      refine letBracket_wrap _ _ _ _ (printE_ne_nil _ _ _ _ _ _) (fun hw => ?_) (fun _ => unTok_ne_lbrack op)
      rw [hw, after_false]; exact printE_not_letBracket v _ _ _ st false hs
  | .binary op l r, L, fi, nt, st, o, hs => by
    simp only [printE]
    cases hb : binaryLevels op l r L fi with
    | mk w0 lv =>
      cases lv with
      | mk ll rl =>
        simp only []
        refine letBracket_wrap _ _ _ _ (printE_ne_nil _ _ _ _ _ _) (fun hw => ?_) (fun _ => binTok_ne_lbrack op)
        rw [hw, after_false]; exact printE_not_letBracket l _ _ _ st false hs
  | .cond t y n, L, fi, nt, st, o, hs => by
    simp only [printE]
    refine letBracket_wrap _ _ _ _ (printE_ne_nil _ _ _ _ _ _) (fun hw => ?_) (fun _ => by simp)
    rw [hw, after_false]; exact printE_not_letBracket t _ _ _ st false hs
  | .dot e name, L, fi, nt, st, o, hs => by
    simp only [printE]
    exact letBracket_append _ _ _ (printE_ne_nil _ _ _ _ _ _) (printE_not_letBracket e _ _ _ st false hs) (fun _ => by simp)
  | .index e i, L, fi, nt, st, o, hs => by
    simp only [printE]
    cases hl : isLetIdent e with
    | true =>
      simp only [hs, Bool.and_self, paren, if_true, List.cons_append]
      exact letBracket_head _ _ (by simp)
    | false =>
      simp only [Bool.false_and, paren, Bool.false_eq_true, if_false, after_false]
      refine letBracket_append _ _ _ (printE_ne_nil _ _ _ _ _ _) (printE_not_letBracket e _ _ _ st false hs) (fun h1 => ?_)
      have := single_let e _ _ _ _ _ h1
      rw [hl] at this; exact absurd this (by simp)
  | .call f as, L, fi, nt, st, o, hs => by
    simp only [printE]
    refine letBracket_wrap _ _ _ _ (printE_ne_nil _ _ _ _ _ _) (fun hw => ?_) (fun _ => by simp)
    rw [hw, after_false]; exact printE_not_letBracket f _ _ _ st false hs
  | .new f as, L, fi, nt, st, o, _ => by
    simp only [printE]
    cases decide (L ≥ lvl "LCall") with
    | true => exact letBracket_paren_true _
    | false =>
      simp only [paren, Bool.false_eq_true, if_false]
      exact letBracket_head _ _ (by simp)

end EsbuildModel.StmtPrint
