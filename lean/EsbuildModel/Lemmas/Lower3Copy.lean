import EsbuildModel.Lemmas.Lower3Rec
/-!
The copy loops: `__spreadValues` against CopyDataProperties without exclusions, `__objRest` against
CopyDataProperties with exclusions, for a world that satisfies `Quiet`.
-/
namespace EsbuildModel.Lower3

/-- the source run left the model, or both runs are the same (whole state) -/
def RelH {α σ : Type} (a b : R α × σ) : Prop := Outside b.1 ∨ a = b

theorem outside_bindH {α β σ : Type} (r : R α × σ) (f : α → σ → R β × σ) (h : Outside r.1) : Outside (bindR r f).1 := by
  obtain ⟨a, s⟩ := r
  cases a with
  | ok v => exact absurd h (outside_ok v)
  | err x =>
    cases x with
    | outside z => trivial
    | typeError => exact h.elim
    | host v => exact h.elim
    | illFormed => exact h.elim

theorem RelH.bind {α β σ : Type} {a b : R α × σ} {F G : α → σ → R β × σ}
    (h : RelH a b) (hk : ∀ v s, RelH (F v s) (G v s)) : RelH (bindR a F) (bindR b G) := by
  cases h with
  | inl h => exact Or.inl (outside_bindH _ _ h)
  | inr h =>
    subst h
    obtain ⟨ra, sa⟩ := a
    cases ra with
    | ok v => exact hk v sa
    | err x => exact Or.inr rfl

theorem RelH.trans {α σ : Type} {a b c : R α × σ} (h1 : RelH a b) (h2 : RelH b c) : RelH a c := by
  cases h2 with
  | inl h => exact Or.inl h
  | inr h2 => subst h2; exact h1

theorem RelH.bind' {α β σ : Type} {a b : R α × σ} {F G : α → σ → R β × σ}
    (h : RelH a b) (hk : ∀ v s, a = (.ok v, s) → RelH (F v s) (G v s)) : RelH (bindR a F) (bindR b G) := by
  cases h with
  | inl h => exact Or.inl (outside_bindH _ _ h)
  | inr h =>
    subst h
    obtain ⟨ra, sa⟩ := a
    cases ra with
    | ok v => exact hk v sa rfl
    | err x => exact Or.inr rfl

theorem doEv_tr (w : World) (ev : Ev) (h : H) : (doEv w ev h).2.tr = h.tr ++ [ev] := by
  simp only [doEv]
  split <;> rfl

/-- every object of the world has the same keys with the same attributes after the two histories -/
def SameShape (w : World) (tr tr' : Trace) : Prop :=
  ∀ o, w.strKeys o tr' = w.strKeys o tr ∧ w.symKeys o tr' = w.symKeys o tr ∧ ∀ k, w.enumerable o k tr' = w.enumerable o k tr

theorem SameShape.refl (w : World) (tr : Trace) : SameShape w tr tr := fun _ => ⟨rfl, rfl, fun _ => rfl⟩

theorem SameShape.step {w : World} (hq : Quiet w) {tr tr' : Trace} (h : SameShape w tr tr') (o' : Nat) (k : Key) :
    SameShape w tr (tr' ++ [.get o' k]) := by
  intro o
  obtain ⟨q1, q2, q3⟩ := hq o tr' o' k
  obtain ⟨h1, h2, h3⟩ := h o
  exact ⟨q1.trans h1, q2.trans h2, fun key => (q3 key).trans (h3 key)⟩

theorem isOwn_shape {w : World} {tr tr' : Trace} (h : SameShape w tr tr') (o : Nat) (k : Key) :
    isOwn w o k tr' = isOwn w o k tr := by
  cases k with
  | str s => simp only [isOwn, (h o).1]
  | sym j => simp only [isOwn, (h o).2.1]

theorem ownEnum_shape {w : World} {tr tr' : Trace} (h : SameShape w tr tr') (o : Nat) (k : Key) :
    ownEnum w o k tr' = ownEnum w o k tr := by
  simp only [ownEnum, isOwn_shape h, (h o).2.2 k]

-- ---------------------------------------------------------------- copyWorld

theorem copyWorld_append (w : World) (o : Nat) (g : Key → Trace → Bool) (stop : Key → Option Hz)
    (put : Rec → Key → Val → Rec) (l1 l2 : List Key) (t : Rec) (h : H) :
    copyWorld w o g stop put (l1 ++ l2) t h =
      bindR (copyWorld w o g stop put l1 t h) fun t1 h1 => copyWorld w o g stop put l2 t1 h1 := by
  induction l1 generalizing t h with
  | nil => rfl
  | cons k r ih =>
    simp only [List.cons_append, copyWorld]
    split
    · split
      · rfl
      · rw [bindR_assoc]
        congr 1
        funext v h1
        exact ih _ _
    · exact ih _ _

/-- in a quiet world a guard that only looks at the shape of objects can be evaluated once, before the loop;
the shape is still the same after the loop -/
theorem copyWorld_quiet (w : World) (hq : Quiet w) (o : Nat) (g : Key → Trace → Bool) (stop : Key → Option Hz)
    (put : Rec → Key → Val → Rec) (hg : ∀ k tr tr', SameShape w tr tr' → g k tr' = g k tr) (tr0 : Trace) :
    ∀ (ks : List Key) (t : Rec) (h : H), SameShape w tr0 h.tr →
      copyWorld w o g stop put ks t h = copyWorld w o (fun k _ => g k tr0) stop put ks t h ∧
      SameShape w tr0 (copyWorld w o g stop put ks t h).2.tr := by
  intro ks
  induction ks with
  | nil => intro t h hs; exact ⟨rfl, hs⟩
  | cons k r ih =>
    intro t h hs
    simp only [copyWorld, hg k tr0 h.tr hs]
    split
    · split
      · exact ⟨rfl, hs⟩
      · have htr := doEv_tr w (.get o k) h
        rcases hd : doEv w (.get o k) h with ⟨rv, h1⟩
        rw [hd] at htr
        simp only at htr
        cases rv with
        | err x => exact ⟨rfl, htr ▸ SameShape.step hq hs o k⟩
        | ok v =>
          simp only [bindR_ok]
          exact ih _ h1 (htr ▸ SameShape.step hq hs o k)
    · exact ih t h hs

theorem copyWorld_filter (w : World) (o : Nat) (p : Key → Bool) (stop : Key → Option Hz)
    (put : Rec → Key → Val → Rec) (ks : List Key) (t : Rec) (h : H) :
    copyWorld w o (fun k _ => p k) stop put ks t h = copyWorld w o (fun _ _ => true) stop put (ks.filter p) t h := by
  induction ks generalizing t h with
  | nil => rfl
  | cons k r ih =>
    cases hp : p k with
    | true =>
      simp only [copyWorld, hp, List.filter_cons_of_pos, if_true]
      split
      · rfl
      · congr 1
        funext v h1
        exact ih _ _
    | false =>
      have : ¬ (p k = true) := by simp [hp]
      simp only [copyWorld, hp, List.filter_cons_of_neg this]
      exact ih _ _

/-- the run with a stop condition against the run without one, when `put` agrees on the keys that do not stop -/
theorem copyWorld_rel (w : World) (o : Nat) (g : Key → Trace → Bool) (stop : Key → Option Hz)
    (put1 put2 : Rec → Key → Val → Rec) (hp : ∀ k, stop k = none → ∀ t v, put2 t k v = put1 t k v)
    (ks : List Key) (t : Rec) (h : H) :
    RelH (copyWorld w o g (fun _ => none) put2 ks t h) (copyWorld w o g stop put1 ks t h) := by
  induction ks generalizing t h with
  | nil => exact Or.inr rfl
  | cons k r ih =>
    simp only [copyWorld]
    split
    · cases hs : stop k with
      | some z => exact Or.inl trivial
      | none =>
        simp only
        refine RelH.bind (Or.inr rfl) (fun v s => ?_)
        rw [hp k hs]
        exact ih _ _
    · exact ih _ _

-- ---------------------------------------------------------------- copyEntries

theorem copyEntries_append (w : World) (this : Val) (skip : Key → Bool) (stop : Key → Option Hz)
    (put : Rec → Key → Val → Rec) (l1 l2 : List (Key × Slot Val)) (t : Rec) (h : H) :
    copyEntries w this skip stop put (l1 ++ l2) t h =
      bindR (copyEntries w this skip stop put l1 t h) fun t1 h1 => copyEntries w this skip stop put l2 t1 h1 := by
  induction l1 generalizing t h with
  | nil => rfl
  | cons p r ih =>
    obtain ⟨k, sl⟩ := p
    simp only [List.cons_append, copyEntries]
    split
    · exact ih _ _
    · split
      · rfl
      · rw [bindR_assoc]
        congr 1
        funext v h1
        exact ih _ _

theorem copyEntries_rel (w : World) (this : Val) (skip1 skip2 : Key → Bool) (stop : Key → Option Hz)
    (put1 put2 : Rec → Key → Val → Rec) (hs : ∀ k, skip2 k = skip1 k)
    (hp : ∀ k, stop k = none → ∀ t v, put2 t k v = put1 t k v)
    (l : List (Key × Slot Val)) (t : Rec) (h : H) :
    RelH (copyEntries w this skip2 (fun _ => none) put2 l t h) (copyEntries w this skip1 stop put1 l t h) := by
  induction l generalizing t h with
  | nil => exact Or.inr rfl
  | cons p r ih =>
    obtain ⟨k, sl⟩ := p
    simp only [copyEntries, hs k]
    split
    · exact ih _ _
    · cases hst : stop k with
      | some z => exact Or.inl trivial
      | none =>
        simp only
        refine RelH.bind (Or.inr rfl) (fun v s => ?_)
        rw [hp k hst]
        exact ih _ _

end EsbuildModel.Lower3
