import EsbuildModel.Lemmas.ChunkNamesMinify
/-!
AccumulateSymbolCount calls commute: the slot tables after a sequence of calls do not depend on the order of the
calls, and the deferred top-level array only up to a permutation (helper lemmas for `rename_deterministic`).
-/
namespace EsbuildModel.ChunkNames

/-- what one AccumulateSymbolCount call does, which does not depend on the state -/
inductive Act where
  | fail
  | skip
  | bump (ns i cnt : Nat) (jsx : Bool)
  | push (p : Nat × Nat)

def actOf (syms : List CSym) (e : Nat × Nat) : Act :=
  match follow syms (syms.length + 1) e.1 with
  | none => .fail
  | some r0 =>
    match resolveAlias syms (syms.length + 1) (syms.length + 1) r0 with
    | none => .fail
    | some r =>
      match syms[r]? with
      | none => .fail
      | some sym =>
        if sym.ns = 4 then .skip
        else
          match sym.slot with
          | some i => .bump sym.ns i e.2 sym.jsx
          | none => .push (r, e.2)

def bumpTab (tab : SlotTab) (ns i cnt : Nat) (jsx : Bool) : Option SlotTab :=
  match tab[ns]? with
  | none => none
  | some sl =>
    match addCount sl i cnt jsx with
    | none => none
    | some sl' => some (tab.set ns sl')

def applyAct (st : SlotTab × TopArr) : Act → Option (SlotTab × TopArr)
  | .fail => none
  | .skip => some st
  | .bump ns i cnt jsx => (bumpTab st.1 ns i cnt jsx).map (fun t => (t, st.2))
  | .push p => some (st.1, st.2 ++ [p])

theorem accumulate_eq (syms : List CSym) (st : SlotTab × TopArr) (e : Nat × Nat) :
    accumulate syms st e = applyAct st (actOf syms e) := by
  unfold accumulate actOf
  cases follow syms (syms.length + 1) e.1 with
  | none => rfl
  | some r0 =>
    simp only []
    cases resolveAlias syms (syms.length + 1) (syms.length + 1) r0 with
    | none => rfl
    | some r =>
      simp only []
      cases syms[r]? with
      | none => rfl
      | some sym =>
        simp only []
        by_cases h4 : sym.ns = 4
        · simp [h4, applyAct]
        · simp only [h4, if_false]
          cases sym.slot with
          | none => rfl
          | some i =>
            simp only [applyAct, bumpTab]
            cases st.1[sym.ns]? with
            | none => rfl
            | some sl =>
              simp only []
              cases addCount sl i e.2 sym.jsx <;> rfl

def applyActs : SlotTab × TopArr → List Act → Option (SlotTab × TopArr)
  | st, [] => some st
  | st, a :: as =>
    match applyAct st a with
    | none => none
    | some st' => applyActs st' as

theorem accumulateAll_eq (syms : List CSym) : ∀ (es : List (Nat × Nat)) (st : SlotTab × TopArr),
    accumulateAll syms st es = applyActs st (es.map (actOf syms))
  | [], st => rfl
  | e :: es, st => by
    simp only [accumulateAll, List.map_cons, applyActs, accumulate_eq]
    cases applyAct st (actOf syms e) with
    | none => rfl
    | some st' => exact accumulateAll_eq syms es st'

theorem bumpTab_some {tab t : SlotTab} {ns i cnt : Nat} {jsx : Bool} :
    bumpTab tab ns i cnt jsx = some t ↔
      ∃ sl s, tab[ns]? = some sl ∧ sl[i]? = some s ∧ t = tab.set ns (sl.set i ⟨s.count + cnt, s.capital || jsx⟩) := by
  unfold bumpTab addCount
  constructor
  · intro h
    split at h
    · cases h
    · next sl hsl =>
      split at h
      · cases h
      · next sl' hsl' =>
        split at hsl'
        · cases hsl'
        · next s hs =>
          simp only [Option.some.injEq] at hsl' h
          exact ⟨sl, s, hsl, hs, by rw [← h, ← hsl']⟩
  · rintro ⟨sl, s, hsl, hs, rfl⟩
    simp [hsl, hs]

theorem getElem?_set_self' {α : Type} {l : List α} {k : Nat} {x y : α} (h : l[k]? = some x) : (l.set k y)[k]? = some y := by
  have hlt : k < l.length := by
    rcases Nat.lt_or_ge k l.length with h' | h'
    · exact h'
    · rw [List.getElem?_eq_none h'] at h; cases h
  simp [hlt]

/-- one direction of the commutation of two counter updates -/
theorem bumpTab_swap_some {tab t : SlotTab} {n1 i1 c1 n2 i2 c2 : Nat} {j1 j2 : Bool}
    (h : (bumpTab tab n1 i1 c1 j1).bind (fun t1 => bumpTab t1 n2 i2 c2 j2) = some t) :
    (bumpTab tab n2 i2 c2 j2).bind (fun t1 => bumpTab t1 n1 i1 c1 j1) = some t := by
  simp only [Option.bind_eq_some_iff] at h ⊢
  obtain ⟨t1, h1, h2⟩ := h
  obtain ⟨sl1, s1, a1, a2, rfl⟩ := bumpTab_some.mp h1
  obtain ⟨sl2, s2, b1, b2, rfl⟩ := bumpTab_some.mp h2
  by_cases hn : n1 = n2
  · subst hn
    rw [getElem?_set_self' a1] at b1
    simp only [Option.some.injEq] at b1
    subst b1
    by_cases hi : i1 = i2
    · subst hi
      rw [getElem?_set_self' a2] at b2
      simp only [Option.some.injEq] at b2
      subst b2
      refine ⟨_, bumpTab_some.mpr ⟨sl1, s1, a1, a2, rfl⟩, bumpTab_some.mpr ⟨_, _, getElem?_set_self' a1, getElem?_set_self' a2, ?_⟩⟩
      simp only [List.set_set]
      rw [Nat.add_right_comm s1.count c1 c2, Bool.or_right_comm s1.capital j1 j2]
    · have b2' : sl1[i2]? = some s2 := by
        rw [List.getElem?_set_ne hi] at b2; exact b2
      have a2' : (sl1.set i2 ⟨s2.count + c2, s2.capital || j2⟩)[i1]? = some s1 := by
        rw [List.getElem?_set_ne (Ne.symm hi)]; exact a2
      refine ⟨_, bumpTab_some.mpr ⟨sl1, s2, a1, b2', rfl⟩, bumpTab_some.mpr ⟨_, _, getElem?_set_self' a1, a2', ?_⟩⟩
      simp only [List.set_set]
      rw [List.set_comm _ _ hi]
  · have b1' : tab[n2]? = some sl2 := by
      rw [List.getElem?_set_ne hn] at b1; exact b1
    have a1' : (tab.set n2 (sl2.set i2 ⟨s2.count + c2, s2.capital || j2⟩))[n1]? = some sl1 := by
      rw [List.getElem?_set_ne (Ne.symm hn)]; exact a1
    refine ⟨_, bumpTab_some.mpr ⟨sl2, s2, b1', b2, rfl⟩, bumpTab_some.mpr ⟨sl1, s1, a1', a2, ?_⟩⟩
    rw [List.set_comm _ _ hn]

theorem bumpTab_swap (tab : SlotTab) (n1 i1 c1 n2 i2 c2 : Nat) (j1 j2 : Bool) :
    (bumpTab tab n1 i1 c1 j1).bind (fun t1 => bumpTab t1 n2 i2 c2 j2) =
    (bumpTab tab n2 i2 c2 j2).bind (fun t1 => bumpTab t1 n1 i1 c1 j1) := by
  cases h : (bumpTab tab n1 i1 c1 j1).bind (fun t1 => bumpTab t1 n2 i2 c2 j2) with
  | some t => exact (bumpTab_swap_some h).symm
  | none =>
    cases h' : (bumpTab tab n2 i2 c2 j2).bind (fun t1 => bumpTab t1 n1 i1 c1 j1) with
    | none => rfl
    | some t => rw [bumpTab_swap_some h'] at h; cases h


/-- both runs panic, or they end with the same slot tables and deferred arrays that are equal up to order -/
def Rel : Option (SlotTab × TopArr) → Option (SlotTab × TopArr) → Prop
  | none, none => True
  | some x, some y => x.1 = y.1 ∧ x.2.Perm y.2
  | _, _ => False

theorem Rel.refl : ∀ (p : Option (SlotTab × TopArr)), Rel p p
  | none => trivial
  | some _ => ⟨rfl, List.Perm.refl _⟩

theorem Rel.of_eq {p q : Option (SlotTab × TopArr)} (h : p = q) : Rel p q := h ▸ Rel.refl p

theorem Rel.trans : ∀ {p q r : Option (SlotTab × TopArr)}, Rel p q → Rel q r → Rel p r
  | none, none, none, _, _ => trivial
  | some _, some _, some _, h1, h2 => ⟨h1.1.trans h2.1, h1.2.trans h2.2⟩
  | none, some _, _, h1, _ => h1.elim
  | some _, none, _, h1, _ => h1.elim
  | none, none, some _, _, h2 => h2.elim
  | some _, some _, none, _, h2 => h2.elim

theorem applyAct_congr {x y : SlotTab × TopArr} (h1 : x.1 = y.1) (h2 : x.2.Perm y.2) (a : Act) :
    Rel (applyAct x a) (applyAct y a) := by
  cases a with
  | fail => trivial
  | skip => exact ⟨h1, h2⟩
  | bump ns i cnt jsx =>
    simp only [applyAct, h1]
    cases bumpTab y.1 ns i cnt jsx with
    | none => trivial
    | some t => exact ⟨rfl, h2⟩
  | push p => exact ⟨h1, h2.append_right [p]⟩

theorem applyActs_cons (st : SlotTab × TopArr) (a : Act) (as : List Act) :
    applyActs st (a :: as) = (applyAct st a).bind (fun s => applyActs s as) := by
  simp only [applyActs]
  cases applyAct st a <;> rfl

theorem Rel.bind_act {p q : Option (SlotTab × TopArr)} (h : Rel p q) (a : Act) :
    Rel (p.bind (fun s => applyAct s a)) (q.bind (fun s => applyAct s a)) := by
  cases p <;> cases q
  · trivial
  · exact h.elim
  · exact h.elim
  · exact applyAct_congr h.1 h.2 a

theorem applyActs_congr : ∀ (l : List Act) {x y : SlotTab × TopArr}, x.1 = y.1 → x.2.Perm y.2 →
    Rel (applyActs x l) (applyActs y l)
  | [], _, _, h1, h2 => ⟨h1, h2⟩
  | a :: as, x, y, h1, h2 => by
    rw [applyActs_cons, applyActs_cons]
    have := applyAct_congr h1 h2 a
    cases hx : applyAct x a <;> cases hy : applyAct y a <;> rw [hx, hy] at this
    · trivial
    · exact this.elim
    · exact this.elim
    · exact applyActs_congr as this.1 this.2

theorem Rel.bind_acts {p q : Option (SlotTab × TopArr)} (h : Rel p q) (l : List Act) :
    Rel (p.bind (fun s => applyActs s l)) (q.bind (fun s => applyActs s l)) := by
  cases p <;> cases q
  · trivial
  · exact h.elim
  · exact h.elim
  · exact applyActs_congr l h.1 h.2

theorem bind_none' {α β : Type} (o : Option α) : o.bind (fun _ => (none : Option β)) = none := by
  cases o <;> rfl

/-- two calls of AccumulateSymbolCount commute -/
theorem applyAct_swap (st : SlotTab × TopArr) (a b : Act) :
    Rel ((applyAct st a).bind (fun s => applyAct s b)) ((applyAct st b).bind (fun s => applyAct s a)) := by
  cases a with
  | fail =>
    show Rel none ((applyAct st b).bind (fun _ => none))
    rw [bind_none']; trivial
  | skip =>
    show Rel (applyAct st b) ((applyAct st b).bind (fun s => some s))
    cases applyAct st b with
    | none => trivial
    | some v => exact ⟨rfl, List.Perm.refl _⟩
  | bump n1 i1 c1 j1 =>
    cases b with
    | fail =>
      show Rel ((applyAct st (.bump n1 i1 c1 j1)).bind (fun _ => none)) none
      rw [bind_none']; trivial
    | skip =>
      show Rel ((applyAct st (.bump n1 i1 c1 j1)).bind (fun s => some s)) (applyAct st (.bump n1 i1 c1 j1))
      cases applyAct st (.bump n1 i1 c1 j1) with
      | none => trivial
      | some v => exact ⟨rfl, List.Perm.refl _⟩
    | bump n2 i2 c2 j2 =>
      apply Rel.of_eq
      have := bumpTab_swap st.1 n1 i1 c1 n2 i2 c2 j1 j2
      simp only [applyAct]
      cases h1 : bumpTab st.1 n1 i1 c1 j1 <;> cases h2 : bumpTab st.1 n2 i2 c2 j2 <;>
        simp only [h1, h2, Option.bind_some, Option.bind_none, Option.map_some, Option.map_none] at this ⊢
      · rw [← this]; rfl
      · rw [this]; rfl
      · rw [this]
    | push p =>
      apply Rel.of_eq
      simp only [applyAct, Option.bind_some]
      cases bumpTab st.1 n1 i1 c1 j1 <;> rfl
  | push p =>
    cases b with
    | fail => trivial
    | skip => exact Rel.refl _
    | bump n2 i2 c2 j2 =>
      apply Rel.of_eq
      simp only [applyAct, Option.bind_some]
      cases bumpTab st.1 n2 i2 c2 j2 <;> rfl
    | push q =>
      refine ⟨rfl, ?_⟩
      show (st.2 ++ [p] ++ [q]).Perm (st.2 ++ [q] ++ [p])
      simp only [List.append_assoc]
      exact (List.Perm.swap q p []).append_left st.2

/-- the calls of AccumulateSymbolCount can be made in any order -/
theorem applyActs_perm {l l' : List Act} (hp : l.Perm l') : ∀ {x y : SlotTab × TopArr}, x.1 = y.1 → x.2.Perm y.2 →
    Rel (applyActs x l) (applyActs y l') := by
  induction hp with
  | nil => intro x y h1 h2; exact ⟨h1, h2⟩
  | cons a _ ih =>
    intro x y h1 h2
    rw [applyActs_cons, applyActs_cons]
    have := applyAct_congr h1 h2 a
    cases hx : applyAct x a <;> cases hy : applyAct y a <;> rw [hx, hy] at this
    · trivial
    · exact this.elim
    · exact this.elim
    · exact ih this.1 this.2
  | swap a b l =>
    intro x y h1 h2
    simp only [applyActs_cons]
    have e1 : ∀ (z : SlotTab × TopArr) (c d : Act), ((applyAct z c).bind fun s => (applyAct s d).bind fun s => applyActs s l) =
        ((applyAct z c).bind (fun s => applyAct s d)).bind (fun s => applyActs s l) := by
      intro z c d; cases applyAct z c <;> rfl
    rw [e1, e1]
    apply Rel.bind_acts
    exact Rel.trans ((applyAct_congr h1 h2 b).bind_act a) (applyAct_swap y b a)
  | trans _ _ ih1 ih2 =>
    intro x y h1 h2
    exact Rel.trans (ih1 rfl (List.Perm.refl _)) (ih2 h1 h2)

/-- **AccumulateSymbolUseCounts does not depend on the order of `range symbolUses`.**  For any permutation of the
calls the slot tables are the same and the deferred top-level array is a permutation (or both runs panic). -/
theorem accumulateAll_perm (syms : List CSym) {es es' : List (Nat × Nat)} (hp : es.Perm es') (st : SlotTab × TopArr) :
    Rel (accumulateAll syms st es) (accumulateAll syms st es') := by
  rw [accumulateAll_eq, accumulateAll_eq]
  exact applyActs_perm (hp.map _) rfl (List.Perm.refl _)


theorem countLe_trans (a b c : Nat × Nat) (h1 : countLe a b = true) (h2 : countLe b c = true) : countLe a c = true := by
  simp only [countLe, Bool.or_eq_true, decide_eq_true_eq, Bool.and_eq_true, beq_iff_eq] at *
  omega

theorem countLe_total (a b : Nat × Nat) : (countLe a b || countLe b a) = true := by
  simp only [countLe, Bool.or_eq_true, decide_eq_true_eq, Bool.and_eq_true, beq_iff_eq]
  omega

theorem countLe_antisymm (a b : Nat × Nat) (h1 : countLe a b = true) (h2 : countLe b a = true) : a = b := by
  simp only [countLe, Bool.or_eq_true, decide_eq_true_eq, Bool.and_eq_true, beq_iff_eq] at *
  apply Prod.ext <;> omega

/-- `sort.Sort(topLevelSymbols)`: two arrays with the same entries in any order sort to the same array -/
theorem mergeSort_countLe_perm {l l' : TopArr} (hp : l.Perm l') : l.mergeSort countLe = l'.mergeSort countLe := by
  apply List.Perm.eq_of_pairwise (le := fun a b => countLe a b = true)
  · intro a b _ _ h1 h2; exact countLe_antisymm a b h1 h2
  · exact List.pairwise_mergeSort countLe_trans countLe_total l
  · exact List.pairwise_mergeSort countLe_trans countLe_total l'
  · exact (List.mergeSort_perm l countLe).trans (hp.trans (List.mergeSort_perm l' countLe).symm)

/-- two lists of the same length whose elements are related pairwise -/
inductive Zip2 {α : Type} (R : α → α → Prop) : List α → List α → Prop
  | nil : Zip2 R [] []
  | cons {a b : α} {as bs : List α} : R a b → Zip2 R as bs → Zip2 R (a :: as) (b :: bs)

/-- two files that differ at most in the order of their symbol-use maps -/
def SameUpToUseOrder (f f' : File) : Prop :=
  (fileCalls f).Perm (fileCalls f') ∧ f.slotCounts = f'.slotCounts ∧ f.module = f'.module

/-- the parallel phase gives the same slot tables and the same sorted per-file arrays -/
theorem accFiles_perm (syms : List CSym) {fs fs' : List File} (h : Zip2 SameUpToUseOrder fs fs') :
    ∀ (tab : SlotTab), accFiles syms tab fs = accFiles syms tab fs' := by
  induction h with
  | nil => intro tab; rfl
  | @cons f f' fs fs' hf _ ih =>
    intro tab
    simp only [accFiles]
    have hr := accumulateAll_perm syms hf.1 (tab, [])
    cases h1 : accumulateAll syms (tab, []) (fileCalls f) with
    | none =>
      cases h2 : accumulateAll syms (tab, []) (fileCalls f') with
      | none => rfl
      | some v => rw [h1, h2] at hr; exact hr.elim
    | some v =>
      cases h2 : accumulateAll syms (tab, []) (fileCalls f') with
      | none => rw [h1, h2] at hr; exact hr.elim
      | some v' =>
        rw [h1, h2] at hr
        obtain ⟨t, arr⟩ := v
        obtain ⟨t', arr'⟩ := v'
        obtain ⟨ht, ha⟩ := hr
        simp only at ht ha
        subst ht
        simp only [ih t, mergeSort_countLe_perm ha]

theorem firstTopLevelSlots_perm {fs fs' : List File} (h : Zip2 SameUpToUseOrder fs fs') :
    firstTopLevelSlots fs = firstTopLevelSlots fs' := by
  unfold firstTopLevelSlots
  have gen : ∀ acc : Slots.Counts,
      fs.foldl (fun acc f => Slots.unionMax acc (fun k => f.slotCounts.getD k 0)) acc =
      fs'.foldl (fun acc f => Slots.unionMax acc (fun k => f.slotCounts.getD k 0)) acc := by
    induction h with
    | nil => intro acc; rfl
    | @cons f f' _ _ hf _ ih => intro acc; simp only [List.foldl_cons, hf.2.1]; exact ih _
  exact gen _

theorem modules_perm {fs fs' : List File} (h : Zip2 SameUpToUseOrder fs fs') :
    fs.map (·.module) = fs'.map (·.module) := by
  induction h with
  | nil => rfl
  | @cons f f' _ _ hf _ ih => simp only [List.map_cons, hf.2.2, ih]

/-- everything up to AllocateTopLevelSymbolSlots is independent of the order of every `range symbolUses` -/
theorem minifySlots_perm {c c' : Chunk} (hs : c.syms = c'.syms) (hi : c.imports = c'.imports)
    (hf : Zip2 SameUpToUseOrder c.files c'.files) : minifySlots c = minifySlots c' := by
  unfold minifySlots
  rw [← firstTopLevelSlots_perm hf, ← hs, ← accFiles_perm c.syms hf]
  simp only [sortedImports, hi]

/-- permuting the symbol uses of the parts of a file gives a file that is the same up to use order -/
theorem sameUpToUseOrder_of_parts {f f' : File} (hu : f.usesExports = f'.usesExports) (he : f.exportsRef = f'.exportsRef)
    (hm : f.usesModule = f'.usesModule) (hr : f.moduleRef = f'.moduleRef) (hc : f.slotCounts = f'.slotCounts)
    (hmod : f.module = f'.module)
    (hp : Zip2 (fun p p' : Part => p.live = p'.live ∧ p.declared = p'.declared ∧ p.uses.Perm p'.uses) f.parts f'.parts) :
    SameUpToUseOrder f f' := by
  refine ⟨?_, hc, hmod⟩
  unfold fileCalls
  rw [hu, he, hm, hr]
  apply List.Perm.append_left
  generalize f.parts = ps at hp
  generalize f'.parts = ps' at hp
  induction hp with
  | nil => exact List.Perm.refl _
  | @cons p p' _ _ h _ ih =>
    simp only [List.flatMap_cons]
    refine List.Perm.append ?_ ih
    rw [h.1, h.2.1]
    split
    · exact h.2.2.append_right _
    · exact List.Perm.refl _

end EsbuildModel.ChunkNames
