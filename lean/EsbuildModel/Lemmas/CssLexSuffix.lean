import EsbuildModel.Impl.CssLexTok
/-!
Every consumer of the CSS lexer model returns a SUFFIX of the state it was given (it only ever moves forward over
the input and never invents input).
-/
namespace EsbuildModel.CssLex

theorem suf_tail {α} (c : α) (t : List α) : t <:+ c :: t := List.suffix_cons c t

theorem suf_of_tail {α} {s : List α} {c : α} {t : List α} (h : s <:+ t) : s <:+ c :: t := h.trans (List.suffix_cons c t)

theorem step_suffix (s : List Ch) : step s <:+ s := by
  cases s with
  | nil => exact List.suffix_refl _
  | cons c t => exact suf_tail c t

theorem skipWhile_suffix (p : Nat → Bool) (s : List Ch) : skipWhile p s <:+ s := by
  induction s with
  | nil => exact List.suffix_refl _
  | cons c t ih => simp only [skipWhile]; split; exact suf_of_tail ih; exact List.suffix_refl _

theorem takeWhile_skipWhile (p : Nat → Bool) (s : List Ch) : takeWhileCh p s ++ skipWhile p s = s := by
  induction s with
  | nil => rfl
  | cons c t ih => simp only [takeWhileCh, skipWhile]; split <;> simp [ih]

theorem hexLoop_suffix (k hex : Nat) (s : List Ch) : (hexLoop k hex s).2 <:+ s := by
  induction k generalizing hex s with
  | zero => exact List.suffix_refl _
  | succ k ih =>
    cases s with
    | nil => exact List.suffix_refl _
    | cons c t =>
      simp only [hexLoop]
      split
      · exact suf_of_tail (ih _ t)
      · exact List.suffix_refl _

theorem skipOneWs_suffix (s : List Ch) : skipOneWs s <:+ s := by
  cases s with
  | nil => exact List.suffix_refl _
  | cons c t => simp only [skipOneWs]; split; exact suf_tail c t; exact List.suffix_refl _

theorem consumeEscape_suffix (s : List Ch) : (consumeEscape s).2 <:+ s := by
  match s with
  | [] => exact List.suffix_refl _
  | [_] => simp [consumeEscape]
  | c :: d :: u =>
    simp only [consumeEscape]
    split
    · exact suf_of_tail (suf_of_tail ((skipOneWs_suffix _).trans (hexLoop_suffix _ _ _)))
    · exact suf_of_tail (suf_tail d u)

theorem nameLoop_suffix (acc : List Nat) (s : List Ch) : (nameLoop acc s).2 <:+ s := by
  fun_induction nameLoop acc s with
  | case1 => exact List.suffix_refl _
  | case2 acc c t h ih => exact suf_of_tail ih
  | case3 acc c t h1 h2 ih => exact ih.trans (consumeEscape_suffix _)
  | case4 => exact List.suffix_refl _

theorem consumeName_suffix (s : List Ch) : (consumeName s).2 <:+ s := by
  unfold consumeName
  split
  · exact (nameLoop_suffix _ _).trans ((consumeEscape_suffix _).trans (skipWhile_suffix _ _))
  · exact skipWhile_suffix _ _

theorem badUrl_suffix (s : List Ch) : (badUrl s).2 <:+ s := by
  fun_induction badUrl s with
  | case1 => exact List.suffix_refl _
  | case2 c t h => exact suf_tail c t
  | case3 c t h1 h2 h3 ih => exact ih.trans ((step_suffix _).trans (consumeEscape_suffix _))
  | case4 c t h1 h2 h3 ih => exact suf_of_tail ih
  | case5 c t h1 h2 ih => exact suf_of_tail ih

theorem consumeURL_suffix (s : List Ch) : (consumeURL s).2 <:+ s := by
  fun_induction consumeURL s with
  | case1 => exact List.suffix_refl _
  | case2 c t h => exact suf_tail c t
  | case3 c t h1 h2 ht => exact List.nil_suffix
  | case4 c t h1 h2 d u ht hd =>
    have := skipWhile_suffix isWhitespace t
    rw [ht] at this
    exact suf_of_tail ((suf_tail d u).trans this)
  | case5 c t h1 h2 d u ht hd =>
    have := skipWhile_suffix isWhitespace t
    rw [ht] at this
    exact suf_of_tail ((badUrl_suffix _).trans this)
  | case6 c t h1 h2 h3 => exact badUrl_suffix _
  | case7 c t h1 h2 h3 h4 h5 => exact badUrl_suffix _
  | case8 c t h1 h2 h3 h4 h5 ih => exact ih.trans (consumeEscape_suffix _)
  | case9 c t h1 h2 h3 h4 h5 => exact badUrl_suffix _
  | case10 c t h1 h2 h3 h4 h5 ih => exact suf_of_tail ih

theorem consumeIdentLike_suffix (s : List Ch) : (consumeIdentLike s).2 <:+ s := by
  have hn := consumeName_suffix s
  unfold consumeIdentLike
  split
  · exact List.nil_suffix
  · next c t h =>
    rw [h] at hn
    have ht : t <:+ s := (suf_tail c t).trans hn
    split
    · split
      · split
        · exact (consumeURL_suffix _).trans ((skipWhile_suffix _ _).trans ht)
        · exact ht
      · exact ht
    · exact hn

theorem stringLoop_suffix (q : Nat) (s : List Ch) : (stringLoop q s).2 <:+ s := by
  fun_induction stringLoop q s with
  | case1 => exact List.suffix_refl _
  | case2 => exact List.nil_suffix
  | case3 => exact List.nil_suffix
  | case4 c h d h2 e v h3 ih => exact suf_of_tail (suf_of_tail (suf_of_tail ih))
  | case5 c h d h2 e v h3 ih => exact suf_of_tail (suf_of_tail ih)
  | case6 c h d u h2 ih => exact suf_of_tail (suf_of_tail ih)
  | case7 => exact List.suffix_refl _
  | case8 c t => exact suf_tail c t
  | case9 c t h1 h2 h3 ih => exact suf_of_tail ih

theorem consumeString_suffix (s : List Ch) : (consumeString s).2 <:+ s := by
  cases s with
  | nil => exact List.suffix_refl _
  | cons c t => exact suf_of_tail (stringLoop_suffix _ _)

theorem skipSign_suffix (s : List Ch) : skipSign s <:+ s := by
  cases s with
  | nil => exact List.suffix_refl _
  | cons c t => simp only [skipSign]; split; exact suf_tail c t; exact List.suffix_refl _

theorem skipFraction_suffix (s : List Ch) : skipFraction s <:+ s := by
  cases s with
  | nil => exact List.suffix_refl _
  | cons c t => simp only [skipFraction]; split; exact suf_of_tail (skipWhile_suffix _ _); exact List.suffix_refl _

theorem skipExponent_suffix (s : List Ch) : skipExponent s <:+ s := by
  cases s with
  | nil => exact List.suffix_refl _
  | cons c t =>
    simp only [skipExponent]
    split
    · split
      · exact List.suffix_refl _
      · split
        · exact suf_of_tail ((skipWhile_suffix _ _).trans (skipSign_suffix _))
        · exact List.suffix_refl _
    · exact List.suffix_refl _

theorem skipNumber_suffix (s : List Ch) : skipNumber s <:+ s :=
  (skipExponent_suffix _).trans ((skipFraction_suffix _).trans ((skipWhile_suffix _ _).trans (skipSign_suffix _)))

theorem consumeNumeric_suffix (s : List Ch) : (consumeNumeric s).2.1 <:+ s ∧ (consumeNumeric s).2.2 <:+ s ∧
    (consumeNumeric s).2.1 <:+ (consumeNumeric s).2.2 := by
  have hn := skipNumber_suffix s
  unfold consumeNumeric
  split
  · exact ⟨(consumeName_suffix _).trans hn, hn, consumeName_suffix _⟩
  · split
    · exact ⟨List.nil_suffix, List.nil_suffix, List.suffix_refl _⟩
    · next c t h =>
      rw [h] at hn
      split
      · exact ⟨(suf_tail c t).trans hn, hn, suf_tail c t⟩
      · exact ⟨hn, hn, List.suffix_refl _⟩

end EsbuildModel.CssLex
