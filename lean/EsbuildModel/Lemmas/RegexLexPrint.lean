import EsbuildModel.Lemmas.RegexLex
/-! Lemmas about whole literals: appending text after a literal, `splitValue`, the string values of the rewriting. -/
namespace EsbuildModel.RegexLex
open Spec.JsRegExpLiteral

theorem idPart_self (na : Nat → Bool) (c : Nat) : IdentifierPartChar (idc na) c ↔ idc na c = true := by
  constructor
  · rintro (h | rfl | rfl | rfl)
    · exact h
    · simp [idc, asciiIdc]
    · simp [idc, asciiIdc]
    · simp [idc, asciiIdc]
  · exact fun h => .inl h

/-- a literal that `lex` accepts as the WHOLE text is `/body/flags` -/
theorem lex_whole (na : Nat → Bool) (v : List Nat) (hv : lex na v = .ok v.length [] false) :
    ∃ body flags, Body body ∧ FlagsValid flags ∧ v = 47 :: body ++ 47 :: flags := by
  obtain ⟨body, flags, ⟨hb, _, rest, rfl, _⟩, hfa, hn⟩ := (lex_ok_iff na (idc na) (idPart_self na) v v.length).1 hv
  simp only [List.length_cons, List.length_append] at hn
  have : rest = [] := List.eq_nil_of_length_eq_zero (by omega)
  subst this
  exact ⟨body, flags, hb, hfa, by simp⟩

theorem flagsValid_flags (na : Nat → Bool) {flags : List Nat} (h : FlagsValid flags) : Flags (idc na) flags :=
  (flags_iff_forall _ _).2 fun c hc => (idPart_self na c).2 (isFlag_idc na c ((isFlag_iff c).2 (h.1 c hc)))

theorem lex_literal (na : Nat → Bool) {body flags : List Nat} (hb : Body body) (hfa : FlagsValid flags)
    (cont : List Nat) (hc : ∀ c, cont.head? = some c → idc na c = false) :
    lex na ((47 :: body ++ 47 :: flags) ++ cont) = .ok (47 :: body ++ 47 :: flags).length [] false := by
  refine (lex_ok_iff na (idc na) (idPart_self na) _ _).2 ⟨body, flags, ⟨hb, flagsValid_flags na hfa, cont, by simp, ?_⟩,
    hfa, by simp; omega⟩
  intro c h1 h2
  have := hc c h1
  rw [(idPart_self na c).1 h2] at this
  cases this

/-- text that does not start with an identifier character does not change the token -/
theorem lex_append (na : Nat → Bool) (v cont : List Nat) (hv : lex na v = .ok v.length [] false)
    (hc : ∀ c, cont.head? = some c → idc na c = false) : lex na (v ++ cont) = .ok v.length [] false := by
  obtain ⟨body, flags, hb, hfa, rfl⟩ := lex_whole na v hv
  exact lex_literal na hb hfa cont hc

/-! ### `splitValue` -/

theorem takeWhile_run {p : Nat → Bool} : ∀ (a : List Nat) (b : Nat) (c : List Nat), (∀ x ∈ a, p x = true) → p b = false →
    (a ++ b :: c).takeWhile p = a ∧ (a ++ b :: c).dropWhile p = b :: c := by
  intro a
  induction a with
  | nil => intro b c _ hb; simp [List.takeWhile, List.dropWhile, hb]
  | cons x xs ih =>
    intro b c ha hb
    have hx := ha x (by simp)
    have := ih b c (fun y hy => ha y (List.mem_cons_of_mem _ hy)) hb
    simp [List.takeWhile, List.dropWhile, hx, this.1, this.2]

theorem splitValue_literal (body flags : List Nat) (hf : 47 ∉ flags) :
    splitValue (47 :: body ++ 47 :: flags) = some (body, flags) := by
  have hrev : (47 :: body ++ 47 :: flags).reverse = flags.reverse ++ 47 :: (body.reverse ++ [47]) := by simp
  have hrun := takeWhile_run (p := fun x => decide (x ≠ 47)) flags.reverse 47 (body.reverse ++ [47])
    (by intro x hx; simp at hx; simp; intro e; exact hf (e ▸ hx)) (by simp)
  unfold splitValue
  simp only [hrev, hrun.1, hrun.2]
  simp

theorem flagsValid_no_slash {flags : List Nat} (h : FlagsValid flags) : 47 ∉ flags := by
  intro h47
  have := h.1 47 h47
  simp [flagLetters] at this

/-! ### the string values -/

theorem encodeRune_hi (c : Nat) (h : ¬ c ≤ 65535) (hc : c ≤ 1114111) :
    55296 + (c - 65536) / 1024 % 1024 = (c - 65536) / 1024 + 55296 := by omega

theorem encodeRune_lo (c : Nat) : 56320 + (c - 65536) % 1024 = (c - 65536) % 1024 + 56320 := by omega

theorem encodeRune_eq (c : Nat) (hc : c ≤ 1114111) : encodeRune c = utf16EncodeCodePoint c := by
  unfold encodeRune utf16EncodeCodePoint
  by_cases h : c ≤ 65535
  · simp [h]
  · rw [if_neg h, if_neg h, encodeRune_hi c h hc, encodeRune_lo c]

theorem stringToUTF16_eq (s : List Nat) (hs : ∀ c ∈ s, c ≤ 1114111) : stringToUTF16 s = codePointsToString s := by
  induction s with
  | nil => simp [stringToUTF16, codePointsToString]
  | cons c r ih =>
    have h1 := encodeRune_eq c (hs c (List.mem_cons_self))
    have h2 := ih fun x hx => hs x (List.mem_cons_of_mem _ hx)
    unfold stringToUTF16 codePointsToString at *
    rw [List.flatMap_cons, List.flatMap_cons, h1, h2]

theorem codePointsToString_units (s : List Nat) (hs : ∀ c ∈ s, c ≤ 1114111) : ∀ u ∈ codePointsToString s, u < 65536 := by
  intro u hu
  unfold codePointsToString at hu
  obtain ⟨c, hc, hu⟩ := List.mem_flatMap.1 hu
  have := hs c hc
  unfold utf16EncodeCodePoint at hu
  by_cases h : c ≤ 65535
  · simp [h] at hu; omega
  · simp [h] at hu
    rcases hu with rfl | rfl <;> omega

/-! ### the printer -/

/-- the condition under which the printer emits a space before the literal -/
def needsSpace (noIS : Bool) (js v : List Nat) : Bool :=
  match js.getLast? with
  | none => false
  | some last => last == 47 || (!noIS && last == 60 && scriptPrefix v)

theorem printRegExp_eq (noIS : Bool) (js v : List Nat) :
    printRegExp noIS js v = (js ++ if needsSpace noIS js v then [32] else []) ++ v := by
  unfold printRegExp needsSpace
  cases js.getLast? <;> simp

theorem needsSpace_false {noIS : Bool} {js v : List Nat} (h : needsSpace noIS js v = false) :
    js.getLast? ≠ some 47 ∧ (noIS = false → scriptPrefix v = true → js.getLast? ≠ some 60) := by
  unfold needsSpace at h
  cases hl : js.getLast? with
  | none => simp
  | some last =>
    simp only [hl, Bool.or_eq_false_iff, beq_eq_false_iff_ne, Bool.and_eq_false_iff, Bool.not_eq_false] at h
    refine ⟨by simpa using h.1, ?_⟩
    intro h1 h2
    rcases h.2 with (h3 | h3) | h3
    · rw [h1] at h3; cases h3
    · simpa using h3
    · rw [h2] at h3; cases h3

theorem spaceBeforeIdentifier_atEnd (na : Nat → Bool) (js : List Nat) : spaceBeforeIdentifier na js true = js ++ [32] := by
  unfold spaceBeforeIdentifier
  simp

theorem idc_space (na : Nat → Bool) : idc na 32 = false := by simp [idc, asciiIdc]

/-- the arguments of the rewriting, when it happens -/
def lowered (body flags : List Nat) : List Nat × Option (List Nat) :=
  (stringToUTF16 body, if flags = [] then none else some (stringToUTF16 flags))

theorem visit_literal (u : Unsup) (body flags : List Nat) (hf : 47 ∉ flags) :
    visit u (47 :: body ++ 47 :: flags) ≠ .panic ∧
    ∀ p f why, visit u (47 :: body ++ 47 :: flags) = .lower p f why → (p, f) = lowered body flags := by
  unfold visit lowered
  rw [splitValue_literal body flags hf]
  simp only
  cases scanFeatures u body flags <;> simp
  all_goals (intro p f why h1 h2 _; exact ⟨h1.symm, h2.symm⟩)

end EsbuildModel.RegexLex
