import EsbuildModel.Lemmas.CssImportLayerPass
/-!
One iteration of the forward pass (`layerStep`) and the whole loop (`layerLoop` / `layerPass`).
-/
namespace EsbuildModel.CssImport
open EsbuildModel.Spec.CssCascade

/-- hypothesis for an entry and the entries already emitted: a redundancy hit with an emitted entry of the same key
only happens when the new entry has no further `layer` conditions -/
def SafeAgainst (g : Graph) (entry : Entry) (wip : List Entry) : Prop :=
  ∀ y ∈ wip, keyOf g y = keyOf g entry → isRedundant entry.conds y.conds = true →
    extraNoLayer entry.conds y.conds = true

theorem take_append_last {α : Type} (l : List α) (idx : Nat) (x : α) (h1 : idx + 1 = l.length)
    (h2 : l[idx]? = some x) : l = l.take idx ++ [x] := by
  have hlt : idx < l.length := by omega
  have hx : l[idx] = x := by
    have := List.getElem?_eq_getElem hlt
    rw [this] at h2
    exact Option.some.inj h2
  conv => lhs; rw [← List.take_append_drop idx l]
  congr 1
  rw [List.drop_eq_getElem_cons hlt, hx]
  congr 1
  apply List.drop_of_length_le
  omega

theorem layerStep_spec (g : Graph) (decl : Nat → Decl) (ext : Nat → List Item) (hext : ExtNoLayers ext)
    (entry : Entry) (wip : List Entry) (d : LayerDups) (hinv : Inv3 g wip d) :
    ∃ wip' d', layerStep g entry wip d = some (wip', d') ∧ Inv3 g wip' d' ∧
      (SafeAgainst g entry wip → (entry.kind = .ext → entry.layers = []) → ExtEntriesClean wip →
        CtxSame (semN g decl ext wip') (semN g decl ext (wip ++ [entry]))) ∧
      (∀ x ∈ wip', x ∈ wip ∨ x = entry) := by
  unfold layerStep
  have hkey : (if entry.kind == .file then postOf g entry.src else entry.layers) = keyOf g entry := rfl
  simp only [hkey]
  obtain ⟨rec, hrec, hreck, hmemd⟩ := findKey_spec d (keyOf g entry)
  generalize hfk : findKey d (keyOf g entry) = r at hrec hmemd
  obtain ⟨index, d1⟩ := r
  simp only at hrec hmemd ⊢
  have hinv1 : Inv3 g wip d1 := by
    intro x hx idx hidx
    rcases hmemd x hx with h | h
    · exact hinv x h idx hidx
    · subst h; cases hidx
  rw [hrec]
  simp only
  have hrecmem : rec ∈ d1 := List.mem_of_getElem? hrec
  have hvalid : ∀ idx ∈ rec.2.reverse, ∃ y, wip[idx]? = some y := by
    intro idx hidx
    obtain ⟨y, hy, _⟩ := hinv1 rec hrecmem idx (List.mem_reverse.1 hidx)
    exact ⟨y, hy⟩
  have hscan := scanDups_spec entry.conds wip rec.2.reverse true hvalid
  -- the common "append and record" outcome
  have happend : ∀ (dups : List Nat), (∀ i ∈ dups, i ∈ rec.2) →
      Inv3 g (wip ++ [entry]) (setIndices d1 index (dups ++ [wip.length])) := by
    intro dups hdups x hx idx hidx
    rcases mem_setIndices hx with h | ⟨r', hr', hxe⟩
    · obtain ⟨y, hy, hk⟩ := hinv1 x h idx hidx
      exact ⟨y, getElem?_append_singleton_lt wip entry hy, hk⟩
    · rw [hrec] at hr'
      cases hr'
      subst hxe
      simp only at hidx ⊢
      rcases List.mem_append.1 hidx with h | h
      · obtain ⟨y, hy, hk⟩ := hinv1 rec hrecmem idx (hdups idx h)
        exact ⟨y, getElem?_append_singleton_lt wip entry hy, hk⟩
      · simp only [List.mem_singleton] at h
        subst h
        exact ⟨entry, by simp, hreck.symm⟩
  cases hs : scanDups entry.conds wip rec.2.reverse true with
  | panic => rw [hs] at hscan; exact hscan.elim
  | miss =>
    simp only
    exact ⟨_, _, rfl, happend rec.2 (fun i hi => hi), fun _ _ _ => CtxSame.rfl' _,
      fun x hx => by
        rcases List.mem_append.1 hx with h | h
        · exact Or.inl h
        · exact Or.inr (by simpa using h)⟩
  | hit first idx =>
    rw [hs] at hscan
    obtain ⟨hidx, y, hy, hr⟩ := hscan
    have hidx' : idx ∈ rec.2 := List.mem_reverse.1 hidx
    obtain ⟨y', hy', hyk⟩ := hinv1 rec hrecmem idx hidx'
    rw [hy] at hy'
    cases hy'
    have hymem : y ∈ wip := List.mem_of_getElem? hy
    have hmemApp : ∀ x ∈ wip ++ [entry], x ∈ wip ∨ x = entry := by
      intro x hx
      rcases List.mem_append.1 hx with h | h
      · exact Or.inl h
      · exact Or.inr (by simpa using h)
    simp only
    by_cases hkl : entry.kind = .layers
    · -- a redundant `@layer` entry is dropped
      simp only [hkl, bne_self_eq_false, Bool.false_eq_true, ↓reduceIte]
      refine ⟨_, _, rfl, hinv1, ?_, fun x hx => Or.inl hx⟩
      intro hsafe hce hcw
      have hx := hsafe y hymem (by rw [hyk, hreck]) hr
      obtain ⟨A, B, hAB⟩ := List.append_of_mem hymem
      have hcov : DeclCovered (semEntryN g decl ext entry) (semEntryN g decl ext y) := by
        unfold semEntryN
        apply declCovered_wrapN hr hx
        apply declCovered_of_subset
        intro it hit _
        have hc : entryContent g decl ext entry = layerItems (keyOf g entry) := by
          simp [entryContent, keyOf, hkl]
        rw [hc, ← hreck, ← hyk] at hit
        exact content_subset_of_key g decl (hcw y hymem) it hit
      have honly : OnlyDeclares (semEntryN g decl ext entry) := by
        unfold semEntryN
        apply onlyDeclares_wrapN
        simp only [entryContent, hkl]
        exact onlyDeclares_layerItems _
      have h1 := ctxSame_drop_declCovered (semEntryN g decl ext y) (semN g decl ext B) _ honly hcov
      have h2 := (h1.ctx (semN g decl ext A) []).symm
      rw [hAB]
      simpa [semN_append, semN_cons, semN, List.append_assoc] using h2
    · have hkl' : (entry.kind != Kind.layers) = true := by simpa using hkl
      simp only [hkl', ↓reduceIte]
      by_cases hsp : (first && idx + 1 == wip.length) = true
      · simp only [hsp, ↓reduceIte, hy]
        by_cases hoc : (y.kind == .layers && entry.conds == y.conds) = true
        · -- the previous `@layer` entry is replaced
          simp only [hoc, ↓reduceIte]
          simp only [Bool.and_eq_true, beq_iff_eq] at hsp hoc
          have hlen : idx + 1 = wip.length := hsp.2
          have hwip := take_append_last wip idx y hlen hy
          have htl : (wip.take idx).length = idx := by rw [List.length_take]; omega
          refine ⟨_, _, rfl, ?_, ?_, ?_⟩
          · -- the invariant
            have hget : ∀ (j : Nat) (z : Entry), wip[j]? = some z →
                ∃ z', (wip.take idx ++ [entry])[j]? = some z' ∧ keyOf g z' = keyOf g z := by
              intro j z hz
              have hjlt : j < wip.length := (List.getElem?_eq_some_iff.1 hz).1
              by_cases hj : j < idx
              · refine ⟨z, ?_, rfl⟩
                rw [List.getElem?_append_left (by omega), List.getElem?_take_of_lt hj]; exact hz
              · have hj' : j = idx := by omega
                subst hj'
                rw [hy] at hz
                cases hz
                refine ⟨entry, ?_, by rw [hyk, hreck]⟩
                rw [List.getElem?_append_right (by omega), htl]; simp
            intro x hx i hi
            rcases mem_setIndices hx with h | ⟨r', hr', hxe⟩
            · obtain ⟨z, hz, hk⟩ := hinv1 x h i hi
              obtain ⟨z', hz', hk'⟩ := hget i z hz
              exact ⟨z', hz', hk'.trans hk⟩
            · rw [hrec] at hr'
              cases hr'
              subst hxe
              simp only at hi ⊢
              rcases List.mem_append.1 hi with h | h
              · obtain ⟨z, hz, hk⟩ := hinv1 rec hrecmem i (List.dropLast_subset _ h)
                obtain ⟨z', hz', hk'⟩ := hget i z hz
                exact ⟨z', hz', hk'.trans hk⟩
              · simp only [List.mem_singleton] at h
                subst h
                refine ⟨entry, ?_, hreck.symm⟩
                rw [List.getElem?_append_right (by omega)]; simp
          · -- the cascade
            intro hsafe hce hcw
            have hsd : SameDecls (semEntryN g decl ext y) (semEntryN g decl ext entry) := by
              unfold semEntryN
              rw [← hoc.2]
              apply SameDecls.wrapN
              have hc : entryContent g decl ext y = layerItems (keyOf g entry) := by
                simp only [entryContent, hoc.1]
                rw [← hreck, ← hyk]
                simp [keyOf, hoc.1]
              rw [hc]
              exact sameDecls_key_content g decl hext hce
            have honly : OnlyDeclares (semEntryN g decl ext y) := by
              unfold semEntryN
              apply onlyDeclares_wrapN
              simp only [entryContent, hoc.1]
              exact onlyDeclares_layerItems _
            have h1 := (ctxSame_decls_prefix _ _ honly hsd).symm
            have h2 := h1.ctx (semN g decl ext (wip.take idx)) []
            have e2 : semN g decl ext (wip ++ [entry]) =
                semN g decl ext (wip.take idx) ++ (semEntryN g decl ext y ++ semEntryN g decl ext entry) ++ [] := by
              conv => lhs; rw [hwip]
              simp [semN, List.append_assoc]
            have e1 : semN g decl ext (wip.take idx ++ [entry]) =
                semN g decl ext (wip.take idx) ++ semEntryN g decl ext entry ++ [] := by
              simp [semN]
            rw [e1, e2]
            exact h2
          · intro x hx
            rcases List.mem_append.1 hx with h | h
            · exact Or.inl (List.mem_of_mem_take h)
            · exact Or.inr (by simpa using h)
        · simp only [hoc, Bool.false_eq_true, ↓reduceIte]
          exact ⟨_, _, rfl, inv3_append hinv1 entry, fun _ _ _ => CtxSame.rfl' _, hmemApp⟩
      · simp only [hsp, Bool.false_eq_true, ↓reduceIte]
        exact ⟨_, _, rfl, inv3_append hinv1 entry, fun _ _ _ => CtxSame.rfl' _, hmemApp⟩

-- ------------------------------------------------------------------ the simplification before the step

/-- what the loop does to an entry before the step (`none`: the entry is removed) -/
def simp3 (e : Entry) : Option Entry := if e.kind == .layers then simplifyLayers e else some e

theorem simp3_none (g : Graph) (decl : Nat → Decl) (ext : Nat → List Item) {e : Entry} (hna : NoAnon e.conds)
    (h : simp3 e = none) : semEntryN g decl ext e = [] := by
  unfold simp3 at h
  split at h
  · rename_i hk
    simp only [beq_iff_eq] at hk
    unfold simplifyLayers at h
    rw [truncateAnon_noAnon hna] at h
    simp only at h
    by_cases hl : e.layers.isEmpty = true
    · simp only [hl, ↓reduceIte, Bool.and_true] at h
      split at h
      · rename_i hc
        have hc' : trimNoLayer e.conds = [] := by simpa using hc
        have hl' : e.layers = [] := by simpa using hl
        unfold semEntryN
        simp only [entryContent, hk, hl', layerItems, List.map_nil]
        rw [← wrapN_trimNoLayer, hc']
        rfl
      · cases h
    · simp only [hl, Bool.false_eq_true, ↓reduceIte, Bool.and_false] at h
      cases h
  · cases h

theorem simp3_some (g : Graph) (decl : Nat → Decl) (ext : Nat → List Item) {e e' : Entry} (hna : NoAnon e.conds)
    (h : simp3 e = some e') :
    semEntryN g decl ext e' = semEntryN g decl ext e ∧ e'.kind = e.kind ∧ e'.layers = e.layers ∧
      (∀ c ∈ e'.conds, c ∈ e.conds) := by
  unfold simp3 at h
  split at h
  · rename_i hk
    simp only [beq_iff_eq] at hk
    unfold simplifyLayers at h
    rw [truncateAnon_noAnon hna] at h
    simp only at h
    by_cases hl : e.layers.isEmpty = true
    · simp only [hl, ↓reduceIte, Bool.and_true] at h
      split at h
      · cases h
      · simp only [Option.some.injEq] at h
        subst h
        have hl' : e.layers = [] := by simpa using hl
        refine ⟨?_, rfl, rfl, trimNoLayer_sublist e.conds⟩
        unfold semEntryN
        simp only [entryContent, hk, hl', layerItems, List.map_nil]
        exact wrapN_trimNoLayer e.conds
    · simp only [hl, Bool.false_eq_true, ↓reduceIte, Bool.and_false, Option.some.injEq] at h
      subst h
      exact ⟨rfl, rfl, rfl, fun c hc => hc⟩
  · simp only [Option.some.injEq] at h
    subst h
    exact ⟨rfl, rfl, rfl, fun c hc => hc⟩

-- ------------------------------------------------------------------ the loop

/-- the relation between an earlier (`a`) and a later (`b`) entry, after the simplification -/
def SafeLayerPair (g : Graph) (a b : Entry) : Prop :=
  keyOf g a = keyOf g b → isRedundant b.conds a.conds = true → extraNoLayer b.conds a.conds = true

theorem layerLoop_spec (g : Graph) (decl : Nat → Decl) (ext : Nat → List Item) (hext : ExtNoLayers ext)
    (es : List Entry) :
    ∀ (wip : List Entry) (d : LayerDups), Inv3 g wip d →
      ∃ out, layerLoop g es wip d = some out ∧
        (∀ x ∈ out, x ∈ wip ∨ x ∈ es.filterMap simp3) ∧
        (NoAnonEntries es → ExtEntriesClean es → ExtEntriesClean wip →
          (es.filterMap simp3).Pairwise (SafeLayerPair g) →
          (∀ x ∈ es.filterMap simp3, SafeAgainst g x wip) →
          CtxSame (semN g decl ext out) (semN g decl ext (wip ++ es))) := by
  induction es with
  | nil =>
    intro wip d _
    exact ⟨wip, rfl, fun x hx => Or.inl hx, fun _ _ _ _ _ => by simpa using CtxSame.rfl' _⟩
  | cons e es ih =>
    intro wip d hinv
    have hloop : layerLoop g (e :: es) wip d =
        match simp3 e with
        | none => layerLoop g es wip d
        | some entry =>
          match layerStep g entry wip d with
          | none => none
          | some (wip, d) => layerLoop g es wip d := by
      rfl
    rw [hloop]
    cases hs : simp3 e with
    | none =>
      simp only
      obtain ⟨out, ho, hm, hc⟩ := ih wip d hinv
      refine ⟨out, ho, ?_, ?_⟩
      · intro x hx
        rw [List.filterMap_cons_none hs]
        exact hm x hx
      · intro hna hce hcw hpw hcross
        rw [List.filterMap_cons_none hs] at hpw hcross
        have hna_e := hna e (List.mem_cons_self ..)
        have : semN g decl ext (wip ++ e :: es) = semN g decl ext (wip ++ es) := by
          simp [semN, simp3_none g decl ext hna_e hs]
        rw [this]
        exact hc (fun x hx => hna x (List.mem_cons_of_mem _ hx)) (fun x hx => hce x (List.mem_cons_of_mem _ hx))
          hcw hpw hcross
    | some entry =>
      simp only
      obtain ⟨wip', d', hstep, hinv', hctx, hmem⟩ := layerStep_spec g decl ext hext entry wip d hinv
      rw [hstep]
      simp only
      obtain ⟨out, ho, hm, hc⟩ := ih wip' d' hinv'
      refine ⟨out, ho, ?_, ?_⟩
      · intro x hx
        rw [List.filterMap_cons_some hs]
        rcases hm x hx with h | h
        · rcases hmem x h with h' | h'
          · exact Or.inl h'
          · exact Or.inr (by rw [h']; exact List.mem_cons_self ..)
        · exact Or.inr (List.mem_cons_of_mem _ h)
      · intro hna hce hcw hpw hcross
        rw [List.filterMap_cons_some hs] at hpw hcross
        have hna_e := hna e (List.mem_cons_self ..)
        obtain ⟨hsem, hkind, hlay, _⟩ := simp3_some g decl ext hna_e hs
        rw [List.pairwise_cons] at hpw
        have hce_entry : entry.kind = .ext → entry.layers = [] := by
          intro hk
          rw [hlay]
          exact hce e (List.mem_cons_self ..) (hkind ▸ hk)
        have hcw' : ExtEntriesClean wip' := by
          intro x hx
          rcases hmem x hx with h | h
          · exact hcw x h
          · subst h; exact hce_entry
        have hcross' : ∀ x ∈ es.filterMap simp3, SafeAgainst g x wip' := by
          intro x hx y hy
          rcases hmem y hy with h | h
          · exact hcross x (List.mem_cons_of_mem _ hx) y h
          · subst h
            exact hpw.1 x hx
        have hc' := hc (fun x hx => hna x (List.mem_cons_of_mem _ hx))
          (fun x hx => hce x (List.mem_cons_of_mem _ hx)) hcw' hpw.2 hcross'
        refine hc'.trans ?_
        have e1 : semN g decl ext (wip' ++ es) = semN g decl ext wip' ++ semN g decl ext es := semN_append ..
        have e2 : semN g decl ext (wip ++ e :: es) = semN g decl ext (wip ++ [entry]) ++ semN g decl ext es := by
          simp [semN, hsem]
        rw [e1, e2]
        exact (hctx (hcross entry (List.mem_cons_self ..)) hce_entry hcw).append (CtxSame.rfl' _)

/-- **the forward pass never indexes out of range**, whatever its input -/
theorem layerPass_total (g : Graph) (es : List Entry) : ∃ out, layerPass g es = some out := by
  obtain ⟨out, ho, _, _⟩ := layerLoop_spec g (fun _ => ⟨0, 0, 0, false⟩) (fun _ => []) (fun _ it hit => by cases hit)
    es [] [] (fun r hr => by cases hr)
  exact ⟨out, ho⟩

/-- the hypothesis of the forward pass about its input -/
def SafeLayers (g : Graph) (es : List Entry) : Prop := (es.filterMap simp3).Pairwise (SafeLayerPair g)

theorem layerPass_spec (g : Graph) (decl : Nat → Decl) (ext : Nat → List Item) (hext : ExtNoLayers ext)
    (es : List Entry) (hna : NoAnonEntries es) (hce : ExtEntriesClean es) (hsafe : SafeLayers g es) :
    ∃ out, layerPass g es = some out ∧ CtxSame (semN g decl ext out) (semN g decl ext es) ∧ NoAnonEntries out := by
  obtain ⟨out, ho, hm, hc⟩ := layerLoop_spec g decl ext hext es [] [] (fun r hr => by cases hr)
  have hc' := hc hna hce (fun x hx => by cases hx) hsafe (fun x _ y hy => by cases hy)
  refine ⟨out, ho, by simpa using hc', ?_⟩
  intro x hx
  rcases hm x hx with h | h
  · cases h
  · rw [List.mem_filterMap] at h
    obtain ⟨e, he, hs⟩ := h
    obtain ⟨_, _, _, hsub⟩ := simp3_some g decl ext (hna e he) hs
    exact fun c hc => hna e he c (hsub c hc)

end EsbuildModel.CssImport
