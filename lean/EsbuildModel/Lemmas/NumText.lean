import EsbuildModel.Impl.NumText
import EsbuildModel.Lemmas.JsNumber
/-!
Helper lemmas about the byte-text primitives of `Impl/NumText.lean` (index search, zero counting) and about
slicing a concatenation at a known offset.
-/
namespace EsbuildModel.NumText
open EsbuildModel.Spec.Num

theorem isDig_eq_isDigit : isDig = isDigit := rfl

/-! ### slicing `a ++ b` at `a.length + n` -/

theorem take_len_add {α} (a b : List α) (n : Nat) : (a ++ b).take (a.length + n) = a ++ b.take n := by
  induction a with
  | nil => simp
  | cons x a ih => simp [Nat.succ_add, ih]

theorem drop_len_add {α} (a b : List α) (n : Nat) : (a ++ b).drop (a.length + n) = b.drop n := by
  induction a with
  | nil => simp
  | cons x a ih => simp [Nat.succ_add, ih]

theorem getElem?_len_add {α} (a b : List α) (n : Nat) : (a ++ b)[a.length + n]? = b[n]? := by
  induction a with
  | nil => simp
  | cons x a ih => simp [Nat.succ_add, ih]

theorem take_len {α} (a b : List α) : (a ++ b).take a.length = a := by
  simp

theorem drop_len {α} (a b : List α) : (a ++ b).drop a.length = b := by
  simp

/-! ### index search -/

theorem indexOf_none {c : Char} {l : List Char} (h : c ∉ l) : indexOf c l = none := by
  induction l with
  | nil => rfl
  | cons x l ih =>
    simp only [List.mem_cons, not_or] at h
    simp [indexOf, Ne.symm h.1, ih h.2]

theorem indexOf_append {c : Char} {a : List Char} (b : List Char) (h : c ∉ a) :
    indexOf c (a ++ c :: b) = some a.length := by
  induction a with
  | nil => simp [indexOf]
  | cons x a ih =>
    simp only [List.mem_cons, not_or] at h
    simp [indexOf, Ne.symm h.1, ih h.2]

theorem lastIndexOf_none {c : Char} {l : List Char} (h : c ∉ l) : lastIndexOf c l = none := by
  induction l with
  | nil => rfl
  | cons x l ih =>
    simp only [List.mem_cons, not_or] at h
    simp [lastIndexOf, Ne.symm h.1, ih h.2]

theorem lastIndexOf_append {c : Char} (a : List Char) {b : List Char} (h : c ∉ b) :
    lastIndexOf c (a ++ c :: b) = some a.length := by
  induction a with
  | nil => simp [lastIndexOf, lastIndexOf_none h]
  | cons x a ih => simp [lastIndexOf, ih]

/-! ### zero counting -/

theorem countZeros_of_head {l : List Char} (h : l.head? ≠ some '0') : countZeros l = 0 := by
  cases l with
  | nil => rfl
  | cons c l =>
    have : c ≠ '0' := by intro hc; apply h; simp [hc]
    simp [countZeros, this]

theorem countZeros_zeros_append (k : Nat) {l : List Char} (h : l.head? ≠ some '0') :
    countZeros (List.replicate k '0' ++ l) = k := by
  induction k with
  | zero => simpa using countZeros_of_head h
  | succ k ih => simp [List.replicate_succ, countZeros, ih]

/-- every text is some zeros followed by a text that does not start with '0' -/
theorem exists_zeros_prefix (l : List Char) :
    ∃ z l', l = List.replicate z '0' ++ l' ∧ l'.head? ≠ some '0' := by
  induction l with
  | nil => exact ⟨0, [], rfl, by simp⟩
  | cons c l ih =>
    by_cases hc : c = '0'
    · obtain ⟨z, l', h1, h2⟩ := ih
      exact ⟨z + 1, l', by rw [hc, h1, List.replicate_succ]; rfl, h2⟩
    · exact ⟨0, c :: l, rfl, by simp [hc]⟩

/-- every text is a text that does not end with '0' followed by some zeros -/
theorem exists_zeros_suffix (l : List Char) :
    ∃ l' z, l = l' ++ List.replicate z '0' ∧ l'.getLast? ≠ some '0' := by
  obtain ⟨z, r, h1, h2⟩ := exists_zeros_prefix l.reverse
  refine ⟨r.reverse, z, ?_, ?_⟩
  · have := congrArg List.reverse h1
    simpa using this
  · simpa [List.getLast?_reverse] using h2

end EsbuildModel.NumText
