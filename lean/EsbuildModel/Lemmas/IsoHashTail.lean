import EsbuildModel.Lemmas.IsoHashInj
/-!
Reading back the END of the pre-image: piece data (their number is not written), the three source-map
pieces, the source-map mode (written only when the map has content), the legal comments and their mode
(written only when there are comments).
-/
namespace EsbuildModel.IsoHash
open EsbuildModel.Pieces

/-- external legal comments as esbuild collects them: at least four bytes (`//!` + newline is the
shortest), no NUL among the first four, shorter than 16 MiB − 8 -/
def LegalShape (L : List Nat) : Prop :=
  L = [] ∨ ∃ c0 c1 c2 c3 rest, L = c0 :: c1 :: c2 :: c3 :: rest ∧ c0 ≠ 0 ∧ c1 ≠ 0 ∧ c2 ≠ 0 ∧ c3 ≠ 0 ∧
    L.length + 8 ≤ 16777216

/-- a written source-map mode is one of Inline (1), LinkedWithComment (2), ExternalWithoutComment (3),
InlineAndExternal (4): with SourceMapNone (0) no map is generated -/
def ModeShape (m : Option Nat) : Prop := ∀ v, m = some v → 1 ≤ v ∧ v ≤ 4

/-- the part of a tuple behind the public path, as bytes -/
def endBytes (t : Tuple) : List Nat :=
  Pieces.preimage (t.data ++ [t.sm.pfx, t.sm.mappings, t.sm.sfx]) ++ tailBytes t

theorem hasContent_of_ne (sm : SMPieces) (h : sm.pfx ≠ [] ∨ sm.mappings ≠ [] ∨ sm.sfx ≠ []) :
    sm.hasContent = true := by
  unfold SMPieces.hasContent
  simp only [gt_iff_lt, decide_eq_true_eq]
  rcases h with h | h | h <;> have := List.length_pos_iff.2 h <;> omega

theorem not_hasContent (sm : SMPieces) (h : sm.hasContent = false) :
    sm.pfx = [] ∧ sm.mappings = [] ∧ sm.sfx = [] := by
  unfold SMPieces.hasContent at h
  simp only [gt_iff_lt, decide_eq_false_iff_not, Nat.not_lt, Nat.le_zero_eq, Nat.add_eq_zero_iff] at h
  exact ⟨List.eq_nil_of_length_eq_zero h.1.1, List.eq_nil_of_length_eq_zero h.1.2,
    List.eq_nil_of_length_eq_zero h.2⟩

/-- a map that is not all-empty has a prefix starting with `{` -/
theorem SMShape.pfx_head {sm : SMPieces} (h : SMShape sm)
    (hne : sm.pfx ≠ [] ∨ sm.mappings ≠ [] ∨ sm.sfx ≠ []) : sm.pfx.head? = some lbrace := by
  rcases h with ⟨h1, h2, h3⟩ | ⟨h, _⟩
  · rcases hne with hne | hne | hne
    · exact absurd h1 hne
    · exact absurd h2 hne
    · exact absurd h3 hne
  · exact h

/-- the last three items of `D ++ [x, y, z]` -/
theorem last3 (D D' : List (List Nat)) (x y z x' y' z' : List Nat)
    (h : D ++ [x, y, z] = D' ++ [x', y', z']) : D = D' ∧ x = x' ∧ y = y' ∧ z = z' := by
  obtain ⟨h1, h2⟩ := List.append_inj' h (by simp)
  simp only [List.cons.injEq, and_true] at h2
  exact ⟨h1, h2⟩

/-- the byte-level heart: an item `k1` of 1–4 bytes followed by a further item `k2` cannot be carved out of
`le32 |L| ++ L ++ …` when `L` has the shape of legal comments: the length prefix of `k2` would contain one
of the first four bytes of `L` as its most significant byte, so `k2` would be longer than everything -/
theorem carve_absurd (k1 k2 L : List Nat) (rest tl : List Nat)
    (hk1 : 1 ≤ k1.length ∧ k1.length ≤ 4) (hk2 : k2.length < 4294967296)
    (hL : ∃ c0 c1 c2 c3 r, L = c0 :: c1 :: c2 :: c3 :: r ∧ c0 ≠ 0 ∧ c1 ≠ 0 ∧ c2 ≠ 0 ∧ c3 ≠ 0 ∧
      L.length + 8 ≤ 16777216)
    (h : k1 ++ (lenPrefixed k2 ++ rest) = lenPrefixed L ++ tl) (htl : tl.length = 4) : False := by
  obtain ⟨c0, c1, c2, c3, r, rfl, h0, h1, h2, h3, hlen⟩ := hL
  have hlen' := congrArg List.length h
  simp only [lenPrefixed, List.length_append, le32_length, List.length_cons] at hlen' hlen
  simp only [lenPrefixed, List.length_cons] at h
  rw [Nat.mod_eq_of_lt hk2, Nat.mod_eq_of_lt (by omega)] at h
  generalize hq : k2.length = q at h hlen' hk2
  generalize hn : r.length = n at h hlen' hlen
  simp only [le32] at h
  match k1, hk1 with
  | [_], _ =>
    simp only [List.cons_append, List.nil_append, List.cons.injEq] at h
    simp only [List.length_cons, List.length_nil] at hlen'
    omega
  | [_, _], _ =>
    simp only [List.cons_append, List.nil_append, List.cons.injEq] at h
    simp only [List.length_cons, List.length_nil] at hlen'
    omega
  | [_, _, _], _ =>
    simp only [List.cons_append, List.nil_append, List.cons.injEq] at h
    simp only [List.length_cons, List.length_nil] at hlen'
    omega
  | [_, _, _, _], _ =>
    simp only [List.cons_append, List.nil_append, List.cons.injEq] at h
    simp only [List.length_cons, List.length_nil] at hlen'
    omega
  | [], hk => simp at hk
  | _ :: _ :: _ :: _ :: _ :: _, hk => simp at hk

/-- everything the argument needs to know about one side -/
structure Shape (t : Tuple) : Prop where
  wf : t.WF
  sm : SMShape t.sm
  mode : ModeShape t.smMode
  legal : LegalShape t.legal

theorem preimage_eq_nil (K : List (List Nat)) (h : Pieces.preimage K = []) : K = [] := by
  cases K with
  | nil => rfl
  | cons k K' =>
    rw [Pieces.preimage_cons] at h
    have := congrArg List.length h
    simp [le32_length] at this

/-- the legal comments and their mode: absent together or present together -/
theorem legalBytes_cases (t : Tuple) (wf : t.WF) :
    (t.legal = [] ∧ t.legalMode = none ∧ tailBytes t = modeBytes t.smMode) ∨
    (∃ l, t.legal ≠ [] ∧ t.legalMode = some l ∧
      tailBytes t = modeBytes t.smMode ++ (lenPrefixed t.legal ++ le32 l)) := by
  unfold tailBytes optItem
  by_cases hL : t.legal = []
  · left
    have hn : t.legalMode = none := by
      cases hm : t.legalMode with
      | none => rfl
      | some l => exact absurd hL (wf.legal.1 (by simp [hm]))
    simp [hL, hn, modeBytes, Pieces.preimage]
  · right
    have hs : t.legalMode.isSome = true := wf.legal.2 hL
    cases hm : t.legalMode with
    | none => simp [hm] at hs
    | some l => exact ⟨l, hL, rfl, by simp [hL, modeBytes, Pieces.preimage]⟩

theorem lenPrefixed_split (k r : List Nat) :
    lenPrefixed k ++ r = le32 (k.length % 4294967296) ++ (k ++ r) := by
  simp [lenPrefixed]

/-- one side cannot have MORE items in front of its tail than the other -/
theorem no_shift (a b : Tuple) (K : List (List Nat)) (fa : Fits a) (fb : Fits b) (sa : Shape a) (sb : Shape b)
    (hI : a.data ++ [a.sm.pfx, a.sm.mappings, a.sm.sfx]
        = (b.data ++ [b.sm.pfx, b.sm.mappings, b.sm.sfx]) ++ K)
    (hB : Pieces.preimage K ++ tailBytes a = tailBytes b) : K = [] := by
  cases K with
  | nil => rfl
  | cons k1 K' =>
    exfalso
    have hKfit : ∀ x ∈ k1 :: K', x.length < 4294967296 := by
      intro x hx
      apply fa.items x
      unfold items
      rw [hI]
      simp only [List.mem_append]
      exact Or.inr (Or.inr (Or.inr hx))
    have hk1 := hKfit k1 (by simp)
    rw [Pieces.preimage_cons] at hB
    have hB' : le32 (k1.length % 4294967296) ++ (k1 ++ (Pieces.preimage K' ++ tailBytes a)) = tailBytes b := by
      simpa using hB
    rcases legalBytes_cases b sb.wf with ⟨hLb, _, hTb⟩ | ⟨l', hLb, _, hTb⟩
    · -- b wrote no legal comments
      cases hm : b.smMode with
      | none =>
        rw [hTb, hm] at hB'
        have := congrArg List.length hB'
        simp [modeBytes, le32_length] at this
      | some m' =>
        rw [hTb, hm] at hB'
        have hB2 : le32 (k1.length % 4294967296) ++ (k1 ++ (Pieces.preimage K' ++ tailBytes a)) = le32 m' ++ [] := by
          simpa [modeBytes] using hB'
        obtain ⟨e1, e2⟩ := le32_append_inj _ _ _ _ (Nat.mod_lt _ (by decide)) (fb.smMode m' hm) hB2
        have hk : k1 = [] := by
          cases k1 with
          | nil => rfl
          | cons x xs => simp at e2
        rw [hk] at e1
        have := (sb.mode m' hm).1
        simp at e1
        omega
    · have hLfit := fb.legal
      cases hm : b.smMode with
      | none =>
        -- b has no map: its three source-map items are empty
        have hc : b.sm.hasContent = false := by
          have := sb.wf.sm; rw [hm] at this; simpa using this.symm
        obtain ⟨hb1, hb2, hb3⟩ := not_hasContent b.sm hc
        rw [hTb, hm] at hB'
        have hB2 : lenPrefixed k1 ++ (Pieces.preimage K' ++ tailBytes a) = lenPrefixed b.legal ++ le32 l' := by
          rw [lenPrefixed_split]; simpa [modeBytes] using hB'
        obtain ⟨ek, hrest⟩ := lenPrefixed_append_inj _ _ _ _ hk1 hLfit hB2
        rw [hb1, hb2, hb3] at hI
        cases K' with
        | nil =>
          have hI' : a.data ++ [a.sm.pfx, a.sm.mappings, a.sm.sfx] = (b.data ++ [[]]) ++ [[], [], k1] := by
            rw [hI]; simp
          obtain ⟨_, h1, _, h3⟩ := last3 _ _ _ _ _ _ _ _ hI'
          have := sa.sm.pfx_head (Or.inr (Or.inr (by rw [h3, ek]; exact hLb)))
          rw [h1] at this; simp at this
        | cons k2 K'' =>
          rw [Pieces.preimage_cons] at hrest
          have hlen := congrArg List.length hrest
          simp only [List.length_append, le32_length] at hlen
          have hk2 : k2 = [] := List.eq_nil_of_length_eq_zero (by omega)
          have hK'' : K'' = [] := preimage_eq_nil K'' (List.eq_nil_of_length_eq_zero (by omega))
          rw [hk2, hK''] at hI
          have hI' : a.data ++ [a.sm.pfx, a.sm.mappings, a.sm.sfx] = (b.data ++ [[], []]) ++ [[], k1, []] := by
            rw [hI]; simp
          obtain ⟨_, h1, h2, _⟩ := last3 _ _ _ _ _ _ _ _ hI'
          have := sa.sm.pfx_head (Or.inr (Or.inl (by rw [h2, ek]; exact hLb)))
          rw [h1] at this; simp at this
      | some m' =>
        rw [hTb, hm] at hB'
        have hB2 : le32 (k1.length % 4294967296) ++ (k1 ++ (Pieces.preimage K' ++ tailBytes a))
            = le32 m' ++ (lenPrefixed b.legal ++ le32 l') := by
          simpa [modeBytes] using hB'
        obtain ⟨e1, e2⟩ := le32_append_inj _ _ _ _ (Nat.mod_lt _ (by decide)) (fb.smMode m' hm) hB2
        rw [Nat.mod_eq_of_lt hk1] at e1
        have hm' := sb.mode m' hm
        cases K' with
        | nil =>
          have hI' : a.data ++ [a.sm.pfx, a.sm.mappings, a.sm.sfx]
              = (b.data ++ [b.sm.pfx]) ++ [b.sm.mappings, b.sm.sfx, k1] := by
            rw [hI]; simp
          obtain ⟨_, h1, _, h3⟩ := last3 _ _ _ _ _ _ _ _ hI'
          have hk1ne : k1 ≠ [] := by
            intro h0; rw [h0] at e1; simp at e1; omega
          have hp := sa.sm.pfx_head (Or.inr (Or.inr (by rw [h3]; exact hk1ne)))
          rw [h1] at hp
          rcases sb.sm with ⟨_, h0, _⟩ | ⟨_, hne⟩
          · rw [h0] at hp; simp at hp
          · exact hne hp
        | cons k2 K'' =>
          rw [Pieces.preimage_cons] at e2
          have hLs : ∃ c0 c1 c2 c3 r, b.legal = c0 :: c1 :: c2 :: c3 :: r ∧ c0 ≠ 0 ∧ c1 ≠ 0 ∧ c2 ≠ 0 ∧
              c3 ≠ 0 ∧ b.legal.length + 8 ≤ 16777216 := by
            rcases sb.legal with h0 | h
            · exact absurd h0 hLb
            · exact h
          refine carve_absurd k1 k2 b.legal (Pieces.preimage K'' ++ tailBytes a) (le32 l')
            ⟨by omega, by omega⟩ (hKfit k2 (by simp)) hLs ?_ (le32_length l')
          simpa [lenPrefixed] using e2

/-- the legal comments and their mode can be read back -/
theorem legalTail_inj (a b : Tuple) (fa : Fits a) (fb : Fits b) (wa : a.WF) (wb : b.WF)
    (h : Pieces.preimage (optItem a.legal) ++ modeBytes a.legalMode
       = Pieces.preimage (optItem b.legal) ++ modeBytes b.legalMode) :
    a.legal = b.legal ∧ a.legalMode = b.legalMode := by
  have ha := legalBytes_cases a wa
  have hb := legalBytes_cases b wb
  unfold tailBytes at ha hb
  rcases ha with ⟨hLa, hla, _⟩ | ⟨la, hLa, hla, hTa⟩
  · rcases hb with ⟨hLb, hlb, _⟩ | ⟨lb, hLb, hlb, hTb⟩
    · exact ⟨by rw [hLa, hLb], by rw [hla, hlb]⟩
    · exfalso
      have e := List.append_cancel_left hTb
      rw [hLa, hla, e] at h
      have := congrArg List.length h
      simp [optItem, Pieces.preimage, modeBytes, lenPrefixed, le32_length] at this
  · have ea := List.append_cancel_left hTa
    rcases hb with ⟨hLb, hlb, _⟩ | ⟨lb, hLb, hlb, hTb⟩
    · exfalso
      rw [hLb, hlb, ea] at h
      have := congrArg List.length h
      simp [optItem, Pieces.preimage, modeBytes, lenPrefixed, le32_length] at this
    · have eb := List.append_cancel_left hTb
      rw [ea, eb] at h
      obtain ⟨e1, e2⟩ := lenPrefixed_append_inj _ _ _ _ fa.legal fb.legal h
      have e3 := (le32_append_inj la lb [] [] (fa.legalMode la hla) (fb.legalMode lb hlb) (by simpa using e2)).1
      exact ⟨e1, by rw [hla, hlb, e3]⟩

theorem data_items_fit (t : Tuple) (f : Fits t) :
    ∀ x ∈ t.data ++ [t.sm.pfx, t.sm.mappings, t.sm.sfx], x.length < 4294967296 := by
  intro x hx
  apply f.items x
  unfold items
  simp only [List.mem_append]
  exact Or.inr (Or.inr (List.mem_append.1 hx))

/-- step 2b: piece data, source-map pieces, both modes and the legal comments can be read back, although
neither the number of pieces nor the presence of the map mode / the legal comments is written -/
theorem end_inj (a b : Tuple) (fa : Fits a) (fb : Fits b) (sa : Shape a) (sb : Shape b)
    (h : endBytes a = endBytes b) :
    a.data = b.data ∧ a.sm = b.sm ∧ a.smMode = b.smMode ∧ a.legal = b.legal ∧ a.legalMode = b.legalMode := by
  unfold endBytes at h
  -- no shift in either direction
  have hIT : a.data ++ [a.sm.pfx, a.sm.mappings, a.sm.sfx] = b.data ++ [b.sm.pfx, b.sm.mappings, b.sm.sfx]
      ∧ tailBytes a = tailBytes b := by
    rcases preimage_prefix _ _ _ _ (data_items_fit a fa) (data_items_fit b fb) h with ⟨K, hK, hr⟩ | ⟨K, hK, hr⟩
    · have := no_shift a b K fa fb sa sb hK hr
      subst this
      exact ⟨by simpa using hK, by simpa [Pieces.preimage] using hr⟩
    · have := no_shift b a K fb fa sb sa hK hr.symm
      subst this
      exact ⟨by simpa using hK.symm, by simpa [Pieces.preimage] using hr⟩
  obtain ⟨hI, hT⟩ := hIT
  obtain ⟨hD, h1, h2, h3⟩ := last3 _ _ _ _ _ _ _ _ hI
  have hsm : a.sm = b.sm := by cases ha : a.sm; cases hb : b.sm; simp_all
  -- the source-map mode
  have hsome : a.smMode.isSome = b.smMode.isSome := by rw [sa.wf.sm, sb.wf.sm, hsm]
  unfold tailBytes at hT
  cases hma : a.smMode with
  | none =>
    cases hmb : b.smMode with
    | some m' => rw [hma, hmb] at hsome; simp at hsome
    | none =>
      rw [hma, hmb] at hT
      simp only [modeBytes, List.nil_append] at hT
      obtain ⟨e1, e2⟩ := legalTail_inj a b fa fb sa.wf sb.wf hT
      exact ⟨hD, hsm, rfl, e1, e2⟩
  | some m =>
    cases hmb : b.smMode with
    | none => rw [hma, hmb] at hsome; simp at hsome
    | some m' =>
      rw [hma, hmb] at hT
      simp only [modeBytes] at hT
      obtain ⟨e0, hT'⟩ := le32_append_inj m m' _ _ (fa.smMode m hma) (fb.smMode m' hmb) hT
      obtain ⟨e1, e2⟩ := legalTail_inj a b fa fb sa.wf sb.wf hT'
      exact ⟨hD, hsm, by rw [e0], e1, e2⟩

/-- step 2: everything behind the file entries -/
theorem items_tail_inj (a b : Tuple) (fa : Fits a) (fb : Fits b) (sa : Shape a) (sb : Shape b)
    (hT : a.tmpl.length = b.tmpl.length) (hP : a.pub = [] ↔ b.pub = [])
    (h : Pieces.preimage (items a) ++ tailBytes a = Pieces.preimage (items b) ++ tailBytes b) :
    a.tmpl = b.tmpl ∧ a.pub = b.pub ∧ a.data = b.data ∧ a.sm = b.sm ∧ a.smMode = b.smMode ∧
      a.legal = b.legal ∧ a.legalMode = b.legalMode := by
  have fita : ∀ x ∈ items a, x.length < 4294967296 := fa.items
  have fitb : ∀ x ∈ items b, x.length < 4294967296 := fb.items
  unfold items at h fita fitb
  simp only [preimage_append, List.append_assoc] at h
  obtain ⟨h1, h⟩ := preimage_peel a.tmpl b.tmpl _ _ hT
    (fun x hx => fita x (by simp [hx])) (fun x hx => fitb x (by simp [hx])) h
  obtain ⟨h2, h⟩ := preimage_peel (optItem a.pub) (optItem b.pub) _ _ (optItem_length _ _ hP)
    (fun x hx => fita x (by simp [hx])) (fun x hx => fitb x (by simp [hx])) h
  have h' : endBytes a = endBytes b := by
    unfold endBytes
    simpa only [preimage_append, List.append_assoc] using h
  obtain ⟨h3, h4, h5, h6, h7⟩ := end_inj a b fa fb sa sb h'
  exact ⟨h1, optItem_eq _ _ h2, h3, h4, h5, h6, h7⟩

end EsbuildModel.IsoHash
