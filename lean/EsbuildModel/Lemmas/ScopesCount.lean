import EsbuildModel.Lemmas.ScopesVisit
/-!
Every symbol the visit pass creates is declared at most once in the whole scope tree (counting argument over the
zipper the pass walks on).
-/
namespace EsbuildModel.Scopes

/-- how often the scope declares `l` -/
def cntF (l : Nat) (f : Frame) : Nat := f.decls.count l
def cntKids (l : Nat) (ks : List Sc) : Nat := (allKids ks).count l
def cntChain (l : Nat) : List Frame → Nat
  | [] => 0
  | f :: fs => cntF l f + cntChain l fs

/-- how often `l` is declared in everything the visit pass holds at a point: the current scope, its children, the
enclosing scopes -/
def Total (l : Nat) (c : VCtx) : Nat := cntF l c.cur + cntKids l c.todo + cntKids l c.done + cntChain l c.below

/-- 1 if `l` was created between the two lengths -/
def ind (a b l : Nat) : Nat := if a ≤ l ∧ l < b then 1 else 0

theorem ind_add {a b c l : Nat} (hab : a ≤ b) (hbc : b ≤ c) : ind a b l + ind b c l = ind a c l := by
  unfold ind
  split <;> split <;> split <;> omega

theorem ind_self (a l : Nat) : ind a a l = 0 := by unfold ind; split <;> omega

theorem ind_succ (a l : Nat) : ind a (a + 1) l = if l = a then 1 else 0 := by
  unfold ind; split <;> split <;> omega

theorem cntKids_cons (l : Nat) (f : Frame) (kids : List Sc) (rest : List Sc) :
    cntKids l (Sc.node f kids :: rest) = cntF l f + cntKids l kids + cntKids l rest := by
  simp [cntKids, allKids, Sc.all, cntF, List.count_append, Nat.add_assoc]

theorem cntKids_append (l : Nat) (a b : List Sc) : cntKids l (a ++ b) = cntKids l a + cntKids l b := by
  simp [cntKids, allKids_append, List.count_append]

theorem cntKids_nil (l : Nat) : cntKids l [] = 0 := by simp [cntKids, allKids]

theorem count_refsOf_insert (l n r : Nat) : ∀ (m : Members),
    (refsOf (insert n r m)).count l ≤ (refsOf m).count l + (if l = r then 1 else 0)
  | [] => by
    simp only [insert, refsOf, List.map_cons, List.map_nil, List.count_cons, List.count_nil]
    split <;> split <;> simp_all
  | (k, v) :: rest => by
    simp only [insert]
    split
    · simp only [refsOf, List.map_cons, List.count_cons]
      split <;> split <;> split <;> simp_all <;> omega
    · have := count_refsOf_insert l n r rest
      simp only [refsOf, List.map_cons, List.count_cons] at this ⊢
      omega

theorem cntF_insert (l n r : Nat) (f : Frame) :
    cntF l { f with members := insert n r f.members } ≤ cntF l f + (if l = r then 1 else 0) := by
  have := count_refsOf_insert l n r f.members
  simp only [cntF, Frame.decls, List.count_append] at this ⊢
  omega

theorem cntChain_updLast (l n r : Nat) : ∀ (chain : List Frame),
    cntChain l (updLast (fun m => { m with members := insert n r m.members }) chain)
      ≤ cntChain l chain + (if l = r then 1 else 0)
  | [] => by simp [updLast, cntChain]
  | [x] => by
    have := cntF_insert l n r x
    simp only [updLast, cntChain] at this ⊢
    omega
  | x :: y :: rest => by
    have := cntChain_updLast l n r (y :: rest)
    simp only [updLast, cntChain] at this ⊢
    omega

theorem cntChain_map_eval (l : Nat) : ∀ (chain : List Frame),
    cntChain l (chain.map (fun f => { f with eval := true })) = cntChain l chain
  | [] => rfl
  | x :: xs => by
    simp only [List.map_cons, cntChain, cntChain_map_eval l xs]
    rfl

theorem findSymbol_count (l : Nat) (chain : List Frame) (syms : Syms) (n : Name) :
    cntChain l (findSymbol chain syms n).1 ≤ cntChain l chain + ind syms.length (findSymbol chain syms n).2.1.length l := by
  unfold findSymbol
  split
  · exact Nat.le_add_right _ _
  · simp only [newSymbol]
    have hl : ∀ w : Bool, (if w = true then pin (syms ++ [⟨SK.unbound, n, none, false⟩]) syms.length
        else syms ++ [⟨SK.unbound, n, none, false⟩]).length = syms.length + 1 := by
      intro w; split <;> simp
    rw [hl, ind_succ]
    exact cntChain_updLast l n syms.length chain

theorem labelStep_count (l : Nat) (full : Bool) (lbl : Option Name) (f : Frame) (syms : Syms) :
    cntF l (labelStep full lbl f syms).1 ≤ cntF l f + ind syms.length (labelStep full lbl f syms).2.length l ∧
    syms.length ≤ (labelStep full lbl f syms).2.length := by
  unfold labelStep
  split
  · simp only [newSymbol, List.length_append, List.length_singleton]
    rw [ind_succ]
    refine ⟨?_, by omega⟩
    simp only [cntF, Frame.decls, List.count_append]
    have h1 : (some syms.length : Option Nat).toList.count l = if l = syms.length then 1 else 0 := by
      simp only [Option.toList, List.count_cons, List.count_nil]
      split <;> split <;> simp_all
    rw [h1]
    omega
  · refine ⟨?_, Nat.le_refl _⟩
    show cntF l f ≤ cntF l f + ind syms.length syms.length l
    omega

theorem classNameStrict_count (l : Nat) (full : Bool) (k : ScK) (f : Frame) (kids : List Sc) :
    cntF l (classNameStrict full k (.node f kids)).frame = cntF l f ∧
    cntKids l (classNameStrict full k (.node f kids)).children = cntKids l kids := by
  obtain ⟨h1, h2, _⟩ := classNameStrict_spec full k (.node f kids)
  constructor
  · unfold cntF; rw [h1]; rfl
  · unfold cntKids; rw [h2]; rfl

theorem total_chain (l : Nat) (c : VCtx) :
    Total l c = cntChain l (c.cur :: c.below) + cntKids l c.todo + cntKids l c.done := by
  simp only [Total, cntChain]; omega

/-- a step on the chain of scopes made by findSymbol -/
theorem total_find (l : Nat) {c c' : VCtx} {n : Name} {chain' : List Frame} {syms' : Syms} {r : Nat}
    (hfs : findSymbol (c.cur :: c.below) c.st.syms n = (chain', syms', r))
    {g : Frame → Frame} (hg : ∀ ch, cntChain l (ch.map g) = cntChain l ch)
    (hs : setChain { c with st := { c.st with syms := syms', refs := c.st.refs ++ [r] } } (chain'.map g) = some c') :
    Total l c' ≤ Total l c + ind c.st.syms.length c'.st.syms.length l ∧ c.st.syms.length ≤ c'.st.syms.length := by
  obtain ⟨hch, ht, hd, hst⟩ := setChain_spec hs
  have h1 := findSymbol_count l (c.cur :: c.below) c.st.syms n
  have h2 := (findSymbol_spec (c.cur :: c.below) c.st.syms n).1
  rw [hfs] at h1 h2
  simp only at h1 h2
  have hsy : c'.st.syms = syms' := by rw [hst]
  rw [total_chain l c', total_chain l c, ← hch, hg, ht, hd, hsy]
  exact ⟨by simp only at h1 ⊢; omega, h2⟩

mutual
theorem visitItem_count (full : Bool) (l : Nat) : ∀ (i : Item) (c c' : VCtx), visitItem full i c = some c' →
    Total l c' ≤ Total l c + ind c.st.syms.length c'.st.syms.length l ∧ c.st.syms.length ≤ c'.st.syms.length
  | .decl k n, c, c', h => by
    simp only [visitItem] at h
    split at h
    · cases h
    · split at h <;> cases h <;> exact ⟨Nat.le_add_right _ _, Nat.le_refl _⟩
  | .declArgs, c, c', h => by
    simp only [visitItem] at h; cases h; exact ⟨Nat.le_add_right _ _, Nat.le_refl _⟩
  | .genSym _, c, c', h => by
    simp only [visitItem] at h; cases h; exact ⟨Nat.le_add_right _ _, Nat.le_refl _⟩
  | .rawSym _, c, c', h => by
    simp only [visitItem] at h
    split at h
    · cases h
    · cases h; exact ⟨Nat.le_add_right _ _, Nat.le_refl _⟩
  | .classInner on, c, c', h => by
    simp only [visitItem] at h
    split at h
    · split at h
      · next n =>
        simp only [newSymbol] at h
        cases h
        have := cntF_insert l (classNameOf c n) c.st.syms.length c.cur
        simp only [Total, List.length_append, List.length_singleton, ind_succ]
        exact ⟨by omega, by omega⟩
      · simp only [newSymbol] at h
        cases h
        simp only [Total, List.length_append, List.length_singleton]
        exact ⟨by omega, by omega⟩
    · cases h; exact ⟨Nat.le_add_right _ _, Nat.le_refl _⟩
  | .ref n, c, c', h => by
    simp only [visitItem] at h
    cases hfs : findSymbol (c.cur :: c.below) c.st.syms n with
    | mk chain' rest =>
      cases rest with
      | mk syms' r =>
        rw [hfs] at h
        exact total_find l hfs (g := id) (fun ch => by simp) (by simpa using h)
  | .eval, c, c', h => by
    simp only [visitItem] at h
    cases hfs : findSymbol (c.cur :: c.below) c.st.syms evalName with
    | mk chain' rest =>
      cases rest with
      | mk syms' r =>
        rw [hfs] at h
        exact total_find l hfs (g := fun f => { f with eval := true }) (cntChain_map_eval l) h
  | .cut, c, c', h => by
    simp only [visitItem] at h
    split at h
    · obtain ⟨h1, h2, h3, h4, _, h6, _⟩ := endList_spec h
      simp only [Total, h1, h2, h3, h4, h6]
      exact ⟨Nat.le_add_right _ _, Nat.le_refl _⟩
    · cases h; exact ⟨Nat.le_add_right _ _, Nat.le_refl _⟩
  | .scope k us lbl body, c, c', h => by
    simp only [visitItem] at h
    split at h
    · cases h
    · next f kids todo' htodo =>
      split at h
      · cases h
      · split at h
        · cases h
        · next r hr =>
          split at h
          · cases h
          · next r2 hr2 =>
            obtain ⟨lc, ll⟩ := labelStep_count l full lbl f c.st.syms
            obtain ⟨cf, ck⟩ := classNameStrict_count l full k (labelStep full lbl f c.st.syms).1 kids
            obtain ⟨hrt, hrl⟩ := visitItems_count full l body _ r hr
            obtain ⟨e1, e2, e3, e4, _, e6, _⟩ := closeList_spec hr2
            unfold popVisit at h
            split at h
            · cases h
            · next cur' below' hbel =>
              split at h
              · cases h
              · next st' hce =>
                cases h
                have hlen' : st'.syms.length = r.st.syms.length := by
                  rw [classEpilogue_length hce]; simp only [pinMembers_length]; exact e6
                simp only at hrt hrl
                have hT : Total l r = cntF l r2.cur + cntKids l r.todo + cntKids l r2.done + cntChain l (cur' :: below') := by
                  simp only [Total, ← e1, ← e3, ← hbel, e4]
                have hi := ind_add (l := l) ll hrl
                simp only [Total, cntChain, cntKids_nil] at hrt hT
                simp only [Total, htodo, cntKids_cons, cntKids_append, cntKids_nil, hlen', cntChain] at hrt ⊢
                rw [cf, ck] at hrt
                exact ⟨by omega, Nat.le_trans ll hrl⟩
theorem visitItems_count (full : Bool) (l : Nat) : ∀ (is : List Item) (c c' : VCtx), visitItems full is c = some c' →
    Total l c' ≤ Total l c + ind c.st.syms.length c'.st.syms.length l ∧ c.st.syms.length ≤ c'.st.syms.length
  | [], c, c', h => by
    simp only [visitItems] at h; cases h; exact ⟨Nat.le_add_right _ _, Nat.le_refl _⟩
  | i :: is, c, c', h => by
    simp only [visitItems] at h
    split at h
    · cases h
    · next c1 h1 =>
      obtain ⟨t1, l1⟩ := visitItem_count full l i c c1 h1
      obtain ⟨t2, l2⟩ := visitItems_count full l is c1 c' h
      have := ind_add (l := l) l1 l2
      exact ⟨by omega, Nat.le_trans l1 l2⟩
end

end EsbuildModel.Scopes
