import EsbuildModel.Lemmas.JsonTok
/-
`lexAt` on string tokens and `StringLiteral()`.  Completeness direction.
-/
namespace EsbuildModel.Json
open EsbuildModel.Spec.Json

theorem lexString_dq (fl : Flavor) (L : Lx) (sk : Sk) (q : Cp) (r text rest : List Cp) (e : Nat) (slow : Bool)
    (hq : q.c = '"') (h : scanStr fl '"' r (sk.pos + q.w) = .done text rest e slow) :
    lexString fl L sk q r = .ok (if slow then
        { (L.at sk .str rest e) with strDec := none, strStart := sk.pos + q.w, strText := text }
      else { (L.at sk .str rest e) with strDec := some (text.map (·.c.toNat)) }) := by
  simp only [lexString, hq, h]
  simp only [show ∀ (x y : Char), (x = y) = (x = y) from fun _ _ => rfl, Char.reduceEq, if_false]
  cases slow <;> rfl

theorem lexAt_dq (fl : Flavor) (P : Params) (L : Lx) (sk : Sk) (q : Cp) (r : List Cp) (hq : q.c = '"') :
    lexAt fl P L sk (q :: r) = lexString fl L sk q r := by
  simp only [lexAt, hq]
  simp only [show ∀ (x y : Char), (x = y) = (x = y) from fun _ _ => rfl, Char.reduceEq, if_false, true_or, if_true]

theorem lexAt_string (fl : Flavor) (P : Params) (L : Lx) (sk : Sk) (cs : List SChar)
    (hok : strOk (dialectOf fl) cs = true) (rest : List Cp) :
    ∃ L' L'', lexAt fl P L sk (cps (strTok cs) ++ rest) = .ok L' ∧
      L'.view = ⟨.str, rest, sk.pos + widths (cps (strTok cs)), sk.pos, sk.nl, sk.log⟩ ∧
      stringLiteral fl L' = .ok (strUnits cs, L'') ∧ L''.view = L'.view := by
  obtain ⟨slow, h1, h2, h3⟩ := str_complete fl cs hok rest (sk.pos + (cpOf '"').w) (sk.pos + (cpOf '"').w)
  have hw : sk.pos + (cpOf '"').w + widths (cps (strRender cs)) + (cpOf '"').w = sk.pos + widths (cps (strTok cs)) := by
    simp [strTok, widths_append, Nat.add_assoc]
  rw [hw] at h1
  have hl : lexAt fl P L sk (cps (strTok cs) ++ rest) = lexString fl L sk (cpOf '"') (cps (strRender cs) ++ cpOf '"' :: rest) := by
    simp only [strTok, cps_cons, cps_append, cps_nil, List.cons_append, List.append_assoc, List.nil_append]
    exact lexAt_dq fl P L sk (cpOf '"') _ rfl
  rw [hl, lexString_dq fl L sk (cpOf '"') _ _ _ _ _ rfl h1]
  cases slow with
  | false =>
    refine ⟨_, _, rfl, rfl, ?_, rfl⟩
    have := h3 rfl
    simp only [Bool.false_eq_true, if_false, stringLiteral]
    rw [← this]
    simp [cps, List.map_map, Function.comp_def]
  | true =>
    refine ⟨_, { (L.at sk .str rest (sk.pos + widths (cps (strTok cs)))) with
        strDec := some (strUnits cs), strStart := sk.pos + (cpOf '"').w, strText := cps (strRender cs) }, rfl, rfl, ?_, rfl⟩
    simp [stringLiteral, h2]

end EsbuildModel.Json
