import EsbuildModel.Lemmas.StdioAsync
/-!
Invariants of the service machine (Impl/StdioAsync.lean), each proved over `Shape` (one step at packet level).
-/
namespace EsbuildModel.StdioAsync
set_option linter.unusedSimpArgs false

theorem countP_eraseP_find {α : Type} (p q : α → Bool) : ∀ (l : List α) (t : α), l.find? p = some t →
    (l.eraseP p).countP q + (if q t then 1 else 0) = l.countP q
  | [], t, h => by simp at h
  | x :: xs, t, h => by
    by_cases hp : p x = true
    · simp only [List.find?_cons, hp, Option.some.injEq] at h
      subst h
      simp [List.eraseP_cons, hp, List.countP_cons]
    · have hp' : p x = false := by simpa using hp
      simp only [List.find?_cons, hp'] at h
      have ih := countP_eraseP_find p q xs t h
      simp only [List.eraseP_cons, hp', List.countP_cons, cond_false]
      omega

/-! ## ids of requests to the host -/

structure IdsOk (s : State) : Prop where
  nodup : (s.callbacks.map (·.id)).Nodup
  below : ∀ c ∈ s.callbacks, c.id < s.nextId

theorem idsOk_init (p : Bool) : IdsOk (init p) := ⟨by simp [init], by simp [init]⟩

theorem idsOk_step {s s' : State} {w : List HostPkt} (h : Shape s w s') (hi : IdsOk s) : IdsOk s' := by
  obtain ⟨hn, hb⟩ := hi
  cases h with
  | hostWrite p => exact ⟨hn, hb⟩
  | close => exact ⟨hn, hb⟩
  | garbage rest hst => exact ⟨hn, hb⟩
  | answer id rest c hst hf =>
    refine ⟨?_, ?_⟩
    · exact List.Nodup.sublist (List.Sublist.map _ (List.eraseP_sublist)) hn
    · intro c hc; exact hb c (List.mem_of_mem_eraseP hc)
  | stale id rest hst hf => exact ⟨hn, hb⟩
  | spawn id cmd key rest s1 t hst hsame h1 h2 h3 h4 =>
    refine ⟨?_, ?_⟩
    · simpa [hsame.callbacks] using hn
    · simpa [hsame.callbacks, hsame.nextId] using hb
  | refuse id cmd key rest s1 tag hst hsame h1 =>
    refine ⟨?_, ?_⟩
    · simpa [syncReply, hsame.callbacks] using hn
    · simpa [syncReply, hsame.callbacks, hsame.nextId] using hb
  | started t a hf hst hb' ha hk hc => exact ⟨hn, hb⟩
  | finish t s1 hold hf hout hsame hh =>
    refine ⟨?_, ?_⟩
    · simpa [reply, hsame.callbacks] using hn
    · simpa [reply, hsame.callbacks, hsame.nextId] using hb
  | svcReq owner tag key =>
    refine ⟨?_, ?_⟩
    · simp only [svcSend, List.map_append, List.map_cons, List.map_nil]
      rw [List.nodup_append]
      refine ⟨hn, by simp, ?_⟩
      intro a ha b hb'
      simp only [List.mem_singleton] at hb'
      subst hb'
      obtain ⟨c, hc, rfl⟩ := List.mem_map.1 ha
      exact Nat.ne_of_lt (hb c hc)
    · intro c hc
      simp only [svcSend, List.mem_append, List.mem_singleton] at hc
      rcases hc with hc | rfl
      · exact Nat.lt_succ_of_lt (hb c hc)
      · exact Nat.lt_succ_self _
  | take isRequest id p hw hp => exact ⟨hn, hb⟩
  | writeDone p hw => exact ⟨hn, hb⟩
  | helpers hs => exact ⟨hn, hb⟩
  | dupKey t a hf hst hb' ha => exact ⟨hn, hb⟩

theorem idsOk_reach {s : State} (h : Reach s) : IdsOk s :=
  run_induction IdsOk idsOk_init (fun s a s' hi hs => idsOk_step (step_shape s s' a hs) hi) s h

/-! ## the stream from the host is delivered in order -/

theorem io_step {s s' : State} {w : List HostPkt} (h : Shape s w s') :
    s'.delivered ++ s'.stdin = s.delivered ++ s.stdin ++ w := by
  cases h with
  | hostWrite p => simp
  | close => simp
  | garbage rest hst => simp [hst]
  | answer id rest c hst hf => simp [hst]
  | stale id rest hst hf => simp [hst]
  | spawn id cmd key rest s1 t hst hsame h1 h2 h3 h4 => simp [hsame.delivered, hsame.stdin, hst]
  | refuse id cmd key rest s1 tag hst hsame h1 => simp [syncReply, hsame.delivered, hsame.stdin, hst]
  | started t a hf hst hb ha hk hc => simp
  | finish t s1 hold hf hout hsame hh => simp [reply, hsame.delivered, hsame.stdin]
  | svcReq owner tag key => simp [svcSend]
  | take isRequest id p hw hp => simp
  | writeDone p hw => simp
  | helpers hs => simp
  | dupKey t a hf hst hb ha => simp

/-- everything the host writes during the actions `as` -/
def hostWrites (as : List Action) : List HostPkt := (as.map hostWrote).flatten

theorem io_run : ∀ (as : List Action) (s s' : State), run s as = some s' →
    s'.delivered ++ s'.stdin = s.delivered ++ s.stdin ++ hostWrites as
  | [], s, s', h => by simp only [run, Option.some.injEq] at h; subst h; simp [hostWrites]
  | a :: as, s, s', h => by
    simp only [run] at h
    cases hst : step s a with
    | none => simp [hst] at h
    | some s1 =>
      rw [hst] at h
      have h1 := io_step (step_shape s s1 a hst)
      have h2 := io_run as s1 s' h
      rw [h2, h1]
      simp [hostWrites]


/-! ## counting packets -/

/-- a response carrying id `i` -/
def isResp (i : Nat) (p : OutPkt) : Bool := !p.isRequest && p.id == i
/-- a request to the host carrying id `n` -/
def isReqOut (n : Nat) (p : OutPkt) : Bool := p.isRequest && p.id == n
/-- a request from the host carrying id `i` -/
def isReqIn (i : Nat) : HostPkt → Bool
  | .request j _ _ => j == i
  | _ => false

/-- packets handed to `sendPacket` and not yet completely written -/
def outQueue (s : State) : List OutPkt := s.pending.map (·.pkt) ++ s.writing.toList

theorem countP_outQueue_take {s : State} {sel : Pending → Bool} {p : Pending} (q : OutPkt → Bool)
    (hw : s.writing = none) (hp : s.pending.find? sel = some p) :
    (outQueue { s with writing := some p.pkt, pending := s.pending.eraseP sel }).countP q = (outQueue s).countP q := by
  have h := countP_eraseP_find sel (q ∘ (·.pkt)) s.pending p hp
  simp only [outQueue, hw, List.countP_append, List.countP_map, Option.toList_some, Option.toList_none,
    List.countP_cons, List.countP_nil, Function.comp_apply] at h ⊢
  omega

/-- every delivered request is owed exactly one response: a handler still running, a response waiting for the
writer or being written, or a response already on stdout -/
def Answered (s : State) : Prop :=
  ∀ i, s.written.countP (isResp i) + (s.tasks.countP (·.id == i) + (outQueue s).countP (isResp i))
    = s.delivered.countP (isReqIn i)

theorem answered_init (p : Bool) : Answered (init p) := by intro i; simp [init, outQueue]

theorem answered_step {s s' : State} {w : List HostPkt} (h : Shape s w s') (hi : Answered s) : Answered s' := by
  intro i
  have hi := hi i
  cases h with
  | hostWrite p => exact hi
  | close => exact hi
  | garbage rest hst => simpa [outQueue, isReqIn] using hi
  | answer id rest c hst hf => simpa [outQueue, isReqIn] using hi
  | stale id rest hst hf => simpa [outQueue, isReqIn] using hi
  | spawn id cmd key rest s1 t hst hsame h1 h2 h3 h4 =>
    simp only [outQueue, addTask_tasks, addTask_pending, addTask_writing, addTask_written, addTask_delivered,
      hsame.tasks, hsame.pending, hsame.writing, hsame.written, hsame.delivered, List.countP_append,
      List.countP_cons, List.countP_nil, isReqIn, h1] at hi ⊢
    by_cases hid : id = i <;> simp [hid] at hi ⊢ <;> omega
  | refuse id cmd key rest s1 tag hst hsame h1 =>
    simp only [outQueue, syncReply, enqueue_tasks, enqueue_pending, enqueue_writing, enqueue_written,
      enqueue_delivered, hsame.tasks, hsame.pending, hsame.writing, hsame.written, hsame.delivered,
      List.countP_append, List.map_append, List.map_cons, List.map_nil, List.countP_cons, List.countP_nil, isReqIn,
      isResp, response] at hi ⊢
    simp only [Bool.not_false, Bool.true_and] at hi ⊢
    by_cases hid : id = i <;> simp [hid] at hi ⊢ <;> omega
  | started t a hf hst hb ha hk hc =>
    have := countP_setStarted t.id (fun u : Task => u.id == i) (fun _ => rfl) s.tasks
    rw [← this] at hi
    exact hi
  | finish t s1 hold hf hout hsame hh =>
    have hc := countP_eraseP_find (fun u : Task => u.id == t.id) (fun u : Task => u.id == i) s.tasks t hf
    simp only [outQueue, reply, enqueue_tasks, enqueue_pending, enqueue_writing, enqueue_written, enqueue_delivered,
      removeTask_tasks, removeTask_pending, removeTask_writing, removeTask_written, removeTask_delivered,
      hsame.tasks, hsame.pending, hsame.writing, hsame.written, hsame.delivered,
      List.countP_append, List.map_append, List.map_cons, List.map_nil, List.countP_cons, List.countP_nil,
      isResp, response] at hi ⊢
    simp only [Bool.not_false, Bool.true_and] at hi hc ⊢
    by_cases hid : t.id = i <;> simp [hid] at hi hc ⊢ <;> omega
  | svcReq owner tag key =>
    simpa [outQueue, svcSend, isResp] using hi
  | take isRequest id p hw hp =>
    have := countP_outQueue_take (s := s) (isResp i) hw hp
    simp only [this]
    exact hi
  | writeDone p hw =>
    simp only [outQueue, hw, List.countP_append, Option.toList_some, Option.toList_none, List.countP_cons,
      List.countP_nil] at hi ⊢
    omega
  | helpers hs => exact hi
  | dupKey t a hf hst hb ha => exact hi

theorem answered_reach {s : State} (h : Reach s) : Answered s :=
  run_induction Answered answered_init (fun s a s' hi hs => answered_step (step_shape s s' a hs) hi) s h


/-! ## every request to the host is put on the wire exactly once -/

def RequestsOnce (s : State) : Prop :=
  ∀ n, (s.written ++ outQueue s).countP (isReqOut n) = if n < s.nextId then 1 else 0

theorem requestsOnce_init (p : Bool) : RequestsOnce (init p) := by intro n; simp [init, outQueue]

theorem requestsOnce_step {s s' : State} {w : List HostPkt} (h : Shape s w s') (hi : RequestsOnce s) :
    RequestsOnce s' := by
  intro n
  have hi := hi n
  cases h with
  | hostWrite p => exact hi
  | close => exact hi
  | garbage rest hst => exact hi
  | answer id rest c hst hf => exact hi
  | stale id rest hst hf => exact hi
  | spawn id cmd key rest s1 t hst hsame h1 h2 h3 h4 =>
    simpa [outQueue, hsame.pending, hsame.writing, hsame.written, hsame.nextId] using hi
  | refuse id cmd key rest s1 tag hst hsame h1 =>
    simpa [outQueue, syncReply, hsame.pending, hsame.writing, hsame.written, hsame.nextId, isReqOut, response] using hi
  | started t a hf hst hb ha hk hc => exact hi
  | finish t s1 hold hf hout hsame hh =>
    simpa [outQueue, reply, hsame.pending, hsame.writing, hsame.written, hsame.nextId, isReqOut, response] using hi
  | svcReq owner tag key =>
    simp only [outQueue, svcSend, List.countP_append, List.map_append, List.map_cons, List.map_nil, List.countP_cons,
      List.countP_nil, isReqOut, Bool.true_and] at hi ⊢
    by_cases hn : s.nextId = n
    · subst hn
      have h1 : s.nextId < s.nextId + 1 := Nat.lt_succ_self _
      simp only [Nat.lt_irrefl, if_false] at hi
      simp only [h1, if_true, beq_self_eq_true]
      omega
    · have : (s.nextId == n) = false := by simpa using hn
      simp only [this] at hi ⊢
      by_cases hlt : n < s.nextId
      · have : n < s.nextId + 1 := by omega
        simp [hlt, this] at hi ⊢; omega
      · have : ¬ n < s.nextId + 1 := by omega
        simp [hlt, this] at hi ⊢; omega
  | take isRequest id p hw hp =>
    have := countP_outQueue_take (s := s) (isReqOut n) hw hp
    simp only [List.countP_append] at hi ⊢
    rw [this]; exact hi
  | writeDone p hw =>
    simp only [outQueue, hw, List.countP_append, Option.toList_some, Option.toList_none, List.countP_cons,
      List.countP_nil] at hi ⊢
    omega
  | helpers hs => exact hi
  | dupKey t a hf hst hb ha => exact hi

theorem requestsOnce_reach {s : State} (h : Reach s) : RequestsOnce s :=
  run_induction RequestsOnce requestsOnce_init (fun s a s' hi hs => requestsOnce_step (step_shape s s' a hs) hi) s h


/-! ## where an accepted rebuild / watch / serve request is on its way to its response -/

theorem mem_eraseP_or_eq {α : Type} (p : α → Bool) : ∀ (l : List α) (t u : α), l.find? p = some t → u ∈ l →
    u ∈ l.eraseP p ∨ u = t
  | [], _, _, h, _ => by simp at h
  | x :: xs, t, u, h, hu => by
    by_cases hp : p x = true
    · simp only [List.find?_cons, hp, Option.some.injEq] at h
      subst h
      simp only [List.eraseP_cons, hp, cond_true]
      rcases List.mem_cons.1 hu with rfl | hu
      · exact .inr rfl
      · exact .inl hu
    · have hp' : p x = false := by simpa using hp
      simp only [List.find?_cons, hp'] at h
      simp only [List.eraseP_cons, hp', cond_false]
      rcases List.mem_cons.1 hu with rfl | hu
      · exact .inl (List.mem_cons_self ..)
      · rcases mem_eraseP_or_eq p xs t u h hu with h1 | h1
        · exact .inl (List.mem_cons_of_mem _ h1)
        · exact .inr h1

/-- the response with id `i` has reached the writer goroutine (being written, or on stdout) -/
def AtWriter (i : Nat) (s : State) : Prop := ∃ p ∈ s.written ++ s.writing.toList, isResp i p = true

/-- the stages of a request `i` on build key `k` whose handler registers with the build's disposeWaitGroup:
handler running, blocked in its final sendPacket (still holding the wait group) or refused by the reader (which is
blocked in sendPacket), response at the writer -/
def Stage (i k : Nat) (s : State) : Prop :=
  (∃ t ∈ s.tasks, t.id = i ∧ t.key = k ∧ t.hold = true ∧ waits3 t.cmd = true) ∨
  (∃ p ∈ s.pending, isResp i p.pkt = true ∧ (p.hold = some k ∨ p.fromReader = true)) ∨
  AtWriter i s

def Staged (s : State) : Prop :=
  ∀ i cmd k, HostPkt.request i cmd k ∈ s.delivered → waits3 cmd = true → Stage i k s

theorem staged_init (p : Bool) : Staged (init p) := by intro i cmd k h; simp [init] at h

theorem stage_mono {i k : Nat} {s s' : State} (ht : ∀ t ∈ s.tasks, t ∈ s'.tasks) (hp : ∀ p ∈ s.pending, p ∈ s'.pending)
    (hw : ∀ p ∈ s.written ++ s.writing.toList, p ∈ s'.written ++ s'.writing.toList) (h : Stage i k s) : Stage i k s' := by
  rcases h with ⟨t, h1, h2⟩ | ⟨p, h1, h2⟩ | ⟨p, h1, h2⟩
  · exact .inl ⟨t, ht t h1, h2⟩
  · exact .inr (.inl ⟨p, hp p h1, h2⟩)
  · exact .inr (.inr ⟨p, hw p h1, h2⟩)

theorem staged_step {s s' : State} {w : List HostPkt} (h : Shape s w s') (hi : Staged s) : Staged s' := by
  intro i cmd k hd hw3
  cases h with
  | hostWrite p => exact hi i cmd k hd hw3
  | close => exact hi i cmd k hd hw3
  | garbage rest hst =>
    simp only [List.mem_append, List.mem_singleton, reduceCtorEq, or_false] at hd
    exact hi i cmd k hd hw3
  | answer id rest c hst hf =>
    simp only [List.mem_append, List.mem_singleton, reduceCtorEq, or_false] at hd
    exact hi i cmd k hd hw3
  | stale id rest hst hf =>
    simp only [panic_delivered, List.mem_append, List.mem_singleton, reduceCtorEq, or_false] at hd
    exact hi i cmd k hd hw3
  | spawn id cmd' key rest s1 t hst hsame h1 h2 h3 h4 =>
    simp only [addTask_delivered, hsame.delivered, List.mem_append, List.mem_singleton, HostPkt.request.injEq] at hd
    rcases hd with hd | ⟨rfl, rfl, rfl⟩
    · refine stage_mono ?_ ?_ ?_ (hi i cmd k hd hw3)
      · intro u hu; simp [hsame.tasks, hu]
      · intro u hu; simp [hsame.pending, hu]
      · intro u hu; simpa [hsame.written, hsame.writing] using hu
    · exact .inl ⟨t, by simp, h1, h3, h4 hw3, by rw [h2]; exact hw3⟩
  | refuse id cmd' key rest s1 tag hst hsame h1 =>
    simp only [syncReply, enqueue_delivered, hsame.delivered, List.mem_append, List.mem_singleton,
      HostPkt.request.injEq] at hd
    rcases hd with hd | ⟨rfl, rfl, rfl⟩
    · refine stage_mono ?_ ?_ ?_ (hi i cmd k hd hw3)
      · intro u hu; simpa [syncReply, hsame.tasks] using hu
      · intro u hu; simp [syncReply, hsame.pending, hu]
      · intro u hu; simpa [syncReply, hsame.written, hsame.writing] using hu
    · exact .inr (.inl ⟨⟨response i tag, true, none⟩, by simp [syncReply], by simp [isResp, response], .inr rfl⟩)
  | started t a hf hst hb ha hk hc =>
    rcases hi i cmd k hd hw3 with ⟨u, h1, h2, h3, h4, h5⟩ | h | h
    · obtain ⟨u', hm, e1, e2, e3, e4, _⟩ := mem_setStarted t.id s.tasks u h1
      exact .inl ⟨u', hm, by rw [e1, h2], by rw [e2, h3], by rw [e3, h4], by rw [e4, h5]⟩
    · exact .inr (.inl h)
    · exact .inr (.inr h)
  | finish t s1 hold hf hout hsame hh =>
    simp only [reply, enqueue_delivered, removeTask_delivered, hsame.delivered] at hd
    rcases hi i cmd k hd hw3 with ⟨u, h1, h2, h3, h4, h5⟩ | ⟨p, h1, h2⟩ | ⟨p, h1, h2⟩
    · rcases mem_eraseP_or_eq (fun x : Task => x.id == t.id) s.tasks t u hf h1 with hm | rfl
      · exact .inl ⟨u, by simpa [reply, hsame.tasks] using hm, h2, h3, h4, h5⟩
      · refine .inr (.inl ⟨⟨response u.id 0, false, hold⟩, by simp [reply], ?_, .inl ?_⟩)
        · simp [isResp, response, h2]
        · rw [hh h5, h3]
    · exact .inr (.inl ⟨p, by simp [reply, hsame.pending, h1], h2⟩)
    · exact .inr (.inr ⟨p, by simpa [reply, hsame.written, hsame.writing] using h1, h2⟩)
  | svcReq owner tag key =>
    refine stage_mono ?_ ?_ ?_ (hi i cmd k hd hw3)
    · intro u hu; exact hu
    · intro u hu; simp [svcSend, hu]
    · intro u hu; exact hu
  | take isRequest id p hw hp =>
    rcases hi i cmd k hd hw3 with h | ⟨q, h1, h2, h3⟩ | ⟨q, h1, h2⟩
    · exact .inl h
    · rcases mem_eraseP_or_eq (takeSel isRequest id) s.pending p q hp h1 with hm | rfl
      · exact .inr (.inl ⟨q, hm, h2, h3⟩)
      · exact .inr (.inr ⟨q.pkt, by simp, h2⟩)
    · refine .inr (.inr ⟨q, ?_, h2⟩)
      simp only [hw, Option.toList_none, List.append_nil] at h1
      simp [h1]
  | writeDone p hw =>
    refine stage_mono ?_ ?_ ?_ (hi i cmd k hd hw3)
    · intro u hu; exact hu
    · intro u hu; exact hu
    · intro u hu; simpa [hw] using hu
  | helpers hs => exact hi i cmd k hd hw3
  | dupKey t a hf hst hb ha => exact hi i cmd k hd hw3

theorem staged_reach {s : State} (h : Reach s) : Staged s :=
  run_induction Staged staged_init (fun s a s' hi hs => staged_step (step_shape s s' a hs) hi) s h

end EsbuildModel.StdioAsync
