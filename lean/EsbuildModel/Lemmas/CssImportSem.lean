import EsbuildModel.Impl.CssImport
import EsbuildModel.Lemmas.CssCascade
/-!
What the list computed by `findImportedFilesInCSSOrder` MEANS as a style sheet (`sem`): every entry stands for its
content (the rules of the file after its imports / the `@layer` statement / the external style sheet) wrapped in the
entry's conditions, outermost first, each condition as `@media { @supports { @layer { … } } }` — this is what
`wrapRulesWithConditions` prints.  An anonymous `layer` condition of an entry is a fresh anonymous layer of that
entry (`[index of the entry, index of the condition]`).

Lemmas about wrapping: which rules and which layer declarations a wrapped piece has.
-/
namespace EsbuildModel.CssImport
open EsbuildModel.Spec.CssCascade

/-- wrap in a whole condition list, outermost condition first -/
def wrapAll (id : Nat) : Nat → List Cond → List Item → List Item
  | _, [], items => items
  | k, c :: cs, items => wrap c [id, k] (wrapAll id (k + 1) cs items)

def layerItems (ns : List LayerName) : List Item := ns.map (fun n => Item.declare [] (n.map Seg.named))

def bodyItems (decl : Nat → Decl) (f : File) : List Item := f.body.flatMap (stmtItems decl)

def entryContent (g : Graph) (decl : Nat → Decl) (ext : Nat → List Item) (e : Entry) : List Item :=
  match e.kind with
  | .layers => layerItems e.layers
  | .ext => ext e.ext
  | .file =>
    match g[e.src]? with
    | some f => bodyItems decl f
    | none => []

def semEntry (g : Graph) (decl : Nat → Decl) (ext : Nat → List Item) (idx : Nat) (e : Entry) : List Item :=
  wrapAll idx 0 e.conds (entryContent g decl ext e)

/-- the style sheet that the list of entries stands for; `i`: index of the first entry -/
def sem (g : Graph) (decl : Nat → Decl) (ext : Nat → List Item) : Nat → List Entry → List Item
  | _, [] => []
  | i, e :: es => semEntry g decl ext i e ++ sem g decl ext (i + 1) es

-- ------------------------------------------------------------------ without anonymous layers the indices do not matter

def NoAnon (cs : List Cond) : Prop := ∀ c ∈ cs, c.layer ≠ some LayerTok.anon

def NoAnonEntries (es : List Entry) : Prop := ∀ e ∈ es, NoAnon e.conds

/-- wrapping when no condition is an anonymous layer -/
def wrapN (cs : List Cond) (items : List Item) : List Item := cs.foldr (fun c acc => wrap c [] acc) items

theorem condLayer_noAnon {c : Cond} (h : c.layer ≠ some LayerTok.anon) (id id' : List Nat) :
    condLayer c id = condLayer c id' := by
  unfold condLayer
  cases hl : c.layer with
  | none => rfl
  | some t => cases t with
    | anon => exact absurd hl h
    | named n => rfl

theorem wrap_noAnon {c : Cond} (h : c.layer ≠ some LayerTok.anon) (id id' : List Nat) (items : List Item) :
    wrap c id items = wrap c id' items := by
  unfold wrap
  rw [condLayer_noAnon h id id']

theorem wrapAll_noAnon {cs : List Cond} (h : NoAnon cs) (id k : Nat) (items : List Item) :
    wrapAll id k cs items = wrapN cs items := by
  induction cs generalizing k with
  | nil => rfl
  | cons c cs ih =>
    simp only [wrapAll, wrapN, List.foldr_cons]
    rw [wrap_noAnon (h c (List.mem_cons_self ..)) [id, k] []]
    congr 1
    exact ih (fun c' hc' => h c' (List.mem_cons_of_mem _ hc')) (k + 1)

def semEntryN (g : Graph) (decl : Nat → Decl) (ext : Nat → List Item) (e : Entry) : List Item :=
  wrapN e.conds (entryContent g decl ext e)

def semN (g : Graph) (decl : Nat → Decl) (ext : Nat → List Item) (es : List Entry) : List Item :=
  es.flatMap (semEntryN g decl ext)

theorem sem_eq_semN (g : Graph) (decl : Nat → Decl) (ext : Nat → List Item) {es : List Entry}
    (h : NoAnonEntries es) (i : Nat) : sem g decl ext i es = semN g decl ext es := by
  induction es generalizing i with
  | nil => rfl
  | cons e es ih =>
    simp only [sem, semN, List.flatMap_cons]
    rw [ih (fun e' he' => h e' (List.mem_cons_of_mem _ he')) (i + 1)]
    simp only [semEntry, semEntryN, semN]
    rw [wrapAll_noAnon (h e (List.mem_cons_self ..))]

theorem semN_append (g : Graph) (decl : Nat → Decl) (ext : Nat → List Item) (a b : List Entry) :
    semN g decl ext (a ++ b) = semN g decl ext a ++ semN g decl ext b := by
  simp [semN]

theorem semN_cons (g : Graph) (decl : Nat → Decl) (ext : Nat → List Item) (e : Entry) (es : List Entry) :
    semN g decl ext (e :: es) = semEntryN g decl ext e ++ semN g decl ext es := by
  simp [semN]

-- ------------------------------------------------------------------ rules of a wrapped piece

def allAtoms (cs : List Cond) : List Atom := cs.flatMap condAtoms

def allLayer (cs : List Cond) : Layer := cs.flatMap (fun c => condLayer c [])

theorem mem_wrap_rule {c : Cond} {id : List Nat} {items : List Item} {a : List Atom} {l : Layer} {d : Decl} :
    Item.rule a l d ∈ wrap c id items ↔
      ∃ a0 l0, Item.rule a0 l0 d ∈ items ∧ a = condAtoms c ++ a0 ∧ l = condLayer c id ++ l0 := by
  unfold wrap
  rw [List.mem_append]
  constructor
  · rintro (h | h)
    · split at h
      · cases h
      · simp at h
    · rw [List.mem_map] at h
      obtain ⟨it, hit, he⟩ := h
      cases it with
      | declare cs l' => simp [Item.under] at he
      | rule cs l' d' =>
        simp only [Item.under, Item.rule.injEq] at he
        obtain ⟨h1, h2, h3⟩ := he
        subst h3
        exact ⟨cs, l', hit, h1.symm, h2.symm⟩
  · rintro ⟨a0, l0, hit, rfl, rfl⟩
    right
    rw [List.mem_map]
    exact ⟨_, hit, rfl⟩

theorem mem_wrapN_rule {cs : List Cond} {items : List Item} {a : List Atom} {l : Layer} {d : Decl} :
    Item.rule a l d ∈ wrapN cs items ↔
      ∃ a0 l0, Item.rule a0 l0 d ∈ items ∧ a = allAtoms cs ++ a0 ∧ l = allLayer cs ++ l0 := by
  induction cs generalizing a l with
  | nil => simp [wrapN, allAtoms, allLayer]
  | cons c cs ih =>
    have hw : wrapN (c :: cs) items = wrap c [] (wrapN cs items) := rfl
    rw [hw, mem_wrap_rule]
    constructor
    · rintro ⟨a1, l1, h1, rfl, rfl⟩
      obtain ⟨a0, l0, h0, rfl, rfl⟩ := ih.1 h1
      exact ⟨a0, l0, h0, by simp [allAtoms, List.append_assoc], by simp [allLayer, List.append_assoc]⟩
    · rintro ⟨a0, l0, h0, rfl, rfl⟩
      exact ⟨allAtoms cs ++ a0, allLayer cs ++ l0, ih.2 ⟨a0, l0, h0, rfl, rfl⟩,
        by simp [allAtoms, List.append_assoc], by simp [allLayer, List.append_assoc]⟩

-- ------------------------------------------------------------------ layer declarations of a wrapped piece

def Item.isDeclare : Item → Bool
  | .declare _ _ => true
  | .rule _ _ _ => false

/-- the same `@layer` declarations in the same order -/
def SameDecls (a b : List Item) : Prop := a.filter Item.isDeclare = b.filter Item.isDeclare

theorem filterMap_declares_filter (env : Env) (items : List Item) :
    (items.filter Item.isDeclare).filterMap (Item.declares env) = items.filterMap (Item.declares env) := by
  induction items with
  | nil => rfl
  | cons it items ih =>
    cases it with
    | declare cs l =>
      rw [List.filter_cons_of_pos (by rfl)]
      simp only [List.filterMap_cons]
      rw [ih]
    | rule cs l d =>
      rw [List.filter_cons_of_neg (by simp [Item.isDeclare])]
      rw [ih]
      simp [List.filterMap_cons, Item.declares]

theorem SameDecls.sameLayers {a b : List Item} (h : SameDecls a b) : SameLayers a b := by
  intro env acc
  unfold layerOrderFrom
  rw [← filterMap_declares_filter env a, ← filterMap_declares_filter env b, h]

theorem isDeclare_under (atoms : List Atom) (l : Layer) (it : Item) :
    Item.isDeclare (Item.under atoms l it) = Item.isDeclare it := by
  cases it <;> rfl

theorem filter_isDeclare_wrap (c : Cond) (id : List Nat) (items : List Item) :
    (wrap c id items).filter Item.isDeclare = wrap c id (items.filter Item.isDeclare) := by
  unfold wrap
  rw [List.filter_append, List.filter_map]
  congr 1
  · split <;> simp [Item.isDeclare]
  · congr 1
    apply List.filter_congr
    intro it _
    simp [isDeclare_under]

theorem SameDecls.wrap {a b : List Item} (h : SameDecls a b) (c : Cond) (id : List Nat) :
    SameDecls (wrap c id a) (wrap c id b) := by
  unfold SameDecls at *
  rw [filter_isDeclare_wrap, filter_isDeclare_wrap, h]

theorem SameDecls.wrapN {a b : List Item} (h : SameDecls a b) (cs : List Cond) :
    SameDecls (wrapN cs a) (wrapN cs b) := by
  induction cs with
  | nil => exact h
  | cons c cs ih => exact ih.wrap c []

theorem filter_isDeclare_layerItems (ns : List LayerName) : (layerItems ns).filter Item.isDeclare = layerItems ns := by
  unfold layerItems
  rw [List.filter_eq_self]
  intro it hit
  rw [List.mem_map] at hit
  obtain ⟨n, _, rfl⟩ := hit
  rfl

/-- the `@layer` declarations of a file body are its `LayersPostImport` -/
theorem filter_isDeclare_bodyItems (decl : Nat → Decl) (f : File) :
    (bodyItems decl f).filter Item.isDeclare = layerItems (postLayers f) := by
  unfold bodyItems postLayers
  induction f.body with
  | nil => rfl
  | cons s ss ih =>
    rw [List.flatMap_cons, List.flatMap_cons, List.filter_append, ih]
    unfold layerItems
    rw [List.map_append]
    congr 1
    cases s with
    | layers ns =>
      show (stmtItems decl (Stmt.layers ns)).filter Item.isDeclare = _
      exact filter_isDeclare_layerItems ns
    | rule id own =>
      cases own with
      | nil => simp [stmtItems, List.filter_cons, Item.isDeclare]
      | cons x xs => simp [stmtItems, List.filter_cons, Item.isDeclare]

theorem onlyDeclares_wrapN {items : List Item} (h : OnlyDeclares items) (cs : List Cond) :
    OnlyDeclares (wrapN cs items) := by
  intro it hit
  cases it with
  | declare a l => exact ⟨a, l, rfl⟩
  | rule a l d =>
    obtain ⟨a0, l0, h0, _, _⟩ := mem_wrapN_rule.1 hit
    obtain ⟨_, _, h'⟩ := h _ h0
    cases h'

theorem onlyDeclares_layerItems (ns : List LayerName) : OnlyDeclares (layerItems ns) := by
  intro it hit
  unfold layerItems at hit
  rw [List.mem_map] at hit
  obtain ⟨n, _, rfl⟩ := hit
  exact ⟨_, _, rfl⟩

end EsbuildModel.CssImport
