import EsbuildModel.Lemmas.CjsWrapDeps
/-! `hasDynamicExportsDueToExportStar` (`CjsWrap.hasDyn`) with its shared `visited` map: it terminates on every
graph, only marks files from which a chain of `export *` really leads to a dynamic or external module, and when it
answers `false` it has changed nothing and the files it visited form a set that is closed under `export *` and free
of dynamic and external stars.  (A file that was visited while one of its ancestors was still undecided may be left
unmarked although it should be marked; `Lemmas/CjsWrapStep2.lean` shows that the loop of step 2, which starts a
fresh traversal at every file, repairs that.) -/
namespace EsbuildModel.CjsWrap

def StarE (b : Files) (i j : Nat) : Prop :=
  ∃ (f : File) (s : Nat) (r : Rec), b[i]? = some f ∧ s ∈ f.stars ∧ f.recs[s]? = some r ∧ r.target = some j ∧ j ≠ i

def ExtStar (o : Opts) (b : Files) (i : Nat) : Prop :=
  ∃ (f : File) (s : Nat) (r : Rec), b[i]? = some f ∧ s ∈ f.stars ∧ f.recs[s]? = some r ∧ r.target = none ∧
    (f.entry = false ∨ o.keepESM = false)

/-- the test at the top of `hasDynamicExportsDueToExportStar` -/
def Dy (fs : Files) (x : Nat) : Prop := ∃ f : File, fs[x]? = some f ∧ (f.kind = .cjs ∨ f.kind = .dyn)

/-- a chain of `export *` from `i` reaches an external star or a file that passes the test in table `fs` -/
inductive DS (o : Opts) (b fs : Files) : Nat → Prop
  | ext {i : Nat} : ExtStar o b i → DS o b fs i
  | base {i j : Nat} : StarE b i j → Dy fs j → DS o b fs i
  | step {i j : Nat} : StarE b i j → DS o b fs j → DS o b fs i

def VInv (n : Nat) (s : List Nat) : Prop := s.Nodup ∧ ∀ x ∈ s, x < n

theorem VInv.length_le {n : Nat} {s : List Nat} (h : VInv n s) : s.length ≤ n := by
  have := List.Nodup.length_le_of_subset (l₂ := List.range n) h.1 (fun x hx => List.mem_range.mpr (h.2 x hx))
  simpa using this

/-- `x` is settled: not dynamic, no external star, all its stars lead into `V` and to non-dynamic files -/
def ClosedAt (o : Opts) (b fs : Files) (V : List Nat) (x : Nat) : Prop :=
  ¬ Dy fs x ∧ ¬ ExtStar o b x ∧ ∀ j, StarE b x j → j ∈ V ∧ ¬ Dy fs j

theorem ClosedAt.mono {o : Opts} {b fs : Files} {V V' : List Nat} {x : Nat} (h : ClosedAt o b fs V x)
    (hV : ∀ y ∈ V, y ∈ V') : ClosedAt o b fs V' x :=
  ⟨h.1, h.2.1, fun j hj => ⟨hV j (h.2.2 j hj).1, (h.2.2 j hj).2⟩⟩

structure DPost (o : Opts) (b fs : Files) (vis : List Nat) (i : Nat) (r : DynRes) : Prop where
  rel : PW RD fs r.fs
  vis_mono : ∀ x ∈ vis, x ∈ r.vis
  inv : VInv b.length r.vis
  tru : r.res = true → Dy r.fs i
  sound : ∀ x, Dy r.fs x → Dy fs x ∨ DS o b fs x
  fls : r.res = false → r.fs = fs ∧ ¬ Dy fs i ∧ i ∈ r.vis ∧ ∀ x ∈ r.vis, x ∉ vis → ClosedAt o b fs r.vis x

/-- what the loop over the export stars of `i` guarantees (`ss` = the stars still to do) -/
structure LPost (o : Opts) (b fs : Files) (vis : List Nat) (i : Nat) (recs : List Rec) (ss : List Nat)
    (r : DynRes) : Prop where
  rel : PW RD fs r.fs
  vis_mono : ∀ x ∈ vis, x ∈ r.vis
  inv : VInv b.length r.vis
  tru : r.res = true → Dy r.fs i
  sound : ∀ x, Dy r.fs x → Dy fs x ∨ DS o b fs x
  fls : r.res = false → r.fs = fs ∧
    (∀ s ∈ ss, ∀ r', recs[s]? = some r' →
      (r'.target = none → ¬ ExtStar o b i) ∧ (∀ j, r'.target = some j → j ≠ i → j ∈ r.vis ∧ ¬ Dy fs j)) ∧
    ∀ x ∈ r.vis, x ∉ vis → ClosedAt o b fs r.vis x

theorem RD_setDyn {i : Nat} {f : File} (h : f.kind ≠ .cjs) : RD i f { f with kind := .dyn } := by
  by_cases hd : f.kind = .dyn
  · exact ⟨⟨rfl, rfl, rfl, Or.inl hd.symm, Or.inl ⟨rfl, rfl⟩⟩, rfl, rfl⟩
  · exact ⟨⟨rfl, rfl, rfl, Or.inr ⟨h, hd, rfl⟩, Or.inl ⟨rfl, rfl⟩⟩, rfl, rfl⟩

theorem PW_RD_RC {fs fs' : Files} (h : PW RD fs fs') : PW RC fs fs' := h.mono (fun _ _ _ hr => hr.1)

theorem St.stepD {b fs fs' : Files} (h : St b fs) (h' : PW RD fs fs') : St b fs' := h.step (fun _ _ _ hr => hr.1.1) h'

theorem setKind_rel {fs : Files} {i : Nat} (hn : ∀ f : File, fs[i]? = some f → f.kind ≠ .cjs) :
    PW RD fs (setKind fs i .dyn) := by
  unfold setKind
  cases hf : fs[i]? with
  | none => exact PW.rfl' RD.rfl' _
  | some f => exact PW.set RD.rfl' hf (RD_setDyn (hn f hf))

theorem setKind_dy {fs : Files} {i : Nat} (hi : i < fs.length) : Dy (setKind fs i .dyn) i := by
  obtain ⟨f, hf⟩ := get_of_lt hi
  unfold setKind
  simp only [hf]
  exact ⟨_, get_set_self hi _, Or.inr rfl⟩

theorem setKind_dy_cases {fs : Files} {i x : Nat} (h : Dy (setKind fs i .dyn) x) : x = i ∨ Dy fs x := by
  unfold setKind at h
  cases hf : fs[i]? with
  | none => rw [hf] at h; exact Or.inr h
  | some f =>
    rw [hf] at h
    by_cases hxi : i = x
    · exact Or.inl hxi.symm
    · obtain ⟨g, hg, hgd⟩ := h
      rw [get_set_ne _ hxi] at hg
      exact Or.inr ⟨g, hg, hgd⟩

/-- CommonJS-ness is never changed by step 2, so a file that fails the test and is not marked stays non-CommonJS -/
theorem not_cjs_of_rel {fs fs' : Files} (h : PW RC fs fs') {i : Nat} (hn : ¬ Dy fs i) :
    ∀ f' : File, fs'[i]? = some f' → f'.kind ≠ .cjs := by
  intro f' hf' hk
  obtain ⟨f, hf, hr⟩ := h.get' hf'
  exact hn ⟨f, hf, Or.inl (hr.cjs_iff.1 hk)⟩

theorem Dy.mono {fs fs' : Files} (h : PW RC fs fs') {x : Nat} (hd : Dy fs x) : Dy fs' x := by
  obtain ⟨f, hf, hk⟩ := hd
  obtain ⟨f', hf', hr⟩ := h.get hf
  refine ⟨f', hf', ?_⟩
  rcases hr.2.2.2.1 with e | ⟨h1, h2, _⟩
  · rw [e]; exact hk
  · rcases hk with hk | hk
    · exact absurd hk h1
    · exact absurd hk h2

theorem LPost.cons {o : Opts} {b fs : Files} {vis vis1 : List Nat} {i s : Nat} {recs : List Rec} {ss : List Nat}
    {r : DynRes} (p : LPost o b fs vis1 i recs ss r) (hv : ∀ x ∈ vis, x ∈ vis1)
    (hs : r.res = false → ∀ r', recs[s]? = some r' →
      (r'.target = none → ¬ ExtStar o b i) ∧ (∀ j, r'.target = some j → j ≠ i → j ∈ r.vis ∧ ¬ Dy fs j))
    (hnew : r.res = false → ∀ x ∈ vis1, x ∉ vis → ClosedAt o b fs vis1 x) :
    LPost o b fs vis i recs (s :: ss) r := by
  refine ⟨p.rel, fun x hx => p.vis_mono x (hv x hx), p.inv, p.tru, p.sound, ?_⟩
  intro hres
  obtain ⟨h1, h2, h3⟩ := p.fls hres
  refine ⟨h1, ?_, ?_⟩
  · intro s' hs' r' hr'
    rcases List.mem_cons.1 hs' with rfl | hs'
    · exact hs hres r' hr'
    · exact h2 s' hs' r' hr'
  · intro x hx hnx
    by_cases hx1 : x ∈ vis1
    · exact (hnew hres x hx1 hnx).mono p.vis_mono
    · exact h3 x hx hx1

theorem starLoop_post {o : Opts} {b : Files} {fuel : Nat} (hwf : WF b)
    (ih : ∀ t fs vis, St b fs → t < b.length → VInv b.length vis → b.length < fuel + vis.length →
      ∃ r, hasDyn o fuel fs vis t = some r ∧ DPost o b fs vis t r)
    {i : Nat} {f0 f : File} (h0 : b[i]? = some f0) (hrecs : f.recs = f0.recs) (hent : f.entry = f0.entry) :
    ∀ (ss : List Nat) (fs : Files) (vis : List Nat), St b fs → (∀ s ∈ ss, s ∈ f0.stars) → ¬ Dy fs i → i ∈ vis →
      VInv b.length vis → b.length < fuel + vis.length →
      ∃ r, starLoop o (hasDyn o fuel) i f ss fs vis = some r ∧ LPost o b fs vis i f0.recs ss r := by
  intro ss
  induction ss with
  | nil =>
    intro fs vis _ _ _ _ hinv _
    exact ⟨⟨false, fs, vis⟩, rfl, PW.rfl' RD.rfl' _, fun _ h => h, hinv, (fun h => by cases h), fun _ h => Or.inl h,
      fun _ => ⟨rfl, (fun _ h => by cases h), fun x hx hn => absurd hx hn⟩⟩
  | cons s ss ihs =>
    intro fs vis hst hss hnd hiv hinv hfuel
    have hs : s ∈ f0.stars := hss s (by simp)
    have hss' : ∀ s' ∈ ss, s' ∈ f0.stars := fun s' h' => hss s' (by simp [h'])
    have hi : i < fs.length := by rw [← hst.1]; exact lt_of_get h0
    obtain ⟨r', hr'⟩ : ∃ r', f0.recs[s]? = some r' := by
      have := (hwf i f0 h0).2 s hs
      exact ⟨f0.recs[s], List.getElem?_eq_getElem this⟩
    unfold starLoop
    simp only [hrecs, hr']
    cases ht : r'.target with
    | none =>
      simp only
      by_cases hc : (!f.entry || !o.keepESM) = true
      · simp only [hc, if_true]
        have hext : ExtStar o b i := by
          refine ⟨f0, s, r', h0, hs, hr', ht, ?_⟩
          rw [← hent]
          simpa using hc
        refine ⟨_, rfl, setKind_rel (fun g hg hk => hnd ⟨g, hg, Or.inl hk⟩), fun _ h => h, hinv, fun _ => setKind_dy hi, ?_,
          fun h => by cases h⟩
        intro x hx
        rcases setKind_dy_cases hx with rfl | hx
        · exact Or.inr (.ext hext)
        · exact Or.inl hx
      · simp only [hc]
        obtain ⟨r, e, p⟩ := ihs fs vis hst hss' hnd hiv hinv hfuel
        refine ⟨r, e, p.cons (fun _ h => h) ?_ (fun _ x hx hn => absurd hx hn)⟩
        intro _ r'' hr''
        rw [hr'] at hr''; injection hr'' with hr''; subst hr''
        refine ⟨fun _ => ?_, fun j hj => by rw [ht] at hj; cases hj⟩
        rintro ⟨g, _, _, hg, _, _, _, hcond⟩
        rw [h0] at hg; injection hg with hg; subst hg
        apply hc
        rw [hent]
        simpa using hcond
    | some t =>
      simp only
      by_cases hti : t = i
      · subst hti
        simp only [bne_self_eq_false, Bool.false_eq_true, if_false]
        obtain ⟨r, e, p⟩ := ihs fs vis hst hss' hnd hiv hinv hfuel
        refine ⟨r, e, p.cons (fun _ h => h) ?_ (fun _ x hx hn => absurd hx hn)⟩
        intro _ r'' hr''
        rw [hr'] at hr''; injection hr'' with hr''; subst hr''
        refine ⟨(fun h => by rw [ht] at h; cases h), fun j hj hji => ?_⟩
        rw [ht] at hj; injection hj with hj
        exact absurd hj.symm hji
      · have hbne : (t != i) = true := by simpa using hti
        simp only [hbne, if_true]
        have htlt : t < b.length := by
          have hmem : r' ∈ f0.recs := List.mem_of_getElem? hr'
          exact (hwf i f0 h0).1 r' hmem t ht
        have hstar : StarE b i t := ⟨f0, s, r', h0, hs, hr', ht, hti⟩
        obtain ⟨r1, e1, p1⟩ := ih t fs vis hst htlt hinv hfuel
        rcases r1 with ⟨res1, fs1, vis1⟩
        cases res1 with
        | true =>
          simp only [e1]
          have hi1 : i < fs1.length := by rw [← p1.rel.1]; exact hi
          refine ⟨_, rfl, PW.trans RD.trans' p1.rel (setKind_rel (not_cjs_of_rel (PW_RD_RC p1.rel) hnd)), p1.vis_mono, p1.inv,
            fun _ => setKind_dy hi1, ?_, fun h => by cases h⟩
          intro x hx
          rcases setKind_dy_cases hx with rfl | hx
          · rcases p1.sound t (p1.tru rfl) with hd | hd
            · exact Or.inr (.base hstar hd)
            · exact Or.inr (.step hstar hd)
          · exact p1.sound x hx
        | false =>
          simp only [e1]
          obtain ⟨hfs, hndt, htv, hcl⟩ := p1.fls rfl
          have hfs' : fs1 = fs := hfs
          subst hfs'
          have hlen : vis.length ≤ vis1.length := List.Nodup.length_le_of_subset hinv.1 p1.vis_mono
          obtain ⟨r, e, p⟩ := ihs fs1 vis1 hst hss' hnd (p1.vis_mono i hiv) p1.inv (by omega)
          refine ⟨r, e, p.cons p1.vis_mono ?_ (fun _ => hcl)⟩
          intro _ r'' hr''
          rw [hr'] at hr''; injection hr'' with hr''; subst hr''
          refine ⟨(fun h => by rw [ht] at h; cases h), fun j hj _ => ?_⟩
          rw [ht] at hj; injection hj with hj; subst hj
          exact ⟨p.vis_mono _ htv, hndt⟩

/-- **`hasDynamicExportsDueToExportStar` terminates and is sound**, on every graph, for every `visited` map. -/
theorem hasDyn_post {o : Opts} {b : Files} (hwf : WF b) :
    ∀ (fuel i : Nat) (fs : Files) (vis : List Nat), St b fs → i < b.length → VInv b.length vis →
      b.length < fuel + vis.length → ∃ r, hasDyn o fuel fs vis i = some r ∧ DPost o b fs vis i r := by
  intro fuel
  induction fuel with
  | zero =>
    intro i fs vis _ _ hinv hfuel
    have := hinv.length_le
    omega
  | succ fuel ih =>
    intro i fs vis hst hi hinv hfuel
    obtain ⟨f, hf⟩ := get_of_lt (fs := fs) (i := i) (by rw [← hst.1]; exact hi)
    obtain ⟨f0, h0, _⟩ := hst.get hf
    obtain ⟨hrecs, _, hstars, hent⟩ := hst.recs h0 hf
    unfold hasDyn
    simp only [hf]
    by_cases hk : (f.kind == .cjs || f.kind == .dyn) = true
    · simp only [hk, if_true]
      have hdy : Dy fs i := ⟨f, hf, by simpa using hk⟩
      exact ⟨_, rfl, PW.rfl' RD.rfl' _, fun _ h => h, hinv, fun _ => hdy, fun _ h => Or.inl h, (fun h => by cases h)⟩
    · simp only [hk]
      have hnd : ¬ Dy fs i := by
        rintro ⟨g, hg, hgk⟩
        rw [hf] at hg; injection hg with hg; subst hg
        apply hk
        simpa using hgk
      by_cases hv : vis.contains i = true
      · simp only [hv, if_true]
        have hiv : i ∈ vis := by simpa using hv
        exact ⟨_, rfl, PW.rfl' RD.rfl' _, fun _ h => h, hinv, (fun h => by cases h), fun _ h => Or.inl h,
          fun _ => ⟨rfl, hnd, hiv, fun x hx hn => absurd hx hn⟩⟩
      · simp only [hv]
        have hiv : i ∉ vis := by simpa using hv
        have hinv' : VInv b.length (i :: vis) := by
          refine ⟨List.nodup_cons.2 ⟨hiv, hinv.1⟩, ?_⟩
          intro x hx
          rcases List.mem_cons.1 hx with rfl | hx
          · exact hi
          · exact hinv.2 x hx
        obtain ⟨r, e, p⟩ := starLoop_post hwf ih h0 hrecs hent f.stars fs (i :: vis) hst
          (fun s hs => hstars ▸ hs) hnd (by simp) hinv' (by simp; omega)
        refine ⟨r, e, p.rel, fun x hx => p.vis_mono x (by simp [hx]), p.inv, p.tru, p.sound, ?_⟩
        intro hres
        obtain ⟨h1, h2, h3⟩ := p.fls hres
        refine ⟨h1, hnd, p.vis_mono i (by simp), ?_⟩
        intro x hx hnx
        by_cases hxi : x = i
        · subst hxi
          refine ⟨hnd, ?_, ?_⟩
          · rintro ⟨g, s, r', hg, hs, hr', ht, hc⟩
            rw [h0] at hg; injection hg with hg; subst hg
            exact (h2 s (hstars ▸ hs) r' hr').1 ht ⟨f0, s, r', h0, hs, hr', ht, hc⟩
          · rintro j ⟨g, s, r', hg, hs, hr', ht, hji⟩
            rw [h0] at hg; injection hg with hg; subst hg
            exact (h2 s (hstars ▸ hs) r' hr').2 j ht hji
        · exact h3 x hx (by simp [hxi, hnx])

/-- a set of settled files contains no file with a chain of stars to something dynamic -/
theorem closed_no_DS {o : Opts} {b fs : Files} {V : List Nat} (hV : ∀ x ∈ V, ClosedAt o b fs V x) :
    ∀ x, DS o b fs x → x ∉ V := by
  intro x hx
  induction hx with
  | ext he => intro hv; exact (hV _ hv).2.1 he
  | base hs hd => intro hv; exact ((hV _ hv).2.2 _ hs).2 hd
  | step hs _ ih => intro hv; exact ih ((hV _ hv).2.2 _ hs).1

/-- **The answer of a traversal started with an empty `visited` map is exact**: `true` iff the file passes the
test itself or has a chain of `export *` to one that does, or to an external star. -/
theorem hasDyn_root {o : Opts} {b fs : Files} {i : Nat} {r : DynRes} (p : DPost o b fs [] i r) :
    (r.res = true ↔ Dy fs i ∨ DS o b fs i) ∧ (r.res = true → Dy r.fs i) := by
  refine ⟨⟨fun h => p.sound i (p.tru h), ?_⟩, p.tru⟩
  intro h
  cases hres : r.res with
  | true => rfl
  | false =>
    exfalso
    obtain ⟨_, hnd, hiv, hcl⟩ := p.fls hres
    rcases h with h | h
    · exact hnd h
    · exact closed_no_DS (V := r.vis) (fun x hx => hcl x hx (by simp)) i h hiv

end EsbuildModel.CjsWrap
