import EsbuildModel.Lemmas.IsoHash
/-! The final bytes of a chunk file as a function of the hashed piece data and the substituted paths. -/
namespace EsbuildModel.IsoHash
open EsbuildModel.Pieces

/-- what `substituteFinalPaths` appends after a piece's data: nothing for the final piece, otherwise the
final path of the asset / chunk the piece refers to -/
def refPath (pathOf : Kind → Nat → List Nat) (p : Piece) : List Nat :=
  match p.kind with
  | .none => []
  | k => pathOf k p.index

/-- the substituted paths of a chunk, one per piece, in piece order (`[[]]` when the joiner is used) -/
def refsOf (pathOf : Kind → Nat → List Nat) : Out → List (List Nat)
  | .pieces ps => ps.map (refPath pathOf)
  | .joiner _ => [[]]

theorem substitute_eq_zip (pathOf : Kind → Nat → List Nat) (ps : List Piece) :
    substitute pathOf ps
      = (List.zipWith (· ++ ·) (ps.map (·.data)) (ps.map (refPath pathOf))).flatten := by
  induction ps with
  | nil => rfl
  | cons p ps ih =>
    simp only [substitute, List.map_cons, List.zipWith_cons_cons, List.flatten_cons, ih,
      List.append_assoc]
    unfold refPath
    cases p.kind <;> rfl

/-- the contents are the hashed data spans interleaved with the substituted paths -/
theorem finalContents_eq_zip (pathOf : Kind → Nat → List Nat) (o : Out) :
    finalContents pathOf o = (List.zipWith (· ++ ·) (outData o) (refsOf pathOf o)).flatten := by
  cases o with
  | pieces ps => exact substitute_eq_zip pathOf ps
  | joiner b => simp [finalContents, outData, refsOf]

/-! ### the trailer as a function of the hashed modes -/

def isCSS : ChunkRepr → Bool
  | .js _ => false
  | .css => true

theorem comment_style (r r' : ChunkRepr) (h : isCSS r = isCSS r') :
    commentPrefix r = commentPrefix r' ∧ commentSuffix r = commentSuffix r' := by
  cases r <;> cases r' <;> simp_all [isCSS, commentPrefix, commentSuffix]

/-- the link to the legal-comments file, from the hashed mode (`none`: no external legal comments) -/
def legalLinkOf (m : Option Nat) (own : OwnPaths) (j : List Nat) : List Nat :=
  if m = some 3 then
    ensureNewlineAtEnd j ++ ascii "/*! For license information please see " ++ own.legalImportPath
      ++ ascii " */\n"
  else j

/-- the source-map comment, from the hashed mode (`none`: the map has no content) -/
def mapCommentOf (m : Option Nat) (pre suf : List Nat) (own : OwnPaths) (j : List Nat) : List Nat :=
  if m = some 2 then
    ensureNewlineAtEnd j ++ pre ++ ascii "# sourceMappingURL=" ++ own.mapEscapedPath ++ suf ++ [10]
  else if m = some 1 ∨ m = some 4 then
    ensureNewlineAtEnd j ++ pre ++ ascii "# sourceMappingURL=data:application/json;base64," ++ own.mapBase64
      ++ suf ++ [10]
  else j

theorem addLegalLink_eq (ctx : Ctx) (c : Chunk) (own : OwnPaths) (j : List Nat) :
    addLegalLink ctx c own j
      = legalLinkOf (if c.externalLegalComments = [] then none else some ctx.legalMode) own j := by
  unfold addLegalLink legalLinkOf
  by_cases hL : c.externalLegalComments = []
  · simp [hL]
  · have : c.externalLegalComments.length > 0 := List.length_pos_iff.2 hL
    simp [hL, this]

theorem addSourceMapComment_eq (ctx : Ctx) (c : Chunk) (own : OwnPaths) (j : List Nat) :
    addSourceMapComment ctx c own j
      = mapCommentOf (if c.outputSourceMap.hasContent = true then some ctx.sourceMapMode else none)
          (commentPrefix c.repr) (commentSuffix c.repr) own j := by
  unfold addSourceMapComment mapCommentOf
  by_cases hc : c.outputSourceMap.hasContent = true
  · by_cases h0 : ctx.sourceMapMode = 0
    · simp [hc, h0]
    · simp only [hc, h0, ne_eq, not_false_eq_true, and_self, if_true, Option.some.injEq]
  · simp [hc]

/-- the chunk file as a function of the tuple, the comment style, the substituted paths and the strings
derived from the chunk's own final path -/
def fileOfTuple (t : Tuple) (pre suf : List Nat) (refs : List (List Nat)) (own : OwnPaths) : List Nat :=
  mapCommentOf t.smMode pre suf own
    (legalLinkOf t.legalMode own (List.zipWith (· ++ ·) t.data refs).flatten)

theorem finalFile_eq (ctx : Ctx) (c : Chunk) (t : Tuple) (pathOf : Kind → Nat → List Nat) (own : OwnPaths)
    (h : tupleOf ctx c = some t) :
    finalFile ctx c pathOf own
      = fileOfTuple t (commentPrefix c.repr) (commentSuffix c.repr) (refsOf pathOf c.out) own := by
  unfold tupleOf at h
  cases he : fileEntries ctx c <;> rw [he] at h <;> simp only [reduceCtorEq, Option.some.injEq] at h
  subst h
  unfold finalFile fileOfTuple
  rw [addSourceMapComment_eq, addLegalLink_eq, finalContents_eq_zip]

end EsbuildModel.IsoHash
