import EsbuildModel.Lemmas.IsoHash
/-! The final bytes of a chunk file as a function of the hashed piece data and the substituted paths. -/
namespace EsbuildModel.IsoHash
open EsbuildModel.Pieces

/-- what `substituteFinalPaths` appends after a piece's data: nothing for the final piece, otherwise the
final path of the asset / chunk the piece refers to -/
def refPath (pathOf : Kind → Nat → List Nat) (p : Piece) : List Nat :=
  match p.kind with
  | .none => []
  | k => pathOf k p.index

/-- the substituted paths of a chunk, one per piece, in piece order (`[[]]` when the joiner is used) -/
def refsOf (pathOf : Kind → Nat → List Nat) : Out → List (List Nat)
  | .pieces ps => ps.map (refPath pathOf)
  | .joiner _ => [[]]

/-- `substituteFinalPaths`: "if intermediateOutput.pieces == nil { return intermediateOutput.joiner }",
otherwise the loop modelled by `Pieces.substitute` -/
def finalContents (pathOf : Kind → Nat → List Nat) : Out → List Nat
  | .pieces ps => substitute pathOf ps
  | .joiner b => b

theorem substitute_eq_zip (pathOf : Kind → Nat → List Nat) (ps : List Piece) :
    substitute pathOf ps
      = (List.zipWith (· ++ ·) (ps.map (·.data)) (ps.map (refPath pathOf))).flatten := by
  induction ps with
  | nil => rfl
  | cons p ps ih =>
    simp only [substitute, List.map_cons, List.zipWith_cons_cons, List.flatten_cons, ih,
      List.append_assoc]
    unfold refPath
    cases p.kind <;> rfl

/-- the contents are the hashed data spans interleaved with the substituted paths -/
theorem finalContents_eq_zip (pathOf : Kind → Nat → List Nat) (o : Out) :
    finalContents pathOf o = (List.zipWith (· ++ ·) (outData o) (refsOf pathOf o)).flatten := by
  cases o with
  | pieces ps => exact substitute_eq_zip pathOf ps
  | joiner b => simp [finalContents, outData, refsOf]

end EsbuildModel.IsoHash
