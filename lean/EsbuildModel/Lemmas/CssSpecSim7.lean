import EsbuildModel.Lemmas.CssSpecSim6
import EsbuildModel.Lemmas.CssLexShape
/-!
Simulation model ↔ specification, part 7: comments, whitespace tokens (which in esbuild contain the comments that
follow whitespace), `next()` and the whole run of `Tokenize`.
-/
namespace EsbuildModel.CssLex
open EsbuildModel.Spec
open EsbuildModel.Spec.Unicode (IsScalar)

/-- S13: §4.3.2 — the stream after a comment -/
theorem sim_afterComment (u : List Ch) (ht : Tame u) (st : List Ch) :
    CssSyntax.afterComment (ppS u) = ppS (consumeComment st u).rest := by
  fun_induction commentLoop u with
  | case1 => simp [consumeComment, commentLoop, ppS_nil, CssSyntax.afterComment]
  | case2 c =>
    have : crlfAt c [] = false := by simp [crlfAt, headIs]
    rw [ht.cons this, ppS_nil]
    simp [consumeComment, commentLoop, CssSyntax.afterComment, ppS_nil]
  | case3 c d u hc =>
    simp only [Bool.and_eq_true, beq_iff_eq] at hc
    rw [ht.cons (crlfAt_of_ne_cr c _ (by omega)), ht.tail.cons (crlfAt_of_ne_cr d _ (by omega)),
      (ppc_eq_iff _ 42 (by omega) (by omega) (by omega)).2 hc.1, (ppc_eq_iff _ 47 (by omega) (by omega) (by omega)).2 hc.2]
    have hl : commentLoop (c :: d :: u) = some (c :: d :: u, u) := by simp [commentLoop, hc.1, hc.2]
    rw [consumeComment_rest_some _ _ _ _ hl]
    simp [CssSyntax.afterComment]
  | case4 c d u hc ih =>
    have ih' := ih ht.tail
    have hrest : (consumeComment st (c :: d :: u)).rest = (consumeComment st (d :: u)).rest := by
      cases hl : commentLoop (d :: u) with
      | none =>
        have : commentLoop (c :: d :: u) = none := by simp [commentLoop, hc, hl]
        rw [consumeComment_rest_none _ _ this, consumeComment_rest_none _ _ hl]
      | some p =>
        obtain ⟨star, rest⟩ := p
        have : commentLoop (c :: d :: u) = some (star, rest) := by simp [commentLoop, hc, hl]
        rw [consumeComment_rest_some _ _ _ _ this, consumeComment_rest_some _ _ _ _ hl]
    rw [hrest, ← ih']
    by_cases hcr : crlfAt c (d :: u) = true
    · rw [ppS_crlf c _ hcr]
    · have hcr' : crlfAt c (d :: u) = false := by simpa using hcr
      rw [ht.cons hcr']
      obtain ⟨r, hr⟩ := ht.tail.head
      rw [hr]
      have hne : ¬ (ppc c.cp = 0x2A ∧ ppc d.cp = 0x2F) := by
        intro hh
        apply hc
        have h1 := (ppc_eq_iff _ 42 (by omega) (by omega) (by omega)).1 hh.1
        have h2 := (ppc_eq_iff _ 47 (by omega) (by omega) (by omega)).1 hh.2
        simp [h1, h2]
      rw [CssSyntax.afterComment]
      simp [hne]

/-- the state starts with `/*` -/
def startsCommentS : List Ch → Bool
  | c :: d :: _ => c.cp == 47 && d.cp == 42
  | _ => false

theorem sim_startsComment (s : List Ch) (ht : Tame s) : CssSyntax.startsComment (ppS s) = startsCommentS s := by
  match s with
  | [] => rfl
  | [c] =>
    have : crlfAt c [] = false := by simp [crlfAt, headIs]
    rw [ht.cons this, ppS_nil]; simp [CssSyntax.startsComment, startsCommentS]
  | c :: d :: u =>
    by_cases hc : c.cp = 47
    · obtain ⟨r, hr⟩ := ppS_two c d u ht (by omega)
      rw [hr, (ppc_eq_iff _ 47 (by omega) (by omega) (by omega)).2 hc]
      simp only [startsCommentS, hc, beq_self_eq_true, Bool.true_and]
      by_cases hd : d.cp = 42
      · rw [(ppc_eq_iff _ 42 (by omega) (by omega) (by omega)).2 hd]; simp [CssSyntax.startsComment, hd]
      · have : ppc d.cp ≠ 42 := fun h => hd ((ppc_eq_iff _ 42 (by omega) (by omega) (by omega)).1 h)
        have hd' : (d.cp == 42) = false := by simp [hd]
        rw [hd']
        unfold CssSyntax.startsComment
        split
        · next heq => simp only [List.cons.injEq] at heq; exact absurd heq.2.1 this
        · rfl
    · obtain ⟨r, hr⟩ := ht.head
      rw [hr]
      have : ppc c.cp ≠ 47 := fun h => hc ((ppc_eq_iff _ 47 (by omega) (by omega) (by omega)).1 h)
      have hc' : (c.cp == 47) = false := by simp [hc]
      simp only [startsCommentS, hc', Bool.false_and]
      unfold CssSyntax.startsComment
      split
      · next heq => simp only [List.cons.injEq] at heq; exact absurd heq.1 this
      · rfl

/-! ### whitespace tokens -/

theorem wsLoop_ws (c : Ch) (t : List Ch) (h : isWhitespace c.cp = true) : (wsLoop (c :: t)).1 = (wsLoop t).1 := by
  rw [wsLoop]; simp [h]

theorem wsLoop_skip (x : List Ch) : (wsLoop x).1 = (wsLoop (skipWhile isWhitespace x)).1 := by
  induction x with
  | nil => rfl
  | cons c t ih =>
    by_cases h : isWhitespace c.cp = true
    · rw [wsLoop_ws c t h]; simp only [skipWhile, h, if_true]; exact ih
    · simp [skipWhile, h]

theorem wsLoop_comment (c d : Ch) (u : List Ch) (hc : c.cp = 47) (hd : d.cp = 42) :
    (wsLoop (c :: d :: u)).1 = (wsLoop (consumeComment (c :: d :: u) u).rest).1 := by
  rw [wsLoop]
  have : isWhitespace c.cp = false := by simp [isWhitespace, hc]
  simp only [this, Bool.false_eq_true, if_false, hc, beq_self_eq_true, headIs, hd, Bool.and_self, if_true, step,
    show isWhitespace 47 = false from rfl]

theorem wsLoop_stop (x : List Ch) (h1 : headIs isWhitespace x = false) (h2 : startsCommentS x = false) :
    (wsLoop x).1 = x := by
  cases x with
  | nil => simp [wsLoop]
  | cons c t =>
    simp only [headIs] at h1
    rw [wsLoop]
    simp only [h1, Bool.false_eq_true, if_false]
    cases t with
    | nil => simp [headIs]
    | cons d u =>
      simp only [startsCommentS] at h2
      simp only [headIs]
      by_cases hc : (c.cp == 47) = true
      · simp only [hc, Bool.true_and] at h2 ⊢; simp [h2]
      · simp [hc]

theorem startsCommentS_iff (x : List Ch) (h : startsCommentS x = true) :
    ∃ c d u, x = c :: d :: u ∧ c.cp = 47 ∧ d.cp = 42 := by
  match x, h with
  | c :: d :: u, h =>
    simp only [startsCommentS, Bool.and_eq_true, beq_iff_eq] at h
    exact ⟨c, d, u, rfl, h.1, h.2⟩

/-- the specification's whitespace token at a state that starts with whitespace (and at what it has made of it) -/
theorem spec_whitespace_token (c : Ch) (t : List Ch) (ht : Tame (c :: t)) (hw : isWhitespace c.cp = true) (p : List Nat)
    (hrel : Rel (c :: t) p) (toks : List CssSyntax.Token)
    (h : CssSyntax.Tokenizes esbuildQuirks (ppS (skipWhile isWhitespace t)) toks) :
    CssSyntax.Tokenizes esbuildQuirks p (.whitespace :: toks) := by
  unfold Rel at hrel
  simp only [headIs, hw, if_true, skipWhile] at hrel
  obtain ⟨h1, h2⟩ := hrel
  cases p with
  | nil => simp [headP] at h1
  | cons w p1 =>
    simp only [headP] at h1
    have hsc : CssSyntax.startsComment (w :: p1) = false := by
      unfold CssSyntax.startsComment
      split
      · next heq =>
        simp only [List.cons.injEq] at heq
        rw [heq.1] at h1; simp [CssSyntax.isWhitespace, CssSyntax.isNewline] at h1
      · rfl
    have htok : CssSyntax.consumeToken esbuildQuirks w p1 = (.whitespace, CssSyntax.dropWhitespace p1) := by
      unfold CssSyntax.consumeToken; simp [h1]
    have hd : CssSyntax.dropWhitespace p1 = ppS (skipWhile isWhitespace t) := by
      rw [← h2]; simp [CssSyntax.dropWhitespace, h1]
    exact CssSyntax.Tokenizes.token w p1 .whitespace _ toks hsc htok (hd ▸ h)

/-- S14: what esbuild puts into ONE whitespace token (whitespace and the comments after it) the specification reads
as whitespace tokens with comments in between -/
theorem sim_wsRun (x : List Ch) (ht : Tame x) :
    ∃ k, ∀ toks, CssSyntax.Tokenizes esbuildQuirks (ppS (wsLoop x).1) toks →
      CssSyntax.Tokenizes esbuildQuirks (ppS x) (List.replicate k .whitespace ++ toks) := by
  induction x using list_length_induction with
  | _ x ih =>
    by_cases hw : headIs isWhitespace x = true
    · -- whitespace first
      cases x with
      | nil => simp [headIs] at hw
      | cons c t =>
        simp only [headIs] at hw
        have hx' : Tame (skipWhile isWhitespace t) := ht.tail.suffix (skipWhile_suffix _ _)
        have hlen : (skipWhile isWhitespace t).length < (c :: t).length := by
          have := skipWhile_length isWhitespace t; simp only [List.length_cons]; omega
        have heq : (wsLoop (c :: t)).1 = (wsLoop (skipWhile isWhitespace t)).1 := by
          rw [wsLoop_ws c t hw]; exact wsLoop_skip t
        obtain ⟨k, hk⟩ := ih _ hlen hx'
        refine ⟨k + 1, fun toks h => ?_⟩
        rw [heq] at h
        rw [List.replicate_succ, List.cons_append]
        exact spec_whitespace_token c t ht hw _ (Rel.refl _ ht) _ (hk toks h)
    · have hw' : headIs isWhitespace x = false := by simpa using hw
      by_cases hcm : startsCommentS x = true
      · obtain ⟨c, d, u, rfl, hc, hd⟩ := startsCommentS_iff x hcm
        have hr := consumeComment_suffix (c :: d :: u) u
        have hx' : Tame (consumeComment (c :: d :: u) u).rest :=
          ht.tail.tail.suffix hr
        have hlen : (consumeComment (c :: d :: u) u).rest.length < (c :: d :: u).length := by
          have := consumeComment_length (c :: d :: u) u; simp only [List.length_cons]; omega
        obtain ⟨k, hk⟩ := ih _ hlen hx'
        refine ⟨k, fun toks h => ?_⟩
        rw [wsLoop_comment c d u hc hd] at h
        have hpp : ppS (c :: d :: u) = 0x2F :: 0x2A :: ppS u := by
          rw [ht.cons (crlfAt_of_ne_cr c _ (by omega)), ht.tail.cons (crlfAt_of_ne_cr d _ (by omega)),
            (ppc_eq_iff _ 47 (by omega) (by omega) (by omega)).2 hc, (ppc_eq_iff _ 42 (by omega) (by omega) (by omega)).2 hd]
        rw [hpp]
        apply CssSyntax.Tokenizes.comment
        rw [sim_afterComment u ht.tail.tail (c :: d :: u)]
        exact hk toks h
      · have hcm' : startsCommentS x = false := by simpa using hcm
        refine ⟨0, fun toks h => ?_⟩
        rw [wsLoop_stop x hw' hcm'] at h
        simpa using h

/-- where a whitespace token of esbuild ends, neither whitespace nor a comment follows -/
theorem wsLoop_end (x : List Ch) :
    headIs isWhitespace (wsLoop x).1 = false ∧ startsCommentS (wsLoop x).1 = false := by
  induction x using list_length_induction with
  | _ x ih =>
    by_cases hw : headIs isWhitespace x = true
    · cases x with
      | nil => simp [headIs] at hw
      | cons c t =>
        simp only [headIs] at hw
        rw [wsLoop_ws c t hw]
        exact ih t (by simp)
    · have hw' : headIs isWhitespace x = false := by simpa using hw
      by_cases hcm : startsCommentS x = true
      · obtain ⟨c, d, u, rfl, hc, hd⟩ := startsCommentS_iff x hcm
        rw [wsLoop_comment c d u hc hd]
        exact ih _ (by have := consumeComment_length (c :: d :: u) u; simp only [List.length_cons]; omega)
      · have hcm' : startsCommentS x = false := by simpa using hcm
        rw [wsLoop_stop x hw' hcm']
        exact ⟨hw', hcm'⟩

/-! ### `next()` and `Tokenize` -/

/-- the token of the specification that corresponds to what one call of `next()` returned, in the common view
(determined by the state at the start of the token) -/
def outSpecView (o : NextOut) : View :=
  match o.startS with
  | [] => ⟨.TEndOfFile, [], [], false⟩
  | c :: t =>
    if isWhitespace c.cp then ⟨.TWhitespace, [], [], false⟩
    else if c.cp == 47 then ⟨.TDelimSlash, [47], [], false⟩
    else otherView c t

/-- what one call of `next()` corresponds to in the specification's token stream -/
def NextSim (o : NextOut) (p : List Nat) : Prop :=
  (o.kind = .TEndOfFile ∧ CssSyntax.Tokenizes esbuildQuirks p []) ∨
  (o.kind ≠ .TEndOfFile ∧ ∃ pre p', pre ≠ [] ∧ (∀ x ∈ pre, specView x = outSpecView o) ∧
      ((outSpecView o).kind ≠ .TWhitespace → pre.length = 1) ∧ Tame o.rest ∧ Rel o.rest p' ∧
      ∀ toks', CssSyntax.Tokenizes esbuildQuirks p' toks' → CssSyntax.Tokenizes esbuildQuirks p (pre ++ toks'))

theorem Rel.of_not_ws {s : List Ch} {p : List Nat} (h : Rel s p) (hw : headIs isWhitespace s = false) : p = ppS s := by
  unfold Rel at h; simpa [hw] using h

theorem nextSim_slash (c : Ch) (t : List Ch) (ht : Tame (c :: t)) (hc : c.cp = 47) (hnc : startsCommentS (c :: t) = false)
    (o : NextOut) (hk : o.kind = .TDelimSlash) (hs : o.startS = c :: t) (hr : o.rest = t) : NextSim o (ppS (c :: t)) := by
  right
  have hst : Start c t := ⟨ht, by simp [isWhitespace, hc]⟩
  refine ⟨by simp [hk], [.delim 47], ppS t, by simp, ?_, fun _ => rfl, by rw [hr]; exact ht.tail, by rw [hr]; exact Rel.refl _ ht.tail, ?_⟩
  · intro x hx
    simp only [List.mem_singleton] at hx
    rw [hx]
    simp [outSpecView, hs, hc, specView, delimKind, isWhitespace]
  · intro toks' htk
    rw [hst.pp]
    have hsc := sim_startsComment (c :: t) ht
    rw [hst.pp, hnc] at hsc
    exact CssSyntax.Tokenizes.token _ _ _ _ _ hsc (sim_slash c t hst hc) htk

theorem next_sim (oldRem : Nat) (s : List Ch) (ht : Tame s) (p : List Nat) (hrel : Rel s p) :
    NextSim (next oldRem s) p := by
  fun_induction next oldRem s generalizing p with
  | case1 =>
    left
    have : p = [] := by have := hrel.of_not_ws (by simp [headIs]); simpa [ppS_nil] using this
    subst this
    exact ⟨rfl, CssSyntax.Tokenizes.eof⟩
  | case2 c hc =>
    simp only [beq_iff_eq] at hc
    have hp := hrel.of_not_ws (by simp [headIs, isWhitespace, hc])
    subst hp
    exact nextSim_slash c [] ht hc (by simp [startsCommentS]) _ rfl rfl rfl
  | case3 c hc d u hd ih =>
    simp only [beq_iff_eq] at hc hd
    have hp := hrel.of_not_ws (by simp [headIs, isWhitespace, hc])
    subst hp
    have htr : Tame (consumeComment (c :: d :: u) u).rest := ht.tail.tail.suffix (consumeComment_suffix _ _)
    have ih' := ih htr _ (Rel.refl _ htr)
    have hpp : ppS (c :: d :: u) = 0x2F :: 0x2A :: ppS u := by
      rw [ht.cons (crlfAt_of_ne_cr c _ (by omega)), ht.tail.cons (crlfAt_of_ne_cr d _ (by omega)),
        (ppc_eq_iff _ 47 (by omega) (by omega) (by omega)).2 hc, (ppc_eq_iff _ 42 (by omega) (by omega) (by omega)).2 hd]
    have hac := sim_afterComment u ht.tail.tail (c :: d :: u)
    unfold NextSim at ih' ⊢
    simp only [NextOut.withComment]
    rcases ih' with ⟨hk, htk⟩ | ⟨hk, pre, p', hne, hv, hl1, htm, hr, hcont⟩
    · left
      refine ⟨hk, ?_⟩
      rw [hpp]; apply CssSyntax.Tokenizes.comment; rw [hac]; exact htk
    · right
      refine ⟨hk, pre, p', hne, hv, hl1, htm, hr, ?_⟩
      intro toks' htk
      rw [hpp]; apply CssSyntax.Tokenizes.comment; rw [hac]; exact hcont toks' htk
  | case4 c hc d u hd1 hd2 hle =>
    simp only [beq_iff_eq] at hc
    have hp := hrel.of_not_ws (by simp [headIs, isWhitespace, hc])
    subst hp
    exact nextSim_slash c (d :: u) ht hc (by simp [startsCommentS, hd1]) _ rfl rfl rfl
  | case5 c hc d u hd1 hd2 hle =>
    simp only [beq_iff_eq] at hc
    have hp := hrel.of_not_ws (by simp [headIs, isWhitespace, hc])
    subst hp
    exact nextSim_slash c (d :: u) ht hc (by simp [startsCommentS, hd1]) _ rfl rfl rfl
  | case6 c hc d u hd1 hd2 =>
    simp only [beq_iff_eq] at hc
    have hp := hrel.of_not_ws (by simp [headIs, isWhitespace, hc])
    subst hp
    exact nextSim_slash c (d :: u) ht hc (by simp [startsCommentS, hd1]) _ rfl rfl rfl
  | case7 c t hc hw =>
    right
    have htx : Tame (skipWhile isWhitespace t) := ht.tail.suffix (skipWhile_suffix _ _)
    have htr : Tame (wsLoop t).1 := ht.tail.suffix (wsLoop_suffix t)
    obtain ⟨k, hk⟩ := sim_wsRun (skipWhile isWhitespace t) htx
    refine ⟨by simp, .whitespace :: List.replicate k .whitespace, ppS (wsLoop t).1, by simp, ?_,
      fun hk => absurd (by simp [outSpecView, hw]) hk, htr, Rel.refl _ htr, ?_⟩
    · intro x hx
      have : x = .whitespace := by
        simp only [List.mem_cons, List.mem_replicate] at hx
        rcases hx with h | h
        · exact h
        · exact h.2
      rw [this]
      simp [outSpecView, hw, specView]
    · intro toks' htk
      rw [wsLoop_skip t] at htk
      rw [List.cons_append]
      exact spec_whitespace_token c t ht hw p hrel _ (hk toks' htk)
  | case8 c t hc hw =>
    have hc' : c.cp ≠ 47 := by simpa using hc
    have hw' : isWhitespace c.cp = false := by simpa using hw
    have hp := hrel.of_not_ws (by simp [headIs, hw'])
    subst hp
    have hst : Start c t := ⟨ht, hw'⟩
    obtain ⟨h1, h2⟩ := sim_lexOther c t hst hc'
    right
    refine ⟨lexOther_kind_ne_eof c t, [(CssSyntax.consumeToken esbuildQuirks c.cp (ppS t)).1],
      (CssSyntax.consumeToken esbuildQuirks c.cp (ppS t)).2, by simp, ?_, fun _ => rfl, ht.suffix (lexOther_suffix c t).1, h1, ?_⟩
    · intro x hx
      simp only [List.mem_singleton] at hx
      rw [hx, h2]
      simp [outSpecView, hw', hc']
    · intro toks' htk
      rw [hst.pp]
      have hsc := sim_startsComment (c :: t) ht
      rw [hst.pp] at hsc
      have : startsCommentS (c :: t) = false := by
        cases t with
        | nil => rfl
        | cons d u => simp [startsCommentS, hc']
      rw [this] at hsc
      exact CssSyntax.Tokenizes.token _ _ _ _ _ hsc rfl htk

theorem collapseWs_cons (v : View) (L : List View) :
    collapseWs (v :: L) =
      if v.kind = .TWhitespace then
        (match collapseWs L with
         | [] => [v]
         | w :: ws => if w.kind = .TWhitespace then w :: ws else v :: w :: ws)
      else v :: collapseWs L := by
  rw [collapseWs]; rfl

theorem collapseWs_ws_head (v : View) (hv : v.kind = .TWhitespace) (L : List View) :
    ∃ w r, collapseWs (v :: L) = w :: r ∧ w.kind = .TWhitespace := by
  rw [collapseWs_cons]
  simp only [hv, if_true]
  cases hL : collapseWs L with
  | nil => exact ⟨v, [], rfl, hv⟩
  | cons w ws =>
    simp only
    by_cases hw : w.kind = .TWhitespace
    · exact ⟨w, ws, by simp [hw], hw⟩
    · exact ⟨v, w :: ws, by simp [hw], hv⟩

theorem collapseWs_replicate (n : Nat) (hn : 1 ≤ n) (v : View) (hv : v.kind = .TWhitespace) (L : List View) :
    collapseWs (List.replicate n v ++ L) = collapseWs (v :: L) := by
  induction n with
  | zero => omega
  | succ n ih =>
    cases n with
    | zero => simp
    | succ m =>
      rw [List.replicate_succ, List.cons_append, collapseWs_cons]
      simp only [hv, if_true]
      rw [ih (by omega)]
      obtain ⟨w, r, hwr, hw⟩ := collapseWs_ws_head v hv L
      rw [hwr]
      simp [hw]

/-- S15: the whole run: the tokens of the specification (reading `esbuildQuirks`) on the preprocessed input are,
up to runs of whitespace tokens, what `Tokenize` returns -/
theorem lexAll_sim (oldRem : Nat) (s : List Ch) (ht : Tame s) (p : List Nat) (hrel : Rel s p) :
    ∃ toks, CssSyntax.Tokenizes esbuildQuirks p toks ∧
      collapseWs (toks.map specView) =
        collapseWs (((lexAll oldRem s).filter (·.kind ≠ .TEndOfFile)).map outSpecView) := by
  fun_induction lexAll oldRem s generalizing p with
  | case1 oldRem s hk =>
    rcases next_sim oldRem s ht p hrel with ⟨_, htk⟩ | ⟨hne, _⟩
    · exact ⟨[], htk, by simp [hk]⟩
    · exact absurd hk hne
  | case2 oldRem s hk ih =>
    rcases next_sim oldRem s ht p hrel with ⟨hk', _⟩ | ⟨_, pre, p', hne, hv, hl1, htm, hr, hcont⟩
    · exact absurd hk' hk
    · obtain ⟨toks', htk', hviews⟩ := ih htm p' hr
      refine ⟨pre ++ toks', hcont toks' htk', ?_⟩
      simp only [hk, List.filter_cons, ne_eq, not_false_eq_true, decide_true, if_true, List.map_cons, List.map_append]
      have hpre : pre.map specView = List.replicate pre.length (outSpecView (next oldRem s)) := by
        apply List.eq_replicate_iff.2
        exact ⟨by simp, fun x hx => by
          simp only [List.mem_map] at hx
          obtain ⟨y, hy, rfl⟩ := hx
          exact hv y hy⟩
      rw [hpre]
      have hlen : 1 ≤ pre.length := by
        cases pre with
        | nil => exact absurd rfl hne
        | cons a b => simp
      by_cases hws : (outSpecView (next oldRem s)).kind = .TWhitespace
      · rw [collapseWs_replicate _ hlen _ hws, collapseWs_cons, collapseWs_cons, hviews]
      · rw [hl1 hws]
        simp only [List.replicate_one, List.cons_append, List.nil_append]
        rw [collapseWs_cons, collapseWs_cons, hviews]

end EsbuildModel.CssLex
