import EsbuildModel.Lemmas.ScopesDecls
/-!
A program without an ECMAScript early error (Spec/JsScopes.lean) makes the parse pass (at the level of kinds) report no
redeclaration and leaves a scope tree on which hoistSymbols has no static error condition.
-/
namespace EsbuildModel.Scopes
open JsScopes

theorem inter_false {a b : List Name} (h : inter a b = false) : ∀ n, n ∈ a → n ∉ b := by
  intro n ha hb
  simp only [inter, List.any_eq_false, List.contains_eq_mem, decide_eq_true_eq] at h
  exact h n ha hb

theorem hasDup_false : ∀ {l : List Name}, hasDup l = false → ∀ n, l.count n ≤ 1
  | [], _, n => by simp
  | x :: xs, h, n => by
    simp only [hasDup, Bool.or_eq_false_iff, List.contains_eq_mem, decide_eq_false_iff_not] at h
    have ih := hasDup_false h.2 n
    simp only [List.count_cons]
    split
    · next hx =>
      have : xs.count n = 0 := by
        rw [List.count_eq_zero]
        have := beq_iff_eq.mp hx
        subst this
        exact h.1
      omega
    · omega

theorem count_namesWhere_split (p : SK → Bool) (pre post : List (SK × Name)) (k : SK) (n : Name) (hp : p k = true) :
    (namesWhere p (pre ++ (k, n) :: post)).count n = (namesWhere p pre).count n + 1 + (namesWhere p post).count n := by
  have : pre ++ (k, n) :: post = pre ++ ([(k, n)] ++ post) := rfl
  rw [this, namesWhere_append, namesWhere_append]
  simp only [List.count_append]
  have : namesWhere p [(k, n)] = [n] := by simp [namesWhere, hp]
  rw [this]
  simp
  omega

theorem count_pos_namesWhere {p : SK → Bool} {ds : List (SK × Name)} {k : SK} {n : Name} (h : (k, n) ∈ ds) (hp : p k = true) :
    1 ≤ (namesWhere p ds).count n := by
  rw [Nat.succ_le_iff, List.count_pos_iff, mem_namesWhere]
  exact ⟨k, h, hp⟩

theorem count_namesWhere_le {p q : SK → Bool} (hpq : ∀ k, p k = true → q k = true) : ∀ (ds : List (SK × Name)) (n : Name),
    (namesWhere p ds).count n ≤ (namesWhere q ds).count n
  | [], n => by simp [namesWhere]
  | (k, m) :: ds, n => by
    have ih := count_namesWhere_le hpq ds n
    have e1 : ∀ r : SK → Bool, namesWhere r ((k, m) :: ds) = (if r k then [m] else []) ++ namesWhere r ds := by
      intro r
      simp only [namesWhere, List.filterMap_cons]
      split <;> simp_all
    rw [e1 p, e1 q]
    simp only [List.count_append]
    by_cases hp : p k = true
    · have hq := hpq k hp
      rw [if_pos hp, if_pos hq]; omega
    · rw [if_neg hp]
      simp only [List.count_nil, Nat.zero_add]
      omega

theorem count_namesWhere_lt {p q : SK → Bool} (hpq : ∀ k, p k = true → q k = true) :
    ∀ (ds : List (SK × Name)) (k : SK) (n : Name), (k, n) ∈ ds → q k = true → p k = false →
    (namesWhere p ds).count n < (namesWhere q ds).count n
  | [], _, _, h, _, _ => by simp at h
  | (k0, m) :: ds, k, n, h, hq, hp => by
    have e1 : ∀ r : SK → Bool, namesWhere r ((k0, m) :: ds) = (if r k0 then [m] else []) ++ namesWhere r ds := by
      intro r
      simp only [namesWhere, List.filterMap_cons]
      split <;> simp_all
    rw [e1 p, e1 q]
    simp only [List.count_append]
    simp only [List.mem_cons, Prod.mk.injEq] at h
    rcases h with ⟨hk, hn⟩ | h
    · subst hk hn
      have := count_namesWhere_le hpq ds n
      rw [if_neg (by simp [hp]), if_pos hq]
      simp; omega
    · have ih := count_namesWhere_lt hpq ds k n h hq hp
      by_cases hp0 : p k0 = true
      · rw [if_pos hp0, if_pos (hpq k0 hp0)]; omega
      · rw [if_neg hp0]
        simp only [List.count_nil, Nat.zero_add]
        omega

/-- 14.2.1: what `dupLex = false` says about two lexical declarations of one name in a block -/
theorem dupLex_two {S : Bool} {b : List Stmt} (h : dupLex S b = false) {pre post : List (SK × Name)} {ek k : SK} {n : Name}
    (hds : declKinds b = pre ++ (k, n) :: post) (hek : (ek, n) ∈ pre) (hl1 : ek ≠ .hoisted) (hl2 : k ≠ .hoisted) :
    S = false ∧ ek = .hoistedFunction ∧ k = .hoistedFunction := by
  have hnl : n ∈ lexNames b := by
    rw [lexNames_eq, hds, mem_namesWhere]
    exact ⟨k, by simp, by simp [isLexKind, hl2]⟩
  simp only [dupLex, List.any_eq_false, Bool.and_eq_true, decide_eq_true_eq, Bool.or_eq_true, not_and, not_or] at h
  have hc : 2 ≤ (lexNames b).count n := by
    rw [lexNames_eq, hds, count_namesWhere_split _ _ _ _ _ (by simp [isLexKind, hl2])]
    have := count_pos_namesWhere (p := isLexKind) hek (by simp [isLexKind, hl1])
    omega
  obtain ⟨hS, hpl⟩ := h n hnl hc
  simp only [ne_eq, Decidable.not_not] at hpl
  refine ⟨by simpa using hS, ?_⟩
  rw [plainFnNames_eq, lexNames_eq] at hpl
  have hsub : ∀ k : SK, (k == SK.hoistedFunction) = true → isLexKind k = true := by
    intro k hk; rw [beq_iff_eq] at hk; subst hk; rfl
  constructor
  · by_cases he : ek = .hoistedFunction
    · exact he
    · exfalso
      have := count_namesWhere_lt hsub (declKinds b) ek n (by rw [hds]; simp [hek]) (by simp [isLexKind, hl1]) (by simp [he])
      omega
  · by_cases he : k = .hoistedFunction
    · exact he
    · exfalso
      have := count_namesWhere_lt hsub (declKinds b) k n (by rw [hds]; simp) (by simp [isLexKind, hl2]) (by simp [he])
      omega

/-- the declarations of a block statement list are never refused when the block has no early error -/
theorem block_pairsOK (S : Bool) (b : List Stmt) (st : Strict) (hdup : dupLex S b = false)
    (hlv : inter (lexNames b) (topVarNames b) = false) : PairsOK .block ⟨.block, st, [], []⟩ (declKinds b) := by
  apply pairsOK_of .block _ _ (declKinds_noPair b)
  intro pre k n post hds ek hek
  have hek : (ek, n) ∈ pre := by
    rcases hek with h | h
    · simp [alookup] at h
    · exact h
  have hkm : (k, n) ∈ declKinds b := by rw [hds]; simp
  have hekm : (ek, n) ∈ declKinds b := by rw [hds]; simp [hek]
  by_cases h1 : ek = .hoisted
  · subst h1
    have hv : n ∈ topVarNames b := by rw [topVarNames_eq, mem_namesWhere]; exact ⟨_, hekm, by simp⟩
    by_cases h2 : k = .hoisted
    · subst h2; decide
    · exfalso
      have hl : n ∈ lexNames b := by rw [lexNames_eq, mem_namesWhere]; exact ⟨_, hkm, by simp [isLexKind, h2]⟩
      exact inter_false hlv n hl hv
  · have hl : n ∈ lexNames b := by rw [lexNames_eq, mem_namesWhere]; exact ⟨_, hekm, by simp [isLexKind, h1]⟩
    by_cases h2 : k = .hoisted
    · exfalso
      subst h2
      have hv : n ∈ topVarNames b := by rw [topVarNames_eq, mem_namesWhere]; exact ⟨_, hkm, by simp⟩
      exact inter_false hlv n hl hv
    · obtain ⟨_, he, hk⟩ := dupLex_two hdup hds hek h1 h2
      subst he hk
      decide

theorem topVar_sub_var : ∀ (ss : List Stmt) (n : Name), n ∈ topVarNames ss → n ∈ varNamesL ss
  | [], _, h => by simp [topVarNames] at h
  | s :: ss, n, h => by
    cases s with
    | var_ m =>
      simp only [topVarNames, List.mem_cons] at h
      simp only [varNamesL, Stmt.varNames, List.mem_append, List.mem_singleton]
      rcases h with h | h
      · exact Or.inl h
      · exact Or.inr (topVar_sub_var ss n h)
    | lex k m => simp only [topVarNames] at h; simp only [varNamesL, List.mem_append]; exact Or.inr (topVar_sub_var ss n h)
    | fn m g ps us body => simp only [topVarNames] at h; simp only [varNamesL, List.mem_append]; exact Or.inr (topVar_sub_var ss n h)
    | ref m => simp only [topVarNames] at h; simp only [varNamesL, List.mem_append]; exact Or.inr (topVar_sub_var ss n h)
    | block b => simp only [topVarNames] at h; simp only [varNamesL, List.mem_append]; exact Or.inr (topVar_sub_var ss n h)
    | try_ b c hh => simp only [topVarNames] at h; simp only [varNamesL, List.mem_append]; exact Or.inr (topVar_sub_var ss n h)
    | fnExpr m ps us body => simp only [topVarNames] at h; simp only [varNamesL, List.mem_append]; exact Or.inr (topVar_sub_var ss n h)
    | arrow ps body => simp only [topVarNames] at h; simp only [varNamesL, List.mem_append]; exact Or.inr (topVar_sub_var ss n h)

/-- var-like kinds: at the top level of a function or script they all merge -/
def isVarish (k : SK) : Bool := k == .hoisted || isFnKind k

theorem canMerge_stop_varish {sk : ScK} (hsk : sk = .fnBody ∨ sk = .entry) {ek k : SK}
    (he : isVarish ek = true ∨ ek = .arguments) (hk : isVarish k = true) : canMergeSymbols sk ek k ≠ .forbidden := by
  have hk' : k = .hoisted ∨ k = .hoistedFunction ∨ k = .generatorOrAsyncFunction := by
    simp only [isVarish, isFnKind, Bool.or_eq_true, beq_iff_eq] at hk; rcases hk with h | h | h <;> simp [h]
  have he' : ek = .hoisted ∨ ek = .hoistedFunction ∨ ek = .generatorOrAsyncFunction ∨ ek = .arguments := by
    rcases he with h | h
    · simp only [isVarish, isFnKind, Bool.or_eq_true, beq_iff_eq] at h; rcases h with h | h | h <;> simp [h]
    · simp [h]
  rcases hsk with rfl | rfl <;> rcases hk' with rfl | rfl | rfl <;> rcases he' with rfl | rfl | rfl | rfl <;> decide

theorem canMerge_arguments_lex {sk : ScK} {k : SK} (hk : isTopLexKind k = true) :
    canMergeSymbols sk .arguments k ≠ .forbidden := by
  have hk' : k = .other ∨ k = .const_ ∨ k = .class_ := by
    simp only [isTopLexKind, Bool.or_eq_true, beq_iff_eq] at hk; rcases hk with (h | h) | h <;> simp [h]
  rcases hk' with rfl | rfl | rfl <;> cases sk <;> decide

/-- the declarations at the top level of a function body or script are never refused when 15.2.1 / 16.1.1 report no
error; `init` = the members the scope starts with: var-like kinds for the names `ps`, possibly "arguments" -/
theorem stop_pairsOK (sk : ScK) (hsk : sk = .fnBody ∨ sk = .entry) (f0 : AFrame) (ps : List Name) (body : List Stmt)
    (hinit : ∀ n ek, alookup n f0.mem = some ek → (ek = .hoisted ∧ n ∈ ps) ∨ ek = .arguments)
    (hdup : hasDup (topLexNames body) = false)
    (hlv : inter (topLexNames body) (varNamesL body ++ topFnNames body) = false)
    (hpl : inter ps (topLexNames body) = false) : PairsOK sk f0 (declKinds body) := by
  apply pairsOK_of sk _ _ (declKinds_noPair body)
  intro pre k n post hds ek hek
  have hkm : (k, n) ∈ declKinds body := by rw [hds]; simp
  have hkc := declKinds_kinds body k n hkm
  -- the existing kind: a parameter, "arguments", or an earlier declaration
  by_cases hkl : isTopLexKind k = true
  · -- a lexical declaration
    have hnl : n ∈ topLexNames body := by rw [topLexNames_eq, mem_namesWhere]; exact ⟨k, hkm, hkl⟩
    rcases hek with hek | hek
    · rcases hinit n ek hek with ⟨_, hp⟩ | he
      · exact absurd hnl (inter_false hpl n hp)
      · subst he; exact canMerge_arguments_lex hkl
    · exfalso
      have hekm : (ek, n) ∈ declKinds body := by rw [hds]; simp [hek]
      rcases declKinds_kinds body ek n hekm with h1 | h1 | h1
      · subst h1
        have : n ∈ topVarNames body := by rw [topVarNames_eq, mem_namesWhere]; exact ⟨_, hekm, by simp⟩
        exact inter_false hlv n hnl (by simp [topVar_sub_var body n this])
      · have hc : 2 ≤ (topLexNames body).count n := by
          rw [topLexNames_eq, hds, count_namesWhere_split _ _ _ _ _ hkl]
          have := count_pos_namesWhere (p := isTopLexKind) hek h1
          omega
        have := hasDup_false hdup n
        omega
      · have : n ∈ topFnNames body := by rw [topFnNames_eq, mem_namesWhere]; exact ⟨_, hekm, h1⟩
        exact inter_false hlv n hnl (by simp [this])
  · -- a var or function declaration
    have hkv : isVarish k = true := by
      rcases hkc with h | h | h
      · simp [isVarish, h]
      · exact absurd h hkl
      · simp [isVarish, h]
    apply canMerge_stop_varish hsk _ hkv
    rcases hek with hek | hek
    · rcases hinit n ek hek with ⟨he, _⟩ | he
      · left; simp [isVarish, he]
      · right; exact he
    · left
      have hekm : (ek, n) ∈ declKinds body := by rw [hds]; simp [hek]
      rcases declKinds_kinds body ek n hekm with h1 | h1 | h1
      · simp [isVarish, h1]
      · exfalso
        have hnl : n ∈ topLexNames body := by rw [topLexNames_eq, mem_namesWhere]; exact ⟨ek, hekm, h1⟩
        rcases hkc with h | h | h
        · subst h
          have : n ∈ topVarNames body := by rw [topVarNames_eq, mem_namesWhere]; exact ⟨_, hkm, by simp⟩
          exact inter_false hlv n hnl (by simp [topVar_sub_var body n this])
        · exact hkl h
        · have : n ∈ topFnNames body := by rw [topFnNames_eq, mem_namesWhere]; exact ⟨_, hkm, h⟩
          exact inter_false hlv n hnl (by simp [this])
      · simp [isVarish, h1]

/-- 16.2.1.1: the declarations at the top level of a module -/
theorem module_pairsOK (st : Strict) (body : List Stmt) (hdup : hasDup (lexNames body) = false)
    (hlv : inter (lexNames body) (varNamesL body) = false) : PairsOK .entry ⟨.entry, st, [], []⟩ (declKinds body) := by
  apply pairsOK_of .entry _ _ (declKinds_noPair body)
  intro pre k n post hds ek hek
  have hek : (ek, n) ∈ pre := by
    rcases hek with h | h
    · simp [alookup] at h
    · exact h
  have hkm : (k, n) ∈ declKinds body := by rw [hds]; simp
  have hekm : (ek, n) ∈ declKinds body := by rw [hds]; simp [hek]
  by_cases h1 : ek = .hoisted
  · subst h1
    have hv : n ∈ topVarNames body := by rw [topVarNames_eq, mem_namesWhere]; exact ⟨_, hekm, by simp⟩
    by_cases h2 : k = .hoisted
    · subst h2; decide
    · exfalso
      have hl : n ∈ lexNames body := by rw [lexNames_eq, mem_namesWhere]; exact ⟨_, hkm, by simp [isLexKind, h2]⟩
      exact inter_false hlv n hl (topVar_sub_var body n hv)
  · have hl : n ∈ lexNames body := by rw [lexNames_eq, mem_namesWhere]; exact ⟨_, hekm, by simp [isLexKind, h1]⟩
    exfalso
    by_cases h2 : k = .hoisted
    · subst h2
      have hv : n ∈ topVarNames body := by rw [topVarNames_eq, mem_namesWhere]; exact ⟨_, hkm, by simp⟩
      exact inter_false hlv n hl (topVar_sub_var body n hv)
    · have hc : 2 ≤ (lexNames body).count n := by
        rw [lexNames_eq, hds, count_namesWhere_split _ _ _ _ _ (by simp [isLexKind, h2])]
        have := count_pos_namesWhere (p := isLexKind) hek (by simp [isLexKind, h1])
        omega
      have := hasDup_false hdup n
      omega

/-- the parameters (and the name of a function expression) are never refused -/
theorem args_pairsOK (st : Strict) (name : Option Name) (ps : List Name) :
    PairsOK .fnArgs ⟨.fnArgs, st, [], []⟩ (nameDecl name ++ ps.map (fun p => (SK.hoisted, p))) := by
  apply pairsOK_of
  · intro d hd
    simp only [List.mem_append, List.mem_map] at hd
    rcases hd with hd | ⟨p, _, hd⟩
    · cases name <;> simp [nameDecl] at hd; subst hd; rfl
    · subst hd; rfl
  · intro pre k n post hds ek hek
    have hk : k = .hoisted ∨ k = .hoistedFunction := by
      have : (k, n) ∈ nameDecl name ++ ps.map (fun p => (SK.hoisted, p)) := by rw [hds]; simp
      simp only [List.mem_append, List.mem_map] at this
      rcases this with h | ⟨p, _, h⟩
      · cases name <;> simp [nameDecl] at h; exact Or.inr h.1
      · cases h; exact Or.inl rfl
    have hek' : ek = .hoisted ∨ ek = .hoistedFunction := by
      rcases hek with h | h
      · simp [alookup] at h
      · have : (ek, n) ∈ nameDecl name ++ ps.map (fun p => (SK.hoisted, p)) := by rw [hds]; simp [h]
        simp only [List.mem_append, List.mem_map] at this
        rcases this with h | ⟨p, _, h⟩
        · cases name <;> simp [nameDecl] at h; exact Or.inr h.1
        · cases h; exact Or.inl rfl
    rcases hk with rfl | rfl <;> rcases hek' with rfl | rfl <;> decide

/-- 14.15.1: the catch parameter -/
theorem catch_pairsOK (st : Strict) (c : CatchParam) (hdup : hasDup c.bound = false) :
    PairsOK .catchBinding ⟨.catchBinding, st, [], []⟩ (catchDecls c) := by
  apply pairsOK_of
  · intro d hd
    cases c with
    | none => simp [catchDecls] at hd
    | ident n => simp [catchDecls] at hd; subst hd; rfl
    | pattern ns =>
      simp only [catchDecls, List.mem_map] at hd
      obtain ⟨_, _, hd⟩ := hd
      subst hd; rfl
  · intro pre k n post hds ek hek
    exfalso
    have hek : (ek, n) ∈ pre := by
      rcases hek with h | h
      · simp [alookup] at h
      · exact h
    cases c with
    | none => simp [catchDecls] at hds
    | ident m =>
      simp only [catchDecls] at hds
      cases pre with
      | nil => simp at hek
      | cons x xs =>
        simp only [List.cons_append, List.cons.injEq] at hds
        cases xs <;> simp at hds
    | pattern ns =>
      -- two entries for `n` in the pattern
      have hc : 2 ≤ (CatchParam.pattern ns).bound.count n := by
        simp only [CatchParam.bound]
        have e : ns = (catchDecls (.pattern ns)).map (·.2) := by simp [catchDecls, List.map_map, Function.comp_def]
        rw [e, hds]
        simp only [List.map_append, List.map_cons, List.count_append, List.count_cons, beq_self_eq_true, if_true]
        have : 1 ≤ (pre.map (·.2)).count n := by
          rw [Nat.succ_le_iff, List.count_pos_iff, List.mem_map]
          exact ⟨(ek, n), hek, rfl⟩
        omega
      have := hasDup_false hdup n
      omega

-- the static error conditions, split ------------------------------------------------------------------------------

/-- the second conjunct of `e2` -/
def replacedAny (af : AFrame) : Bool :=
  af.replaced.any (fun p => p.2.isFunction && (match alookup p.1 af.mem with | some k => k.isFunction | none => false))

mutual
/-- the catch-collision and var-collision conditions somewhere in the tree -/
def AT.se34 (aanc : List AFrame) : AT → Bool
  | .node af kids => (!af.kind.stopsHoisting && (e3Top af aanc || e4 af aanc)) || kidsSe34 (af :: aanc) kids
def kidsSe34 (aanc : List AFrame) : List AT → Bool
  | [] => false
  | k :: ks => k.se34 aanc || kidsSe34 aanc ks
end

mutual
/-- no block of the tree has replaced a function by a function -/
def AT.noDup : AT → Prop
  | .node af kids => (af.kind = .block → replacedAny af = false) ∧ kidsNoDup kids
def kidsNoDup : List AT → Prop
  | [] => True
  | k :: ks => k.noDup ∧ kidsNoDup ks
end

mutual
/-- a block that has replaced a function by a function is sloppy -/
def AT.dupOK : AT → Prop
  | .node af kids => (af.kind = .block → replacedAny af = true → af.strict = 0) ∧ kidsDupOK kids
def kidsDupOK : List AT → Prop
  | [] => True
  | k :: ks => k.dupOK ∧ kidsDupOK ks
end

theorem se34_node (aanc : List AFrame) (af : AFrame) (kids : List AT) :
    (AT.node af kids).se34 aanc = ((!af.kind.stopsHoisting && (e3Top af aanc || e4 af aanc)) || kidsSe34 (af :: aanc) kids) := by
  simp [AT.se34]

theorem kidsSe34_single (aanc : List AFrame) (k : AT) : kidsSe34 aanc [k] = k.se34 aanc := by simp [kidsSe34]

theorem dupOK_node (af : AFrame) (kids : List AT) :
    (AT.node af kids).dupOK ↔ (af.kind = .block → replacedAny af = true → af.strict = 0) ∧ kidsDupOK kids := by
  simp [AT.dupOK]
theorem noDup_node (af : AFrame) (kids : List AT) :
    (AT.node af kids).noDup ↔ (af.kind = .block → replacedAny af = false) ∧ kidsNoDup kids := by
  simp [AT.noDup]
theorem kidsDupOK_single (k : AT) : kidsDupOK [k] ↔ k.dupOK := by simp [kidsDupOK]
theorem kidsNoDup_single (k : AT) : kidsNoDup [k] ↔ k.noDup := by simp [kidsNoDup]

theorem kidsSe34_append (aanc : List AFrame) : ∀ (a b : List AT), kidsSe34 aanc (a ++ b) = (kidsSe34 aanc a || kidsSe34 aanc b)
  | [], b => by simp [kidsSe34]
  | k :: a, b => by simp [kidsSe34, kidsSe34_append aanc a b, Bool.or_assoc]

theorem kidsNoDup_append : ∀ (a b : List AT), kidsNoDup (a ++ b) ↔ kidsNoDup a ∧ kidsNoDup b
  | [], b => by simp [kidsNoDup]
  | k :: a, b => by simp [kidsNoDup, kidsNoDup_append a b, and_assoc]

theorem kidsDupOK_append : ∀ (a b : List AT), kidsDupOK (a ++ b) ↔ kidsDupOK a ∧ kidsDupOK b
  | [], b => by simp [kidsDupOK]
  | k :: a, b => by simp [kidsDupOK, kidsDupOK_append a b, and_assoc]

/-- the names for which a `var` hoisted from below the scopes is refused are among `B` -/
def Cov (aanc : List AFrame) (B : List Name) : Prop := ∀ n, varBlocked n aanc = true → n ∈ B

theorem Cov.cons {top : AFrame} {aanc : List AFrame} {B L : List Name} (h : Cov aanc B)
    (hb : ∀ n, badFor top n = true → n ∈ L) : Cov (top :: aanc) (L ++ B) := by
  intro n hn
  simp only [varBlocked, Bool.or_eq_true, Bool.and_eq_true] at hn
  rcases hn with hn | ⟨_, hn⟩
  · exact List.mem_append_left _ (hb n hn)
  · exact List.mem_append_right _ (h n hn)

theorem Cov.stop {top : AFrame} {aanc : List AFrame} {L : List Name} (hs : top.kind.stopsHoisting = true)
    (hb : ∀ n, badFor top n = true → n ∈ L) : Cov (top :: aanc) L := by
  intro n hn
  simp only [varBlocked, hs, Bool.not_true, Bool.false_and, Bool.or_false] at hn
  exact hb n hn

-- replaced symbols ----------------------------------------------------------------------------------------------------

theorem aDeclare_replaced (f : AFrame) (k : SK) (n : Name) (hnp : k.noPair = true) (p : Name × SK)
    (h : p ∈ (aDeclare f k n).1.replaced) :
    p ∈ f.replaced ∨ (p.1 = n ∧ alookup n f.mem = some p.2 ∧ canMergeSymbols f.kind p.2 k = .replaceWithNew) := by
  unfold aDeclare at h
  split at h
  · exact Or.inl h
  · next ek hek =>
    have hnp' := canMerge_noPair (sk := f.kind) (ek := ek) hnp
    split at h
    · exact Or.inl h
    · exact Or.inl h
    · next hm =>
      simp only [List.mem_append, List.mem_singleton] at h
      rcases h with h | h
      · exact Or.inl h
      · subst h; exact Or.inr ⟨rfl, hek, hm⟩
    · next hm => exact absurd hm hnp'.1
    · next hm => exact absurd hm hnp'.2
    · exact Or.inl h

/-- a replaced symbol: the declaration that replaced it, and the kind the name had in the scope at that moment -/
theorem declFold_replaced' : ∀ (ds : List (SK × Name)) (f : AFrame) (p : Name × SK), noPairDecls ds →
    p ∈ (declFold f ds).1.replaced → p ∈ f.replaced ∨
      ∃ pre k post, ds = pre ++ (k, p.1) :: post ∧ alookup p.1 (declFold f pre).1.mem = some p.2 ∧
        canMergeSymbols f.kind p.2 k = .replaceWithNew
  | [], f, p, _, h => Or.inl h
  | (k, m) :: ds, f, p, hnp, h => by
    simp only [declFold] at h
    have hnp1 : noPairDecls ds := fun d hd => hnp d (List.mem_cons_of_mem _ hd)
    have hk0 := hnp (k, m) (by simp)
    rcases declFold_replaced' ds _ p hnp1 h with h1 | ⟨pre, k', post, hds, hlk, hcm⟩
    · rcases aDeclare_replaced f k m hk0 p h1 with h2 | ⟨h2, h3, h4⟩
      · exact Or.inl h2
      · exact Or.inr ⟨[], k, ds, by rw [h2]; rfl, by simp only [declFold]; exact h2 ▸ h3, h4⟩
    · exact Or.inr ⟨(k, m) :: pre, k', post, by rw [hds]; rfl, by simp only [declFold]; exact hlk,
        by rw [← (aDeclare_kind f k m).1]; exact hcm⟩

theorem declFold_replaced (ds : List (SK × Name)) (f : AFrame) (p : Name × SK) (hnp : noPairDecls ds)
    (h : p ∈ (declFold f ds).1.replaced) : p ∈ f.replaced ∨
      ∃ pre k post, ds = pre ++ (k, p.1) :: post ∧ (alookup p.1 f.mem = some p.2 ∨ (p.2, p.1) ∈ pre) ∧
        canMergeSymbols f.kind p.2 k = .replaceWithNew := by
  rcases declFold_replaced' ds f p hnp h with h1 | ⟨pre, k, post, hds, hlk, hcm⟩
  · exact Or.inl h1
  · refine Or.inr ⟨pre, k, post, hds, ?_, hcm⟩
    exact declFold_lookup pre f p.1 p.2 (fun d hd => hnp d (by rw [hds]; simp [hd])) hlk

theorem canMerge_block_fn_replace {ek k : SK} (h : canMergeSymbols .block ek k = .replaceWithNew) (hf : ek.isFunction = true) :
    ek = .hoistedFunction ∧ k = .hoistedFunction := by
  cases ek <;> simp [SK.isFunction] at hf <;> cases k <;> revert h <;> decide

/-- 14.2.1 in strict code: a block does not replace a function by a function -/
theorem block_replacedAny (S : Bool) (b : List Stmt) (st : Strict) (hdup : dupLex S b = false)
    (h : replacedAny (declFold ⟨.block, st, [], []⟩ (declKinds b)).1 = true) : S = false := by
  simp only [replacedAny, List.any_eq_true, Bool.and_eq_true] at h
  obtain ⟨⟨n, ek⟩, hp, hf, _⟩ := h
  rcases declFold_replaced _ _ _ (declKinds_noPair b) hp with h1 | ⟨pre, k, post, hds, hlk, hcm⟩
  · simp at h1
  · simp only [alookup] at hlk
    have hlk : (ek, n) ∈ pre := by
      rcases hlk with h | h
      · cases h
      · exact h
    obtain ⟨he, hk⟩ := canMerge_block_fn_replace hcm hf
    subst he hk
    exact (dupLex_two hdup hds hlk (by decide) (by decide)).1

-- what the frames look like --------------------------------------------------------------------------------------------

theorem badKind_block_ne_hoisted {ek : SK} (h : badKind .block ek = true) : ek ≠ .hoisted := by
  intro he; subst he; simp [badKind, mergeable] at h

/-- a block scope collides with a hoisted `var n` only if `n` is lexically declared in the block -/
theorem block_bad (b : List Stmt) (st : Strict) (n : Name)
    (h : badFor (declFold ⟨.block, st, [], []⟩ (declKinds b)).1 n = true) : n ∈ lexNames b := by
  unfold badFor at h
  split at h
  · cases h
  · next ek hek =>
    rcases declFold_lookup _ _ _ _ (declKinds_noPair b) hek with h1 | h1
    · simp [alookup] at h1
    · rw [(declFold_kind _ _).1] at h
      rw [lexNames_eq, mem_namesWhere]
      exact ⟨ek, h1, by simp [isLexKind, badKind_block_ne_hoisted h]⟩

theorem block_mem (b : List Stmt) (st : Strict) (p : Name × SK)
    (h : p ∈ (declFold ⟨.block, st, [], []⟩ (declKinds b)).1.mem) :
    (p.2 = .hoisted → p.1 ∈ topVarNames b) ∧ (p.2 ≠ .hoisted → p.1 ∈ lexNames b) := by
  rcases declFold_mem_sub _ _ _ (declKinds_noPair b) h with h1 | h1
  · simp at h1
  · constructor
    · intro hk; rw [topVarNames_eq, mem_namesWhere]; exact ⟨p.2, h1, by simp [hk]⟩
    · intro hk; rw [lexNames_eq, mem_namesWhere]; exact ⟨p.2, h1, by simp [isLexKind, hk]⟩

/-- a function body / script scope collides with a hoisted `var n` only if `n` is a top-level let / const / class -/
theorem stop_bad (sk : ScK) (hsk : sk = .fnBody ∨ sk = .entry) (f0 : AFrame) (hk0 : f0.kind = sk) (body : List Stmt)
    (hinit : ∀ n ek, alookup n f0.mem = some ek → ek = .hoisted ∨ ek = .arguments) (n : Name)
    (h : badFor (declFold f0 (declKinds body)).1 n = true) : n ∈ topLexNames body := by
  unfold badFor at h
  split at h
  · cases h
  · next ek hek =>
    rw [(declFold_kind _ _).1, hk0] at h
    rcases declFold_lookup _ _ _ _ (declKinds_noPair body) hek with h1 | h1
    · exfalso
      rcases hinit n ek h1 with he | he <;> subst he <;> simp [badKind, mergeable, passes] at h
    · rcases declKinds_kinds body ek n h1 with h2 | h2 | h2
      · subst h2; simp [badKind, mergeable] at h
      · rw [topLexNames_eq, mem_namesWhere]; exact ⟨ek, h1, h2⟩
      · exfalso
        simp only [isFnKind, Bool.or_eq_true, beq_iff_eq] at h2
        rcases hsk with rfl | rfl <;> rcases h2 with rfl | rfl <;> simp [badKind, mergeable, SK.isFunction] at h

/-- the members of the argument scope -/
theorem argsFrame_mem (st : Strict) (name : Option Name) (ps : List Name) (ha : Bool) (p : Name × SK)
    (h : p ∈ (aArgsFrame st name ps ha).1.mem) :
    (p.2 = .hoisted ∧ p.1 ∈ ps) ∨ p.2 = .hoistedFunction ∨ p.2 = .arguments := by
  have hds : noPairDecls (nameDecl name ++ ps.map (fun p => (SK.hoisted, p))) := by
    intro d hd
    simp only [List.mem_append, List.mem_map] at hd
    rcases hd with hd | ⟨q, _, hd⟩
    · cases name <;> simp [nameDecl] at hd; subst hd; rfl
    · subst hd; rfl
  have key : ∀ q : Name × SK, q ∈ (declFold ⟨.fnArgs, st, [], []⟩ (nameDecl name ++ ps.map (fun p => (SK.hoisted, p)))).1.mem →
      (q.2 = .hoisted ∧ q.1 ∈ ps) ∨ q.2 = .hoistedFunction := by
    intro q hq
    rcases declFold_mem_sub _ _ _ hds hq with h1 | h1
    · simp at h1
    · simp only [List.mem_append, List.mem_map] at h1
      rcases h1 with h1 | ⟨x, hx, h1⟩
      · cases name <;> simp [nameDecl] at h1; exact Or.inr h1.1
      · simp only [Prod.mk.injEq] at h1; exact Or.inl ⟨h1.1.symm, h1.2 ▸ hx⟩
  unfold aArgsFrame at h
  simp only at h
  split at h
  · split at h
    · rcases key p h with h1 | h1
      · exact Or.inl h1
      · exact Or.inr (Or.inl h1)
    · rcases aDeclare_mem_sub _ _ _ (by decide) p h with h1 | h1
      · rcases key p h1 with h2 | h2
        · exact Or.inl h2
        · exact Or.inr (Or.inl h2)
      · subst h1; exact Or.inr (Or.inr rfl)
  · rcases key p h with h1 | h1
    · exact Or.inl h1
    · exact Or.inr (Or.inl h1)

theorem aCopyArgs_mem : ∀ (m : AMembers) (p : Name × SK), p ∈ aCopyArgs m → p ∈ m ∧ p.2 ≠ .hoistedFunction
  | [], p, h => by simp [aCopyArgs] at h
  | (n, k) :: rest, p, h => by
    simp only [aCopyArgs] at h
    split at h
    · have := aCopyArgs_mem rest p h
      exact ⟨List.mem_cons_of_mem _ this.1, this.2⟩
    · next hk =>
      simp only [List.mem_cons] at h
      rcases h with h | h
      · subst h; exact ⟨by simp, hk⟩
      · have := aCopyArgs_mem rest p h
        exact ⟨List.mem_cons_of_mem _ this.1, this.2⟩

/-- the function body scope starts with the parameters and "arguments" -/
theorem fnFrames_body (st : Strict) (name : Option Name) (ps : List Name) (ha us : Bool) :
    (aFnFrames st name ps ha us).1.2.kind = .fnBody ∧
    (∀ n ek, alookup n (aFnFrames st name ps ha us).1.2.mem = some ek → (ek = .hoisted ∧ n ∈ ps) ∨ ek = .arguments) ∧
    (aFnFrames st name ps ha us).1.2.replaced = [] ∧ (aFnFrames st name ps ha us).1.1.kind = .fnArgs := by
  have hk := aArgsFrame_kind st name ps ha
  have hm : ∀ n ek, alookup n (aCopyArgs (aArgsFrame st name ps ha).1.mem) = some ek → (ek = .hoisted ∧ n ∈ ps) ∨ ek = .arguments := by
    intro n ek h
    have h1 := aCopyArgs_mem _ _ (alookup_mem h)
    rcases argsFrame_mem st name ps ha (n, ek) h1.1 with h2 | h2 | h2
    · exact Or.inl h2
    · exact absurd h2 h1.2
    · exact Or.inr h2
  unfold aFnFrames
  simp only
  split
  · unfold aApplyUseStrict
    simp only
    split <;> exact ⟨rfl, hm, rfl, hk⟩
  · exact ⟨rfl, hm, rfl, hk⟩

theorem argsFrame_noerr (st : Strict) (name : Option Name) (ps : List Name) (ha : Bool) :
    (aArgsFrame st name ps ha).2 = [] := by
  have h0 := declFold_noerr (nameDecl name ++ ps.map (fun p => (SK.hoisted, p))) ⟨.fnArgs, st, [], []⟩ (args_pairsOK st name ps)
  unfold aArgsFrame
  simp only
  split
  · split
    · exact h0
    · next hx =>
      rw [h0]
      simp only [List.nil_append]
      unfold aDeclare
      rw [hx]
      simp
  · exact h0

theorem fnFrames_noerr (st : Strict) (name : Option Name) (ps : List Name) (ha us : Bool) :
    (aFnFrames st name ps ha us).2 = [] := by
  unfold aFnFrames; exact argsFrame_noerr st name ps ha

theorem fnFrames_strict (st : Strict) (name : Option Name) (ps : List Name) (ha us : Bool) :
    (aFnFrames st name ps ha us).1.2.strict ≠ 0 → st ≠ 0 ∨ us = true := by
  have hs : (aArgsFrame st name ps ha).1.strict = st := by
    unfold aArgsFrame
    simp only
    split
    · split
      · exact (declFold_kind _ _).2
      · exact (aDeclare_kind _ _ _).2.trans (declFold_kind _ _).2
    · exact (declFold_kind _ _).2
  unfold aFnFrames
  simp only
  cases us with
  | true => intro _; exact Or.inr rfl
  | false =>
    simp only [Bool.false_eq_true, if_false, hs]
    intro h; exact Or.inl h

/-- what the main induction proves for a statement or a statement list standing in the scope `f`: the scope afterwards and
the reported errors are those of the direct declarations alone, and the child scopes have no static error -/
structure StmtOK (top : AFrame) (aanc : List AFrame) (S : Bool) (res : AFrame × List AT × List Name) (f : AFrame)
    (ds : List (SK × Name)) : Prop where
  frame : res.1 = (declFold f ds).1
  errs : res.2.2 = (declFold f ds).2
  se34 : kidsSe34 (top :: aanc) res.2.1 = false
  dupOK : kidsDupOK res.2.1
  noDup : S = true → kidsNoDup res.2.1

theorem e3Top_of_kind {af top : AFrame} {aanc : List AFrame} (h : top.kind ≠ .catchBinding) : e3Top af (top :: aanc) = false := by
  simp [e3Top, e3, h]

/-- a block scope built from the statement list `b` (given the claim for the list) -/
theorem block_node_ok (b : List Stmt) (st : Strict) (S : Bool) (hS : st ≠ 0 → S = true) (herr : blockError S b = false)
    (top : AFrame) (aanc : List AFrame) (B : List Name) (hcov : Cov (top :: aanc) B)
    (hB : ∀ n, n ∈ varNamesL b → n ∉ B)
    (he3 : e3Top (declFold ⟨.block, st, [], []⟩ (declKinds b)).1 (top :: aanc) = false)
    (ih : ∀ (f top' : AFrame) (aanc' : List AFrame) (B' : List Name), (f.strict ≠ 0 → S = true) →
      top'.kind ≠ .catchBinding → Cov (top' :: aanc') B' → (∀ n, n ∈ varNamesL b → n ∉ B') →
      StmtOK top' aanc' S (aList b f) f (declKinds b)) :
    (aList b ⟨.block, st, [], []⟩).2.2 = [] ∧
    (AT.node (aList b ⟨.block, st, [], []⟩).1 (aList b ⟨.block, st, [], []⟩).2.1).se34 (top :: aanc) = false ∧
    (AT.node (aList b ⟨.block, st, [], []⟩).1 (aList b ⟨.block, st, [], []⟩).2.1).dupOK ∧
    (S = true → (AT.node (aList b ⟨.block, st, [], []⟩).1 (aList b ⟨.block, st, [], []⟩).2.1).noDup) := by
  simp only [blockError, Bool.or_eq_false_iff] at herr
  obtain ⟨⟨hdup, hlv⟩, _⟩ := herr
  have hlv' : inter (lexNames b) (topVarNames b) = false := by
    simp only [inter, List.any_eq_false, List.contains_eq_mem, decide_eq_true_eq]
    intro n hn hv
    exact inter_false hlv n hn (topVar_sub_var b n hv)
  have hkind : (declFold ⟨.block, st, [], []⟩ (declKinds b)).1.kind = .block := (declFold_kind _ _).1
  have hstrict : (declFold ⟨.block, st, [], []⟩ (declKinds b)).1.strict = st := (declFold_kind _ _).2
  -- the children are hoisted below this block
  have hcov' : Cov ((declFold ⟨.block, st, [], []⟩ (declKinds b)).1 :: top :: aanc) (lexNames b ++ B) :=
    hcov.cons (block_bad b st)
  have hB' : ∀ n, n ∈ varNamesL b → n ∉ lexNames b ++ B := by
    intro n hn hm
    rcases List.mem_append.mp hm with h | h
    · exact inter_false hlv n h hn
    · exact hB n hn h
  have ok := ih ⟨.block, st, [], []⟩ (declFold ⟨.block, st, [], []⟩ (declKinds b)).1 (top :: aanc) (lexNames b ++ B) hS
    (by rw [hkind]; decide) hcov' hB'
  have hnoerr := declFold_noerr (declKinds b) ⟨.block, st, [], []⟩ (block_pairsOK S b st hdup hlv')
  refine ⟨by rw [ok.errs]; exact hnoerr, ?_, ?_, ?_⟩
  · simp only [AT.se34, Bool.or_eq_false_iff, Bool.and_eq_false_iff]
    rw [ok.frame]
    refine ⟨Or.inr ⟨he3, ?_⟩, ok.se34⟩
    -- no `var` of the block is refused
    simp only [e4, List.any_eq_false, Bool.and_eq_true, beq_iff_eq, not_and, Bool.not_eq_true]
    intro p hp hk
    have hv := (block_mem b st p hp).1 hk
    cases hvb : varBlocked p.1 (top :: aanc) with
    | false => rfl
    | true => exact absurd (hcov p.1 hvb) (hB p.1 (topVar_sub_var b _ hv))
  · simp only [AT.dupOK]
    refine ⟨?_, ok.dupOK⟩
    intro _ hr
    rw [ok.frame] at hr ⊢
    rw [hstrict]
    have := block_replacedAny S b st hdup hr
    cases hst : st with
    | zero => rfl
    | succ m => rw [hS (by rw [hst]; exact Nat.succ_ne_zero m)] at this; cases this
  · intro hSt
    simp only [AT.noDup]
    refine ⟨?_, ok.noDup hSt⟩
    intro _
    rw [ok.frame]
    cases hr : replacedAny (declFold ⟨.block, st, [], []⟩ (declKinds b)).1 with
    | false => rfl
    | true => have := block_replacedAny S b st hdup hr; rw [hSt] at this; cases this

/-- the scopes of a function (given the claim for its body) -/
theorem fn_node_ok (name : Option Name) (ps : List Name) (ha us : Bool) (body : List Stmt) (st : Strict) (S : Bool)
    (hS : st ≠ 0 → S = true) (herr : fnError (S || us) ps body = false) (top : AFrame) (aanc : List AFrame)
    (ih : ∀ (f top' : AFrame) (aanc' : List AFrame) (B' : List Name), (f.strict ≠ 0 → (S || us) = true) →
      top'.kind ≠ .catchBinding → Cov (top' :: aanc') B' → (∀ n, n ∈ varNamesL body → n ∉ B') →
      StmtOK top' aanc' (S || us) (aList body f) f (declKinds body)) :
    (aFnFrames st name ps ha us).2 ++ (aList body (aFnFrames st name ps ha us).1.2).2.2 = [] ∧
    (AT.node (aFnFrames st name ps ha us).1.1 [.node (aList body (aFnFrames st name ps ha us).1.2).1
      (aList body (aFnFrames st name ps ha us).1.2).2.1]).se34 (top :: aanc) = false ∧
    (AT.node (aFnFrames st name ps ha us).1.1 [.node (aList body (aFnFrames st name ps ha us).1.2).1
      (aList body (aFnFrames st name ps ha us).1.2).2.1]).dupOK ∧
    (S = true → (AT.node (aFnFrames st name ps ha us).1.1 [.node (aList body (aFnFrames st name ps ha us).1.2).1
      (aList body (aFnFrames st name ps ha us).1.2).2.1]).noDup) := by
  simp only [fnError, Bool.or_eq_false_iff] at herr
  obtain ⟨⟨⟨hdup, hlv⟩, hpl⟩, _⟩ := herr
  obtain ⟨hbk, hbm, _, hak⟩ := fnFrames_body st name ps ha us
  have hbs : (aFnFrames st name ps ha us).1.2.strict ≠ 0 → (S || us) = true := by
    intro h
    rcases fnFrames_strict st name ps ha us h with h1 | h1
    · simp [hS h1]
    · simp [h1]
  have hfk : (declFold (aFnFrames st name ps ha us).1.2 (declKinds body)).1.kind = .fnBody := (declFold_kind _ _).1.trans hbk
  have hcov' : Cov ((declFold (aFnFrames st name ps ha us).1.2 (declKinds body)).1 ::
      (aFnFrames st name ps ha us).1.1 :: top :: aanc) (topLexNames body) :=
    Cov.stop (by rw [hfk]; rfl)
      (stop_bad .fnBody (Or.inl rfl) _ hbk body (fun n ek h => (hbm n ek h).imp (fun x => x.1) id))
  have hB' : ∀ n, n ∈ varNamesL body → n ∉ topLexNames body := by
    intro n hn hm
    exact inter_false hlv n hm (by simp [hn])
  have ok := ih (aFnFrames st name ps ha us).1.2 (declFold (aFnFrames st name ps ha us).1.2 (declKinds body)).1
    ((aFnFrames st name ps ha us).1.1 :: top :: aanc) (topLexNames body) hbs (by rw [hfk]; decide) hcov' hB'
  have hnoerr := declFold_noerr (declKinds body) (aFnFrames st name ps ha us).1.2
    (by rw [hbk]; exact stop_pairsOK .fnBody (Or.inl rfl) _ ps body hbm hdup hlv hpl)
  have hSS : S = true → (S || us) = true := by intro h; simp [h]
  have hb1 : (aList body (aFnFrames st name ps ha us).1.2).1.kind = .fnBody := by rw [ok.frame]; exact hfk
  have hse : kidsSe34 ((aList body (aFnFrames st name ps ha us).1.2).1 :: (aFnFrames st name ps ha us).1.1 :: top :: aanc)
      (aList body (aFnFrames st name ps ha us).1.2).2.1 = false := by
    rw [ok.frame]; exact ok.se34
  refine ⟨by rw [fnFrames_noerr, ok.errs, hnoerr]; rfl, ?_, ?_, ?_⟩
  · simp [AT.se34, kidsSe34, hak, hb1, ScK.stopsHoisting, hse]
  · simp [AT.dupOK, kidsDupOK, hak, hb1, ok.dupOK]
  · intro hSt
    simp [AT.noDup, kidsNoDup, hak, hb1, ok.noDup (hSS hSt)]

theorem listError_cons (S : Bool) (s : Stmt) (ss : List Stmt) :
    listError S (s :: ss) = (s.earlyError S || listError S ss) := by simp [listError]

mutual
/-- the main induction: a statement without an early error -/
theorem stmt_ok : ∀ (s : Stmt) (f : AFrame) (S : Bool) (top : AFrame) (aanc : List AFrame) (B : List Name),
    s.earlyError S = false → (f.strict ≠ 0 → S = true) → top.kind ≠ .catchBinding → Cov (top :: aanc) B →
    (∀ n, n ∈ s.varNames → n ∉ B) → StmtOK top aanc S (aStmt s f) f (stmtDeclKind s)
  | .var_ n, f, S, top, aanc, B, _, _, _, _, _ => by
    refine ⟨?_, ?_, rfl, trivial, fun _ => trivial⟩ <;> simp [aStmt, stmtDeclKind, declFold]
  | .lex k n, f, S, top, aanc, B, _, _, htop, _, _ => by
    have hcb : ∀ st : Strict, (aClassStrict ⟨.classBody, st, [], []⟩).kind = .classBody ∧
        (aClassStrict ⟨.classBody, st, [], []⟩).mem = [] ∧ (aClassStrict ⟨.classBody, st, [], []⟩).replaced = [] := by
      intro st; unfold aClassStrict; split <;> exact ⟨rfl, rfl, rfl⟩
    refine ⟨by simp [aStmt, stmtDeclKind, declFold], by simp [aStmt, stmtDeclKind, declFold], ?_, ?_, ?_⟩
    · simp only [aStmt]
      split
      · simp [kidsSe34, AT.se34, e3Top, e3, e4, htop, (hcb f.strict).1, (hcb f.strict).2.1, ScK.stopsHoisting]
      · rfl
    · simp only [aStmt]
      split
      · simp [kidsDupOK, AT.dupOK, (hcb f.strict).1]
      · trivial
    · intro _
      simp only [aStmt]
      split
      · simp [kidsNoDup, AT.noDup, (hcb f.strict).1]
      · trivial
  | .fn n gen ps us body, f, S, top, aanc, B, herr, hS, htop, hcov, _ => by
    simp only [Stmt.earlyError] at herr
    have hl : listError (S || us) body = false := by
      simp only [fnError, Bool.or_eq_false_iff] at herr; exact herr.2
    obtain ⟨h1, h2, h3, h4⟩ := fn_node_ok none ps true us body f.strict S hS herr top aanc
      (fun f' top' aanc' B' a b c d => list_ok body f' (S || us) top' aanc' B' hl a b c d)
    refine ⟨by simp [aStmt, stmtDeclKind, declFold], ?_, ?_, ?_, ?_⟩
    · simp only [aStmt, stmtDeclKind, declFold, h1, List.nil_append, List.append_nil]
    · simp only [aStmt, kidsSe34, h2, Bool.or_false]
    · simp only [aStmt, kidsDupOK, and_true]; exact h3
    · intro hSt; simp only [aStmt, kidsNoDup, and_true]; exact h4 hSt
  | .ref _, f, S, top, aanc, B, _, _, _, _, _ => by
    refine ⟨rfl, rfl, rfl, trivial, fun _ => trivial⟩
  | .block b, f, S, top, aanc, B, herr, hS, htop, hcov, hB => by
    simp only [Stmt.earlyError] at herr
    have hl : listError S b = false := by
      simp only [blockError, Bool.or_eq_false_iff] at herr; exact herr.2
    obtain ⟨h1, h2, h3, h4⟩ := block_node_ok b f.strict S hS herr top aanc B hcov
      (by intro n hn; exact hB n (by simpa [Stmt.varNames] using hn)) (e3Top_of_kind htop)
      (fun f' top' aanc' B' a b' c d => list_ok b f' S top' aanc' B' hl a b' c d)
    refine ⟨rfl, ?_, ?_, ?_, ?_⟩
    · simp only [aStmt, stmtDeclKind, declFold, h1]
    · simp only [aStmt, kidsSe34, h2, Bool.or_false]
    · simp only [aStmt, kidsDupOK, and_true]; exact h3
    · intro hSt; simp only [aStmt, kidsNoDup, and_true]; exact h4 hSt
  | .try_ b c h, f, S, top, aanc, B, herr, hS, htop, hcov, hB => by
    simp only [Stmt.earlyError, Bool.or_eq_false_iff] at herr
    obtain ⟨⟨⟨⟨herrb, hdupc⟩, hcl⟩, hcv⟩, herrh⟩ := herr
    have hlb : listError S b = false := by
      simp only [blockError, Bool.or_eq_false_iff] at herrb; exact herrb.2
    have hlh : listError S h = false := by
      simp only [blockError, Bool.or_eq_false_iff] at herrh; exact herrh.2
    have hBb : ∀ n, n ∈ varNamesL b → n ∉ B := fun n hn => hB n (by simp [Stmt.varNames, hn])
    have hBh : ∀ n, n ∈ varNamesL h → n ∉ B := fun n hn => hB n (by simp [Stmt.varNames, hn])
    obtain ⟨b1, b2, b3, b4⟩ := block_node_ok b f.strict S hS herrb top aanc B hcov hBb (e3Top_of_kind htop)
      (fun f' top' aanc' B' a b' c d => list_ok b f' S top' aanc' B' hlb a b' c d)
    -- the catch scope
    have hcfk : (declFold ⟨.catchBinding, f.strict, [], []⟩ (catchDecls c)).1.kind = .catchBinding := (declFold_kind _ _).1
    have hcfs : (declFold ⟨.catchBinding, f.strict, [], []⟩ (catchDecls c)).1.strict = f.strict := (declFold_kind _ _).2
    have hcnp : noPairDecls (catchDecls c) := by
      intro d hd
      cases c with
      | none => simp [catchDecls] at hd
      | ident n => simp [catchDecls] at hd; subst hd; rfl
      | pattern ns =>
        simp only [catchDecls, List.mem_map] at hd
        obtain ⟨_, _, hd⟩ := hd
        subst hd; rfl
    have hcmem : ∀ p, p ∈ (declFold ⟨.catchBinding, f.strict, [], []⟩ (catchDecls c)).1.mem →
        p.1 ∈ c.bound ∧ (p.2 = .catchIdentifier ∨ (p.2 = .other ∧ c.isPattern = true)) := by
      intro p hp
      rcases declFold_mem_sub _ _ _ hcnp hp with h1 | h1
      · simp at h1
      · cases c with
        | none => simp [catchDecls] at h1
        | ident n =>
          simp only [catchDecls, List.mem_singleton, Prod.mk.injEq] at h1
          exact ⟨by simp [CatchParam.bound, h1.2], Or.inl h1.1⟩
        | pattern ns =>
          simp only [catchDecls, List.mem_map, Prod.mk.injEq] at h1
          obtain ⟨x, hx, h2, h3⟩ := h1
          exact ⟨by simp only [CatchParam.bound]; rw [← h3]; exact hx, Or.inr ⟨h2.symm, rfl⟩⟩
    have hcerr : (declFold ⟨.catchBinding, f.strict, [], []⟩ (catchDecls c)).2 = [] :=
      declFold_noerr (catchDecls c) ⟨.catchBinding, f.strict, [], []⟩ (catch_pairsOK f.strict c hdupc)
    -- the handler block is hoisted below the catch scope
    have hcbad : ∀ n, badFor (declFold ⟨.catchBinding, f.strict, [], []⟩ (catchDecls c)).1 n = true →
        n ∈ (if c.isPattern then c.bound else []) := by
      intro n hn
      unfold badFor at hn
      split at hn
      · cases hn
      · next ek hek =>
        obtain ⟨hb1, hb2⟩ := hcmem (n, ek) (alookup_mem hek)
        rcases hb2 with hb2 | ⟨hb2, hb3⟩
        · simp only at hb2; subst hb2; simp [badKind, passes, mergeable] at hn
        · simp [hb3]; exact hb1
    have hcovh : Cov ((declFold ⟨.catchBinding, f.strict, [], []⟩ (catchDecls c)).1 :: top :: aanc)
        ((if c.isPattern then c.bound else []) ++ B) := hcov.cons hcbad
    have hBh' : ∀ n, n ∈ varNamesL h → n ∉ (if c.isPattern then c.bound else []) ++ B := by
      intro n hn hm
      rcases List.mem_append.mp hm with h1 | h1
      · split at h1
        · next hp =>
          simp only [hp, Bool.true_and] at hcv
          exact inter_false hcv n h1 hn
        · simp at h1
      · exact hBh n hn h1
    have he3h : e3Top (declFold ⟨.block, (declFold ⟨.catchBinding, f.strict, [], []⟩ (catchDecls c)).1.strict, [], []⟩ (declKinds h)).1
        ((declFold ⟨.catchBinding, f.strict, [], []⟩ (catchDecls c)).1 :: top :: aanc) = false := by
      simp only [e3Top, e3, Bool.and_eq_false_iff, List.any_eq_false, Bool.and_eq_true, bne_iff_ne, ne_eq, not_and,
        Bool.not_eq_true, Option.isSome_eq_false_iff, Option.isNone_iff_eq_none]
      right
      intro p hp hk
      have hl := (block_mem h _ p hp).2 hk
      cases hlk : alookup p.1 (declFold ⟨.catchBinding, f.strict, [], []⟩ (catchDecls c)).1.mem with
      | none => rfl
      | some x =>
        exfalso
        exact inter_false hcl p.1 (hcmem (p.1, x) (alookup_mem hlk)).1 hl
    obtain ⟨c1, c2, c3, c4⟩ := block_node_ok h (declFold ⟨.catchBinding, f.strict, [], []⟩ (catchDecls c)).1.strict S
      (by rw [hcfs]; exact hS) herrh (declFold ⟨.catchBinding, f.strict, [], []⟩ (catchDecls c)).1 (top :: aanc) _ hcovh hBh' he3h
      (fun f' top' aanc' B' a b' c' d => list_ok h f' S top' aanc' B' hlh a b' c' d)
    refine ⟨rfl, ?_, ?_, ?_, ?_⟩
    · simp only [aStmt, stmtDeclKind, declFold, b1, hcerr, c1, List.append_nil]
    · simp only [aStmt, kidsSe34, Bool.or_false, Bool.or_eq_false_iff]
      refine ⟨b2, ?_⟩
      rw [se34_node, kidsSe34_single, c2, Bool.or_false, e3Top_of_kind htop, Bool.false_or, Bool.and_eq_false_iff]
      right
      simp only [e4, List.any_eq_false, Bool.and_eq_true, beq_iff_eq, not_and, Bool.not_eq_true]
      intro p hp hk
      rcases (hcmem p hp).2 with h1 | ⟨h1, _⟩ <;> rw [h1] at hk <;> cases hk
    · simp only [aStmt, kidsDupOK, and_true]
      refine ⟨b3, ?_⟩
      rw [dupOK_node, kidsDupOK_single]
      exact ⟨(by rw [hcfk]; intro h; cases h), c3⟩
    · intro hSt
      simp only [aStmt, kidsNoDup, and_true]
      refine ⟨b4 hSt, ?_⟩
      rw [noDup_node, kidsNoDup_single]
      exact ⟨(by rw [hcfk]; intro h; cases h), c4 hSt⟩
  | .fnExpr n ps us body, f, S, top, aanc, B, herr, hS, htop, hcov, _ => by
    simp only [Stmt.earlyError] at herr
    have hl : listError (S || us) body = false := by
      simp only [fnError, Bool.or_eq_false_iff] at herr; exact herr.2
    obtain ⟨h1, h2, h3, h4⟩ := fn_node_ok n ps true us body f.strict S hS herr top aanc
      (fun f' top' aanc' B' a b c d => list_ok body f' (S || us) top' aanc' B' hl a b c d)
    refine ⟨rfl, ?_, ?_, ?_, ?_⟩
    · simp only [aStmt, stmtDeclKind, declFold, h1]
    · simp only [aStmt, kidsSe34, h2, Bool.or_false]
    · simp only [aStmt, kidsDupOK, and_true]; exact h3
    · intro hSt; simp only [aStmt, kidsNoDup, and_true]; exact h4 hSt
  | .arrow ps body, f, S, top, aanc, B, herr, hS, htop, hcov, _ => by
    simp only [Stmt.earlyError] at herr
    have herr' : fnError (S || false) ps body = false := by simpa using herr
    have hl : listError (S || false) body = false := by
      simp only [fnError, Bool.or_eq_false_iff] at herr'; exact herr'.2
    obtain ⟨h1, h2, h3, h4⟩ := fn_node_ok none ps false false body f.strict S hS herr' top aanc
      (fun f' top' aanc' B' a b c d => list_ok body f' (S || false) top' aanc' B' hl a b c d)
    refine ⟨rfl, ?_, ?_, ?_, ?_⟩
    · simp only [aStmt, stmtDeclKind, declFold, h1]
    · simp only [aStmt, kidsSe34, h2, Bool.or_false]
    · simp only [aStmt, kidsDupOK, and_true]; exact h3
    · intro hSt; simp only [aStmt, kidsNoDup, and_true]; exact h4 hSt
theorem list_ok : ∀ (ss : List Stmt) (f : AFrame) (S : Bool) (top : AFrame) (aanc : List AFrame) (B : List Name),
    listError S ss = false → (f.strict ≠ 0 → S = true) → top.kind ≠ .catchBinding → Cov (top :: aanc) B →
    (∀ n, n ∈ varNamesL ss → n ∉ B) → StmtOK top aanc S (aList ss f) f (declKinds ss)
  | [], f, S, top, aanc, B, _, _, _, _, _ => ⟨rfl, rfl, rfl, trivial, fun _ => trivial⟩
  | s :: ss, f, S, top, aanc, B, herr, hS, htop, hcov, hB => by
    rw [listError_cons, Bool.or_eq_false_iff] at herr
    have h1 := stmt_ok s f S top aanc B herr.1 hS htop hcov (fun n hn => hB n (by simp [varNamesL, hn]))
    have hS' : (aStmt s f).1.strict ≠ 0 → S = true := by rw [(aStmt_strict s f).1]; exact hS
    have h2 := list_ok ss (aStmt s f).1 S top aanc B herr.2 hS' htop hcov (fun n hn => hB n (by simp [varNamesL, hn]))
    refine ⟨?_, ?_, ?_, ?_, ?_⟩
    · simp only [aList, declKinds, declFold_append]; rw [h2.frame, h1.frame]
    · simp only [aList, declKinds, declFold_append]; rw [h2.errs, h1.errs, h1.frame]
    · simp only [aList, kidsSe34_append, h1.se34, h2.se34, Bool.or_false]
    · simp only [aList, kidsDupOK_append]; exact ⟨h1.dupOK, h2.dupOK⟩
    · intro hSt; simp only [aList, kidsNoDup_append]; exact ⟨h1.noDup hSt, h2.noDup hSt⟩
end

end EsbuildModel.Scopes
