import EsbuildModel.Lemmas.GoSortMoves
/-!
`sort.Stable`, part 2c: the three binary searches of `symMerge` (only the two facts established by the last tests on
either side of the result are needed — no monotonicity) and the function-level heart of SymMerge: after the rotation
everything left of `mid` is at most everything right of it.
-/
namespace EsbuildModel.GoSort
set_option linter.unusedSectionVars false
variable {α : Type} [Inhabited α]

theorem searchA_spec (lt : α → α → Bool) (d : Array α) (a : Nat) (ha : a < d.size) (i0 j0 : Nat) :
    ∀ (fuel i j : Nat), j ≤ d.size → i ≤ j → j - i < fuel → i0 ≤ i → j ≤ j0 →
    (i = i0 ∨ lt (view d (i - 1)) (view d a) = true) → (j = j0 ∨ lt (view d j) (view d a) = false) →
    ∃ r, searchA lt d a fuel i j = some r ∧ i0 ≤ r ∧ r ≤ j0 ∧
      (r = i0 ∨ lt (view d (r - 1)) (view d a) = true) ∧ (r = j0 ∨ lt (view d r) (view d a) = false) := by
  intro fuel
  induction fuel with
  | zero => intro i j _ _ h; omega
  | succ fuel ih =>
    intro i j hj hij hf hi0 hj0 hl hr
    unfold searchA
    by_cases hlt : i < j
    · simp only [hlt, if_true]
      rw [less?_view lt d ((i + j) / 2) a (by omega) ha]
      cases ht : lt (view d ((i + j) / 2)) (view d a) with
      | true =>
        simp only
        exact ih ((i + j) / 2 + 1) j hj (by omega) (by omega) (by omega) hj0
          (Or.inr (by rw [show (i + j) / 2 + 1 - 1 = (i + j) / 2 by omega]; exact ht)) hr
      | false =>
        simp only
        exact ih i ((i + j) / 2) (by omega) (by omega) (by omega) hi0 (by omega) hl (Or.inr ht)
    · simp only [hlt, if_false]
      have : i = j := by omega
      subst this
      exact ⟨i, rfl, hi0, hj0, hl, hr⟩

theorem searchB_spec (lt : α → α → Bool) (d : Array α) (m : Nat) (hm : m < d.size) (i0 j0 : Nat) :
    ∀ (fuel i j : Nat), j ≤ d.size → i ≤ j → j - i < fuel → i0 ≤ i → j ≤ j0 →
    (i = i0 ∨ lt (view d m) (view d (i - 1)) = false) → (j = j0 ∨ lt (view d m) (view d j) = true) →
    ∃ r, searchB lt d m fuel i j = some r ∧ i0 ≤ r ∧ r ≤ j0 ∧
      (r = i0 ∨ lt (view d m) (view d (r - 1)) = false) ∧ (r = j0 ∨ lt (view d m) (view d r) = true) := by
  intro fuel
  induction fuel with
  | zero => intro i j _ _ h; omega
  | succ fuel ih =>
    intro i j hj hij hf hi0 hj0 hl hr
    unfold searchB
    by_cases hlt : i < j
    · simp only [hlt, if_true]
      rw [less?_view lt d m ((i + j) / 2) hm (by omega)]
      cases ht : lt (view d m) (view d ((i + j) / 2)) with
      | false =>
        simp only
        exact ih ((i + j) / 2 + 1) j hj (by omega) (by omega) (by omega) hj0
          (Or.inr (by rw [show (i + j) / 2 + 1 - 1 = (i + j) / 2 by omega]; exact ht)) hr
      | true =>
        simp only
        exact ih i ((i + j) / 2) (by omega) (by omega) (by omega) hi0 (by omega) hl (Or.inr ht)
    · simp only [hlt, if_false]
      have : i = j := by omega
      subst this
      exact ⟨i, rfl, hi0, hj0, hl, hr⟩

theorem searchC_spec (lt : α → α → Bool) (d : Array α) (p s0 r0 : Nat)
    (hpre : ∀ c, s0 ≤ c → c < r0 → c ≤ p ∧ p - c < d.size ∧ c < d.size) :
    ∀ (fuel s r : Nat), s ≤ r → r - s < fuel → s0 ≤ s → r ≤ r0 →
    (s = s0 ∨ lt (view d (p - (s - 1))) (view d (s - 1)) = false) → (r = r0 ∨ lt (view d (p - r)) (view d r) = true) →
    ∃ res, searchC lt d p fuel s r = some res ∧ s0 ≤ res ∧ res ≤ r0 ∧
      (res = s0 ∨ lt (view d (p - (res - 1))) (view d (res - 1)) = false) ∧
      (res = r0 ∨ lt (view d (p - res)) (view d res) = true) := by
  intro fuel
  induction fuel with
  | zero => intro s r _ h; omega
  | succ fuel ih =>
    intro s r hsr hf hs0 hr0 hl hr
    unfold searchC
    by_cases hlt : s < r
    · simp only [hlt, if_true]
      obtain ⟨h1, h2, h3⟩ := hpre ((s + r) / 2) (by omega) (by omega)
      rw [sub?_some p _ h1]
      simp only
      rw [less?_view lt d (p - (s + r) / 2) ((s + r) / 2) h2 h3]
      cases ht : lt (view d (p - (s + r) / 2)) (view d ((s + r) / 2)) with
      | false =>
        simp only
        exact ih ((s + r) / 2 + 1) r (by omega) (by omega) (by omega) hr0
          (Or.inr (by rw [show (s + r) / 2 + 1 - 1 = (s + r) / 2 by omega]; exact ht)) hr
      | true =>
        simp only
        exact ih s ((s + r) / 2) (by omega) (by omega) hs0 (by omega) hl (Or.inr ht)
    · simp only [hlt, if_false]
      have : s = r := by omega
      subst this
      exact ⟨s, rfl, hs0, hr0, hl, hr⟩

/-! ### the layout after the rotation -/

theorem rotF_id_left (f : Nat → α) (m b : Nat) : rotF f m m b = f := by
  funext k; simp only [rotF]; idx

theorem rotF_id_right (f : Nat → α) (a m : Nat) : rotF f a m m = f := by
  funext k; simp only [rotF]; idx

/-- After exchanging `f[start, m)` and `f[m, end)` (`end - m = mid - start`): four sorted runs, and everything in
`[a, mid)` is at most everything in `[mid, b)`, given the two facts the binary search established. -/
theorem merge_layout (lt : α → α → Bool) (hlt : TotalPreorder lt) (f : Nat → α) (a m b mid start end_ : Nat)
    (h1 : a ≤ start) (h2 : start ≤ m) (h3 : m ≤ end_) (h4 : end_ ≤ b) (h5 : end_ - m = mid - start) (h6 : start ≤ mid)
    (s1 : SortedOn lt f a m) (s2 : SortedOn lt f m b)
    (hl : start = a ∨ end_ = b ∨ lt (f end_) (f (start - 1)) = false)
    (hr : start = m ∨ end_ = m ∨ lt (f (end_ - 1)) (f start) = true) :
    let g := rotF f start m end_
    SortedOn lt g a start ∧ SortedOn lt g start mid ∧ SortedOn lt g mid end_ ∧ SortedOn lt g end_ b ∧
      (∀ x y, a ≤ x → x < mid → mid ≤ y → y < b → lt (g x) (g y) = true) := by
  intro g
  have hmid : mid = start + (end_ - m) := by omega
  -- g in terms of f on the four runs
  have g1 : ∀ k, k < start → g k = f k := by
    intro k hk; show rotF f start m end_ k = f k; simp only [rotF]; idx
  have g2 : ∀ k, start ≤ k → k < mid → g k = f (k + (m - start)) := by
    intro k hk1 hk2; show rotF f start m end_ k = _; simp only [rotF]; idx
  have g3 : ∀ k, mid ≤ k → k < end_ → g k = f (k - (end_ - m)) := by
    intro k hk1 hk2; show rotF f start m end_ k = _; simp only [rotF]; idx
  have g4 : ∀ k, end_ ≤ k → g k = f k := by
    intro k hk; show rotF f start m end_ k = f k; simp only [rotF]; idx
  -- the two cross facts, extended to whole runs
  have c14 : ∀ x y, a ≤ x → x < start → end_ ≤ y → y < b → lt (f x) (f y) = true := by
    intro x y hx1 hx2 hy1 hy2
    rcases hl with hl | hl | hl
    · omega
    · omega
    · have := hlt.of_not hl
      exact hlt.trans _ _ _ (hlt.trans _ _ _ (s1 x (start - 1) hx1 (by omega) (by omega)) this)
        (s2 end_ y (by omega) hy1 hy2)
  have c23 : ∀ x y, m ≤ x → x < end_ → start ≤ y → y < m → lt (f x) (f y) = true := by
    intro x y hx1 hx2 hy1 hy2
    rcases hr with hr | hr | hr
    · omega
    · omega
    · exact hlt.trans _ _ _ (hlt.trans _ _ _ (s2 x (end_ - 1) hx1 (by omega) (by omega)) hr)
        (s1 start y (by omega) hy1 hy2)
  refine ⟨?_, ?_, ?_, ?_, ?_⟩
  · intro i j i1 i2 i3
    rw [g1 i (by omega), g1 j i3]
    exact s1 i j i1 i2 (by omega)
  · intro i j i1 i2 i3
    rw [g2 i i1 (by omega), g2 j (by omega) i3]
    exact s2 _ _ (by omega) (by omega) (by omega)
  · intro i j i1 i2 i3
    rw [g3 i i1 (by omega), g3 j (by omega) i3]
    exact s1 _ _ (by omega) (by omega) (by omega)
  · intro i j i1 i2 i3
    rw [g4 i i1, g4 j (by omega)]
    exact s2 i j (by omega) i2 i3
  · intro x y x1 x2 y1 y2
    by_cases hx : x < start
    · rw [g1 x hx]
      by_cases hy : y < end_
      · rw [g3 y y1 hy]
        exact s1 x _ x1 (by omega) (by omega)
      · rw [g4 y (by omega)]
        exact c14 x y x1 hx (by omega) y2
    · rw [g2 x (by omega) x2]
      by_cases hy : y < end_
      · rw [g3 y y1 hy]
        exact c23 _ _ (by omega) (by omega) (by omega) (by omega)
      · rw [g4 y (by omega)]
        exact s2 _ y (by omega) (by omega) y2

/-- two sorted halves with every left element at most every right element: sorted -/
theorem sorted_join (lt : α → α → Bool) (f : Nat → α) (a mid b : Nat) (s1 : SortedOn lt f a mid)
    (s2 : SortedOn lt f mid b) (hc : ∀ x y, a ≤ x → x < mid → mid ≤ y → y < b → lt (f x) (f y) = true) :
    SortedOn lt f a b := by
  intro i j i1 i2 i3
  by_cases hj : j < mid
  · exact s1 i j i1 i2 hj
  · by_cases hi : mid ≤ i
    · exact s2 i j hi i2 i3
    · exact hc i j i1 (by omega) (by omega) i3

theorem rotF_frame (f : Nat → α) (a m b : Nat) (h1 : a ≤ m) (h2 : m ≤ b) :
    EqOut f (rotF f a m b) a b ∧ Sub f (rotF f a m b) a b := by
  constructor
  · intro k hk; simp only [rotF]; idx
  · intro k k1 k2
    by_cases h : k < a + (b - m)
    · exact ⟨k + (m - a), by omega, by omega, by simp only [rotF]; idx⟩
    · exact ⟨k - (b - m), by omega, by omega, by simp only [rotF]; idx⟩

end EsbuildModel.GoSort
