import EsbuildModel.Lemmas.ScopesHoist
/-!
hoistSymbols does nothing (apart from reporting errors) to a tree in which only the scopes that stop hoisting hold
`var` / function symbols.
-/
namespace EsbuildModel.Scopes

mutual
/-- no scope that lets declarations through holds a hoisted symbol -/
def noHoistSc (syms : Syms) : Sc → Prop
  | .node f kids =>
    (f.kind.stopsHoisting = true ∨ ∀ m, m ∈ refsOf f.members → ∃ s, syms[m]? = some s ∧ s.kind.isHoisted = false) ∧
    noHoistKids syms kids
def noHoistKids (syms : Syms) : List Sc → Prop
  | [] => True
  | k :: ks => noHoistSc syms k ∧ noHoistKids syms ks
end

theorem hoistMember_flat {anc anc' : List Frame} {f f' : Frame} {st st' : HSt} {mref : Nat} {s : Sym}
    (hs : st.syms[mref]? = some s) (hk : s.kind.isHoisted = false)
    (h : hoistMember anc f st mref = some (anc', f', st')) :
    anc' = anc ∧ f' = f ∧ st'.syms = st.syms ∧ st'.hmap = st.hmap := by
  unfold hoistMember at h
  rw [hs] at h
  cases anc with
  | nil => simp at h
  | cons p rest =>
    simp only at h
    split at h
    · cases h; exact ⟨rfl, rfl, rfl, rfl⟩
    · simp only [hk, Bool.not_false, if_true] at h
      cases h; exact ⟨rfl, rfl, rfl, rfl⟩

theorem hoistMembers_flat : ∀ (ms : List Nat) {anc anc' : List Frame} {f f' : Frame} {st st' : HSt},
    (∀ m, m ∈ ms → ∃ s, st.syms[m]? = some s ∧ s.kind.isHoisted = false) →
    hoistMembers anc f st ms = some (anc', f', st') →
    anc' = anc ∧ f' = f ∧ st'.syms = st.syms ∧ st'.hmap = st.hmap
  | [], _, _, _, _, _, _, _, h => by simp only [hoistMembers] at h; cases h; exact ⟨rfl, rfl, rfl, rfl⟩
  | m :: ms, anc, anc', f, f', st, st', hm, h => by
    simp only [hoistMembers] at h
    split at h
    · cases h
    · next a1 f1 s1 h1 =>
      obtain ⟨s, hs, hk⟩ := hm m (by simp)
      obtain ⟨e1, e2, e3, e4⟩ := hoistMember_flat hs hk h1
      subst e1; subst e2
      obtain ⟨e5, e6, e7, e8⟩ := hoistMembers_flat ms (fun m' hm' => by rw [e3]; exact hm m' (by simp [hm'])) h
      exact ⟨e5, e6, e7.trans e3, e8.trans e4⟩

mutual
theorem hoistSc_flat (esm : Bool) : ∀ (sc : Sc) (anc : List Frame) (st : HSt) (anc' : List Frame) (sc' : Sc) (st' : HSt),
    hoistSc esm anc sc st = some (anc', sc', st') → noHoistSc st.syms sc →
    anc' = anc ∧ sc' = sc ∧ st'.syms = st.syms ∧ st'.hmap = st.hmap
  | .node f kids, anc, st, anc', sc', st', h, hn => by
    simp only [noHoistSc] at hn
    simp only [hoistSc] at h
    split at h
    · cases h
    · next es hes =>
      split at h
      · cases h
      · next anc1 f1 st2 hr =>
        have h12 : anc1 = anc ∧ f1 = f ∧ st2.syms = st.syms ∧ st2.hmap = st.hmap := by
          split at hr
          · cases hr; exact ⟨rfl, rfl, rfl, rfl⟩
          · next hstop =>
            rcases hn.1 with h0 | h0
            · exact absurd h0 hstop
            · exact hoistMembers_flat _ (st := { st with errs := st.errs ++ es })
                (fun m hm => h0 m (mem_sortRefs hm)) hr
        obtain ⟨e1, e2, e3, e4⟩ := h12
        subst e1; subst e2
        split at h
        · next f2 anc2 kids' st3 hk =>
          cases h
          obtain ⟨e5, e6, e7, e8⟩ := hoistKids_flat esm kids (f1 :: anc1) st2 _ _ _ hk (by rw [e3]; exact hn.2)
          cases e5
          exact ⟨rfl, by rw [e6], e7.trans e3, e8.trans e4⟩
        · cases h
theorem hoistKids_flat (esm : Bool) : ∀ (ks : List Sc) (anc : List Frame) (st : HSt) (anc' : List Frame) (ks' : List Sc)
    (st' : HSt), hoistKids esm anc ks st = some (anc', ks', st') → noHoistKids st.syms ks →
    anc' = anc ∧ ks' = ks ∧ st'.syms = st.syms ∧ st'.hmap = st.hmap
  | [], anc, st, anc', ks', st', h, _ => by simp only [hoistKids] at h; cases h; exact ⟨rfl, rfl, rfl, rfl⟩
  | k :: ks, anc, st, anc', ks', st', h, hn => by
    simp only [noHoistKids] at hn
    simp only [hoistKids] at h
    split at h
    · cases h
    · next a1 k1 s1 h1 =>
      obtain ⟨e1, e2, e3, e4⟩ := hoistSc_flat esm k anc st _ _ _ h1 hn.1
      subst e1; subst e2
      split at h
      · cases h
      · next a2 ks2 s2 h2 =>
        cases h
        obtain ⟨e5, e6, e7, e8⟩ := hoistKids_flat esm ks a1 s1 _ _ _ h2 (by rw [e3]; exact hn.2)
        exact ⟨e5, by rw [e6], e7.trans e3, e8.trans e4⟩
end

end EsbuildModel.Scopes
