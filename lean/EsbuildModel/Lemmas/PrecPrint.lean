/-
Helper lemmas for the round trip `parse (print e) = e` (Props/C13Prec.lean).
Part 1: the printer's equations with the table look-ups replaced by the grammar-side operator functions.
-/
import EsbuildModel.Lemmas.PrecTable

namespace EsbuildModel.PrecPrint
open EsbuildModel.JsExpr

/-- operand of `??` that is a bare `||` / `&&` -/
def isOrAndS : Expr → Bool
  | .binary .logicalOr _ _ | .binary .logicalAnd _ _ => true
  | _ => false

/-- left operand of `**` that is a unary (non-update) operator application or a number -/
def powLeftS : Expr → Bool
  | .unary op _ => !op.isUpdate
  | .num _ => true
  | _ => false

theorem isOrAnd_eq (e : Expr) : isOrAnd e = isOrAndS e := by
  cases e with
  | binary op l r => simp only [isOrAnd, code_eq_or, code_eq_and]; cases op <;> rfl
  | _ => rfl

theorem powLeftNeedsCall_eq (e : Expr) : powLeftNeedsCall e = powLeftS e := by
  cases e with
  | unary op v => simp [powLeftNeedsCall, powLeftS, isUnaryUpdate_unEntry]
  | _ => rfl

/-- the level at which the left operand of `op` is printed -/
def leftLevel (op : BinOp) (l : Expr) : Nat :=
  if op = .nullish then (if isOrAndS l then 18 else 5)
  else if op = .pow then (if powLeftS l then 21 else 17)
  else if op.assoc = .right then op.stratum else op.stratum - 1

/-- the level at which the right operand of `op` is printed -/
def rightLevel (op : BinOp) (r : Expr) : Nat :=
  if op = .nullish then (if isOrAndS r then 18 else 6)
  else if op.assoc = .left ∧ op ≠ .comma then op.stratum else op.stratum - 1

/-- whether the binary expression gets parentheses -/
def binWrap (op : BinOp) (level : Nat) (forbidIn : Bool) : Bool :=
  decide (level ≥ op.stratum) || (decide (op = .in_) && forbidIn)

theorem binaryLevels_eq (op : BinOp) (l r : Expr) (level : Nat) (fi : Bool) :
    binaryLevels op l r level fi = (binWrap op level fi, leftLevel op l, rightLevel op r) := by
  unfold binaryLevels
  simp only [binEntry_level, code_eq_in, code_eq_nullish, code_eq_pow, isLeftAssoc_binEntry, isRightAssoc_binEntry,
    isOrAnd_eq, powLeftNeedsCall_eq, lvl_LPrefix, lvl_LCall]
  cases op <;> simp [binWrap, leftLevel, rightLevel, BinOp.assoc, BinOp.stratum]

variable {m : Bool}

theorem print_ident (n L fi nt) : print m (.ident n) L fi nt = [.ident n] := by simp [print]
theorem print_num (n L fi nt) : print m (.num n) L fi nt = [.num n] := by simp [print]

theorem print_unary (op : UnOp) (v : Expr) (L : Nat) (fi nt : Bool) :
    print m (.unary op v) L fi nt =
      paren (decide (L ≥ (if op.isPostfix then 19 else 18)))
        (if op.isPostfix then print m v 18 false false ++ [.p op.tok] else .p op.tok :: print m v 17 false false) := by
  simp only [print, unEntry_level, unEntry_tok, isPrefix_unEntry, lvl_LPrefix, lvl_LPostfix]
  cases h : op.isPostfix <;> simp

theorem print_binary (op : BinOp) (l r : Expr) (L : Nat) (fi nt : Bool) :
    print m (.binary op l r) L fi nt =
      paren (binWrap op L fi)
        (print m l (leftLevel op l) (fi && !binWrap op L fi) false ++
          .p op.tok :: print m r (rightLevel op r) (fi && !binWrap op L fi) false) := by
  simp only [print, binaryLevels_eq, binEntry_tok]

theorem print_cond (t y n : Expr) (L : Nat) (fi nt : Bool) :
    print m (.cond t y n) L fi nt =
      paren (decide (L ≥ 5))
        (print m t 5 (fi && !decide (L ≥ 5)) false ++ .p .question :: (print m y 3 false false ++
          .p .colon :: print m n 3 (fi && !decide (L ≥ 5)) false)) := by
  simp only [print, lvl_LConditional, lvl_LYield]

theorem print_dot (e : Expr) (name L : Nat) (fi nt : Bool) :
    print m (.dot e name) L fi nt = print m e 19 false nt ++ [.p .dot, .ident name] := by
  simp only [print, lvl_LPostfix]

theorem print_index (e i : Expr) (L : Nat) (fi nt : Bool) :
    print m (.index e i) L fi nt = print m e 19 false nt ++ .p .lbrack :: (print m i 0 false false ++ [.p .rbrack]) := by
  simp only [print, lvl_LPostfix, lvl_LLowest]

theorem print_call (f : Expr) (as : Args) (L : Nat) (fi nt : Bool) :
    print m (.call f as) L fi nt =
      paren (decide (L ≥ 20) || nt) (print m f 19 false false ++ .p .lparen :: (printArgs m as ++ [.p .rparen])) := by
  simp only [print, lvl_LPostfix, lvl_LNew]

/-- whether `new f(args)` keeps its `()`: always, except under MinifyWhitespace without arguments below LPostfix -/
def newParens (m : Bool) (as : Args) (L : Nat) : Bool := !m || !as.isNil || decide (L ≥ 19)

theorem print_new (f : Expr) (as : Args) (L : Nat) (fi nt : Bool) :
    print m (.new f as) L fi nt =
      paren (decide (L ≥ 21)) (.p .kNew :: (print m f 20 false true ++
        (if newParens m as L then .p .lparen :: (printArgs m as ++ [.p .rparen]) else []))) := by
  simp only [print, lvl_LCall, lvl_LNew, lvl_LPostfix, newParens]
  rfl

theorem printArgs_nil : printArgs m .nil = [] := by simp [printArgs]
theorem printArgs_one (a : Expr) : printArgs m (.cons a .nil) = print m a 1 false false := by
  simp only [printArgs, lvl_LComma]
theorem printArgs_cons (a b : Expr) (rest : Args) :
    printArgs m (.cons a (.cons b rest)) = print m a 1 false false ++ .p .comma :: printArgs m (.cons b rest) := by
  simp only [printArgs, lvl_LComma]

end EsbuildModel.PrecPrint
