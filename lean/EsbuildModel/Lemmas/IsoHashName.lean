import EsbuildModel.Impl.IsoHash
/-! `HashForFileName`: length, alphabet, and which digest bytes the name depends on. -/
namespace EsbuildModel.IsoHash

/-- a character of the base32 alphabet `A`–`Z`, `2`–`7` -/
def IsB32 (c : Nat) : Prop := (65 ≤ c ∧ c ≤ 90) ∨ (50 ≤ c ∧ c ≤ 55)

theorem b32char_alphabet (d : Nat) (h : d < 32) : IsB32 (b32char d) := by
  unfold b32char IsB32
  split <;> omega

theorem b32char_inj (a b : Nat) (ha : a < 32) (hb : b < 32) (h : b32char a = b32char b) : a = b := by
  unfold b32char at h
  split at h <;> split at h <;> omega

/-- the 40-bit number of five bytes -/
def val5 (b0 b1 b2 b3 b4 : Nat) : Nat := b0 * 4294967296 + b1 * 16777216 + b2 * 65536 + b3 * 256 + b4

/-- the eight characters of a number below 2^40 -/
def chars8 (v : Nat) : List Nat :=
  [b32char (v / 34359738368 % 32), b32char (v / 1073741824 % 32), b32char (v / 33554432 % 32),
   b32char (v / 1048576 % 32), b32char (v / 32768 % 32), b32char (v / 1024 % 32),
   b32char (v / 32 % 32), b32char (v % 32)]

/-- the eight characters of a full group -/
theorem b32group5 (b0 b1 b2 b3 b4 : Nat) :
    b32group [b0, b1, b2, b3, b4] = chars8 (val5 b0 b1 b2 b3 b4) := by
  simp [b32group, groupVal, groupChars, chars8, val5]

theorem digits_inj (v w : Nat) (hv : v < 1099511627776) (hw : w < 1099511627776)
    (e0 : v / 34359738368 % 32 = w / 34359738368 % 32)
    (e1 : v / 1073741824 % 32 = w / 1073741824 % 32)
    (e2 : v / 33554432 % 32 = w / 33554432 % 32)
    (e3 : v / 1048576 % 32 = w / 1048576 % 32)
    (e4 : v / 32768 % 32 = w / 32768 % 32)
    (e5 : v / 1024 % 32 = w / 1024 % 32)
    (e6 : v / 32 % 32 = w / 32 % 32)
    (e7 : v % 32 = w % 32) : v = w := by
  omega

theorem chars8_inj (v w : Nat) (hv : v < 1099511627776) (hw : w < 1099511627776)
    (h : chars8 v = chars8 w) : v = w := by
  simp only [chars8, List.cons.injEq, and_true] at h
  obtain ⟨h0, h1, h2, h3, h4, h5, h6, h7⟩ := h
  have m : ∀ x : Nat, x % 32 < 32 := fun x => Nat.mod_lt _ (by decide)
  exact digits_inj v w hv hw
    (b32char_inj _ _ (m _) (m _) h0) (b32char_inj _ _ (m _) (m _) h1)
    (b32char_inj _ _ (m _) (m _) h2) (b32char_inj _ _ (m _) (m _) h3)
    (b32char_inj _ _ (m _) (m _) h4) (b32char_inj _ _ (m _) (m _) h5)
    (b32char_inj _ _ (m _) (m _) h6) (b32char_inj _ _ (m _) (m _) h7)

theorem val5_lt (a0 a1 a2 a3 a4 : Nat) (ha : a0 < 256 ∧ a1 < 256 ∧ a2 < 256 ∧ a3 < 256 ∧ a4 < 256) :
    val5 a0 a1 a2 a3 a4 < 1099511627776 := by
  unfold val5; omega

theorem val5_inj (a0 a1 a2 a3 a4 b0 b1 b2 b3 b4 : Nat)
    (ha : a0 < 256 ∧ a1 < 256 ∧ a2 < 256 ∧ a3 < 256 ∧ a4 < 256)
    (hb : b0 < 256 ∧ b1 < 256 ∧ b2 < 256 ∧ b3 < 256 ∧ b4 < 256)
    (h : val5 a0 a1 a2 a3 a4 = val5 b0 b1 b2 b3 b4) :
    a0 = b0 ∧ a1 = b1 ∧ a2 = b2 ∧ a3 = b3 ∧ a4 = b4 := by
  unfold val5 at h; omega

theorem b32group_length (g : List Nat) : (b32group g).length = 8 := by
  unfold b32group
  simp only [List.length_append, List.length_map, List.length_take, List.length_replicate,
    List.length_cons, List.length_nil]
  have : groupChars g.length ≤ 8 := by unfold groupChars; split <;> omega
  omega

theorem b32encode_cons5 (b0 b1 b2 b3 b4 : Nat) (rest : List Nat) :
    b32encode (b0 :: b1 :: b2 :: b3 :: b4 :: rest) = b32group [b0, b1, b2, b3, b4] ++ b32encode rest := by
  rw [b32encode]

/-- with five or more digest bytes the name is the encoding of the first group -/
theorem hashForFileName_cons5 (b0 b1 b2 b3 b4 : Nat) (rest : List Nat) :
    hashForFileName (b0 :: b1 :: b2 :: b3 :: b4 :: rest) = some (b32group [b0, b1, b2, b3, b4]) := by
  unfold hashForFileName
  simp only [b32encode_cons5]
  have hl := b32group_length [b0, b1, b2, b3, b4]
  have h1 : ¬ ((b32group [b0, b1, b2, b3, b4] ++ b32encode rest).length < 8) := by
    simp only [List.length_append]; omega
  simp only [h1, if_false]
  rw [List.take_left' hl]

theorem exists_cons5 (d : List Nat) (h : 5 ≤ d.length) :
    ∃ b0 b1 b2 b3 b4 rest, d = b0 :: b1 :: b2 :: b3 :: b4 :: rest := by
  match d, h with
  | b0 :: b1 :: b2 :: b3 :: b4 :: rest, _ => exact ⟨b0, b1, b2, b3, b4, rest, rfl⟩

theorem hashForFileName_take5 (d : List Nat) (h : 5 ≤ d.length) :
    hashForFileName d = hashForFileName (d.take 5) := by
  obtain ⟨b0, b1, b2, b3, b4, rest, rfl⟩ := exists_cons5 d h
  simp only [List.take_succ_cons, List.take_zero]
  rw [hashForFileName_cons5, hashForFileName_cons5]

theorem hashForFileName_shape (d : List Nat) (h : 5 ≤ d.length) :
    ∃ n, hashForFileName d = some n ∧ n.length = 8 ∧ ∀ c ∈ n, IsB32 c := by
  obtain ⟨b0, b1, b2, b3, b4, rest, rfl⟩ := exists_cons5 d h
  refine ⟨_, hashForFileName_cons5 .., b32group_length _, ?_⟩
  rw [b32group5]
  intro c hc
  simp only [chars8, List.mem_cons, List.not_mem_nil, or_false] at hc
  rcases hc with rfl | rfl | rfl | rfl | rfl | rfl | rfl | rfl <;>
    exact b32char_alphabet _ (Nat.mod_lt _ (by decide))

/-- the name determines the first five digest bytes -/
theorem b32group5_inj (a0 a1 a2 a3 a4 b0 b1 b2 b3 b4 : Nat)
    (ha : a0 < 256 ∧ a1 < 256 ∧ a2 < 256 ∧ a3 < 256 ∧ a4 < 256)
    (hb : b0 < 256 ∧ b1 < 256 ∧ b2 < 256 ∧ b3 < 256 ∧ b4 < 256)
    (h : b32group [a0, a1, a2, a3, a4] = b32group [b0, b1, b2, b3, b4]) :
    a0 = b0 ∧ a1 = b1 ∧ a2 = b2 ∧ a3 = b3 ∧ a4 = b4 := by
  rw [b32group5, b32group5] at h
  exact val5_inj _ _ _ _ _ _ _ _ _ _ ha hb (chars8_inj _ _ (val5_lt _ _ _ _ _ ha) (val5_lt _ _ _ _ _ hb) h)

theorem hashForFileName_none_iff (d : List Nat) : hashForFileName d = none ↔ d = [] := by
  constructor
  · intro h
    cases d with
    | nil => rfl
    | cons b0 t =>
      exfalso
      unfold hashForFileName at h
      have : (b32encode (b0 :: t)).length ≥ 8 := by
        rcases t with _ | ⟨b1, _ | ⟨b2, _ | ⟨b3, _ | ⟨b4, rest⟩⟩⟩⟩
        · rw [b32encode]; exact Nat.le_of_eq (b32group_length _).symm
          all_goals simp
        · rw [b32encode]; exact Nat.le_of_eq (b32group_length _).symm
          all_goals simp
        · rw [b32encode]; exact Nat.le_of_eq (b32group_length _).symm
          all_goals simp
        · rw [b32encode]; exact Nat.le_of_eq (b32group_length _).symm
          all_goals simp
        · rw [b32encode_cons5, List.length_append, b32group_length]; omega
      simp only [Nat.not_lt.2 this, if_false] at h
      simp at h
  · rintro rfl; rfl

/-- `Sum(nil)` always has eight bytes -/
theorem sum_length (d : Digest) : d.sum.length = 8 := rfl

theorem sum_bytes (d : Digest) : ∀ x ∈ d.sum, x < 256 := by
  intro x hx
  simp only [Digest.sum, beBytes, List.mem_cons, List.not_mem_nil, or_false] at hx
  rcases hx with rfl | rfl | rfl | rfl | rfl | rfl | rfl | rfl <;> exact Nat.mod_lt _ (by decide)

end EsbuildModel.IsoHash
