/-
Scoping of the `__super` symbols: lowerClass and the mutual induction over the visit pass.
-/
import EsbuildModel.Lemmas.TsClassScope2
namespace EsbuildModel.TsClass

theorem lowerClass_ok (T S : Option Nat) (o : Mode) (info : Info) (myId : Option Nat) (uses : Nat)
    (base : Base) (ss : List Nat) (ctor : Ctor) (ms : Members) (after : Afters)
    (hb : OkB T base) (hk : OkK S ctor) (hm : OkMs S ms) (ha : OkAs S after) (hid : myId = none ∨ myId = S) :
    OkC T (lowerClass o info myId uses base ss ctor ms after) := by
  obtain ⟨p1, p2, p3⟩ := processMembers_ok S o info ms hm
  have hins : OkSs S ((ppStmts o ctor.params 0).append (processMembers o info ms).inst) :=
    OkSs_append S _ _ (ppStmts_ok S o _ _) p2
  unfold lowerClass
  simp only [OkC]
  refine ⟨hb, S, ?_, ppFields_ok S o _ _ _ p1, OkAs_append S _ _ ha p3⟩
  split
  · cases ctor with
    | none => trivial
    | some ps body =>
      simp only [OkK] at hk ⊢
      exact ⟨strip_ok S ps hk.1, hk.2⟩
  · cases ctor with
    | some ps body =>
      simp only [OkK] at hk ⊢
      exact ⟨strip_ok S ps hk.1, insertAfterSuper_ok S _ _ _ _ hk.2 hins hid⟩
    | none =>
      cases base with
      | none =>
        simp only [OkK, OkPs, true_and]
        exact insertAfterSuper_ok S _ _ _ _ (by simp [OkSs]) hins hid
      | some pre c =>
        cases myId with
        | some i =>
          have hS : some i = S := by cases hid with
            | inl h => cases h
            | inr h => exact h
          simp only [OkK, OkPs, true_and]
          exact insertAfterSuper_ok S _ _ _ _ (by simp [OkSs, OkS, OkE, hS]) hins hid
        | none =>
          simp only [OkK, OkPs, true_and]
          exact insertAfterSuper_ok S _ _ _ _ (by simp [OkSs, OkS, OkE]) hins hid

mutual
theorem visitE_ok (o : Mode) : ∀ (e : Expr), srcE e = true → ∀ (cur : Option Nat) (n : Nat) (S : Option Nat),
    (e.noSuper = true ∨ S = cur) → OkE S (visitE o cur e n).val
  | .num _, _, _, _, _, _ => by simp [visitE, OkE]
  | .undef, _, _, _, _, _ => by simp [visitE, OkE]
  | .probe _, _, _, _, _, _ => by simp [visitE, OkE]
  | .param _, _, _, _, _, _ => by simp [visitE, OkE]
  | .allArgs, _, _, _, _, _ => by simp [visitE, OkE]
  | .thisGet _, _, _, _, _, _ => by simp [visitE, OkE]
  | .assignThis x e, h, cur, n, S, hs => by
    simp only [srcE] at h
    simp only [visitE, OkE]
    exact visitE_ok o e h cur n S (by simpa only [Expr.noSuper] using hs)
  | .defineThis x hi e, h, cur, n, S, hs => by
    simp only [srcE] at h
    simp only [visitE, OkE]
    exact visitE_ok o e h cur n S (by simpa only [Expr.noSuper] using hs)
  | .superCall a, h, cur, n, S, hs => by
    simp only [srcE] at h
    have hS : S = cur := by simpa [Expr.noSuper] using hs
    have ih := visitE_ok o a h cur n S (Or.inr hS)
    simp only [visitE]
    cases cur with
    | some i => simpa only [OkE] using ⟨hS.symm, ih⟩
    | none => simpa only [OkE] using ih
  | .shimCall _ _, h, _, _, _, _ => by simp [srcE] at h
  | .seq a b, h, cur, n, S, hs => by
    simp only [srcE, Bool.and_eq_true] at h
    have hs' : (a.noSuper = true ∧ b.noSuper = true) ∨ S = cur := by simpa only [Expr.noSuper, Bool.and_eq_true] using hs
    simp only [visitE, OkE]
    exact ⟨visitE_ok o a h.1 cur n S (hs'.imp (·.1) id), visitE_ok o b h.2 cur _ S (hs'.imp (·.2) id)⟩
  | .cond c a b, h, cur, n, S, hs => by
    simp only [srcE, Bool.and_eq_true] at h
    have hs' : ((c.noSuper = true ∧ a.noSuper = true) ∧ b.noSuper = true) ∨ S = cur := by
      simpa only [Expr.noSuper, Bool.and_eq_true] using hs
    simp only [visitE, OkE]
    exact ⟨visitE_ok o c h.1.1 cur n S (hs'.imp (·.1.1) id), visitE_ok o a h.1.2 cur _ S (hs'.imp (·.1.2) id),
      visitE_ok o b h.2 cur _ S (hs'.imp (·.2) id)⟩
  | .arrow b, h, cur, n, S, hs => by
    simp only [srcE] at h
    simp only [visitE, OkE]
    exact visitE_ok o b h cur n S (by simpa only [Expr.noSuper] using hs)
  | .newC c a, h, cur, n, S, hs => by
    simp only [srcE, Bool.and_eq_true] at h
    simp only [visitE, OkE]
    exact ⟨visitClass_ok o c h.1 n S, visitE_ok o a h.2 cur _ S (by simpa only [Expr.noSuper] using hs)⟩

theorem visitStmt_ok (o : Mode) : ∀ (s : Stmt), srcS s = true → ∀ (cur : Option Nat) (n : Nat), OkS cur (visitStmt o cur s n).val
  | .expr e, h, cur, n => by
    simp only [srcS] at h
    simpa only [visitStmt, OkS] using visitE_ok o e h cur n cur (Or.inr rfl)
  | .retVoid, _, _, _ => by simp [visitStmt, OkS]
  | .retVal e, h, cur, n => by
    simp only [srcS] at h
    simpa only [visitStmt, OkS] using visitE_ok o e h cur n cur (Or.inr rfl)
  | .throw_ e, h, cur, n => by
    simp only [srcS] at h
    simpa only [visitStmt, OkS] using visitE_ok o e h cur n cur (Or.inr rfl)
  | .ifS c t f, h, cur, n => by
    simp only [srcS, Bool.and_eq_true] at h
    simp only [visitStmt, OkS]
    exact ⟨visitE_ok o c h.1.1 cur n cur (Or.inr rfl), visitStmts_ok o t h.1.2 cur _, visitStmts_ok o f h.2 cur _⟩
  | .shimDecl _ _, h, _, _ => by simp [srcS] at h

theorem visitStmts_ok (o : Mode) : ∀ (ss : Stmts), srcSs ss = true → ∀ (cur : Option Nat) (n : Nat), OkSs cur (visitStmts o cur ss n).val
  | .nil, _, _, _ => by simp [visitStmts, OkSs]
  | .cons s r, h, cur, n => by
    simp only [srcSs, Bool.and_eq_true] at h
    simp only [visitStmts, OkSs]
    exact ⟨visitStmt_ok o s h.1 cur n, visitStmts_ok o r h.2 cur _⟩

theorem visitParams_ok (o : Mode) : ∀ (ps : Params), srcPs ps = true → ∀ (cur : Option Nat) (n : Nat), OkPs cur (visitParams o cur ps n).val
  | .nil, _, _, _ => by simp [visitParams, OkPs]
  | .cons _ _ d r, h, cur, n => by
    simp only [srcPs, Bool.and_eq_true] at h
    simp only [visitParams, OkPs]
    exact ⟨visitE_ok o d h.1 cur n cur (Or.inr rfl), visitParams_ok o r h.2 cur _⟩

theorem visitCtor_ok (o : Mode) : ∀ (k : Ctor), srcK k = true → ∀ (cur : Option Nat) (n : Nat), OkK cur (visitCtor o cur k n).val
  | .none, _, _, _ => by simp [visitCtor, OkK]
  | .some ps b, h, cur, n => by
    simp only [srcK, Bool.and_eq_true] at h
    simp only [visitCtor, OkK]
    exact ⟨visitParams_ok o ps h.1 cur n, visitStmts_ok o b h.2 cur _⟩

theorem visitMembers_ok (o : Mode) : ∀ (ms : Members), srcMs ms = true → ∀ (cur : Option Nat) (n : Nat), OkMs cur (visitMembers o cur ms n).val
  | .nil, _, _, _ => by simp [visitMembers, OkMs]
  | .field _ _ e _ r, h, cur, n => by
    simp only [srcMs, Bool.and_eq_true] at h
    simp only [visitMembers, OkMs]
    exact ⟨visitE_ok o e h.1 cur n cur (Or.inr rfl), visitMembers_ok o r h.2 cur _⟩
  | .sfield _ _ e r, h, cur, n => by
    simp only [srcMs, Bool.and_eq_true] at h
    simp only [visitMembers, OkMs]
    exact ⟨visitE_ok o e h.1 cur n cur (Or.inr rfl), visitMembers_ok o r h.2 cur _⟩
  | .sblock e r, h, cur, n => by
    simp only [srcMs, Bool.and_eq_true] at h
    simp only [visitMembers, OkMs]
    exact ⟨visitE_ok o e h.1 cur n cur (Or.inr rfl), visitMembers_ok o r h.2 cur _⟩
  | .sassign _ _ _, h, _, _ => by simp [srcMs] at h

theorem visitBase_ok (o : Mode) : ∀ (b : Base), srcB b = true → ∀ (cur : Option Nat) (n : Nat) (T : Option Nat), OkB T (visitBase o cur b n).val
  | .none, _, _, _, _ => by simp [visitBase, OkB]
  | .some pre c, h, cur, n, T => by
    simp only [srcB, Bool.and_eq_true] at h
    simp only [visitBase, OkB]
    exact ⟨visitE_ok o pre h.1.2 cur n T (Or.inl h.1.1), visitClass_ok o c h.2 _ T⟩

theorem visitClass_ok (o : Mode) : ∀ (c : Class), srcC c = true → ∀ (n : Nat) (T : Option Nat), OkC T (visitClass o c n).1
  | .mk base ss ctor ms after, h, n, T => by
    simp only [srcC, Bool.and_eq_true] at h
    obtain ⟨⟨⟨h1, h2⟩, h3⟩, h4⟩ := h
    have ha : after = .nil := by cases after <;> simp_all [srcAs]
    subst ha
    simp only [visitClass]
    exact lowerClass_ok T _ o _ _ _ _ ss _ _ _ (visitBase_ok o base h1 _ _ T) (visitCtor_ok o ctor h2 _ _)
      (visitMembers_ok o ms h3 _ _) (by simp [visitAfters, OkAs]) (by
        split
        · exact Or.inr rfl
        · exact Or.inl rfl)
end

end EsbuildModel.TsClass
