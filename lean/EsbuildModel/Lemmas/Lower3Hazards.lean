import EsbuildModel.Lemmas.Lower3Basic
/-!
An expression without object patterns can only stop at the two situations that concern object spread
(`__proto__: v` after a spread, half of an accessor pair after a spread).
-/
namespace EsbuildModel.Lower3

mutual
/-- no destructuring: every assignment target is a variable -/
def E.noPat : E → Bool
  | .id _ => true
  | .lit _ => true
  | .call _ a => a.noPat
  | .obj ps => ps.noPat
  | .asg (.var _) rhs => rhs.noPat
  | .asg _ _ => false
  | .seq a b => a.noPat && b.noPat
  | .tmp _ => true
  | .spreadValues a b => a.noPat && b.noPat
  | .spreadProps a b => a.noPat && b.noPat
  | .objRest _ _ => false
def PL.noPat : PL → Bool
  | .nil => true
  | .data _ ke v r => ke.noPat && v.noPat && r.noPat
  | .getter _ ke _ r => ke.noPat && r.noPat
  | .setter _ ke _ r => ke.noPat && r.noPat
  | .proto v r => v.noPat && r.noPat
  | .spread e r => e.noPat && r.noPat
end

def spreadHz : Hz → Prop
  | .protoAfterSpread => True
  | .accessorSplit => True
  | _ => False

/-- the run can only have stopped at a situation in S -/
def HzIn {α σ : Type} (S : Hz → Prop) (r : R α × σ) : Prop := ∀ z, r.1 = .err (.outside z) → S z

theorem HzIn.bind {α β σ : Type} {S : Hz → Prop} {r : R α × σ} {F : α → σ → R β × σ}
    (h : HzIn S r) (hk : ∀ v s, HzIn S (F v s)) : HzIn S (bindR r F) := by
  obtain ⟨a, s⟩ := r
  cases a with
  | ok v => exact hk v s
  | err x =>
    intro z hz
    simp only [bindR_err, R.err.injEq] at hz
    exact h z (by simp only [R.err.injEq]; exact hz)

theorem HzIn.ok {α σ : Type} {S : Hz → Prop} (a : α) (s : σ) : HzIn S ((.ok a : R α), s) := fun z h => by simp at h

theorem doEv_hz {S : Hz → Prop} (w : World) (ev : Ev) (h : H) : HzIn S (doEv w ev h) := by
  intro z hz
  simp only [doEv] at hz
  split at hz <;> simp at hz

theorem toPrim_hz {S : Hz → Prop} (w : World) (hint : Hint) (v : Val) (h : H) : HzIn S (toPrim w hint v h) := by
  have hev : HzIn S (bindR (doEv w (.toPrim hint v) h) fun p h1 =>
      if p.isObject then ((.err .typeError : Res), h1) else (.ok p, h1)) :=
    HzIn.bind (doEv_hz w _ h) (fun p h1 => by
      intro z hz
      split at hz <;> simp at hz)
  unfold toPrim
  cases v with
  | obj o => exact hev
  | rcd p ss ys =>
    simp only
    split
    · intro z hz; simp at hz
    · exact hev
    · exact HzIn.ok _ _
  | _ => exact HzIn.ok _ _

theorem slotGet_hz {S : Hz → Prop} (w : World) (this : Val) (sl : Slot Val) (h : H) : HzIn S (slotGet w this sl h) := by
  unfold slotGet
  split
  · exact HzIn.ok _ _
  · exact doEv_hz w _ h
  · exact HzIn.ok _ _

theorem copyEntries_hz {S : Hz → Prop} (w : World) (this : Val) (skip : Key → Bool) (put : Rec → Key → Val → Rec) :
    ∀ (l : List (Key × Slot Val)) (t : Rec) (h : H), HzIn S (copyEntries w this skip (fun _ => none) put l t h) := by
  intro l
  induction l with
  | nil => intro t h; exact HzIn.ok _ _
  | cons p r ih =>
    intro t h
    obtain ⟨k, sl⟩ := p
    simp only [copyEntries]
    split
    · exact ih t h
    · exact HzIn.bind (slotGet_hz w this sl h) (fun v h1 => ih _ h1)

theorem copyWorld_hz {S : Hz → Prop} (w : World) (o : Nat) (g : Key → Trace → Bool) (put : Rec → Key → Val → Rec) :
    ∀ (l : List Key) (t : Rec) (h : H), HzIn S (copyWorld w o g (fun _ => none) put l t h) := by
  intro l
  induction l with
  | nil => intro t h; exact HzIn.ok _ _
  | cons k r ih =>
    intro t h
    simp only [copyWorld]
    split
    · exact HzIn.bind (doEv_hz w _ h) (fun v h1 => ih _ h1)
    · exact ih t h

theorem copyDataProps_spread_hz {S : Hz → Prop} (w : World) (g : Bool) (src : Val) (t : Rec) (h : H) :
    HzIn S (copyDataProps w g false src [] t h) := by
  unfold copyDataProps
  simp only [Bool.and_false, Bool.false_and, Bool.false_eq_true, if_false]
  cases src with
  | obj o => exact copyWorld_hz w o _ _ _ t h
  | _ => exact copyEntries_hz w _ _ _ _ t h

theorem liftH_hz {α : Type} {S : Hz → Prop} (f : H → R α × H) (s : TState) (h : HzIn S (f s.h)) : HzIn S (liftH f s) := h

theorem keyOf_hz {S : Hz → Prop} (w : World) (k : KK) (ev : TState → Res × TState) (s : TState) (h : HzIn S (ev s)) :
    HzIn S (keyOf w false k ev s) := by
  cases k with
  | str t => exact HzIn.ok _ _
  | num n => exact HzIn.ok _ _
  | comp =>
    simp only [keyOf, Bool.false_and, Bool.false_eq_true, if_false]
    refine HzIn.bind h (fun raw s1 => HzIn.bind ?_ (fun _ _ => HzIn.ok _ _))
    exact HzIn.bind (toPrim_hz w .string raw s1.h) (fun _ _ => HzIn.ok _ _)

theorem spreadValuesH_hz {S : Hz → Prop} (w : World) (a b : Val) (h : H) : HzIn S (spreadValuesH w a b h) := by
  unfold spreadValuesH
  split
  · intro z hz; simp at hz
  · simp only
    split
    · exact HzIn.bind (copyWorld_hz w _ _ _ _ _ h) (fun _ h1 => HzIn.bind (copyWorld_hz w _ _ _ _ _ h1) (fun _ _ => HzIn.ok _ _))
    · exact HzIn.bind (copyEntries_hz w _ _ _ _ _ h) (fun _ h1 => HzIn.bind (copyEntries_hz w _ _ _ _ _ h1) (fun _ _ => HzIn.ok _ _))

mutual
theorem evalE_hz (w : World) (g : Bool) : ∀ (e : E) (s : TState), e.noPat = true → HzIn spreadHz (evalE w g e s)
  | .id _, _, _ => HzIn.ok _ _
  | .lit _, _, _ => HzIn.ok _ _
  | .tmp _, _, _ => HzIn.ok _ _
  | .call f a, s, h => by
    simp only [E.noPat] at h
    simp only [evalE]
    exact HzIn.bind (evalE_hz w g a s h) (fun v s1 => doEv_hz w _ s1.h)
  | .obj ps, s, h => by
    simp only [E.noPat] at h
    simp only [evalE]
    exact HzIn.bind (evalPL_hz w g ps _ _ _ s h) (fun _ _ => HzIn.ok _ _)
  | .asg (.var x) rhs, s, h => by
    simp only [E.noPat] at h
    simp only [evalE, bindPat]
    exact HzIn.bind (evalE_hz w g rhs s h) (fun _ _ => HzIn.ok _ _)
  | .asg (.tmp _) _, _, h => by simp [E.noPat] at h
  | .asg (.obj _ _) _, _, h => by simp [E.noPat] at h
  | .seq a b, s, h => by
    simp only [E.noPat, Bool.and_eq_true] at h
    simp only [evalE]
    exact HzIn.bind (evalE_hz w g a s h.1) (fun _ s1 => evalE_hz w g b s1 h.2)
  | .spreadValues a b, s, h => by
    simp only [E.noPat, Bool.and_eq_true] at h
    simp only [evalE]
    exact HzIn.bind (evalE_hz w g a s h.1) (fun av s1 => HzIn.bind (evalE_hz w g b s1 h.2) (fun bv s2 => spreadValuesH_hz w av bv s2.h))
  | .spreadProps a b, s, h => by
    simp only [E.noPat, Bool.and_eq_true] at h
    simp only [evalE]
    refine HzIn.bind (evalE_hz w g a s h.1) (fun av s1 => HzIn.bind (evalE_hz w g b s1 h.2) (fun bv s2 => ?_))
    intro z hz
    simp only [spreadPropsH] at hz
    split at hz <;> simp at hz
  | .objRest _ _, _, h => by simp [E.noPat] at h
theorem evalPL_hz (w : World) (g : Bool) : ∀ (ps : PL) (af : Bool) (seg : List Key) (t : Rec) (s : TState),
    ps.noPat = true → HzIn spreadHz (evalPL w g ps af seg t s)
  | .nil, _, _, _, _, _ => HzIn.ok _ _
  | .data k ke v rest, af, seg, t, s, h => by
    simp only [PL.noPat, Bool.and_eq_true] at h
    simp only [evalPL]
    refine HzIn.bind (keyOf_hz w k _ s (evalE_hz w g ke s h.1.1)) (fun kv s1 => ?_)
    exact HzIn.bind (evalE_hz w g v s1 h.1.2) (fun _ s2 => evalPL_hz w g rest _ _ _ s2 h.2)
  | .getter k ke g' rest, af, seg, t, s, h => by
    simp only [PL.noPat, Bool.and_eq_true] at h
    simp only [evalPL]
    refine HzIn.bind (keyOf_hz w k _ s (evalE_hz w g ke s h.1)) (fun kv s1 => ?_)
    split
    · intro z hz
      simp only [R.err.injEq, Exc.outside.injEq] at hz
      subst hz
      trivial
    · exact evalPL_hz w g rest _ _ _ s1 h.2
  | .setter k ke f rest, af, seg, t, s, h => by
    simp only [PL.noPat, Bool.and_eq_true] at h
    simp only [evalPL]
    refine HzIn.bind (keyOf_hz w k _ s (evalE_hz w g ke s h.1)) (fun kv s1 => ?_)
    split
    · intro z hz
      simp only [R.err.injEq, Exc.outside.injEq] at hz
      subst hz
      trivial
    · exact evalPL_hz w g rest _ _ _ s1 h.2
  | .proto v rest, af, seg, t, s, h => by
    simp only [PL.noPat, Bool.and_eq_true] at h
    simp only [evalPL]
    refine HzIn.bind (evalE_hz w g v s h.1) (fun pv s1 => ?_)
    split
    · split
      · intro z hz
        simp only [R.err.injEq, Exc.outside.injEq] at hz
        subst hz
        trivial
      · exact evalPL_hz w g rest _ _ _ s1 h.2
    · exact evalPL_hz w g rest _ _ _ s1 h.2
  | .spread e rest, af, seg, t, s, h => by
    simp only [PL.noPat, Bool.and_eq_true] at h
    simp only [evalPL]
    refine HzIn.bind (evalE_hz w g e s h.1) (fun sv s1 => ?_)
    exact HzIn.bind (copyDataProps_spread_hz w g sv t s1.h) (fun _ s2 => evalPL_hz w g rest _ _ _ s2 h.2)
end

end EsbuildModel.Lower3
