import EsbuildModel.Impl.Exports
namespace EsbuildModel.Exports

theorem prefix_eq_of_length (a b m : List Nat) (ha : a.isPrefixOf m = true) (hb : b.isPrefixOf m = true)
    (hl : a.length = b.length) : a = b := by
  rw [List.isPrefixOf_iff_prefix] at ha hb
  rw [List.prefix_iff_eq_take] at ha hb
  rw [ha, hb, hl]

theorem suffix_eq_of_length (a b m : List Nat) (ha : isSuffix a m = true) (hb : isSuffix b m = true)
    (hl : a.length = b.length) : a = b := by
  unfold isSuffix at ha hb
  have := prefix_eq_of_length a.reverse b.reverse m.reverse ha hb (by simp [hl])
  simpa using congrArg List.reverse this

theorem starIndex_spec (key : List Nat) (i : Nat) (h : starIndex key = some i) :
    key = key.take i ++ 42 :: key.drop (i + 1) := by
  induction key generalizing i with
  | nil => simp [starIndex] at h
  | cons c cs ih =>
    simp only [starIndex] at h
    split at h
    · rename_i hc; simp at h; subst h; simp [hc]
    · cases hs : starIndex cs with
      | none => simp [hs] at h
      | some j =>
        simp [hs] at h; subst h
        have := ih j hs
        simp only [List.take_succ_cons, List.drop_succ_cons, List.cons_append]
        rw [← this]

/-- two different pattern keys that both apply to the same match key never tie in
PATTERN_KEY_COMPARE (same base length and same length) -/
theorem matching_keys_never_tie (k1 k2 m : List Nat) (i : Nat)
    (h1 : starIndex k1 = some i) (h2 : starIndex k2 = some i) (hl : k1.length = k2.length)
    (m1 : (matchKeyWith k1 m).isSome = true) (m2 : (matchKeyWith k2 m).isSome = true) : k1 = k2 := by
  have e1 := starIndex_spec k1 i h1
  have e2 := starIndex_spec k2 i h2
  simp only [matchKeyWith, h1, h2] at m1 m2
  -- bases are prefixes of m
  have hb1 : (k1.take i).isPrefixOf m = true := by
    by_cases h : (k1.take i).isPrefixOf m = true
    · exact h
    · simp [h] at m1
  have hb2 : (k2.take i).isPrefixOf m = true := by
    by_cases h : (k2.take i).isPrefixOf m = true
    · exact h
    · simp [h] at m2
  have hi1 : i < k1.length := by
    have := congrArg List.length e1; simp at this; omega
  have hi2 : i < k2.length := by
    have := congrArg List.length e2; simp at this; omega
  have hbase : k1.take i = k2.take i := prefix_eq_of_length _ _ m hb1 hb2 (by simp; omega)
  have htl : (k1.drop (i + 1)).length = (k2.drop (i + 1)).length := by simp; omega
  simp only [hb1, hb2, ↓reduceIte] at m1 m2
  have htr : k1.drop (i + 1) = k2.drop (i + 1) := by
    generalize ht1 : k1.drop (i + 1) = t1 at *
    generalize ht2 : k2.drop (i + 1) = t2 at *
    cases t1 with
    | nil =>
      cases t2 with
      | nil => rfl
      | cons _ _ => simp at htl
    | cons a as =>
      cases t2 with
      | nil => simp at htl
      | cons b bs =>
        simp only [List.isEmpty_cons, Bool.false_or] at m1 m2
        have s1 : isSuffix (a :: as) m = true := by
          by_cases h : isSuffix (a :: as) m = true
          · exact h
          · simp [h] at m1
        have s2 : isSuffix (b :: bs) m = true := by
          by_cases h : isSuffix (b :: bs) m = true
          · exact h
          · simp [h] at m2
        exact suffix_eq_of_length _ _ m s1 s2 htl
  rw [e1, e2, hbase, htr]

end EsbuildModel.Exports
