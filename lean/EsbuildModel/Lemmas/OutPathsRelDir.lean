import EsbuildModel.Lemmas.OutPathsRel2
/-
From the relative path (names `replicate j ".." ++ N ++ [l]`) to the `[dir]` value: `dir`, the
replacement of the leading "../" by "_.._/", the trimming.  Part 1: `dir` and `base` of a joined list.
-/
namespace EsbuildModel.OutPaths
open EsbuildModel.Spec.OutPath

theorem joinSlash_concat {init : List Str} (h : init ≠ []) (l : Str) :
    joinSlash (init ++ [l]) = joinSlash init ++ '/' :: l := by
  rw [joinSlash_append h (by simp), joinSlash_singleton]

theorem dw_cons_ne {c : Char} (hc : c ≠ '/') (x : List Char) :
    (c :: x).dropWhile (fun c => decide (c ≠ '/')) = x.dropWhile (fun c => decide (c ≠ '/')) :=
  (tw_cons_ne hc x).2

/-- everything up to and including the last separator -/
theorem upToLastSlash {l : Str} (hl : '/' ∉ l) (p : Str) :
    (((p ++ '/' :: l).reverse.dropWhile (fun c => decide (c ≠ '/'))).reverse) = p ++ ['/'] := by
  have hr : '/' ∉ l.reverse := by simpa using hl
  have : (p ++ '/' :: l).reverse = l.reverse ++ '/' :: p.reverse := by simp
  rw [this, (takeWhile_noslash_append hr _).2]
  simp

theorem upToLastSlash_none {l : Str} (hl : '/' ∉ l) :
    ((l.reverse.dropWhile (fun c => decide (c ≠ '/'))).reverse) = [] := by
  have hr : '/' ∉ l.reverse := by simpa using hl
  rw [(takeWhile_noslash hr).2]
  rfl

theorem foldl_cleanStep_dd (i j : Nat) :
    (List.replicate j dd).foldl (cleanStep false) (List.replicate i dd) = List.replicate (i + j) dd := by
  induction j generalizing i with
  | zero => rfl
  | succ j ih =>
    rw [List.replicate_succ, List.foldl_cons]
    have : cleanStep false (List.replicate i dd) dd = List.replicate (i + 1) dd := by
      cases i with
      | zero => simp [cleanStep, dd]
      | succ i => simp [cleanStep, dd, List.replicate_succ]
    rw [this, ih]
    congr 1
    omega

theorem foldl_cleanStep_valid (b : Bool) (N : List Str) (hN : ∀ x ∈ N, ValidName x) (S : List Str) :
    N.foldl (cleanStep b) S = N.reverse ++ S := by
  induction N generalizing S with
  | nil => rfl
  | cons n N ih =>
    have hn := hN n (by simp)
    rw [List.foldl_cons]
    have : cleanStep b S n = n :: S := by
      simp [cleanStep, hn.1, hn.2.2.1, hn.2.2.2]
    rw [this, ih (fun x hx => hN x (by simp [hx]))]
    simp

theorem elem_dd : Elem dd := by simp [Elem, dd]

/-- `clean` of a relative path `../../a/b/` (already clean except for the trailing separator) -/
theorem clean_relative (j : Nat) (N : List Str) (hN : ∀ x ∈ N, ValidName x) (hne : List.replicate j dd ++ N ≠ []) :
    clean (joinSlash (List.replicate j dd ++ N) ++ ['/']) = joinSlash (List.replicate j dd ++ N) := by
  have hel : ∀ x ∈ List.replicate j dd ++ N, Elem x := by
    intro x hx
    rcases List.mem_append.mp hx with hx | hx
    · rw [List.eq_of_mem_replicate hx]; exact elem_dd
    · exact ValidName.elem (hN x hx)
  have hsplit : splitSlash (joinSlash (List.replicate j dd ++ N) ++ ['/']) = (List.replicate j dd ++ N) ++ [[]] := by
    rw [splitSlash_append_slash, splitSlash_joinSlash hne (fun x hx => (hel x hx).2)]
    rfl
  -- the first character is not a separator
  obtain ⟨x, X, hX⟩ : ∃ x X, List.replicate j dd ++ N = x :: X := by
    cases h : List.replicate j dd ++ N with
    | nil => exact absurd h hne
    | cons x X => exact ⟨x, X, rfl⟩
  have hx := hel x (by rw [hX]; simp)
  obtain ⟨c, x', hx'⟩ : ∃ c x', x = c :: x' := by
    cases x with
    | nil => exact absurd rfl hx.1
    | cons c x' => exact ⟨c, x', rfl⟩
  have hc : c ≠ '/' := fun e => hx.2 (by rw [hx', e]; simp)
  have hform : ∃ r, joinSlash (List.replicate j dd ++ N) ++ ['/'] = c :: r := by
    rw [hX, hx']
    cases X with
    | nil => exact ⟨x' ++ ['/'], by simp [joinSlash_singleton]⟩
    | cons y Y => exact ⟨x' ++ '/' :: joinSlash (y :: Y) ++ ['/'], by simp [joinSlash_cons_cons]⟩
  obtain ⟨r, hr⟩ := hform
  have hfold : (splitSlash (c :: r)).foldl (cleanStep false) [] = (List.replicate j dd ++ N).reverse := by
    rw [← hr, hsplit, List.foldl_append, List.foldl_append]
    have := foldl_cleanStep_dd 0 j
    simp only [List.replicate_zero, Nat.zero_add] at this
    rw [this, foldl_cleanStep_valid false N hN]
    simp [cleanStep]
  rw [hr]
  unfold clean
  simp only [hc, decide_false, hfold, List.reverse_reverse]
  have hnn : joinSlash (List.replicate j dd ++ N) ≠ [] := fun e => hne ((joinSlash_eq_nil hel).mp e)
  simp [hnn]

/-- `dir` of a relative path given by its names -/
theorem dir_joinSlash (j : Nat) (N : List Str) (hN : ∀ x ∈ N, ValidName x) {l : Str} (hl : '/' ∉ l) :
    dir (joinSlash ((List.replicate j dd ++ N) ++ [l])) =
      if List.replicate j dd ++ N = [] then ['.'] else joinSlash (List.replicate j dd ++ N) := by
  unfold dir
  by_cases hne : List.replicate j dd ++ N = []
  · rw [hne]
    simp only [List.nil_append, joinSlash_singleton, if_true]
    rw [upToLastSlash_none hl]
    rfl
  · simp only [hne, if_false]
    rw [joinSlash_concat hne, upToLastSlash hl, clean_relative j N hN hne]

/-- `base` of a path whose last name is `l` -/
theorem base_joinSlash (init : List Str) {l : Str} (hl : Elem l) :
    base (joinSlash (init ++ [l])) = l := by
  have hr : '/' ∉ l.reverse := by simpa using hl.2
  obtain ⟨c, l', hcl⟩ : ∃ c l', l.reverse = c :: l' := by
    cases h : l.reverse with
    | nil => exact absurd (by simpa using h) hl.1
    | cons c l' => exact ⟨c, l', rfl⟩
  have hc : c ≠ '/' := fun e => hr (by rw [hcl, e]; simp)
  have hform : ∃ p, (joinSlash (init ++ [l])).reverse = l.reverse ++ p ∧ (p = [] ∨ ∃ q, p = '/' :: q) := by
    by_cases hi : init = []
    · subst hi; exact ⟨[], by simp [joinSlash_singleton], Or.inl rfl⟩
    · rw [joinSlash_concat hi]
      exact ⟨'/' :: (joinSlash init).reverse, by simp, Or.inr ⟨_, rfl⟩⟩
  obtain ⟨p, hp, hpp⟩ := hform
  have hnil : joinSlash (init ++ [l]) ≠ [] := by
    intro e
    rw [e] at hp
    simp [hcl] at hp
  unfold base
  simp only [hnil, if_false]
  rw [hp, hcl]
  have hdw : ((c :: l') ++ p).dropWhile (fun c => decide (c = '/')) = (c :: l') ++ p := by
    rw [List.cons_append, List.dropWhile_cons]
    simp [hc]
  rw [hdw]
  have htw : ((c :: l') ++ p).takeWhile (fun c => decide (c ≠ '/')) = c :: l' := by
    rw [← hcl]
    rcases hpp with rfl | ⟨q, rfl⟩
    · rw [List.append_nil]; exact (takeWhile_noslash hr).1
    · exact (takeWhile_noslash_append hr q).1
  rw [htw, ← hcl]
  simp [hl.1]

end EsbuildModel.OutPaths
