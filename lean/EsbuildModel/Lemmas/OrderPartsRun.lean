import EsbuildModel.Lemmas.OrderPartsVisit
/-! Run-level facts about the parts `findImportedPartsInJSOrder` emits: the invariant for the blocks of wrapped
files, the loop over the roots, and the master statement `run_parts` from which the C02/C10 part-level
theorems are read off. -/
namespace EsbuildModel.Order
open EsbuildModel.Dfs (Edge Reach)

/-! ## blocks of wrapped files (range level) -/

/-- files that are emitted as one block: JavaScript, in this chunk, cannot be split -/
def wrapped (files : List File) (f : Nat) : Bool :=
  match files[f]? with
  | some file => file.isJS && file.inChunk && !file.canSplit
  | none => false

/-- the block of file `f`: all its parts -/
def blockRange (files : List File) (f : Nat) : Range :=
  match files[f]? with
  | some file => ⟨f, 0, file.parts.length⟩
  | none => ⟨f, 0, 0⟩

/-- the wrapped files' ranges in the prefix are exactly the blocks of the wrapped files emitted so far, in the
same order; `jsParts` holds no range of a wrapped file -/
def Inv5 (files : List File) (st : St) : Prop :=
  st.pre.filter (fun r => wrapped files r.src) = (st.js.filter (wrapped files)).map (blockRange files) ∧
  ∀ r ∈ st.parts, wrapped files r.src = false

theorem mem_extend {rs : List Range} {s p : Nat} {r : Range} (h : r ∈ extend rs s p) : r ∈ rs ∨ r.src = s := by
  unfold extend at h
  cases hl : rs.getLast? with
  | none => simp [hl] at h; right; rw [h]
  | some l =>
    obtain ⟨ys, rfl⟩ := List.getLast?_eq_some_iff.1 hl
    simp only [hl] at h
    split at h
    · rename_i hc
      rw [List.dropLast_concat] at h
      rcases List.mem_append.1 h with h | h
      · exact Or.inl (by simp [h])
      · simp at h; right; rw [h]; exact hc.1
    · rcases List.mem_append.1 h with h | h
      · exact Or.inl h
      · simp at h; right; rw [h]

theorem filter_extend (q : Nat → Bool) (rs : List Range) (s p : Nat) (hs : q s = false) :
    (extend rs s p).filter (fun r => q r.src) = rs.filter (fun r => q r.src) := by
  unfold extend
  cases hl : rs.getLast? with
  | none =>
    have : rs = [] := by simpa using hl
    subst this
    simp [hs]
  | some l =>
    obtain ⟨ys, rfl⟩ := List.getLast?_eq_some_iff.1 hl
    simp only
    split
    · rename_i hc
      rw [List.dropLast_concat]
      simp [List.filter_append, hc.1, hs]
    · rw [List.filter_append (ys ++ [l])]
      simp [List.filter_cons, hs]

def K5 (files : List File) (k : Nat → St → Option St) : Prop :=
  ∀ c st st', k c st = some st' → Inv5 files st → Inv5 files st'

theorem recLoop_inv5 {files : List File} {k : Nat → St → Option St} (hk : K5 files k) (inThis : Bool) (p : Part) :
    ∀ (rs : List Rec) (st st' : St), recLoop k inThis p rs st = some st' → Inv5 files st → Inv5 files st' := by
  intro rs
  induction rs with
  | nil => intro st st' h hi; simp only [recLoop, Option.some.injEq] at h; subst h; exact hi
  | cons r rs ih =>
    intro st st' h hi
    unfold recLoop at h
    split at h
    · split at h
      · cases h
      · rename_i st1 h1
        exact ih st1 st' h (hk _ _ _ h1 hi)
    · exact ih st st' h hi

theorem partLoop_inv5 {files : List File} {k : Nat → St → Option St} (hk : K5 files k) (f : Nat) (file : File)
    (hfile : files[f]? = some file) :
    ∀ (ps : List Part) (idx : Nat) (st st' : St), partLoop k f file idx ps st = some st' → Inv5 files st →
      Inv5 files st' := by
  intro ps
  induction ps with
  | nil => intro idx st st' h hi; simp only [partLoop, Option.some.injEq] at h; subst h; exact hi
  | cons p ps ih =>
    intro idx st st' h hi
    unfold partLoop at h
    split at h
    · cases h
    · rename_i st1 h1
      have hi1 := recLoop_inv5 hk file.inChunk p p.recs st st1 h1 hi
      apply ih (idx + 1) _ st' h
      split
      · rename_i hc
        have hcs : file.canSplit = true := by
          simp only [Bool.and_eq_true] at hc; exact hc.1.1.2
        have hw : wrapped files f = false := by simp [wrapped, hfile, hcs]
        split
        · refine ⟨?_, hi1.2⟩
          show (extend st1.pre f idx).filter _ = _
          rw [filter_extend (wrapped files) _ _ _ hw]
          exact hi1.1
        · refine ⟨hi1.1, ?_⟩
          intro r hr
          rcases mem_extend hr with hr | hr
          · exact hi1.2 r hr
          · rw [hr]; exact hw
      · exact hi1

theorem visit_inv5 (files : List File) : ∀ fuel, K5 files (visit files fuel) := by
  intro fuel
  induction fuel with
  | zero => intro c st st' h; simp [visit] at h
  | succ fuel ih =>
    intro f st st' h hi
    unfold visit at h
    split at h
    · cases h; exact hi
    · split at h
      · cases h
      · rename_i file hfile
        split at h
        · cases h; exact hi
        · rename_i hjs
          have hjs' : file.isJS = true := by simpa using hjs
          split at h
          · cases h
          · rename_i st1 hen
            split at h
            · cases h
            · rename_i st2 hpl
              cases h
              have hi0 : Inv5 files (mark f st) := hi
              have hi1 : Inv5 files st1 := by
                unfold enter at hen
                split at hen
                · rename_i hc
                  have hcs : file.canSplit = true := by simp only [Bool.and_eq_true] at hc; exact hc.1
                  have hw : wrapped files f = false := by simp [wrapped, hfile, hcs]
                  split at hen
                  · cases hen
                  · cases hen
                    split
                    · refine ⟨hi0.1, ?_⟩
                      intro r hr
                      rcases mem_extend hr with hr | hr
                      · exact hi0.2 r hr
                      · rw [hr]; exact hw
                    · exact hi0
                · cases hen; exact hi0
              have hi2 := partLoop_inv5 ih f file hfile file.parts 0 st1 st2 hpl hi1
              unfold finish
              cases hin : file.inChunk with
              | false => simpa using hi2
              | true =>
                simp only [if_true]
                cases hcs : file.canSplit with
                | true =>
                  have hw : wrapped files f = false := by simp [wrapped, hfile, hcs]
                  refine ⟨?_, hi2.2⟩
                  simp only [Bool.not_true, Bool.false_eq_true, if_false, List.filter_append]
                  rw [hi2.1]
                  simp [hw]
                | false =>
                  have hw : wrapped files f = true := by simp [wrapped, hfile, hcs, hjs', hin]
                  refine ⟨?_, hi2.2⟩
                  simp only [Bool.not_false, if_true, List.filter_append, List.map_append]
                  rw [hi2.1]
                  simp [hw, blockRange, hfile]

theorem rootsLoop_inv5 {files : List File} {k : Nat → St → Option St} (hk : K5 files k) :
    ∀ (rs : List Nat) (st st' : St), rootsLoop k rs st = some st' → Inv5 files st → Inv5 files st' := by
  intro rs
  induction rs with
  | nil => intro st st' h hi; simp only [rootsLoop, Option.some.injEq] at h; subst h; exact hi
  | cons r rs ih =>
    intro st st' h hi
    unfold rootsLoop at h
    split at h
    · cases h
    · rename_i st1 h1
      exact ih st1 st' h (hk _ _ _ h1 hi)

/-! ## the loop over the roots -/

/-- every file entered so far has contributed everything it will ever contribute -/
def AllDone (files : List File) (st : St) : Prop := ∀ y ∈ st.visited, Done files y (E st)

theorem FreshE.post {files : List File} {st st' : St} (h : PPost files st st') (hfr : FreshE st) : FreshE st' := by
  obtain ⟨n, e, s⟩ := h.segE
  intro q hq
  rw [e] at hq
  rcases List.mem_append.1 hq with hq | hq
  · exact h.mono _ (hfr q hq)
  · exact (s.src hq).1

theorem AllDone.post {files : List File} {st st' : St} (h : PPost files st st') (hfr : FreshE st)
    (hd : AllDone files st) : AllDone files st' := by
  obtain ⟨n, e, s⟩ := h.segE
  intro y hy
  unfold Done
  rw [e, onFile_append, s y]
  by_cases hyv : y ∈ st.visited
  · have := hd y hyv
    unfold Done at this
    simp [this, hyv]
  · have : onFile y (E st) = [] := onFile_eq_nil (fun q hq heq => hyv (heq ▸ hfr q hq))
    simp [this, hy, hyv]

theorem rootsLoop_parts {files : List File} {k : Nat → St → Option St} (hk : KSpec files k) :
    ∀ (rs : List Nat) (st st' : St), rootsLoop k rs st = some st' → ROK st →
      PPost files st st' ∧ (FreshE st → AllDone files st → Topo4 files (E st) → Topo4 files (E st')) := by
  intro rs
  induction rs with
  | nil =>
    intro st st' h hok
    simp only [rootsLoop, Option.some.injEq] at h
    subst h
    exact ⟨PPost.rfl' hok, fun _ _ h => h⟩
  | cons r rs ih =>
    intro st st' h hok
    unfold rootsLoop at h
    split at h
    · cases h
    · rename_i st1 h1
      obtain ⟨p1, _, t1⟩ := hk r st st1 h1 hok
      obtain ⟨p2, t2⟩ := ih st1 st' h p1.ok
      refine ⟨p1.trans p2, ?_⟩
      intro hfr hd ht
      exact t2 (hfr.post p1) (hd.post p1 hfr) (t1 hfr (fun y hy => Or.inl (hd y hy)) ht)

/-- the files some root reaches over followed imports (the runtime, index 0, is always a root) -/
def Reached (files : List File) (roots : List (Nat × Nat × Nat)) (f : Nat) : Prop :=
  ∃ r, (r = 0 ∨ ∃ x ∈ roots, x.1 = r) ∧ Reach (succ files) r f

/-- Master statement: the final state of the traversal. -/
theorem run_parts (files : List File) (roots : List (Nat × Nat × Nat)) (hwf : WFOrder files)
    (h0 : 0 < files.length) (hroots : ∀ r ∈ roots, r.1 < files.length) :
    ∃ st : St, run files roots = some (st.js, st.pre ++ st.parts) ∧
      (∀ x, x ∈ st.visited ↔ Reached files roots x) ∧
      (∀ x, onFile x (expand st.parts) = if x ∈ st.visited then emitE files x else []) ∧
      (∀ x, onFile x (expand st.pre) = if x ∈ st.visited then emitP files x else []) ∧
      Topo4 files (expand st.parts) ∧ Inv5 files st := by
  have hr' : ∀ r ∈ 0 :: (sortRoots roots).map (·.1), r < files.length := by
    intro r hr
    rcases List.mem_cons.1 hr with rfl | hr
    · exact h0
    · obtain ⟨x, hx, rfl⟩ := List.mem_map.1 hr
      exact hroots x ((mem_sortRoots roots x).1 hx)
  obtain ⟨g, eg, pg, hall, _⟩ := Dfs.visitList_post (succ := succ files) (n := files.length) (fuel := files.length + 1)
    (Dfs.visit (succ files) (files.length + 1)) (Dfs.visit_post (wf_succ hwf) (files.length + 1))
    (0 :: (sortRoots roots).map (·.1)) ⟨[], []⟩ hr' ⟨List.nodup_nil, by simp⟩ (by simp)
  have hproj := rootsLoop_proj files (files.length + 1) (0 :: (sortRoots roots).map (·.1)) ⟨[], [], [], []⟩ ⟨[], []⟩
    ⟨rfl, rfl⟩
  rw [eg] at hproj
  cases hrl : rootsLoop (visit files (files.length + 1)) (0 :: (sortRoots roots).map (·.1)) ⟨[], [], [], []⟩ with
  | none => simp [hrl, ORel] at hproj
  | some st =>
    rw [hrl] at hproj
    have hR : R files st g := hproj
    have hok0 : ROK ⟨[], [], [], []⟩ := ⟨by intro r hr; simp at hr, by intro r hr; simp at hr⟩
    obtain ⟨pp, tt⟩ := rootsLoop_parts (visit_parts files (files.length + 1)) _ _ _ hrl hok0
    have hi5 := rootsLoop_inv5 (visit_inv5 files (files.length + 1)) _ _ _ hrl
      ⟨by simp, by intro r hr; simp at hr⟩
    obtain ⟨nE, eE, sE⟩ := pp.segE
    obtain ⟨nP, eP, sP⟩ := pp.segP
    simp only [E, P, expand_nil, List.nil_append] at eE eP
    refine ⟨st, by simp [run, hrl], ?_, ?_, ?_, ?_, hi5⟩
    · intro x
      rw [hR.1]
      obtain ⟨new, eo, _, m⟩ := pg.ord
      simp only [List.nil_append] at eo
      have hrun : Dfs.run (succ files) files.length (0 :: (sortRoots roots).map (·.1)) = some g.order := by
        simp [Dfs.run, eg]
      constructor
      · intro hx
        have hxo : x ∈ g.order := by rw [eo]; exact (m x).2 ⟨hx, by simp⟩
        obtain ⟨r, hr, hreach⟩ := Dfs.run_sound _ _ hrun x hxo
        refine ⟨r, ?_, hreach⟩
        rcases List.mem_cons.1 hr with rfl | hr
        · exact Or.inl rfl
        · obtain ⟨y, hy, rfl⟩ := List.mem_map.1 hr
          exact Or.inr ⟨y, (mem_sortRoots roots y).1 hy, rfl⟩
      · rintro ⟨r, hr, hreach⟩
        have hrm : r ∈ 0 :: (sortRoots roots).map (·.1) := by
          rcases hr with rfl | ⟨y, hy, rfl⟩
          · simp
          · exact List.mem_cons_of_mem _ (List.mem_map.2 ⟨y, (mem_sortRoots roots y).2 hy, rfl⟩)
        induction hreach with
        | refl => exact hall r hrm
        | step _ hj ih => exact pg.closed _ ih (by simp) _ hj
    · intro x; rw [eE, sE x]; simp
    · intro x; rw [eP, sP x]; simp
    · have := tt (by intro q hq; simp [E, expand_nil] at hq) (by intro y hy; simp at hy)
        (by intro a i k b hm; simp [E, expand_nil] at hm)
      exact this

/-! ## reading the whole output list -/

/-- `y` occurs strictly before an occurrence of `x` -/
def PBefore (l : List (Nat × Nat)) (y x : Nat × Nat) : Prop := ∃ l1 l2, l = l1 ++ x :: l2 ∧ y ∈ l1

theorem nodup_of_onFile {l : List (Nat × Nat)} (h : ∀ x, (onFile x l).Nodup) : l.Nodup := by
  rw [List.nodup_iff_count]
  intro a
  have h2 := List.nodup_iff_count.1 (h a.1) a
  unfold onFile at h2
  rwa [List.count_filter (by simp)] at h2

theorem sorted_nodup {l : List (Nat × Nat)} (h : l.Pairwise (fun a b => a.2 < b.2)) : l.Nodup :=
  h.imp (fun {a b} hab heq => by rw [heq] at hab; exact Nat.lt_irrefl _ hab)

theorem mem_of_onFile {l : List (Nat × Nat)} {v : List Nat} {emit : Nat → List (Nat × Nat)}
    (h : ∀ x, onFile x l = if x ∈ v then emit x else []) (q : Nat × Nat) :
    q ∈ l ↔ q.1 ∈ v ∧ q ∈ emit q.1 := by
  constructor
  · intro hq
    have hm : q ∈ onFile q.1 l := mem_onFile.2 ⟨hq, rfl⟩
    rw [h q.1] at hm
    split at hm
    · rename_i hv; exact ⟨hv, hm⟩
    · simp at hm
  · rintro ⟨hv, hq⟩
    have : q ∈ onFile q.1 l := by rw [h q.1, if_pos hv]; exact hq
    exact (mem_onFile.1 this).1

/-- a file's contributions to the two lists never overlap -/
theorem emitP_emitE_disjoint (files : List File) (x : Nat) : ∀ a ∈ emitP files x, ∀ b ∈ emitE files x, a ≠ b := by
  intro a ha b hb hab
  subst hab
  obtain ⟨_, file, hf, _, _, h⟩ := (mem_emitP files x a).1 ha
  obtain ⟨_, file', p, hf', _, _, hcs, _, _, h'⟩ := (mem_emitE files x a).1 hb
  rw [hf] at hf'; cases hf'
  rcases h with ⟨_, h0, hne, _⟩ | ⟨hn, _⟩
  · rcases h' with h' | h'
    · exact hne h'
    · exact h'.2 h0
  · rw [hcs] at hn; cases hn

/-- a computable test that `PBefore` implies (used to refute `PBefore` on concrete lists) -/
def beforeB : List (Nat × Nat) → Nat × Nat → Nat × Nat → Bool
  | [], _, _ => false
  | z :: t, y, x => (z == y && t.contains x) || beforeB t y x

theorem PBefore.beforeB {l : List (Nat × Nat)} {y x : Nat × Nat} (h : PBefore l y x) : beforeB l y x = true := by
  obtain ⟨l1, l2, rfl, hy⟩ := h
  induction l1 with
  | nil => simp at hy
  | cons z l1 ih =>
    simp only [List.cons_append, Order.beforeB, Bool.or_eq_true, Bool.and_eq_true]
    by_cases hz : z = y
    · left; subst hz; simp
    · right
      rcases List.mem_cons.1 hy with h | h
      · exact absurd h.symm hz
      · exact ih h
