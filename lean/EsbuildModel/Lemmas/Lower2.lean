import EsbuildModel.Impl.Lower2
/-!
Helper lemmas for Props/C05Assign.lean: sequencing, which temporaries an emitted expression can write
(`bound`, `evalT_tm`), what the lowering allocates (`lowerC_bound`), which user variables an evaluation can
change (`Keeps`, `evalC_keeps`), captured values (`capture_spec`).
-/
namespace EsbuildModel.Lower2

@[simp] theorem bindR_err {σ : Type} (x : Exc) (s : σ) (f : Val → σ → Res × σ) : bindR (.err x, s) f = (.err x, s) := rfl
@[simp] theorem bindR_val {σ : Type} (v : Val) (s : σ) (f : Val → σ → Res × σ) : bindR (.val v, s) f = f v s := rfl

theorem bindR_eq {σ : Type} (r : Res × σ) (f : Val → σ → Res × σ) :
    bindR r f = match r.1 with | .err x => (.err x, r.2) | .val v => f v r.2 := by
  obtain ⟨a, s⟩ := r
  cases a <;> rfl

@[simp] theorem liftH_fst (f : H → Res × H) (s : TState) : (liftH f s).1 = (f s.h).1 := rfl
@[simp] theorem liftH_h (f : H → Res × H) (s : TState) : (liftH f s).2.h = (f s.h).2 := rfl
@[simp] theorem liftH_tm (f : H → Res × H) (s : TState) : (liftH f s).2.tm = s.tm := rfl

@[simp] theorem upd_same (f : Nat → Val) (k : Nat) (v : Val) : upd f k v k = v := by simp [upd]
theorem upd_other (f : Nat → Val) (k j : Nat) (v : Val) (h : j ≠ k) : upd f k v j = f j := by simp [upd, h]

-- ---------------------------------------------------------------- temporaries written by an emitted expression

/-- a strict upper bound of the temporaries an emitted expression assigns -/
def bound : T → Nat
  | .id _ => 0
  | .lit _ => 0
  | .tmp _ => 0
  | .call _ a => bound a
  | .dot o _ => bound o
  | .idx o k => max (bound o) (bound k)
  | .assign k e => max (k + 1) (bound e)
  | .ifEqNull c y n => max (bound c) (max (bound y) (bound n))
  | .ifNeNull c y n => max (bound c) (max (bound y) (bound n))
  | .or a b => max (bound a) (bound b)
  | .and a b => max (bound a) (bound b)
  | .setVar _ e => bound e
  | .setDot o _ e => max (bound o) (bound e)
  | .setIdx o k e => max (bound o) (max (bound k) (bound e))
  | .pow a b => max (bound a) (bound b)
  | .concat b s _ => max (bound b) (bound s)
  | .this => 0
  | .callV f _ a b c => max (bound f) (max (bound a) (max (bound b) (bound c)))
  | .callDot o _ _ a b c => max (bound o) (max (bound a) (max (bound b) (bound c)))
  | .callIdx o k _ a b c => max (bound o) (max (bound k) (max (bound a) (max (bound b) (bound c))))
  | .callCall f t _ a b c => max (bound f) (max (bound t) (max (bound a) (max (bound b) (bound c))))
  | .delDot o _ => bound o
  | .delIdx o k => max (bound o) (bound k)
  | .delV e => bound e
  | .tcell _ => 0
  | .setCell _ e => bound e
  | .mkTpl _ _ => 0

/-- a state property that every argument evaluation preserves is preserved by the evaluation of the list -/
theorem args3_inv {σ : Type} (Q : σ → Prop) (n : Nat) (fa fb fc : σ → Res × σ)
    (ha : ∀ s, Q s → Q (fa s).2) (hb : ∀ s, Q s → Q (fb s).2) (hc : ∀ s, Q s → Q (fc s).2) (s : σ) (hs : Q s) :
    Q (args3 n fa fb fc s).2 := by
  unfold args3
  split
  · exact hs
  · have h1 := ha s hs
    split <;> rename_i heq <;> rw [heq] at h1
    · exact h1
    · split
      · exact h1
      · rename_i s1 _ _
        have h2 := hb s1 h1
        split <;> rename_i heq2 <;> rw [heq2] at h2
        · exact h2
        · split
          · exact h2
          · rename_i s2 _ _
            have h3 := hc s2 h2
            split <;> rename_i heq3 <;> rw [heq3] at h3 <;> exact h3

theorem callWithT_tm (w : World) (fv tv : Val) (fargs : TState → ARes × TState) (s s0 : TState) (k : Nat)
    (h : (fargs s).2.tm k = s0.tm k) : (callWithT w fv tv fargs s).2.tm k = s0.tm k := by
  unfold callWithT
  split <;> rename_i heq <;> rw [heq] at h
  · exact h
  · simpa using h

/-- sequencing preserves "temporary k is untouched" -/
theorem bindR_tm (r : Res × TState) (f : Val → TState → Res × TState) (s : TState) (k : Nat)
    (h1 : r.2.tm k = s.tm k) (h2 : ∀ v s1, s1.tm k = s.tm k → (f v s1).2.tm k = s.tm k) :
    (bindR r f).2.tm k = s.tm k := by
  obtain ⟨a, s1⟩ := r
  cases a with
  | err x => exact h1
  | val v => exact h2 v s1 h1

theorem evalT_tm (w : World) : ∀ (t : T) (s : TState) (k : Nat), bound t ≤ k → (evalT w t s).2.tm k = s.tm k := by
  intro t
  induction t with
  | id x => intro s k _; rfl
  | lit v => intro s k _; rfl
  | tmp j => intro s k _; rfl
  | call f a ih =>
    intro s k hk
    simp only [bound] at hk
    simp only [evalT]
    exact bindR_tm _ _ s k (ih s k hk) (fun v s1 h1 => by simpa using h1)
  | dot o p ih =>
    intro s k hk
    simp only [bound] at hk
    simp only [evalT]
    exact bindR_tm _ _ s k (ih s k hk) (fun v s1 h1 => by simpa using h1)
  | idx o kk iho ihk =>
    intro s k hk
    simp only [bound, Nat.max_le] at hk
    simp only [evalT]
    refine bindR_tm _ _ s k (iho s k hk.1) (fun v s1 h1 => ?_)
    refine bindR_tm _ _ s k ((ihk s1 k hk.2).trans h1) (fun v s2 h2 => by simpa using h2)
  | assign j e ih =>
    intro s k hk
    simp only [bound, Nat.max_le] at hk
    simp only [evalT]
    refine bindR_tm _ _ s k (ih s k hk.2) (fun v s1 h1 => ?_)
    simp only
    rw [upd_other _ _ _ _ (by omega)]
    exact h1
  | ifEqNull c y n ihc ihy ihn =>
    intro s k hk
    simp only [bound, Nat.max_le] at hk
    simp only [evalT]
    refine bindR_tm _ _ s k (ihc s k hk.1) (fun v s1 h1 => ?_)
    split
    · exact (ihy s1 k hk.2.1).trans h1
    · exact (ihn s1 k hk.2.2).trans h1
  | ifNeNull c y n ihc ihy ihn =>
    intro s k hk
    simp only [bound, Nat.max_le] at hk
    simp only [evalT]
    refine bindR_tm _ _ s k (ihc s k hk.1) (fun v s1 h1 => ?_)
    split
    · exact (ihn s1 k hk.2.2).trans h1
    · exact (ihy s1 k hk.2.1).trans h1
  | or a b iha ihb =>
    intro s k hk
    simp only [bound, Nat.max_le] at hk
    simp only [evalT]
    refine bindR_tm _ _ s k (iha s k hk.1) (fun v s1 h1 => ?_)
    split
    · exact h1
    · exact (ihb s1 k hk.2).trans h1
  | and a b iha ihb =>
    intro s k hk
    simp only [bound, Nat.max_le] at hk
    simp only [evalT]
    refine bindR_tm _ _ s k (iha s k hk.1) (fun v s1 h1 => ?_)
    split
    · exact (ihb s1 k hk.2).trans h1
    · exact h1
  | setVar x e ih =>
    intro s k hk
    simp only [bound] at hk
    simp only [evalT]
    exact bindR_tm _ _ s k (ih s k hk) (fun v s1 h1 => by simpa using h1)
  | setDot o p e iho ihe =>
    intro s k hk
    simp only [bound, Nat.max_le] at hk
    simp only [evalT]
    refine bindR_tm _ _ s k (iho s k hk.1) (fun v s1 h1 => ?_)
    exact bindR_tm _ _ s k ((ihe s1 k hk.2).trans h1) (fun v s2 h2 => by simpa using h2)
  | setIdx o kk e iho ihk ihe =>
    intro s k hk
    simp only [bound, Nat.max_le] at hk
    simp only [evalT]
    refine bindR_tm _ _ s k (iho s k hk.1) (fun v s1 h1 => ?_)
    refine bindR_tm _ _ s k ((ihk s1 k hk.2.1).trans h1) (fun v s2 h2 => ?_)
    exact bindR_tm _ _ s k ((ihe s2 k hk.2.2).trans h2) (fun v s3 h3 => by simpa using h3)
  | pow a b iha ihb =>
    intro s k hk
    simp only [bound, Nat.max_le] at hk
    simp only [evalT]
    refine bindR_tm _ _ s k (iha s k hk.1) (fun v s1 h1 => ?_)
    exact bindR_tm _ _ s k ((ihb s1 k hk.2).trans h1) (fun v s2 h2 => by simpa using h2)
  | concat b sub tail ihb ihs =>
    intro s k hk
    simp only [bound, Nat.max_le] at hk
    simp only [evalT]
    refine bindR_tm _ _ s k (ihb s k hk.1) (fun v s1 h1 => ?_)
    split
    · refine bindR_tm _ _ s k ((ihs s1 k hk.2).trans h1) (fun v s2 h2 => ?_)
      refine bindR_tm _ _ s k (by simpa using h2) (fun t s3 h3 => ?_)
      split <;> exact h3
    · exact h1
  | this => intro s k _; rfl
  | tcell site => intro s k _; rfl
  | mkTpl site strs => intro s k _; rfl
  | callV f n a b c ihf iha ihb ihc =>
    intro s k hk
    simp only [bound, Nat.max_le] at hk
    simp only [evalT]
    refine bindR_tm _ _ s k (ihf s k hk.1) (fun v s1 h1 => ?_)
    exact callWithT_tm w _ _ _ s1 s k (args3_inv (fun s' : TState => s'.tm k = s.tm k) n _ _ _
      (fun s' h' => (iha s' k hk.2.1).trans h') (fun s' h' => (ihb s' k hk.2.2.1).trans h')
      (fun s' h' => (ihc s' k hk.2.2.2).trans h') s1 h1)
  | callDot o p n a b c iho iha ihb ihc =>
    intro s k hk
    simp only [bound, Nat.max_le] at hk
    simp only [evalT]
    refine bindR_tm _ _ s k (iho s k hk.1) (fun v s1 h1 => ?_)
    refine bindR_tm _ _ s k (by simpa using h1) (fun fv s2 h2 => ?_)
    exact callWithT_tm w _ _ _ s2 s k (args3_inv (fun s' : TState => s'.tm k = s.tm k) n _ _ _
      (fun s' h' => (iha s' k hk.2.1).trans h') (fun s' h' => (ihb s' k hk.2.2.1).trans h')
      (fun s' h' => (ihc s' k hk.2.2.2).trans h') s2 h2)
  | callIdx o kk n a b c iho ihk iha ihb ihc =>
    intro s k hk
    simp only [bound, Nat.max_le] at hk
    simp only [evalT]
    refine bindR_tm _ _ s k (iho s k hk.1) (fun v s1 h1 => ?_)
    refine bindR_tm _ _ s k ((ihk s1 k hk.2.1).trans h1) (fun kv s2 h2 => ?_)
    refine bindR_tm _ _ s k (by simpa using h2) (fun fv s3 h3 => ?_)
    exact callWithT_tm w _ _ _ s3 s k (args3_inv (fun s' : TState => s'.tm k = s.tm k) n _ _ _
      (fun s' h' => (iha s' k hk.2.2.1).trans h') (fun s' h' => (ihb s' k hk.2.2.2.1).trans h')
      (fun s' h' => (ihc s' k hk.2.2.2.2).trans h') s3 h3)
  | callCall f t n a b c ihf iht iha ihb ihc =>
    intro s k hk
    simp only [bound, Nat.max_le] at hk
    simp only [evalT]
    refine bindR_tm _ _ s k (ihf s k hk.1) (fun v s1 h1 => ?_)
    split
    · exact h1
    · refine bindR_tm _ _ s k ((iht s1 k hk.2.1).trans h1) (fun tv s2 h2 => ?_)
      exact callWithT_tm w _ _ _ s2 s k (args3_inv (fun s' : TState => s'.tm k = s.tm k) n _ _ _
        (fun s' h' => (iha s' k hk.2.2.1).trans h') (fun s' h' => (ihb s' k hk.2.2.2.1).trans h')
        (fun s' h' => (ihc s' k hk.2.2.2.2).trans h') s2 h2)
  | delDot o p ih =>
    intro s k hk
    simp only [bound] at hk
    simp only [evalT]
    exact bindR_tm _ _ s k (ih s k hk) (fun v s1 h1 => by simpa using h1)
  | delIdx o kk iho ihk =>
    intro s k hk
    simp only [bound, Nat.max_le] at hk
    simp only [evalT]
    refine bindR_tm _ _ s k (iho s k hk.1) (fun v s1 h1 => ?_)
    refine bindR_tm _ _ s k ((ihk s1 k hk.2).trans h1) (fun v s2 h2 => by simpa using h2)
  | delV e ih =>
    intro s k hk
    simp only [bound] at hk
    simp only [evalT]
    exact bindR_tm _ _ s k (ih s k hk) (fun v s1 h1 => h1)
  | setCell site e ih =>
    intro s k hk
    simp only [bound] at hk
    simp only [evalT]
    refine bindR_tm _ _ s k (ih s k hk) (fun v s1 h1 => ?_)
    split
    · split <;> exact h1
    · exact h1

-- ---------------------------------------------------------------- temporaries allocated by the lowering

theorem capture_next (full : T) (n : Nat) : n ≤ (capture full n).2.2 ∧ (capture full n).2.2 ≤ n + 1 := by
  cases full <;> simp [capture]

theorem capture_bound1 (full : T) (n : Nat) : bound (capture full n).1 ≤ max (bound full) (capture full n).2.2 := by
  cases full <;> simp [capture, bound] <;> omega

theorem capture_bound2 (full : T) (n : Nat) : bound (capture full n).2.1 = 0 := by
  cases full <;> simp [capture, bound]

def PendBound (p : Option T) (m : Nat) : Prop :=
  match p with
  | none => True
  | some t => bound t ≤ m

theorem bound_fin_le (acc : T) (pend : Option T) (m : Nat) (h1 : bound acc ≤ m) (h2 : PendBound pend m) :
    bound (fin acc pend) ≤ m := by
  cases pend with
  | none => exact h1
  | some t =>
    simp only [PendBound] at h2
    simp only [fin, bound]
    omega

theorem pendBound_mono (p : Option T) (m m' : Nat) (h : PendBound p m) (hm : m ≤ m') : PendBound p m' := by
  cases p with
  | none => trivial
  | some t => simp only [PendBound] at h ⊢; omega

theorem bound_finD_le (acc : T) (pend : Option T) (m : Nat) (h1 : bound acc ≤ m) (h2 : PendBound pend m) :
    bound (finD acc pend) ≤ m := by
  cases pend with
  | none => exact h1
  | some t =>
    simp only [PendBound] at h2
    simp only [finD, bound]
    omega

theorem targs_bound (tpl : Option TplSite) (n : Nat) (A B : T) (m : Nat) (hA : bound A ≤ m) (hB : bound B ≤ m) :
    bound (targs tpl n A B).2.1 ≤ m ∧ bound (targs tpl n A B).2.2.1 ≤ m ∧ bound (targs tpl n A B).2.2.2 ≤ m := by
  cases tpl <;> simp [targs, tplExpr, bound, hA, hB]

theorem linkT_bound (lk : Link) (o K : T) (m : Nat) (ho : bound o ≤ m) (hK : bound K ≤ m) : bound (linkT lk o K) ≤ m := by
  cases lk <;> simp only [linkT, bound] <;> omega

theorem delT_bound (lk : Link) (o K : T) (m : Nat) (ho : bound o ≤ m) (hK : bound K ≤ m) : bound (delT lk o K) ≤ m := by
  cases lk <;> simp only [delT, bound] <;> omega

theorem callM_bound (lk : Link) (o K : T) (g : Nat × T × T × T) (m : Nat) (ho : bound o ≤ m) (hK : bound K ≤ m)
    (h1 : bound g.2.1 ≤ m) (h2 : bound g.2.2.1 ≤ m) (h3 : bound g.2.2.2 ≤ m) : bound (callM lk o K g) ≤ m := by
  cases lk <;> simp only [callM, bound] <;> omega

theorem memStore_bound (optLink : Bool) (lk : Link) (oacc : T) (opend : Option T) (K : T) (m : Nat)
    (ho : bound oacc ≤ m) (hp : PendBound opend m) (hK : bound K ≤ m) :
    m ≤ (memStore optLink lk oacc opend K m).2.2.2 ∧
    bound (memStore optLink lk oacc opend K m).1 ≤ (memStore optLink lk oacc opend K m).2.2.2 ∧
    PendBound (memStore optLink lk oacc opend K m).2.1 (memStore optLink lk oacc opend K m).2.2.2 ∧
    bound (memStore optLink lk oacc opend K m).2.2.1 = 0 := by
  cases optLink with
  | false =>
    have c1 := capture_next oacc m
    have c2 := capture_bound1 oacc m
    have c3 := capture_bound2 oacc m
    simp only [memStore]
    refine ⟨c1.1, linkT_bound _ _ _ _ (by omega) (by omega), pendBound_mono _ _ _ hp c1.1, c3⟩
  | true =>
    have hf := bound_fin_le _ _ _ ho hp
    have c1 := capture_next (fin oacc opend) m
    have c2 := capture_bound1 (fin oacc opend) m
    have c3 := capture_bound2 (fin oacc opend) m
    simp only [memStore]
    refine ⟨c1.1, linkT_bound _ _ _ _ (by omega) (by omega), ?_, c3⟩
    simp only [PendBound]
    omega

theorem mcallLower_bound (mode : CMode) (optLink : Bool) (lk : Link) (oacc : T) (opend : Option T) (K : T)
    (g : Nat × T × T × T) (m : Nat) (ho : bound oacc ≤ m) (hp : PendBound opend m) (hK : bound K ≤ m)
    (h1 : bound g.2.1 ≤ m) (h2 : bound g.2.2.1 ≤ m) (h3 : bound g.2.2.2 ≤ m) :
    m ≤ (mcallLower mode optLink lk oacc opend K g m).2.2 ∧
    bound (mcallLower mode optLink lk oacc opend K g m).1 ≤ (mcallLower mode optLink lk oacc opend K g m).2.2 ∧
    PendBound (mcallLower mode optLink lk oacc opend K g m).2.1 (mcallLower mode optLink lk oacc opend K g m).2.2 := by
  cases mode with
  | plain =>
    cases optLink with
    | false =>
      simp only [mcallLower]
      exact ⟨Nat.le_refl _, callM_bound _ _ _ _ _ ho hK h1 h2 h3, hp⟩
    | true =>
      have hf := bound_fin_le _ _ _ ho hp
      have c1 := capture_next (fin oacc opend) m
      have c2 := capture_bound1 (fin oacc opend) m
      have c3 := capture_bound2 (fin oacc opend) m
      simp only [mcallLower]
      refine ⟨c1.1, callM_bound _ _ _ _ _ (by omega) (by omega) (by omega) (by omega) (by omega), ?_⟩
      simp only [PendBound]
      omega
  | opt =>
    obtain ⟨s1, s2, s3, s4⟩ := memStore_bound optLink lk oacc opend K m ho hp hK
    simp only [mcallLower]
    generalize memStore optLink lk oacc opend K m = ms at s1 s2 s3 s4 ⊢
    have hf := bound_fin_le _ _ _ s2 s3
    have c1 := capture_next (fin ms.1 ms.2.1) ms.2.2.2
    have c2 := capture_bound1 (fin ms.1 ms.2.1) ms.2.2.2
    have c3 := capture_bound2 (fin ms.1 ms.2.1) ms.2.2.2
    refine ⟨by omega, ?_, ?_⟩
    · simp only [bound]; omega
    · simp only [PendBound]; omega
  | paren =>
    obtain ⟨s1, s2, s3, s4⟩ := memStore_bound optLink lk oacc opend K m ho hp hK
    simp only [mcallLower]
    generalize memStore optLink lk oacc opend K m = ms at s1 s2 s3 s4 ⊢
    have hf := bound_fin_le _ _ _ s2 s3
    refine ⟨s1, ?_, trivial⟩
    simp only [bound]; omega

theorem bound_write (a : TT) (r : T) : bound (a.write r) = max (bound a.read) (bound r) := by
  cases a <;> simp [TT.write, TT.read, bound, Nat.max_assoc]

theorem opCallback_bound (op : AOp) (a b : TT) (r : T) (n m : Nat)
    (ha : bound a.read ≤ m) (hb : bound b.read ≤ m) (hr : bound r ≤ m) (hm : (opCallback op a b r n).2 ≤ m) :
    bound (opCallback op a b r n).1 ≤ m := by
  cases op with
  | or => simp only [opCallback, bound, bound_write]; omega
  | and => simp only [opCallback, bound, bound_write]; omega
  | pow => simp only [opCallback, bound, bound_write]; omega
  | nul =>
    simp only [opCallback] at hm ⊢
    have h1 := capture_bound1 a.read n
    have h2 := capture_bound2 a.read n
    simp only [bound, bound_write]
    omega

theorem opCallback_next (op : AOp) (a b : TT) (r : T) (n : Nat) :
    n ≤ (opCallback op a b r n).2 ∧ (opCallback op a b r n).2 ≤ n + 1 := by
  cases op <;> simp [opCallback]
  exact capture_next _ _

theorem lowerC_bound : ∀ (e : S) (n : Nat),
    n ≤ (lowerC e n).2.2 ∧ bound (lowerC e n).1 ≤ (lowerC e n).2.2 ∧ PendBound (lowerC e n).2.1 (lowerC e n).2.2 := by
  intro e
  induction e with
  | id x => intro n; simp [lowerC, bound, PendBound]
  | lit v => intro n; simp [lowerC, bound, PendBound]
  | tstr s => intro n; simp [lowerC, bound, PendBound]
  | call f a ih =>
    intro n
    obtain ⟨h1, h2, h3⟩ := ih n
    simp only [lowerC, bound, PendBound]
    exact ⟨h1, bound_fin_le _ _ _ h2 h3, trivial⟩
  | dot o p ih =>
    intro n
    obtain ⟨h1, h2, h3⟩ := ih n
    simp only [lowerC, bound]
    exact ⟨h1, h2, h3⟩
  | paren a ih =>
    intro n
    obtain ⟨h1, h2, h3⟩ := ih n
    simp only [lowerC, PendBound]
    exact ⟨h1, bound_fin_le _ _ _ h2 h3, trivial⟩
  | optDot o p ih =>
    intro n
    obtain ⟨h1, h2, h3⟩ := ih n
    have hf := bound_fin_le _ _ _ h2 h3
    have c1 := capture_next (fin (lowerC o n).1 (lowerC o n).2.1) (lowerC o n).2.2
    have c2 := capture_bound1 (fin (lowerC o n).1 (lowerC o n).2.1) (lowerC o n).2.2
    have c3 := capture_bound2 (fin (lowerC o n).1 (lowerC o n).2.1) (lowerC o n).2.2
    simp only [lowerC, bound, PendBound]
    omega
  | idx o k iho ihk =>
    intro n
    obtain ⟨h1, h2, h3⟩ := iho n
    obtain ⟨k1, k2, k3⟩ := ihk (lowerC o n).2.2
    have hf := bound_fin_le _ _ _ k2 k3
    simp only [lowerC, bound]
    refine ⟨by omega, by omega, ?_⟩
    cases hp : (lowerC o n).2.1 with
    | none => trivial
    | some t => rw [hp] at h3; simp only [PendBound] at h3 ⊢; omega
  | nullish a b iha ihb =>
    intro n
    obtain ⟨h1, h2, h3⟩ := iha n
    obtain ⟨k1, k2, k3⟩ := ihb (lowerC a n).2.2
    have hfa := bound_fin_le _ _ _ h2 h3
    have hfb := bound_fin_le _ _ _ k2 k3
    have c1 := capture_next (fin (lowerC a n).1 (lowerC a n).2.1) (lowerC b (lowerC a n).2.2).2.2
    have c2 := capture_bound1 (fin (lowerC a n).1 (lowerC a n).2.1) (lowerC b (lowerC a n).2.2).2.2
    have c3 := capture_bound2 (fin (lowerC a n).1 (lowerC a n).2.1) (lowerC b (lowerC a n).2.2).2.2
    simp only [lowerC, bound, PendBound]
    exact ⟨by omega, by omega, trivial⟩
  | tcat p s tail ihp ihs =>
    intro n
    obtain ⟨h1, h2, h3⟩ := ihp n
    obtain ⟨k1, k2, k3⟩ := ihs (lowerC p n).2.2
    have hfa := bound_fin_le _ _ _ h2 h3
    have hfb := bound_fin_le _ _ _ k2 k3
    simp only [lowerC, bound, PendBound]
    exact ⟨by omega, by omega, trivial⟩
  | asgVar x op r ih =>
    intro n
    obtain ⟨h1, h2, h3⟩ := ih n
    have hf := bound_fin_le _ _ _ h2 h3
    have o1 := opCallback_next op (.var x) (.var x) (fin (lowerC r n).1 (lowerC r n).2.1) (lowerC r n).2.2
    simp only [lowerC, PendBound]
    refine ⟨by omega, ?_, trivial⟩
    apply opCallback_bound <;> (try simp only [TT.read, bound]) <;> omega
  | asgDot o p op r iho ihr =>
    intro n
    obtain ⟨h1, h2, h3⟩ := iho n
    obtain ⟨k1, k2, k3⟩ := ihr (lowerC o n).2.2
    have hfo := bound_fin_le _ _ _ h2 h3
    have hfr := bound_fin_le _ _ _ k2 k3
    have c1 := capture_next (fin (lowerC o n).1 (lowerC o n).2.1) (lowerC r (lowerC o n).2.2).2.2
    have c2 := capture_bound1 (fin (lowerC o n).1 (lowerC o n).2.1) (lowerC r (lowerC o n).2.2).2.2
    have c3 := capture_bound2 (fin (lowerC o n).1 (lowerC o n).2.1) (lowerC r (lowerC o n).2.2).2.2
    simp only [lowerC, PendBound]
    generalize hc : capture (fin (lowerC o n).1 (lowerC o n).2.1) (lowerC r (lowerC o n).2.2).2.2 = c at c1 c2 c3 ⊢
    have o1 := opCallback_next op (.dot c.1 p) (.dot c.2.1 p)
      (fin (lowerC r (lowerC o n).2.2).1 (lowerC r (lowerC o n).2.2).2.1) c.2.2
    refine ⟨by omega, ?_, trivial⟩
    apply opCallback_bound <;> (try simp only [TT.read, bound]) <;> omega
  | asgIdx o k op r iho ihk ihr =>
    intro n
    obtain ⟨h1, h2, h3⟩ := iho n
    obtain ⟨j1, j2, j3⟩ := ihk (lowerC o n).2.2
    obtain ⟨k1, k2, k3⟩ := ihr (lowerC k (lowerC o n).2.2).2.2
    have hfo := bound_fin_le _ _ _ h2 h3
    have hfk := bound_fin_le _ _ _ j2 j3
    have hfr := bound_fin_le _ _ _ k2 k3
    simp only [lowerC, PendBound]
    generalize (lowerC r (lowerC k (lowerC o n).2.2).2.2) = rr at k1 k2 k3 hfr ⊢
    generalize (lowerC k (lowerC o n).2.2) = rk at j1 j2 j3 hfk k1 ⊢
    generalize (lowerC o n) = ro at h1 h2 h3 hfo j1 ⊢
    have c1 := capture_next (fin ro.1 ro.2.1) rr.2.2
    have c2 := capture_bound1 (fin ro.1 ro.2.1) rr.2.2
    have c3 := capture_bound2 (fin ro.1 ro.2.1) rr.2.2
    generalize capture (fin ro.1 ro.2.1) rr.2.2 = co at c1 c2 c3 ⊢
    have d1 := capture_next (fin rk.1 rk.2.1) co.2.2
    have d2 := capture_bound1 (fin rk.1 rk.2.1) co.2.2
    have d3 := capture_bound2 (fin rk.1 rk.2.1) co.2.2
    generalize capture (fin rk.1 rk.2.1) co.2.2 = ck at d1 d2 d3 ⊢
    have o1 := opCallback_next op (.idx co.1 ck.1) (.idx co.2.1 ck.2.1) (fin rr.1 rr.2.1) ck.2.2
    refine ⟨by omega, ?_, trivial⟩
    apply opCallback_bound <;> (try simp only [TT.read, bound]) <;> omega
  | this => intro n; simp [lowerC, bound, PendBound]
  | optIdx o k iho ihk =>
    intro n
    obtain ⟨h1, h2, h3⟩ := iho n
    obtain ⟨k1, k2, k3⟩ := ihk (lowerC o n).2.2
    have hfo := bound_fin_le _ _ _ h2 h3
    have hfk := bound_fin_le _ _ _ k2 k3
    simp only [lowerC]
    generalize lowerC k (lowerC o n).2.2 = rk at k1 k2 k3 hfk ⊢
    generalize lowerC o n = ro at h1 h2 h3 hfo k1 ⊢
    have c1 := capture_next (fin ro.1 ro.2.1) rk.2.2
    have c2 := capture_bound1 (fin ro.1 ro.2.1) rk.2.2
    have c3 := capture_bound2 (fin ro.1 ro.2.1) rk.2.2
    simp only [bound, PendBound]
    omega
  | vcall opt tpl f nn a b ihf iha ihb =>
    intro n
    obtain ⟨f1, f2, f3⟩ := ihf n
    obtain ⟨a1, a2, a3⟩ := iha (lowerC f n).2.2
    obtain ⟨b1, b2, b3⟩ := ihb (lowerC a (lowerC f n).2.2).2.2
    have hfa := bound_fin_le _ _ _ a2 a3
    have hfb := bound_fin_le _ _ _ b2 b3
    simp only [lowerC]
    generalize lowerC b (lowerC a (lowerC f n).2.2).2.2 = rb at b1 b2 b3 hfb ⊢
    generalize lowerC a (lowerC f n).2.2 = ra at a1 a2 a3 hfa b1 ⊢
    generalize lowerC f n = rf at f1 f2 f3 a1 ⊢
    obtain ⟨g1, g2, g3⟩ := targs_bound tpl nn (fin ra.1 ra.2.1) (fin rb.1 rb.2.1) rb.2.2 (by omega) hfb
    generalize targs tpl nn (fin ra.1 ra.2.1) (fin rb.1 rb.2.1) = g at g1 g2 g3 ⊢
    cases opt with
    | false =>
      simp only
      refine ⟨by omega, ?_, pendBound_mono _ _ _ f3 (by omega)⟩
      simp only [bound]; omega
    | true =>
      simp only
      have hff := bound_fin_le _ _ _ f2 f3
      have c1 := capture_next (fin rf.1 rf.2.1) rb.2.2
      have c2 := capture_bound1 (fin rf.1 rf.2.1) rb.2.2
      have c3 := capture_bound2 (fin rf.1 rf.2.1) rb.2.2
      simp only [bound, PendBound]
      omega
  | mcall mode tpl optLink lk o k nn a b iho ihk iha ihb =>
    intro n
    obtain ⟨o1, o2, o3⟩ := iho n
    obtain ⟨k1, k2, k3⟩ := ihk (lowerC o n).2.2
    obtain ⟨a1, a2, a3⟩ := iha (lowerC k (lowerC o n).2.2).2.2
    obtain ⟨b1, b2, b3⟩ := ihb (lowerC a (lowerC k (lowerC o n).2.2).2.2).2.2
    have hfk := bound_fin_le _ _ _ k2 k3
    have hfa := bound_fin_le _ _ _ a2 a3
    have hfb := bound_fin_le _ _ _ b2 b3
    simp only [lowerC]
    generalize lowerC b (lowerC a (lowerC k (lowerC o n).2.2).2.2).2.2 = rb at b1 b2 b3 hfb ⊢
    generalize lowerC a (lowerC k (lowerC o n).2.2).2.2 = ra at a1 a2 a3 hfa b1 ⊢
    generalize lowerC k (lowerC o n).2.2 = rk at k1 k2 k3 hfk a1 ⊢
    generalize lowerC o n = ro at o1 o2 o3 k1 ⊢
    obtain ⟨g1, g2, g3⟩ := targs_bound tpl nn (fin ra.1 ra.2.1) (fin rb.1 rb.2.1) rb.2.2 (by omega) hfb
    have := mcallLower_bound mode optLink lk ro.1 ro.2.1 (fin rk.1 rk.2.1)
      (targs tpl nn (fin ra.1 ra.2.1) (fin rb.1 rb.2.1)) rb.2.2 (by omega) (pendBound_mono _ _ _ o3 (by omega))
      (by omega) g1 g2 g3
    exact ⟨by omega, this.2.1, this.2.2⟩
  | del optLink lk o k iho ihk =>
    intro n
    obtain ⟨h1, h2, h3⟩ := iho n
    obtain ⟨k1, k2, k3⟩ := ihk (lowerC o n).2.2
    have hfo := bound_fin_le _ _ _ h2 h3
    have hfk := bound_fin_le _ _ _ k2 k3
    simp only [lowerC]
    generalize lowerC k (lowerC o n).2.2 = rk at k1 k2 k3 hfk ⊢
    generalize lowerC o n = ro at h1 h2 h3 hfo k1 ⊢
    cases optLink with
    | false =>
      simp only [PendBound]
      refine ⟨by omega, ?_, trivial⟩
      exact bound_finD_le _ _ _ (delT_bound _ _ _ _ (by omega) hfk) (pendBound_mono _ _ _ h3 k1)
    | true =>
      have c1 := capture_next (fin ro.1 ro.2.1) rk.2.2
      have c2 := capture_bound1 (fin ro.1 ro.2.1) rk.2.2
      have c3 := capture_bound2 (fin ro.1 ro.2.1) rk.2.2
      have := delT_bound lk (capture (fin ro.1 ro.2.1) rk.2.2).2.1 (fin rk.1 rk.2.1)
        (capture (fin ro.1 ro.2.1) rk.2.2).2.2 (by omega) (by omega)
      have hle : bound (fin ro.1 ro.2.1) ≤ (capture (fin ro.1 ro.2.1) rk.2.2).2.2 := by omega
      rw [Nat.max_eq_right hle] at c2
      simp only [bound, PendBound]
      exact ⟨by omega, by omega, trivial⟩
  | delVal a ih =>
    intro n
    obtain ⟨h1, h2, h3⟩ := ih n
    simp only [lowerC, PendBound]
    exact ⟨h1, bound_finD_le _ _ _ (by simpa [bound] using h2) h3, trivial⟩

-- ---------------------------------------------------------------- user variables an evaluation can change

/-- the world never reassigns the user variable `x` -/
def Keeps (w : World) (x : Nat) : Prop := ∀ ev tr env, (w.host ev tr env).2 x = env x

theorem bindR_inv {σ : Type} (P : σ → Prop) (r : Res × σ) (f : Val → σ → Res × σ)
    (h1 : P r.2) (h2 : ∀ v s1, P s1 → P (f v s1).2) : P (bindR r f).2 := by
  obtain ⟨a, s1⟩ := r
  cases a with
  | err x => exact h1
  | val v => exact h2 v s1 h1

section keeps
variable {w : World} {x : Nat} (hk : Keeps w x)
include hk

theorem doEv_keeps (ev : Ev) (h : H) : (doEv w ev h).2.env x = h.env x := by
  have := hk ev h.tr h.env
  unfold doEv
  split <;> rename_i heq <;> rw [heq] at this <;> exact this

theorem toPrim_keeps (b : Bool) (v : Val) (h : H) : (toPrim w b v h).2.env x = h.env x := by
  unfold toPrim
  split
  · refine bindR_inv (fun h' : H => h'.env x = h.env x) _ _ (doEv_keeps hk _ h) (fun p h1 hp => ?_)
    split <;> exact hp
  · rfl

theorem getProp_keeps (ov kv : Val) (h : H) : (getProp w ov kv h).2.env x = h.env x := by
  unfold getProp
  split
  · rfl
  · exact bindR_inv (fun h' : H => h'.env x = h.env x) _ _ (toPrim_keeps hk _ _ h)
      (fun p h1 hp => (doEv_keeps hk _ h1).trans hp)

theorem setProp_keeps (ov kv v : Val) (h : H) : (setProp w ov kv v h).2.env x = h.env x := by
  unfold setProp
  split
  · rfl
  · refine bindR_inv (fun h' : H => h'.env x = h.env x) _ _ (toPrim_keeps hk _ _ h) (fun p h1 hp => ?_)
    exact bindR_inv (fun h' : H => h'.env x = h.env x) _ _ ((doEv_keeps hk _ h1).trans hp) (fun _ h2 hp2 => hp2)

theorem toStr_keeps (v : Val) (h : H) : (toStr w v h).2.env x = h.env x := by
  unfold toStr
  refine bindR_inv (fun h' : H => h'.env x = h.env x) _ _ (toPrim_keeps hk _ _ h) (fun p h1 hp => ?_)
  split <;> exact hp

theorem toNumeric_keeps (v : Val) (h : H) : (toNumeric w v h).2.env x = h.env x := by
  unfold toNumeric
  refine bindR_inv (fun h' : H => h'.env x = h.env x) _ _ (toPrim_keeps hk _ _ h) (fun p h1 hp => ?_)
  split <;> exact hp

theorem powOp_keeps (l r : Val) (h : H) : (powOp w l r h).2.env x = h.env x := by
  unfold powOp
  refine bindR_inv (fun h' : H => h'.env x = h.env x) _ _ (toNumeric_keeps hk _ h) (fun p h1 hp => ?_)
  split
  · refine bindR_inv (fun h' : H => h'.env x = h.env x) _ _ ((toNumeric_keeps hk _ h1).trans hp) (fun q h2 hq => ?_)
    split <;> exact hq
  · exact hp

theorem assignOp_keeps (op : AOp) (lval : Val) (rhs : H → Res × H) (put : Val → H → Res × H)
    (h1 : ∀ h, (rhs h).2.env x = h.env x) (h2 : ∀ v h, (put v h).2.env x = h.env x) (h : H) :
    (assignOp w op lval rhs put h).2.env x = h.env x := by
  cases op <;> simp only [assignOp]
  · split
    · rfl
    · exact bindR_inv (fun h' : H => h'.env x = h.env x) _ _ (h1 h) (fun v h' hp => (h2 v h').trans hp)
  · split
    · exact bindR_inv (fun h' : H => h'.env x = h.env x) _ _ (h1 h) (fun v h' hp => (h2 v h').trans hp)
    · rfl
  · split
    · exact bindR_inv (fun h' : H => h'.env x = h.env x) _ _ (h1 h) (fun v h' hp => (h2 v h').trans hp)
    · rfl
  · refine bindR_inv (fun h' : H => h'.env x = h.env x) _ _ (h1 h) (fun v h' hp => ?_)
    exact bindR_inv (fun h' : H => h'.env x = h.env x) _ _ ((powOp_keeps hk _ _ h').trans hp)
      (fun v h'' hp' => (h2 v h'').trans hp')

end keeps

/-- the expression contains an assignment to the identifier `x` -/
def S.assigns : S → Nat → Bool
  | .id _, _ => false
  | .lit _, _ => false
  | .tstr _, _ => false
  | .call _ a, x => a.assigns x
  | .dot o _, x => o.assigns x
  | .optDot o _, x => o.assigns x
  | .paren a, x => a.assigns x
  | .idx o k, x => o.assigns x || k.assigns x
  | .nullish a b, x => a.assigns x || b.assigns x
  | .tcat p s _, x => p.assigns x || s.assigns x
  | .asgVar y _ r, x => y == x || r.assigns x
  | .asgDot o _ _ r, x => o.assigns x || r.assigns x
  | .asgIdx o k _ r, x => o.assigns x || k.assigns x || r.assigns x
  | .this, _ => false
  | .optIdx o k, x => o.assigns x || k.assigns x
  | .vcall _ _ f _ a b, x => f.assigns x || a.assigns x || b.assigns x
  | .mcall _ _ _ _ o k _ a b, x => o.assigns x || k.assigns x || a.assigns x || b.assigns x
  | .del _ _ o k, x => o.assigns x || k.assigns x
  | .delVal a, x => a.assigns x

@[simp] theorem topP_snd (r : CRes × H) : (topP r).2 = r.2 := rfl
@[simp] theorem toCP_snd (r : Res × H) : (toCP r).2 = r.2 := rfl
@[simp] theorem topP_fst (r : CRes × H) : (topP r).1 = r.1.top := rfl
@[simp] theorem toCP_fst (r : Res × H) : (toCP r).1 = r.1.toC := rfl
@[simp] theorem toC_top (r : Res) : r.toC.top = r := by cases r <;> rfl

-- ---------------------------------------------------------------- state invariants through the call / delete combinators

section inv
variable (P : H → Prop)

theorem callWith_inv (w : World) (fv tv : Val) (fargs : H → ARes × H) (h : H)
    (ha : P (fargs h).2) (hi : ∀ vs h1, P h1 → P (invoke w fv tv vs h1).2) : P (callWith w fv tv fargs h).2 := by
  unfold callWith
  split <;> rename_i heq <;> rw [heq] at ha
  · exact ha
  · exact hi _ _ ha

theorem memSem_inv (optLink : Bool) (ro : CRes × H) (get : Val → H → Res × H)
    (h1 : P ro.2) (h2 : ∀ ov h, P h → P (get ov h).2) : P (memSem optLink ro get).2 := by
  unfold memSem
  split
  · exact h1
  · exact h1
  · split
    · exact h1
    · rename_i ov h' _
      have := h2 ov h' h1
      split <;> rename_i heq <;> rw [heq] at this <;> exact this

theorem mcallSem_inv (w : World) (mode : CMode) (m : MRes × H) (fargs : H → ARes × H)
    (hm : P m.2) (hc : ∀ fv tv h, P h → P (callWith w fv tv fargs h).2) : P (mcallSem w mode m fargs).2 := by
  unfold mcallSem
  split
  · exact hm
  · split
    · exact hc _ _ _ hm
    · exact hm
  · split
    · split
      · exact hm
      · exact hc _ _ _ hm
    · exact hc _ _ _ hm

theorem vcallSem_inv (w : World) (opt : Bool) (rf : CRes × H) (fargs : H → ARes × H)
    (hm : P rf.2) (hc : ∀ fv tv h, P h → P (callWith w fv tv fargs h).2) : P (vcallSem w opt rf fargs).2 := by
  unfold vcallSem
  split
  · exact hm
  · exact hm
  · split
    · exact hm
    · exact hc _ _ _ hm

theorem delSem_inv (optLink : Bool) (ro : CRes × H) (del : Val → H → Res × H)
    (h1 : P ro.2) (h2 : ∀ ov h, P h → P (del ov h).2) : P (delSem optLink ro del).2 := by
  unfold delSem
  split
  · exact h1
  · exact h1
  · split
    · exact h1
    · exact h2 _ _ h1

theorem delValSem_inv (r : CRes × H) (h1 : P r.2) : P (delValSem r).2 := by
  unfold delValSem
  split <;> exact h1

theorem argsS_inv (tpl : Option TplSite) (n : Nat) (fa fb : H → Res × H)
    (ht : ∀ site h, P h → P (getTpl site h).2)
    (ha : ∀ h, P h → P (fa h).2) (hb : ∀ h, P h → P (fb h).2) (h : H) (hp : P h) : P (argsS tpl n fa fb h).2 := by
  unfold argsS
  split
  · exact args3_inv P _ _ _ _ ha hb hb h hp
  · exact args3_inv P _ _ _ _ (ht _) ha hb h hp

end inv

section keeps2
variable {w : World} {x : Nat} (hk : Keeps w x)
include hk

theorem invoke_keeps (fv tv : Val) (vs : List Val) (h : H) : (invoke w fv tv vs h).2.env x = h.env x := by
  unfold invoke
  split
  · exact doEv_keeps hk _ h
  · rfl

theorem delProp_keeps (ov kv : Val) (h : H) : (delProp w ov kv h).2.env x = h.env x := by
  unfold delProp
  split
  · rfl
  · refine bindR_inv (fun h' : H => h'.env x = h.env x) _ _ (toPrim_keeps hk _ _ h) (fun p h1 hp => ?_)
    exact bindR_inv (fun h' : H => h'.env x = h.env x) _ _ ((doEv_keeps hk _ h1).trans hp) (fun _ h2 hp2 => hp2)

omit hk in
theorem getTpl_env (site : Nat) (h : H) : (getTpl site h).2.env = h.env := by
  unfold getTpl
  split <;> rfl

theorem linkGet_keeps (lk : Link) (fk : H → Res × H) (hfk : ∀ h, (fk h).2.env x = h.env x) (ov : Val) (h : H) :
    (linkGet w lk fk ov h).2.env x = h.env x := by
  cases lk with
  | dot p => exact getProp_keeps hk _ _ h
  | idx =>
    simp only [linkGet]
    exact bindR_inv (fun h' : H => h'.env x = h.env x) _ _ (hfk h) (fun kv h1 hp => (getProp_keeps hk _ _ h1).trans hp)

theorem linkDel_keeps (lk : Link) (fk : H → Res × H) (hfk : ∀ h, (fk h).2.env x = h.env x) (ov : Val) (h : H) :
    (linkDel w lk fk ov h).2.env x = h.env x := by
  cases lk with
  | dot p => exact delProp_keeps hk _ _ h
  | idx =>
    simp only [linkDel]
    exact bindR_inv (fun h' : H => h'.env x = h.env x) _ _ (hfk h) (fun kv h1 hp => (delProp_keeps hk _ _ h1).trans hp)

theorem callWith_keeps (fv tv : Val) (fargs : H → ARes × H) (hfa : ∀ h, (fargs h).2.env x = h.env x) (h h0 : H)
    (hp : h.env x = h0.env x) : (callWith w fv tv fargs h).2.env x = h0.env x :=
  callWith_inv (fun h' : H => h'.env x = h0.env x) w fv tv fargs h ((hfa h).trans hp)
    (fun vs h1 hp1 => (invoke_keeps hk _ _ _ h1).trans hp1)

omit hk in
theorem argsS_keeps (tpl : Option TplSite) (n : Nat) (fa fb : H → Res × H)
    (ha : ∀ h, (fa h).2.env x = h.env x) (hb : ∀ h, (fb h).2.env x = h.env x) (h : H) :
    (argsS tpl n fa fb h).2.env x = h.env x :=
  argsS_inv (fun h' : H => h'.env x = h.env x) tpl n fa fb
    (fun site h1 hp => by rw [getTpl_env]; exact hp) (fun h1 hp => (ha h1).trans hp) (fun h1 hp => (hb h1).trans hp) h rfl

end keeps2

/-- an expression without an assignment to `x`, in a world that never reassigns `x`, leaves `x` alone -/
theorem evalC_keeps (w : World) (x : Nat) (hk : Keeps w x) :
    ∀ (e : S), e.assigns x = false → ∀ h, (evalC w e h).2.env x = h.env x := by
  intro e
  induction e with
  | id y => intro _ h; rfl
  | lit v => intro _ h; rfl
  | tstr s => intro _ h; rfl
  | call f a ih =>
    intro ha h
    simp only [S.assigns] at ha
    simp only [evalC, toCP_snd]
    exact bindR_inv (fun h' : H => h'.env x = h.env x) _ _ (ih ha h) (fun v h1 hp => (doEv_keeps hk _ h1).trans hp)
  | dot o p ih =>
    intro ha h
    simp only [S.assigns] at ha
    have := ih ha h
    simp only [evalC]
    split <;> rename_i heq <;> rw [heq] at this
    · exact this
    · exact this
    · exact (getProp_keeps hk _ _ _).trans this
  | optDot o p ih =>
    intro ha h
    simp only [S.assigns] at ha
    have := ih ha h
    simp only [evalC]
    split <;> rename_i heq <;> rw [heq] at this
    · exact this
    · exact this
    · split
      · exact this
      · exact (getProp_keeps hk _ _ _).trans this
  | paren a ih =>
    intro ha h
    simp only [S.assigns] at ha
    simpa [evalC] using ih ha h
  | idx o k iho ihk =>
    intro ha h
    simp only [S.assigns, Bool.or_eq_false_iff] at ha
    have := iho ha.1 h
    simp only [evalC]
    split <;> rename_i heq <;> rw [heq] at this
    · exact this
    · exact this
    · simp only [toCP_snd]
      exact bindR_inv (fun h' : H => h'.env x = h.env x) _ _ ((ihk ha.2 _).trans this)
        (fun v h1 hp => (getProp_keeps hk _ _ h1).trans hp)
  | nullish a b iha ihb =>
    intro ha h
    simp only [S.assigns, Bool.or_eq_false_iff] at ha
    simp only [evalC, toCP_snd]
    refine bindR_inv (fun h' : H => h'.env x = h.env x) _ _ (iha ha.1 h) (fun v h1 hp => ?_)
    split
    · exact (ihb ha.2 h1).trans hp
    · exact hp
  | tcat p s tail ihp ihs =>
    intro ha h
    simp only [S.assigns, Bool.or_eq_false_iff] at ha
    simp only [evalC, toCP_snd]
    refine bindR_inv (fun h' : H => h'.env x = h.env x) _ _ (ihp ha.1 h) (fun v h1 hp => ?_)
    split
    · refine bindR_inv (fun h' : H => h'.env x = h.env x) _ _ ((ihs ha.2 h1).trans hp) (fun v h2 hp2 => ?_)
      refine bindR_inv (fun h' : H => h'.env x = h.env x) _ _ ((toStr_keeps hk _ h2).trans hp2) (fun v h3 hp3 => ?_)
      split <;> exact hp3
    · exact hp
  | asgVar y op r ih =>
    intro ha h
    simp only [S.assigns, Bool.or_eq_false_iff, beq_eq_false_iff_ne] at ha
    simp only [evalC, toCP_snd]
    apply assignOp_keeps hk
    · intro h'; exact ih ha.2 h'
    · intro v h'; simp [setVar, upd, Ne.symm ha.1]
  | asgDot o p op r iho ihr =>
    intro ha h
    simp only [S.assigns, Bool.or_eq_false_iff] at ha
    simp only [evalC, toCP_snd]
    refine bindR_inv (fun h' : H => h'.env x = h.env x) _ _ (iho ha.1 h) (fun ov h1 hp => ?_)
    refine bindR_inv (fun h' : H => h'.env x = h.env x) _ _ ((getProp_keeps hk _ _ h1).trans hp) (fun lv h2 hp2 => ?_)
    refine (assignOp_keeps hk _ _ _ _ ?_ ?_ h2).trans hp2
    · intro h'; exact ihr ha.2 h'
    · intro v h'; exact setProp_keeps hk _ _ _ h'
  | asgIdx o k op r iho ihk ihr =>
    intro ha h
    simp only [S.assigns, Bool.or_eq_false_iff] at ha
    simp only [evalC, toCP_snd]
    refine bindR_inv (fun h' : H => h'.env x = h.env x) _ _ (iho ha.1.1 h) (fun ov h1 hp => ?_)
    refine bindR_inv (fun h' : H => h'.env x = h.env x) _ _ ((ihk ha.1.2 h1).trans hp) (fun kv h2 hp2 => ?_)
    refine bindR_inv (fun h' : H => h'.env x = h.env x) _ _ ((getProp_keeps hk _ _ h2).trans hp2) (fun lv h3 hp3 => ?_)
    refine (assignOp_keeps hk _ _ _ _ ?_ ?_ h3).trans hp3
    · intro h'; exact ihr ha.2 h'
    · intro v h'; exact setProp_keeps hk _ _ _ h'
  | this => intro _ h; rfl
  | optIdx o k iho ihk =>
    intro ha h
    simp only [S.assigns, Bool.or_eq_false_iff] at ha
    have := iho ha.1 h
    simp only [evalC]
    split <;> rename_i heq <;> rw [heq] at this
    · exact this
    · exact this
    · split
      · exact this
      · simp only [toCP_snd]
        exact bindR_inv (fun h' : H => h'.env x = h.env x) _ _ ((ihk ha.2 _).trans this)
          (fun v h1 hp => (getProp_keeps hk _ _ h1).trans hp)
  | vcall opt tpl f n a b ihf iha ihb =>
    intro hs h
    simp only [S.assigns, Bool.or_eq_false_iff] at hs
    simp only [evalC]
    refine vcallSem_inv (fun h' : H => h'.env x = h.env x) w opt _ _ (ihf hs.1.1 h) (fun fv tv h1 hp => ?_)
    exact callWith_keeps hk fv tv _ (fun h2 => argsS_keeps tpl n _ _ (fun h3 => iha hs.1.2 h3) (fun h3 => ihb hs.2 h3) h2) h1 h hp
  | mcall mode tpl optLink lk o k n a b iho ihk iha ihb =>
    intro hs h
    simp only [S.assigns, Bool.or_eq_false_iff] at hs
    simp only [evalC]
    refine mcallSem_inv (fun h' : H => h'.env x = h.env x) w mode _ _ ?_ (fun fv tv h1 hp => ?_)
    · exact memSem_inv (fun h' : H => h'.env x = h.env x) optLink _ _ (iho hs.1.1.1 h)
        (fun ov h1 hp => (linkGet_keeps hk lk _ (fun h2 => ihk hs.1.1.2 h2) ov h1).trans hp)
    · exact callWith_keeps hk fv tv _ (fun h2 => argsS_keeps tpl n _ _ (fun h3 => iha hs.1.2 h3) (fun h3 => ihb hs.2 h3) h2) h1 h hp
  | del optLink lk o k iho ihk =>
    intro hs h
    simp only [S.assigns, Bool.or_eq_false_iff] at hs
    simp only [evalC]
    exact delSem_inv (fun h' : H => h'.env x = h.env x) optLink _ _ (iho hs.1 h)
      (fun ov h1 hp => (linkDel_keeps hk lk _ (fun h2 => ihk hs.2 h2) ov h1).trans hp)
  | delVal a ih =>
    intro hs h
    simp only [S.assigns] at hs
    simp only [evalC]
    exact delValSem_inv (fun h' : H => h'.env x = h.env x) _ (ih hs h)

-- ---------------------------------------------------------------- emitted expressions as state transformers

/-- `t` computes `f` on the user-visible state (trace and user variables), whatever the temporaries hold -/
def Sim (w : World) (t : T) (f : H → Res × H) : Prop :=
  ∀ s : TState, (evalT w t s).1 = (f s.h).1 ∧ (evalT w t s).2.h = (f s.h).2

/-- `s2` still holds what was captured in `s1`: the temporaries `lo ≤ j < hi` and the variables in `V` -/
def Compat (lo hi : Nat) (V : Nat → Prop) (s1 s2 : TState) : Prop :=
  (∀ j, lo ≤ j → j < hi → s2.tm j = s1.tm j) ∧ (∀ x, V x → s2.h.env x = s1.h.env x)

theorem capture_spec (w : World) (full : T) (n : Nat) (s : TState) :
    (evalT w (capture full n).1 s).1 = (evalT w full s).1 ∧
    (evalT w (capture full n).1 s).2.h = (evalT w full s).2.h ∧
    ∀ v, (evalT w full s).1 = .val v →
      ∀ s2, Compat n (capture full n).2.2 (fun x => full = .id x) (evalT w (capture full n).1 s).2 s2 →
        evalT w (capture full n).2.1 s2 = (.val v, s2) := by
  have key : (evalT w (.assign n full) s).1 = (evalT w full s).1 ∧
      (evalT w (.assign n full) s).2.h = (evalT w full s).2.h ∧
      ∀ v, (evalT w full s).1 = .val v →
        ∀ s2, Compat n (n + 1) (fun x => full = .id x) (evalT w (.assign n full) s).2 s2 →
          evalT w (.tmp n) s2 = (.val v, s2) := by
    simp only [evalT]
    rcases hfull : evalT w full s with ⟨r, s1⟩
    cases r with
    | err x => simp
    | val u =>
      simp only [bindR_val, true_and]
      intro v hv s2 hc
      cases hv
      have := hc.1 n (Nat.le_refl _) (Nat.lt_succ_self _)
      simp only [upd_same] at this
      rw [this]
  cases full with
  | id x =>
    simp only [capture, evalT, true_and]
    intro v hv s2 hc
    cases hv
    rw [hc.2 x rfl]
  | lit u =>
    simp only [capture, evalT, true_and]
    intro v hv s2 _
    cases hv
    rfl
  | call f a => exact key
  | dot o p => exact key
  | idx o k => exact key
  | tmp k => exact key
  | assign k e => exact key
  | ifEqNull c y no => exact key
  | ifNeNull c y no => exact key
  | or a b => exact key
  | and a b => exact key
  | setVar x e => exact key
  | setDot o p e => exact key
  | setIdx o k e => exact key
  | pow a b => exact key
  | concat b sub tl => exact key
  | this =>
    simp only [capture, evalT, true_and]
    intro v hv s2 _
    cases hv
    rfl
  | callV f n a b c => exact key
  | callDot o p n a b c => exact key
  | callIdx o k n a b c => exact key
  | callCall f t n a b c => exact key
  | delDot o p => exact key
  | delIdx o k => exact key
  | delV e => exact key
  | tcell site => exact key
  | setCell site e => exact key
  | mkTpl site strs => exact key

theorem capture_tm (w : World) (full : T) (n : Nat) (s : TState) (j : Nat) (hb : bound full ≤ j) (hj : j ≠ n) :
    (evalT w (capture full n).1 s).2.tm j = s.tm j := by
  have key : (evalT w (.assign n full) s).2.tm j = s.tm j := by
    simp only [evalT]
    refine bindR_tm _ _ s j (evalT_tm w full s j hb) (fun v s1 h1 => ?_)
    simp only
    rw [upd_other _ _ _ _ hj]
    exact h1
  cases full <;> first | exact key | rfl

/-- a reference: what an assignment target evaluates to -/
inductive Ref where
  | var (x : Nat)
  | prop (ov kv : Val)

inductive RRes where
  | ref (r : Ref)
  | err (x : Exc)

def getRef (w : World) : Ref → H → Res × H
  | .var x, h => (.val (h.env x), h)
  | .prop ov kv, h => getProp w ov kv h

def putRef (w : World) : Ref → Val → H → Res × H
  | .var x, v, h => setVar x v h
  | .prop ov kv, v, h => setProp w ov kv v h

def refVar (x : Nat) (h : H) : RRes × H := (.ref (.var x), h)

def refDot (fo : H → Res × H) (p : Nat) (h : H) : RRes × H :=
  match fo h with
  | (.err x, h1) => (.err x, h1)
  | (.val ov, h1) => (.ref (.prop ov (pkey p)), h1)

def refIdx (fo fk : H → Res × H) (h : H) : RRes × H :=
  match fo h with
  | (.err x, h1) => (.err x, h1)
  | (.val ov, h1) =>
    match fk h1 with
    | (.err x, h2) => (.err x, h2)
    | (.val kv, h2) => (.ref (.prop ov kv), h2)

/-- source semantics of `target op= rhs` in terms of the reference -/
def asgSem (w : World) (op : AOp) (ref : H → RRes × H) (fr : H → Res × H) (h : H) : Res × H :=
  match ref h with
  | (.err x, h1) => (.err x, h1)
  | (.ref r, h1) => bindR (getRef w r h1) fun lval h2 => assignOp w op lval fr (putRef w r) h2

theorem evalC_asgVar (w : World) (x : Nat) (op : AOp) (r : S) (h : H) :
    evalC w (.asgVar x op r) h = toCP (asgSem w op (refVar x) (evalS w r) h) := by
  simp only [evalC, asgSem, refVar, getRef, bindR_val]
  rfl

theorem evalC_asgDot (w : World) (o : S) (p : Nat) (op : AOp) (r : S) (h : H) :
    evalC w (.asgDot o p op r) h = toCP (asgSem w op (refDot (evalS w o) p) (evalS w r) h) := by
  simp only [evalC, asgSem, refDot, evalS]
  rcases topP (evalC w o h) with ⟨a, h1⟩
  cases a <;> rfl

theorem evalC_asgIdx (w : World) (o k : S) (op : AOp) (r : S) (h : H) :
    evalC w (.asgIdx o k op r) h = toCP (asgSem w op (refIdx (evalS w o) (evalS w k)) (evalS w r) h) := by
  simp only [evalC, asgSem, refIdx, evalS]
  rcases topP (evalC w o h) with ⟨a, h1⟩
  cases a with
  | err x => rfl
  | val ov =>
    simp only [bindR_val]
    rcases topP (evalC w k h1) with ⟨b, h2⟩
    cases b <;> rfl

@[simp] theorem getRef_prop (w : World) (ov kv : Val) : getRef w (.prop ov kv) = getProp w ov kv := by
  funext h; rfl
@[simp] theorem putRef_prop (w : World) (ov kv v : Val) : putRef w (.prop ov kv) v = setProp w ov kv v := by
  funext h; rfl
@[simp] theorem getRef_var (w : World) (x : Nat) (h : H) : getRef w (.var x) h = (.val (h.env x), h) := rfl
@[simp] theorem putRef_var (w : World) (x : Nat) (v : Val) : putRef w (.var x) v = setVar x v := by
  funext h; rfl

theorem getRef_keeps {w : World} {x : Nat} (hk : Keeps w x) (r : Ref) (h : H) : (getRef w r h).2.env x = h.env x := by
  cases r with
  | var y => rfl
  | prop ov kv => exact getProp_keeps hk ov kv h

/-- the two references `a` (built first) and `b` (built second) that lowerAssignmentOperator hands to its
callback: evaluating `a` evaluates the target's sub-expressions once (`s1` is the state right after that) and
`b` denotes the same reference in every later state that still holds the captured values -/
structure RefPair (w : World) (a b : TT) (ref : H → RRes × H) (lo hi : Nat) (V : Nat → Prop) : Prop where
  err : ∀ s x h1, ref s.h = (.err x, h1) →
      ((evalT w a.read s).1 = .err x ∧ (evalT w a.read s).2.h = h1) ∧
      ∀ R', (evalT w (a.write R') s).1 = .err x ∧ (evalT w (a.write R') s).2.h = h1
  ok : ∀ s r h1, ref s.h = (.ref r, h1) → ∃ s1 : TState, s1.h = h1 ∧
      evalT w a.read s = liftH (getRef w r) s1 ∧
      (∀ R', evalT w (a.write R') s = bindR (evalT w R' s1) fun v s3 => liftH (putRef w r v) s3) ∧
      ∀ s2, Compat lo hi V s1 s2 →
        evalT w b.read s2 = liftH (getRef w r) s2 ∧
        ∀ R', evalT w (b.write R') s2 = bindR (evalT w R' s2) fun v s3 => liftH (putRef w r v) s3

theorem refpair_var (w : World) (x : Nat) : RefPair w (.var x) (.var x) (refVar x) 0 0 (fun _ => False) := by
  constructor
  · intro s y h1 h
    simp [refVar] at h
  · intro s r h1 h
    simp only [refVar, Prod.mk.injEq, RRes.ref.injEq] at h
    obtain ⟨hr, hh⟩ := h
    subst hr
    refine ⟨s, hh, rfl, fun R' => rfl, fun s2 _ => ⟨rfl, fun R' => rfl⟩⟩

theorem refpair_dot (w : World) (O : T) (fo : H → Res × H) (hO : Sim w O fo) (n p : Nat) :
    RefPair w (.dot (capture O n).1 p) (.dot (capture O n).2.1 p) (refDot fo p) n (capture O n).2.2
      (fun x => O = .id x) := by
  constructor
  · intro s x h1 h
    obtain ⟨c1, c2, _⟩ := capture_spec w O n s
    obtain ⟨o1, o2⟩ := hO s
    rw [o1] at c1; rw [o2] at c2
    simp only [refDot] at h
    rcases hfo : fo s.h with ⟨a, h'⟩
    rw [hfo] at h c1 c2
    rcases hc : evalT w (capture O n).1 s with ⟨r, s1⟩
    rw [hc] at c1 c2
    simp only at c1 c2
    subst c1
    cases r with
    | val ov => simp at h
    | err y =>
      simp only [Prod.mk.injEq, RRes.err.injEq] at h
      obtain ⟨hx, hh⟩ := h
      subst hx; subst hh
      simp [TT.read, TT.write, evalT, hc, c2]
  · intro s r h1 h
    obtain ⟨c1, c2, c3⟩ := capture_spec w O n s
    obtain ⟨o1, o2⟩ := hO s
    simp only [refDot] at h
    rcases hfo : fo s.h with ⟨a, h'⟩
    rw [hfo] at h o1 o2
    rcases hc : evalT w (capture O n).1 s with ⟨rc, s1⟩
    rw [hc] at c1 c2 c3
    simp only at c1 c2 o1 o2
    cases a with
    | err y => simp at h
    | val ov =>
      simp only [Prod.mk.injEq, RRes.ref.injEq] at h
      obtain ⟨hr, hh⟩ := h
      subst hr; subst hh
      rw [o1] at c1; subst c1
      refine ⟨s1, c2.trans o2, ?_, ?_, ?_⟩
      · simp [TT.read, evalT, hc]
      · intro R'; simp [TT.write, evalT, hc]
      · intro s2 hcomp
        have hb := c3 ov o1 s2 hcomp
        refine ⟨?_, fun R' => ?_⟩
        · simp [TT.read, evalT, hb]
        · simp [TT.write, evalT, hb]

theorem refpair_idx (w : World) (O K : T) (fo fk : H → Res × H) (hO : Sim w O fo) (hK : Sim w K fk) (n : Nat)
    (hbK : bound K ≤ n)
    (hkeep : ∀ x, O = .id x → ∀ h, (fk h).2.env x = h.env x) :
    RefPair w (.idx (capture O n).1 (capture K (capture O n).2.2).1)
      (.idx (capture O n).2.1 (capture K (capture O n).2.2).2.1) (refIdx fo fk) n
      (capture K (capture O n).2.2).2.2 (fun x => O = .id x ∨ K = .id x) := by
  have hn := capture_next O n
  have hm := capture_next K (capture O n).2.2
  constructor
  · intro s x h1 h
    obtain ⟨c1, c2, _⟩ := capture_spec w O n s
    obtain ⟨o1, o2⟩ := hO s
    rw [o1] at c1; rw [o2] at c2
    simp only [refIdx] at h
    rcases hfo : fo s.h with ⟨a, h'⟩
    rw [hfo] at h c1 c2
    rcases hc : evalT w (capture O n).1 s with ⟨r, s1⟩
    rw [hc] at c1 c2
    simp only at c1 c2
    subst c1
    cases r with
    | err y =>
      simp only [Prod.mk.injEq, RRes.err.injEq] at h
      obtain ⟨hx, hh⟩ := h
      subst hx; subst hh
      simp [TT.read, TT.write, evalT, hc, c2]
    | val ov =>
      simp only at h
      obtain ⟨d1, d2, _⟩ := capture_spec w K (capture O n).2.2 s1
      obtain ⟨k1, k2⟩ := hK s1
      rw [k1] at d1; rw [k2] at d2
      rw [c2] at d1 d2
      rcases hfk : fk h' with ⟨b, h''⟩
      rw [hfk] at h d1 d2
      rcases hd : evalT w (capture K (capture O n).2.2).1 s1 with ⟨r2, s2⟩
      rw [hd] at d1 d2
      simp only at d1 d2
      subst d1
      cases r2 with
      | val kv => simp at h
      | err y =>
        simp only [Prod.mk.injEq, RRes.err.injEq] at h
        obtain ⟨hx, hh⟩ := h
        subst hx; subst hh
        simp [TT.read, TT.write, evalT, hc, hd, d2]
  · intro s r h1 h
    obtain ⟨c1, c2, c3⟩ := capture_spec w O n s
    obtain ⟨o1, o2⟩ := hO s
    simp only [refIdx] at h
    rcases hfo : fo s.h with ⟨a, h'⟩
    rw [hfo] at h o1 o2
    rcases hc : evalT w (capture O n).1 s with ⟨rc, s1⟩
    rw [hc] at c1 c2 c3
    simp only at c1 c2 o1 o2
    cases a with
    | err y => simp at h
    | val ov =>
      simp only at h
      rw [o1] at c1; subst c1
      have hs1 : s1.h = h' := c2.trans o2
      obtain ⟨d1, d2, d3⟩ := capture_spec w K (capture O n).2.2 s1
      obtain ⟨k1, k2⟩ := hK s1
      rw [hs1] at k1 k2
      rcases hfk : fk h' with ⟨b, h''⟩
      rw [hfk] at h k1 k2
      rcases hd : evalT w (capture K (capture O n).2.2).1 s1 with ⟨rd, s2⟩
      rw [hd] at d1 d2 d3
      simp only at d1 d2 k1 k2
      cases b with
      | err y => simp at h
      | val kv =>
        simp only [Prod.mk.injEq, RRes.ref.injEq] at h
        obtain ⟨hr, hh⟩ := h
        subst hr; subst hh
        rw [k1] at d1; subst d1
        have hs2 : s2.h = h'' := d2.trans k2
        -- the temporaries of the base survive the evaluation of the key
        have htm : ∀ j, n ≤ j → j < (capture O n).2.2 → s2.tm j = s1.tm j := by
          intro j hj1 hj2
          have := capture_tm w K (capture O n).2.2 s1 j (by omega) (by omega)
          rw [hd] at this
          exact this
        have henv : ∀ x, O = .id x → s2.h.env x = s1.h.env x := by
          intro x hx
          have := hkeep x hx h'
          rw [hfk] at this
          rw [hs2, hs1]
          exact this
        refine ⟨s2, hs2, ?_, ?_, ?_⟩
        · simp [TT.read, evalT, hc, hd]
        · intro R'; simp [TT.write, evalT, hc, hd]
        · intro s3 hcomp
          have hbO := c3 ov o1 s3 ⟨fun j hj1 hj2 => (hcomp.1 j hj1 (by omega)).trans (htm j hj1 hj2),
            fun x hx => (hcomp.2 x (Or.inl hx)).trans (henv x hx)⟩
          have hbK := d3 kv k1 s3 ⟨fun j hj1 hj2 => hcomp.1 j (by omega) hj2, fun x hx => hcomp.2 x (Or.inr hx)⟩
          refine ⟨?_, fun R' => ?_⟩
          · simp [TT.read, evalT, hbO, hbK]
          · simp [TT.write, evalT, hbO, hbK]

-- ---------------------------------------------------------------- the four callbacks

theorem sim_bind_lift (r : Res × TState) (q : Res × H) (g : Val → H → Res × H) (h1 : r.1 = q.1) (h2 : r.2.h = q.2) :
    (bindR r fun v s3 => liftH (g v) s3).1 = (bindR q g).1 ∧ (bindR r fun v s3 => liftH (g v) s3).2.h = (bindR q g).2 := by
  obtain ⟨a, s⟩ := r
  obtain ⟨b, h⟩ := q
  simp only at h1 h2
  subst h1; subst h2
  cases a <;> simp

theorem capture_tm' (w : World) (full : T) (n : Nat) (s : TState) (j : Nat) (hj : j ≠ n) :
    (evalT w (capture full n).1 s).2.tm j = (evalT w full s).2.tm j := by
  have key : (evalT w (.assign n full) s).2.tm j = (evalT w full s).2.tm j := by
    simp only [evalT]
    rcases evalT w full s with ⟨r, s1⟩
    cases r with
    | err x => rfl
    | val v => simp [upd_other _ _ _ _ hj]
  cases full <;> first | exact key | rfl

theorem or_lemma (w : World) (a b : TT) (ref : H → RRes × H) (lo hi : Nat) (V : Nat → Prop)
    (hp : RefPair w a b ref lo hi V) (hV : ∀ x, V x → Keeps w x) (R : T) (fr : H → Res × H) (hR : Sim w R fr) :
    Sim w (.or a.read (b.write R)) (asgSem w .or ref fr) := by
  intro s
  simp only [asgSem, evalT]
  rcases href : ref s.h with ⟨rr, h1⟩
  cases rr with
  | err x =>
    obtain ⟨⟨e1, e2⟩, _⟩ := hp.err s x h1 href
    rw [bindR_eq, e1]
    exact ⟨rfl, e2⟩
  | ref r =>
    obtain ⟨s1, hs1, hread, _, hb⟩ := hp.ok s r h1 href
    subst hs1
    rw [hread]
    simp only [liftH]
    rcases hg : getRef w r s1.h with ⟨g, h2⟩
    cases g with
    | err x => simp
    | val lval =>
      simp only [bindR_val, assignOp]
      split
      · simp
      · have hcomp : Compat lo hi V s1 { s1 with h := h2 } := by
          refine ⟨fun _ _ _ => rfl, fun x hx => ?_⟩
          have := getRef_keeps (hV x hx) r s1.h
          rw [hg] at this
          exact this
        rw [(hb _ hcomp).2 R]
        exact sim_bind_lift _ _ _ (hR _).1 (hR _).2

theorem and_lemma (w : World) (a b : TT) (ref : H → RRes × H) (lo hi : Nat) (V : Nat → Prop)
    (hp : RefPair w a b ref lo hi V) (hV : ∀ x, V x → Keeps w x) (R : T) (fr : H → Res × H) (hR : Sim w R fr) :
    Sim w (.and a.read (b.write R)) (asgSem w .and ref fr) := by
  intro s
  simp only [asgSem, evalT]
  rcases href : ref s.h with ⟨rr, h1⟩
  cases rr with
  | err x =>
    obtain ⟨⟨e1, e2⟩, _⟩ := hp.err s x h1 href
    rw [bindR_eq, e1]
    exact ⟨rfl, e2⟩
  | ref r =>
    obtain ⟨s1, hs1, hread, _, hb⟩ := hp.ok s r h1 href
    subst hs1
    rw [hread]
    simp only [liftH]
    rcases hg : getRef w r s1.h with ⟨g, h2⟩
    cases g with
    | err x => simp
    | val lval =>
      simp only [bindR_val, assignOp]
      split
      · have hcomp : Compat lo hi V s1 { s1 with h := h2 } := by
          refine ⟨fun _ _ _ => rfl, fun x hx => ?_⟩
          have := getRef_keeps (hV x hx) r s1.h
          rw [hg] at this
          exact this
        rw [(hb _ hcomp).2 R]
        exact sim_bind_lift _ _ _ (hR _).1 (hR _).2
      · simp

theorem pow_lemma (w : World) (a b : TT) (ref : H → RRes × H) (lo hi : Nat) (V : Nat → Prop)
    (hp : RefPair w a b ref lo hi V) (R : T) (fr : H → Res × H) (hR : Sim w R fr) :
    Sim w (a.write (.pow b.read R)) (asgSem w .pow ref fr) := by
  intro s
  simp only [asgSem]
  rcases href : ref s.h with ⟨rr, h1⟩
  cases rr with
  | err x =>
    obtain ⟨_, e⟩ := hp.err s x h1 href
    exact e _
  | ref r =>
    obtain ⟨s1, hs1, _, hwrite, hb⟩ := hp.ok s r h1 href
    subst hs1
    rw [hwrite]
    simp only [evalT]
    rw [(hb s1 ⟨fun _ _ _ => rfl, fun _ _ => rfl⟩).1]
    simp only [liftH]
    rcases hg : getRef w r s1.h with ⟨g, h2⟩
    cases g with
    | err x => simp
    | val lval =>
      simp only [bindR_val, assignOp]
      obtain ⟨r1, r2⟩ := hR { s1 with h := h2 }
      rcases hev : evalT w R { s1 with h := h2 } with ⟨rv, s2⟩
      rcases hfr : fr h2 with ⟨q, h3⟩
      rw [hev] at r1 r2
      simp only at r1 r2
      rw [hfr] at r1 r2
      simp only at r1 r2
      subst r1; subst r2
      cases rv with
      | err x => simp
      | val rv =>
        simp only [bindR_val]
        exact sim_bind_lift _ _ _ rfl rfl

theorem nul_lemma (w : World) (a b : TT) (ref : H → RRes × H) (lo hi : Nat) (V : Nat → Prop)
    (hp : RefPair w a b ref lo hi V) (hV : ∀ x, V x → Keeps w x) (R : T) (fr : H → Res × H) (hR : Sim w R fr)
    (m : Nat) (hm : hi ≤ m) :
    Sim w (opCallback .nul a b R m).1 (asgSem w .nul ref fr) := by
  intro s
  simp only [opCallback, asgSem, evalT]
  obtain ⟨c1, c2, c3⟩ := capture_spec w a.read m s
  rcases href : ref s.h with ⟨rr, h1⟩
  cases rr with
  | err x =>
    obtain ⟨⟨e1, e2⟩, _⟩ := hp.err s x h1 href
    rw [e1] at c1; rw [e2] at c2
    rw [bindR_eq, c1]
    exact ⟨rfl, c2⟩
  | ref r =>
    obtain ⟨s1, hs1, hread, _, hb⟩ := hp.ok s r h1 href
    subst hs1
    have htm : ∀ j, j ≠ m → (evalT w (capture a.read m).1 s).2.tm j = s1.tm j := by
      intro j hj
      rw [capture_tm' w a.read m s j hj, hread]
      rfl
    rw [hread] at c1 c2 c3
    simp only [liftH] at c1 c2 c3
    rcases hg : getRef w r s1.h with ⟨g, h2⟩
    rw [hg] at c1 c2 c3
    simp only at c1 c2 c3
    rcases hc : evalT w (capture a.read m).1 s with ⟨rc, sc⟩
    rw [hc] at c1 c2 c3 htm
    simp only at c1 c2 c3 htm
    subst c1
    cases rc with
    | err x => simp [hg, c2]
    | val lval =>
      simp only [hg, bindR_val, assignOp]
      split
      · have hcomp : Compat lo hi V s1 sc := by
          refine ⟨fun j _ hj2 => htm j (by omega), fun x hx => ?_⟩
          have := getRef_keeps (hV x hx) r s1.h
          rw [hg] at this
          rw [c2]
          exact this
        rw [(hb _ hcomp).2 R]
        have := hR sc
        rw [c2] at this
        exact sim_bind_lift _ _ _ this.1 this.2
      · rw [c3 lval rfl sc ⟨fun _ _ _ => rfl, fun _ _ => rfl⟩]
        exact ⟨rfl, c2⟩

theorem opCallback_sim (w : World) (op : AOp) (a b : TT) (ref : H → RRes × H) (lo hi : Nat) (V : Nat → Prop)
    (hp : RefPair w a b ref lo hi V) (hV : ∀ x, V x → Keeps w x) (R : T) (fr : H → Res × H) (hR : Sim w R fr)
    (m : Nat) (hm : hi ≤ m) :
    Sim w (opCallback op a b R m).1 (asgSem w op ref fr) := by
  cases op with
  | or => exact or_lemma w a b ref lo hi V hp hV R fr hR
  | and => exact and_lemma w a b ref lo hi V hp hV R fr hR
  | nul => exact nul_lemma w a b ref lo hi V hp hV R fr hR m hm
  | pow => exact pow_lemma w a b ref lo hi V hp R fr hR

-- ---------------------------------------------------------------- the two "outside the model" markers

def Exc.marker : Exc → Bool
  | .bigint => true
  | .illFormed => true
  | _ => false

def S.isTpl : S → Bool
  | .tstr _ => true
  | .tcat _ _ _ => true
  | _ => false

/-- what the parser produces: the prefix of a template is a template -/
def S.wf : S → Bool
  | .id _ => true
  | .lit _ => true
  | .tstr _ => true
  | .call _ a => a.wf
  | .dot o _ => o.wf
  | .optDot o _ => o.wf
  | .paren a => a.wf
  | .idx o k => o.wf && k.wf
  | .nullish a b => a.wf && b.wf
  | .tcat p s _ => p.isTpl && p.wf && s.wf
  | .asgVar _ _ r => r.wf
  | .asgDot o _ _ r => o.wf && r.wf
  | .asgIdx o k _ r => o.wf && k.wf && r.wf
  | .this => true
  | .optIdx o k => o.wf && k.wf
  | .vcall _ _ f _ a b => f.wf && a.wf && b.wf
  | .mcall _ _ _ _ o k _ a b => o.wf && k.wf && a.wf && b.wf
  | .del _ _ o k => o.wf && k.wf
  | .delVal a => a.wf

/-- no `**=` -/
def S.noPow : S → Bool
  | .id _ => true
  | .lit _ => true
  | .tstr _ => true
  | .call _ a => a.noPow
  | .dot o _ => o.noPow
  | .optDot o _ => o.noPow
  | .paren a => a.noPow
  | .idx o k => o.noPow && k.noPow
  | .nullish a b => a.noPow && b.noPow
  | .tcat p s _ => p.noPow && s.noPow
  | .asgVar _ op r => op != .pow && r.noPow
  | .asgDot o _ op r => op != .pow && o.noPow && r.noPow
  | .asgIdx o k op r => op != .pow && o.noPow && k.noPow && r.noPow
  | .this => true
  | .optIdx o k => o.noPow && k.noPow
  | .vcall _ _ f _ a b => f.noPow && a.noPow && b.noPow
  | .mcall _ _ _ _ o k _ a b => o.noPow && k.noPow && a.noPow && b.noPow
  | .del _ _ o k => o.noPow && k.noPow
  | .delVal a => a.noPow

theorem bindR_ne {σ : Type} (x : Exc) (r : Res × σ) (f : Val → σ → Res × σ)
    (h1 : r.1 ≠ .err x) (h2 : ∀ v s, (f v s).1 ≠ .err x) : (bindR r f).1 ≠ .err x := by
  obtain ⟨a, s⟩ := r
  cases a with
  | err y => exact h1
  | val v => exact h2 v s

section markers
variable (w : World) (x : Exc) (hx : x.marker = true)
include hx

theorem doEv_nm (ev : Ev) (h : H) : (doEv w ev h).1 ≠ .err x := by
  unfold doEv
  split
  · simp
  · intro hc
    simp only [Res.err.injEq] at hc
    subst hc
    simp [Exc.marker] at hx

theorem toPrim_nm (b : Bool) (v : Val) (h : H) : (toPrim w b v h).1 ≠ .err x := by
  unfold toPrim
  split
  · refine bindR_ne x _ _ (doEv_nm w x hx _ h) (fun p h1 => ?_)
    split
    · intro hc; simp only [Res.err.injEq] at hc; subst hc; simp [Exc.marker] at hx
    · simp
  · simp

theorem getProp_nm (ov kv : Val) (h : H) : (getProp w ov kv h).1 ≠ .err x := by
  unfold getProp
  split
  · intro hc; simp only [Res.err.injEq] at hc; subst hc; simp [Exc.marker] at hx
  · exact bindR_ne x _ _ (toPrim_nm w x hx _ _ h) (fun p h1 => doEv_nm w x hx _ h1)

theorem setProp_nm (ov kv v : Val) (h : H) : (setProp w ov kv v h).1 ≠ .err x := by
  unfold setProp
  split
  · intro hc; simp only [Res.err.injEq] at hc; subst hc; simp [Exc.marker] at hx
  · refine bindR_ne x _ _ (toPrim_nm w x hx _ _ h) (fun p h1 => ?_)
    exact bindR_ne x _ _ (doEv_nm w x hx _ h1) (fun _ h2 => by simp)

theorem toStr_nm (v : Val) (h : H) : (toStr w v h).1 ≠ .err x := by
  unfold toStr
  refine bindR_ne x _ _ (toPrim_nm w x hx _ _ h) (fun p h1 => ?_)
  split
  · simp
  · intro hc; simp only [Res.err.injEq] at hc; subst hc; simp [Exc.marker] at hx

theorem toNumeric_nm (v : Val) (h : H) : (toNumeric w v h).1 ≠ .err x := by
  unfold toNumeric
  refine bindR_ne x _ _ (toPrim_nm w x hx _ _ h) (fun p h1 => ?_)
  split <;> (intro hc; cases hc <;> simp [Exc.marker] at hx)

theorem powOp_nm (hnb : x ≠ .bigint) (l r : Val) (h : H) : (powOp w l r h).1 ≠ .err x := by
  unfold powOp
  refine bindR_ne x _ _ (toNumeric_nm w x hx _ h) (fun p h1 => ?_)
  split
  · refine bindR_ne x _ _ (toNumeric_nm w x hx _ h1) (fun q h2 => ?_)
    split
    · simp
    · intro hc; simp only [Res.err.injEq] at hc; exact hnb hc.symm
  · intro hc; simp only [Res.err.injEq] at hc; exact hnb hc.symm

theorem assignOp_nm (op : AOp) (hop : x = .bigint → op ≠ .pow) (lval : Val) (rhs : H → Res × H)
    (put : Val → H → Res × H) (h1 : ∀ h, (rhs h).1 ≠ .err x) (h2 : ∀ v h, (put v h).1 ≠ .err x) (h : H) :
    (assignOp w op lval rhs put h).1 ≠ .err x := by
  cases op <;> simp only [assignOp]
  · split
    · simp
    · exact bindR_ne x _ _ (h1 h) h2
  · split
    · exact bindR_ne x _ _ (h1 h) h2
    · simp
  · split
    · exact bindR_ne x _ _ (h1 h) h2
    · simp
  · refine bindR_ne x _ _ (h1 h) (fun v h' => ?_)
    refine bindR_ne x _ _ (powOp_nm w x hx (fun hb => hop hb rfl) _ _ h') h2

end markers

theorem toStr_str (w : World) (v : Val) (h : H) (t : Val) (ht : (toStr w v h).1 = .val t) : ∃ ts, t = .str ts := by
  unfold toStr at ht
  rcases hp : toPrim w true v h with ⟨a, h1⟩
  rw [hp] at ht
  cases a with
  | err y => cases ht
  | val p =>
    simp only [bindR_val] at ht
    split at ht
    · cases ht
      exact ⟨_, rfl⟩
    · cases ht

theorem toC_err (r : Res) (x : Exc) : r.toC = .err x ↔ r = .err x := by
  cases r <;> simp [Res.toC]

theorem top_err (c : CRes) (x : Exc) : c.top = .err x ↔ c = .err x := by
  cases c <;> simp [CRes.top]

theorem toC_val (r : Res) (v : Val) : r.toC = .val v ↔ r = .val v := by
  cases r <;> simp [Res.toC]

/-- a template evaluates to a string -/
theorem tpl_str (w : World) (e : S) (he : e.isTpl = true) (h : H) (v : Val) (hv : (evalC w e h).1 = .val v) :
    ∃ s, v = .str s := by
  cases e with
  | tstr s => simp only [evalC, CRes.val.injEq] at hv; exact ⟨s, hv.symm⟩
  | tcat p sb tail =>
    simp only [evalC] at hv
    rw [toCP_fst, toC_val] at hv
    rcases hp : topP (evalC w p h) with ⟨a, h1⟩
    rw [hp] at hv
    cases a with
    | err y => cases hv
    | val pv =>
      simp only [bindR_val] at hv
      cases pv with
      | str s =>
        simp only at hv
        rcases hsb : topP (evalC w sb h1) with ⟨b, h2⟩
        rw [hsb] at hv
        cases b with
        | err y => cases hv
        | val sv =>
          simp only [bindR_val] at hv
          rcases hts : toStr w sv h2 with ⟨c, h3⟩
          rw [hts] at hv
          cases c with
          | err y => cases hv
          | val t =>
            simp only [bindR_val] at hv
            cases t <;> cases hv
            exact ⟨_, rfl⟩
      | _ => cases hv
  | _ => simp [S.isTpl] at he

theorem toC_ne_short (r : Res) : r.toC ≠ .short := by cases r <;> simp [Res.toC]

theorem tpl_not_short (w : World) (e : S) (he : e.isTpl = true) (h : H) : (evalC w e h).1 ≠ .short := by
  cases e with
  | tstr s => simp [evalC]
  | tcat p sb tail => simp only [evalC, toCP_fst]; exact toC_ne_short _
  | _ => simp [S.isTpl] at he

section markers2
variable (w : World) (x : Exc) (hx : x.marker = true)
include hx

theorem typeError_nm : Exc.typeError ≠ x := by
  intro hc; subst hc; simp [Exc.marker] at hx

theorem invoke_nm (fv tv : Val) (vs : List Val) (h : H) : (invoke w fv tv vs h).1 ≠ .err x := by
  unfold invoke
  split
  · exact doEv_nm w x hx _ h
  · intro hc; simp only [Res.err.injEq] at hc; exact typeError_nm x hx hc

omit hx in
theorem args3_nm {σ : Type} (n : Nat) (fa fb fc : σ → Res × σ) (ha : ∀ s, (fa s).1 ≠ .err x)
    (hb : ∀ s, (fb s).1 ≠ .err x) (hc : ∀ s, (fc s).1 ≠ .err x) (s : σ) : (args3 n fa fb fc s).1 ≠ .err x := by
  unfold args3
  split
  · simp
  · have h1 := ha s
    split <;> rename_i heq <;> rw [heq] at h1
    · intro hh; simp only [ARes.err.injEq] at hh; exact h1 (by rw [hh])
    · split
      · simp
      · rename_i s1 _ _
        have h2 := hb s1
        split <;> rename_i heq2 <;> rw [heq2] at h2
        · intro hh; simp only [ARes.err.injEq] at hh; exact h2 (by rw [hh])
        · split
          · simp
          · rename_i s2 _ _
            have h3 := hc s2
            split <;> rename_i heq3 <;> rw [heq3] at h3
            · intro hh; simp only [ARes.err.injEq] at hh; exact h3 (by rw [hh])
            · simp

omit hx in
theorem getTpl_nm (site : Nat) (h : H) : (getTpl site h).1 ≠ .err x := by
  unfold getTpl
  split <;> simp

omit hx in
theorem argsS_nm (tpl : Option TplSite) (n : Nat) (fa fb : H → Res × H) (ha : ∀ s, (fa s).1 ≠ .err x)
    (hb : ∀ s, (fb s).1 ≠ .err x) (h : H) : (argsS tpl n fa fb h).1 ≠ .err x := by
  unfold argsS
  split
  · exact args3_nm x _ _ _ _ ha hb hb h
  · exact args3_nm x _ _ _ _ (getTpl_nm x _) ha hb h

theorem callWith_nm (fv tv : Val) (fargs : H → ARes × H) (ha : ∀ h, (fargs h).1 ≠ .err x) (h : H) :
    (callWith w fv tv fargs h).1 ≠ .err x := by
  unfold callWith
  have h1 := ha h
  split <;> rename_i heq <;> rw [heq] at h1
  · intro hh; simp only [Res.err.injEq] at hh; exact h1 (by rw [hh])
  · exact invoke_nm w x hx _ _ _ _

theorem delProp_nm (ov kv : Val) (h : H) : (delProp w ov kv h).1 ≠ .err x := by
  unfold delProp
  split
  · intro hc; simp only [Res.err.injEq] at hc; exact typeError_nm x hx hc
  · refine bindR_ne x _ _ (toPrim_nm w x hx _ _ h) (fun p h1 => ?_)
    exact bindR_ne x _ _ (doEv_nm w x hx _ h1) (fun _ h2 => by simp)

theorem linkGet_nm (lk : Link) (fk : H → Res × H) (hfk : ∀ h, (fk h).1 ≠ .err x) (ov : Val) (h : H) :
    (linkGet w lk fk ov h).1 ≠ .err x := by
  cases lk with
  | dot p => exact getProp_nm w x hx _ _ h
  | idx => exact bindR_ne x _ _ (hfk h) (fun kv h1 => getProp_nm w x hx _ _ h1)

theorem linkDel_nm (lk : Link) (fk : H → Res × H) (hfk : ∀ h, (fk h).1 ≠ .err x) (ov : Val) (h : H) :
    (linkDel w lk fk ov h).1 ≠ .err x := by
  cases lk with
  | dot p => exact delProp_nm w x hx _ _ h
  | idx => exact bindR_ne x _ _ (hfk h) (fun kv h1 => delProp_nm w x hx _ _ h1)

omit hx in
theorem memSem_nm (optLink : Bool) (ro : CRes × H) (get : Val → H → Res × H)
    (h1 : ro.1 ≠ .err x) (h2 : ∀ ov h, (get ov h).1 ≠ .err x) : (memSem optLink ro get).1 ≠ .err x := by
  unfold memSem
  split
  · intro hc; simp only [MRes.err.injEq] at hc; exact h1 (by rw [hc])
  · simp
  · split
    · simp
    · rename_i ov h' _
      have := h2 ov h'
      split <;> rename_i heq <;> rw [heq] at this
      · intro hc; simp only [MRes.err.injEq] at hc; exact this (by rw [hc])
      · simp

omit hx in
theorem mcallSem_nm (mode : CMode) (m : MRes × H) (fargs : H → ARes × H)
    (hm : m.1 ≠ .err x) (hc : ∀ fv tv h, (callWith w fv tv fargs h).1 ≠ .err x) : (mcallSem w mode m fargs).1 ≠ .err x := by
  unfold mcallSem
  split
  · intro hh; simp only [CRes.err.injEq] at hh; exact hm (by rw [hh])
  · split
    · simp only [toCP_fst, ne_eq, toC_err]; exact hc _ _ _
    · simp
  · split
    · split
      · simp
      · simp only [toCP_fst, ne_eq, toC_err]; exact hc _ _ _
    · simp only [toCP_fst, ne_eq, toC_err]; exact hc _ _ _

omit hx in
theorem vcallSem_nm (opt : Bool) (rf : CRes × H) (fargs : H → ARes × H)
    (hm : rf.1 ≠ .err x) (hc : ∀ fv tv h, (callWith w fv tv fargs h).1 ≠ .err x) : (vcallSem w opt rf fargs).1 ≠ .err x := by
  unfold vcallSem
  split
  · exact hm
  · simp
  · split
    · simp
    · simp only [toCP_fst, ne_eq, toC_err]; exact hc _ _ _

omit hx in
theorem delSem_nm (optLink : Bool) (ro : CRes × H) (del : Val → H → Res × H)
    (h1 : ro.1 ≠ .err x) (h2 : ∀ ov h, (del ov h).1 ≠ .err x) : (delSem optLink ro del).1 ≠ .err x := by
  unfold delSem
  split
  · exact h1
  · simp
  · split
    · simp
    · simp only [toCP_fst, ne_eq, toC_err]; exact h2 _ _

omit hx in
theorem delValSem_nm (r : CRes × H) (h1 : r.1 ≠ .err x) : (delValSem r).1 ≠ .err x := by
  unfold delValSem
  split
  · exact h1
  · simp

end markers2

/-- the evaluation of a parsed term never reports `illFormed`, and never `bigint` if there is no `**=` -/
theorem evalC_nm (w : World) (x : Exc) (hx : x.marker = true) :
    ∀ (e : S), e.wf = true → (x = .bigint → e.noPow = true) → ∀ h, (evalC w e h).1 ≠ .err x := by
  intro e
  induction e with
  | id y => intro _ _ h; simp [evalC]
  | lit v => intro _ _ h; simp [evalC]
  | tstr s => intro _ _ h; simp [evalC]
  | call f a ih =>
    intro hw hp h
    simp only [S.wf, S.noPow] at hw hp
    simp only [evalC, toCP_fst, ne_eq, toC_err]
    refine bindR_ne x _ _ ?_ (fun v h1 => doEv_nm w x hx _ h1)
    simp only [topP_fst, ne_eq, top_err]
    exact ih hw hp h
  | paren a ih =>
    intro hw hp h
    simp only [S.wf, S.noPow] at hw hp
    simp only [evalC, toCP_fst, ne_eq, toC_err, topP_fst, top_err]
    exact ih hw hp h
  | dot o p ih =>
    intro hw hp h
    simp only [S.wf, S.noPow] at hw hp
    have := ih hw hp h
    simp only [evalC]
    split <;> rename_i heq <;> rw [heq] at this
    · exact this
    · simp
    · simp only [toCP_fst, ne_eq, toC_err]
      exact getProp_nm w x hx _ _ _
  | optDot o p ih =>
    intro hw hp h
    simp only [S.wf, S.noPow] at hw hp
    have := ih hw hp h
    simp only [evalC]
    split <;> rename_i heq <;> rw [heq] at this
    · exact this
    · simp
    · split
      · simp
      · simp only [toCP_fst, ne_eq, toC_err]
        exact getProp_nm w x hx _ _ _
  | idx o k iho ihk =>
    intro hw hp h
    simp only [S.wf, S.noPow, Bool.and_eq_true] at hw hp
    have := iho hw.1 (fun hb => (hp hb).1) h
    simp only [evalC]
    split <;> rename_i heq <;> rw [heq] at this
    · exact this
    · simp
    · simp only [toCP_fst, ne_eq, toC_err]
      refine bindR_ne x _ _ ?_ (fun v h1 => getProp_nm w x hx _ _ h1)
      simp only [topP_fst, ne_eq, top_err]
      exact ihk hw.2 (fun hb => (hp hb).2) _
  | nullish a b iha ihb =>
    intro hw hp h
    simp only [S.wf, S.noPow, Bool.and_eq_true] at hw hp
    simp only [evalC, toCP_fst, ne_eq, toC_err]
    refine bindR_ne x _ _ ?_ (fun v h1 => ?_)
    · simp only [topP_fst, ne_eq, top_err]
      exact iha hw.1 (fun hb => (hp hb).1) h
    · split
      · simp only [topP_fst, ne_eq, top_err]
        exact ihb hw.2 (fun hb => (hp hb).2) h1
      · simp
  | tcat p sb tail ihp ihs =>
    intro hw hp h
    simp only [S.wf, S.noPow, Bool.and_eq_true] at hw hp
    simp only [evalC, toCP_fst, ne_eq, toC_err]
    have hpv := tpl_str w p hw.1.1 h
    rcases hpe : evalC w p h with ⟨cp, h1⟩
    have hpn := ihp hw.1.2 (fun hb => (hp hb).1) h
    rw [hpe] at hpv hpn
    simp only at hpv hpn
    cases cp with
    | err y =>
      rw [show topP (CRes.err y, h1) = (Res.err y, h1) from rfl]
      simp only [bindR_err]
      intro hc
      simp only [Res.err.injEq] at hc
      exact hpn (by rw [hc])
    | short =>
      have := tpl_not_short w p hw.1.1 h
      rw [hpe] at this
      exact absurd rfl this
    | val pv =>
      obtain ⟨s, hs⟩ := hpv pv rfl
      subst hs
      rw [show topP (CRes.val (Val.str s), h1) = (Res.val (.str s), h1) from rfl]
      simp only [bindR_val]
      refine bindR_ne x _ _ ?_ (fun v h2 => ?_)
      · simp only [topP_fst, ne_eq, top_err]
        exact ihs hw.2 (fun hb => (hp hb).2) h1
      · rcases hts : toStr w v h2 with ⟨c, h3⟩
        have h1' := toStr_nm w x hx v h2
        have h2' := toStr_str w v h2
        rw [hts] at h1' h2'
        cases c with
        | err y => simpa using h1'
        | val t =>
          obtain ⟨ts, hts'⟩ := h2' t rfl
          subst hts'
          simp
  | asgVar y op r ih =>
    intro hw hp h
    simp only [S.wf, S.noPow, Bool.and_eq_true, bne_iff_ne] at hw hp
    simp only [evalC, toCP_fst, ne_eq, toC_err]
    refine assignOp_nm w x hx op (fun hb => (hp hb).1) _ _ _ (fun h' => ?_) (fun v h' => by simp [setVar]) h
    simp only [topP_fst, ne_eq, top_err]
    exact ih hw (fun hb => (hp hb).2) h'
  | asgDot o p op r iho ihr =>
    intro hw hp h
    simp only [S.wf, S.noPow, Bool.and_eq_true, bne_iff_ne] at hw hp
    simp only [evalC, toCP_fst, ne_eq, toC_err]
    refine bindR_ne x _ _ ?_ (fun ov h1 => ?_)
    · simp only [topP_fst, ne_eq, top_err]
      exact iho hw.1 (fun hb => (hp hb).1.2) h
    · refine bindR_ne x _ _ (getProp_nm w x hx _ _ h1) (fun lv h2 => ?_)
      refine assignOp_nm w x hx op (fun hb => (hp hb).1.1) _ _ _ (fun h' => ?_) (fun v h' => setProp_nm w x hx _ _ _ h') h2
      simp only [topP_fst, ne_eq, top_err]
      exact ihr hw.2 (fun hb => (hp hb).2) h'
  | asgIdx o k op r iho ihk ihr =>
    intro hw hp h
    simp only [S.wf, S.noPow, Bool.and_eq_true, bne_iff_ne] at hw hp
    simp only [evalC, toCP_fst, ne_eq, toC_err]
    refine bindR_ne x _ _ ?_ (fun ov h1 => ?_)
    · simp only [topP_fst, ne_eq, top_err]
      exact iho hw.1.1 (fun hb => (hp hb).1.1.2) h
    · refine bindR_ne x _ _ ?_ (fun kv h2 => ?_)
      · simp only [topP_fst, ne_eq, top_err]
        exact ihk hw.1.2 (fun hb => (hp hb).1.2) h1
      · refine bindR_ne x _ _ (getProp_nm w x hx _ _ h2) (fun lv h3 => ?_)
        refine assignOp_nm w x hx op (fun hb => (hp hb).1.1.1) _ _ _ (fun h' => ?_)
          (fun v h' => setProp_nm w x hx _ _ _ h') h3
        simp only [topP_fst, ne_eq, top_err]
        exact ihr hw.2 (fun hb => (hp hb).2) h'
  | this => intro _ _ h; simp [evalC]
  | optIdx o k iho ihk =>
    intro hw hp h
    simp only [S.wf, S.noPow, Bool.and_eq_true] at hw hp
    have := iho hw.1 (fun hb => (hp hb).1) h
    simp only [evalC]
    split <;> rename_i heq <;> rw [heq] at this
    · exact this
    · simp
    · split
      · simp
      · simp only [toCP_fst, ne_eq, toC_err]
        refine bindR_ne x _ _ ?_ (fun v h1 => getProp_nm w x hx _ _ h1)
        simp only [topP_fst, ne_eq, top_err]
        exact ihk hw.2 (fun hb => (hp hb).2) _
  | vcall opt tpl f n a b ihf iha ihb =>
    intro hw hp h
    simp only [S.wf, S.noPow, Bool.and_eq_true] at hw hp
    simp only [evalC]
    refine vcallSem_nm w x opt _ _ (ihf hw.1.1 (fun hb => (hp hb).1.1) h) (fun fv tv h1 => ?_)
    refine callWith_nm w x hx fv tv _ (fun h2 => argsS_nm x tpl n _ _ (fun h3 => ?_) (fun h3 => ?_) h2) h1
    · simp only [topP_fst, ne_eq, top_err]; exact iha hw.1.2 (fun hb => (hp hb).1.2) h3
    · simp only [topP_fst, ne_eq, top_err]; exact ihb hw.2 (fun hb => (hp hb).2) h3
  | mcall mode tpl optLink lk o k n a b iho ihk iha ihb =>
    intro hw hp h
    simp only [S.wf, S.noPow, Bool.and_eq_true] at hw hp
    simp only [evalC]
    refine mcallSem_nm w x mode _ _ ?_ (fun fv tv h1 => ?_)
    · refine memSem_nm x optLink _ _ (iho hw.1.1.1 (fun hb => (hp hb).1.1.1) h) (fun ov h1 => ?_)
      refine linkGet_nm w x hx lk _ (fun h2 => ?_) ov h1
      simp only [topP_fst, ne_eq, top_err]; exact ihk hw.1.1.2 (fun hb => (hp hb).1.1.2) h2
    · refine callWith_nm w x hx fv tv _ (fun h2 => argsS_nm x tpl n _ _ (fun h3 => ?_) (fun h3 => ?_) h2) h1
      · simp only [topP_fst, ne_eq, top_err]; exact iha hw.1.2 (fun hb => (hp hb).1.2) h3
      · simp only [topP_fst, ne_eq, top_err]; exact ihb hw.2 (fun hb => (hp hb).2) h3
  | del optLink lk o k iho ihk =>
    intro hw hp h
    simp only [S.wf, S.noPow, Bool.and_eq_true] at hw hp
    simp only [evalC]
    refine delSem_nm x optLink _ _ (iho hw.1 (fun hb => (hp hb).1) h) (fun ov h1 => ?_)
    refine linkDel_nm w x hx lk _ (fun h2 => ?_) ov h1
    simp only [topP_fst, ne_eq, top_err]; exact ihk hw.2 (fun hb => (hp hb).2) h2
  | delVal a ih =>
    intro hw hp h
    simp only [S.wf, S.noPow] at hw hp
    simp only [evalC]
    exact delValSem_nm x _ (ih hw hp h)

-- ---------------------------------------------------------------- a state property preserved by every evaluation step

/-- If events, assignments to variables and GetTemplateObject preserve a property of the state, every source
evaluation does (used for: a template object, once created, stays cached). -/
structure StepInv (w : World) (P : H → Prop) : Prop where
  ev : ∀ ev h, P h → P (doEv w ev h).2
  var : ∀ x v h, P h → P (setVar x v h).2
  tpl : ∀ site h, P h → P (getTpl site h).2

section stepinv
variable {w : World} {P : H → Prop} (hi : StepInv w P)
include hi

theorem toPrim_inv (b : Bool) (v : Val) (h : H) (hp : P h) : P (toPrim w b v h).2 := by
  unfold toPrim
  split
  · refine bindR_inv P _ _ (hi.ev _ h hp) (fun p h1 hp1 => ?_)
    split <;> exact hp1
  · exact hp

theorem getProp_inv (ov kv : Val) (h : H) (hp : P h) : P (getProp w ov kv h).2 := by
  unfold getProp
  split
  · exact hp
  · exact bindR_inv P _ _ (toPrim_inv hi _ _ h hp) (fun p h1 hp1 => hi.ev _ h1 hp1)

theorem setProp_inv (ov kv v : Val) (h : H) (hp : P h) : P (setProp w ov kv v h).2 := by
  unfold setProp
  split
  · exact hp
  · refine bindR_inv P _ _ (toPrim_inv hi _ _ h hp) (fun p h1 hp1 => ?_)
    exact bindR_inv P _ _ (hi.ev _ h1 hp1) (fun _ h2 hp2 => hp2)

theorem delProp_inv (ov kv : Val) (h : H) (hp : P h) : P (delProp w ov kv h).2 := by
  unfold delProp
  split
  · exact hp
  · refine bindR_inv P _ _ (toPrim_inv hi _ _ h hp) (fun p h1 hp1 => ?_)
    exact bindR_inv P _ _ (hi.ev _ h1 hp1) (fun _ h2 hp2 => hp2)

theorem toStr_inv (v : Val) (h : H) (hp : P h) : P (toStr w v h).2 := by
  unfold toStr
  refine bindR_inv P _ _ (toPrim_inv hi _ _ h hp) (fun p h1 hp1 => ?_)
  split <;> exact hp1

theorem toNumeric_inv (v : Val) (h : H) (hp : P h) : P (toNumeric w v h).2 := by
  unfold toNumeric
  refine bindR_inv P _ _ (toPrim_inv hi _ _ h hp) (fun p h1 hp1 => ?_)
  split <;> exact hp1

theorem powOp_inv (l r : Val) (h : H) (hp : P h) : P (powOp w l r h).2 := by
  unfold powOp
  refine bindR_inv P _ _ (toNumeric_inv hi _ h hp) (fun p h1 hp1 => ?_)
  split
  · refine bindR_inv P _ _ (toNumeric_inv hi _ h1 hp1) (fun q h2 hq => ?_)
    split <;> exact hq
  · exact hp1

theorem assignOp_inv (op : AOp) (lval : Val) (rhs : H → Res × H) (put : Val → H → Res × H)
    (h1 : ∀ h, P h → P (rhs h).2) (h2 : ∀ v h, P h → P (put v h).2) (h : H) (hp : P h) :
    P (assignOp w op lval rhs put h).2 := by
  cases op <;> simp only [assignOp]
  · split
    · exact hp
    · exact bindR_inv P _ _ (h1 h hp) (fun v h' hp' => h2 v h' hp')
  · split
    · exact bindR_inv P _ _ (h1 h hp) (fun v h' hp' => h2 v h' hp')
    · exact hp
  · split
    · exact bindR_inv P _ _ (h1 h hp) (fun v h' hp' => h2 v h' hp')
    · exact hp
  · refine bindR_inv P _ _ (h1 h hp) (fun v h' hp' => ?_)
    exact bindR_inv P _ _ (powOp_inv hi _ _ h' hp') (fun v h'' hp'' => h2 v h'' hp'')

theorem invoke_inv (fv tv : Val) (vs : List Val) (h : H) (hp : P h) : P (invoke w fv tv vs h).2 := by
  unfold invoke
  split
  · exact hi.ev _ h hp
  · exact hp

theorem linkGet_inv (lk : Link) (fk : H → Res × H) (hfk : ∀ h, P h → P (fk h).2) (ov : Val) (h : H) (hp : P h) :
    P (linkGet w lk fk ov h).2 := by
  cases lk with
  | dot p => exact getProp_inv hi _ _ h hp
  | idx => exact bindR_inv P _ _ (hfk h hp) (fun kv h1 hp1 => getProp_inv hi _ _ h1 hp1)

theorem linkDel_inv (lk : Link) (fk : H → Res × H) (hfk : ∀ h, P h → P (fk h).2) (ov : Val) (h : H) (hp : P h) :
    P (linkDel w lk fk ov h).2 := by
  cases lk with
  | dot p => exact delProp_inv hi _ _ h hp
  | idx => exact bindR_inv P _ _ (hfk h hp) (fun kv h1 hp1 => delProp_inv hi _ _ h1 hp1)

theorem evalC_inv : ∀ (e : S) (h : H), P h → P (evalC w e h).2 := by
  intro e
  have hcall : ∀ (tpl : Option TplSite) (n : Nat) (fa fb : H → Res × H),
      (∀ h, P h → P (fa h).2) → (∀ h, P h → P (fb h).2) →
      ∀ fv tv h, P h → P (callWith w fv tv (argsS tpl n fa fb) h).2 := by
    intro tpl n fa fb ha hb fv tv h hp
    exact callWith_inv P w fv tv _ h (argsS_inv P tpl n fa fb hi.tpl ha hb h hp)
      (fun vs h1 hp1 => invoke_inv hi _ _ _ h1 hp1)
  induction e with
  | id y => intro h hp; exact hp
  | lit v => intro h hp; exact hp
  | tstr s => intro h hp; exact hp
  | this => intro h hp; exact hp
  | call f a ih =>
    intro h hp
    simp only [evalC, toCP_snd]
    exact bindR_inv P _ _ (ih h hp) (fun v h1 hp1 => hi.ev _ h1 hp1)
  | dot o p ih =>
    intro h hp
    have := ih h hp
    simp only [evalC]
    split <;> rename_i heq <;> rw [heq] at this
    · exact this
    · exact this
    · exact getProp_inv hi _ _ _ this
  | optDot o p ih =>
    intro h hp
    have := ih h hp
    simp only [evalC]
    split <;> rename_i heq <;> rw [heq] at this
    · exact this
    · exact this
    · split
      · exact this
      · exact getProp_inv hi _ _ _ this
  | paren a ih => intro h hp; simpa [evalC] using ih h hp
  | idx o k iho ihk =>
    intro h hp
    have := iho h hp
    simp only [evalC]
    split <;> rename_i heq <;> rw [heq] at this
    · exact this
    · exact this
    · simp only [toCP_snd]
      exact bindR_inv P _ _ (ihk _ this) (fun v h1 hp1 => getProp_inv hi _ _ h1 hp1)
  | optIdx o k iho ihk =>
    intro h hp
    have := iho h hp
    simp only [evalC]
    split <;> rename_i heq <;> rw [heq] at this
    · exact this
    · exact this
    · split
      · exact this
      · simp only [toCP_snd]
        exact bindR_inv P _ _ (ihk _ this) (fun v h1 hp1 => getProp_inv hi _ _ h1 hp1)
  | nullish a b iha ihb =>
    intro h hp
    simp only [evalC, toCP_snd]
    refine bindR_inv P _ _ (iha h hp) (fun v h1 hp1 => ?_)
    split
    · exact ihb h1 hp1
    · exact hp1
  | tcat p s tail ihp ihs =>
    intro h hp
    simp only [evalC, toCP_snd]
    refine bindR_inv P _ _ (ihp h hp) (fun v h1 hp1 => ?_)
    split
    · refine bindR_inv P _ _ (ihs h1 hp1) (fun v h2 hp2 => ?_)
      refine bindR_inv P _ _ (toStr_inv hi _ h2 hp2) (fun v h3 hp3 => ?_)
      split <;> exact hp3
    · exact hp1
  | asgVar y op r ih =>
    intro h hp
    simp only [evalC, toCP_snd]
    exact assignOp_inv hi _ _ _ _ (fun h' hp' => ih h' hp') (fun v h' hp' => hi.var y v h' hp') h hp
  | asgDot o p op r iho ihr =>
    intro h hp
    simp only [evalC, toCP_snd]
    refine bindR_inv P _ _ (iho h hp) (fun ov h1 hp1 => ?_)
    refine bindR_inv P _ _ (getProp_inv hi _ _ h1 hp1) (fun lv h2 hp2 => ?_)
    exact assignOp_inv hi _ _ _ _ (fun h' hp' => ihr h' hp') (fun v h' hp' => setProp_inv hi _ _ _ h' hp') h2 hp2
  | asgIdx o k op r iho ihk ihr =>
    intro h hp
    simp only [evalC, toCP_snd]
    refine bindR_inv P _ _ (iho h hp) (fun ov h1 hp1 => ?_)
    refine bindR_inv P _ _ (ihk h1 hp1) (fun kv h2 hp2 => ?_)
    refine bindR_inv P _ _ (getProp_inv hi _ _ h2 hp2) (fun lv h3 hp3 => ?_)
    exact assignOp_inv hi _ _ _ _ (fun h' hp' => ihr h' hp') (fun v h' hp' => setProp_inv hi _ _ _ h' hp') h3 hp3
  | vcall opt tpl f n a b ihf iha ihb =>
    intro h hp
    simp only [evalC]
    exact vcallSem_inv P w opt _ _ (ihf h hp) (hcall tpl n _ _ (fun h' hp' => iha h' hp') (fun h' hp' => ihb h' hp'))
  | mcall mode tpl optLink lk o k n a b iho ihk iha ihb =>
    intro h hp
    simp only [evalC]
    refine mcallSem_inv P w mode _ _ ?_ (hcall tpl n _ _ (fun h' hp' => iha h' hp') (fun h' hp' => ihb h' hp'))
    exact memSem_inv P optLink _ _ (iho h hp) (fun ov h1 hp1 => linkGet_inv hi lk _ (fun h' hp' => ihk h' hp') ov h1 hp1)
  | del optLink lk o k iho ihk =>
    intro h hp
    simp only [evalC]
    exact delSem_inv P optLink _ _ (iho h hp) (fun ov h1 hp1 => linkDel_inv hi lk _ (fun h' hp' => ihk h' hp') ov h1 hp1)
  | delVal a ih =>
    intro h hp
    simp only [evalC]
    exact delValSem_inv P _ (ih h hp)

end stepinv

/-- once a tagged-template site has its array, it keeps it -/
theorem tcell_stepInv (w : World) (site g : Nat) : StepInv w (fun h => h.tcell site = some g) := by
  constructor
  · intro ev h hp
    unfold doEv
    split <;> exact hp
  · intro x v h hp; exact hp
  · intro st h hp
    unfold getTpl
    split
    · exact hp
    · rename_i hn
      simp only
      split
      · rename_i heq; subst heq; rw [hp] at hn; cases hn
      · exact hp
