import EsbuildModel.Lemmas.ScopesLinks
import EsbuildModel.Lemmas.ScopesCount
import EsbuildModel.Lemmas.ScopesSlots
/-!
The label symbols of the scope tree a file ends with: each is a renameable symbol of kind SymbolLabel and is declared
exactly once in the whole tree.
-/
namespace EsbuildModel.Scopes

theorem count_le_of_below {n : Nat} {l : List Nat} {x : Nat} (h : ∀ s, s ∈ l → s < n) (hx : n ≤ x) : l.count x = 0 := by
  rw [List.count_eq_zero]
  intro hm; exact absurd (h x hm) (Nat.not_lt.mpr hx)

theorem run_labels {full esm us : Bool} {items : List Item} {r : Result}
    (h : run full esm us items = some r) :
    ∀ l, l ∈ r.tree.labelsL → IsLab r.syms l ∧ r.tree.all.count l = 1 := by
  unfold run at h
  simp only at h
  split at h
  · cases h
  · next p hp =>
    have hp0 : PLinks ⟨⟨.entry, if us = true then 1 else 0, [], [], [], none, false⟩, [], ⟨[], [], []⟩⟩ :=
      ⟨by intro s hs; simp [Frame.decls, refsOf] at hs, by intro i s t hs; simp at hs, by intro r hr; simp at hr, rfl, rfl,
        by intro s hs; simp [allKids] at hs⟩
    obtain ⟨hpl, _⟩ := parseItems_links items _ p hp hp0
    have ht0b : (Sc.node p.cur p.kids).Below p.st.syms.length := by
      intro s hs
      simp only [Sc.all, List.mem_append] at hs
      rcases hs with hs | hs
      · exact hpl.bnd s hs
      · exact hpl.kbnd s hs
    have ht0l : (Sc.node p.cur p.kids).labelsL = [] := by
      simp only [Sc.labelsL, hpl.lab, hpl.klab, Option.toList, List.append_nil]
    have ht1b : (if esm = true then setStrictRec 3 (Sc.node p.cur p.kids) else Sc.node p.cur p.kids).Below
        p.st.syms.length := by
      split
      · intro s hs; rw [setStrictRec_all] at hs; exact ht0b s hs
      · exact ht0b
    have ht1l : (if esm = true then setStrictRec 3 (Sc.node p.cur p.kids) else Sc.node p.cur p.kids).labelsL = [] := by
      split
      · rw [setStrictRec_labels]; exact ht0l
      · exact ht0l
    split at h
    · cases h
    · next anc2 tree2 hst hh =>
      obtain ⟨hl, _, hall, _⟩ := hoistSc_spec esm _ _ _ _ _ _ hh
      obtain ⟨hlk, _, hlab2⟩ := hoistSc_links esm _ _ _ _ _ _ hh hpl.links (by intro f hf; simp at hf) ht1b
      rw [ht1l] at hlab2
      have ht2b : ∀ s, s ∈ tree2.all → s < hst.syms.length := by
        intro s hs
        rcases hall s hs with h1 | h1
        · exact Nat.lt_of_lt_of_le (ht1b s h1) hl
        · exact h1.2
      split at h
      · cases h
      · next v hv =>
        cases h
        cases tree2 with
        | node f2 kids2 =>
          simp only [Sc.labelsL, List.append_eq_nil_iff] at hlab2
          have hf2lab : f2.label = none := by
            cases hfl : f2.label with
            | none => rfl
            | some l => rw [hfl] at hlab2; simp at hlab2
          -- the symbol table the visit pass starts from
          have hl3 : LinksOld hst.syms.length (hst.syms ++ [⟨.unbound, nameRequire, none, false⟩,
              ⟨.hoisted, nameExports, none, false⟩, ⟨.hoisted, nameModule, none, false⟩]) := by
            have e : hst.syms ++ [⟨.unbound, nameRequire, none, false⟩, ⟨.hoisted, nameExports, none, false⟩,
                ⟨.hoisted, nameModule, none, false⟩] =
                ((hst.syms ++ [⟨.unbound, nameRequire, none, false⟩]) ++ [⟨.hoisted, nameExports, none, false⟩])
                  ++ [⟨.hoisted, nameModule, none, false⟩] := by simp
            rw [e]
            exact linksOld_append (linksOld_append (linksOld_append hlk _ _) _ _) _ _
          have hv0 : VLab hst.syms.length ⟨(Sc.node f2 kids2).frame, (Sc.node f2 kids2).children, [], [], [], none, none,
              ⟨hst.syms ++ [⟨.unbound, nameRequire, none, false⟩, ⟨.hoisted, nameExports, none, false⟩,
                ⟨.hoisted, nameModule, none, false⟩], [], hst.hmap, p.st.declRefs⟩⟩ := by
            refine ⟨by simp, ?_, hlab2.2, ?_, ?_, ?_, hl3, ?_, by simp, by simp, by simp⟩
            · intro s hs
              exact ht2b s (by simp only [Sc.all, List.mem_append]; exact Or.inr hs)
            · intro f hf l hlb
              simp only [Sc.frame, List.mem_singleton] at hf
              subst hf; rw [hf2lab] at hlb; cases hlb
            · intro l hlb; simp [labelsKids] at hlb
            · intro f hf m hm
              simp only [Sc.frame, List.mem_singleton] at hf
              subst hf
              exact Or.inl (ht2b m (by simp only [Sc.all, List.mem_append]; exact Or.inl (mem_decls.mpr (Or.inl hm))))
            · intro x hx
              exact Nat.lt_of_lt_of_le (hpl.refs x hx) hl
          obtain ⟨hvl, _⟩ := visitItems_lab full hst.syms.length items _ v hv hv0
          have ufin : SUpd hst.syms.length v.st.syms (pinMembers v.cur v.st.syms) :=
            SUpd.pinMembers _ _ (hvl.mem v.cur (by simp))
          intro l hlm
          simp only [Sc.labelsL, List.mem_append, Option.mem_toList] at hlm
          have hL : hst.syms.length ≤ l ∧ IsLab v.st.syms l := by
            rcases hlm with hlm | hlm
            · exact hvl.chainLab v.cur (by simp) l hlm
            · exact hvl.doneLab l hlm
          refine ⟨ufin.isLab hL.1 hL.2, ?_⟩
          -- declared exactly once
          obtain ⟨hcnt, _⟩ := visitItems_count full l items _ v hv
          have h0 : Total l ⟨(Sc.node f2 kids2).frame, (Sc.node f2 kids2).children, [], [], [], none, none,
              ⟨hst.syms ++ [⟨.unbound, nameRequire, none, false⟩, ⟨.hoisted, nameExports, none, false⟩,
                ⟨.hoisted, nameModule, none, false⟩], [], hst.hmap, p.st.declRefs⟩⟩ = 0 := by
            have := count_le_of_below ht2b hL.1
            simp only [Total, cntF, cntKids, cntChain, Sc.frame, Sc.children, allKids, List.count_nil]
            simp only [Sc.all, List.count_append] at this
            omega
          have hind : ∀ a b, ind a b l ≤ 1 := by intro a b; unfold ind; split <;> omega
          have hT : Total l v ≤ 1 := by
            refine Nat.le_trans hcnt ?_
            rw [h0, Nat.zero_add]
            exact hind _ _
          have hle : (Sc.node v.cur v.done).all.count l ≤ 1 := by
            have hT' : (v.cur.decls.count l) + ((allKids v.done).count l) ≤ 1 := by
              unfold Total cntF cntKids at hT
              omega
            simp only [Sc.all, List.count_append]
            exact hT'
          have hge : 1 ≤ (Sc.node v.cur v.done).all.count l := by
            rw [Nat.succ_le_iff, List.count_pos_iff]
            simp only [Sc.all, List.mem_append]
            rcases hlm with hlm | hlm
            · exact Or.inl (mem_decls.mpr (Or.inr (Or.inr hlm)))
            · -- a label of a visited child is declared by that child
              have : ∀ (ks : List Sc), l ∈ labelsKids ks → l ∈ allKids ks := by
                intro ks
                exact labelsKids_sub_all ks l
              exact Or.inr (this _ hlm)
          exact Nat.le_antisymm hle hge

end EsbuildModel.Scopes
