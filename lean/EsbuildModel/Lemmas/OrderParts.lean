import EsbuildModel.Lemmas.Order
/-! Part-level bookkeeping of `findImportedPartsInJSOrder`: what a list of part ranges denotes (`expand`),
what `appendOrExtendPartRange` does to it, the canonical list of parts one file contributes
(`emitE` to `jsParts`, `emitP` to `jsPartsPrefix`), and the algebra of "segments" (the emission of a
completed sub-traversal, characterised file by file). -/
namespace EsbuildModel.Order
open EsbuildModel.Dfs (Edge Reach)

/-- the (file, part index) pairs one range denotes -/
def expandRange (r : Range) : List (Nat × Nat) := (List.range' r.b (r.e - r.b)).map (fun i => (r.src, i))

/-- the (file, part index) pairs a range list denotes, in emission order -/
def expand (rs : List Range) : List (Nat × Nat) := rs.flatMap expandRange

def RangesOK (rs : List Range) : Prop := ∀ r ∈ rs, r.b ≤ r.e

theorem expand_append (a b : List Range) : expand (a ++ b) = expand a ++ expand b := by
  simp [expand]

theorem expand_nil : expand [] = [] := rfl

theorem expand_single (s p : Nat) : expand [⟨s, p, p + 1⟩] = [(s, p)] := by
  simp [expand, expandRange]

theorem expandRange_grow (r : Range) (h : r.b ≤ r.e) :
    expandRange { r with e := r.e + 1 } = expandRange r ++ [(r.src, r.e)] := by
  unfold expandRange
  have : r.e + 1 - r.b = (r.e - r.b) + 1 := by omega
  simp only [this, List.range'_concat, List.map_append, List.map_cons, List.map_nil]
  have h2 : r.b + 1 * (r.e - r.b) = r.e := by omega
  rw [h2]

/-- `appendOrExtendPartRange` appends exactly one (file, part) pair to what the list denotes -/
theorem expand_extend (rs : List Range) (s p : Nat) (h : RangesOK rs) :
    expand (extend rs s p) = expand rs ++ [(s, p)] ∧ RangesOK (extend rs s p) := by
  unfold extend
  cases hl : rs.getLast? with
  | none =>
    have : rs = [] := by simpa using hl
    subst this
    refine ⟨by simp [expand_single, expand_nil], ?_⟩
    intro r hr; simp at hr; subst hr; simp
  | some r =>
    obtain ⟨ys, rfl⟩ := List.getLast?_eq_some_iff.1 hl
    simp only
    have hr : r.b ≤ r.e := h r (by simp)
    have hys : RangesOK ys := fun x hx => h x (by simp [hx])
    split
    · rename_i hc
      obtain ⟨h1, h2⟩ := hc
      rw [List.dropLast_concat]
      refine ⟨?_, ?_⟩
      · rw [expand_append, expand_append]
        have := expandRange_grow r hr
        subst h1; subst h2
        simp only [expand, List.flatMap_cons, List.flatMap_nil, List.append_nil, this, List.append_assoc]
      · intro x hx
        rcases List.mem_append.1 hx with hx | hx
        · exact hys x hx
        · simp at hx; subst hx; simp; omega
    · refine ⟨by rw [expand_append, expand_single], ?_⟩
      intro x hx
      rcases List.mem_append.1 hx with hx | hx
      · exact h x hx
      · simp at hx; subst hx; simp

/-- the block of a wrapped file -/
def block (f n : Nat) : List (Nat × Nat) := (List.range n).map (fun i => (f, i))

theorem expand_block (f n : Nat) : expand [⟨f, 0, n⟩] = block f n := by
  simp [expand, expandRange, block, List.range_eq_range']

/-- filter by source file -/
def onFile (x : Nat) (l : List (Nat × Nat)) : List (Nat × Nat) := l.filter (fun q => q.1 == x)

theorem onFile_append (x : Nat) (a b : List (Nat × Nat)) : onFile x (a ++ b) = onFile x a ++ onFile x b := by
  simp [onFile]

theorem onFile_nil (x : Nat) : onFile x [] = [] := rfl

theorem onFile_eq_nil {x : Nat} {l : List (Nat × Nat)} (h : ∀ q ∈ l, q.1 ≠ x) : onFile x l = [] := by
  simp only [onFile, List.filter_eq_nil_iff]
  intro q hq; simpa using h q hq

theorem onFile_eq_self {x : Nat} {l : List (Nat × Nat)} (h : ∀ q ∈ l, q.1 = x) : onFile x l = l := by
  simp only [onFile, List.filter_eq_self]
  intro q hq; simpa using h q hq

theorem mem_onFile {x : Nat} {l : List (Nat × Nat)} {q : Nat × Nat} : q ∈ onFile x l ↔ q ∈ l ∧ q.1 = x := by
  simp [onFile]

/-! ## what one file contributes -/

/-- the condition under which the part loop appends part `idx` (to `jsParts`, or to the prefix for the runtime) -/
def loopCond (file : File) (idx : Nat) (p : Part) : Bool :=
  file.inChunk && p.live && file.canSplit && idx != 0 && p.incl

/-- pairs the part loop appends to `jsParts` for the parts `ps` starting at index `idx` -/
def loopE (f : Nat) (file : File) : Nat → List Part → List (Nat × Nat)
  | _, [] => []
  | idx, p :: ps => (if loopCond file idx p && f != 0 then [(f, idx)] else []) ++ loopE f file (idx + 1) ps

/-- pairs the part loop appends to `jsPartsPrefix` (runtime only) -/
def loopP (f : Nat) (file : File) : Nat → List Part → List (Nat × Nat)
  | _, [] => []
  | idx, p :: ps => (if loopCond file idx p && f == 0 then [(f, idx)] else []) ++ loopP f file (idx + 1) ps

/-- the namespace-export part, appended on entry -/
def headE (f : Nat) (file : File) : List (Nat × Nat) :=
  if file.canSplit && file.inChunk then
    match file.parts with
    | [] => []
    | p0 :: _ => if p0.live then [(f, 0)] else []
  else []

/-- the block of a wrapped file, appended to the prefix when the file is finished -/
def tailP (f : Nat) (file : File) : List (Nat × Nat) :=
  if file.inChunk && !file.canSplit then block f file.parts.length else []

/-- everything file `f` contributes to `jsParts`, in order -/
def emitE (files : List File) (f : Nat) : List (Nat × Nat) :=
  match files[f]? with
  | none => []
  | some file => if file.isJS then headE f file ++ loopE f file 0 file.parts else []

/-- everything file `f` contributes to `jsPartsPrefix`, in order -/
def emitP (files : List File) (f : Nat) : List (Nat × Nat) :=
  match files[f]? with
  | none => []
  | some file => if file.isJS then loopP f file 0 file.parts ++ tailP f file else []

theorem loopE_spec (f : Nat) (file : File) : ∀ (ps : List Part) (idx : Nat),
    (loopE f file idx ps).Pairwise (fun a b => a.2 < b.2) ∧
    ∀ q, q ∈ loopE f file idx ps ↔
      q.1 = f ∧ idx ≤ q.2 ∧ ∃ p, ps[q.2 - idx]? = some p ∧ loopCond file q.2 p = true ∧ f ≠ 0 := by
  intro ps
  induction ps with
  | nil => intro idx; simp [loopE]
  | cons p ps ih =>
    intro idx
    obtain ⟨ih1, ih2⟩ := ih (idx + 1)
    unfold loopE
    refine ⟨?_, ?_⟩
    · rw [List.pairwise_append]
      refine ⟨by split <;> simp, ih1, ?_⟩
      intro a ha b hb
      have := (ih2 b).1 hb
      split at ha
      · simp at ha; subst ha; simp; omega
      · simp at ha
    · intro q
      rw [List.mem_append, ih2]
      constructor
      · rintro (h | ⟨h1, h2, p', h3, h4⟩)
        · split at h
          · rename_i hc
            simp at h; subst h
            simp only [Bool.and_eq_true, bne_iff_ne, ne_eq] at hc
            exact ⟨rfl, Nat.le_refl _, p, by simp, hc.1, hc.2⟩
          · simp at h
        · refine ⟨h1, by omega, p', ?_, h4⟩
          have : q.2 - idx = (q.2 - (idx + 1)) + 1 := by omega
          rw [this]; simpa using h3
      · rintro ⟨h1, h2, p', h3, h4, h5⟩
        by_cases he : q.2 = idx
        · left
          have : q.2 - idx = 0 := by omega
          rw [this] at h3
          simp at h3; subst h3
          rw [he] at h4
          simp only [h4, Bool.true_and, bne_iff_ne, ne_eq, h5, not_false_eq_true, if_true]
          simp
          exact Prod.ext h1 he
        · right
          refine ⟨h1, by omega, p', ?_, h4, h5⟩
          have : q.2 - idx = (q.2 - (idx + 1)) + 1 := by omega
          rw [this] at h3; simpa using h3

theorem loopP_spec (f : Nat) (file : File) : ∀ (ps : List Part) (idx : Nat),
    (loopP f file idx ps).Pairwise (fun a b => a.2 < b.2) ∧
    ∀ q, q ∈ loopP f file idx ps ↔
      q.1 = f ∧ idx ≤ q.2 ∧ ∃ p, ps[q.2 - idx]? = some p ∧ loopCond file q.2 p = true ∧ f = 0 := by
  intro ps
  induction ps with
  | nil => intro idx; simp [loopP]
  | cons p ps ih =>
    intro idx
    obtain ⟨ih1, ih2⟩ := ih (idx + 1)
    unfold loopP
    refine ⟨?_, ?_⟩
    · rw [List.pairwise_append]
      refine ⟨by split <;> simp, ih1, ?_⟩
      intro a ha b hb
      have := (ih2 b).1 hb
      split at ha
      · simp at ha; subst ha; simp; omega
      · simp at ha
    · intro q
      rw [List.mem_append, ih2]
      constructor
      · rintro (h | ⟨h1, h2, p', h3, h4⟩)
        · split at h
          · rename_i hc
            simp at h; subst h
            simp only [Bool.and_eq_true, beq_iff_eq] at hc
            exact ⟨rfl, Nat.le_refl _, p, by simp, hc.1, hc.2⟩
          · simp at h
        · refine ⟨h1, by omega, p', ?_, h4⟩
          have : q.2 - idx = (q.2 - (idx + 1)) + 1 := by omega
          rw [this]; simpa using h3
      · rintro ⟨h1, h2, p', h3, h4, h5⟩
        by_cases he : q.2 = idx
        · left
          have : q.2 - idx = 0 := by omega
          rw [this] at h3
          simp at h3; subst h3
          rw [he] at h4
          simp only [h4, Bool.true_and, beq_iff_eq, h5, if_true]
          simp
          exact Prod.ext (h1.trans h5) he
        · right
          refine ⟨h1, by omega, p', ?_, h4, h5⟩
          have : q.2 - idx = (q.2 - (idx + 1)) + 1 := by omega
          rw [this] at h3; simpa using h3

theorem mem_headE (f : Nat) (file : File) (q : Nat × Nat) :
    q ∈ headE f file ↔ q = (f, 0) ∧ file.canSplit = true ∧ file.inChunk = true ∧
      ∃ p, file.parts[0]? = some p ∧ p.live = true := by
  unfold headE
  cases file.canSplit <;> cases file.inChunk <;> simp
  cases file.parts with
  | nil => simp
  | cons p0 ps => cases h : p0.live <;> simp [h]

theorem mem_block (f n : Nat) (q : Nat × Nat) : q ∈ block f n ↔ q.1 = f ∧ q.2 < n := by
  unfold block
  simp only [List.mem_map, List.mem_range]
  constructor
  · rintro ⟨i, hi, rfl⟩; exact ⟨rfl, hi⟩
  · rintro ⟨h1, h2⟩; exact ⟨q.2, h2, Prod.ext h1.symm rfl⟩

theorem block_sorted (f n : Nat) : (block f n).Pairwise (fun a b => a.2 < b.2) := by
  unfold block
  rw [List.pairwise_map]
  have := List.pairwise_lt_range (n := n)
  exact this

/-- the parts a file contributes to `jsParts` come in strictly increasing index order (part 0 first) -/
theorem emitE_sorted (files : List File) (f : Nat) : (emitE files f).Pairwise (fun a b => a.2 < b.2) := by
  unfold emitE
  split
  · simp
  · rename_i file _
    split
    · rw [List.pairwise_append]
      refine ⟨?_, (loopE_spec f file file.parts 0).1, ?_⟩
      · unfold headE; split
        · split
          · simp
          · split <;> simp
        · simp
      · intro a ha b hb
        rw [mem_headE] at ha
        have hb' := ((loopE_spec f file file.parts 0).2 b).1 hb
        obtain ⟨_, _, p, _, hc, _⟩ := hb'
        simp only [loopCond, Bool.and_eq_true, bne_iff_ne, ne_eq] at hc
        rw [ha.1]; simp; omega
    · simp

/-- the parts a file contributes to `jsPartsPrefix` come in strictly increasing index order -/
theorem emitP_sorted (files : List File) (f : Nat) : (emitP files f).Pairwise (fun a b => a.2 < b.2) := by
  unfold emitP
  split
  · simp
  · rename_i file _
    split
    · rw [List.pairwise_append]
      refine ⟨(loopP_spec f file file.parts 0).1, ?_, ?_⟩
      · unfold tailP; split
        · exact block_sorted _ _
        · simp
      · intro a ha b hb
        have ha' := ((loopP_spec f file file.parts 0).2 a).1 ha
        obtain ⟨_, _, p, _, hc, _⟩ := ha'
        simp only [loopCond, Bool.and_eq_true] at hc
        unfold tailP at hb
        split at hb
        · rename_i hw
          simp only [Bool.and_eq_true, Bool.not_eq_true'] at hw
          rw [hw.2] at hc; simp at hc
        · simp at hb
    · simp

theorem mem_emitE (files : List File) (f : Nat) (q : Nat × Nat) :
    q ∈ emitE files f ↔ q.1 = f ∧ ∃ file p, files[f]? = some file ∧ file.isJS = true ∧ file.inChunk = true ∧
      file.canSplit = true ∧ file.parts[q.2]? = some p ∧ p.live = true ∧ (q.2 = 0 ∨ (p.incl = true ∧ f ≠ 0)) := by
  unfold emitE
  cases hf : files[f]? with
  | none => simp
  | some file =>
    simp only [Option.some.injEq, exists_and_left, exists_eq_left']
    cases hjs : file.isJS with
    | false => simp
    | true =>
      simp only [if_true, List.mem_append, mem_headE, (loopE_spec f file file.parts 0).2 q, true_and]
      constructor
      · rintro (⟨rfl, h1, h2, p, h3, h4⟩ | ⟨h1, _, p, h3, h4, h5⟩)
        · exact ⟨rfl, h2, h1, p, h3, h4, Or.inl rfl⟩
        · simp only [loopCond, Bool.and_eq_true, bne_iff_ne, ne_eq] at h4
          exact ⟨h1, h4.1.1.1.1, h4.1.1.2, p, by simpa using h3, h4.1.1.1.2, Or.inr ⟨h4.2, h5⟩⟩
      · rintro ⟨h1, h2, h3, p, h4, h5, h6⟩
        by_cases h0 : q.2 = 0
        · left
          exact ⟨Prod.ext h1 h0, h3, h2, p, by rw [← h0]; exact h4, h5⟩
        · right
          rcases h6 with h6 | h6
          · exact absurd h6 h0
          · refine ⟨h1, Nat.zero_le _, p, by simpa using h4, ?_, h6.2⟩
            simp [loopCond, h2, h3, h5, h6.1, h0]

theorem mem_emitP (files : List File) (f : Nat) (q : Nat × Nat) :
    q ∈ emitP files f ↔ q.1 = f ∧ ∃ file, files[f]? = some file ∧ file.isJS = true ∧ file.inChunk = true ∧
      ((file.canSplit = true ∧ f = 0 ∧ q.2 ≠ 0 ∧ ∃ p, file.parts[q.2]? = some p ∧ p.live = true ∧ p.incl = true) ∨
       (file.canSplit = false ∧ q.2 < file.parts.length)) := by
  unfold emitP
  cases hf : files[f]? with
  | none => simp
  | some file =>
    simp only [Option.some.injEq, exists_eq_left']
    cases hjs : file.isJS with
    | false => simp
    | true =>
      simp only [if_true, List.mem_append, (loopP_spec f file file.parts 0).2 q, true_and]
      unfold tailP
      constructor
      · rintro (⟨h1, _, p, h3, h4, h5⟩ | h)
        · simp only [loopCond, Bool.and_eq_true, bne_iff_ne, ne_eq] at h4
          exact ⟨h1, h4.1.1.1.1, Or.inl ⟨h4.1.1.2, h5, h4.1.2, p, by simpa using h3, h4.1.1.1.2, h4.2⟩⟩
        · split at h
          · rename_i hw
            simp only [Bool.and_eq_true, Bool.not_eq_true'] at hw
            rw [mem_block] at h
            exact ⟨h.1, hw.1, Or.inr ⟨hw.2, h.2⟩⟩
          · simp at h
      · rintro ⟨h1, h2, h3 | h3⟩
        · left
          obtain ⟨h3, h4, h5, p, h6, h7, h8⟩ := h3
          refine ⟨h1, Nat.zero_le _, p, by simpa using h6, ?_, h4⟩
          simp [loopCond, h2, h3, h7, h8, h5]
        · right
          simp only [h2, h3.1, Bool.not_false, Bool.and_self, if_true, mem_block]
          exact ⟨h1, h3.2⟩

theorem emitE_src {files : List File} {f : Nat} {q : Nat × Nat} (h : q ∈ emitE files f) : q.1 = f :=
  ((mem_emitE files f q).1 h).1

theorem emitP_src {files : List File} {f : Nat} {q : Nat × Nat} (h : q ∈ emitP files f) : q.1 = f :=
  ((mem_emitP files f q).1 h).1

/-! ## segments: the emission of completed sub-traversals, file by file -/

/-- `n` consists, for every file entered between `v` and `v'`, of exactly that file's contribution in order -/
def Seg (v v' : List Nat) (n : List (Nat × Nat)) (emit : Nat → List (Nat × Nat)) : Prop :=
  ∀ x, onFile x n = if x ∈ v' ∧ x ∉ v then emit x else []

/-- the same while file `f` (already entered) is still being worked on and has contributed `own` -/
def SegX (v v' : List Nat) (n : List (Nat × Nat)) (emit : Nat → List (Nat × Nat)) (f : Nat)
    (own : List (Nat × Nat)) : Prop :=
  ∀ x, onFile x n = if x = f then own else if x ∈ v' ∧ x ∉ v then emit x else []

theorem Seg.refl (v : List Nat) (emit : Nat → List (Nat × Nat)) : Seg v v [] emit := by
  intro x; simp [onFile]

theorem Seg.trans {v v' v'' : List Nat} {a b : List (Nat × Nat)} {emit : Nat → List (Nat × Nat)}
    (h1 : Seg v v' a emit) (h2 : Seg v' v'' b emit) (m1 : ∀ x ∈ v, x ∈ v') (m2 : ∀ x ∈ v', x ∈ v'') :
    Seg v v'' (a ++ b) emit := by
  intro x
  rw [onFile_append, h1 x, h2 x]
  by_cases hv : x ∈ v
  · have := m1 x hv
    simp [hv, this]
  · by_cases hv' : x ∈ v'
    · simp [hv, hv', m2 x hv']
    · simp [hv, hv']

theorem SegX.refl (v : List Nat) (emit : Nat → List (Nat × Nat)) (f : Nat) : SegX v v [] emit f [] := by
  intro x; simp [onFile]

theorem Seg.toX {v v' : List Nat} {a : List (Nat × Nat)} {emit : Nat → List (Nat × Nat)} {f : Nat}
    (h : Seg v v' a emit) (hf : f ∈ v) : SegX v v' a emit f [] := by
  intro x
  rw [h x]
  by_cases hx : x = f
  · subst hx; simp [hf]
  · simp [hx]

theorem SegX.trans {v v' v'' : List Nat} {a b : List (Nat × Nat)} {emit : Nat → List (Nat × Nat)} {f : Nat}
    {o1 o2 : List (Nat × Nat)}
    (h1 : SegX v v' a emit f o1) (h2 : SegX v' v'' b emit f o2) (m1 : ∀ x ∈ v, x ∈ v') (m2 : ∀ x ∈ v', x ∈ v'') :
    SegX v v'' (a ++ b) emit f (o1 ++ o2) := by
  intro x
  rw [onFile_append, h1 x, h2 x]
  by_cases hx : x = f
  · simp [hx]
  · simp only [hx, if_false]
    by_cases hv : x ∈ v
    · have := m1 x hv
      simp [hv, this]
    · by_cases hv' : x ∈ v'
      · simp [hv, hv', m2 x hv']
      · simp [hv, hv']

/-- a list all of whose pairs belong to file `f` -/
theorem SegX.own (v : List Nat) (emit : Nat → List (Nat × Nat)) (f : Nat) (l : List (Nat × Nat))
    (h : ∀ q ∈ l, q.1 = f) : SegX v v l emit f l := by
  intro x
  by_cases hx : x = f
  · subst hx; simp [onFile_eq_self h]
  · simp only [hx, if_false]
    rw [onFile_eq_nil (fun q hq => by rw [h q hq]; exact fun e => hx e.symm)]
    simp

/-- every pair of a segment belongs to a newly entered file -/
theorem Seg.src {v v' : List Nat} {a : List (Nat × Nat)} {emit : Nat → List (Nat × Nat)}
    (h : Seg v v' a emit) {q : Nat × Nat} (hq : q ∈ a) : q.1 ∈ v' ∧ q.1 ∉ v ∧ q ∈ emit q.1 := by
  have hm : q ∈ onFile q.1 a := mem_onFile.2 ⟨hq, rfl⟩
  rw [h q.1] at hm
  split at hm
  · rename_i hc; exact ⟨hc.1, hc.2, hm⟩
  · simp at hm

theorem SegX.src {v v' : List Nat} {a : List (Nat × Nat)} {emit : Nat → List (Nat × Nat)} {f : Nat}
    {own : List (Nat × Nat)} (h : SegX v v' a emit f own) {q : Nat × Nat} (hq : q ∈ a) :
    q.1 = f ∨ (q.1 ∈ v' ∧ q.1 ∉ v) := by
  have hm : q ∈ onFile q.1 a := mem_onFile.2 ⟨hq, rfl⟩
  rw [h q.1] at hm
  split at hm
  · rename_i hc; exact Or.inl hc
  · split at hm
    · rename_i hc; exact Or.inr hc
    · simp at hm
