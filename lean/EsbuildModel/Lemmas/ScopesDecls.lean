import EsbuildModel.Lemmas.ScopesStmtA
/-!
A sequence of declarations in one scope at the level of kinds (`declFold`): where the kinds of the members come from,
and when no redeclaration error is reported.
-/
namespace EsbuildModel.Scopes
open JsScopes

theorem alookup_ainsert (n n' : Name) (k : SK) : ∀ (m : AMembers),
    alookup n' (ainsert n k m) = if n' = n then some k else alookup n' m
  | [] => by
    simp only [ainsert, alookup]
    split
    · next h => simp [h]
    · next h => simp [Ne.symm h]
  | (a, b) :: rest => by
    simp only [ainsert]
    split
    · next h =>
      subst h
      simp only [alookup]
      split
      · next h2 => simp [h2]
      · next h2 => simp [Ne.symm h2]
    · next h =>
      simp only [alookup]
      split
      · next h2 =>
        subst h2
        simp [h]
      · exact alookup_ainsert n n' k rest

/-- the kind a scope has for a name after one declaration -/
theorem aDeclare_lookup (f : AFrame) (k : SK) (n n' : Name) (x : SK) (hnp : k.noPair = true)
    (h : alookup n' (aDeclare f k n).1.mem = some x) : alookup n' f.mem = some x ∨ (n' = n ∧ x = k) := by
  unfold aDeclare at h
  split at h
  · simp only [alookup_ainsert] at h
    split at h
    · next hn => cases h; exact Or.inr ⟨hn, rfl⟩
    · exact Or.inl h
  · next ek hek =>
    have hnp' := canMerge_noPair (sk := f.kind) (ek := ek) hnp
    split at h
    · exact Or.inl h
    · exact Or.inl h
    · simp only [alookup_ainsert] at h
      split at h
      · next hn => cases h; exact Or.inr ⟨hn, rfl⟩
      · exact Or.inl h
    · next hm => exact absurd hm hnp'.1
    · next hm => exact absurd hm hnp'.2
    · simp only [alookup_ainsert] at h
      split at h
      · next hn => cases h; exact Or.inr ⟨hn, rfl⟩
      · exact Or.inl h

/-- every declaration of the sequence has a kind for which declareSymbol never forms a getter/setter pair -/
def noPairDecls (ds : List (SK × Name)) : Prop := ∀ d, d ∈ ds → d.1.noPair = true

/-- the kind a scope ends with for a name comes from the scope before or from a declaration of the sequence -/
theorem declFold_lookup : ∀ (ds : List (SK × Name)) (f : AFrame) (n : Name) (x : SK), noPairDecls ds →
    alookup n (declFold f ds).1.mem = some x → alookup n f.mem = some x ∨ (x, n) ∈ ds
  | [], f, n, x, _, h => Or.inl h
  | (k, m) :: ds, f, n, x, hnp, h => by
    simp only [declFold] at h
    rcases declFold_lookup ds _ n x (fun d hd => hnp d (List.mem_cons_of_mem _ hd)) h with h1 | h1
    · rcases aDeclare_lookup f k m n x (hnp (k, m) (by simp)) h1 with h2 | ⟨h2, h3⟩
      · exact Or.inl h2
      · subst h2 h3; exact Or.inr (by simp)
    · exact Or.inr (List.mem_cons_of_mem _ h1)

theorem aDeclare_mem_sub (f : AFrame) (k : SK) (n : Name) (hnp : k.noPair = true) (p : Name × SK)
    (h : p ∈ (aDeclare f k n).1.mem) : p ∈ f.mem ∨ p = (n, k) := by
  have key : ∀ (m : AMembers), p ∈ ainsert n k m → p ∈ m ∨ p = (n, k) := by
    intro m
    induction m with
    | nil => simp [ainsert]
    | cons a rest ih =>
      obtain ⟨a1, a2⟩ := a
      simp only [ainsert]
      split
      · next ha =>
        subst ha
        simp only [List.mem_cons]
        rintro (h | h)
        · exact Or.inr h
        · exact Or.inl (Or.inr h)
      · simp only [List.mem_cons]
        rintro (h | h)
        · exact Or.inl (Or.inl h)
        · rcases ih h with h | h
          · exact Or.inl (Or.inr h)
          · exact Or.inr h
  unfold aDeclare at h
  split at h
  · exact key _ h
  · next ek _ =>
    have hnp' := canMerge_noPair (sk := f.kind) (ek := ek) hnp
    split at h
    · exact Or.inl h
    · exact Or.inl h
    · exact key _ h
    · next hm => exact absurd hm hnp'.1
    · next hm => exact absurd hm hnp'.2
    · exact key _ h

theorem declFold_mem_sub : ∀ (ds : List (SK × Name)) (f : AFrame) (p : Name × SK), noPairDecls ds →
    p ∈ (declFold f ds).1.mem → p ∈ f.mem ∨ (p.2, p.1) ∈ ds
  | [], f, p, _, h => Or.inl h
  | (k, m) :: ds, f, p, hnp, h => by
    simp only [declFold] at h
    rcases declFold_mem_sub ds _ p (fun d hd => hnp d (List.mem_cons_of_mem _ hd)) h with h1 | h1
    · rcases aDeclare_mem_sub f k m (hnp (k, m) (by simp)) p h1 with h2 | h2
      · exact Or.inl h2
      · subst h2; exact Or.inr (by simp)
    · exact Or.inr (List.mem_cons_of_mem _ h1)

/-- no declaration of the sequence is refused -/
def PairsOK (sk : ScK) : AFrame → List (SK × Name) → Prop
  | _, [] => True
  | f, (k, n) :: ds =>
    (∀ ek, alookup n f.mem = some ek → canMergeSymbols sk ek k ≠ .forbidden) ∧ PairsOK sk (aDeclare f k n).1 ds

theorem declFold_noerr : ∀ (ds : List (SK × Name)) (f : AFrame), PairsOK f.kind f ds → (declFold f ds).2 = []
  | [], _, _ => rfl
  | (k, n) :: ds, f, h => by
    simp only [PairsOK] at h
    simp only [declFold]
    have hk : (aDeclare f k n).1.kind = f.kind := (aDeclare_kind f k n).1
    have h2 := declFold_noerr ds (aDeclare f k n).1 (by rw [hk]; exact h.2)
    rw [h2, List.append_nil]
    have : (aDeclare f k n).2 = false := by
      unfold aDeclare
      split
      · rfl
      · next ek hek =>
        have := h.1 ek hek
        split <;> simp_all
    simp [this]

/-- `PairsOK` from a condition on every declaration and the kinds the name can have at that point -/
theorem pairsOK_of (sk : ScK) : ∀ (ds : List (SK × Name)) (f : AFrame), noPairDecls ds →
    (∀ pre k n post, ds = pre ++ (k, n) :: post → ∀ ek, (alookup n f.mem = some ek ∨ (ek, n) ∈ pre) →
      canMergeSymbols sk ek k ≠ .forbidden) → PairsOK sk f ds
  | [], _, _, _ => trivial
  | (k, n) :: ds, f, hnp, h => by
    simp only [PairsOK]
    refine ⟨fun ek hek => h [] k n ds rfl ek (Or.inl hek), ?_⟩
    apply pairsOK_of sk ds _ (fun d hd => hnp d (List.mem_cons_of_mem _ hd))
    intro pre k' n' post hds ek hek
    apply h ((k, n) :: pre) k' n' post (by rw [hds]; rfl) ek
    rcases hek with hek | hek
    · rcases aDeclare_lookup f k n n' ek (hnp (k, n) (by simp)) hek with h1 | ⟨h1, h2⟩
      · exact Or.inl h1
      · subst h1 h2; exact Or.inr (by simp)
    · exact Or.inr (List.mem_cons_of_mem _ hek)

-- the name lists of the spec in terms of the declarations -----------------------------------------------------------

def namesWhere (p : SK → Bool) (ds : List (SK × Name)) : List Name :=
  ds.filterMap (fun d => if p d.1 then some d.2 else none)

theorem namesWhere_append (p : SK → Bool) (a b : List (SK × Name)) : namesWhere p (a ++ b) = namesWhere p a ++ namesWhere p b := by
  simp [namesWhere, List.filterMap_append]

theorem mem_namesWhere {p : SK → Bool} {ds : List (SK × Name)} {n : Name} :
    n ∈ namesWhere p ds ↔ ∃ k, (k, n) ∈ ds ∧ p k = true := by
  simp only [namesWhere, List.mem_filterMap]
  constructor
  · rintro ⟨⟨k, m⟩, hm, h⟩
    simp only at h
    split at h
    · next hp => cases h; exact ⟨k, hm, hp⟩
    · cases h
  · rintro ⟨k, hm, hp⟩
    exact ⟨(k, n), hm, by simp [hp]⟩

def isLexKind (k : SK) : Bool := k != .hoisted
def isTopLexKind (k : SK) : Bool := k == .other || k == .const_ || k == .class_
def isFnKind (k : SK) : Bool := k == .hoistedFunction || k == .generatorOrAsyncFunction

theorem lexSK_topLex (k : LexKind) : isTopLexKind (lexSK k) = true := by cases k <;> rfl
theorem lexSK_ne_hoisted (k : LexKind) : lexSK k ≠ .hoisted := by cases k <;> simp [lexSK]

theorem names_eq_aux (p : SK → Bool) (f : List Stmt → List Name) (g : Stmt → List Name) (hf : f [] = [])
    (hcons : ∀ s ss, f (s :: ss) = g s ++ f ss) (hg : ∀ s, g s = namesWhere p (stmtDeclKind s)) :
    ∀ ss, f ss = namesWhere p (declKinds ss)
  | [] => by rw [hf]; rfl
  | s :: ss => by rw [hcons, declKinds, namesWhere_append, ← hg, names_eq_aux p f g hf hcons hg ss]

theorem lexNames_eq (ss : List Stmt) : lexNames ss = namesWhere isLexKind (declKinds ss) := by
  refine names_eq_aux isLexKind lexNames (fun s => match s with | .lex _ n => [n] | .fn n _ _ _ _ => [n] | _ => []) rfl ?_ ?_ ss
  · intro s ss; cases s <;> simp [lexNames]
  · intro s
    cases s with
    | lex k n => have := lexSK_ne_hoisted k; simp [stmtDeclKind, namesWhere, isLexKind, this]
    | fn n gen ps us body => cases gen <;> simp [stmtDeclKind, namesWhere, isLexKind]
    | _ => simp [stmtDeclKind, namesWhere, isLexKind]

theorem topVarNames_eq (ss : List Stmt) : topVarNames ss = namesWhere (· == .hoisted) (declKinds ss) := by
  refine names_eq_aux (· == .hoisted) topVarNames (fun s => match s with | .var_ n => [n] | _ => []) rfl ?_ ?_ ss
  · intro s ss; cases s <;> simp [topVarNames]
  · intro s
    cases s with
    | lex k n => have := lexSK_ne_hoisted k; simp [stmtDeclKind, namesWhere, this]
    | fn n gen ps us body => cases gen <;> simp [stmtDeclKind, namesWhere]
    | _ => simp [stmtDeclKind, namesWhere]

theorem topLexNames_eq (ss : List Stmt) : topLexNames ss = namesWhere isTopLexKind (declKinds ss) := by
  refine names_eq_aux isTopLexKind topLexNames (fun s => match s with | .lex _ n => [n] | _ => []) rfl ?_ ?_ ss
  · intro s ss; cases s <;> simp [topLexNames]
  · intro s
    cases s with
    | lex k n => have := lexSK_topLex k; simp [stmtDeclKind, namesWhere, this]
    | fn n gen ps us body => cases gen <;> simp [stmtDeclKind, namesWhere, isTopLexKind]
    | _ => simp [stmtDeclKind, namesWhere, isTopLexKind]

theorem topFnNames_eq (ss : List Stmt) : topFnNames ss = namesWhere isFnKind (declKinds ss) := by
  refine names_eq_aux isFnKind topFnNames (fun s => match s with | .fn n _ _ _ _ => [n] | _ => []) rfl ?_ ?_ ss
  · intro s ss; cases s <;> simp [topFnNames]
  · intro s
    cases s with
    | lex k n =>
      have : isFnKind (lexSK k) = false := by cases k <;> rfl
      simp [stmtDeclKind, namesWhere, this]
    | fn n gen ps us body => cases gen <;> simp [stmtDeclKind, namesWhere, isFnKind]
    | _ => simp [stmtDeclKind, namesWhere, isFnKind]

theorem plainFnNames_eq (ss : List Stmt) : plainFnNames ss = namesWhere (· == .hoistedFunction) (declKinds ss) := by
  refine names_eq_aux (· == .hoistedFunction) plainFnNames
    (fun s => match s with | .fn n false _ _ _ => [n] | _ => []) rfl ?_ ?_ ss
  · intro s ss
    cases s with
    | fn n gen ps us body => cases gen <;> simp [plainFnNames]
    | _ => simp [plainFnNames]
  · intro s
    cases s with
    | lex k n =>
      have : lexSK k ≠ SK.hoistedFunction := by cases k <;> simp [lexSK]
      simp [stmtDeclKind, namesWhere, this]
    | fn n gen ps us body => cases gen <;> simp [stmtDeclKind, namesWhere]
    | _ => simp [stmtDeclKind, namesWhere]

theorem declKinds_noPair : ∀ (ss : List Stmt), noPairDecls (declKinds ss)
  | [] => by intro d hd; simp [declKinds] at hd
  | s :: ss => by
    intro d hd
    simp only [declKinds, List.mem_append] at hd
    rcases hd with hd | hd
    · cases s with
      | var_ n => simp [stmtDeclKind] at hd; subst hd; rfl
      | lex k n => simp [stmtDeclKind] at hd; subst hd; cases k <;> rfl
      | fn n gen ps us body => simp [stmtDeclKind] at hd; subst hd; cases gen <;> rfl
      | ref n => simp [stmtDeclKind] at hd
      | block b => simp [stmtDeclKind] at hd
      | try_ b c h => simp [stmtDeclKind] at hd
      | fnExpr n ps us body => simp [stmtDeclKind] at hd
      | arrow ps body => simp [stmtDeclKind] at hd
    · exact declKinds_noPair ss d hd

/-- the kinds of declarations that occur in statements -/
theorem declKinds_kinds : ∀ (ss : List Stmt) (k : SK) (n : Name), (k, n) ∈ declKinds ss →
    k = .hoisted ∨ isTopLexKind k = true ∨ isFnKind k = true
  | [], _, _, h => by simp [declKinds] at h
  | s :: ss, k, n, h => by
    simp only [declKinds, List.mem_append] at h
    rcases h with h | h
    · cases s with
      | var_ m => simp [stmtDeclKind] at h; exact Or.inl h.1
      | lex lk m => simp [stmtDeclKind] at h; rw [h.1]; exact Or.inr (Or.inl (lexSK_topLex lk))
      | fn m gen ps us body =>
        simp [stmtDeclKind] at h
        rw [h.1]; cases gen <;> simp [isFnKind]
      | ref m => simp [stmtDeclKind] at h
      | block b => simp [stmtDeclKind] at h
      | try_ b c hh => simp [stmtDeclKind] at h
      | fnExpr m ps us body => simp [stmtDeclKind] at h
      | arrow ps body => simp [stmtDeclKind] at h
    · exact declKinds_kinds ss k n h

end EsbuildModel.Scopes
