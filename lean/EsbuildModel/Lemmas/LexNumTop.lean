import EsbuildModel.Lemmas.LexNumBasePath
/-
Soundness of `lexNum`: the dispatch on the first two characters.
-/
namespace EsbuildModel.LexNum
open EsbuildModel.Spec.Num EsbuildModel.Spec.NumLit

/-- what the dispatch of `lexNum` does, as a case list -/
theorem lexNum_cases (P : Params) (src : List Char) :
    (∃ rest, src = '.' :: rest ∧ headIsDig rest = false ∧ (lexNum P src = .dot ∨ lexNum P src = .dotDotDot)) ∨
    (lexNum P src = .notNumeric) ∨
    (∃ first rest, src = first :: rest ∧ ((first = '.' ∧ headIsDig rest = true) ∨ (first ≠ '.' ∧ isDig first = true)) ∧
      (first = '0' → ∀ c r, rest = c :: r → ¬ (48 ≤ c.toNat ∧ c.toNat ≤ 55) ∧ c ≠ '_') ∧
      lexNum P src = floatPath P first src rest) ∨
    (∃ (r : Radix) (u : Bool) (cs : List Char), src = '0' :: r.letter u :: cs ∧
      lexNum P src = basePath P src (r.letter u :: cs) r.base false) ∨
    (∃ rest, src = '0' :: rest ∧ lexNum P src = basePath P src rest 8 true) := by
  cases src with
  | nil => exact Or.inr (Or.inl rfl)
  | cons first rest =>
    by_cases hdot : first = '.'
    · subst hdot
      cases hd : headIsDig rest with
      | false =>
        refine Or.inl ⟨rest, rfl, hd, ?_⟩
        simp only [lexNum, if_true, hd, Bool.not_false]
        cases rest with
        | nil => exact Or.inl rfl
        | cons c1 r1 =>
          cases r1 with
          | nil => exact Or.inl rfl
          | cons c2 r2 =>
            simp only
            split
            · exact Or.inr rfl
            · exact Or.inl rfl
      | true =>
        refine Or.inr (Or.inr (Or.inl ⟨'.', rest, rfl, Or.inl ⟨rfl, hd⟩, (by intro h; cases h), ?_⟩))
        simp [lexNum, hd]
    · cases hdig : isDig first with
      | false => exact Or.inr (Or.inl (by simp [lexNum, hdot, hdig]))
      | true =>
        by_cases h0 : first = '0'
        · subst h0
          cases rest with
          | nil =>
            exact Or.inr (Or.inr (Or.inl ⟨'0', [], rfl, Or.inr ⟨hdot, hdig⟩, (by intro _ c r h; cases h), (by
              simp [lexNum, isDig])⟩))
          | cons c cs =>
            have hl : lexNum P ('0' :: c :: cs) =
                if c = 'b' ∨ c = 'B' then basePath P ('0' :: c :: cs) (c :: cs) 2 false
                else if c = 'o' ∨ c = 'O' then basePath P ('0' :: c :: cs) (c :: cs) 8 false
                else if c = 'x' ∨ c = 'X' then basePath P ('0' :: c :: cs) (c :: cs) 16 false
                else if (48 ≤ c.toNat ∧ c.toNat ≤ 55) ∨ c = '_' then basePath P ('0' :: c :: cs) (c :: cs) 8 true
                else floatPath P '0' ('0' :: c :: cs) (c :: cs) := by
              simp [lexNum, isDig]
            rw [hl]
            by_cases hb : c = 'b' ∨ c = 'B'
            · refine Or.inr (Or.inr (Or.inr (Or.inl ?_)))
              rcases hb with rfl | rfl
              · exact ⟨.bin, false, cs, rfl, by simp [Radix.letter, Radix.base]⟩
              · exact ⟨.bin, true, cs, rfl, by simp [Radix.letter, Radix.base]⟩
            · by_cases ho : c = 'o' ∨ c = 'O'
              · refine Or.inr (Or.inr (Or.inr (Or.inl ?_)))
                rcases ho with rfl | rfl
                · exact ⟨.oct, false, cs, rfl, by simp [Radix.letter, Radix.base]⟩
                · exact ⟨.oct, true, cs, rfl, by simp [Radix.letter, Radix.base]⟩
              · by_cases hx : c = 'x' ∨ c = 'X'
                · refine Or.inr (Or.inr (Or.inr (Or.inl ?_)))
                  rcases hx with rfl | rfl
                  · exact ⟨.hex, false, cs, rfl, by simp [Radix.letter, Radix.base]⟩
                  · exact ⟨.hex, true, cs, rfl, by simp [Radix.letter, Radix.base]⟩
                · by_cases hleg : (48 ≤ c.toNat ∧ c.toNat ≤ 55) ∨ c = '_'
                  · exact Or.inr (Or.inr (Or.inr (Or.inr ⟨c :: cs, rfl, by simp only [hb, ho, hx, hleg, if_true, if_false]⟩)))
                  · refine Or.inr (Or.inr (Or.inl ⟨'0', c :: cs, rfl, Or.inr ⟨hdot, hdig⟩, ?_, by
                      simp only [hb, ho, hx, hleg, if_false]⟩))
                    intro _ c' r' hc'
                    cases hc'
                    exact ⟨fun h => hleg (Or.inl h), fun h => hleg (Or.inr h)⟩
        · refine Or.inr (Or.inr (Or.inl ⟨first, rest, rfl, Or.inr ⟨hdot, hdig⟩, fun h => absurd h h0, ?_⟩))
          simp [lexNum, hdot, hdig, h0]

theorem lexNum_num_sound {P : Params} {R : Rat → F64} (hP : ParamsOK P R) {src : List Char} {len : Nat} {v : F64}
    {lg : Bool} (h : lexNum P src = .num len v lg) : NumSound R src len v lg := by
  rcases lexNum_cases P src with ⟨_, _, _, h1 | h1⟩ | h1 | ⟨first, rest, rfl, hf, hz, h1⟩ | ⟨r, u, cs, rfl, h1⟩ |
      ⟨rest, rfl, h1⟩
  · rw [h1] at h; cases h
  · rw [h1] at h; cases h
  · rw [h1] at h; cases h
  · rw [h1] at h; exact floatPath_num hP hf hz h
  · rw [h1] at h; exact radixPath_num hP r u h
  · rw [h1] at h; exact legacyPath_num hP h

theorem lexNum_big_sound {P : Params} {src : List Char} {len : Nat} {text : List Char}
    {lg : Bool} (h : lexNum P src = .big len text lg) : BigSound src len text lg := by
  rcases lexNum_cases P src with ⟨_, _, _, h1 | h1⟩ | h1 | ⟨first, rest, rfl, hf, hz, h1⟩ | ⟨r, u, cs, rfl, h1⟩ |
      ⟨rest, rfl, h1⟩
  · rw [h1] at h; cases h
  · rw [h1] at h; cases h
  · rw [h1] at h; cases h
  · rw [h1] at h; exact floatPath_big hf hz h
  · rw [h1] at h; exact radixPath_big r u h
  · rw [h1] at h; exact absurd (legacyPath_big h) id

end EsbuildModel.LexNum
