import EsbuildModel.Lemmas.PkgExportsSort
/-! PACKAGE_IMPORTS_EXPORTS_RESOLVE, PACKAGE_EXPORTS_RESOLVE and PACKAGE_IMPORTS_RESOLVE as a whole. -/
namespace EsbuildModel.PkgExports
open EsbuildModel.NodeExports

theorem requestOK_facts (k : Str) (h : requestOK k = true) :
    k.contains '*' = false ∧ endsWith k ['/'] = false := by
  simpa [requestOK] using h

theorem importsExports_ok (strict isImports : Bool) (conds : List Str) (matchKey : Str)
    (l : List (Str × Target)) (h : mapOK matchKey l = true) :
    toTR (PkgExports.importsExportsResolve matchKey l ['/'] isImports conds) =
      some (NodeExports.importsExportsResolve strict matchKey l ['/'] isImports conds) := by
  obtain ⟨hreq, _, hkeys, hwf, _, _⟩ := mapOK_facts matchKey l h
  obtain ⟨hstar, hslash⟩ := requestOK_facts matchKey hreq
  have hs' : hasSuffix matchKey ['/'] = false := hslash
  simp only [PkgExports.importsExportsResolve, NodeExports.importsExportsResolve, hslash, hs', hstar,
    indexByte_star, Bool.false_and, Bool.false_eq_true, ↓reduceIte, Bool.or_false, Bool.not_false,
    Option.isNone_none, Bool.and_self, valueForKey_eq]
  cases hl : lookup l matchKey with
  | some target =>
    simp only
    have := target_ok strict isImports conds none (fun m hm => by cases hm) target (wf_of_lookup l matchKey target hwf hl)
    simpa using this
  | none =>
    simp only
    have hk' : ∀ p ∈ l, keyOK p.1 = true := by simpa using hkeys
    have hnm : ¬ '*' ∈ matchKey := by simpa using hstar
    -- esbuild's list: all keys with "*", sorted; entries with several "*" never apply and can be dropped;
    -- dropping commutes with the stable sort
    have hexp : expansionKeysOf l = sortEntries (l.filter fun p => p.1.contains '*') := by
      unfold expansionKeysOf
      rw [List.filter_congr (fun p hm => keyOK_class p.1 (hk' p hm))]
    have hskip : ∀ e ∈ expansionKeysOf l, decide (e.1.count '*' = 1) = false → keyMatches matchKey e.1 = false := by
      intro e hm hq
      rw [hexp, mem_sortEntries] at hm
      have hc := (List.mem_filter.mp hm).2
      have hpos : 0 < e.1.count '*' := List.count_pos_iff.mpr (by simpa using hc)
      have hne : e.1.count '*' ≠ 1 := by simpa using hq
      exact multiStar_no_match matchKey e.1 hnm (by omega)
    rw [expansionLoop_filter ['/'] matchKey isImports conds (fun p => decide (p.1.count '*' = 1)) _ hskip]
    rw [hexp, filter_sortEntries, List.filter_filter]
    have hff : l.filter (fun a => decide (a.1.count '*' = 1) && a.1.contains '*') =
        l.filter (fun p => decide (p.1.count '*' = 1)) := by
      apply List.filter_congr
      intro p _
      cases hd : decide (p.1.count '*' = 1)
      · rfl
      · simp only [Bool.true_and]
        exact contains_of_count_one p.1 (by simpa using hd)
    rw [hff, expansionKeys_spec]
    apply expansion_ok strict isImports conds matchKey l h
    intro e hm
    rw [mem_sortEntries] at hm
    have := List.mem_filter.mp hm
    exact ⟨this.1, by simpa using this.2⟩

/-- what `esmPackageExportsResolve` does with the result of the inner call, against "4. Throw a Package Path Not Exported error" -/
theorem finish_exports (r : Str × Status) (s : TR) (h : toTR r = some s) :
    classify false (if (r.2 != .null && r.2 != .undefined) = true then r else ([], .packagePathNotExported)) =
      finish .notExported s := by
  obtain ⟨p, st⟩ := r
  cases st <;> simp [toTR] at h <;> subst h <;> rfl

/-- the same for `esmPackageImportsResolve` and "5. Throw a Package Import Not Defined error" -/
theorem finish_imports (r : Str × Status) (s : TR) (spec : Str) (h : toTR r = some s) :
    classify true (if (r.2 != .null && r.2 != .undefined) = true then r else (spec, .packageImportNotDefined)) =
      finish .importNotDefined s := by
  obtain ⟨p, st⟩ := r
  cases st <;> simp [toTR] at h <;> subst h <;> rfl

theorem startsWithDot_eq (p : Str × Target) : startsWithDot p.1 = keyStartsWithDot p := rfl

/-- esbuild's parser test ("a key disagrees with the first key") is Node's ("both sorts of keys occur") -/
theorem isMixed_eq (l : List (Str × Target)) :
    isMixed l = (l.any keyStartsWithDot && l.any (fun p => !keyStartsWithDot p)) := by
  cases l with
  | nil => rfl
  | cons p ps =>
    obtain ⟨k0, v0⟩ := p
    simp only [isMixed, List.any_cons]
    have hk : keyStartsWithDot (k0, v0) = startsWithDot k0 := rfl
    rw [hk]
    cases hd : startsWithDot k0
    · simp only [Bool.false_or, Bool.not_false, Bool.true_or, Bool.and_true]
      apply any_congr'
      intro a _
      rw [startsWithDot_eq]; cases keyStartsWithDot a <;> rfl
    · simp only [Bool.true_or, Bool.not_true, Bool.false_or, Bool.true_and]
      apply any_congr'
      intro a _
      rw [startsWithDot_eq]; cases keyStartsWithDot a <;> rfl

theorem not_mixed_keys (l : List (Str × Target)) (h : isMixed l = false) :
    keysStartWithDot l = l.any keyStartsWithDot ∧ (l ≠ [] → l.all keyStartsWithDot = l.any keyStartsWithDot) := by
  cases l with
  | nil => simp [keysStartWithDot]
  | cons p ps =>
    obtain ⟨k0, v0⟩ := p
    simp only [isMixed, List.any_eq_false, bne_iff_ne, ne_eq, Decidable.not_not] at h
    have hall : ∀ a ∈ ps, keyStartsWithDot a = startsWithDot k0 := fun a hm => h a hm
    have hk : keyStartsWithDot (k0, v0) = startsWithDot k0 := rfl
    simp only [keysStartWithDot, List.any_cons, List.all_cons, hk]
    cases hd : startsWithDot k0
    · rw [hd] at hall
      have : ps.any keyStartsWithDot = false := List.any_eq_false.mpr (fun a hm => by simp [hall a hm])
      simp [this]
    · rw [hd] at hall
      have : ps.all keyStartsWithDot = true := List.all_eq_true.mpr hall
      simp [this]

theorem kindOf_null_iff (t : Target) : kindOf t = .null ↔ t = .null := by
  cases t <;> simp [kindOf]
  split <;> simp

/-- PACKAGE_IMPORTS_EXPORTS_RESOLVE on an empty object returns null -/
theorem importsExports_nil (strict isImports : Bool) (conds : List Str) (matchKey : Str)
    (h : requestOK matchKey = true) :
    NodeExports.importsExportsResolve strict matchKey [] ['/'] isImports conds = .null := by
  obtain ⟨hstar, hslash⟩ := requestOK_facts matchKey h
  simp [NodeExports.importsExportsResolve, hslash, hstar, lookup, sortKeys, NodeExports.expansionLoop]

theorem exports_nonobject (strict : Bool) (conds : List Str) (subpath : Str) (t : Target)
    (hobj : ∀ l, t ≠ .obj l) (hoth : t ≠ .other) (hnull : t ≠ .null) (hw : wf t = true) :
    classify false (exportsResolve ['/'] subpath t conds) =
      packageExportsResolve strict ['/'] subpath t conds := by
  have hk : kindOf t ≠ .invalid := by
    cases t <;> simp [kindOf] at hobj hoth ⊢
  have hkn : (kindOf t != .null) = true := by
    cases t <;> simp [kindOf] at hobj hoth hnull ⊢
  have hr := target_ok strict false conds none (fun m hm => by cases hm) t hw
  simp only [Option.getD_none, Option.isSome_none] at hr
  by_cases hs : subpath = ['.']
  · cases t with
    | str s =>
      simp only [exportsResolve, packageExportsResolve, hk, hs, ↓reduceIte, hkn]
      exact finish_exports _ _ hr
    | arr a =>
      simp only [exportsResolve, packageExportsResolve, hk, hs, ↓reduceIte, hkn]
      exact finish_exports _ _ hr
    | obj l => exact absurd rfl (hobj l)
    | other => exact absurd rfl hoth
    | null => exact absurd rfl hnull
  · cases t with
    | str s => simp [exportsResolve, packageExportsResolve, hk, hs, classify, finish]
    | arr a => simp [exportsResolve, packageExportsResolve, hk, hs, classify, finish]
    | obj l => exact absurd rfl (hobj l)
    | other => exact absurd rfl hoth
    | null => exact absurd rfl hnull

theorem exports_ok (strict : Bool) (conds : List Str) (subpath : Str) (exports : Target)
    (h : exportsOK subpath exports = true) :
    classify false (exportsResolve ['/'] subpath exports conds) =
      packageExportsResolve strict ['/'] subpath exports conds := by
  simp only [exportsOK, Bool.and_eq_true] at h
  obtain ⟨hreq, h⟩ := h
  cases exports with
  | other => simp at h
  | str s => exact exports_nonobject strict conds subpath _ (by simp) (by simp) (by simp) h
  | arr a => exact exports_nonobject strict conds subpath _ (by simp) (by simp) (by simp) h
  | null =>
    by_cases hs : subpath = ['.'] <;> simp [exportsResolve, packageExportsResolve, kindOf, hs, classify, finish]
  | obj l =>
    simp only at h
    cases hany : l.any keyStartsWithDot
    · -- a condition object (or {}): no key starts with "."
      simp only [hany, Bool.false_eq_true, ↓reduceIte] at h
      have hw := h
      simp only [wf, Bool.and_eq_true, Bool.not_eq_true'] at h
      obtain ⟨⟨hmix, _⟩, _⟩ := h
      have hkd := (not_mixed_keys l hmix).1
      rw [hany] at hkd
      have hk : kindOf (.obj l) = .object := by simp [kindOf, hmix]
      have hr := target_ok strict false conds none (fun m hm => by cases hm) (.obj l) hw
      simp only [Option.getD_none, Option.isSome_none] at hr
      by_cases hs : subpath = ['.']
      · simp only [exportsResolve, packageExportsResolve, hk, hs, ↓reduceIte, hkd, hany, Bool.false_and,
          Bool.false_eq_true, Bool.not_false, reduceCtorEq, bne_self_eq_false, Bool.not_eq_true']
        have : (Kind.object != Kind.null) = true := by decide
        simp only [this, ↓reduceIte]
        exact finish_exports _ _ hr
      · cases l with
        | nil =>
          simp only [exportsResolve, packageExportsResolve, hk, hs, ↓reduceIte, hkd, List.any_nil, Bool.false_and,
            Bool.false_eq_true, List.all_nil, importsExports_nil strict false conds subpath hreq, reduceCtorEq]
          rfl
        | cons p ps =>
          have hall : (p :: ps).all keyStartsWithDot = false := by
            rw [(not_mixed_keys _ hmix).2 (by simp), hany]
          simp only [exportsResolve, packageExportsResolve, hk, hs, ↓reduceIte, hkd, hany, Bool.false_and,
            Bool.false_eq_true, hall, reduceCtorEq]
          rfl
    · -- a subpath map (or an object with both sorts of keys)
      simp only [hany, ↓reduceIte] at h
      cases hmix : isMixed l
      · -- not mixed: every key starts with "."
        obtain ⟨hkd, hall⟩ := not_mixed_keys l hmix
        rw [hany] at hkd
        have hne : l ≠ [] := by intro e; subst e; simp at hany
        have hall' := hall hne
        rw [hany] at hall'
        have hk : kindOf (.obj l) = .object := by simp [kindOf, hmix]
        have hsm : (l.any keyStartsWithDot && l.any fun p => !keyStartsWithDot p) = false := by
          rw [← isMixed_eq]; exact hmix
        have hnd : (l.any fun p => !keyStartsWithDot p) = false := by
          rw [hany] at hsm; simpa using hsm
        by_cases hs : subpath = ['.']
        · simp only [hs, ↓reduceIte] at h
          simp only [exportsResolve, packageExportsResolve, hk, hs, ↓reduceIte, hkd, hany, hnd, Bool.and_false,
            Bool.false_eq_true, Bool.not_true, valueForKey_eq, reduceCtorEq]
          cases hl : lookup l ['.'] with
          | none => simp [kindOf, classify, finish]
          | some d =>
            simp only
            by_cases hd : d = .null
            · subst hd
              simp [kindOf, classify, finish, NodeExports.targetResolve]
            · have hkn : (kindOf d != .null) = true := by
                simp only [bne_iff_ne, ne_eq]
                intro e; exact hd ((kindOf_null_iff d).mp e)
              simp only [hkn, ↓reduceIte]
              have hr := target_ok strict false conds none (fun m hm => by cases hm) d (wf_of_lookup l _ d h hl)
              simp only [Option.getD_none, Option.isSome_none] at hr
              exact finish_exports _ _ hr
        · simp only [hs, ↓reduceIte] at h
          simp only [exportsResolve, packageExportsResolve, hk, hs, ↓reduceIte, hkd, hany, hnd, Bool.and_false,
            Bool.false_eq_true, hall', reduceCtorEq]
          exact finish_exports _ _ (importsExports_ok strict false conds subpath l h)
      · -- both sorts of keys: Invalid Package Configuration on both sides
        have hk : kindOf (.obj l) = .invalid := by simp [kindOf, hmix]
        have hsm : (l.any keyStartsWithDot && l.any fun p => !keyStartsWithDot p) = true := by
          rw [← isMixed_eq]; exact hmix
        simp only [exportsResolve, packageExportsResolve, hk, ↓reduceIte, hsm]
        rfl

theorem imports_ok (strict : Bool) (conds : List Str) (specifier : Str) (imports : Target)
    (h : importsOK specifier imports = true) :
    classify true (importsResolve specifier imports conds) =
      packageImportsResolve strict ['/'] specifier (some imports) conds := by
  simp only [importsOK, Bool.and_eq_true, bne_iff_ne, ne_eq, Bool.not_eq_true'] at h
  obtain ⟨⟨h1, h2⟩, h⟩ := h
  cases imports with
  | obj l =>
    simp only [Bool.and_eq_true, Bool.not_eq_true'] at h
    obtain ⟨hmix, hmap⟩ := h
    obtain ⟨hreq, _⟩ := mapOK_facts specifier l hmap
    obtain ⟨_, hslash⟩ := requestOK_facts specifier hreq
    have hk : kindOf (.obj l) = .object := by simp [kindOf, hmix]
    have h1' : decide (specifier = ['#']) = false := by simpa using h1
    simp only [importsResolve, packageImportsResolve, hk, bne_self_eq_false, Bool.false_eq_true, ↓reduceIte, h1', h2,
      hslash, Bool.and_false, Bool.or_self]
    exact finish_imports _ _ specifier (importsExports_ok strict true conds specifier l hmap)
  | str s => simp at h
  | arr a => simp at h
  | null => simp at h
  | other => simp at h

end EsbuildModel.PkgExports
