import EsbuildModel.Impl.Metafile
import EsbuildModel.Lemmas.Pieces
/-! Helper lemmas for `Props/C19Metafile.lean`. -/
namespace EsbuildModel.Metafile
open EsbuildModel.Pieces

-- ---------------------------------------------------------------- occurrences of the key prefix

/-- the key prefix occurs in `s` at position `p` -/
def Occ (pre s : Bytes) (p : Nat) : Prop := p ≤ s.length ∧ pre <+: s.drop p

theorem occ_zero_cons (pre : Bytes) (x : Nat) (xs : Bytes) :
    Occ pre (x :: xs) 0 ↔ pre.isPrefixOf (x :: xs) = true := by
  simp [Occ, List.isPrefixOf_iff_prefix]

theorem occ_succ_cons (pre : Bytes) (x : Nat) (xs : Bytes) (p : Nat) :
    Occ pre (x :: xs) (p + 1) ↔ Occ pre xs p := by
  simp [Occ]

theorem occ_nil (pre : Bytes) (p : Nat) : Occ pre [] p ↔ p = 0 ∧ pre = [] := by
  simp [Occ]

/-- `indexOf` finds the first occurrence -/
theorem indexOf_eq_some_iff (pre s : Bytes) (b : Nat) :
    indexOf pre s = some b ↔ Occ pre s b ∧ ∀ p, p < b → ¬ Occ pre s p := by
  induction s generalizing b with
  | nil =>
    simp only [indexOf, occ_nil]
    constructor
    · intro h
      split at h
      · rename_i he
        simp at h
        subst h
        exact ⟨⟨rfl, by simpa using he⟩, fun p hp => by omega⟩
      · simp at h
    · rintro ⟨⟨hb, hp⟩, _⟩
      subst hb; subst hp
      simp
  | cons x xs ih =>
    simp only [indexOf]
    split
    · rename_i hpre
      constructor
      · intro h
        simp at h
        subst h
        exact ⟨(occ_zero_cons pre x xs).2 hpre, fun p hp => by omega⟩
      · rintro ⟨_, hmin⟩
        cases b with
        | zero => rfl
        | succ b => exact absurd ((occ_zero_cons pre x xs).2 hpre) (hmin 0 (by omega))
    · rename_i hpre
      have hno : ¬ Occ pre (x :: xs) 0 := fun h => hpre ((occ_zero_cons pre x xs).1 h)
      cases hi : indexOf pre xs with
      | none =>
        simp only [Option.map_none]
        constructor
        · intro h; cases h
        · rintro ⟨hocc, hmin⟩
          cases b with
          | zero => exact absurd hocc hno
          | succ b =>
            have := (ih b).2 ⟨(occ_succ_cons pre x xs b).1 hocc, fun p hp hq =>
              hmin (p + 1) (by omega) ((occ_succ_cons pre x xs p).2 hq)⟩
            rw [hi] at this; cases this
      | some b' =>
        simp only [Option.map_some, Option.some.injEq]
        have hb' := (ih b').1 hi
        constructor
        · intro h
          subst h
          refine ⟨(occ_succ_cons pre x xs b').2 hb'.1, fun p hp => ?_⟩
          cases p with
          | zero => exact hno
          | succ p => exact fun hq => hb'.2 p (by omega) ((occ_succ_cons pre x xs p).1 hq)
        · rintro ⟨hocc, hmin⟩
          cases b with
          | zero => exact absurd hocc hno
          | succ b =>
            have := (ih b).2 ⟨(occ_succ_cons pre x xs b).1 hocc, fun p hp hq =>
              hmin (p + 1) (by omega) ((occ_succ_cons pre x xs p).2 hq)⟩
            rw [hi] at this
            simp at this
            omega

theorem indexOf_eq_none_iff (pre s : Bytes) : indexOf pre s = none ↔ ∀ p, ¬ Occ pre s p := by
  induction s with
  | nil =>
    simp only [indexOf, occ_nil]
    constructor
    · intro h p ⟨_, hp⟩
      subst hp
      simp at h
    · intro h
      split
      · rename_i he
        exact absurd ⟨rfl, by simpa using he⟩ (h 0)
      · rfl
  | cons x xs ih =>
    simp only [indexOf]
    split
    · rename_i hpre
      constructor
      · intro h; cases h
      · intro h; exact absurd ((occ_zero_cons pre x xs).2 hpre) (h 0)
    · rename_i hpre
      rw [Option.map_eq_none_iff, ih]
      constructor
      · intro h p
        cases p with
        | zero => exact fun hq => hpre ((occ_zero_cons pre x xs).1 hq)
        | succ p => exact fun hq => h p ((occ_succ_cons pre x xs p).1 hq)
      · intro h p hq
        exact h (p + 1) ((occ_succ_cons pre x xs p).2 hq)

/-- an occurrence in the left part is an occurrence in the whole -/
theorem occ_append_left (pre t u : Bytes) (p : Nat) (h : Occ pre t p) : Occ pre (t ++ u) p := by
  obtain ⟨hp, hpre⟩ := h
  refine ⟨by simp; omega, ?_⟩
  rw [List.drop_append_of_le_length hp]
  exact List.IsPrefix.trans hpre (List.prefix_append _ _)

/-- an occurrence in the right part is an occurrence in the whole -/
theorem occ_append_right (pre t u : Bytes) (p : Nat) : Occ pre u p ↔ Occ pre (t ++ u) (t.length + p) := by
  simp only [Occ, List.length_append, List.drop_append, List.drop_eq_nil_of_le (Nat.le_add_right _ _)]
  simp

/-- an occurrence in the whole that ends inside the left part is an occurrence in the left part -/
theorem occ_of_append (pre t u : Bytes) (p : Nat) (h : Occ pre (t ++ u) p) (hlen : p + pre.length ≤ t.length) :
    Occ pre t p := by
  obtain ⟨_, hpre⟩ := h
  have hp : p ≤ t.length := by omega
  refine ⟨hp, ?_⟩
  rw [List.drop_append_of_le_length hp] at hpre
  exact List.prefix_of_prefix_length_le hpre (List.prefix_append _ _) (by simp; omega)

theorem occ_length (pre s : Bytes) (p : Nat) (h : Occ pre s p) : p + pre.length ≤ s.length := by
  obtain ⟨hp, hpre⟩ := h
  have := hpre.length_le
  simp at this
  omega

/-- occurrences behind a cut -/
theorem occ_drop (pre s : Bytes) (k p : Nat) (hk : k ≤ s.length) : Occ pre (s.drop k) p ↔ Occ pre s (k + p) := by
  simp only [Occ, List.length_drop, List.drop_drop]
  constructor
  · rintro ⟨h1, h2⟩; exact ⟨by omega, h2⟩
  · rintro ⟨h1, h2⟩; exact ⟨by omega, h2⟩

-- ---------------------------------------------------------------- the scanner without fuel

/-- `breakOutput` does not depend on the fuel once it exceeds the length of the text -/
theorem breakOutput_fuel (pre : Bytes) (nf nc : Nat) (f1 f2 : Nat) (out : Bytes)
    (h1 : out.length < f1) (h2 : out.length < f2) :
    breakOutput pre nf nc f1 out = breakOutput pre nf nc f2 out := by
  induction f1 generalizing f2 out with
  | zero => omega
  | succ f1 ih =>
    cases f2 with
    | zero => omega
    | succ f2 =>
      unfold breakOutput
      split
      · rfl
      · rename_i boundary hb
        simp only
        split
        · rfl
        · rename_i hlen
          split
          · rfl
          · rename_i kind index hk
            have hl : (out.drop (boundary + pre.length + 9)).length + 9 ≤ out.length := by
              simp only [List.length_drop]; omega
            rw [ih f2 _ (by omega) (by omega)]

theorem parseKey_kind (nf nc : Nat) (nine : Bytes) (k : Kind) (i : Nat)
    (h : parseKey nf nc nine = some (k, i)) : k = .asset ∨ k = .chunk := by
  unfold parseKey at h
  split at h
  · rename_i kb digits
    simp only at h
    generalize (if kb = 65 then Kind.asset else if kb = 67 then Kind.chunk else Kind.none) = kind at h
    split at h
    · cases h
    · rename_i index hd
      cases kind with
      | none => simp at h
      | asset =>
        simp only at h
        split at h
        · cases h
        · simp at h; exact Or.inl h.1.symm
      | chunk =>
        simp only at h
        split at h
        · cases h
        · simp at h; exact Or.inr h.1.symm
  · cases h

/-- one step of `breakOutputIntoPieces` followed by `substituteFinalPaths` -/
theorem sliceFinal_unfold (c : Cfg) (f : Kind → Nat → Bytes) (out : Bytes) :
    sliceFinal c f out =
      match indexOf c.pre out with
      | none => out
      | some b =>
        if b + c.pre.length + 9 > out.length then out
        else match parseKey c.nFiles c.nChunks ((out.drop (b + c.pre.length)).take 9) with
          | none => out
          | some (k, i) => out.take b ++ f k i ++ sliceFinal c f (out.drop (b + c.pre.length + 9)) := by
  unfold sliceFinal brk
  rw [breakOutput]
  cases hb : indexOf c.pre out with
  | none => simp [substitute]
  | some b =>
    simp only
    by_cases hlen : b + c.pre.length + 9 > out.length
    · simp [hlen, substitute]
    · simp only [hlen, if_false]
      cases hk : parseKey c.nFiles c.nChunks ((out.drop (b + c.pre.length)).take 9) with
      | none => simp [substitute]
      | some ki =>
        obtain ⟨k, i⟩ := ki
        simp only
        have hl : (out.drop (b + c.pre.length + 9)).length + 9 ≤ out.length := by
          simp only [List.length_drop]; omega
        rw [breakOutput_fuel c.pre c.nFiles c.nChunks out.length
          ((out.drop (b + c.pre.length + 9)).length + 1) _ (by omega) (by omega)]
        rcases parseKey_kind _ _ _ _ _ hk with hkk | hkk <;> subst hkk <;> simp [substitute]

theorem sliceCount_eq_length (c : Cfg) (f : Kind → Nat → Bytes) (t : Bytes) :
    sliceCount c f t = (sliceFinal c f t).length := count_eq_len f (brk c t)

-- ---------------------------------------------------------------- keys never straddle segments

/-- at position `p` of `s` a complete key with a valid kind and index follows the prefix -/
def KeyAt (c : Cfg) (s : Bytes) (p : Nat) : Prop :=
  p + c.pre.length + 9 ≤ s.length ∧
    (parseKey c.nFiles c.nChunks ((s.drop (p + c.pre.length)).take 9)).isSome = true

/-- The assumption under which esbuild scans text for unique keys: wherever the key prefix occurs in the
joined text, it starts a complete valid key that lies inside ONE of the joined parts (the prefix is a random
string that the printers emit only as the head of a key). -/
def WellKeyed (c : Cfg) : List Bytes → Prop
  | [] => True
  | t :: ts => (∀ p, p < t.length → Occ c.pre (t ++ ts.flatten) p → KeyAt c t p) ∧ WellKeyed c ts

theorem prefixOf2_eq (pre s rest : Bytes) : prefixOf2 pre s rest = pre.isPrefixOf (s ++ rest) := by
  induction pre generalizing s with
  | nil => simp [prefixOf2]
  | cons p ps ih =>
    cases s with
    | nil => simp [prefixOf2]
    | cons x xs => simp [prefixOf2, ih, List.isPrefixOf]

theorem keyAt_cons (c : Cfg) (x : Nat) (xs : Bytes) (p : Nat) : KeyAt c (x :: xs) (p + 1) ↔ KeyAt c xs p := by
  unfold KeyAt
  have e : p + 1 + c.pre.length = (p + c.pre.length) + 1 := by omega
  rw [e, List.drop_succ_cons, List.length_cons]
  constructor
  · rintro ⟨h1, h2⟩; exact ⟨by omega, h2⟩
  · rintro ⟨h1, h2⟩; exact ⟨by omega, h2⟩

theorem keyHere_iff (c : Cfg) (t : Bytes) : keyHere c t = true ↔ KeyAt c t 0 := by
  simp [keyHere, KeyAt]

theorem wkSeg_iff (c : Cfg) (t rest : Bytes) :
    wkSeg c t rest = true ↔ ∀ p, p < t.length → Occ c.pre (t ++ rest) p → KeyAt c t p := by
  induction t with
  | nil => simp [wkSeg]
  | cons x xs ih =>
    simp only [wkSeg, Bool.and_eq_true, ih, prefixOf2_eq]
    constructor
    · rintro ⟨h0, hs⟩ p hp hocc
      cases p with
      | zero =>
        have hpre : c.pre.isPrefixOf (x :: xs ++ rest) = true := (occ_zero_cons _ _ _).1 hocc
        rw [if_pos hpre] at h0
        exact (keyHere_iff _ _).1 h0
      | succ p =>
        exact (keyAt_cons c x xs p).2 (hs p (by simpa using hp) ((occ_succ_cons _ x (xs ++ rest) p).1 hocc))
    · intro h
      refine ⟨?_, fun p hp hocc => (keyAt_cons c x xs p).1
        (h (p + 1) (by simpa using hp) ((occ_succ_cons _ x (xs ++ rest) p).2 hocc))⟩
      split
      · rename_i hpre
        exact (keyHere_iff _ _).2 (h 0 (by simp) ((occ_zero_cons _ x (xs ++ rest)).2 hpre))
      · rfl

/-- the executable check decides the assumption -/
theorem wellKeyedB_iff (c : Cfg) (ts : List Bytes) : wellKeyedB c ts = true ↔ WellKeyed c ts := by
  induction ts with
  | nil => simp [wellKeyedB, WellKeyed]
  | cons t ts ih => simp only [wellKeyedB, WellKeyed, Bool.and_eq_true, wkSeg_iff, ih]

instance (pre s : Bytes) (p : Nat) : Decidable (Occ pre s p) := by unfold Occ; infer_instance
instance (c : Cfg) (s : Bytes) (p : Nat) : Decidable (KeyAt c s p) := by unfold KeyAt; infer_instance

instance decWellKeyed (c : Cfg) (ts : List Bytes) : Decidable (WellKeyed c ts) :=
  decidable_of_iff _ (wellKeyedB_iff c ts)

theorem sliceFinal_nil (c : Cfg) (f : Kind → Nat → Bytes) (hpre : c.pre ≠ []) : sliceFinal c f [] = [] := by
  rw [sliceFinal_unfold]
  have : indexOf c.pre [] = none := by simp [indexOf, hpre]
  rw [this]

theorem drop_length_add_append (t u : Bytes) (x : Nat) : (t ++ u).drop (t.length + x) = u.drop x := by
  rw [← List.drop_drop]; simp

theorem take_length_add_append (t u : Bytes) (x : Nat) : (t ++ u).take (t.length + x) = t ++ u.take x := by
  rw [List.take_append, List.take_of_length_le (by omega)]; simp

/-- scanning `t ++ u` = scanning `t`, then `u`, when every occurrence of the prefix that starts in `t` is a key inside `t` -/
theorem sliceFinal_append (c : Cfg) (f : Kind → Nat → Bytes) (hpre : c.pre ≠ []) :
    ∀ (n : Nat) (t u : Bytes), t.length < n →
      (∀ p, p < t.length → Occ c.pre (t ++ u) p → KeyAt c t p) →
      sliceFinal c f (t ++ u) = sliceFinal c f t ++ sliceFinal c f u := by
  have hpl : 0 < c.pre.length := List.length_pos_iff.2 hpre
  intro n
  induction n with
  | zero => intro t u hn; omega
  | succ n ih =>
    intro t u hn h
    rw [sliceFinal_unfold c f (t ++ u)]
    cases hb : indexOf c.pre (t ++ u) with
    | none =>
      have hall := (indexOf_eq_none_iff _ _).1 hb
      have ht : indexOf c.pre t = none :=
        (indexOf_eq_none_iff _ _).2 fun p hp => hall p (occ_append_left _ _ _ _ hp)
      have hu : indexOf c.pre u = none :=
        (indexOf_eq_none_iff _ _).2 fun p hp => hall (t.length + p) ((occ_append_right _ t u p).1 hp)
      rw [sliceFinal_unfold c f t, sliceFinal_unfold c f u, ht, hu]
    | some b =>
      obtain ⟨hocc, hmin⟩ := (indexOf_eq_some_iff _ _ _).1 hb
      simp only
      by_cases hbt : b < t.length
      · -- the first key lies in t
        obtain ⟨hk1, hk2⟩ := h b hbt hocc
        obtain ⟨⟨k, i⟩, hk⟩ := Option.isSome_iff_exists.1 hk2
        have e1 : ((t ++ u).drop (b + c.pre.length)).take 9 = (t.drop (b + c.pre.length)).take 9 := by
          rw [List.drop_append_of_le_length (by omega), List.take_append_of_le_length (by simp; omega)]
        have e2 : (t ++ u).take b = t.take b := List.take_append_of_le_length (by omega)
        have e3 : (t ++ u).drop (b + c.pre.length + 9) = t.drop (b + c.pre.length + 9) ++ u :=
          List.drop_append_of_le_length hk1
        have hti : indexOf c.pre t = some b :=
          (indexOf_eq_some_iff _ _ _).2 ⟨occ_of_append _ _ _ _ hocc (by omega),
            fun p hp hq => hmin p hp (occ_append_left _ _ _ _ hq)⟩
        have hlen1 : ¬ b + c.pre.length + 9 > (t ++ u).length := by simp; omega
        have hlen2 : ¬ b + c.pre.length + 9 > t.length := by omega
        rw [if_neg hlen1, e1, hk, e2, e3, sliceFinal_unfold c f t, hti]
        simp only [if_neg hlen2, hk]
        rw [ih (t.drop (b + c.pre.length + 9)) u (by simp only [List.length_drop]; omega)]
        · simp [List.append_assoc]
        · intro p hp hq
          simp only [List.length_drop] at hp
          rw [← e3] at hq
          have hq' := (occ_drop c.pre (t ++ u) (b + c.pre.length + 9) p (by simp; omega)).1 hq
          obtain ⟨g1, g2⟩ := h (b + c.pre.length + 9 + p) (by omega) hq'
          refine ⟨by simp only [List.length_drop]; omega, ?_⟩
          rw [List.drop_drop]
          have : b + c.pre.length + 9 + p + c.pre.length = b + c.pre.length + 9 + (p + c.pre.length) := by omega
          rw [this] at g2
          exact g2
      · -- the first occurrence lies in u: nothing is found in t
        have ht : indexOf c.pre t = none := (indexOf_eq_none_iff _ _).2 fun p hp => by
          have := occ_length _ _ _ hp
          exact hmin p (by omega) (occ_append_left _ _ _ _ hp)
        obtain ⟨b', rfl⟩ : ∃ b', b = t.length + b' := ⟨b - t.length, by omega⟩
        have hu : indexOf c.pre u = some b' :=
          (indexOf_eq_some_iff _ _ _).2 ⟨(occ_append_right _ t u b').2 hocc,
            fun p hp hq => hmin (t.length + p) (by omega) ((occ_append_right _ t u p).1 hq)⟩
        rw [sliceFinal_unfold c f t, ht, sliceFinal_unfold c f u, hu]
        simp only
        have a1 : t.length + b' + c.pre.length = t.length + (b' + c.pre.length) := by omega
        have a2 : t.length + b' + c.pre.length + 9 = t.length + (b' + c.pre.length + 9) := by omega
        rw [a2, a1, drop_length_add_append, drop_length_add_append, take_length_add_append]
        by_cases hl : b' + c.pre.length + 9 > u.length
        · have : t.length + (b' + c.pre.length + 9) > (t ++ u).length := by simp; omega
          rw [if_pos this, if_pos hl]
        · have : ¬ t.length + (b' + c.pre.length + 9) > (t ++ u).length := by simp; omega
          rw [if_neg this, if_neg hl]
          cases parseKey c.nFiles c.nChunks ((u.drop (b' + c.pre.length)).take 9) with
          | none => rfl
          | some ki => simp [List.append_assoc]

/-- the substituted chunk is the concatenation of the substituted parts -/
theorem sliceFinal_flatten (c : Cfg) (f : Kind → Nat → Bytes) (hpre : c.pre ≠ []) (ts : List Bytes)
    (h : WellKeyed c ts) : sliceFinal c f ts.flatten = (ts.map (sliceFinal c f)).flatten := by
  induction ts with
  | nil => simpa using sliceFinal_nil c f hpre
  | cons t ts ih =>
    simp only [List.flatten_cons, List.map_cons]
    rw [sliceFinal_append c f hpre (t.length + 1) t ts.flatten (by omega) h.1, ih h.2]

-- ---------------------------------------------------------------- metaOrder / metaBytes

/-- sum of `g` over all slices of all inputs of the map -/
def metaSum (g : Bytes → Nat) (m : MetaMap) : Nat := (m.map fun kv => (kv.2.map g).sum).sum

def lookupD (m : MetaMap) (s : Nat) : List Bytes := (metaLookup m s).getD []

theorem metaSum_add (g : Bytes → Nat) (m : MetaMap) (s : Nat) (b : Bytes) :
    metaSum g (metaAdd m s b) = metaSum g m + g b := by
  induction m with
  | nil => simp [metaAdd, metaSum]
  | cons kv m ih =>
    obtain ⟨k, v⟩ := kv
    simp only [metaAdd]
    split
    · simp [metaSum, List.sum_append]; omega
    · simp only [metaSum, List.map_cons, List.sum_cons] at ih ⊢
      rw [ih]; omega

theorem metaLookup_add (m : MetaMap) (s k : Nat) (b : Bytes) :
    metaLookup (metaAdd m s b) k = if k = s then some (lookupD m s ++ [b]) else metaLookup m k := by
  induction m with
  | nil =>
    simp only [metaAdd, metaLookup, lookupD]
    by_cases h : k = s
    · subst h; simp
    · have : ¬ s = k := fun e => h e.symm
      simp [h, this]
  | cons kv m ih =>
    obtain ⟨k', v⟩ := kv
    simp only [metaAdd]
    by_cases h1 : k' = s
    · subst h1
      simp only [if_true, metaLookup, lookupD]
      by_cases h2 : k' = k
      · subst h2; simp
      · have : ¬ k = k' := fun e => h2 e.symm
        simp [h2, this]
    · simp only [h1, if_false, metaLookup]
      by_cases h2 : k' = k
      · subst h2
        simp [h1]
      · simp only [h2, if_false, ih]
        by_cases h3 : k = s
        · subst h3
          simp [lookupD, metaLookup, h1]
        · simp [h3]

theorem lookupD_add (m : MetaMap) (s k : Nat) (b : Bytes) :
    lookupD (metaAdd m s b) k = lookupD m k ++ (if k = s then [b] else []) := by
  unfold lookupD
  rw [metaLookup_add]
  by_cases h : k = s
  · subst h; simp [lookupD]
  · simp [h]

theorem metaAdd_keys (m : MetaMap) (s : Nat) (b : Bytes) :
    (metaAdd m s b).map (·.1) = if s ∈ m.map (·.1) then m.map (·.1) else m.map (·.1) ++ [s] := by
  induction m with
  | nil => simp [metaAdd]
  | cons kv m ih =>
    obtain ⟨k, v⟩ := kv
    simp only [metaAdd]
    by_cases h : k = s
    · subst h; simp
    · have : ¬ s = k := fun e => h e.symm
      simp only [h, if_false, List.map_cons, ih, List.mem_cons, this, false_or]
      split <;> simp

theorem metaAdd_nodup (m : MetaMap) (s : Nat) (b : Bytes) (h : (m.map (·.1)).Nodup) :
    ((metaAdd m s b).map (·.1)).Nodup := by
  rw [metaAdd_keys]
  split
  · exact h
  · rename_i hs
    rw [List.nodup_append]
    refine ⟨h, by simp, ?_⟩
    intro a ha b' hb'
    simp at hb'
    subst hb'
    exact fun e => hs (e ▸ ha)

theorem metaLookup_isSome (m : MetaMap) (s : Nat) : (metaLookup m s).isSome = true ↔ s ∈ m.map (·.1) := by
  induction m with
  | nil => simp [metaLookup]
  | cons kv m ih =>
    obtain ⟨k, v⟩ := kv
    simp only [metaLookup, List.map_cons, List.mem_cons]
    by_cases h : k = s
    · subst h; simp
    · have : ¬ s = k := fun e => h e.symm
      simp [h, this, ih]

-- ---------------------------------------------------------------- sums over segments

/-- sum of `g` over the text of the segments that have an owner -/
def ownedSum (g : Bytes → Nat) (segs : List Seg) : Nat :=
  ((segs.filter (fun x => x.owner.isSome)).map fun x => g x.text).sum

theorem ownedSum_append (g : Bytes → Nat) (a b : List Seg) : ownedSum g (a ++ b) = ownedSum g a + ownedSum g b := by
  simp [ownedSum, List.filter_append, List.sum_append]

theorem owned_append (a b : List Seg) (s : Nat) : owned (a ++ b) s = owned a s ++ owned b s := by
  simp [owned, List.filter_append]

theorem unowned_append (a b : List Seg) : unowned (a ++ b) = unowned a ++ unowned b := by
  simp [unowned, List.filter_append]

/-- every segment is either somebody's or nobody's -/
theorem sum_split (g : Bytes → Nat) (segs : List Seg) :
    ((segs.map (·.text)).map g).sum = ownedSum g segs + ((unowned segs).map g).sum := by
  induction segs with
  | nil => simp [ownedSum, unowned]
  | cons x xs ih =>
    obtain ⟨o, t⟩ := x
    cases o with
    | none =>
      simp only [List.map_cons, List.sum_cons, ih, ownedSum, unowned, List.filter_cons]
      simp; omega
    | some s =>
      simp only [List.map_cons, List.sum_cons, ih, ownedSum, unowned, List.filter_cons]
      simp; omega

-- ---------------------------------------------------------------- the JavaScript loop

theorem jsFront_unowned (o : JSOpts) (nbc : Bool) (prev : Nat) (cr : CR) :
    ∀ x ∈ jsFront o nbc prev cr, x.owner = none := by
  intro x hx
  unfold jsFront at hx
  split at hx
  · cases nbc <;> simp at hx
    · subst hx; rfl
    · rcases hx with h | h <;> subst h <;> rfl
  · cases hx

theorem ownedSum_of_unowned (g : Bytes → Nat) (l : List Seg) (h : ∀ x ∈ l, x.owner = none) : ownedSum g l = 0 := by
  have : l.filter (fun x => x.owner.isSome) = [] := by
    rw [List.filter_eq_nil_iff]
    intro x hx
    simp [h x hx]
  simp [ownedSum, this]

theorem owned_of_unowned (l : List Seg) (s : Nat) (h : ∀ x ∈ l, x.owner = none) : owned l s = [] := by
  have : l.filter (fun g => g.owner == some s) = [] := by
    rw [List.filter_eq_nil_iff]
    intro x hx
    simp [h x hx]
  simp [owned, this]

theorem unowned_of_unowned (l : List Seg) (h : ∀ x ∈ l, x.owner = none) : unowned l = l.map (·.text) := by
  have : l.filter (fun g => g.owner == none) = l := by
    rw [List.filter_eq_self]
    intro x hx
    simp [h x hx]
  unfold unowned
  rw [this]

theorem jsLoop_cons (o : JSOpts) (nbc : Bool) (prev : Nat) (m : MetaMap) (cr : CR) (rest : List CR) :
    jsLoop o nbc prev m (cr :: rest) =
      (jsFront o nbc prev cr ++ ⟨if cr.omitted then none else some cr.src, cr.code⟩ ::
          (jsLoop o (nbc || !cr.code.isEmpty) (if jsWithComment o prev cr then cr.src else prev)
            (if cr.omitted then m else metaAdd m cr.src cr.code) rest).1,
        (jsLoop o (nbc || !cr.code.isEmpty) (if jsWithComment o prev cr then cr.src else prev)
            (if cr.omitted then m else metaAdd m cr.src cr.code) rest).2) := by
  simp [jsLoop]

/-- the slices recorded in `metaBytes` are exactly the owned segments: sums -/
theorem jsLoop_sum (g : Bytes → Nat) (o : JSOpts) (crs : List CR) :
    ∀ (nbc : Bool) (prev : Nat) (m : MetaMap),
      metaSum g (jsLoop o nbc prev m crs).2 = metaSum g m + ownedSum g (jsLoop o nbc prev m crs).1 := by
  induction crs with
  | nil => intro nbc prev m; simp [jsLoop, ownedSum]
  | cons cr rest ih =>
    intro nbc prev m
    rw [jsLoop_cons]
    simp only [ih, ownedSum_append, ownedSum_of_unowned g _ (jsFront_unowned o nbc prev cr)]
    cases hom : cr.omitted
    · have : ownedSum g (⟨some cr.src, cr.code⟩ :: (jsLoop o (nbc || !cr.code.isEmpty)
          (if jsWithComment o prev cr then cr.src else prev) (metaAdd m cr.src cr.code) rest).1)
          = g cr.code + ownedSum g (jsLoop o (nbc || !cr.code.isEmpty)
          (if jsWithComment o prev cr then cr.src else prev) (metaAdd m cr.src cr.code) rest).1 := by
        simp [ownedSum]
      simp only [Bool.false_eq_true, if_false, metaSum_add, this]
      omega
    · have : ownedSum g (⟨none, cr.code⟩ :: (jsLoop o (nbc || !cr.code.isEmpty)
          (if jsWithComment o prev cr then cr.src else prev) m rest).1)
          = ownedSum g (jsLoop o (nbc || !cr.code.isEmpty)
          (if jsWithComment o prev cr then cr.src else prev) m rest).1 := by
        simp [ownedSum]
      simp only [if_true, this]
      omega

/-- the slices recorded for input `s` are its segments, in order -/
theorem jsLoop_lookup (o : JSOpts) (crs : List CR) (s : Nat) :
    ∀ (nbc : Bool) (prev : Nat) (m : MetaMap),
      lookupD (jsLoop o nbc prev m crs).2 s = lookupD m s ++ owned (jsLoop o nbc prev m crs).1 s := by
  induction crs with
  | nil => intro nbc prev m; simp [jsLoop, owned]
  | cons cr rest ih =>
    intro nbc prev m
    rw [jsLoop_cons]
    simp only [ih, owned_append, owned_of_unowned _ s (jsFront_unowned o nbc prev cr), List.nil_append]
    cases hom : cr.omitted
    · simp only [Bool.false_eq_true, if_false, lookupD_add]
      by_cases hs : s = cr.src
      · subst hs; simp [owned]
      · have : ¬ cr.src = s := fun e => hs e.symm
        simp [owned, hs, this]
    · simp [owned]

theorem jsLoop_keys (o : JSOpts) (crs : List CR) (s : Nat) :
    ∀ (nbc : Bool) (prev : Nat) (m : MetaMap),
      s ∈ (jsLoop o nbc prev m crs).2.map (·.1) ↔
        s ∈ m.map (·.1) ∨ ∃ cr ∈ crs, cr.omitted = false ∧ cr.src = s := by
  induction crs with
  | nil => intro nbc prev m; simp [jsLoop]
  | cons cr rest ih =>
    intro nbc prev m
    rw [jsLoop_cons]
    simp only [ih]
    cases hom : cr.omitted
    · simp only [Bool.false_eq_true, if_false, metaAdd_keys]
      constructor
      · rintro (h | ⟨cr', h1, h2⟩)
        · split at h
          · exact Or.inl h
          · simp at h
            rcases h with h | h
            · exact Or.inl (by simpa using h)
            · exact Or.inr ⟨cr, by simp, hom, h.symm⟩
        · exact Or.inr ⟨cr', by simp [h1], h2⟩
      · rintro (h | ⟨cr', h1, h2, h3⟩)
        · left; split
          · exact h
          · simp at h ⊢; exact Or.inl h
        · simp at h1
          rcases h1 with h1 | h1
          · subst h1
            left; split
            · rename_i hin; rw [← h3]; exact hin
            · simp [h3]
          · exact Or.inr ⟨cr', h1, h2, h3⟩
    · simp only [if_true]
      constructor
      · rintro (h | ⟨cr', h1, h2⟩)
        · exact Or.inl h
        · exact Or.inr ⟨cr', by simp [h1], h2⟩
      · rintro (h | ⟨cr', h1, h2, h3⟩)
        · exact Or.inl h
        · simp at h1
          rcases h1 with h1 | h1
          · subst h1; rw [hom] at h2; cases h2
          · exact Or.inr ⟨cr', h1, h2, h3⟩

theorem jsLoop_nodup (o : JSOpts) (crs : List CR) :
    ∀ (nbc : Bool) (prev : Nat) (m : MetaMap), (m.map (·.1)).Nodup →
      ((jsLoop o nbc prev m crs).2.map (·.1)).Nodup := by
  induction crs with
  | nil => intro nbc prev m h; simpa [jsLoop] using h
  | cons cr rest ih =>
    intro nbc prev m h
    rw [jsLoop_cons]
    apply ih
    split
    · exact h
    · exact metaAdd_nodup m _ _ h

-- ---------------------------------------------------------------- the CSS loop

theorem cssFront_unowned (cm nbc : Bool) (cr : CRC) : ∀ x ∈ cssFront cm nbc cr, x.owner = none := by
  intro x hx
  unfold cssFront at hx
  split at hx
  · simp at hx; subst hx; rfl
  · cases hx

theorem cssLoop_owned (cm : Bool) (crs : List CRC) (s : Nat) :
    ∀ nbc : Bool, owned (cssLoop cm nbc crs) s = (crs.filter (fun cr => cr.src == some s)).map (·.code) := by
  induction crs with
  | nil => intro nbc; simp [cssLoop, owned]
  | cons cr rest ih =>
    intro nbc
    simp only [cssLoop, owned_append, owned_of_unowned _ s (cssFront_unowned cm nbc cr), List.nil_append]
    have ih' := ih (nbc || !cr.code.isEmpty)
    simp only [owned, List.filter_cons] at ih' ⊢
    split <;> simp [ih']

-- ---------------------------------------------------------------- reading the JavaScript entries

theorem jsonRead_cons_ne (e : Nat × Nat) (es : List (Nat × Nat)) (s : Nat) (h : e.1 ≠ s) :
    jsonRead (e :: es) s = jsonRead es s := by
  unfold jsonRead
  rw [List.filter_cons_of_neg (by simpa using h)]

theorem jsonRead_cons_eq (e : Nat × Nat) (es : List (Nat × Nat)) (s : Nat) (h : e.1 = s)
    (habs : ∀ x ∈ es, x.1 ≠ s) : jsonRead (e :: es) s = some e.2 := by
  unfold jsonRead
  have : es.filter (fun e => e.1 == s) = [] :=
    List.filter_eq_nil_iff.2 fun x hx => by simpa using habs x hx
  rw [List.filter_cons_of_pos (by simpa using h), this]
  rfl

theorem jsonRead_js (c : Cfg) (f : Kind → Nat → Bytes) (m : MetaMap) (s : Nat) (h : (m.map (·.1)).Nodup) :
    jsonRead (entriesJS c f m) s = (metaLookup m s).map (inputCount c f) := by
  induction m with
  | nil => simp [jsonRead, entriesJS, metaLookup]
  | cons kv m ih =>
    obtain ⟨k, v⟩ := kv
    simp only [List.map_cons, List.nodup_cons] at h
    have hcons : entriesJS c f ((k, v) :: m) = (k, inputCount c f v) :: entriesJS c f m := rfl
    rw [hcons]
    simp only [metaLookup]
    by_cases hk : k = s
    · subst hk
      rw [jsonRead_cons_eq _ _ _ rfl]
      · simp
      · intro x hx hxs
        simp only [entriesJS, List.mem_map] at hx
        obtain ⟨y, hy, rfl⟩ := hx
        exact h.1 (List.mem_map.2 ⟨y, hy, hxs⟩)
    · rw [jsonRead_cons_ne _ _ _ hk, ih h.2]
      simp [hk]

-- ---------------------------------------------------------------- metaOrder / metaCounts of the CSS callback

def countLookup : CountMap → Nat → Option Nat
  | [], _ => none
  | (k, v) :: m, s => if k = s then some v else countLookup m s

/-- the count recorded for `s` (0 when there is none) -/
def lookupN (m : CountMap) (s : Nat) : Nat := (countLookup m s).getD 0

theorem countAdd_sum (m : CountMap) (s n : Nat) :
    ((countAdd m s n).map (·.2)).sum = (m.map (·.2)).sum + n := by
  induction m with
  | nil => simp [countAdd]
  | cons kv m ih =>
    obtain ⟨k, v⟩ := kv
    simp only [countAdd]
    split
    · simp; omega
    · simp only [List.map_cons, List.sum_cons, ih]; omega

theorem countAdd_keys (m : CountMap) (s n : Nat) :
    (countAdd m s n).map (·.1) = if s ∈ m.map (·.1) then m.map (·.1) else m.map (·.1) ++ [s] := by
  induction m with
  | nil => simp [countAdd]
  | cons kv m ih =>
    obtain ⟨k, v⟩ := kv
    simp only [countAdd]
    by_cases h : k = s
    · subst h; simp
    · have : ¬ s = k := fun e => h e.symm
      simp only [h, if_false, List.map_cons, ih, List.mem_cons, this, false_or]
      split <;> simp

theorem countAdd_nodup (m : CountMap) (s n : Nat) (h : (m.map (·.1)).Nodup) :
    ((countAdd m s n).map (·.1)).Nodup := by
  rw [countAdd_keys]
  split
  · exact h
  · rename_i hs
    rw [List.nodup_append]
    refine ⟨h, by simp, ?_⟩
    intro a ha b' hb'
    simp at hb'
    subst hb'
    exact fun e => hs (e ▸ ha)

theorem lookupN_add (m : CountMap) (s k n : Nat) :
    lookupN (countAdd m s n) k = lookupN m k + (if k = s then n else 0) := by
  induction m with
  | nil =>
    simp only [countAdd, lookupN, countLookup]
    by_cases h : k = s
    · subst h; simp
    · have : ¬ s = k := fun e => h e.symm
      simp [h, this]
  | cons kv m ih =>
    obtain ⟨k', v⟩ := kv
    simp only [countAdd]
    by_cases h1 : k' = s
    · subst h1
      simp only [if_true, lookupN, countLookup]
      by_cases h2 : k' = k
      · subst h2; simp
      · have : ¬ k = k' := fun e => h2 e.symm
        simp [h2, this]
    · simp only [h1, if_false]
      by_cases h2 : k' = k
      · subst h2
        have : ¬ k' = s := h1
        simp [lookupN, countLookup, this]
      · simp only [lookupN, countLookup, h2, if_false] at ih ⊢
        exact ih

theorem countLookup_isSome (m : CountMap) (s : Nat) : (countLookup m s).isSome = true ↔ s ∈ m.map (·.1) := by
  induction m with
  | nil => simp [countLookup]
  | cons kv m ih =>
    obtain ⟨k, v⟩ := kv
    simp only [countLookup, List.map_cons, List.mem_cons]
    by_cases h : k = s
    · subst h; simp
    · have : ¬ s = k := fun e => h e.symm
      simp [h, this, ih]

/-- with distinct keys a reader of the JSON object gets the value recorded for the key -/
theorem jsonRead_nodup (es : CountMap) (s : Nat) (h : (es.map (·.1)).Nodup) : jsonRead es s = countLookup es s := by
  induction es with
  | nil => simp [jsonRead, countLookup]
  | cons kv m ih =>
    obtain ⟨k, v⟩ := kv
    simp only [List.map_cons, List.nodup_cons] at h
    simp only [countLookup]
    by_cases hk : k = s
    · subst hk
      rw [jsonRead_cons_eq _ _ _ rfl]
      · simp
      · intro x hx hxs
        exact h.1 (List.mem_map.2 ⟨x, hx, hxs⟩)
    · rw [jsonRead_cons_ne _ _ _ hk, ih h.2]
      simp [hk]

theorem cssCounts_nodup (c : Cfg) (f : Kind → Nat → Bytes) (crs : List CRC) :
    ∀ m : CountMap, (m.map (·.1)).Nodup → ((cssCounts c f m crs).map (·.1)).Nodup := by
  induction crs with
  | nil => intro m h; simpa [cssCounts] using h
  | cons cr rest ih =>
    intro m h
    simp only [cssCounts]
    split
    · exact ih m h
    · exact ih _ (countAdd_nodup m _ _ h)

theorem cssCounts_keys (c : Cfg) (f : Kind → Nat → Bytes) (crs : List CRC) (s : Nat) :
    ∀ m : CountMap, s ∈ (cssCounts c f m crs).map (·.1) ↔ s ∈ m.map (·.1) ∨ s ∈ crs.filterMap (·.src) := by
  induction crs with
  | nil => intro m; simp [cssCounts]
  | cons cr rest ih =>
    intro m
    simp only [cssCounts]
    cases hs : cr.src with
    | none => simp [ih, hs]
    | some s' =>
      simp only [ih, countAdd_keys, List.filterMap_cons, hs, List.mem_cons]
      by_cases hm : s' ∈ m.map (·.1)
      · simp only [hm, if_true]
        constructor
        · rintro (h | h)
          · exact Or.inl h
          · exact Or.inr (Or.inr h)
        · rintro (h | h | h)
          · exact Or.inl h
          · subst h; exact Or.inl hm
          · exact Or.inr h
      · simp only [hm, if_false, List.mem_append, List.mem_singleton]
        constructor
        · rintro ((h | h) | h)
          · exact Or.inl h
          · exact Or.inr (Or.inl h)
          · exact Or.inr (Or.inr h)
        · rintro (h | h | h)
          · exact Or.inl (Or.inl h)
          · exact Or.inl (Or.inr h)
          · exact Or.inr h

/-- the count recorded for `s` is the sum over the compile results of `s` -/
theorem cssCounts_lookup (c : Cfg) (f : Kind → Nat → Bytes) (crs : List CRC) (s : Nat) :
    ∀ m : CountMap, lookupN (cssCounts c f m crs) s =
      lookupN m s + ((crs.filter (fun cr => cr.src == some s)).map fun cr => sliceCount c f cr.code).sum := by
  induction crs with
  | nil => intro m; simp [cssCounts]
  | cons cr rest ih =>
    intro m
    simp only [cssCounts]
    cases hs : cr.src with
    | none => simp [ih, hs]
    | some s' =>
      simp only [ih, lookupN_add, List.filter_cons, hs]
      by_cases h : s = s'
      · subst h; simp; omega
      · have : ¬ s' = s := fun e => h e.symm
        simp [h, this]

/-- the printed counts add up to the counts of all compile results that have a source -/
theorem cssCounts_sum (c : Cfg) (f : Kind → Nat → Bytes) (cm : Bool) (crs : List CRC) :
    ∀ (m : CountMap) (nbc : Bool), ((cssCounts c f m crs).map (·.2)).sum =
      (m.map (·.2)).sum + ownedSum (sliceCount c f) (cssLoop cm nbc crs) := by
  induction crs with
  | nil => intro m nbc; simp [cssCounts, cssLoop, ownedSum]
  | cons cr rest ih =>
    intro m nbc
    simp only [cssCounts, cssLoop, ownedSum_append, ownedSum_of_unowned _ _ (cssFront_unowned cm nbc cr), Nat.zero_add]
    cases hs : cr.src with
    | none =>
      simp only [ih m (nbc || !cr.code.isEmpty)]
      simp [ownedSum]
    | some s =>
      simp only [ih _ (nbc || !cr.code.isEmpty), countAdd_sum]
      simp [ownedSum]; omega

-- ---------------------------------------------------------------- the shortcut and the appended comments

theorem no_occ_of_parts (c : Cfg) (hpre : c.pre ≠ []) (parts : List Bytes) (hw : WellKeyed c parts)
    (hno : ∀ t ∈ parts, indexOf c.pre t = none) : ∀ p, ¬ Occ c.pre parts.flatten p := by
  induction parts with
  | nil =>
    intro p hp
    simp only [List.flatten_nil] at hp
    exact hpre ((occ_nil _ _).1 hp).2
  | cons t ts ih =>
    intro p hp
    simp only [List.flatten_cons] at hp
    by_cases hpt : p < t.length
    · obtain ⟨hk, _⟩ := hw.1 p hpt hp
      have := occ_of_append _ _ _ _ hp (by omega)
      exact (indexOf_eq_none_iff _ _).1 (hno t (by simp)) p this
    · obtain ⟨q, rfl⟩ : ∃ q, p = t.length + q := ⟨p - t.length, by omega⟩
      exact ih hw.2 (fun x hx => hno x (by simp [hx])) q ((occ_append_right _ t ts.flatten q).2 hp)

/-- under `WellKeyed` the "no placeholder" shortcut of `breakJoinerIntoPieces` changes nothing -/
theorem substJoiner_eq (c : Cfg) (f : Kind → Nat → Bytes) (hpre : c.pre ≠ []) (parts : List Bytes)
    (hw : WellKeyed c parts) :
    substJoiner f parts (breakJoiner c parts) = sliceFinal c f parts.flatten := by
  unfold breakJoiner
  split
  · rfl
  · rename_i hany
    simp only [substJoiner]
    have hno : ∀ t ∈ parts, indexOf c.pre t = none := by
      intro t ht
      have : ¬ contains c.pre t = true := fun hc => hany (List.any_eq_true.2 ⟨t, ht, hc⟩)
      simpa [contains] using this
    rw [sliceFinal_unfold, (indexOf_eq_none_iff _ _).2 (no_occ_of_parts c hpre parts hw hno)]

theorem ensureNewline_prefix (b : Bytes) : b <+: ensureNewline b := by
  unfold ensureNewline
  split
  · exact List.prefix_refl _
  · split
    · exact List.prefix_refl _
    · exact List.prefix_append _ _

/-- the comments are appended: the substituted chunk is a prefix of the output file -/
theorem finish_prefix (p : Post) (b : Bytes) : b <+: finish p b := by
  obtain ⟨isCSS, legal, sm⟩ := p
  cases legal <;> cases sm <;> simp only [finish]
  · exact List.prefix_refl _
  · exact (ensureNewline_prefix b).trans (List.prefix_append _ _)
  · exact (ensureNewline_prefix b).trans (List.prefix_append _ _)
  · exact ((ensureNewline_prefix b).trans (List.prefix_append _ _)).trans
      ((ensureNewline_prefix _).trans (List.prefix_append _ _))

end EsbuildModel.Metafile
