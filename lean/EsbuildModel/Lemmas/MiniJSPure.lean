/-
Lemmas/MiniJSPure — ExprCanBeRemovedIfUnused (with isSideEffectFreeUnboundIdentifierRef) is sound.
-/
import EsbuildModel.Lemmas.MiniJSBool
namespace EsbuildModel.MiniJS

/-- the assumption under which esbuild treats identifier reads as removable: an identifier that `isUnbound`
does not report is bound in every state (no TDZ, no deleted globals); reading it then has no effect by
construction of the semantics (no getters on the global object) -/
def BoundOK (w : World) (ub : Nat → Bool) : Prop := ∀ tr x, ub x = false → (w.read tr x).isSome = true

/-- result of comparing two strings with an equality or relational operator -/
def strCmp (op : BinOp) (a b : JStr) : Bool :=
  match op with
  | .strictEq | .looseEq => a == b
  | .strictNe | .looseNe => !(a == b)
  | .lt => strLt a b
  | .gt => strLt b a
  | .le => !strLt b a
  | .ge => !strLt a b
  | _ => false

def BinOp.isCompare (op : BinOp) : Bool := op.isEquality || op.isRelational

theorem val_str_beq (a b : JStr) : (Val.str a == Val.str b) = (a == b) := by
  by_cases h : a = b
  · subst h; simp
  · have : Val.str a ≠ Val.str b := by intro hh; injection hh; contradiction
    rw [beq_eq_false_iff_ne.mpr this, beq_eq_false_iff_ne.mpr h]

theorem applyBinary_str (w : World) (op : BinOp) (hop : op.isCompare = true) (a b : JStr) (tr : Trace) :
    applyBinary w op (.str a) (.str b) tr = (.val (.bool (strCmp op a b)), tr) := by
  cases op <;> simp [BinOp.isCompare, BinOp.isEquality, BinOp.isRelational] at hop <;>
    simp [applyBinary, strictEq, looseEq, looseEqPrim, boolToNum, relational, toPrimitive, primLess, strCmp, val_str_beq]

theorem short_compare (op : BinOp) (hop : op.isCompare = true) (v : Val) : op.short v = none := by
  cases op <;> simp [BinOp.isCompare, BinOp.isEquality, BinOp.isRelational] at hop <;> rfl

theorem eval_typeof_ident (w : World) (x : Nat) (tr : Trace) :
    eval w (.unary (.typeof true) (.ident x)) tr = (.val (.str (typeofRef w tr x)), tr) := by
  simp only [eval, typeofIdent?]

theorem identOf?_some (e : Expr) (x : Nat) (h : identOf? e = some x) : e = .ident x := by
  cases e <;> simp [identOf?] at h; subst h; rfl

theorem strOf?_some (e : Expr) (s : JStr) (h : strOf? e = some s) : e = .str s := by
  cases e <;> simp [strOf?] at h; subst h; rfl

theorem typeofFlagged?_some (e v : Expr) (h : typeofFlagged? e = some v) : e = .unary (.typeof true) v := by
  cases e <;> simp [typeofFlagged?] at h
  obtain ⟨rfl, rfl⟩ := h; rfl

theorem isStr_str (s : JStr) : isStr (.str s) = true := rfl

/-- the string tests esbuild recognises do imply that the identifier is defined -/
theorem guardCond_sound (op : BinOp) (text : JStr) (isYes : Bool) (h : guardCond op text isYes = true) :
    op.isCompare = true ∧ strCmp op sUndefined text ≠ isYes := by
  cases op <;> simp [guardCond] at h <;> simp [BinOp.isCompare, BinOp.isEquality, BinOp.isRelational, strCmp]
  case strictEq => by_cases ht : text = sUndefined <;> cases isYes <;> simp_all [Ne.symm]
  case looseEq => by_cases ht : text = sUndefined <;> cases isYes <;> simp_all [Ne.symm]
  case strictNe => by_cases ht : text = sUndefined <;> cases isYes <;> simp_all [Ne.symm]
  case looseNe => by_cases ht : text = sUndefined <;> cases isYes <;> simp_all [Ne.symm]
  all_goals (obtain ⟨rfl, rfl⟩ := h; decide)


theorem guardCond_sound2 (op : BinOp) (text : JStr) (isYes flip : Bool)
    (h : guardCond op text (if op.isRelational && flip then !isYes else isYes) = true) :
    op.isCompare = true ∧ (if flip then strCmp op text sUndefined else strCmp op sUndefined text) ≠ isYes := by
  cases flip
  · simpa using guardCond_sound op text isYes (by simpa using h)
  · cases op <;> simp [guardCond, BinOp.isRelational] at h <;>
      simp [BinOp.isCompare, BinOp.isEquality, BinOp.isRelational, strCmp]
    case strictEq => by_cases ht : text = sUndefined <;> cases isYes <;> simp_all
    case looseEq => by_cases ht : text = sUndefined <;> cases isYes <;> simp_all
    case strictNe => by_cases ht : text = sUndefined <;> cases isYes <;> simp_all
    case looseNe => by_cases ht : text = sUndefined <;> cases isYes <;> simp_all
    all_goals (obtain ⟨rfl, rfl⟩ := h; decide)

theorem typeofRef_unbound (w : World) (tr : Trace) (x : Nat) (h : w.read tr x = none) :
    typeofRef w tr x = sUndefined := by
  simp [typeofRef, h]

theorem guard_sound (w : World) (ub : Nat → Bool) (value guard : Expr) (isYes : Bool)
    (h : isSideEffectFreeUnboundIdentifierRef ub value guard isYes = true) :
    ∃ id, value = .ident id ∧
      ∀ tr, w.read tr id = none → ∃ g, eval w guard tr = (.val g, tr) ∧ toBoolean g ≠ isYes := by
  simp only [isSideEffectFreeUnboundIdentifierRef] at h
  split at h
  · rename_i id hid
    refine ⟨id, identOf?_some _ _ hid, ?_⟩
    simp only [Bool.and_eq_true] at h
    obtain ⟨-, h⟩ := h
    split at h
    · rename_i op bl br
      split at h
      · rename_i tv text hty hst
        simp only [Bool.and_eq_true, beq_iff_eq] at h
        obtain ⟨hc, htv⟩ := h
        have htv := identOf?_some _ _ htv
        subst htv
        obtain ⟨hop, hne⟩ := guardCond_sound2 op text isYes (isStr bl) (by simpa using hc)
        intro tr hrd
        cases hf : isStr bl
        · simp only [hf] at hty hst hne
          have e1 := typeofFlagged?_some _ _ hty
          have e2 := strOf?_some _ _ hst
          subst e1 e2
          refine ⟨.bool (strCmp op sUndefined text), ?_, ?_⟩
          · simp only [eval, short_compare op hop, typeofIdent?, bind_val, typeofRef_unbound w tr id hrd,
              applyBinary_str w op hop]
          · simpa [toBoolean] using hne
        · simp only [hf] at hty hst hne
          have e1 := typeofFlagged?_some _ _ hty
          have e2 := strOf?_some _ _ hst
          subst e1 e2
          refine ⟨.bool (strCmp op text sUndefined), ?_, ?_⟩
          · simp only [eval, short_compare op hop, typeofIdent?, bind_val, typeofRef_unbound w tr id hrd,
              applyBinary_str w op hop]
          · simpa [toBoolean] using hne
      · simp at h
    · simp at h
  · simp at h


theorem looseEq_prim (w : World) (a b : Val) (tr : Trace) (ha : a.isObj = false) (hb : b.isObj = false) :
    looseEq w a b tr = (.val (looseEqPrim w a b), tr) := by
  cases a <;> cases b <;> simp_all [looseEq, Val.isObj]

theorem has_known_prim (t : PType) (v : Val) (h : t.has v = true) (h1 : t ≠ .unknown) (h2 : t ≠ .mixed) :
    v.isObj = false := by
  cases t <;> cases v <;> simp_all [PType.has, Val.isObj]

theorem relational_same_type (w : World) (swap : Bool) (want : Option Bool) (t : PType) (a b : Val) (tr : Trace)
    (ht : t = .string ∨ t = .number ∨ t = .bigint) (ha : t.has a = true) (hb : t.has b = true) :
    ∃ v, relational w swap want a b tr = (.val v, tr) := by
  rcases ht with rfl | rfl | rfl <;> cases a <;> simp [PType.has] at ha <;> cases b <;> simp [PType.has] at hb <;>
    cases swap <;> simp [relational, toPrimitive, primLess, toNumeric, toNumber]

/-- ExprCanBeRemovedIfUnused is sound: a removable expression evaluates without any effect and cannot throw -/
theorem rm_sound (w : World) (ub : Nat → Bool) (H : BoundOK w ub) :
    ∀ e, exprCanBeRemovedIfUnused ub e = true → Pure w e
  | .null, _ => fun tr => ⟨_, rfl⟩
  | .undef, _ => fun tr => ⟨_, rfl⟩
  | .bool _, _ => fun tr => ⟨_, rfl⟩
  | .num _, _ => fun tr => ⟨_, rfl⟩
  | .str _, _ => fun tr => ⟨_, rfl⟩
  | .ident x, h => by
    intro tr
    simp [exprCanBeRemovedIfUnused] at h
    have := H tr x h
    cases hr : w.read tr x with
    | none => simp [hr] at this
    | some v => exact ⟨v, by simp [eval, hr]⟩
  | .cond c y n, h => by
    simp only [exprCanBeRemovedIfUnused, Bool.and_eq_true, Bool.or_eq_true] at h
    obtain ⟨hc, hy, hn⟩ := h
    intro tr
    obtain ⟨vc, hvc⟩ := rm_sound w ub H c hc tr
    simp only [eval, hvc, bind_val]
    cases ht : toBoolean vc
    · simp only [Bool.false_eq_true, if_false]
      rcases hn with hg | hn
      · obtain ⟨id, rfl, hgs⟩ := guard_sound w ub n c false hg
        cases hr : w.read tr id with
        | none =>
          obtain ⟨g, hg1, hg2⟩ := hgs tr hr
          rw [hvc] at hg1; simp at hg1; subst hg1
          simp [ht] at hg2
        | some v => exact ⟨v, by simp [eval, hr]⟩
      · exact rm_sound w ub H n hn tr
    · simp only [if_true]
      rcases hy with hg | hy
      · obtain ⟨id, rfl, hgs⟩ := guard_sound w ub y c true hg
        cases hr : w.read tr id with
        | none =>
          obtain ⟨g, hg1, hg2⟩ := hgs tr hr
          rw [hvc] at hg1; simp at hg1; subst hg1
          simp [ht] at hg2
        | some v => exact ⟨v, by simp [eval, hr]⟩
      · exact rm_sound w ub H y hy tr
  | .unary op v, h => by
    intro tr
    cases op with
    | void =>
      simp only [exprCanBeRemovedIfUnused] at h
      obtain ⟨u, hu⟩ := rm_sound w ub H v h tr
      simp only [eval, typeofIdent?, hu, bind_val, applyUnary]; exact ⟨_, rfl⟩
    | not =>
      simp only [exprCanBeRemovedIfUnused] at h
      obtain ⟨u, hu⟩ := rm_sound w ub H v h tr
      simp only [eval, typeofIdent?, hu, bind_val, applyUnary]; exact ⟨_, rfl⟩
    | typeof f =>
      simp only [exprCanBeRemovedIfUnused] at h
      cases hti : typeofIdent? (.typeof f) v with
      | some x => simp only [eval, hti]; exact ⟨_, rfl⟩
      | none =>
        have hv : exprCanBeRemovedIfUnused ub v = true := by
          split at h
          · rename_i hc
            cases v <;> simp [isIdent] at hc
            subst hc
            simp [typeofIdent?] at hti
          · exact h
        obtain ⟨u, hu⟩ := rm_sound w ub H v hv tr
        simp only [eval, hti, hu, bind_val, applyUnary]; exact ⟨_, rfl⟩
    | neg => simp [exprCanBeRemovedIfUnused] at h
    | pos => simp [exprCanBeRemovedIfUnused] at h
    | cpl => simp [exprCanBeRemovedIfUnused] at h
  | .binary op l r, h => by
    intro tr
    cases op
    case strictEq =>
      simp only [exprCanBeRemovedIfUnused, Bool.and_eq_true] at h
      obtain ⟨va, ha⟩ := rm_sound w ub H l h.1 tr
      obtain ⟨vb, hb⟩ := rm_sound w ub H r h.2 tr
      simp only [eval, ha, hb, bind_val, BinOp.short, applyBinary]; exact ⟨_, rfl⟩
    case strictNe =>
      simp only [exprCanBeRemovedIfUnused, Bool.and_eq_true] at h
      obtain ⟨va, ha⟩ := rm_sound w ub H l h.1 tr
      obtain ⟨vb, hb⟩ := rm_sound w ub H r h.2 tr
      simp only [eval, ha, hb, bind_val, BinOp.short, applyBinary]; exact ⟨_, rfl⟩
    case comma =>
      simp only [exprCanBeRemovedIfUnused, Bool.and_eq_true] at h
      obtain ⟨va, ha⟩ := rm_sound w ub H l h.1 tr
      obtain ⟨vb, hb⟩ := rm_sound w ub H r h.2 tr
      simp only [eval, ha, hb, bind_val, BinOp.short, applyBinary]; exact ⟨_, rfl⟩
    case nullish =>
      simp only [exprCanBeRemovedIfUnused, Bool.and_eq_true] at h
      obtain ⟨va, ha⟩ := rm_sound w ub H l h.1 tr
      obtain ⟨vb, hb⟩ := rm_sound w ub H r h.2 tr
      rw [eval_nullish, ha, bind_val]
      split
      · exact ⟨_, hb⟩
      · exact ⟨_, rfl⟩
    case or =>
      simp only [exprCanBeRemovedIfUnused, Bool.and_eq_true, Bool.or_eq_true] at h
      obtain ⟨hl, hr⟩ := h
      obtain ⟨va, ha⟩ := rm_sound w ub H l hl tr
      rw [eval_or, ha, bind_val]
      split
      · exact ⟨_, rfl⟩
      · rename_i ht
        rcases hr with hg | hr
        · obtain ⟨id, rfl, hgs⟩ := guard_sound w ub r l false hg
          cases hrd : w.read tr id with
          | none =>
            obtain ⟨g, hg1, hg2⟩ := hgs tr hrd
            rw [ha] at hg1; simp at hg1; subst hg1
            simp at ht; simp [ht] at hg2
          | some v => exact ⟨v, by simp [eval, hrd]⟩
        · exact rm_sound w ub H r hr tr
    case and =>
      simp only [exprCanBeRemovedIfUnused, Bool.and_eq_true, Bool.or_eq_true] at h
      obtain ⟨hl, hr⟩ := h
      obtain ⟨va, ha⟩ := rm_sound w ub H l hl tr
      rw [eval_and, ha, bind_val]
      split
      · rename_i ht
        rcases hr with hg | hr
        · obtain ⟨id, rfl, hgs⟩ := guard_sound w ub r l true hg
          cases hrd : w.read tr id with
          | none =>
            obtain ⟨g, hg1, hg2⟩ := hgs tr hrd
            rw [ha] at hg1; simp at hg1; subst hg1
            simp [ht] at hg2
          | some v => exact ⟨v, by simp [eval, hrd]⟩
        · exact rm_sound w ub H r hr tr
      · exact ⟨_, rfl⟩
    case looseEq =>
      simp only [exprCanBeRemovedIfUnused, Bool.and_eq_true] at h
      obtain ⟨⟨hc, hl⟩, hr⟩ := h
      obtain ⟨va, ha⟩ := rm_sound w ub H l hl tr
      obtain ⟨vb, hb⟩ := rm_sound w ub H r hr tr
      simp only [canChangeStrictToLoose, Bool.and_eq_true, decide_eq_true_eq] at hc
      have ta := kpt_sound w l tr tr va ha
      have tb := kpt_sound w r tr tr vb hb
      rw [← hc.1.1] at tb
      have pa := has_known_prim _ _ ta hc.1.2 hc.2
      have pb := has_known_prim _ _ tb hc.1.2 hc.2
      simp only [eval, ha, hb, bind_val, BinOp.short, applyBinary, looseEq_prim w va vb tr pa pb]; exact ⟨_, rfl⟩
    case looseNe =>
      simp only [exprCanBeRemovedIfUnused, Bool.and_eq_true] at h
      obtain ⟨⟨hc, hl⟩, hr⟩ := h
      obtain ⟨va, ha⟩ := rm_sound w ub H l hl tr
      obtain ⟨vb, hb⟩ := rm_sound w ub H r hr tr
      simp only [canChangeStrictToLoose, Bool.and_eq_true, decide_eq_true_eq] at hc
      have ta := kpt_sound w l tr tr va ha
      have tb := kpt_sound w r tr tr vb hb
      rw [← hc.1.1] at tb
      have pa := has_known_prim _ _ ta hc.1.2 hc.2
      have pb := has_known_prim _ _ tb hc.1.2 hc.2
      simp only [eval, ha, hb, bind_val, BinOp.short, applyBinary, looseEq_prim w va vb tr pa pb]; exact ⟨_, rfl⟩
    case lt =>
      simp only [exprCanBeRemovedIfUnused] at h
      split at h
      · rename_i ht
        simp only [Bool.and_eq_true, decide_eq_true_eq] at h
        obtain ⟨⟨hc, hl⟩, hr⟩ := h
        obtain ⟨va, ha⟩ := rm_sound w ub H l hl tr
        obtain ⟨vb, hb⟩ := rm_sound w ub H r hr tr
        have ta := kpt_sound w l tr tr va ha
        have tb := kpt_sound w r tr tr vb hb
        rw [hc] at tb
        obtain ⟨v, hv⟩ := relational_same_type w false (some true) _ va vb tr ht ta tb
        simp only [eval, ha, hb, bind_val, BinOp.short, applyBinary, hv]; exact ⟨_, rfl⟩
      · simp at h
    case gt =>
      simp only [exprCanBeRemovedIfUnused] at h
      split at h
      · rename_i ht
        simp only [Bool.and_eq_true, decide_eq_true_eq] at h
        obtain ⟨⟨hc, hl⟩, hr⟩ := h
        obtain ⟨va, ha⟩ := rm_sound w ub H l hl tr
        obtain ⟨vb, hb⟩ := rm_sound w ub H r hr tr
        have ta := kpt_sound w l tr tr va ha
        have tb := kpt_sound w r tr tr vb hb
        rw [hc] at tb
        obtain ⟨v, hv⟩ := relational_same_type w true (some true) _ va vb tr ht ta tb
        simp only [eval, ha, hb, bind_val, BinOp.short, applyBinary, hv]; exact ⟨_, rfl⟩
      · simp at h
    case le =>
      simp only [exprCanBeRemovedIfUnused] at h
      split at h
      · rename_i ht
        simp only [Bool.and_eq_true, decide_eq_true_eq] at h
        obtain ⟨⟨hc, hl⟩, hr⟩ := h
        obtain ⟨va, ha⟩ := rm_sound w ub H l hl tr
        obtain ⟨vb, hb⟩ := rm_sound w ub H r hr tr
        have ta := kpt_sound w l tr tr va ha
        have tb := kpt_sound w r tr tr vb hb
        rw [hc] at tb
        obtain ⟨v, hv⟩ := relational_same_type w true (some false) _ va vb tr ht ta tb
        simp only [eval, ha, hb, bind_val, BinOp.short, applyBinary, hv]; exact ⟨_, rfl⟩
      · simp at h
    case ge =>
      simp only [exprCanBeRemovedIfUnused] at h
      split at h
      · rename_i ht
        simp only [Bool.and_eq_true, decide_eq_true_eq] at h
        obtain ⟨⟨hc, hl⟩, hr⟩ := h
        obtain ⟨va, ha⟩ := rm_sound w ub H l hl tr
        obtain ⟨vb, hb⟩ := rm_sound w ub H r hr tr
        have ta := kpt_sound w l tr tr va ha
        have tb := kpt_sound w r tr tr vb hb
        rw [hc] at tb
        obtain ⟨v, hv⟩ := relational_same_type w false (some false) _ va vb tr ht ta tb
        simp only [eval, ha, hb, bind_val, BinOp.short, applyBinary, hv]; exact ⟨_, rfl⟩
      · simp at h
    all_goals simp [exprCanBeRemovedIfUnused] at h
  | .call _ _, h => by simp [exprCanBeRemovedIfUnused] at h
  | .dot _ _, h => by simp [exprCanBeRemovedIfUnused] at h
  | .index _ _, h => by simp [exprCanBeRemovedIfUnused] at h

end EsbuildModel.MiniJS
