import EsbuildModel.Lemmas.StrLexStrComplete
/-! Template characters, one at a time: what a round of the decoder does on the text of each alternative. -/
namespace EsbuildModel.StrLex
open EsbuildModel.Spec.StrLit
open EsbuildModel.Spec.JsString (hexVal? utf16)

theorem TplChar.ok_close (x : TplChar) (q0 : Nat) (h0 : q0 = 96 ∨ q0 = 36) : x.ok (some q0) = x.ok none := by
  rcases h0 with rfl | rfl <;> cases x with
  | dollar => rfl
  | esc e => cases e <;> simp [TplChar.ok, CEsc.look, lookNot, isDecimalDigit]
  | notEsc n => cases n <;> simp [TplChar.ok, NotEsc.look, lookNot, isHexDigit, hexVal?]
  | cont l => cases l <;> simp [TplChar.ok, LTS.look, lookNot]
  | lineTerm l => cases l <;> simp [TplChar.ok, LTS.look, lookNot]
  | plain c => rfl

theorem TplChar.ok_local (x : TplChar) (l close : List Nat) (q0 : Nat) (hc : close.head? = some q0) (h0 : q0 = 96 ∨ q0 = 36) :
    x.ok (l ++ close).head? = x.ok l.head? := by
  rcases head?_append_closer l close with h | ⟨rfl, h⟩
  · rw [h]
  · rw [h, hc, TplChar.ok_close x q0 h0]; rfl

/-- a character with a defined TV: the round emits exactly the TV, LegacyOctalLoc untouched -/
theorem step_tplChar_tv (rep : Bool) (x : TplChar) (rest : List Nat) (hok : x.ok rest.head? = true) (v : List Nat)
    (htv : x.tv = some v) :
    ∃ c t', x.render = c :: t' ∧ step rep c (t' ++ rest) = .emit v (t'.length + 1) false := by
  cases x with
  | dollar =>
    simp only [TplChar.tv, Option.some.injEq] at htv; subst htv
    exact ⟨36, [], rfl, by simp [step, encodeRune]⟩
  | esc e =>
    simp only [TplChar.tv, Option.some.injEq] at htv; subst htv
    simp only [TplChar.ok, Bool.and_eq_true] at hok
    exact ⟨92, e.render, rfl, by simp [step, escape_cesc rep e rest hok.1 hok.2]⟩
  | notEsc n => cases htv
  | cont l =>
    simp only [TplChar.tv, Option.some.injEq] at htv; subst htv
    exact ⟨92, l.render, rfl, by simp [step, escape_cont rep l rest hok]⟩
  | lineTerm l =>
    simp only [TplChar.tv, Option.some.injEq] at htv; subst htv
    cases l with
    | lf => exact ⟨10, [], rfl, by simp [step, encodeRune, LTS.trv]⟩
    | ls => exact ⟨8232, [], rfl, by simp [step, encodeRune, LTS.trv]⟩
    | ps => exact ⟨8233, [], rfl, by simp [step, encodeRune, LTS.trv]⟩
    | crlf => exact ⟨13, [10], rfl, by simp [step, LTS.trv]⟩
    | cr =>
      refine ⟨13, [], rfl, ?_⟩
      cases rest with
      | nil => simp [step, LTS.trv]
      | cons a r =>
        have : a ≠ 10 := by simpa [TplChar.ok, LTS.look, lookNot] using hok
        simp only [step, if_true, List.nil_append, LTS.trv, List.length_nil]
        split
        · rename_i heq; simp at heq; exact absurd heq.1 this
        · rfl
  | plain c =>
    simp only [TplChar.tv, Option.some.injEq] at htv; subst htv
    simp only [TplChar.ok, Bool.and_eq_true, bne_iff_ne, ne_eq, isSourceChar, decide_eq_true_eq, Bool.not_eq_true',
      isLineTerminator, Bool.or_eq_false_iff, decide_eq_false_iff_not] at hok
    obtain ⟨⟨⟨⟨h0, _⟩, h92⟩, _⟩, ⟨⟨_, h13⟩, _⟩, _⟩ := hok
    exact ⟨c, [], rfl, by simp [step, h92, h13, encodeRune_eq c h0]⟩

/-- `case '0'…'7'` always emits; LegacyOctalLoc is set unless the escape is exactly `\0` not followed by a digit -/
theorem octal_emits (d1 : Nat) (r : List Nat) : ∃ u k lg, octal d1 r = .emit u k lg ∧
    ((d1 ≠ 0 ∨ lookIn isDecimalDigit r.head? = true) → lg = true) := by
  unfold octal
  split
  · exact ⟨_, _, _, rfl, by simp [lookIn]⟩
  · rename_i c3 r'
    split
    · dsimp only
      split
      · exact ⟨_, _, _, rfl, fun _ => rfl⟩
      · split
        · split <;> exact ⟨_, _, _, rfl, fun _ => rfl⟩
        · exact ⟨_, _, _, rfl, fun _ => rfl⟩
    · rename_i hno
      split
      · exact ⟨_, _, _, rfl, fun _ => rfl⟩
      · rename_i h89
        refine ⟨_, _, _, rfl, ?_⟩
        have hno' : ¬ (48 ≤ c3 ∧ c3 ≤ 55) := by simpa [isOct] using hno
        simp [lookIn, isDecimalDigit]
        omega

/-- what the decoder does on a backslash followed by a NotEscapeSequence: without error reporting it fails (cooked = nil);
with error reporting it fails, records a legacy octal position, or reports "out of range" -/
theorem step_notEsc (rep : Bool) (n : NotEsc) (rest : List Nat) (hwf : n.wf = true) (hlook : n.look rest.head? = true) :
    (∃ off, step rep 92 (n.render ++ rest) = .fail off) ∨
    (rep = true ∧ ((∃ u k, step rep 92 (n.render ++ rest) = .emit u k true) ∨
      ∃ len, step rep 92 (n.render ++ rest) = .range len)) := by
  have hstep : ∀ t, step rep 92 t = escape rep t := fun t => by simp [step]
  rw [hstep]
  cases n with
  | zeroDigit d =>
    obtain ⟨u, k, lg, h1, h2⟩ := octal_emits 0 (d :: rest)
    have : lg = true := h2 (Or.inr (by simpa [NotEsc.wf, lookIn] using hwf))
    subst this
    have hesc : escape rep (48 :: d :: rest) = legacyGate rep (.emit u k true) := by simp [escape, isOct, h1]
    cases rep with
    | true => right; exact ⟨rfl, Or.inl ⟨u, k, by simp [NotEsc.render, hesc, legacyGate]⟩⟩
    | false => left; exact ⟨0, by simp [NotEsc.render, hesc, legacyGate]⟩
  | digit d =>
    simp only [NotEsc.wf, Bool.and_eq_true, decide_eq_true_eq] at hwf
    by_cases h89 : d = 56 ∨ d = 57
    · cases rep with
      | true => right; exact ⟨rfl, Or.inl ⟨[d], 2, escape_nonOctal d rest h89⟩⟩
      | false => left; exact ⟨0, escape_nonOctal_false d rest h89⟩
    · have ho : isOct d = true := by simp [isOct]; omega
      obtain ⟨u, k, lg, h1, h2⟩ := octal_emits (d - 48) rest
      have : lg = true := h2 (Or.inl (by omega))
      subst this
      have : ¬ d = 98 ∧ ¬ d = 102 ∧ ¬ d = 110 ∧ ¬ d = 114 ∧ ¬ d = 116 ∧ ¬ d = 118 := by omega
      have hesc : escape rep (d :: rest) = legacyGate rep (.emit u k true) := by simp [escape, ho, h1, this]
      cases rep with
      | true => right; exact ⟨rfl, Or.inl ⟨u, k, by simp [NotEsc.render, hesc, legacyGate]⟩⟩
      | false => left; exact ⟨0, by simp [NotEsc.render, hesc, legacyGate]⟩
  | xShort ds =>
    left
    simp only [NotEsc.wf, Bool.and_eq_true, decide_eq_true_eq, List.all_eq_true] at hwf
    have hesc : escape rep (120 :: (ds ++ rest)) = hex2 (ds ++ rest) := by simp [escape, isOct]
    simp only [NotEsc.render, List.cons_append, hesc]
    have hnx : ∀ c r', rest = c :: r' → hexVal c = none := by
      intro c r' hr; subst hr
      simpa [NotEsc.look, lookNot, isHexDigit_false_iff] using hlook
    match ds, hwf with
    | [], _ =>
      cases rest with
      | nil => exact ⟨2, rfl⟩
      | cons c r' => exact ⟨2, by simp [hex2, hnx c r' rfl]⟩
    | [a], hwf =>
      obtain ⟨x, hx, _⟩ := (isHexDigit_iff a).1 (hwf.2 a (by simp))
      cases rest with
      | nil => exact ⟨3, by simp [hex2, hx]⟩
      | cons c r' => exact ⟨3, by simp [hex2, hx, hnx c r' rfl]⟩
    | _ :: _ :: _, hwf => simp at hwf
  | uShort ds =>
    left
    simp only [NotEsc.wf, Bool.and_eq_true, decide_eq_true_eq, List.all_eq_true] at hwf
    simp only [NotEsc.look, Bool.and_eq_true, Bool.or_eq_true, Bool.not_eq_true'] at hlook
    have hesc : escape rep (117 :: (ds ++ rest)) = unicode rep (ds ++ rest) := by simp [escape, isOct]
    simp only [NotEsc.render, List.cons_append, hesc]
    have hnx : ∀ c r', rest = c :: r' → hexVal c = none := by
      intro c r' hr; subst hr
      simpa [lookNot, isHexDigit_false_iff] using hlook.1
    have hfix : unicode rep (ds ++ rest) = hex4 (ds ++ rest) := by
      unfold unicode
      split
      · rename_i r' heq
        match ds, heq, hwf, hlook with
        | [], heq, _, hlook =>
          simp at heq; subst heq
          simp [lookNot] at hlook
        | a :: ds', heq, hwf, _ =>
          simp at heq
          obtain ⟨x, hx, _⟩ := (isHexDigit_iff a).1 (hwf.2 a (by simp))
          have := hexVal_range hx; omega
      · rfl
    rw [hfix]
    match ds, hwf with
    | [], _ =>
      cases rest with
      | nil => exact ⟨2, rfl⟩
      | cons c r' => exact ⟨2, by simp [hex4, hnx c r' rfl]⟩
    | [a], hwf =>
      obtain ⟨x, hx, _⟩ := (isHexDigit_iff a).1 (hwf.2 a (by simp))
      cases rest with
      | nil => exact ⟨3, by simp [hex4, hx]⟩
      | cons c r' => exact ⟨3, by simp [hex4, hx, hnx c r' rfl]⟩
    | [a, b], hwf =>
      obtain ⟨x, hx, _⟩ := (isHexDigit_iff a).1 (hwf.2 a (by simp))
      obtain ⟨y, hy, _⟩ := (isHexDigit_iff b).1 (hwf.2 b (by simp))
      cases rest with
      | nil => exact ⟨4, by simp [hex4, hx, hy]⟩
      | cons c r' => exact ⟨4, by simp [hex4, hx, hy, hnx c r' rfl]⟩
    | [a, b, c], hwf =>
      obtain ⟨x, hx, _⟩ := (isHexDigit_iff a).1 (hwf.2 a (by simp))
      obtain ⟨y, hy, _⟩ := (isHexDigit_iff b).1 (hwf.2 b (by simp))
      obtain ⟨z, hz, _⟩ := (isHexDigit_iff c).1 (hwf.2 c (by simp))
      cases rest with
      | nil => exact ⟨5, by simp [hex4, hx, hy, hz]⟩
      | cons e r' => exact ⟨5, by simp [hex4, hx, hy, hz, hnx e r' rfl]⟩
    | _ :: _ :: _ :: _ :: _, hwf => simp at hwf
  | uBraceEmpty =>
    left
    have hesc : escape rep (117 :: 123 :: rest) = unicode rep (123 :: rest) := by simp [escape, isOct]
    simp only [NotEsc.render, List.cons_append, List.nil_append, hesc, unicode]
    cases rest with
    | nil => exact ⟨3, by simp [braceLoop]⟩
    | cons c r' =>
      have hc : hexVal c = none := by simpa [NotEsc.look, lookNot, isHexDigit_false_iff] using hlook
      by_cases h125 : c = 125
      · exact ⟨3, by simp [braceLoop, h125]⟩
      · exact ⟨3, by simp [braceLoop, h125, hc]⟩
  | uBraceNot ds =>
    simp only [NotEsc.wf, Bool.and_eq_true, Bool.not_eq_true', List.all_eq_true, decide_eq_true_eq] at hwf
    obtain ⟨⟨hne, hall⟩, hmv⟩ := hwf
    have hesc : escape rep (117 :: 123 :: (ds ++ rest)) = unicode rep (123 :: (ds ++ rest)) := by simp [escape, isOct]
    simp only [NotEsc.render, List.cons_append, hesc, unicode]
    rw [braceLoop_digits ds hall rest, brace_out_of_range 0 false ds (by omega) (by rw [← digitsMV_eq]; exact hmv)]
    have hne' : ds.isEmpty = false := hne
    cases rest with
    | nil => left; exact ⟨3 + ds.length, by simp [braceLoop]⟩
    | cons c r' =>
      have hc : hexVal c = none := by simpa [NotEsc.look, lookNot, isHexDigit_false_iff] using hlook
      by_cases h125 : c = 125
      · subst h125
        cases rep with
        | true => right; exact ⟨rfl, Or.inr ⟨3 + ds.length + 1, by simp [braceLoop, hne']⟩⟩
        | false => left; exact ⟨0, by simp [braceLoop, hne']⟩
      · left; exact ⟨3 + ds.length, by simp [braceLoop, h125, hc]⟩
  | uBraceOpen ds =>
    left
    simp only [NotEsc.wf, Bool.and_eq_true, Bool.not_eq_true', List.all_eq_true, decide_eq_true_eq] at hwf
    obtain ⟨⟨hne, hall⟩, hmv⟩ := hwf
    have hesc : escape rep (117 :: 123 :: (ds ++ rest)) = unicode rep (123 :: (ds ++ rest)) := by simp [escape, isOct]
    simp only [NotEsc.render, List.cons_append, hesc, unicode]
    rw [braceLoop_digits ds hall rest]
    cases rest with
    | nil => exact ⟨3 + ds.length, by simp [braceLoop]⟩
    | cons c r' =>
      simp only [NotEsc.look, Bool.and_eq_true, List.head?_cons, lookNot, Bool.not_eq_true', decide_eq_false_iff_not] at hlook
      have hc : hexVal c = none := (isHexDigit_false_iff c).1 hlook.1
      exact ⟨3 + ds.length, by simp [braceLoop, hlook.2, hc]⟩

end EsbuildModel.StrLex
