import EsbuildModel.Lemmas.JsonParseC6
/-
Completeness of the parser: the key of a member.
-/
namespace EsbuildModel.Json
open EsbuildModel.Spec.Json EsbuildModel.Spec.NumLit

section
variable {P : Params} (o : Opts)

/-- `keyStep` on a well-formed key, `ws ':' ws` and whatever starts the value -/
theorem key_done (L0 : Lx) (sk : Sk) (k : List SChar) (s2 s3 : List SepItem) (inp : List Cp) (seen : List (List Nat))
    (hk : strOk (dialectOf o.flavor) k = true) (hs2 : Sep.ok (dialectOf o.flavor) false false s2 = true)
    (hs3 : Sep.ok (dialectOf o.flavor) false false s3 = true) (hcl : sk.log.Clean) (hstop : SepStop inp) :
    ∃ L' seen' L3 sk3, lexAt o.flavor P L0 sk
        (cps (strTok k) ++ (cps (Sep.render s2) ++ cpOf ':' :: (cps (Sep.render s3) ++ inp))) = .ok L' ∧
      L'.tok = .str ∧ sk3.log.Clean ∧ 0 < sk3.pos ∧
      keyStep o P L' seen = (lexAt o.flavor P L3 sk3 inp).bind (fun L4 => .ok (strUnits k, seen', L4)) := by
  obtain ⟨L', L'', h1, h2, h3, h4⟩ := lexAt_string o.flavor P L0 sk k hk
    (cps (Sep.render s2) ++ cpOf ':' :: (cps (Sep.render s3) ++ inp))
  have hv := h4.trans h2
  have hw := widths_cps_pos (l := strTok k) (by simp [strTok])
  -- the colon
  obtain ⟨Lc, c1, c2, c3, c4, c5⟩ := punct_next o.flavor P L'' s2 ':' .colon (cps (Sep.render s3) ++ inp)
    (Lx.view_rest hv) (by rw [Lx.view_log hv]; exact hcl) (by rw [Lx.view_end hv]; simp only; omega) hs2 (by simp)
  -- the log after the duplicate-key warning
  let L3 : Lx := if (!o.suppress && seen.contains (strUnits k)) = true then { Lc with log := Lc.log.warn L''.start } else Lc
  have hL3 : L3.rest = cps (Sep.render s3) ++ inp ∧ L3.log.Clean ∧ 0 < L3.end_ ∧ L3.tok = .colon := by
    simp only [L3]
    split
    · exact ⟨c3, Log.clean_warn c4 _, c5, c2⟩
    · exact ⟨c3, c4, c5, c2⟩
  have he : (L3.end_ == 0) = false := by simp; omega
  obtain ⟨log', n1, n2⟩ := next_at o.flavor P L3 s3 inp false hL3.1 (by rw [he]; exact hs3) hL3.2.1 (by simp) hstop
  refine ⟨L', if o.suppress || seen.contains (strUnits k) then seen else strUnits k :: seen, L3,
    ⟨L3.end_ + widths (cps (Sep.render s3)), (L3.end_ == 0) || sepNl s3, log'⟩, h1, Lx.view_tok h2, n1, ?_, ?_⟩
  rotate_left
  · simp only [keyStep, h3, R.bind_ok, expect, Lx.view_tok hv, ne_eq, not_true_eq_false, if_false, c1]
    have : (if (!o.suppress && seen.contains (strUnits k)) = true then { Lc with log := Lc.log.warn L''.start } else Lc) = L3 := rfl
    rw [this]
    simp only [hL3.2.2.2, not_true_eq_false, if_false, n2]
  · simp only; omega

end
end EsbuildModel.Json
