import EsbuildModel.Impl.Calc
/-
Lemmas for Props/C12Calc.lean: the tree rewriting of `partiallySimplify`, instantiated with the operations of a
field, preserves the value of Spec/CssCalc.lean.
-/
namespace EsbuildModel.Calc
open EsbuildModel.Spec.CssCalc
open Lean.Grind

section
variable {α : Type} [Field α] [DecidableEq α]
set_option linter.unusedSectionVars false

/-- the operations of a field, with an arbitrary "reciprocal is shorter" test -/
def fieldOps (pd : α → Bool) : Ops α where
  add := (· + ·)
  mul := (· * ·)
  neg := (- ·)
  inv := (·⁻¹)
  preferDiv := pd

/-- the only thing the value theorem needs of the "reciprocal is shorter" test: it never fires on zero
(the float64 test does not: `f64_preferDiv_nonzero`) -/
def NeverOnZero (pd : α → Bool) : Prop := ∀ n, pd n = true → n ≠ 0

variable (ρ : Env α (Token × Bool))

def lift2 (f : α → α → α) : Option α → Option α → Option α
  | some a, some b => some (f a b)
  | _, _ => none

theorem sumVals_cons (t : Term α) (ts : List (Term α)) :
    sumVals ρ (t :: ts) = lift2 (· + ·) (value ρ t) (sumVals ρ ts) := by
  simp only [sumVals, lift2]; split <;> simp_all
theorem prodVals_cons (t : Term α) (ts : List (Term α)) :
    prodVals ρ (t :: ts) = lift2 (· * ·) (value ρ t) (prodVals ρ ts) := by
  simp only [prodVals, lift2]; split <;> simp_all

theorem sumVals_append (a b : List (Term α)) :
    sumVals ρ (a ++ b) = lift2 (· + ·) (sumVals ρ a) (sumVals ρ b) := by
  induction a with
  | nil => simp only [List.nil_append, sumVals, lift2]; cases sumVals ρ b <;> simp; grind
  | cons t r ih =>
    simp only [List.cons_append, sumVals_cons, ih]
    cases value ρ t <;> cases sumVals ρ r <;> cases sumVals ρ b <;> simp [lift2]; grind

theorem prodVals_append (a b : List (Term α)) :
    prodVals ρ (a ++ b) = lift2 (· * ·) (prodVals ρ a) (prodVals ρ b) := by
  induction a with
  | nil => simp only [List.nil_append, prodVals, lift2]; cases prodVals ρ b <;> simp; grind
  | cons t r ih =>
    simp only [List.cons_append, prodVals_cons, ih]
    cases value ρ t <;> cases prodVals ρ r <;> cases prodVals ρ b <;> simp [lift2]; grind

theorem value_sum (ts : List (Term α)) : value ρ (.sum ts) = sumVals ρ ts := by simp [value]
theorem value_prod (ts : List (Term α)) : value ρ (.prod ts) = prodVals ρ ts := by simp [value]
theorem value_num (u : List Nat) (n : α) : value ρ (.num u n : Term α) = some (n * unitVal ρ u) := by
  simp [value]

theorem sumVals_flatten (l : List (Term α)) : sumVals ρ (flattenSum l) = sumVals ρ l := by
  induction l with
  | nil => simp [flattenSum]
  | cons t r ih =>
    cases t <;> simp only [flattenSum, sumVals_cons, sumVals_append, ih, value_sum]

theorem prodVals_flatten (l : List (Term α)) : prodVals ρ (flattenProd l) = prodVals ρ l := by
  induction l with
  | nil => simp [flattenProd]
  | cons t r ih =>
    cases t <;> simp only [flattenProd, prodVals_cons, prodVals_append, ih, value_prod]

theorem unitVal_fold {u2 u : List Nat} (h : equalFold u2 u = true) : unitVal ρ u2 = unitVal ρ u := by
  have h' : foldUnit u2 = foldUnit u := by simpa [equalFold] using h
  unfold unitVal
  have hlen : u2.length = u.length := by simpa [foldUnit] using congrArg List.length h'
  have : (u2 = []) ↔ (u = []) := by
    rw [← List.length_eq_zero_iff, ← List.length_eq_zero_iff, hlen]
  by_cases e : u = []
  · simp [e, this.2 e]
  · simp [e, mt this.1 e, h']

theorem absorbSum_value (pd) (u : List Nat) (n : α) (r : List (Term α)) :
    lift2 (· + ·) (some ((absorbSum (fieldOps pd) u n r).1 * unitVal ρ u))
        (sumVals ρ (absorbSum (fieldOps pd) u n r).2)
      = lift2 (· + ·) (some (n * unitVal ρ u)) (sumVals ρ r) := by
  induction r generalizing n with
  | nil => simp [absorbSum]
  | cons t r ih =>
    cases t with
    | num u2 n2 =>
      simp only [absorbSum]
      split
      · rename_i h
        rw [ih, sumVals_cons, value_num, unitVal_fold ρ h]
        cases sumVals ρ r <;> simp [lift2, fieldOps]; grind
      · simp only [sumVals_cons, value_num]
        have := ih n
        revert this
        cases sumVals ρ (absorbSum (fieldOps pd) u n r).2 <;> cases sumVals ρ r <;> simp [lift2] <;> grind
    | _ =>
      simp only [absorbSum, sumVals_cons]
      have := ih n
      revert this
      cases sumVals ρ (absorbSum (fieldOps pd) u n r).2 <;> cases sumVals ρ r <;>
        cases value ρ _ <;> simp [lift2] <;> grind

theorem mergeSum_value (pd) (l : List (Term α)) :
    sumVals ρ (mergeSum (fieldOps pd) l) = sumVals ρ l := by
  induction h : l.length using Nat.strongRecOn generalizing l with
  | _ k ih =>
    cases l with
    | nil => simp [mergeSum]
    | cons t r =>
      cases t with
      | num u n =>
        rw [mergeSum, sumVals_cons, value_num,
          ih _ (by have := absorbSum_length (fieldOps pd) u n r; simp at h; omega) _ rfl,
          absorbSum_value, sumVals_cons, value_num]
      | _ =>
        rw [mergeSum, sumVals_cons, ih _ (by simp at h; omega) _ rfl, sumVals_cons]
        intro _ _ e; cases e

theorem value_single_sum (l : List (Term α)) : value ρ (single .sum l) = sumVals ρ l := by
  match l with
  | [] => simp [single, value]
  | [t] =>
    simp only [single, sumVals_cons, sumVals]
    cases value ρ t <;> simp [lift2]; grind
  | _ :: _ :: _ => simp [single, value]

theorem value_single_prod (l : List (Term α)) : value ρ (single .prod l) = prodVals ρ l := by
  match l with
  | [] => simp [single, value]
  | [t] =>
    simp only [single, prodVals_cons, prodVals]
    cases value ρ t <;> simp [lift2]; grind
  | _ :: _ :: _ => simp [single, value]

theorem absorbProd_value (pd) (n : α) (r : List (Term α)) :
    lift2 (· * ·) (some ((absorbProd (fieldOps pd) n r).1))
        (prodVals ρ (absorbProd (fieldOps pd) n r).2)
      = lift2 (· * ·) (some n) (prodVals ρ r) := by
  induction r generalizing n with
  | nil => simp [absorbProd]
  | cons t r ih =>
    cases t with
    | num u2 n2 =>
      simp only [absorbProd]
      split
      · rename_i h
        subst h
        rw [ih, prodVals_cons, value_num]
        cases prodVals ρ r <;> simp [lift2, fieldOps, unitVal]; grind
      · simp only [prodVals_cons, value_num]
        have := ih n
        revert this
        cases prodVals ρ (absorbProd (fieldOps pd) n r).2 <;> cases prodVals ρ r <;> simp [lift2] <;> grind
    | _ =>
      simp only [absorbProd, prodVals_cons]
      have := ih n
      revert this
      cases prodVals ρ (absorbProd (fieldOps pd) n r).2 <;> cases prodVals ρ r <;>
        cases value ρ _ <;> simp [lift2] <;> grind

theorem mergeProd_value (pd) (l : List (Term α)) :
    prodVals ρ (mergeProd (fieldOps pd) l) = prodVals ρ l := by
  induction l with
  | nil => simp [mergeProd]
  | cons t r ih =>
    cases t with
    | num u n =>
      simp only [mergeProd]
      split
      · rename_i h
        subst h
        have := absorbProd_value ρ pd n r
        simp only [prodVals_cons, value_num]
        revert this
        cases prodVals ρ (absorbProd (fieldOps pd) n r).2 <;> cases prodVals ρ r <;>
          simp [lift2, unitVal] <;> grind
      · simp only [prodVals_cons, ih]
    | _ => simp only [mergeProd, prodVals_cons, ih]

theorem twoNumbers_value (pd) (l : List (Term α)) (t : Term α)
    (h : twoNumbers (fieldOps pd) l = some t) : value ρ t = prodVals ρ l := by
  unfold twoNumbers at h
  split at h
  · rename_i u1 n1 u2 n2
    simp only [prodVals_cons, value_num, prodVals]
    split at h
    · rename_i e; subst e; cases h; simp [value_num, lift2, unitVal, fieldOps]; grind
    · split at h
      · rename_i e; subst e; cases h; simp [value_num, lift2, unitVal, fieldOps]; grind
      · cases h
  · cases h

theorem recipOne_value (pd) (hpd : NeverOnZero pd) (t : Term α) :
    value ρ (recipOne (fieldOps pd) t) = value ρ t := by
  cases t with
  | num u n =>
    simp only [recipOne]
    split
    · rename_i h
      obtain ⟨hu, hp⟩ := h
      have hn := hpd n hp
      subst hu
      have h1 : n⁻¹ * (1 : α) ≠ 0 := by
        intro e
        have := Field.mul_inv_cancel hn
        grind
      simp only [value, fieldOps, unitVal, if_true]
      rw [if_neg h1]
      congr 1
      have := Field.mul_inv_cancel hn
      grind
    · rfl
  | _ => rfl

theorem recipMap_value (pd) (hpd : NeverOnZero pd) (l : List (Term α)) :
    prodVals ρ (l.map (recipOne (fieldOps pd))) = prodVals ρ l := by
  induction l with
  | nil => rfl
  | cons t r ih => simp only [List.map_cons, prodVals_cons, ih, recipOne_value ρ pd hpd]

theorem recipTail_value (pd) (hpd : NeverOnZero pd) (l : List (Term α)) :
    prodVals ρ (recipTail (fieldOps pd) l) = prodVals ρ l := by
  cases l with
  | nil => rfl
  | cons t r => simp only [recipTail, prodVals_cons, recipMap_value ρ pd hpd]

theorem finishProd_value (pd) (hpd : NeverOnZero pd) (l : List (Term α)) :
    value ρ (finishProd (fieldOps pd) l) = prodVals ρ l := by
  unfold finishProd
  cases h : twoNumbers (fieldOps pd) (mergeProd (fieldOps pd) l) with
  | some t =>
    simp only [h]
    rw [twoNumbers_value ρ pd _ t h, mergeProd_value]
  | none =>
    simp only [h]
    rw [value_single_prod, recipTail_value ρ pd hpd, mergeProd_value]

theorem simpNeg_value (pd) (t : Term α) :
    value ρ (simpNeg (fieldOps pd) t) = value ρ (.neg t) := by
  cases t with
  | num u n => simp [simpNeg, value, fieldOps]; grind
  | neg t =>
    simp only [simpNeg, value]
    cases value ρ t <;> simp; grind
  | _ => rfl

theorem simpInv_value (pd) (t : Term α) (v : α) (h : value ρ (.inv t) = some v) :
    value ρ (simpInv (fieldOps pd) t) = some v := by
  cases t with
  | num u n =>
    simp only [simpInv]
    split
    · rename_i e
      subst e
      simp only [value, unitVal, if_true, fieldOps] at h ⊢
      split at h
      · cases h
      · cases h; congr 1; grind
    · exact h
  | inv t =>
    simp only [simpInv]
    simp only [value] at h
    cases hv : value ρ t with
    | none => simp [hv] at h
    | some w =>
      simp only [hv] at h
      by_cases hw : w = 0
      · simp [hw] at h
      · simp only [hw, if_false] at h
        split at h
        · cases h
        · cases h; congr 1; grind
  | _ => exact h

theorem lift2_some {f : α → α → α} {a b : Option α} {v : α} (h : lift2 f a b = some v) :
    ∃ x y, a = some x ∧ b = some y ∧ v = f x y := by
  cases a <;> cases b <;> simp [lift2] at h
  exact ⟨_, _, rfl, rfl, h.symm⟩

mutual
theorem simp_value_aux (pd) (hpd : NeverOnZero pd) :
    ∀ (t : Term α) (v : α), value ρ t = some v → value ρ (simp (fieldOps pd) t) = some v
  | .sum ts, v, h => by
    rw [simp, value_single_sum, mergeSum_value, sumVals_flatten]
    exact simpList_sum_aux pd hpd ts v (by rwa [value_sum] at h)
  | .prod ts, v, h => by
    rw [simp, finishProd_value ρ pd hpd, prodVals_flatten]
    exact simpList_prod_aux pd hpd ts v (by rwa [value_prod] at h)
  | .neg t, v, h => by
    rw [simp, simpNeg_value]
    simp only [value] at h ⊢
    cases hv : value ρ t with
    | none => simp [hv] at h
    | some w => rw [simp_value_aux pd hpd t w hv]; simpa [hv] using h
  | .inv t, v, h => by
    rw [simp]
    apply simpInv_value
    simp only [value] at h ⊢
    cases hv : value ρ t with
    | none => simp [hv] at h
    | some w => rw [simp_value_aux pd hpd t w hv]; simpa [hv] using h
  | .num u n, v, h => by rw [simp]; exact h
  | .leaf x, v, h => by rw [simp]; exact h
theorem simpList_sum_aux (pd) (hpd : NeverOnZero pd) :
    ∀ (ts : List (Term α)) (v : α), sumVals ρ ts = some v →
      sumVals ρ (simpList (fieldOps pd) ts) = some v
  | [], v, h => by rw [simpList]; exact h
  | t :: r, v, h => by
    rw [sumVals_cons] at h
    obtain ⟨x, y, hx, hy, hv⟩ := lift2_some h
    rw [simpList, sumVals_cons, simp_value_aux pd hpd t x hx, simpList_sum_aux pd hpd r y hy, hv]
    rfl
theorem simpList_prod_aux (pd) (hpd : NeverOnZero pd) :
    ∀ (ts : List (Term α)) (v : α), prodVals ρ ts = some v →
      prodVals ρ (simpList (fieldOps pd) ts) = some v
  | [], v, h => by rw [simpList]; exact h
  | t :: r, v, h => by
    rw [prodVals_cons] at h
    obtain ⟨x, y, hx, hy, hv⟩ := lift2_some h
    rw [simpList, prodVals_cons, simp_value_aux pd hpd t x hx, simpList_prod_aux pd hpd r y hy, hv]
    rfl
end

end

-- ---------------------------------------------------------------- units are kept apart (any operations)
section
variable {α : Type}

/-- the units (canonical spelling) of the numeric children of a list -/
def numUnits : List (Term α) → List (List Nat)
  | [] => []
  | .num u _ :: r => foldUnit u :: numUnits r
  | _ :: r => numUnits r

theorem absorbSum_units (o : Ops α) (u : List Nat) (n : α) (l : List (Term α)) :
    foldUnit u ∉ numUnits (absorbSum o u n l).2 ∧
    ∀ w, w ∈ numUnits (absorbSum o u n l).2 → w ∈ numUnits l := by
  induction l generalizing n with
  | nil => simp [absorbSum, numUnits]
  | cons t r ih =>
    cases t with
    | num u2 n2 =>
      simp only [absorbSum]
      split
      · have := ih (o.add n n2)
        exact ⟨this.1, fun w hw => by simp only [numUnits, List.mem_cons]; exact Or.inr (this.2 w hw)⟩
      · rename_i hne
        have := ih n
        refine ⟨?_, ?_⟩
        · simp only [numUnits, List.mem_cons]
          rintro (e | e)
          · apply hne; simp [equalFold, e]
          · exact this.1 e
        · intro w hw
          simp only [numUnits, List.mem_cons] at hw ⊢
          exact hw.elim Or.inl (fun h => Or.inr (this.2 w h))
    | _ =>
      simp only [absorbSum, numUnits]
      exact ih n
end

-- ---------------------------------------------------------------- the float64 test never fires on ±0

theorem floatToString_inf (b : Bool) : floatToString (.inf b) = none := rfl

/-- `1 / ±0 = ±Inf`, which `floatToStringForCalc` refuses, so the deviation leaves `x * 0` alone -/
theorem f64_preferDiv_nonzero (n : F64) (h : f64Ops.preferDiv n = true) : F64.isZero n = false := by
  cases n with
  | nan => rfl
  | inf b => rfl
  | fin s m e =>
    by_cases hm : m = 0
    · subst hm
      have : F64.exactDiv F64.one (.fin s 0 e) = .inf (false != s) := by
        simp [F64.exactDiv, F64.one]
      simp only [f64Ops, this, floatToString_inf] at h
      split at h <;> simp_all
    · simp [F64.isZero, hm]

end EsbuildModel.Calc
