import EsbuildModel.Lemmas.Lower3RestVisit
/-!
The two ways the loop of `visit` ends: all properties passed and no rest element (one native pattern), or a rest
element (lowerObjectRestPattern).
-/
namespace EsbuildModel.Lower3

theorem runAL_one (w : World) (g : Bool) (p : Pat) (e : E) (s : TState) :
    runAL w g [(p, e)] s = bindR (evalE w g e s) fun v s1 => bindR (bindPat w g p v s1) fun _ s2 => ((.ok .undef : Res), s2) := by
  simp only [runAL]

theorem runAL_cons (w : World) (g : Bool) (p : Pat) (e : E) (r : List (Pat × E)) (s : TState) :
    runAL w g ((p, e) :: r) s = bindR (evalE w g e s) fun v s1 => bindR (bindPat w g p v s1) fun _ s2 => runAL w g r s2 := rfl

theorem ltB_false (B j : Nat) (h : B ≤ j) : ltB B j = false := by
  simp only [ltB, decide_eq_false_iff_not]; omega

/-- the value is not undefined or null: either the test has been made, or the source side knows -/
theorem nonNullish_of {chk : Bool} {v : Val} {r : Res} (hc : ¬ (chk && v.nullish) = true)
    (hnn : chk = false → ∀ v', r = .ok v' → v'.nullish = false) (hr : r = .ok v) : v.nullish = false := by
  cases chk with
  | true => simpa using hc
  | false => exact hnn rfl v hr

theorem visit_end_none (w : World) (B : Nat) {done' done₀ : PPL} {cs : List CK} {m0 n : Nat}
    (hD : DoneRel w B false done' done₀ cs m0 n) (init' : E) (I : TState → Res × TState) (ex0 : List Ex) (chk : Bool)
    (s s' : TState) (hI : RelR (evalE w true init' s) (I s'))
    (hnn : chk = false → ∀ v, (I s').1 = .ok v → v.nullish = false) :
    RelQ (fun (_ : Val) _ => True) (runAL w true [(.obj done' none, init')] s)
      (bindR (I s') fun v s1' => srcTail w chk done₀ .nil none ex0 v s1') := by
  rw [runAL_one]
  refine RelR.bindQ hI (fun v s1 s1' _ e1' hh1 => ?_)
  simp only [srcTail, PPL.append_nil, Option.isSome_none, Bool.and_false, Bool.false_eq_true, if_false, bindPat]
  by_cases hc : (chk && v.nullish) = true
  · simp only [Bool.and_eq_true] at hc
    obtain ⟨hchk, hv⟩ := hc
    simp only [hchk, hv, Bool.and_self, if_true, bindR_err]
    exact Or.inr ⟨rfl, hh1, fun y hy => by simp at hy⟩
  · have hv := nonNullish_of hc hnn (by rw [e1'])
    simp only [hv, Bool.and_false, if_false, Bool.false_eq_true, bindR_assoc, bindR_ok]
    refine RelQ.bind (done_sim w B false hD v [] ex0 s1 s1' hh1) (fun _ _ s2 s2' _ _ hh2 _ => ?_)
    exact Or.inr ⟨rfl, hh2, fun _ _ => trivial⟩

theorem visit_end_rest (w : World) (hq : Quiet w) (B : Nat) {done' done₀ : PPL} {cs : List CK} {nS m0 n : Nat} (r : Nat)
    (hD : DoneRel w B true done' done₀ cs m0 n) (hB : B ≤ nS) (hS : nS ≤ m0)
    (init' : E) (hiw : init'.wr (ltB nS) = true) (I : TState → Res × TState)
    (cap0 : List CK) (ex0 : List Ex) (chk : Bool) (s s' : TState)
    (hI : RelR (evalE w true init' s) (I s'))
    (hc0r : ∀ j, CK.temp j ∈ cap0 → nS ≤ j ∧ j < m0) (hc0 : CapT s.tm cap0 ex0)
    (hnn : chk = false → ∀ v, (I s').1 = .ok v → v.nullish = false) :
    RelQ (fun (_ : Val) _ => True) (runAL w true (restPattern done' r init' (cap0 ++ cs) n).1 s)
      (bindR (I s') fun v s1' => srcTail w chk done₀ .nil (some r) ex0 v s1') := by
  have hmn := hD.le
  unfold restPattern
  by_cases hnil : done'.isNil = true
  · -- `{...r} = init`
    have hd' := PPL.isNil_eq done' hnil
    subst hd'
    cases hD
    simp only [PPL.isNil, if_true, runAL_one, evalE, bindR_assoc, List.append_nil]
    refine RelR.bindQ hI (fun v s1 s1' e1 e1' hh1 => ?_)
    simp only [srcTail, PPL.append, PPL.isNil, Option.isSome_some, Bool.and_true, bindPPL, bindR_ok]
    by_cases hc : (chk && v.nullish) = true
    · simp only [hc, if_true]
      exact Or.inl trivial
    · have hv := nonNullish_of hc hnn (by rw [e1'])
      simp only [hc, if_false, Bool.false_eq_true]
      have hcap : CapT s1.tm cap0 ex0 := by
        refine hc0.frame (fun j hj => ?_)
        have hf := evalE_frame w true (ltB nS) j (ltB_false nS j (hc0r j hj).1) init' s hiw
        rw [e1] at hf
        exact hf
      have := rest_call w hq r cap0 ex0 v hv s1 s1' hh1 hcap
      simpa only [bindR_assoc] using this
  · -- `{done, ...r} = init`
    have hnil0 : done₀.isNil = false := by rw [← hD.isNil]; simpa using hnil
    simp only [hnil, if_false, Bool.false_eq_true, runAL_cons, runAL, evalE, bindPat, bindR_assoc, bindR_ok]
    refine RelR.bindQ hI (fun v s1 s1' e1 e1' hh1 => ?_)
    have htn : (setTmp n v s1).tm n = v := by simp [setTmp, upd]
    simp only [srcTail, PPL.append_nil, hnil0, Bool.false_and, Bool.false_eq_true, if_false, htn,
      Option.isSome_none, Bool.and_false, Option.isSome_some]
    by_cases hc : (chk && v.nullish) = true
    · simp only [Bool.and_eq_true] at hc
      obtain ⟨hchk, hv⟩ := hc
      simp only [hchk, hv, Bool.and_self, if_true, bindR_err]
      exact Or.inr ⟨rfl, hh1, fun y hy => by simp at hy⟩
    · have hv := nonNullish_of hc hnn (by rw [e1'])
      simp only [hv, Bool.and_false, if_false, Bool.false_eq_true, bindR_assoc, bindR_ok]
      have hdw := hD.wr
      refine RelQ.bind (done_sim w B true hD v [] ex0 (setTmp n v s1) s1' hh1) (fun _ exOut s2 s2' e2 _ hh2 q2 => ?_)
      obtain ⟨exNew, hex, hcs⟩ := q2
      have hf2 : ∀ j, B ≤ j → (j < m0 ∨ n ≤ j) → s2.tm j = (setTmp n v s1).tm j := by
        intro j hj hj2
        have hf := bindPPL_frame w true _ j (by simp; omega) done' false v [] (setTmp n v s1) hdw
        rw [e2] at hf
        exact hf
      have hn2 : s2.tm n = v := by rw [hf2 n (by omega) (Or.inr (Nat.le_refl _)), htn]
      have hcap : CapT s2.tm (cap0 ++ cs) exOut := by
        rw [hex]
        refine CapT.append (hc0.frame (fun j hj => ?_)) (hcs rfl)
        have hj2 := hc0r j hj
        have hf := evalE_frame w true (ltB nS) j (ltB_false nS j hj2.1) init' s hiw
        rw [e1] at hf
        rw [hf2 j (by omega) (Or.inl hj2.2)]
        simp only [setTmp, upd]
        have : j ≠ n := by omega
        simp only [this, if_false]
        exact hf
      have := rest_call w hq r (cap0 ++ cs) exOut v hv s2 s2' hh2 hcap
      simpa only [bindR_assoc, hn2, bindPat, bindR_ok] using this

end EsbuildModel.Lower3
