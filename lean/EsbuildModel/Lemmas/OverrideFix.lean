import EsbuildModel.Impl.OverrideFix
/-! Structural lemmas about the override-implication step: for ANY call list and ANY initial sets. -/
namespace EsbuildModel.OverrideFix

/-! ### the interpreter of the extracted body agrees with the reviewed helper -/

theorem fixOne_reviewed (c : String × FSet) (s : St) : fixOne reviewedBody c s = some (fixR c s) := by
  unfold fixOne fixR
  by_cases h : c.1 ∈ s.overrides
  · simp [reviewedBody, St.field?, arg?, has, runAssigns, St.orInto?, h]
  · simp [reviewedBody, St.field?, arg?, has, h]

theorem applyAll_reviewed (calls : List (String × FSet)) (s : St) :
    applyAll reviewedBody calls s = some (runR calls s) := by
  induction calls generalizing s with
  | nil => rfl
  | cons c rest ih => simp [applyAll, runR, fixOne_reviewed, ih]

/-! ### the sets only grow -/

/-- componentwise inclusion -/
def St.le (s t : St) : Prop :=
  (∀ f ∈ s.features, f ∈ t.features) ∧ (∀ f ∈ s.overrides, f ∈ t.overrides) ∧ (∀ f ∈ s.mask, f ∈ t.mask)

theorem St.le_refl (s : St) : s.le s := ⟨fun _ h => h, fun _ h => h, fun _ h => h⟩

theorem St.le_trans {s t u : St} (h1 : s.le t) (h2 : t.le u) : s.le u :=
  ⟨fun f h => h2.1 f (h1.1 f h), fun f h => h2.2.1 f (h1.2.1 f h), fun f h => h2.2.2 f (h1.2.2 f h)⟩

theorem fixR_le (c : String × FSet) (s : St) : s.le (fixR c s) := by
  unfold fixR
  split
  · exact ⟨fun f h => List.mem_append_left _ h, fun f h => List.mem_append_left _ h, fun f h => List.mem_append_left _ h⟩
  · exact St.le_refl s

theorem runR_le (calls : List (String × FSet)) (s : St) : s.le (runR calls s) := by
  induction calls generalizing s with
  | nil => exact St.le_refl s
  | cons c rest ih => exact St.le_trans (fixR_le c s) (ih (fixR c s))

/-- a call whose trigger is present adds its whole `implied` set to all three fields -/
theorem fixR_fired {c : String × FSet} {s : St} (h : c.1 ∈ s.overrides) :
    ∀ g ∈ c.2, g ∈ (fixR c s).features ∧ g ∈ (fixR c s).overrides ∧ g ∈ (fixR c s).mask := by
  intro g hg
  simp [fixR, h, hg]

/-- all of `S` is in the three fields of `s` -/
def St.hasAll (s : St) (S : FSet) : Prop := ∀ g ∈ S, g ∈ s.features ∧ g ∈ s.overrides ∧ g ∈ s.mask

theorem St.hasAll_mono {s t : St} (h : s.le t) {S : FSet} (hs : s.hasAll S) : t.hasAll S :=
  fun g hg => ⟨h.1 g (hs g hg).1, h.2.1 g (hs g hg).2.1, h.2.2 g (hs g hg).2.2⟩

/-! ### where a new override comes from -/

theorem runR_origin (calls : List (String × FSet)) (s : St) (f : String)
    (h : f ∈ (runR calls s).overrides) :
    f ∈ s.overrides ∨ ∃ q ∈ calls, f ∈ q.2 ∧ (runR calls s).hasAll q.2 := by
  induction calls generalizing s with
  | nil => exact Or.inl h
  | cons c rest ih =>
    simp only [runR] at h ⊢
    rcases ih (fixR c s) h with h1 | ⟨q, hq, hf, hall⟩
    · by_cases hc : c.1 ∈ s.overrides
      · have : f ∈ s.overrides ++ c.2 := by simpa [fixR, hc] using h1
        rcases List.mem_append.mp this with h2 | h2
        · exact Or.inl h2
        · refine Or.inr ⟨c, List.mem_cons_self, h2, ?_⟩
          exact St.hasAll_mono (runR_le rest (fixR c s)) (fixR_fired hc)
      · left
        simpa [fixR, hc] using h1
    · exact Or.inr ⟨q, List.mem_cons_of_mem _ hq, hf, hall⟩

/-! ### closure -/

theorem orderOK_cons {p : String × FSet} {rest : List (String × FSet)} (h : orderOK (p :: rest) = true) :
    (∀ q ∈ rest, p.1 ∈ q.2 → ∀ f ∈ p.2, f ∈ q.2) ∧ orderOK rest = true := by
  simp only [orderOK, Bool.and_eq_true, List.all_eq_true] at h
  refine ⟨?_, h.2⟩
  intro q hq hp f hf
  have := h.1 q hq
  simp only [Bool.or_eq_true, Bool.not_eq_true', List.all_eq_true] at this
  rcases this with h1 | h1
  · simp [hp] at h1
  · simp at h1; exact h1 f hf

/-- CLOSURE: if the call list satisfies `orderOK`, then for every initial state, every call whose trigger is in the
final override set has its whole `implied` set in the final features, overrides and mask. -/
theorem runR_closed (calls : List (String × FSet)) (hok : orderOK calls = true) (s : St) :
    ∀ p ∈ calls, p.1 ∈ (runR calls s).overrides → (runR calls s).hasAll p.2 := by
  induction calls generalizing s with
  | nil => intro p hp; cases hp
  | cons c rest ih =>
    obtain ⟨hc, hrest⟩ := orderOK_cons hok
    intro p hp htrig
    simp only [runR] at htrig ⊢
    rcases List.mem_cons.mp hp with rfl | hp'
    · by_cases hfire : p.1 ∈ s.overrides
      · exact St.hasAll_mono (runR_le rest (fixR p s)) (fixR_fired hfire)
      · -- the trigger was switched on by a later call q; q's implied set contains p's
        rcases runR_origin rest (fixR p s) p.1 htrig with h1 | ⟨q, hq, hpq, hall⟩
        · simp [fixR, hfire] at h1
        · intro g hg
          exact hall g (hc q hq hpq g hg)
    · exact ih hrest (fixR c s) p hp' htrig

theorem transClosed_perm {l₁ l₂ : List (String × FSet)} (hp : l₁.Perm l₂) (h : transClosed l₁ = true) :
    transClosed l₂ = true := by
  simp only [transClosed, List.all_eq_true] at h ⊢
  intro p hp2 q hq2
  exact h p (hp.symm.subset hp2) q (hp.symm.subset hq2)

theorem transClosed_orderOK (calls : List (String × FSet)) (h : transClosed calls = true) : orderOK calls = true := by
  have key : ∀ (l : List (String × FSet)), (∀ p ∈ l, ∀ q ∈ l, (!q.2.contains p.1 || p.2.all (fun f => q.2.contains f)) = true) →
      orderOK l = true := by
    intro l
    induction l with
    | nil => intro _; rfl
    | cons p rest ih =>
      intro hl
      simp only [orderOK, Bool.and_eq_true, List.all_eq_true]
      refine ⟨fun q hq => hl p List.mem_cons_self q (List.mem_cons_of_mem _ hq), ih ?_⟩
      intro a ha b hb
      exact hl a (List.mem_cons_of_mem _ ha) b (List.mem_cons_of_mem _ hb)
  apply key
  simpa only [transClosed, List.all_eq_true] using h

/-! ### soundness: nothing is added that is not forced -/

/-- `f` is listed by a call whose trigger is forced -/
def Implied (calls : List (String × FSet)) (init : FSet) (f : String) : Prop :=
  ∃ a S, (a, S) ∈ calls ∧ Forced calls init a ∧ f ∈ S

structure Inv (calls : List (String × FSet)) (init s : St) : Prop where
  ov : ∀ f ∈ s.overrides, Forced calls init.overrides f
  ft : ∀ f ∈ s.features, f ∈ init.features ∨ Implied calls init.overrides f
  msk : ∀ f ∈ s.mask, f ∈ init.mask ∨ Implied calls init.overrides f

theorem Inv.init (calls : List (String × FSet)) (s : St) : Inv calls s s :=
  ⟨fun _ h => Forced.base h, fun _ h => Or.inl h, fun _ h => Or.inl h⟩

theorem Inv.fixR {calls : List (String × FSet)} {init s : St} {c : String × FSet} (hc : c ∈ calls)
    (h : Inv calls init s) : Inv calls init (fixR c s) := by
  unfold OverrideFix.fixR
  split
  · rename_i hfire
    have hforced : Forced calls init.overrides c.1 := h.ov _ hfire
    have himp : ∀ f ∈ c.2, Implied calls init.overrides f := fun f hf => ⟨c.1, c.2, hc, hforced, hf⟩
    refine ⟨?_, ?_, ?_⟩
    · intro f hf
      rcases List.mem_append.mp hf with h1 | h1
      · exact h.ov f h1
      · exact Forced.step hc hforced h1
    · intro f hf
      rcases List.mem_append.mp hf with h1 | h1
      · exact h.ft f h1
      · exact Or.inr (himp f h1)
    · intro f hf
      rcases List.mem_append.mp hf with h1 | h1
      · exact h.msk f h1
      · exact Or.inr (himp f h1)
  · exact h

theorem Inv.runR {calls : List (String × FSet)} {init : St} (suffix : List (String × FSet))
    (hsub : ∀ c ∈ suffix, c ∈ calls) (s : St) (h : Inv calls init s) : Inv calls init (runR suffix s) := by
  induction suffix generalizing s with
  | nil => exact h
  | cons c rest ih =>
    exact ih (fun q hq => hsub q (List.mem_cons_of_mem _ hq)) (OverrideFix.fixR c s) (h.fixR (hsub c List.mem_cons_self))

theorem runR_sound (calls : List (String × FSet)) (s : St) : Inv calls s (runR calls s) :=
  Inv.runR calls (fun _ h => h) s (Inv.init calls s)

/-- completeness: under closure, everything forced is present -/
theorem forced_mem (calls : List (String × FSet)) (hok : orderOK calls = true) (s : St) (f : String)
    (h : Forced calls s.overrides f) : f ∈ (runR calls s).overrides := by
  induction h with
  | base hf => exact (runR_le calls s).2.1 _ hf
  | step hmem _ hfS ih => exact (runR_closed calls hok s _ hmem ih _ hfS).2.1

end EsbuildModel.OverrideFix
