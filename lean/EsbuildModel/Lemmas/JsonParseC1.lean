import EsbuildModel.Lemmas.JsonNum2
/-
Completeness of the parser, preparations: `next` in front of a separator, the first characters of values and
separators, unfolding lemmas for the parser loops.
-/
namespace EsbuildModel.Json
open EsbuildModel.Spec.Json EsbuildModel.Spec.NumLit

/-- **`Next` skips a well-formed separator and lexes what follows** -/
theorem next_at (fl : Flavor) (P : Params) (L : Lx) (s : List SepItem) (inp : List Cp) (final : Bool)
    (hrest : L.rest = cps (Sep.render s) ++ inp) (hok : Sep.ok (dialectOf fl) final (L.end_ == 0) s = true)
    (hcl : L.log.Clean) (hfin : final = true → inp = []) (hstop : SepStop inp) :
    ∃ log', log'.Clean ∧
      next fl P L = lexAt fl P L ⟨L.end_ + widths (cps (Sep.render s)), (L.end_ == 0) || sepNl s, log'⟩ inp := by
  obtain ⟨log', h1, h2⟩ := skipSep_complete fl s none ⟨L.end_, L.end_ == 0, L.log⟩ final inp hok (by simp) (by simp)
    hcl hfin hstop
  refine ⟨log', h1, ?_⟩
  simp only [modeOf] at h2
  simp only [next, hrest, h2]

/-! ## first characters -/

theorem sepStop_of_digit {c : Char} {r : List Cp} (h : isDigit c = true) : SepStop (cpOf c :: r) := by
  intro c' r' heq
  simp only [List.cons.injEq] at heq
  obtain ⟨rfl, rfl⟩ := heq
  simp only [cpOf_c]
  have hr : 48 ≤ c.toNat ∧ c.toNat ≤ 57 := by simpa [isDigit] using h
  refine ⟨?_, ?_, ?_, ?_, ?_, ?_, ?_⟩
  · simp only [isNewline, Bool.or_eq_false_iff, beq_eq_false_iff_ne, ne_eq]
    refine ⟨⟨⟨?_, ?_⟩, ?_⟩, ?_⟩
    · rintro rfl; revert hr; decide
    · rintro rfl; revert hr; decide
    · omega
    · omega
  · rintro rfl; revert hr; decide
  · rintro rfl; revert hr; decide
  · simp only [isWhitespace, Bool.or_eq_false_iff, beq_eq_false_iff_ne, ne_eq, Bool.and_eq_false_iff,
      decide_eq_false_iff_not, Nat.not_le]
    omega
  · rintro rfl; revert hr; decide
  · rintro rfl; revert hr; decide
  · rintro rfl; exact absurd hr (by decide)

theorem sepStop_of_punct {c : Char} {r : List Cp}
    (h : c = '[' ∨ c = ']' ∨ c = '{' ∨ c = '}' ∨ c = ',' ∨ c = ':' ∨ c = '"' ∨ c = 't' ∨ c = 'f' ∨ c = 'n' ∨ c = '.') :
    SepStop (cpOf c :: r) := by
  intro c' r' heq
  simp only [List.cons.injEq] at heq
  obtain ⟨rfl, rfl⟩ := heq
  simp only [cpOf_c]
  rcases h with rfl | rfl | rfl | rfl | rfl | rfl | rfl | rfl | rfl | rfl | rfl <;>
    exact ⟨by decide, by decide, by decide, by decide, by decide, by decide, fun h => absurd h (by decide)⟩

theorem follow_of_punct {c : Char} {r : List Cp} (h : c = ',' ∨ c = ']' ∨ c = '}' ∨ c = ':') : Follow (cpOf c :: r) := by
  intro c' r' heq
  simp only [List.cons.injEq] at heq
  obtain ⟨rfl, rfl⟩ := heq
  rcases h with rfl | rfl | rfl | rfl <;> decide

/-- the first character of a non-empty well-formed separator that does not start at the beginning of a line -/
theorem sep_head {d : Dialect} {final : Bool} {s : List SepItem} (hok : Sep.ok d final false s = true) (hne : s ≠ []) :
    ∃ c t, Sep.render s = c :: t ∧ (isRfcWs c = true ∨ d.extraWs c = true ∨ c = '/' ∨ c = '<') := by
  cases s with
  | nil => exact absurd rfl hne
  | cons it t =>
    cases it with
    | ws c =>
      simp only [Sep.ok, Bool.and_eq_true, Bool.or_eq_true] at hok
      refine ⟨c, Sep.render t, by simp [SepItem.render], ?_⟩
      rcases hok.1 with h | h
      · exact Or.inl h
      · exact Or.inr (Or.inl h)
    | line b => exact ⟨'/', '/' :: (b ++ Sep.render t), by simp [SepItem.render], Or.inr (Or.inr (Or.inl rfl))⟩
    | block b => exact ⟨'/', '*' :: (b ++ '*' :: '/' :: Sep.render t), by simp [SepItem.render], Or.inr (Or.inr (Or.inl rfl))⟩
    | htmlOpen b => exact ⟨'<', '!' :: '-' :: '-' :: (b ++ Sep.render t), by simp [SepItem.render], Or.inr (Or.inr (Or.inr rfl))⟩
    | htmlClose b => simp [Sep.ok] at hok

theorem follow_sep (fl : Flavor) {final : Bool} {s : List SepItem} (hok : Sep.ok (dialectOf fl) final false s = true)
    {inp : List Cp} (hinp : Follow inp) : Follow (cps (Sep.render s) ++ inp) := by
  by_cases hne : s = []
  · subst hne; simpa using hinp
  · obtain ⟨c, t, hr, hc⟩ := sep_head hok hne
    intro c' r' heq
    rw [hr] at heq
    simp only [cps_cons, List.cons_append, List.cons.injEq] at heq
    obtain ⟨rfl, _⟩ := heq
    simp only [cpOf_c, isDelim, Bool.or_eq_true, beq_iff_eq]
    rcases hc with h | h | h | h
    · exact Or.inl (Or.inr h)
    · right; rw [dialect_extraWs] at h; exact h
    · left; left; left; right; exact h
    · left; left; right; exact h

theorem follow_nil : Follow [] := by intro c r h; cases h

/-! ## dispatch of `lexAt` on digits and the minus sign -/

theorem lexAt_digit (fl : Flavor) (P : Params) (L : Lx) (sk : Sk) (c : Cp) (r : List Cp) (h : isDigit c.c = true) :
    lexAt fl P L sk (c :: r) = lexNumber fl P L sk (c :: r) := by
  have hr : 48 ≤ c.c.toNat ∧ c.c.toNat ≤ 57 := by simpa [isDigit] using h
  have hne : ∀ x : Char, (x.toNat < 48 ∨ 57 < x.toNat) → c.c ≠ x := by
    intro x hx heq; rw [heq] at hr; omega
  simp only [lexAt, hne '[' (by decide), hne ']' (by decide), hne '{' (by decide), hne '}' (by decide),
    hne ',' (by decide), hne ':' (by decide), hne '-' (by decide), hne '"' (by decide), hne '\'' (by decide),
    hne '`' (by decide), h, if_false, false_or, or_true, if_true]

theorem lexAt_minus (fl : Flavor) (P : Params) (L : Lx) (sk : Sk) (r : List Cp)
    (h1 : headIs r (fun d => d == '=' || d == '-') = false)
    (h2 : fl = .json → headIs r (fun d => d == '.' || isDigit d) = true) :
    lexAt fl P L sk (cpOf '-' :: r) = .ok (L.at sk .minus r (sk.pos + (cpOf '-').w)) := by
  simp only [lexAt, cpOf_c]
  simp only [Char.reduceEq, if_false, if_true, h1, Bool.false_eq_true]
  split
  · rename_i h; rw [h2 h.1] at h; simp at h
  · rfl

end EsbuildModel.Json
