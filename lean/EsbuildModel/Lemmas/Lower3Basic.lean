import EsbuildModel.Impl.Lower3
/-!
Basic lemmas for Impl/Lower3.lean: sequencing, the relation "the source run left the model or both runs agree",
ordered property lists (`alGet` / `alSet`), and defining all properties of one fresh object on another
(`__spreadProps`).
-/
namespace EsbuildModel.Lower3

@[simp] theorem bindR_ok {α β σ : Type} (v : α) (s : σ) (f : α → σ → R β × σ) : bindR (.ok v, s) f = f v s := rfl
@[simp] theorem bindR_err {α β σ : Type} (x : Exc) (s : σ) (f : α → σ → R β × σ) :
    bindR ((.err x : R α), s) f = (.err x, s) := rfl

theorem bindR_assoc {α β γ σ : Type} (r : R α × σ) (f : α → σ → R β × σ) (g : β → σ → R γ × σ) :
    bindR (bindR r f) g = bindR r (fun a s => bindR (f a s) g) := by
  obtain ⟨a, s⟩ := r
  cases a <;> rfl

theorem bindR_ret {α σ : Type} (r : R α × σ) : bindR r (fun a s => (.ok a, s)) = r := by
  obtain ⟨a, s⟩ := r
  cases a <;> rfl

/-- the source run stopped at one of the recorded situations -/
def Outside {α : Type} : R α → Prop
  | .err (.outside _) => True
  | _ => False

@[simp] theorem outside_ok {α : Type} (a : α) : ¬ Outside (.ok a : R α) := fun h => h
@[simp] theorem outside_type {α : Type} : ¬ Outside (.err .typeError : R α) := fun h => h
@[simp] theorem outside_host {α : Type} (v : Val) : ¬ Outside (.err (.host v) : R α) := fun h => h
@[simp] theorem outside_ill {α : Type} : ¬ Outside (.err .illFormed : R α) := fun h => h
@[simp] theorem outside_outside {α : Type} (z : Hz) : Outside (.err (.outside z) : R α) := trivial

theorem outside_bind {α β σ : Type} (r : R α × σ) (f : α → σ → R β × σ) (h : Outside r.1) : Outside (bindR r f).1 := by
  obtain ⟨a, s⟩ := r
  cases a with
  | ok v => exact absurd h (outside_ok v)
  | err x =>
    cases x with
    | outside z => trivial
    | typeError => exact h.elim
    | host v => exact h.elim
    | illFormed => exact h.elim

/-- same result and same user-visible state (trace and variables), unless the right-hand (source) run left the
model -/
def RelR {α : Type} (a b : R α × TState) : Prop := Outside b.1 ∨ (a.1 = b.1 ∧ a.2.h = b.2.h)

theorem RelR.refl {α : Type} (a : R α × TState) : RelR a a := Or.inr ⟨rfl, rfl⟩

theorem RelR.of_eq {α : Type} {a b : R α × TState} (h : a = b) : RelR a b := h ▸ RelR.refl a

theorem RelR.trans {α : Type} {a b c : R α × TState} (h1 : RelR a b) (h2 : RelR b c) : RelR a c := by
  cases h2 with
  | inl h => exact Or.inl h
  | inr h2 =>
    cases h1 with
    | inl h => exact Or.inl (h2.1 ▸ h)
    | inr h1 => exact Or.inr ⟨h1.1.trans h2.1, h1.2.trans h2.2⟩

/-- sequencing respects the relation -/
theorem RelR.bind {α β : Type} {a b : R α × TState} {F G : α → TState → R β × TState}
    (h : RelR a b) (hk : ∀ v s s', s.h = s'.h → RelR (F v s) (G v s')) : RelR (bindR a F) (bindR b G) := by
  obtain ⟨ra, sa⟩ := a
  obtain ⟨rb, sb⟩ := b
  cases h with
  | inl h => exact Or.inl (outside_bind _ _ h)
  | inr h =>
    obtain ⟨h1, h2⟩ := h
    simp only at h1 h2
    subst h1
    cases ra with
    | ok v => exact hk v sa sb h2
    | err x => exact Or.inr ⟨rfl, h2⟩

@[simp] theorem liftH_fst {α : Type} (f : H → R α × H) (s : TState) : (liftH f s).1 = (f s.h).1 := rfl
@[simp] theorem liftH_snd_h {α : Type} (f : H → R α × H) (s : TState) : (liftH f s).2.h = (f s.h).2 := rfl
@[simp] theorem liftH_snd_tm {α : Type} (f : H → R α × H) (s : TState) : (liftH f s).2.tm = s.tm := rfl

theorem RelR.liftH {α : Type} (f : H → R α × H) (s s' : TState) (h : s.h = s'.h) : RelR (liftH f s) (liftH f s') := by
  refine Or.inr ⟨?_, ?_⟩ <;> simp [h]

/-- induction over a list of property definitions (the sub-expressions are not touched) -/
theorem PL.ind {motive : PL → Prop} (nil : motive .nil)
    (data : ∀ k ke v rest, motive rest → motive (.data k ke v rest))
    (getter : ∀ k ke g rest, motive rest → motive (.getter k ke g rest))
    (setter : ∀ k ke f rest, motive rest → motive (.setter k ke f rest))
    (proto : ∀ v rest, motive rest → motive (.proto v rest))
    (spread : ∀ e rest, motive rest → motive (.spread e rest)) : ∀ ps, motive ps
  | .nil => nil
  | .data k ke v rest => data k ke v rest (PL.ind nil data getter setter proto spread rest)
  | .getter k ke g rest => getter k ke g rest (PL.ind nil data getter setter proto spread rest)
  | .setter k ke f rest => setter k ke f rest (PL.ind nil data getter setter proto spread rest)
  | .proto v rest => proto v rest (PL.ind nil data getter setter proto spread rest)
  | .spread e rest => spread e rest (PL.ind nil data getter setter proto spread rest)

theorem PPL.ind {motive : PPL → Prop} (nil : motive .nil)
    (prop : ∀ k ke t hd d tl, motive tl → motive (.prop k ke t hd d tl)) : ∀ ps, motive ps
  | .nil => nil
  | .prop k ke t hd d tl => prop k ke t hd d tl (PPL.ind nil prop tl)

-- ---------------------------------------------------------------- ordered property lists

section AL
variable {κ σ : Type} [DecidableEq κ]

theorem alGet_alSet (l : List (κ × σ)) (k k' : κ) (s : σ) :
    alGet (alSet l k s) k' = if k = k' then some s else alGet l k' := by
  induction l with
  | nil => simp [alSet, alGet]
  | cons p r ih =>
    obtain ⟨k2, s2⟩ := p
    by_cases h2 : k2 = k
    · subst h2
      simp only [alSet, if_true, alGet]
      by_cases h3 : k2 = k' <;> simp [h3]
    · simp only [alSet, h2, if_false, alGet, ih]
      by_cases h3 : k2 = k'
      · subst h3
        have : ¬ k = k2 := fun e => h2 e.symm
        simp [this]
      · simp [h3]

def alKeys (l : List (κ × σ)) : List κ := l.map (·.1)

theorem alGet_none_iff (l : List (κ × σ)) (k : κ) : alGet l k = none ↔ k ∉ alKeys l := by
  induction l with
  | nil => simp [alGet, alKeys]
  | cons p r ih =>
    obtain ⟨k2, s2⟩ := p
    by_cases h : k2 = k
    · subst h; simp [alGet, alKeys]
    · have h' : ¬ k = k2 := fun e => h e.symm
      simp only [alGet, h, if_false, ih, alKeys, List.map_cons, List.mem_cons, h', false_or]

theorem alKeys_alSet_mem (l : List (κ × σ)) (k k' : κ) (s : σ) :
    k' ∈ alKeys (alSet l k s) ↔ k' = k ∨ k' ∈ alKeys l := by
  induction l with
  | nil => simp [alSet, alKeys]
  | cons p r ih =>
    obtain ⟨k2, s2⟩ := p
    by_cases h : k2 = k
    · subst h
      simp [alSet, alKeys]
    · simp only [alSet, h, if_false]
      simp only [alKeys, List.map_cons, List.mem_cons] at ih ⊢
      rw [ih]
      constructor
      · rintro (h1 | h1 | h1)
        · exact Or.inr (Or.inl h1)
        · exact Or.inl h1
        · exact Or.inr (Or.inr h1)
      · rintro (h1 | h1 | h1)
        · exact Or.inr (Or.inl h1)
        · exact Or.inl h1
        · exact Or.inr (Or.inr h1)

theorem alSet_nodup (l : List (κ × σ)) (k : κ) (s : σ) (h : (alKeys l).Nodup) : (alKeys (alSet l k s)).Nodup := by
  induction l with
  | nil => simp [alSet, alKeys]
  | cons p r ih =>
    obtain ⟨k2, s2⟩ := p
    by_cases h2 : k2 = k
    · subst h2
      simpa [alSet, alKeys] using h
    · simp only [alSet, h2, if_false]
      simp only [alKeys, List.map_cons, List.nodup_cons] at h ⊢
      refine ⟨?_, ih h.2⟩
      intro hm
      have := (alKeys_alSet_mem r k k2 s).mp hm
      cases this with
      | inl e => exact h2 e
      | inr e => exact h.1 e

theorem alSet_alSet_same (l : List (κ × σ)) (k : κ) (s s' : σ) : alSet (alSet l k s') k s = alSet l k s := by
  induction l with
  | nil => simp [alSet]
  | cons p r ih =>
    obtain ⟨k2, s2⟩ := p
    by_cases h2 : k2 = k
    · subst h2; simp [alSet]
    · simp [alSet, h2, ih]

/-- two different keys commute when the one set last (on the left) is present already -/
theorem alSet_comm (l : List (κ × σ)) (k k2 : κ) (s s2 : σ) (hne : k ≠ k2) (hk : k ∈ alKeys l) :
    alSet (alSet l k2 s2) k s = alSet (alSet l k s) k2 s2 := by
  induction l with
  | nil => simp [alKeys] at hk
  | cons p r ih =>
    obtain ⟨k3, s3⟩ := p
    by_cases h3 : k3 = k
    · subst h3
      have : ¬ k3 = k2 := hne
      simp [alSet, this]
    · have hk' : k ∈ alKeys r := by
        simp only [alKeys, List.map_cons, List.mem_cons] at hk
        cases hk with
        | inl e => exact absurd e.symm h3
        | inr e => exact e
      by_cases h4 : k3 = k2
      · subst h4
        simp [alSet, h3]
      · simp [alSet, h3, h4, ih hk']

/-- define every entry of `l` on `acc`, in order -/
def alMerge (acc l : List (κ × σ)) : List (κ × σ) := l.foldl (fun a p => alSet a p.1 p.2) acc

theorem alMerge_cons (acc : List (κ × σ)) (p : κ × σ) (r : List (κ × σ)) :
    alMerge acc (p :: r) = alMerge (alSet acc p.1 p.2) r := rfl

theorem alKeys_alMerge_mem (acc l : List (κ × σ)) (k : κ) : k ∈ alKeys acc → k ∈ alKeys (alMerge acc l) := by
  induction l generalizing acc with
  | nil => exact id
  | cons p r ih =>
    intro h
    rw [alMerge_cons]
    exact ih _ ((alKeys_alSet_mem acc p.1 k p.2).mpr (Or.inr h))

theorem alSet_alMerge_comm (r a : List (κ × σ)) (k : κ) (s : σ) (hr : k ∉ alKeys r) (ha : k ∈ alKeys a) :
    alSet (alMerge a r) k s = alMerge (alSet a k s) r := by
  induction r generalizing a with
  | nil => rfl
  | cons p r ih =>
    obtain ⟨k2, s2⟩ := p
    simp only [alKeys, List.map_cons, List.mem_cons, not_or] at hr
    rw [alMerge_cons, alMerge_cons]
    simp only
    have hmem : k ∈ alKeys (alSet a k2 s2) := (alKeys_alSet_mem a k2 k s2).mpr (Or.inr ha)
    rw [ih _ hr.2 hmem, alSet_comm a k k2 s s2 hr.1 ha]

/-- defining the entries of `tmp` with one more `alSet` = defining them and then doing the `alSet` -/
theorem alMerge_alSet (acc tmp : List (κ × σ)) (k : κ) (s : σ) (hn : (alKeys tmp).Nodup) :
    alMerge acc (alSet tmp k s) = alSet (alMerge acc tmp) k s := by
  induction tmp generalizing acc with
  | nil => rfl
  | cons p r ih =>
    obtain ⟨k2, s2⟩ := p
    simp only [alKeys, List.map_cons, List.nodup_cons] at hn
    by_cases h2 : k2 = k
    · subst h2
      simp only [alSet, if_true]
      rw [alMerge_cons, alMerge_cons]
      simp only
      have hmem : k2 ∈ alKeys (alSet acc k2 s2) := (alKeys_alSet_mem acc k2 k2 s2).mpr (Or.inl rfl)
      rw [alSet_alMerge_comm r _ k2 s hn.1 hmem, alSet_alSet_same]
    · simp only [alSet, h2, if_false]
      rw [alMerge_cons, alMerge_cons]
      exact ih _ hn.2

end AL

end EsbuildModel.Lower3
