import EsbuildModel.Lemmas.PkgExportsGlue
/-! Refinement lemmas: esbuild's esmPackageTargetResolve / esmPackageImportsExportsResolve (model) against Node's
PACKAGE_TARGET_RESOLVE / PACKAGE_IMPORTS_EXPORTS_RESOLVE (specification), under the hypotheses of PkgExportsHyp. -/
namespace EsbuildModel.PkgExports
open EsbuildModel.NodeExports

/-- esbuild's (result, status) in the vocabulary of the specification's PACKAGE_TARGET_RESOLVE -/
def toTR (r : Str × Status) : Option TR :=
  match r.2 with
  | .exact => some (.url r.1)
  | .exactEndsWithStar => some (.url r.1)
  | .packageResolve => some (.pkg r.1)
  | .null => some .null
  | .undefined => some .undef
  | .undefinedNoConditionsMatch => some .undef
  | .invalidPackageTarget => some (.throw .invalidTarget)
  | .invalidModuleSpecifier => some (.throw .invalidSpecifier)
  | _ => none

theorem splitBy_congr (p q : Char → Bool) (s : Str) (h : ∀ c ∈ s, p c = q c) : splitBy p s = splitBy q s := by
  induction s with
  | nil => rfl
  | cons c cs ih =>
    have hc := h c (by simp)
    have := ih (fun d hd => h d (by simp [hd]))
    simp only [splitBy]
    rw [hc, this]

theorem splitBy_isSep_eq (s : Str) (h : ¬ '\\' ∈ s) : splitBy NodeExports.isSep s = splitBy (· = '/') s := by
  apply splitBy_congr
  intro c hc
  have : c ≠ '\\' := fun e => h (e ▸ hc)
  simp [NodeExports.isSep, this]

theorem isSep_eq : PkgExports.isSep = NodeExports.isSep := rfl

theorem badSegment_isDotOrModules (seg : Str) (h : badSegment seg = true) : isDotOrModules seg = true := by
  simp only [badSegment, Bool.or_eq_true, decide_eq_true_eq] at h
  rcases h with (h | h) | h <;> subst h <;> decide

theorem invalidSegment_eq (strict : Bool) (seg : Str) (hne : seg ≠ []) (hc : canonSeg seg = true) :
    invalidSegment strict seg = badSegment seg := by
  have he : seg.isEmpty = false := by cases seg <;> simp_all
  simp only [invalidSegment, he, Bool.and_false, Bool.false_or]
  cases hb : badSegment seg
  · simp only [canonSeg, hb, Bool.or_false, Bool.not_eq_true'] at hc; exact hc
  · exact badSegment_isDotOrModules seg hb

theorem find?_isSome_eq_any {α} (p : α → Bool) (l : List α) : (l.find? p).isSome = l.any p := by
  induction l with
  | nil => rfl
  | cons a as ih => simp only [List.find?, List.any]; cases p a <;> simp [ih]

theorem any_congr' {α} (p q : α → Bool) (l : List α) (h : ∀ a ∈ l, p a = q a) : l.any p = l.any q := by
  induction l with
  | nil => rfl
  | cons a as ih => simp [List.any, h a (by simp), ih (fun b hb => h b (by simp [hb]))]

/-- a segment that is not forbidden, not empty, and free of "%": neither Clean nor URL resolution touch it -/
theorem good_of_not_bad (seg : Str) (hne : seg ≠ []) (hb : badSegment seg = false) (hp : ¬ '%' ∈ seg) :
    goodSeg seg ∧ keptSeg seg ∧ ¬ isDotSeg seg := by
  simp only [badSegment, Bool.or_eq_false_iff, decide_eq_false_iff_not] at hb
  refine ⟨⟨hne, hb.1.1, hb.1.2⟩, ⟨isSingleDot_false seg hb.1.1 hp, isDoubleDot_false seg hb.1.2 hp⟩, ?_⟩
  rintro (h | h)
  · exact hb.1.1 h
  · exact hb.1.2 h

/-- what `targetOK` says about a target that starts with "./" -/
theorem targetOK_dot (t : Str) (h : targetOK t = true) (hp : startsWith t ['.', '/'] = true) :
    ∃ rest, t = '.' :: '/' :: rest ∧ ¬ '%' ∈ rest ∧ ¬ '\\' ∈ rest ∧
      splitBy NodeExports.isSep t = ['.'] :: splitBy (· = '/') rest ∧
      ∀ seg ∈ splitBy (· = '/') rest, seg ≠ [] ∧ canonSeg seg = true := by
  match t, hp with
  | [], hp => simp [startsWith] at hp
  | [_], hp => simp [startsWith] at hp
  | a :: b :: rest, hp =>
    simp only [startsWith, List.isPrefixOf, Bool.and_eq_true, beq_iff_eq, Bool.and_true] at hp
    obtain ⟨rfl, rfl⟩ := hp
    simp only [targetOK, startsWith, List.isPrefixOf, beq_self_eq_true, Bool.and_self, ↓reduceIte,
      Bool.and_eq_true, plainStr, Bool.not_eq_true', List.all_eq_true] at h
    obtain ⟨⟨hpc, hbs⟩, hall⟩ := h
    have hpc' : ¬ '%' ∈ ('.' :: '/' :: rest) := by simpa using hpc
    have hbs' : ¬ '\\' ∈ ('.' :: '/' :: rest) := by simpa using hbs
    have hsp : splitBy NodeExports.isSep ('.' :: '/' :: rest) = ['.'] :: splitBy (· = '/') rest := by
      rw [splitBy_isSep_eq _ hbs', splitBy_dot_slash]
    refine ⟨rest, rfl, ?_, ?_, hsp, ?_⟩
    · intro hm; exact hpc' (by simp [hm])
    · intro hm; exact hbs' (by simp [hm])
    · intro seg hm
      rw [hsp] at hall
      have := hall seg (by simpa using hm)
      simp only [Bool.and_eq_true, Bool.not_eq_true', List.isEmpty_eq_false_iff] at this
      exact ⟨this.1, this.2⟩

theorem subOK_facts (m : Str) (h : subOK m = true) :
    ¬ '%' ∈ m ∧ ¬ '\\' ∈ m ∧ splitBy NodeExports.isSep m = splitBy (· = '/') m ∧
    (∀ seg ∈ splitBy (· = '/') m, seg ≠ [] ∧ canonSeg seg = true) := by
  simp only [subOK, plainStr, Bool.and_eq_true, Bool.not_eq_true', List.all_eq_true] at h
  obtain ⟨⟨hpc, hbs⟩, hall⟩ := h
  have hpc' : ¬ '%' ∈ m := by simpa using hpc
  have hbs' : ¬ '\\' ∈ m := by simpa using hbs
  have hsp := splitBy_isSep_eq m hbs'
  rw [hsp] at hall
  refine ⟨hpc', hbs', hsp, ?_⟩
  intro seg hm
  have := hall seg hm
  simp only [Bool.and_eq_true, Bool.not_eq_true', List.isEmpty_eq_false_iff] at this
  exact ⟨this.1, this.2⟩

theorem toTR_exactish (x : Str) (c : Bool) :
    toTR (x, if c = true then Status.exactEndsWithStar else Status.exact) = some (.url x) := by
  cases c <;> rfl

/-- the model's and the specification's segment test of a target "./" ++ rest agree -/
theorem target_segments_agree (strict : Bool) (rest : Str)
    (hall : ∀ seg ∈ splitBy (· = '/') rest, seg ≠ [] ∧ canonSeg seg = true) :
    (splitBy (· = '/') rest).any (invalidSegment strict) = ((splitBy (· = '/') rest).find? badSegment).isSome := by
  rw [find?_isSome_eq_any]
  exact any_congr' _ _ _ (fun seg hm => invalidSegment_eq strict seg (hall seg hm).1 (hall seg hm).2)

/-- PACKAGE_TARGET_RESOLVE on a string target -/
theorem target_str (strict isImports : Bool) (conds : List Str) (t : Str) (pm : Option Str)
    (ht : targetOK t = true) (hpm : ∀ m, pm = some m → subOK m = true) :
    toTR (PkgExports.targetResolve ['/'] (pm.getD []) pm.isSome isImports conds (.str t)) =
      some (NodeExports.targetResolve strict ['/'] pm isImports conds (.str t)) := by
  have hfirst : (!pm.isSome && (pm.getD [] != []) && !hasSuffix t ['/']) = false := by
    cases pm <;> simp
  simp only [PkgExports.targetResolve, NodeExports.targetResolve, hfirst, Bool.false_eq_true, ↓reduceIte]
  have hpre : hasPrefix t ['.', '/'] = startsWith t ['.', '/'] := rfl
  have hpre2 : hasPrefix t ['.', '.', '/'] = startsWith t ['.', '.', '/'] := rfl
  have hpre3 : hasPrefix t ['/'] = startsWith t ['/'] := rfl
  rw [hpre, hpre2, hpre3]
  by_cases hp : startsWith t ['.', '/'] = true
  · -- target starts with "./"
    obtain ⟨rest, rfl, hpc, hbs, hsp, hall⟩ := targetOK_dot t ht hp
    simp only [hp, Bool.not_true, Bool.false_eq_true, ↓reduceIte]
    have hfind : findInvalidSegment ('.' :: '/' :: rest) = (splitBy (· = '/') rest).find? badSegment := by
      simp only [findInvalidSegment, splitAt_eq, isSep_eq, hsp, List.drop_succ_cons, List.drop_zero]
    rw [hfind, hsp]
    simp only [List.drop_succ_cons, List.drop_zero]
    rw [target_segments_agree strict rest hall]
    cases hinv : ((splitBy (· = '/') rest).find? badSegment).isSome
    · -- the target is valid
      simp only [Bool.false_eq_true, ↓reduceIte]
      have hnb : ∀ seg ∈ splitBy (· = '/') rest, badSegment seg = false := by
        intro seg hm
        rw [find?_isSome_eq_any] at hinv
        have := List.any_eq_false.mp hinv seg hm
        simpa using this
      have hgood : ∀ seg ∈ splitBy (· = '/') rest, goodSeg seg ∧ keptSeg seg ∧ ¬ isDotSeg seg := by
        intro seg hm
        exact good_of_not_bad seg (hall seg hm).1 (hnb seg hm)
          (fun hc => hpc (splitBy_subset _ rest seg hm '%' hc))
      have hres1 : goJoin ['/'] ('.' :: '/' :: rest) = '/' :: rest :=
        goJoin_root rest (fun s hm => (hgood s hm).1)
      have hres2 : urlNormalize (['/'] ++ '.' :: '/' :: rest) = '/' :: rest :=
        urlNormalize_root rest hbs (fun s hm => (hgood s hm).2.1)
      rw [hres1, hres2]
      cases pm with
      | none =>
        simp only [Option.getD_none, Option.isSome_none, Bool.false_eq_true, ↓reduceIte]
        have : findInvalidSegment ['.', '/'] = none := by decide
        simp only [this, Option.isSome_none, Bool.false_eq_true, ↓reduceIte]
        rw [goClean_root rest (fun s hm => (hgood s hm).1)]
        rfl
      | some m =>
        obtain ⟨mpc, mbs, msp, mall⟩ := subOK_facts m (hpm m rfl)
        simp only [Option.getD_some, Option.isSome_some, ↓reduceIte]
        -- findInvalidSegment("./" + subpath) looks at every segment of subpath
        have hfm : findInvalidSegment ('.' :: '/' :: m) = (splitBy (· = '/') m).find? badSegment := by
          have hb2 : ¬ '\\' ∈ ('.' :: '/' :: m) := by
            intro hc
            simp only [List.mem_cons] at hc
            rcases hc with hc | hc | hc
            · cases hc
            · cases hc
            · exact mbs hc
          simp only [findInvalidSegment, splitAt_eq, isSep_eq, splitBy_isSep_eq _ hb2, splitBy_dot_slash,
            List.drop_succ_cons, List.drop_zero]
        rw [hfm, msp, target_segments_agree strict m mall]
        cases hinvm : ((splitBy (· = '/') m).find? badSegment).isSome
        · -- the pattern match is valid
          simp only [Bool.false_eq_true, ↓reduceIte]
          rw [toTR_exactish, replaceAllStar_eq]
          have hnbm : ∀ seg ∈ splitBy (· = '/') m, badSegment seg = false := by
            intro seg hm
            rw [find?_isSome_eq_any] at hinvm
            have := List.any_eq_false.mp hinvm seg hm
            simpa using this
          have hstar : replaceStar ('/' :: rest) m = '/' :: replaceStar rest m := by
            simp [replaceStar]
          rw [hstar]
          have hkept : ∀ s ∈ splitBy (· = '/') (replaceStar rest m), keptSeg s := by
            intro s hm
            have hnd := noDotSeg_replaceStar rest m (fun s hs => (hgood s hs).2.2)
              (fun s hs => ⟨(mall s hs).1,
                (good_of_not_bad s (mall s hs).1 (hnbm s hs)
                  (fun hc => mpc (splitBy_subset _ m s hs '%' hc))).2.2⟩) s hm
            have hpcs : ¬ '%' ∈ s := by
              intro hc
              rcases mem_replaceStar rest m '%' (splitBy_subset _ _ s hm '%' hc) with h | h
              · exact hpc h
              · exact mpc h
            unfold isDotSeg at hnd
            simp only [not_or] at hnd
            exact ⟨isSingleDot_false s hnd.1 hpcs, isDoubleDot_false s hnd.2 hpcs⟩
          have hbsr : ¬ '\\' ∈ replaceStar rest m := by
            intro hc
            rcases mem_replaceStar rest m '\\' hc with h | h
            · exact hbs h
            · exact mbs h
          rw [urlNormalize_id _ hbsr hkept]
        · -- the pattern match has a forbidden segment: Invalid Module Specifier on both sides
          simp only [↓reduceIte]
          rfl
    · -- the target has a forbidden segment: Invalid Package Target on both sides
      simp only [↓reduceIte]
      rfl
  · -- target does not start with "./"
    have hp' : startsWith t ['.', '/'] = false := by simpa using hp
    have hsch : hasScheme t = false := by
      simp only [targetOK, hp', Bool.false_eq_true, ↓reduceIte, Bool.not_eq_true'] at ht
      exact ht
    simp only [hp', Bool.not_false, ↓reduceIte, hsch, Bool.or_false]
    cases isImports <;> cases h2 : startsWith t ['.', '.', '/'] <;> cases h3 : startsWith t ['/'] <;>
      cases pm <;> simp [toTR, replaceAllStar_eq]

end EsbuildModel.PkgExports
