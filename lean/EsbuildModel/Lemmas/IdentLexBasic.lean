import EsbuildModel.Impl.IdentLex
import EsbuildModel.Spec.JsIdentifier
import EsbuildModel.Lemmas.StrLexBasic
/-! Character classes of the `IdentLex` model against the parameters of `Spec.JsIdentifier`. -/
namespace EsbuildModel.IdentLex
open EsbuildModel.Spec.JsIdentifier

/-- the generated tables and the Unicode properties of the specification describe the same characters.
`start` / `cont`: the tables are ID_Start / ID_Continue from U+007F on (ZWNJ / ZWJ are added by both sides, so the tables may
contain them or not); `ascii`, `noSurrogates`: the two UCD facts of the spec file; `noSpace`: no ECMAScript WhiteSpace or
LineTerminator code point has ID_Start (they are Zs / Zl / Zp / Cf / Cc). -/
structure Agree (T : Tables) (U : UnicodeProps) : Prop where
  start : ∀ c, 127 ≤ c → T.start c = U.idStart c
  cont : ∀ c, 127 ≤ c → c ≠ 0x200C → c ≠ 0x200D → T.cont c = U.idContinue c
  ascii : U.Ascii
  noSurrogates : U.NoSurrogates
  noSpace : ∀ c, 128 ≤ c → (isWhitespace c = true ∨ c = 0x2028 ∨ c = 0x2029) → U.idStart c = false

theorem asciiStart_lt {c : Nat} (h : asciiStart c = true) : c < 127 := by
  simp [asciiStart] at h; omega

theorem asciiCont_lt {c : Nat} (h : asciiCont c = true) : c < 127 := by
  simp [asciiCont, asciiStart] at h; omega

theorem isIdStart_eq {T : Tables} {U : UnicodeProps} (A : Agree T U) (c : Nat) : isIdStart T c = startChar U c := by
  unfold isIdStart startChar
  by_cases hc : c < 127
  · have h := (A.ascii c (by omega)).1
    rw [h]
    simp only [asciiStart, isAsciiLetter, hc, if_true]
    rw [Bool.eq_iff_iff]
    cases hh : (c == 95 || c == 36 || (decide (97 ≤ c) && decide (c ≤ 122)) || (decide (65 ≤ c) && decide (c ≤ 90))) <;>
      simp at hh ⊢ <;> omega
  · have h1 : asciiStart c = false := by
      cases h : asciiStart c with
      | false => rfl
      | true => exact absurd (asciiStart_lt h) hc
    have h2 : (c == 36) = false := by simp; omega
    have h3 : (c == 95) = false := by simp; omega
    simp [h1, hc, h2, h3, A.start c (by omega)]

theorem isIdCont_eq {T : Tables} {U : UnicodeProps} (A : Agree T U) (c : Nat) : isIdCont T c = partChar U c := by
  unfold isIdCont partChar
  by_cases hc : c < 127
  · have h := (A.ascii c (by omega)).2
    rw [h]
    have z1 : (c == 0x200C) = false := by simp; omega
    have z2 : (c == 0x200D) = false := by simp; omega
    simp only [asciiCont, asciiStart, isAsciiLetter, isAsciiDigit, hc, if_true, z1, z2, Bool.or_false]
    rw [Bool.eq_iff_iff]
    cases hh : ((c == 95 || c == 36 || (decide (97 ≤ c) && decide (c ≤ 122)) || (decide (65 ≤ c) && decide (c ≤ 90))) ||
        (decide (48 ≤ c) && decide (c ≤ 57))) <;>
      simp at hh ⊢ <;> omega
  · have h1 : asciiCont c = false := by
      cases h : asciiCont c with
      | false => rfl
      | true => exact absurd (asciiCont_lt h) hc
    have h2 : (c == 36) = false := by simp; omega
    by_cases z1 : c = 0x200C
    · simp [z1]
    · by_cases z2 : c = 0x200D
      · simp [z2]
      · have z1' : (c == 0x200C) = false := by simp [z1]
        have z2' : (c == 0x200D) = false := by simp [z2]
        simp [h1, hc, h2, z1', z2', A.cont c (by omega) z1 z2]

theorem partChar_of_startChar {U : UnicodeProps} (hU : ∀ c, U.idStart c = true → U.idContinue c = true) (hA : U.Ascii) {c : Nat}
    (h : startChar U c = true) : partChar U c = true := by
  unfold startChar at h; unfold partChar
  by_cases h95 : c = 95
  · have := (hA 95 (by omega)).2
    simp [h95, this, isAsciiLetter, isAsciiDigit]
  · have h95' : (c == 95) = false := by simp [h95]
    rw [h95', Bool.or_false] at h
    cases hs : U.idStart c with
    | true => simp [hU c hs]
    | false => rw [hs, Bool.false_or] at h; simp [h]

/-- a surrogate code point is neither IdentifierStartChar nor IdentifierPartChar -/
theorem not_partChar_surrogate {U : UnicodeProps} (h : U.NoSurrogates) {c : Nat} (hc : isSurrogate c = true) :
    startChar U c = false ∧ partChar U c = false := by
  simp only [isSurrogate, Bool.and_eq_true, decide_eq_true_eq] at hc
  obtain ⟨h1, h2⟩ := h c (by omega) (by omega)
  have a : (c == 36) = false := by simp; omega
  have b : (c == 95) = false := by simp; omega
  have d : (c == 0x200C) = false := by simp; omega
  have e : (c == 0x200D) = false := by simp; omega
  simp [startChar, partChar, h1, h2, a, b, d, e]

theorem isIdentifierWith_iff (st ct : Nat → Bool) (l : List Nat) :
    isIdentifierWith st ct l = true ↔ ∃ c r, l = c :: r ∧ st c = true ∧ ∀ d ∈ r, ct d = true := by
  cases l with
  | nil => simp [isIdentifierWith]
  | cons c r =>
    simp only [isIdentifierWith, Bool.and_eq_true, List.all_eq_true]
    constructor
    · intro h; exact ⟨c, r, rfl, h⟩
    · rintro ⟨c', r', heq, h⟩
      cases heq; exact h

theorem isHex_eq (c : Nat) : isHex c = Spec.StrLit.isHexDigit c := by
  unfold isHex Spec.StrLit.isHexDigit; rw [StrLex.hexVal_eq]

end EsbuildModel.IdentLex
