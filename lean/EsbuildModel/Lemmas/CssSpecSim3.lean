import EsbuildModel.Lemmas.CssSpecSim2
/-!
Simulation model ↔ specification, part 3: numbers (§4.3.12, §4.3.3) with the reading `numberTrailingDot`.
-/
namespace EsbuildModel.CssLex
open EsbuildModel.Spec
open EsbuildModel.Spec.Unicode (IsScalar)

theorem isDigit_ne_cr (c : Nat) (h : isDigit c = true) : c ≠ 13 ∧ ppc c = c := by
  unfold isDigit at h
  simp only [Bool.and_eq_true, decide_eq_true_eq] at h
  refine ⟨by omega, ?_⟩
  unfold ppc; split <;> omega

theorem sim_takeDigits (s : List Ch) (ht : Tame s) :
    CssSyntax.takeDigits (ppS s) = (cpsOf (takeWhileCh isDigit s), ppS (skipWhile isDigit s)) := by
  induction s with
  | nil => rfl
  | cons c t ih =>
    by_cases hd : isDigit c.cp = true
    · obtain ⟨h1, h2⟩ := isDigit_ne_cr c.cp hd
      rw [ht.cons (crlfAt_of_ne_cr c t h1), h2]
      have hd' : CssSyntax.isDigit c.cp = true := by rw [← h2, cls_digit]; exact hd
      simp only [CssSyntax.takeDigits, hd', if_true, takeWhileCh, skipWhile, hd, ih ht.tail, cpsOf, List.map_cons]
    · obtain ⟨r, hr⟩ := ht.head
      have hd' : CssSyntax.isDigit (ppc c.cp) = false := by rw [cls_digit]; simpa using hd
      simp only [takeWhileCh, skipWhile, hd, Bool.false_eq_true, if_false, cpsOf, List.map_nil]
      rw [hr]
      simp only [CssSyntax.takeDigits, hd', Bool.false_eq_true, if_false]

/-- the sign rune of a number -/
def signChars : List Ch → List Ch
  | [] => []
  | c :: _ => if c.cp == 43 || c.cp == 45 then [c] else []

theorem signChars_append (s : List Ch) : signChars s ++ skipSign s = s := by
  cases s with
  | nil => rfl
  | cons c t => simp only [signChars, skipSign]; split <;> simp

theorem sim_takeSign (s : List Ch) (ht : Tame s) :
    CssSyntax.takeSign (ppS s) = (cpsOf (signChars s), ppS (skipSign s)) := by
  cases s with
  | nil => rfl
  | cons c t =>
    by_cases hs : c.cp = 43 ∨ c.cp = 45
    · have hne : c.cp ≠ 13 := by omega
      have hp : ppc c.cp = c.cp := by unfold ppc; split <;> omega
      have hs' : (c.cp == 43 || c.cp == 45) = true := by rcases hs with h | h <;> simp [h]
      rw [ht.cons (crlfAt_of_ne_cr c t hne), hp]
      simp [CssSyntax.takeSign, hs, signChars, skipSign, hs', cpsOf]
    · obtain ⟨r, hr⟩ := ht.head
      have hs' : (c.cp == 43 || c.cp == 45) = false := by simp only [Bool.or_eq_false_iff, beq_eq_false_iff_ne]; omega
      have hpp : ¬ (ppc c.cp = 43 ∨ ppc c.cp = 45) := by
        intro h; apply hs
        rcases h with h | h
        · left; exact (ppc_eq_iff _ 43 (by omega) (by omega) (by omega)).1 h
        · right; exact (ppc_eq_iff _ 45 (by omega) (by omega) (by omega)).1 h
      simp only [signChars, skipSign, hs', Bool.false_eq_true, if_false, cpsOf, List.map_nil]
      rw [hr]
      simp [CssSyntax.takeSign, hpp]

/-- the fraction runes of a number as esbuild takes them (the dot even when no digit follows) -/
def fracChars : List Ch → List Ch
  | [] => []
  | c :: t => if c.cp == 46 then c :: takeWhileCh isDigit t else []

theorem fracChars_append (s : List Ch) : fracChars s ++ skipFraction s = s := by
  cases s with
  | nil => rfl
  | cons c t =>
    simp only [fracChars, skipFraction]; split
    · simp [takeWhile_skipWhile]
    · simp

theorem sim_takeFraction (q : CssSyntax.Quirks) (hq : q.numberTrailingDot = true) (s : List Ch) (ht : Tame s) :
    (match CssSyntax.takeFraction q (ppS s) with
     | some (frac, r) => (frac, r)
     | none => ([], ppS s)) = (cpsOf (fracChars s), ppS (skipFraction s)) ∧
    ((CssSyntax.takeFraction q (ppS s)).isSome = headIs (· == 46) s) := by
  cases s with
  | nil => simp [ppS_nil, CssSyntax.takeFraction, fracChars, skipFraction, cpsOf, headIs]
  | cons c t =>
    by_cases h46 : c.cp = 46
    · rw [ht.cons (crlfAt_of_ne_cr c t (by omega))]
      have hp : ppc c.cp = 46 := (ppc_eq_iff _ 46 (by omega) (by omega) (by omega)).2 h46
      have h46' : (c.cp == 46) = true := by simp [h46]
      rw [hp]
      simp only [fracChars, skipFraction, h46', if_true, headIs]
      have htd := sim_takeDigits t ht.tail
      have hcps : cpsOf (c :: takeWhileCh isDigit t) = 46 :: cpsOf (takeWhileCh isDigit t) := by simp [cpsOf, h46]
      rw [hcps]
      cases hpt : ppS t with
      | nil =>
        rw [hpt] at htd
        simp only [CssSyntax.takeDigits, Prod.mk.injEq] at htd
        simp only [CssSyntax.takeFraction, hq, if_true, Option.isSome_some, beq_self_eq_true, and_true]
        rw [← htd.1, ← htd.2]
      | cons d r =>
        rw [hpt] at htd
        simp only [CssSyntax.takeFraction]
        by_cases hd : CssSyntax.isDigit d = true
        · simp only [hd, if_true, Option.isSome_some, beq_self_eq_true, and_true]
          simp only [CssSyntax.takeDigits, hd, if_true, Prod.mk.injEq] at htd
          rw [← htd.1, ← htd.2]
        · simp only [hd, Bool.false_eq_true, if_false, hq, if_true, Option.isSome_some, beq_self_eq_true, and_true]
          simp only [CssSyntax.takeDigits, hd, Bool.false_eq_true, if_false, Prod.mk.injEq] at htd
          rw [← htd.1, ← htd.2]
    · obtain ⟨r, hr⟩ := ht.head
      have hp : ppc c.cp ≠ 46 := fun h => h46 ((ppc_eq_iff _ 46 (by omega) (by omega) (by omega)).1 h)
      have h46' : (c.cp == 46) = false := by simp [h46]
      simp only [fracChars, skipFraction, h46', Bool.false_eq_true, if_false, headIs, cpsOf, List.map_nil]
      rw [hr]
      have : CssSyntax.takeFraction q (ppc c.cp :: r) = none := by
        unfold CssSyntax.takeFraction
        split
        · next h => simp only [List.cons.injEq] at h; exact absurd h.1 hp
        · next h => simp only [List.cons.injEq] at h; exact absurd h.1 hp
        · rfl
      simp [this]

/-- the exponent runes of a number -/
def expChars : List Ch → List Ch
  | [] => []
  | c :: t =>
    if c.cp == 101 || c.cp == 69 then
      match t with
      | [] => []
      | d :: u => if isDigit (expLook d u) then c :: (signChars t ++ takeWhileCh isDigit (skipSign t)) else []
    else []

theorem expChars_append (s : List Ch) : expChars s ++ skipExponent s = s := by
  cases s with
  | nil => rfl
  | cons c t =>
    simp only [expChars, skipExponent]
    split
    · cases t with
      | nil => simp
      | cons d u =>
        simp only
        split
        · simp only [List.cons_append, List.append_assoc, takeWhile_skipWhile, signChars_append]
        · simp
    · simp

theorem takeExponent_none_of_head (p : List Nat) (h : ∀ e r, p = e :: r → ¬ (e = 0x45 ∨ e = 0x65)) :
    CssSyntax.takeExponent p = none := by
  unfold CssSyntax.takeExponent
  split
  · next e d t => simp [h e (d :: t) rfl]
  · rfl

theorem sim_takeExponent (s : List Ch) (ht : Tame s) :
    (match CssSyntax.takeExponent (ppS s) with
     | some (ex, r) => (ex, r)
     | none => ([], ppS s)) = (cpsOf (expChars s), ppS (skipExponent s)) ∧
    ((CssSyntax.takeExponent (ppS s)).isSome = !(expChars s).isEmpty) := by
  cases s with
  | nil => simp [ppS_nil, CssSyntax.takeExponent, expChars, skipExponent, cpsOf]
  | cons c t =>
    by_cases he : c.cp = 101 ∨ c.cp = 69
    · have hne : c.cp ≠ 13 := by omega
      have hp : ppc c.cp = c.cp := by unfold ppc; split <;> omega
      have he' : (c.cp == 101 || c.cp == 69) = true := by rcases he with h | h <;> simp [h]
      have heS : c.cp = 0x45 ∨ c.cp = 0x65 := by omega
      rw [ht.cons (crlfAt_of_ne_cr c t hne), hp]
      simp only [expChars, skipExponent, he', if_true]
      cases t with
      | nil =>
        simp [ppS_nil, CssSyntax.takeExponent, cpsOf]
        rw [ht.cons (crlfAt_of_ne_cr c _ hne), hp, ppS_nil]
      | cons d u =>
        simp only
        by_cases hdd : isDigit d.cp = true
        · -- `e` digit
          obtain ⟨h1, h2⟩ := isDigit_ne_cr d.cp hdd
          rw [ht.tail.cons (crlfAt_of_ne_cr d u h1), h2]
          have hdS : CssSyntax.isDigit d.cp = true := by rw [← h2, cls_digit]; exact hdd
          have hnsign : (d.cp == 43 || d.cp == 45) = false := by
            unfold isDigit at hdd; simp only [Bool.and_eq_true, decide_eq_true_eq] at hdd
            simp only [Bool.or_eq_false_iff, beq_eq_false_iff_ne]; omega
          have hlook : expLook d u = d.cp := by simp [expLook, hnsign]
          have htd := sim_takeDigits u ht.tail.tail
          simp only [CssSyntax.takeExponent, heS, if_true, hdS, hlook, hdd, signChars, hnsign, Bool.false_eq_true,
            if_false, List.nil_append, skipSign, takeWhileCh, skipWhile, Option.isSome_some, List.isEmpty_cons,
            Bool.not_false, and_true]
          rw [htd]; simp [cpsOf]
        · by_cases hsg : d.cp = 43 ∨ d.cp = 45
          · have hdne : d.cp ≠ 13 := by omega
            have hdp : ppc d.cp = d.cp := by unfold ppc; split <;> omega
            have hsg' : (d.cp == 43 || d.cp == 45) = true := by rcases hsg with h | h <;> simp [h]
            have hsgS : d.cp = 0x2B ∨ d.cp = 0x2D := by omega
            have hdS : CssSyntax.isDigit d.cp = false := by rw [← hdp, cls_digit]; simpa using hdd
            rw [ht.tail.cons (crlfAt_of_ne_cr d u hdne), hdp]
            cases u with
            | nil =>
              have hlook : expLook d [] = d.cp := by simp [expLook, hsg']
              simp [CssSyntax.takeExponent, heS, hdS, hsgS, ppS_nil, hlook, hdd, cpsOf]
              rw [ht.cons (crlfAt_of_ne_cr c _ hne), hp, ht.tail.cons (crlfAt_of_ne_cr d _ hdne), hdp, ppS_nil]
            | cons g v =>
              have hlook : expLook d (g :: v) = g.cp := by simp [expLook, hsg']
              simp only [hlook]
              by_cases hgd : isDigit g.cp = true
              · obtain ⟨g1, g2⟩ := isDigit_ne_cr g.cp hgd
                rw [ht.tail.tail.cons (crlfAt_of_ne_cr g v g1), g2]
                have hgS : CssSyntax.isDigit g.cp = true := by rw [← g2, cls_digit]; exact hgd
                have htd := sim_takeDigits v ht.tail.tail.tail
                simp only [CssSyntax.takeExponent, heS, if_true, hdS, Bool.false_eq_true, if_false, hsgS, hgS, hgd,
                  signChars, hsg', skipSign, takeWhileCh, skipWhile, Option.isSome_some, List.isEmpty_cons, Bool.not_false,
                  and_true, List.cons_append, List.nil_append]
                rw [htd]; simp [cpsOf]
              · obtain ⟨r, hr⟩ := ht.tail.tail.head
                have hgS : CssSyntax.isDigit (ppc g.cp) = false := by rw [cls_digit]; simpa using hgd
                rw [hr]
                simp [CssSyntax.takeExponent, heS, hdS, hsgS, hgS, hgd, cpsOf]
                rw [ht.cons (crlfAt_of_ne_cr c _ hne), hp, ht.tail.cons (crlfAt_of_ne_cr d _ hdne), hdp, hr]
          · -- neither digit nor sign
            obtain ⟨r, hr⟩ := ht.tail.head
            have hsg' : (d.cp == 43 || d.cp == 45) = false := by
              simp only [Bool.or_eq_false_iff, beq_eq_false_iff_ne]; omega
            have hlook : expLook d u = d.cp := by simp [expLook, hsg']
            have hdS : CssSyntax.isDigit (ppc d.cp) = false := by rw [cls_digit]; simpa using hdd
            have hsgS : ¬ (ppc d.cp = 0x2B ∨ ppc d.cp = 0x2D) := by
              intro h; apply hsg
              rcases h with h | h
              · left; exact (ppc_eq_iff _ 43 (by omega) (by omega) (by omega)).1 h
              · right; exact (ppc_eq_iff _ 45 (by omega) (by omega) (by omega)).1 h
            rw [hr]
            simp [CssSyntax.takeExponent, heS, hdS, hsgS, hlook, hdd, cpsOf]
            rw [ht.cons (crlfAt_of_ne_cr c _ hne), hp, hr]
    · obtain ⟨r, hr⟩ := ht.head
      have he' : (c.cp == 101 || c.cp == 69) = false := by simp only [Bool.or_eq_false_iff, beq_eq_false_iff_ne]; omega
      simp only [expChars, skipExponent, he', Bool.false_eq_true, if_false, cpsOf, List.map_nil, List.isEmpty_nil,
        Bool.not_true]
      rw [hr]
      have : CssSyntax.takeExponent (ppc c.cp :: r) = none := by
        apply takeExponent_none_of_head
        intro e r' h hh
        simp only [List.cons.injEq] at h
        apply he
        rw [← h.1] at hh
        rcases hh with hh | hh
        · right; exact (ppc_eq_iff _ 69 (by omega) (by omega) (by omega)).1 hh
        · left; exact (ppc_eq_iff _ 101 (by omega) (by omega) (by omega)).1 hh
      simp [this]

/-- the runes of the number at the start of `s` -/
def numChars (s : List Ch) : List Ch :=
  signChars s ++ (takeWhileCh isDigit (skipSign s) ++
    (fracChars (skipWhile isDigit (skipSign s)) ++ expChars (skipFraction (skipWhile isDigit (skipSign s)))))

theorem numChars_append (s : List Ch) : numChars s ++ skipNumber s = s := by
  unfold numChars skipNumber
  simp only [List.append_assoc, expChars_append, fracChars_append, takeWhile_skipWhile, signChars_append]

/-- S7: §4.3.12 "consume a number" (with the `.` taken even when no digit follows) reads the runes `numChars` and
stops where the model stops -/
theorem sim_consumeNumber (q : CssSyntax.Quirks) (hq : q.numberTrailingDot = true) (s : List Ch) (ht : Tame s) :
    (CssSyntax.consumeNumber q (ppS s)).1 = cpsOf (numChars s) ∧
    (CssSyntax.consumeNumber q (ppS s)).2.2 = ppS (skipNumber s) := by
  have h1 := sim_takeSign s ht
  have ht1 : Tame (skipSign s) := ht.suffix (skipSign_suffix s)
  have h2 := sim_takeDigits (skipSign s) ht1
  have ht2 : Tame (skipWhile isDigit (skipSign s)) := ht1.suffix (skipWhile_suffix _ _)
  have h3 := (sim_takeFraction q hq _ ht2).1
  have ht3 : Tame (skipFraction (skipWhile isDigit (skipSign s))) := ht2.suffix (skipFraction_suffix _)
  have h4 := (sim_takeExponent _ ht3).1
  unfold CssSyntax.consumeNumber numChars skipNumber
  rw [h1]; simp only
  rw [h2]; simp only
  cases hf : CssSyntax.takeFraction q (ppS (skipWhile isDigit (skipSign s))) with
  | some p =>
    obtain ⟨frac, r2⟩ := p
    rw [hf] at h3
    simp only [Prod.mk.injEq] at h3
    obtain ⟨h3a, h3b⟩ := h3
    subst h3a h3b
    simp only
    cases he : CssSyntax.takeExponent (ppS (skipFraction (skipWhile isDigit (skipSign s)))) with
    | some p2 =>
      obtain ⟨ex, r3⟩ := p2
      rw [he] at h4
      simp only [Prod.mk.injEq] at h4
      simp only [cpsOf, List.map_append, h4.1, h4.2, List.append_assoc, and_self]
    | none =>
      rw [he] at h4
      simp only [Prod.mk.injEq] at h4
      have : expChars (skipFraction (skipWhile isDigit (skipSign s))) = [] := by
        cases hx : expChars (skipFraction (skipWhile isDigit (skipSign s))) with
        | nil => rfl
        | cons x xs => rw [hx] at h4; simp [cpsOf] at h4
      simp only [cpsOf, List.map_append, this, List.map_nil, List.append_nil, List.append_assoc, h4.2, and_self]
  | none =>
    rw [hf] at h3
    simp only [Prod.mk.injEq] at h3
    have hfr : fracChars (skipWhile isDigit (skipSign s)) = [] := by
      cases hx : fracChars (skipWhile isDigit (skipSign s)) with
      | nil => rfl
      | cons x xs => rw [hx] at h3; simp [cpsOf] at h3
    simp only
    rw [h3.2]
    cases he : CssSyntax.takeExponent (ppS (skipFraction (skipWhile isDigit (skipSign s)))) with
    | some p2 =>
      obtain ⟨ex, r3⟩ := p2
      rw [he] at h4
      simp only [Prod.mk.injEq] at h4
      simp only [cpsOf, List.map_append, hfr, List.map_nil, List.nil_append, h4.1, h4.2, List.append_assoc, and_self]
    | none =>
      rw [he] at h4
      simp only [Prod.mk.injEq] at h4
      have : expChars (skipFraction (skipWhile isDigit (skipSign s))) = [] := by
        cases hx : expChars (skipFraction (skipWhile isDigit (skipSign s))) with
        | nil => rfl
        | cons x xs => rw [hx] at h4; simp [cpsOf] at h4
      simp only [cpsOf, List.map_append, this, hfr, List.map_nil, List.append_nil, h4.2, and_self]

/-- S8: §4.3.3 "consume a numeric token" -/
theorem sim_consumeNumeric (q : CssSyntax.Quirks) (hq : q.numberTrailingDot = true) (s : List Ch) (ht : Tame s) :
    (CssSyntax.consumeNumeric q (ppS s)).2 = ppS (consumeNumeric s).2.1 ∧
    specView (CssSyntax.consumeNumeric q (ppS s)).1 =
      ⟨(consumeNumeric s).1, cpsOf (numChars s),
       if (consumeNumeric s).1 = .TDimension then (nameCps (skipNumber s)).1 else [], false⟩ := by
  obtain ⟨hn1, hn2⟩ := sim_consumeNumber q hq s ht
  have ht' : Tame (skipNumber s) := ht.suffix (skipNumber_suffix s)
  have hw := sim_wouldStartIdent (skipNumber s) ht'
  have hid := sim_consumeIdentSeq (skipNumber s) ht'
  unfold CssSyntax.consumeNumeric consumeNumeric
  rw [hn2, hw]
  by_cases hws : wouldStartIdentifier (skipNumber s) = true
  · simp only [hws, if_true, hid, consumeName_rest, specView, hn1, and_self]
  · simp only [hws, Bool.false_eq_true, if_false]
    cases hsn : skipNumber s with
    | nil => simp [ppS_nil, specView, hn1]
    | cons c t =>
      rw [hsn] at ht'
      by_cases h37 : c.cp = 37
      · rw [ht'.cons (crlfAt_of_ne_cr c t (by omega))]
        have : ppc c.cp = 37 := (ppc_eq_iff _ 37 (by omega) (by omega) (by omega)).2 h37
        rw [this]
        simp [h37, specView, hn1]
      · obtain ⟨r, hr⟩ := ht'.head
        have hp : ppc c.cp ≠ 37 := fun h => h37 ((ppc_eq_iff _ 37 (by omega) (by omega) (by omega)).1 h)
        have h37' : (c.cp == 37) = false := by simp [h37]
        rw [hr]
        simp only [h37', Bool.false_eq_true, if_false]
        split
        · next t' heq => simp only [List.cons.injEq] at heq; exact absurd heq.1 hp
        · simp [specView, hn1, hr]

end EsbuildModel.CssLex
