import EsbuildModel.Lemmas.LexNumLit
/-
The phases of the floating-point branch (`fracPart`, `expPart`) and the common tail (`finish`): what an accepting
run looks like.
-/
namespace EsbuildModel.LexNum
open EsbuildModel.Spec.Num EsbuildModel.Spec.NumLit

theorem Seg.trans {cs : List Char} {st : St} {a r : List Char} {st' : St} {b r' : List Char} {st'' : St}
    (h1 : Seg cs st a r st') (h2 : Seg r st' b r' st'') : Seg cs st (a ++ b) r' st'' :=
  ⟨by rw [h1.split, h2.split, List.append_assoc], by rw [h2.end_, h1.end_, List.length_append]; omega, h2.inv,
   by rw [h2.count, h1.count, List.count_append]; omega⟩

theorem seg_nil {r : List Char} {s : St} (hinv : Inv s) : Seg r s [] r s := ⟨rfl, by simp, hinv, by simp⟩

theorem seg_step {c : Char} {r : List Char} {s : St} (hc : c ≠ '_') (hinv : Inv s) : Seg (c :: r) s [c] r s.step :=
  ⟨rfl, by simp, inv_step hinv, by simp [List.count_cons, hc]⟩

/-- from a segment starting at the beginning: the slice `src[start:end]` and the underscore count -/
theorem Seg.take {first : Char} {rest seg r : List Char} {s : St} (h : Seg rest st1 seg r s) (hf : first ≠ '_') :
    (first :: rest).take s.end_ = first :: seg ∧ s.usCount = (first :: seg).count '_' ∧
      s.end_ = (first :: seg).length := by
  refine ⟨?_, ?_, by rw [h.end_]; simp [st1]; omega⟩
  · rw [h.end_, h.split]
    simp only [st1]
    rw [show 1 + seg.length = (first :: seg).length by simp; omega]
    rw [← List.cons_append, List.take_left']
    rfl
  · rw [h.count, List.count_cons]
    simp [st1, hf]

theorem Seg.drop {first : Char} {rest seg r : List Char} {s : St} (h : Seg rest st1 seg r s) :
    (first :: rest).drop s.end_ = r := by
  rw [h.end_, h.split]
  simp only [st1]
  rw [show 1 + seg.length = (first :: seg).length by simp; omega]
  rw [← List.cons_append, List.drop_left']
  rfl

theorem take_succ_of_drop {l : List Char} {n : Nat} {c : Char} {r : List Char} (h : l.drop n = c :: r) :
    l.take (n + 1) = l.take n ++ [c] := by
  rw [List.take_add_one, ← List.head?_drop, h]; rfl

/-! ### finish -/

theorem finish_num {P : Params} {r : List Char} {s : St} {hde lg : Bool} {v : F64} {ident : List Char}
    {len : Nat} {v' : F64} {lg' : Bool} (h : finish P r s hde lg v ident = .num len v' lg') :
    s.prevUS = false ∧ len = s.end_ ∧ v' = v ∧ lg' = lg ∧ (headIs r (fun c => c == 'n') && !hde) = false := by
  unfold finish at h
  split at h
  · cases h
  · rename_i hp
    simp only at h
    cases hbig : (headIs r (fun c => c == 'n') && !hde) with
    | true =>
      simp only [hbig, if_true] at h
      split at h
      · cases h
      · cases h
    | false =>
      simp only [hbig, Bool.false_eq_true, if_false] at h
      split at h
      · cases h
      · cases h
        exact ⟨by simpa using hp, rfl, rfl, rfl, rfl⟩

theorem finish_big {P : Params} {r : List Char} {s : St} {hde lg : Bool} {v : F64} {ident : List Char}
    {len : Nat} {t : List Char} {lg' : Bool} (h : finish P r s hde lg v ident = .big len t lg') :
    s.prevUS = false ∧ len = s.end_ + 1 ∧ t = ident ∧ lg' = lg ∧ headIs r (fun c => c == 'n') = true ∧ hde = false := by
  unfold finish at h
  split at h
  · cases h
  · rename_i hp
    simp only at h
    cases hbig : (headIs r (fun c => c == 'n') && !hde) with
    | true =>
      simp only [hbig, if_true] at h
      split at h
      · cases h
      · cases h
        simp only [Bool.and_eq_true, Bool.not_eq_true'] at hbig
        exact ⟨by simpa using hp, rfl, rfl, rfl, hbig.1, hbig.2⟩
    | false =>
      simp only [hbig, Bool.false_eq_true, if_false] at h
      split at h
      · cases h
      · cases h

/-! ### fraction and exponent -/

theorem fracPart_ok {first : Char} {r1 : List Char} {s1 : St} {r2 : List Char} {s2 : St} {hd : Bool}
    (hinv : Inv s1) (h : fracPart first r1 s1 = .ok (r2, s2, hd)) :
    (r2 = r1 ∧ s2 = s1 ∧ hd = (first == '.') ∧ (first = '.' ∨ ∀ c r, r1 = c :: r → c ≠ '.')) ∨
    (first ≠ '.' ∧ s1.prevUS = false ∧ hd = true ∧ ∃ run2, Seg r1 s1 ('.' :: run2) r2 s2 ∧
      runOK isDig false run2 = some s2.prevUS ∧ (∀ r, run2 ≠ '_' :: r) ∧ StopAt isDig r2) := by
  unfold fracPart at h
  cases r1 with
  | nil =>
    simp only [Except.ok.injEq, Prod.mk.injEq] at h
    obtain ⟨rfl, rfl, rfl⟩ := h
    exact Or.inl ⟨rfl, rfl, rfl, Or.inr (by intro c r hc; cases hc)⟩
  | cons c r =>
    simp only at h
    split at h
    · rename_i hcond
      obtain ⟨hf, hc⟩ := hcond
      subst hc
      split at h
      · cases h
      · rename_i hp
        split at h
        · cases h
        · rename_i hus
          cases hdl : digLoop false r s1.step with
          | error p => rw [hdl] at h; cases h
          | ok res =>
            obtain ⟨r2', s2'⟩ := res
            rw [hdl] at h
            simp only [Except.ok.injEq, Prod.mk.injEq] at h
            obtain ⟨rfl, rfl, rfl⟩ := h
            obtain ⟨run2, hseg, hrun, hstop, _⟩ := digLoop_ok (inv_step hinv) hdl
            rw [prevUS_step hinv] at hrun
            refine Or.inr ⟨hf, by simpa using hp, rfl, run2, (seg_step (by decide) hinv).trans hseg, hrun, ?_, hstop⟩
            intro r' hr'
            subst hr'
            rw [hseg.split] at hus
            simp [headIs] at hus
    · rename_i hcond
      simp only [Except.ok.injEq, Prod.mk.injEq] at h
      obtain ⟨rfl, rfl, rfl⟩ := h
      refine Or.inl ⟨rfl, rfl, rfl, ?_⟩
      by_cases hf : first = '.'
      · exact Or.inl hf
      · refine Or.inr ?_
        intro c' r' hc'
        cases hc'
        intro hc
        exact hcond ⟨hf, hc⟩

theorem expPart_ok {r2 : List Char} {s2 : St} {r3 : List Char} {s3 : St} {he : Bool}
    (hinv : Inv s2) (h : expPart r2 s2 = .ok (r3, s3, he)) :
    (r3 = r2 ∧ s3 = s2 ∧ he = false ∧ ∀ c r, r2 = c :: r → c ≠ 'e' ∧ c ≠ 'E') ∨
    (s2.prevUS = false ∧ he = true ∧ ∃ (up : Bool) (sg : Sign) (run3 : List Char),
      Seg r2 s2 ((if up then 'E' else 'e') :: (sg.text ++ run3)) r3 s3 ∧
      runOK isDig false run3 = some s3.prevUS ∧ headIsDig run3 = true ∧ StopAt isDig r3) := by
  unfold expPart at h
  cases r2 with
  | nil =>
    simp only [Except.ok.injEq, Prod.mk.injEq] at h
    obtain ⟨rfl, rfl, rfl⟩ := h
    exact Or.inl ⟨rfl, rfl, rfl, by intro c r hc; cases hc⟩
  | cons c r =>
    simp only at h
    split at h
    · rename_i hc
      split at h
      · cases h
      · rename_i hp
        have hp : s2.prevUS = false := by simpa using hp
        have hcus : c ≠ '_' := by rcases hc with rfl | rfl <;> decide
        -- a uniform description of the optional sign
        have hsign : ∃ (sg : Sign) (r' : List Char) (s' : St), r = sg.text ++ r' ∧ Seg r s2.step sg.text r' s' ∧
            signStep r s2.step = (r', s') ∧ s'.prevUS = false := by
          cases r with
          | nil => exact ⟨.none, [], s2.step, rfl, seg_nil (inv_step hinv), rfl, prevUS_step hinv⟩
          | cons x r' =>
            by_cases hx : x = '+'
            · subst hx
              exact ⟨.plus, r', s2.step.step, rfl, seg_step (by decide) (inv_step hinv), by simp [signStep],
                prevUS_step (inv_step hinv)⟩
            · by_cases hx' : x = '-'
              · subst hx'
                exact ⟨.minus, r', s2.step.step, rfl, seg_step (by decide) (inv_step hinv), by simp [signStep],
                  prevUS_step (inv_step hinv)⟩
              · exact ⟨.none, x :: r', s2.step, rfl, seg_nil (inv_step hinv), by simp [signStep, hx, hx'],
                  prevUS_step hinv⟩
        obtain ⟨sg, r', s', hr, hsegs, hm, hp'⟩ := hsign
        simp only [hm] at h
        split at h
        · cases h
        · rename_i hdig
          have hdig : headIsDig r' = true := by simpa using hdig
          cases hdl : digLoop false r' s' with
          | error p => rw [hdl] at h; cases h
          | ok res =>
            obtain ⟨r3', s3'⟩ := res
            rw [hdl] at h
            simp only [Except.ok.injEq, Prod.mk.injEq] at h
            obtain ⟨rfl, rfl, rfl⟩ := h
            obtain ⟨run3, hseg, hrun, hstop, _⟩ := digLoop_ok hsegs.inv hdl
            rw [hp'] at hrun
            refine Or.inr ⟨hp, rfl, decide (c = 'E'), sg, run3, ?_, hrun, ?_, hstop⟩
            · have hcE : (if decide (c = 'E') = true then 'E' else 'e') = c := by
                rcases hc with rfl | rfl <;> decide
              rw [hcE]
              have := ((seg_step (r := r) hcus hinv).trans hsegs).trans hseg
              simpa using this
            · cases run3 with
              | nil =>
                rw [hseg.split] at hdig
                cases r3' with
                | nil => simp [headIsDig] at hdig
                | cons y r3'' =>
                  have := (hstop y r3'' rfl).1
                  simp [headIsDig, this] at hdig
              | cons y run3' =>
                rw [hseg.split] at hdig
                simpa [headIsDig] using hdig
    · rename_i hc
      simp only [Except.ok.injEq, Prod.mk.injEq] at h
      obtain ⟨rfl, rfl, rfl⟩ := h
      refine Or.inl ⟨rfl, rfl, rfl, ?_⟩
      intro c' r' hc'
      cases hc'
      exact ⟨fun h => hc (Or.inl h), fun h => hc (Or.inr h)⟩

end EsbuildModel.LexNum
