import EsbuildModel.Spec.CssImportCascade
/-! Lemmas about the cascade specification `Spec/CssImportCascade.lean`: the strength comparison is a total
preorder, a candidate that is followed by one at least as strong never wins, layer order and candidates of
concatenated sheets. -/
namespace EsbuildModel.Spec.CssCascade

-- ------------------------------------------------------------------ keyLe is a total order

theorem keyLe_refl (k : List Nat) : keyLe k k = true := by
  induction k with
  | nil => rfl
  | cons a as ih => simp [keyLe, ih]

theorem keyLe_total (a b : List Nat) : keyLe a b = true ∨ keyLe b a = true := by
  induction a generalizing b with
  | nil => cases b <;> simp [keyLe]
  | cons x xs ih =>
    cases b with
    | nil => simp [keyLe]
    | cons y ys =>
      simp only [keyLe, Bool.or_eq_true, decide_eq_true_eq, Bool.and_eq_true, beq_iff_eq]
      rcases Nat.lt_trichotomy x y with h | h | h
      · exact Or.inl (Or.inl h)
      · subst h
        rcases ih ys with h | h
        · exact Or.inl (Or.inr ⟨rfl, h⟩)
        · exact Or.inr (Or.inr ⟨rfl, h⟩)
      · exact Or.inr (Or.inl h)

theorem keyLe_trans {a b c : List Nat} (h1 : keyLe a b = true) (h2 : keyLe b c = true) : keyLe a c = true := by
  induction a generalizing b c with
  | nil =>
    cases c with
    | nil => rfl
    | cons z zs =>
      cases b with
      | nil => simp [keyLe] at h2
      | cons y ys => simp [keyLe] at h1
  | cons x xs ih =>
    cases c with
    | nil => simp [keyLe]
    | cons z zs =>
      cases b with
      | nil => simp [keyLe] at h2
      | cons y ys =>
        simp only [keyLe, Bool.or_eq_true, decide_eq_true_eq, Bool.and_eq_true, beq_iff_eq] at h1 h2 ⊢
        rcases h1 with h1 | ⟨rfl, h1⟩
        · rcases h2 with h2 | ⟨rfl, _⟩
          · exact Or.inl (Nat.lt_trans h1 h2)
          · exact Or.inl h1
        · rcases h2 with h2 | ⟨rfl, h2⟩
          · exact Or.inl h2
          · exact Or.inr ⟨rfl, ih h1 h2⟩

theorem keyLe_antisymm {a b : List Nat} (h1 : keyLe a b = true) (h2 : keyLe b a = true) : a = b := by
  induction a generalizing b with
  | nil => cases b with
    | nil => rfl
    | cons y ys => simp [keyLe] at h1
  | cons x xs ih =>
    cases b with
    | nil => simp [keyLe] at h2
    | cons y ys =>
      simp only [keyLe, Bool.or_eq_true, decide_eq_true_eq, Bool.and_eq_true, beq_iff_eq] at h1 h2
      rcases h1 with h1 | ⟨rfl, h1⟩
      · rcases h2 with h2 | ⟨rfl, _⟩ <;> omega
      · rcases h2 with h2 | ⟨_, h2⟩
        · omega
        · rw [ih h1 h2]

/-- a proper ancestor's own rules are stronger (normal declarations) than anything in its sub-layers -/
theorem keyLe_append (k ext : List Nat) : keyLe (k ++ ext) k = true := by
  induction k with
  | nil => cases ext <;> simp [keyLe]
  | cons a as ih => simp [keyLe, ih]

-- ------------------------------------------------------------------ Cand.le is a total preorder

theorem Cand.le_refl (c : Cand) : c.le c = true := by simp [Cand.le]

theorem Cand.le_total (a b : Cand) : a.le b = true ∨ b.le a = true := by
  unfold Cand.le
  by_cases hi : a.important = b.important
  · by_cases hk : a.key = b.key
    · simp [hi, hk]; omega
    · have hk' : ¬ b.key = a.key := fun h => hk h.symm
      simp only [hi, bne_self_eq_false, Bool.false_eq_true, ↓reduceIte, beq_iff_eq, hk, hk']
      cases b.important
      · simpa using keyLe_total a.key b.key
      · simpa using keyLe_total b.key a.key
  · cases ha : a.important <;> cases hb : b.important <;> simp_all

theorem Cand.le_trans {a b c : Cand} (h1 : a.le b = true) (h2 : b.le c = true) : a.le c = true := by
  unfold Cand.le at h1 h2 ⊢
  cases ha : a.important <;> cases hb : b.important <;> cases hc : c.important <;>
    simp only [ha, hb, hc, bne_self_eq_false, Bool.false_eq_true, ↓reduceIte, beq_iff_eq, Bool.true_bne,
      Bool.false_bne, Bool.not_false, reduceCtorEq] at h1 h2 ⊢
  · -- all normal
    by_cases h12 : a.key = b.key
    · by_cases h23 : b.key = c.key
      · have h13 : a.key = c.key := h12.trans h23
        simp only [h12, h23, h13, ↓reduceIte, decide_eq_true_eq] at h1 h2 ⊢
        omega
      · have h13 : ¬ a.key = c.key := fun h => h23 (h12 ▸ h)
        simp only [h12, h23, h13, ↓reduceIte] at h1 h2 ⊢
        exact h2
    · by_cases h23 : b.key = c.key
      · have h13 : ¬ a.key = c.key := fun h => h12 (h.trans h23.symm)
        simp only [h12, h23, h13, ↓reduceIte] at h1 h2 ⊢
        exact h1
      · simp only [h12, h23, ↓reduceIte] at h1 h2
        have h := keyLe_trans h1 h2
        by_cases h13 : a.key = c.key
        · exfalso
          rw [← h13] at h2
          exact h12 (keyLe_antisymm h1 h2)
        · simp only [h13, ↓reduceIte]; exact h
  · -- all important
    by_cases h12 : a.key = b.key
    · by_cases h23 : b.key = c.key
      · have h13 : a.key = c.key := h12.trans h23
        simp only [h12, h23, h13, ↓reduceIte, decide_eq_true_eq] at h1 h2 ⊢
        omega
      · have h13 : ¬ a.key = c.key := fun h => h23 (h12 ▸ h)
        simp only [h12, h23, h13, ↓reduceIte] at h1 h2 ⊢
        exact h2
    · by_cases h23 : b.key = c.key
      · have h13 : ¬ a.key = c.key := fun h => h12 (h.trans h23.symm)
        simp only [h12, h23, h13, ↓reduceIte] at h1 h2 ⊢
        exact h1
      · simp only [h12, h23, ↓reduceIte] at h1 h2
        have h := keyLe_trans h2 h1
        by_cases h13 : a.key = c.key
        · exfalso
          rw [h13] at h1
          exact h23 (keyLe_antisymm h1 h2)
        · simp only [h13, ↓reduceIte]; exact h

-- ------------------------------------------------------------------ a dominated candidate never wins

theorem foldl_pick_some_le {s1 s2 : Cand} (B : List Cand) (h : s1.le s2 = true) (hy : ∃ y ∈ B, s2.le y = true) :
    B.foldl pick (some s1) = B.foldl pick (some s2) := by
  induction B generalizing s1 s2 with
  | nil => obtain ⟨y, hy, _⟩ := hy; cases hy
  | cons c B ih =>
    simp only [List.foldl_cons, pick]
    by_cases h2 : s2.le c = true
    · have h1 : s1.le c = true := Cand.le_trans h h2
      simp [h1, h2]
    · have hc : c.le s2 = true := by
        rcases Cand.le_total s2 c with h' | h'
        · exact absurd h' h2
        · exact h'
      obtain ⟨y, hyB, hy⟩ := hy
      have hyB' : y ∈ B := by
        rcases List.mem_cons.1 hyB with rfl | h'
        · exact absurd hy h2
        · exact h'
      simp only [h2, Bool.false_eq_true, ↓reduceIte]
      by_cases h1 : s1.le c = true
      · simp only [h1, ↓reduceIte]
        exact ih hc ⟨y, hyB', hy⟩
      · simp only [h1, Bool.false_eq_true, ↓reduceIte]
        exact ih h ⟨y, hyB', hy⟩

theorem foldl_pick_drop (a : Option Cand) (x : Cand) (B : List Cand) (hy : ∃ y ∈ B, x.le y = true) :
    B.foldl pick (pick a x) = B.foldl pick a := by
  cases a with
  | some a0 =>
    simp only [pick]
    by_cases h : a0.le x = true
    · simp only [h, ↓reduceIte]
      exact (foldl_pick_some_le B h hy).symm
    · simp [h]
  | none =>
    simp only [pick]
    cases B with
    | nil => obtain ⟨y, hy, _⟩ := hy; cases hy
    | cons b B =>
      simp only [List.foldl_cons, pick]
      by_cases h : x.le b = true
      · simp [h]
      · simp only [h, Bool.false_eq_true, ↓reduceIte]
        obtain ⟨y, hyB, hy⟩ := hy
        have hyB' : y ∈ B := by
          rcases List.mem_cons.1 hyB with rfl | h'
          · exact absurd hy h
          · exact h'
        have hb : b.le x = true := by
          rcases Cand.le_total x b with h' | h'
          · exact absurd h' h
          · exact h'
        exact (foldl_pick_some_le B hb ⟨y, hyB', hy⟩).symm

theorem best_drop (A B : List Cand) (x : Cand) (hy : ∃ y ∈ B, x.le y = true) :
    best (A ++ x :: B) = best (A ++ B) := by
  simp only [best, List.foldl_append, List.foldl_cons]
  exact foldl_pick_drop _ x B hy

theorem best_drop_list (A X B : List Cand) (h : ∀ x ∈ X, ∃ y ∈ B, x.le y = true) :
    best (A ++ X ++ B) = best (A ++ B) := by
  induction X generalizing A with
  | nil => simp
  | cons x X ih =>
    have h1 : best (A ++ x :: X ++ B) = best ((A ++ [x]) ++ X ++ B) := by simp
    rw [h1, ih (A ++ [x]) (fun y hy => h y (List.mem_cons_of_mem _ hy))]
    have h2 : A ++ [x] ++ B = A ++ x :: B := by simp
    rw [h2]
    exact best_drop A B x (h x (List.mem_cons_self ..))

-- ------------------------------------------------------------------ concatenation

theorem layerOrderFrom_append (env : Env) (acc : List Layer) (a b : List Item) :
    layerOrderFrom env acc (a ++ b) = layerOrderFrom env (layerOrderFrom env acc a) b := by
  simp [layerOrderFrom, List.filterMap_append, List.foldl_append]

theorem cands_append (env : Env) (m : Matcher) (prop : Nat) (order : List Layer) (a b : List Item) :
    cands env m prop order (a ++ b) = cands env m prop order a ++ cands env m prop order b := by
  simp [cands, List.filterMap_append]

/-- two pieces of a style sheet declare the same layers, in whatever context -/
def SameLayers (a b : List Item) : Prop := ∀ env acc, layerOrderFrom env acc a = layerOrderFrom env acc b

theorem SameLayers.rfl' (a : List Item) : SameLayers a a := fun _ _ => rfl

theorem SameLayers.ctx {a b : List Item} (h : SameLayers a b) (p t : List Item) :
    SameLayers (p ++ a ++ t) (p ++ b ++ t) := by
  intro env acc
  simp only [layerOrderFrom_append]
  rw [h]

theorem SameLayers.trans {a b c : List Item} (h1 : SameLayers a b) (h2 : SameLayers b c) : SameLayers a c :=
  fun env acc => (h1 env acc).trans (h2 env acc)

theorem SameLayers.symm {a b : List Item} (h : SameLayers a b) : SameLayers b a := fun env acc => (h env acc).symm

theorem SameLayers.append {a b c d : List Item} (h1 : SameLayers a b) (h2 : SameLayers c d) :
    SameLayers (a ++ c) (b ++ d) := by
  intro env acc
  simp only [layerOrderFrom_append]
  rw [h1, h2]

/-- same layer declarations and, whatever the layer order, the same candidates: the same cascade in every context -/
def SameItems (a b : List Item) : Prop :=
  SameLayers a b ∧ ∀ env m prop order, cands env m prop order a = cands env m prop order b

theorem SameItems.rfl' (a : List Item) : SameItems a a := ⟨SameLayers.rfl' a, fun _ _ _ _ => rfl⟩

theorem SameItems.symm {a b : List Item} (h : SameItems a b) : SameItems b a :=
  ⟨h.1.symm, fun env m p o => (h.2 env m p o).symm⟩

theorem SameItems.trans {a b c : List Item} (h1 : SameItems a b) (h2 : SameItems b c) : SameItems a c :=
  ⟨h1.1.trans h2.1, fun env m p o => (h1.2 env m p o).trans (h2.2 env m p o)⟩

theorem SameItems.append {a b c d : List Item} (h1 : SameItems a b) (h2 : SameItems c d) :
    SameItems (a ++ c) (b ++ d) :=
  ⟨h1.1.append h2.1, fun env m p o => by rw [cands_append, cands_append, h1.2, h2.2]⟩

theorem SameItems.sameCascade {a b : List Item} (h : SameItems a b) : SameCascade a b := by
  intro env m prop
  unfold winner layerOrder
  rw [h.1 env [], h.2]

/-- equality of winners in every context -/
def CtxSame (a b : List Item) : Prop := ∀ p t, SameLayers (p ++ a ++ t) (p ++ b ++ t) ∧ SameCascade (p ++ a ++ t) (p ++ b ++ t)

theorem CtxSame.rfl' (a : List Item) : CtxSame a a := fun _ _ => ⟨SameLayers.rfl' _, fun _ _ _ => rfl⟩

theorem CtxSame.trans {a b c : List Item} (h1 : CtxSame a b) (h2 : CtxSame b c) : CtxSame a c :=
  fun p t => ⟨(h1 p t).1.trans (h2 p t).1, fun env m prop => ((h1 p t).2 env m prop).trans ((h2 p t).2 env m prop)⟩

theorem CtxSame.symm {a b : List Item} (h : CtxSame a b) : CtxSame b a :=
  fun p t => ⟨(h p t).1.symm, fun env m prop => ((h p t).2 env m prop).symm⟩

theorem CtxSame.ctx {a b : List Item} (h : CtxSame a b) (p t : List Item) : CtxSame (p ++ a ++ t) (p ++ b ++ t) := by
  intro p' t'
  have := h (p' ++ p) (t ++ t')
  simpa [List.append_assoc] using this

theorem CtxSame.append {a b c d : List Item} (h1 : CtxSame a b) (h2 : CtxSame c d) : CtxSame (a ++ c) (b ++ d) := by
  have e1 : CtxSame (a ++ c) (b ++ c) := by simpa using h1.ctx [] c
  have e2 : CtxSame (b ++ c) (b ++ d) := by simpa using h2.ctx b []
  exact e1.trans e2

theorem CtxSame.sameCascade {a b : List Item} (h : CtxSame a b) : SameCascade a b := by
  have := (h [] []).2
  simpa using this

theorem SameItems.ctxSame {a b : List Item} (h : SameItems a b) : CtxSame a b := by
  intro p t
  have h' : SameItems (p ++ a ++ t) (p ++ b ++ t) :=
    ((SameItems.rfl' p).append h).append (SameItems.rfl' t)
  exact ⟨h'.1, h'.sameCascade⟩

-- ------------------------------------------------------------------ dropping a copy that is covered by a later one

/-- every rule of `e` that applies also stands in `y` and applies there, in the same layer — or, for a normal
declaration, directly in an ancestor layer (whose own rules are stronger than those of its sub-layers) -/
def Covered (e y : List Item) : Prop :=
  ∀ env cs l d, Item.rule cs l d ∈ e → cs.all (Atom.holds env) = true →
    ∃ cs' l', Item.rule cs' l' d ∈ y ∧ cs'.all (Atom.holds env) = true ∧
      (l' = l ∨ (d.important = false ∧ ∃ x, l = l' ++ x))

theorem prefixes_append (a b : Layer) : prefixes (a ++ b) = prefixes a ++ (prefixes b).map (a ++ ·) := by
  induction a with
  | nil => simp [prefixes]
  | cons s a ih => simp [prefixes, ih, List.map_append, List.map_map, Function.comp_def]

theorem layerKey_append (order : List Layer) (a b : Layer) :
    layerKey order (a ++ b) = layerKey order a ++ (prefixes b).map (fun p => order.idxOf (a ++ p)) := by
  simp [layerKey, prefixes_append, List.map_append, List.map_map, Function.comp_def]

def OnlyDeclares (e : List Item) : Prop := ∀ it ∈ e, ∃ cs l, it = Item.declare cs l

theorem cands_onlyDeclares {e : List Item} (h : OnlyDeclares e) (env : Env) (m : Matcher) (prop : Nat)
    (order : List Layer) : cands env m prop order e = [] := by
  unfold cands
  rw [List.filterMap_eq_nil_iff]
  intro it hit
  obtain ⟨cs, l, rfl⟩ := h it hit
  rfl

theorem mem_cands {env : Env} {m : Matcher} {prop : Nat} {order : List Layer} {items : List Item} {c : Cand}
    (h : c ∈ cands env m prop order items) :
    ∃ cs l d spec, Item.rule cs l d ∈ items ∧ cs.all (Atom.holds env) = true ∧ d.prop = prop ∧ m d.sel = some spec ∧
      c = ⟨d.important, layerKey order l, spec, d.value⟩ := by
  unfold cands at h
  rw [List.mem_filterMap] at h
  obtain ⟨it, hit, hc⟩ := h
  cases it with
  | declare cs l => simp [Item.cand] at hc
  | rule cs l d =>
    simp only [Item.cand] at hc
    split at hc
    · rename_i hcond
      split at hc
      · rename_i spec hs
        exact ⟨cs, l, d, spec, hit, hcond.1, hcond.2, hs, by cases hc; rfl⟩
      · cases hc
    · cases hc

theorem cand_mem {env : Env} {m : Matcher} {prop : Nat} {order : List Layer} {items : List Item}
    {cs : List Atom} {l : Layer} {d : Decl} {spec : Nat}
    (hit : Item.rule cs l d ∈ items) (ha : cs.all (Atom.holds env) = true) (hp : d.prop = prop)
    (hs : m d.sel = some spec) :
    (⟨d.important, layerKey order l, spec, d.value⟩ : Cand) ∈ cands env m prop order items := by
  unfold cands
  rw [List.mem_filterMap]
  refine ⟨_, hit, ?_⟩
  simp [Item.cand, ha, hp, hs]

theorem ctxSame_drop_covered (e e' mid y : List Item) (hl : SameLayers e e') (hnr : OnlyDeclares e')
    (hc : Covered e y) : CtxSame (e ++ mid ++ y) (e' ++ mid ++ y) := by
  intro p t
  have hL : SameLayers (p ++ (e ++ mid ++ y) ++ t) (p ++ (e' ++ mid ++ y) ++ t) := by
    have := hl.ctx p (mid ++ y ++ t)
    simpa [List.append_assoc] using this
  refine ⟨hL, ?_⟩
  intro env m prop
  unfold winner layerOrder
  rw [← hL env []]
  generalize layerOrderFrom env [] (p ++ (e ++ mid ++ y) ++ t) = order
  congr 1
  have e1 : cands env m prop order (p ++ (e ++ mid ++ y) ++ t) =
      cands env m prop order p ++ cands env m prop order e ++
        (cands env m prop order mid ++ cands env m prop order y ++ cands env m prop order t) := by
    simp [cands_append, List.append_assoc]
  have e2 : cands env m prop order (p ++ (e' ++ mid ++ y) ++ t) =
      cands env m prop order p ++
        (cands env m prop order mid ++ cands env m prop order y ++ cands env m prop order t) := by
    simp [cands_append, List.append_assoc, cands_onlyDeclares hnr]
  rw [e1, e2]
  apply best_drop_list
  intro x hx
  obtain ⟨cs, l, d, spec, hit, ha, hp, hs, rfl⟩ := mem_cands hx
  obtain ⟨cs', l', hit', ha', hl'⟩ := hc env cs l d hit ha
  refine ⟨⟨d.important, layerKey order l', spec, d.value⟩, ?_, ?_⟩
  · simp only [List.mem_append]
    exact Or.inl (Or.inr (cand_mem hit' ha' hp hs))
  · rcases hl' with rfl | ⟨hn, x, rfl⟩
    · exact Cand.le_refl _
    · simp only [Cand.le, bne_self_eq_false, Bool.false_eq_true, ↓reduceIte, hn]
      split
      · simp
      · rw [layerKey_append]; exact keyLe_append _ _

end EsbuildModel.Spec.CssCascade
