import EsbuildModel.Lemmas.ScopesHoist
/-!
The visit pass keeps sibling scopes disjoint: it only adds fresh symbols (labels, inner class names, unbound
symbols), each to a single scope.
-/
namespace EsbuildModel.Scopes

theorem kidsDisj_append_iff : ∀ {a b : List Sc},
    KidsDisj (a ++ b) ↔ KidsDisj a ∧ KidsDisj b ∧ ∀ s, s ∈ allKids a → s ∉ allKids b
  | [], b => by simp [KidsDisj, allKids]
  | k :: ks, b => by
    simp only [List.cons_append, KidsDisj, kidsDisj_append_iff (a := ks) (b := b), allKids, allKids_append,
      List.mem_append]
    constructor
    · rintro ⟨h1, ⟨h2, h3, h4⟩, h5⟩
      refine ⟨⟨h1, h2, fun s hs hk => h5 s hs (Or.inl hk)⟩, h3, ?_⟩
      rintro s (hs | hs)
      · exact fun hb => h5 s hs (Or.inr hb)
      · exact h4 s hs
    · rintro ⟨⟨h1, h2, h3⟩, h4, h5⟩
      refine ⟨h1, ⟨h2, h4, fun s hs => h5 s (Or.inr hs)⟩, ?_⟩
      rintro s hs (hk | hk)
      · exact h3 s hs hk
      · exact h5 s (Or.inl hs) hk

/-- replacing one child by a version that only gained fresh symbols -/
theorem kidsDisj_replace {a b : List Sc} {K K' : Sc} {n : Nat} (h : KidsDisj (a ++ K :: b)) (hK : K'.SibDisj)
    (hsub : ∀ s, s ∈ K'.all → s ∈ K.all ∨ n ≤ s) (ha : KidsBelow n a) (hb : KidsBelow n b) :
    KidsDisj (a ++ K' :: b) := by
  rw [kidsDisj_append_iff] at h ⊢
  obtain ⟨h1, h2, h3⟩ := h
  simp only [KidsDisj, allKids, List.mem_append] at h2 h3 ⊢
  refine ⟨h1, ⟨hK, h2.2.1, ?_⟩, ?_⟩
  · intro s hs hsb
    rcases hsub s hs with h | h
    · exact h2.2.2 s h hsb
    · exact absurd (hb s hsb) (Nat.not_lt.mpr h)
  · rintro s hs (hk | hk)
    · rcases hsub s hk with h | h
      · exact h3 s hs (Or.inl h)
      · exact absurd (ha s hs) (Nat.not_lt.mpr h)
    · exact h3 s hs (Or.inr hk)

mutual
theorem setStrictRec_all (m : Strict) : ∀ (sc : Sc), (setStrictRec m sc).all = sc.all
  | .node f kids => by
    simp only [setStrictRec]
    split
    · simp only [Sc.all, setStrictRecList_all m kids]; rfl
    · rfl
theorem setStrictRecList_all (m : Strict) : ∀ (ks : List Sc), allKids (setStrictRecList m ks) = allKids ks
  | [] => rfl
  | k :: ks => by simp only [setStrictRecList, allKids, setStrictRec_all m k, setStrictRecList_all m ks]
end

mutual
theorem setStrictRec_disj (m : Strict) : ∀ (sc : Sc), sc.SibDisj → (setStrictRec m sc).SibDisj
  | .node f kids, h => by
    simp only [setStrictRec]
    split
    · simp only [Sc.SibDisj] at h ⊢; exact setStrictRecList_disj m kids h
    · exact h
theorem setStrictRecList_disj (m : Strict) : ∀ (ks : List Sc), KidsDisj ks → KidsDisj (setStrictRecList m ks)
  | [], _ => trivial
  | k :: ks, h => by
    simp only [KidsDisj] at h
    simp only [setStrictRecList, KidsDisj, setStrictRec_all, setStrictRecList_all]
    exact ⟨setStrictRec_disj m k h.1, setStrictRecList_disj m ks h.2.1, h.2.2⟩
end

theorem setStrictRec_frame_decls (m : Strict) : ∀ (sc : Sc), (setStrictRec m sc).frame.decls = sc.frame.decls
  | .node f kids => by
    simp only [setStrictRec]
    split <;> rfl

theorem setStrictRec_children_all (m : Strict) : ∀ (sc : Sc), allKids (setStrictRec m sc).children = allKids sc.children
  | .node f kids => by
    simp only [setStrictRec]
    split
    · simp only [Sc.children, setStrictRecList_all]
    · rfl

theorem setStrictRec_children_disj (m : Strict) : ∀ (sc : Sc), sc.SibDisj → KidsDisj (setStrictRec m sc).children
  | .node f kids, h => by
    simp only [setStrictRec]
    split
    · simp only [Sc.children]; exact setStrictRecList_disj m kids h
    · exact h

-- lengths -----------------------------------------------------------------------------------------

theorem pinChain_length : ∀ (fuel : Nat) (syms : Syms) (t : Option Nat) (syms' : Syms),
    pinChain fuel syms t = some syms' → syms'.length = syms.length
  | _, syms, none, syms', h => by simp [pinChain] at h; rw [← h]
  | 0, _, some _, _, h => by simp [pinChain] at h
  | fuel + 1, syms, some t, syms', h => by
    simp only [pinChain] at h
    split at h
    · cases h
    · have := pinChain_length fuel _ _ _ h
      simpa using this

theorem relinkFns_length (ev : Bool) : ∀ (l : List Nat) (st st' : VSt), relinkFns ev l st = some st' →
    st'.syms.length = st.syms.length ∧ st'.refs = st.refs
  | [], st, st', h => by simp [relinkFns] at h; rw [← h]; exact ⟨rfl, rfl⟩
  | r :: rest, st, st', h => by
    simp only [relinkFns] at h
    split at h
    · cases h
    · split at h
      · exact relinkFns_length ev rest st st' h
      · split at h
        · cases h
        · split at h
          · split at h
            · cases h
            · next syms1 hp =>
              have := relinkFns_length ev rest _ st' h
              have hl := pinChain_length _ _ _ _ hp
              exact ⟨by simpa [hl] using this.1, this.2⟩
          · exact relinkFns_length ev rest st st' h

theorem mergeSymbols_length : ∀ (fuel : Nat) (syms : Syms) (a b : Nat) (syms' : Syms) (r : Nat),
    mergeSymbols fuel syms a b = some (syms', r) → syms'.length = syms.length
  | 0, _, _, _, _, _, h => by simp [mergeSymbols] at h
  | fuel + 1, syms, a, b, syms', r, h => by
    simp only [mergeSymbols] at h
    split at h
    · cases h; rfl
    · split at h
      · split at h
        · split at h
          · cases h
          · next s1 r1 h1 => cases h; simpa using mergeSymbols_length fuel _ _ _ _ _ h1
        · split at h
          · split at h
            · cases h
            · next s1 r1 h1 => cases h; simpa using mergeSymbols_length fuel _ _ _ _ _ h1
          · split at h <;> cases h <;> simp
      · cases h

theorem pinMembers_length (f : Frame) (syms : Syms) : (pinMembers f syms).length = syms.length := by
  unfold pinMembers
  split
  · generalize f.members = m
    induction m generalizing syms with
    | nil => rfl
    | cons x xs ih => simp only [List.foldl_cons]; rw [ih]; simp
  · rfl

theorem classEpilogue_length {ev : Bool} {cls : Option ClsInfo} {st st' : VSt} (h : classEpilogue ev cls st = some st') :
    st'.syms.length = st.syms.length := by
  unfold classEpilogue at h
  split at h
  · cases h; rfl
  · next ci =>
    split at h
    · cases h; rfl
    · split at h
      · cases h
      · next isym _ =>
        have hl : (if (!ci.isExpr) = true ∧ ev = true ∧ isym.pinned = true then pin st.syms ci.nameRef else st.syms).length
            = st.syms.length := by split <;> simp
        simp only at h
        generalize (if (!ci.isExpr) = true ∧ ev = true ∧ isym.pinned = true then pin st.syms ci.nameRef else st.syms) = syms1
          at h hl
        split at h
        · cases h
        · next syms2 r hm =>
          cases h
          have := mergeSymbols_length _ _ _ _ _ _ hm
          simp only [this, hl]

-- findSymbol -------------------------------------------------------------------------------------

theorem ancRel_updLast {P : Nat → Prop} {g : Frame → Frame}
    (hg : ∀ f, (g f).kind = f.kind ∧ ∀ s, s ∈ (g f).decls → s ∈ f.decls ∨ P s) :
    ∀ (chain : List Frame), AncRel P chain (updLast g chain)
  | [] => trivial
  | [x] => ⟨hg x, trivial⟩
  | x :: y :: rest => ⟨⟨rfl, fun _ h => Or.inl h⟩, ancRel_updLast hg (y :: rest)⟩

theorem findSymbol_spec (chain : List Frame) (syms : Syms) (n : Name) :
    syms.length ≤ (findSymbol chain syms n).2.1.length ∧
    AncRel (Fresh syms.length (findSymbol chain syms n).2.1.length) chain (findSymbol chain syms n).1 := by
  unfold findSymbol
  split
  · refine ⟨by simp only; split <;> simp, AncRel.refl _ _⟩
  · simp only [newSymbol]
    have hl : ∀ w : Bool, (if w = true then pin (syms ++ [⟨SK.unbound, n, none, false⟩]) syms.length
        else syms ++ [⟨SK.unbound, n, none, false⟩]).length = syms.length + 1 := by
      intro w; split <;> simp
    refine ⟨by rw [hl]; omega, ?_⟩
    apply ancRel_updLast
    intro f
    refine ⟨rfl, ?_⟩
    intro s hs
    rcases decls_insert hs with h | h
    · exact Or.inl h
    · subst h; exact Or.inr ⟨Nat.le_refl _, by rw [hl]; omega⟩

theorem ancRel_map_eval {P : Nat → Prop} : ∀ {a b : List Frame}, AncRel P a b →
    AncRel P a (b.map (fun f => { f with eval := true }))
  | [], [], _ => trivial
  | _ :: _, _ :: _, h => ⟨⟨h.1.1, h.1.2⟩, ancRel_map_eval h.2⟩
  | [], _ :: _, h => h.elim
  | _ :: _, [], h => h.elim

-- the invariant of the visit pass -----------------------------------------------------------------

def belowDecls (l : List Frame) : List Nat := l.flatMap Frame.decls

structure VInv (c : VCtx) : Prop where
  bcur : ∀ s, s ∈ c.cur.decls → s < c.st.syms.length
  btodo : KidsBelow c.st.syms.length c.todo
  bdone : KidsBelow c.st.syms.length c.done
  disj : KidsDisj (c.done ++ c.todo)

structure VGrow (c c' : VCtx) : Prop where
  len : c.st.syms.length ≤ c'.st.syms.length
  cur : ∀ s, s ∈ c'.cur.decls → s ∈ c.cur.decls ∨ Fresh c.st.syms.length c'.st.syms.length s
  below : AncRel (Fresh c.st.syms.length c'.st.syms.length) c.below c'.below
  kids : ∃ moved new, c.todo = moved ++ c'.todo ∧ c'.done = c.done ++ new ∧
    ∀ s, s ∈ allKids new → s ∈ allKids moved ∨ Fresh c.st.syms.length c'.st.syms.length s

theorem VGrow.refl (c : VCtx) : VGrow c c :=
  ⟨Nat.le_refl _, fun _ h => Or.inl h, AncRel.refl _ _, [], [], by simp, by simp, by simp [allKids]⟩

theorem VGrow.trans {a b c : VCtx} (h1 : VGrow a b) (h2 : VGrow b c) : VGrow a c := by
  obtain ⟨m1, n1, t1, d1, f1⟩ := h1.kids
  obtain ⟨m2, n2, t2, d2, f2⟩ := h2.kids
  refine ⟨Nat.le_trans h1.len h2.len, ?_, ?_, m1 ++ m2, n1 ++ n2, by rw [t1, t2, List.append_assoc],
    by rw [d2, d1, List.append_assoc], ?_⟩
  · intro s hs
    rcases h2.cur s hs with h | h
    · rcases h1.cur s h with h | h
      · exact Or.inl h
      · exact Or.inr (h.mono (Nat.le_refl _) h2.len)
    · exact Or.inr (h.mono h1.len (Nat.le_refl _))
  · exact AncRel.trans (AncRel.mono (fun s h => h.mono (Nat.le_refl _) h2.len) h1.below)
      (AncRel.mono (fun s h => h.mono h1.len (Nat.le_refl _)) h2.below)
  · intro s hs
    rw [allKids_append, List.mem_append] at hs
    rw [allKids_append, List.mem_append]
    rcases hs with hs | hs
    · rcases f1 s hs with h | h
      · exact Or.inl (Or.inl h)
      · exact Or.inr (h.mono (Nat.le_refl _) h2.len)
    · rcases f2 s hs with h | h
      · exact Or.inl (Or.inr h)
      · exact Or.inr (h.mono h1.len (Nat.le_refl _))

/-- a step that changes neither the scopes nor the number of symbols -/
theorem VInv.same {c c' : VCtx} (h : VInv c) (hc : c'.cur.decls = c.cur.decls) (ht : c'.todo = c.todo)
    (hd : c'.done = c.done) (hb : c'.below = c.below) (hl : c'.st.syms.length = c.st.syms.length) :
    VInv c' ∧ VGrow c c' := by
  refine ⟨⟨?_, ?_, ?_, ?_⟩, ⟨by omega, ?_, ?_, [], [], by simp [ht], by simp [hd], by simp [allKids]⟩⟩
  · intro s hs; rw [hc] at hs; rw [hl]; exact h.bcur s hs
  · rw [ht, hl]; exact h.btodo
  · rw [hd, hl]; exact h.bdone
  · rw [hd, ht]; exact h.disj
  · intro s hs; rw [hc] at hs; exact Or.inl hs
  · rw [hb]; exact AncRel.refl _ _

/-- a step on the chain of scopes (current scope first) that may add fresh symbols to them -/
theorem VInv.chain {c c' : VCtx} (h : VInv c) (ht : c'.todo = c.todo) (hd : c'.done = c.done)
    (hl : c.st.syms.length ≤ c'.st.syms.length)
    (hr : AncRel (Fresh c.st.syms.length c'.st.syms.length) (c.cur :: c.below) (c'.cur :: c'.below)) :
    VInv c' ∧ VGrow c c' := by
  refine ⟨⟨?_, ?_, ?_, ?_⟩, ⟨hl, hr.1.2, hr.2, [], [], by simp [ht], by simp [hd], by simp [allKids]⟩⟩
  · intro s hs
    rcases hr.1.2 s hs with h1 | h1
    · exact Nat.lt_of_lt_of_le (h.bcur s h1) hl
    · exact h1.2
  · rw [ht]; intro s hs; exact Nat.lt_of_lt_of_le (h.btodo s hs) hl
  · rw [hd]; intro s hs; exact Nat.lt_of_lt_of_le (h.bdone s hs) hl
  · rw [hd, ht]; exact h.disj

theorem endList_spec {c c' : VCtx} (h : endList c = some c') :
    c'.cur = c.cur ∧ c'.todo = c.todo ∧ c'.done = c.done ∧ c'.below = c.below ∧ c'.cls = c.cls ∧
    c'.st.syms.length = c.st.syms.length ∧ c'.st.refs = c.st.refs := by
  unfold endList at h
  split at h
  · cases h
  · next st hs =>
    cases h
    have := relinkFns_length _ _ _ _ hs
    exact ⟨rfl, rfl, rfl, rfl, rfl, this.1, this.2⟩

theorem setChain_spec {c c' : VCtx} {chain : List Frame} (h : setChain c chain = some c') :
    chain = c'.cur :: c'.below ∧ c'.todo = c.todo ∧ c'.done = c.done ∧ c'.st = c.st := by
  unfold setChain at h
  split at h
  · cases h
  · cases h; exact ⟨rfl, rfl, rfl, rfl⟩

theorem labelStep_spec (full : Bool) (lbl : Option Name) (f : Frame) (syms : Syms) :
    syms.length ≤ (labelStep full lbl f syms).2.length ∧ (labelStep full lbl f syms).1.kind = f.kind ∧
    (∀ s, s ∈ (labelStep full lbl f syms).1.decls → s ∈ f.decls ∨ Fresh syms.length (labelStep full lbl f syms).2.length s) := by
  unfold labelStep
  split
  · refine ⟨by simp, rfl, ?_⟩
    intro s hs
    rw [mem_decls] at hs
    rcases hs with hs | hs | hs
    · exact Or.inl (mem_decls.mpr (Or.inl hs))
    · exact Or.inl (mem_decls.mpr (Or.inr (Or.inl hs)))
    · simp only [Option.some.injEq] at hs; subst hs; exact Or.inr ⟨Nat.le_refl _, by simp⟩
  · exact ⟨Nat.le_refl _, rfl, fun s hs => Or.inl hs⟩

theorem classNameStrict_spec (full : Bool) (k : ScK) (sc : Sc) :
    (classNameStrict full k sc).frame.decls = sc.frame.decls ∧
    allKids (classNameStrict full k sc).children = allKids sc.children ∧
    (sc.SibDisj → KidsDisj (classNameStrict full k sc).children) := by
  unfold classNameStrict
  split
  · exact ⟨setStrictRec_frame_decls _ _, setStrictRec_children_all _ _, setStrictRec_children_disj _ _⟩
  · refine ⟨rfl, rfl, ?_⟩
    cases sc; exact id

theorem closeList_spec {full : Bool} {c c' : VCtx} (h : closeList full c = some c') :
    c'.cur = c.cur ∧ c'.todo = c.todo ∧ c'.done = c.done ∧ c'.below = c.below ∧ c'.cls = c.cls ∧
    c'.st.syms.length = c.st.syms.length ∧ c'.st.refs = c.st.refs := by
  unfold closeList at h
  split at h
  · exact endList_spec h
  · cases h; exact ⟨rfl, rfl, rfl, rfl, rfl, rfl, rfl⟩

mutual
theorem visitItem_inv (full : Bool) : ∀ (i : Item) (c c' : VCtx), visitItem full i c = some c' → VInv c →
    VInv c' ∧ VGrow c c'
  | .decl k n, c, c', h, hi => by
    simp only [visitItem] at h
    split at h
    · cases h
    · split at h <;> cases h <;> exact hi.same rfl rfl rfl rfl rfl
  | .declArgs, c, c', h, hi => by
    simp only [visitItem] at h; cases h; exact ⟨hi, VGrow.refl _⟩
  | .genSym _, c, c', h, hi => by
    simp only [visitItem] at h; cases h; exact ⟨hi, VGrow.refl _⟩
  | .rawSym _, c, c', h, hi => by
    simp only [visitItem] at h
    split at h
    · cases h
    · cases h; exact hi.same rfl rfl rfl rfl rfl
  | .classInner on, c, c', h, hi => by
    simp only [visitItem] at h
    split at h
    · split at h
      · next n =>
        simp only [newSymbol] at h
        cases h
        refine VInv.chain hi rfl rfl (by simp) ⟨⟨rfl, ?_⟩, AncRel.refl _ _⟩
        intro s hs
        rcases decls_insert hs with h1 | h1
        · exact Or.inl h1
        · subst h1; exact Or.inr ⟨Nat.le_refl _, by simp⟩
      · simp only [newSymbol] at h
        cases h
        exact VInv.chain hi rfl rfl (by simp) (AncRel.refl _ _)
    · cases h; exact ⟨hi, VGrow.refl _⟩
  | .ref n, c, c', h, hi => by
    simp only [visitItem] at h
    obtain ⟨hl, hr⟩ := findSymbol_spec (c.cur :: c.below) c.st.syms n
    obtain ⟨hch, ht, hd, hst⟩ := setChain_spec h
    rw [hch] at hr
    have hst' : c'.st.syms = (findSymbol (c.cur :: c.below) c.st.syms n).2.1 := by rw [hst]
    exact VInv.chain hi ht hd (by rw [hst']; exact hl) (by rw [hst']; exact hr)
  | .eval, c, c', h, hi => by
    simp only [visitItem] at h
    obtain ⟨hl, hr⟩ := findSymbol_spec (c.cur :: c.below) c.st.syms evalName
    obtain ⟨hch, ht, hd, hst⟩ := setChain_spec h
    have hr' := ancRel_map_eval hr
    rw [hch] at hr'
    have hst' : c'.st.syms = (findSymbol (c.cur :: c.below) c.st.syms evalName).2.1 := by rw [hst]
    exact VInv.chain hi ht hd (by rw [hst']; exact hl) (by rw [hst']; exact hr')
  | .cut, c, c', h, hi => by
    simp only [visitItem] at h
    split at h
    · obtain ⟨h1, h2, h3, h4, _, h6, _⟩ := endList_spec h
      exact hi.same (by rw [h1]) h2 h3 h4 h6
    · cases h; exact ⟨hi, VGrow.refl _⟩
  | .scope k us lbl body, c, c', h, hi => by
    simp only [visitItem] at h
    split at h
    · cases h
    · next f kids todo' htodo =>
      split at h
      · cases h
      · split at h
        · cases h
        · next r hr =>
          split at h
          · cases h
          · next r2 hr2 =>
            obtain ⟨ll, lk, ld⟩ := labelStep_spec full lbl f c.st.syms
            obtain ⟨cd, ck, cdisj⟩ := classNameStrict_spec full k (.node (labelStep full lbl f c.st.syms).1 kids)
            have cd' : (Sc.node (labelStep full lbl f c.st.syms).1 kids).frame.decls = (labelStep full lbl f c.st.syms).1.decls := rfl
            have ck' : allKids (Sc.node (labelStep full lbl f c.st.syms).1 kids).children = allKids kids := rfl
            rw [cd'] at cd
            rw [ck'] at ck
            have hdisj := hi.disj
            rw [htodo, kidsDisj_append_iff] at hdisj
            have hKdisj : KidsDisj kids := by
              have := hdisj.2.1; simp only [KidsDisj, Sc.SibDisj] at this; exact this.1
            have hKb : ∀ s, s ∈ (Sc.node f kids).all → s < c.st.syms.length := by
              intro s hs; exact hi.btodo s (by rw [htodo]; simp [allKids, hs])
            -- the context in which the items of the scope are visited
            have hi0 : VInv ⟨(classNameStrict full k (.node (labelStep full lbl f c.st.syms).1 kids)).frame,
                (classNameStrict full k (.node (labelStep full lbl f c.st.syms).1 kids)).children, [],
                c.cur :: c.below, [], c.lastDecl, none, { c.st with syms := (labelStep full lbl f c.st.syms).2 }⟩ := by
              refine ⟨?_, ?_, ?_, ?_⟩
              · intro s hs
                simp only at hs ⊢
                rw [cd] at hs
                rcases ld s hs with h1 | h1
                · exact Nat.lt_of_lt_of_le (hKb s (by simp [Sc.all, h1])) ll
                · exact h1.2
              · intro s hs
                simp only at hs ⊢
                rw [ck] at hs
                exact Nat.lt_of_lt_of_le (hKb s (by simp [Sc.all, hs])) ll
              · intro s hs; simp [allKids] at hs
              · simp only [List.nil_append]
                exact cdisj (by simp only [Sc.SibDisj]; exact hKdisj)
            obtain ⟨hir, hgr⟩ := visitItems_inv full body _ r hr hi0
            obtain ⟨e1, e2, e3, e4, e5, e6, _⟩ := closeList_spec hr2
            unfold popVisit at h
            split at h
            · cases h
            · next cur' below' hbel =>
              split at h
              · cases h
              · next st' hce =>
                cases h
                have hlen' : st'.syms.length = r.st.syms.length := by
                  rw [classEpilogue_length hce]; simp only [pinMembers_length]; exact e6
                have hlr : c.st.syms.length ≤ r.st.syms.length := Nat.le_trans ll hgr.len
                obtain ⟨moved, new, hm, hn, hf⟩ := hgr.kids
                simp only [List.nil_append] at hn
                have hm' : (classNameStrict full k (.node (labelStep full lbl f c.st.syms).1 kids)).children
                    = moved ++ r.todo := hm
                -- the symbols of the visited scope
                have hK' : ∀ s, s ∈ (Sc.node r2.cur r2.done).all → s ∈ (Sc.node f kids).all ∨
                    Fresh c.st.syms.length r.st.syms.length s := by
                  intro s hs
                  rw [e1, e3] at hs
                  simp only [Sc.all, List.mem_append] at hs ⊢
                  rcases hs with hs | hs
                  · rcases hgr.cur s hs with h1 | h1
                    · simp only at h1
                      rw [cd] at h1
                      rcases ld s h1 with h2 | h2
                      · exact Or.inl (Or.inl h2)
                      · exact Or.inr (h2.mono (Nat.le_refl _) hgr.len)
                    · exact Or.inr (h1.mono ll (Nat.le_refl _))
                  · rw [hn] at hs
                    rcases hf s hs with h1 | h1
                    · refine Or.inl (Or.inr ?_)
                      rw [← ck, hm', allKids_append, List.mem_append]; exact Or.inl h1
                    · exact Or.inr (h1.mono ll (Nat.le_refl _))
                have hbelow := hgr.below
                simp only at hbelow
                rw [← e4, hbel] at hbelow
                refine ⟨⟨?_, ?_, ?_, ?_⟩, ⟨by rw [hlen']; exact hlr, ?_, ?_, [Sc.node f kids], [Sc.node r2.cur r2.done],
                  by simp [htodo], rfl, ?_⟩⟩
                · intro s hs
                  simp only at hs ⊢
                  rw [hlen']
                  rcases hbelow.1.2 s hs with h1 | h1
                  · exact Nat.lt_of_lt_of_le (hi.bcur s h1) hlr
                  · exact h1.2
                · intro s hs
                  simp only at hs ⊢
                  rw [hlen']
                  exact Nat.lt_of_lt_of_le (hi.btodo s (by rw [htodo]; simp [allKids, hs])) hlr
                · intro s hs
                  simp only at hs ⊢
                  rw [hlen']
                  rw [allKids_append, List.mem_append, allKids_singleton] at hs
                  rcases hs with hs | hs
                  · exact Nat.lt_of_lt_of_le (hi.bdone s hs) hlr
                  · rcases hK' s hs with h1 | h1
                    · exact Nat.lt_of_lt_of_le (hKb s h1) hlr
                    · exact h1.2
                · simp only [List.append_assoc, List.singleton_append]
                  have hd0 := hi.disj
                  rw [htodo] at hd0
                  refine kidsDisj_replace (n := c.st.syms.length) hd0 ?_ ?_ hi.bdone ?_
                  · simp only [Sc.SibDisj]
                    rw [e3]
                    have := hir.disj
                    rw [kidsDisj_append_iff] at this
                    exact this.1
                  · intro s hs
                    rcases hK' s hs with h1 | h1
                    · exact Or.inl h1
                    · exact Or.inr h1.1
                  · intro s hs; exact hi.btodo s (by rw [htodo]; simp [allKids, hs])
                · intro s hs
                  simp only at hs ⊢
                  rw [hlen']
                  rcases hbelow.1.2 s hs with h1 | h1
                  · exact Or.inl h1
                  · exact Or.inr (h1.mono ll (Nat.le_refl _))
                · simp only; rw [hlen']
                  exact AncRel.mono (fun s h1 => h1.mono ll (Nat.le_refl _)) hbelow.2
                · intro s hs
                  simp only; rw [hlen']
                  rw [allKids_singleton] at hs ⊢
                  exact hK' s hs
theorem visitItems_inv (full : Bool) : ∀ (is : List Item) (c c' : VCtx), visitItems full is c = some c' → VInv c →
    VInv c' ∧ VGrow c c'
  | [], c, c', h, hi => by
    simp only [visitItems] at h; cases h; exact ⟨hi, VGrow.refl _⟩
  | i :: is, c, c', h, hi => by
    simp only [visitItems] at h
    split at h
    · cases h
    · next c1 h1 =>
      obtain ⟨hi1, hg1⟩ := visitItem_inv full i c c1 h1 hi
      obtain ⟨hi2, hg2⟩ := visitItems_inv full is c1 c' h hi1
      exact ⟨hi2, hg1.trans hg2⟩
end

end EsbuildModel.Scopes
