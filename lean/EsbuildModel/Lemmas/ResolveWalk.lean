import EsbuildModel.Impl.ResolveWalk
import EsbuildModel.Lemmas.TsPaths
/-! Helper lemma for Props/C11ResolveWalk.lean: no function of the mutually recursive walk answers `R.panic`
(induction on the fuel; the only source of a panic, matchTSConfigPaths, is total). -/
namespace EsbuildModel.ResolveWalk
open EsbuildModel.NodeExports (Str)
open EsbuildModel.TsPaths (fsJoin Config Outcome matchTable)

theorem ofOption_no_panic (o : Option Res) : R.ofOption o ≠ .panic := by cases o <;> simp [R.ofOption]

theorem walk_never_panics (w : World) : ∀ fuel,
    (∀ a b, resolveWithoutRemapping w fuel a b ≠ .panic) ∧
    (∀ a b, loadNodeModules w fuel a b ≠ .panic) ∧
    (∀ a e l, walkUp w fuel a e l ≠ .panic) ∧
    (∀ a e d, (tryToResolvePackage w fuel a e d).1 ≠ .panic) := by
  intro fuel
  induction fuel with
  | zero =>
    refine ⟨?_, ?_, ?_, ?_⟩ <;> intros <;> simp [resolveWithoutRemapping, loadNodeModules, walkUp, tryToResolvePackage]
  | succ n ih =>
    obtain ⟨ih1, ih2, ih3, ih4⟩ := ih
    refine ⟨?_, ?_, ?_, ?_⟩
    · intro a b
      rw [resolveWithoutRemapping]
      split
      · exact ih2 _ _
      · exact ofOption_no_panic _
    · intro a b
      rw [loadNodeModules]
      have := TsPaths.tsconfigStage_no_panic (loadAsFileOrDirectory w) (tsConfigForDir w b) a (fun _ => .notFound) (by simp)
      split
      · rename_i h; exact absurd h this
      · simp
      · exact ih3 _ _ _
    · intro a e l
      cases l with
      | nil => simp [walkUp]
      | cons d up =>
        rw [walkUp]
        split
        · split
          · rename_i r h; have := ih4 a e (fsJoin d BrowserMap.nodeModulesStr); rw [h] at this; exact this
          · exact ih3 _ _ _
        · exact ih3 _ _ _
    · intro a e d
      rw [tryToResolvePackage.eq_def]
      simp only
      have key : ∀ x y, resolveWithoutRemapping w n x y ≠ .panic := ih1
      split
      · rename_i vb r heq
        repeat' (split at heq)
        all_goals first
          | (rename_i h; exact absurd h (key _ _))
          | (cases heq; done)
          | (cases heq; simp; done)
      · split <;> simp

end EsbuildModel.ResolveWalk
