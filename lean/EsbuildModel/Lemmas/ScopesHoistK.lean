import EsbuildModel.Lemmas.ScopesAbs
import EsbuildModel.Lemmas.ScopesHoist
/-!
hoistSymbols at the level of kinds: while symbols are hoisted, an enclosing scope only ever changes by receiving a
symbol of kind SymbolHoisted under a name it did not have (function / module scopes) or had as a catch identifier /
"arguments".  Consequently whether a scope stops a hoisted `var` with a redeclaration error does not change during the
pass, and an error reported by the walk of hoistSymbols means that some scope on the way is statically "bad".
-/
namespace EsbuildModel.Scopes

/-- the hoisted symbol is merged into the existing one -/
def mergeable (sk : ScK) (ek : SK) : Bool :=
  ek == .unbound || ek == .hoisted || (ek.isFunction && (sk == .entry || sk == .fnBody))
/-- the existing symbol is merged into the hoisted one and the walk goes on -/
def passes (ek : SK) : Bool := ek == .catchIdentifier || ek == .arguments
/-- the walk stops: a collision -/
def badKind (sk : ScK) (ek : SK) : Bool := !mergeable sk ek && !passes ek

def badFor (s : AFrame) (n : Name) : Bool :=
  match alookup n s.mem with
  | none => false
  | some ek => badKind s.kind ek

/-- a `var n` hoisted from below the scopes `anc` (closest first) meets a scope that declares `n` incompatibly, not
later than the scope that stops hoisting -/
def varBlocked (n : Name) : List AFrame → Bool
  | [] => false
  | s :: rest => badFor s n || (!s.kind.stopsHoisting && varBlocked n rest)

theorem symsExt_pinLinks (fuel : Nat) (syms : Syms) (t : Nat) : SymsExt syms (pinLinks fuel syms t) :=
  pinLinks_ind (fun a => SymsExt syms a) (fun a i h => h.trans (SymsExt.pin a i)) fuel syms t (SymsExt.refl _)

theorem symsExt_pinIfWith (f : Frame) (syms : Syms) (i : Nat) : SymsExt syms (pinIfWith f syms i) := by
  unfold pinIfWith; split
  · exact SymsExt.pin _ _
  · exact SymsExt.refl _

/-- an enclosing scope during hoistSymbols, compared with what the parse pass left (`af`) -/
structure HRelF (syms : Syms) (f : Frame) (af : AFrame) : Prop where
  kind : f.kind = af.kind
  strict : f.strict = af.strict
  some_ : ∀ n r, lookup n f.members = some r → ∃ k, infoOf? syms r = some (k, n) ∧
    (alookup n af.mem = some k ∨
      (k = .hoisted ∧ match alookup n af.mem with
        | none => af.kind.stopsHoisting = true
        | some k0 => passes k0 = true))
  none_ : ∀ n, lookup n f.members = none → alookup n af.mem = none

theorem HRelF.ext {a b : Syms} (h : SymsExt a b) {f : Frame} {af : AFrame} (hr : HRelF a f af) : HRelF b f af :=
  ⟨hr.kind, hr.strict, fun n r hl => by
    obtain ⟨k, hk, hd⟩ := hr.some_ n r hl
    exact ⟨k, infoOf_ext h hk, hd⟩, hr.none_⟩

theorem HRelF.of_rel {syms : Syms} {f : Frame} {af : AFrame} (h : RelF syms f af) : HRelF syms f af :=
  ⟨h.kind, h.strict, fun n r hl => by
    obtain ⟨k, hk, ha⟩ := RelM.lookup_some h.mem hl
    exact ⟨k, hk, Or.inl ha⟩, fun n hl => RelM.lookup_none h.mem hl⟩

/-- the kind a scope has for `n` now decides like the kind it had after the parse pass -/
theorem HRelF.bad {syms : Syms} {f : Frame} {af : AFrame} (h : HRelF syms f af) {n : Name} {ex : Nat} {ek : SK}
    (hl : lookup n f.members = some ex) (hk : kindOf? syms ex = some ek) : badKind f.kind ek = badFor af n := by
  obtain ⟨k, hi, hd⟩ := h.some_ n ex hl
  have : ek = k := by
    have := kindOf_of_info hi
    rw [hk] at this; exact Option.some.inj this
  subst this
  unfold badFor
  rcases hd with hd | ⟨hk0, hd⟩
  · rw [hd, h.kind]
  · subst hk0
    split at hd
    · simp [badKind, mergeable]
    · simp [badKind, mergeable, hd]

def HRelA (syms : Syms) : List Frame → List AFrame → Prop
  | [], [] => True
  | f :: fs, a :: as => HRelF syms f a ∧ HRelA syms fs as
  | _, _ => False

theorem HRelA.ext {a b : Syms} (h : SymsExt a b) : ∀ {fs : List Frame} {as : List AFrame}, HRelA a fs as → HRelA b fs as
  | [], [], _ => trivial
  | _ :: _, _ :: _, hr => ⟨hr.1.ext h, HRelA.ext h hr.2⟩
  | [], _ :: _, hr => hr.elim
  | _ :: _, [], hr => hr.elim

theorem lookup_insert (n n' r : Nat) (m : Members) :
    lookup n' (insert n r m) = if n' = n then some r else lookup n' m := by
  split
  · next h => subst h; exact lookup_insert_self _ _ _
  · next h => exact lookup_insert_ne h _

/-- a scope receives the hoisted symbol under `name` -/
theorem HRelF.insert {syms : Syms} {f : Frame} {af : AFrame} (h : HRelF syms f af) {name : Name} {mref : Nat}
    (hm : infoOf? syms mref = some (.hoisted, name))
    (hok : match alookup name af.mem with
      | none => af.kind.stopsHoisting = true
      | some k0 => passes k0 = true ∨ k0 = .hoisted) :
    HRelF syms { f with members := Scopes.insert name mref f.members } af := by
  refine ⟨h.kind, h.strict, ?_, ?_⟩
  · intro n r hl
    simp only [lookup_insert] at hl
    split at hl
    · next hn =>
      subst hn
      cases hl
      refine ⟨.hoisted, hm, ?_⟩
      split at hok
      · exact Or.inr ⟨rfl, hok⟩
      · next k0 ha =>
        rcases hok with hok | hok
        · exact Or.inr ⟨rfl, hok⟩
        · subst hok; exact Or.inl ha
    · exact h.some_ n r hl
  · intro n hl
    simp only [lookup_insert] at hl
    split at hl
    · cases hl
    · exact h.none_ n hl

theorem badKind_of {sk : ScK} {ek : SK}
    (hnm : ¬(ek = .unbound ∨ ek = .hoisted ∨ (ek.isFunction = true ∧ (sk = .entry ∨ sk = .fnBody))))
    (hbad : ek ≠ .catchIdentifier ∧ ek ≠ .arguments) : badKind sk ek = true := by
  simp only [badKind, mergeable, passes, Bool.and_eq_true, Bool.not_eq_true', Bool.or_eq_false_iff,
    beq_eq_false_iff_ne, ne_eq, Bool.and_eq_false_iff]
  simp only [not_or, not_and] at hnm
  refine ⟨⟨⟨hnm.1, hnm.2.1⟩, ?_⟩, hbad.1, hbad.2⟩
  by_cases hf : ek.isFunction = true
  · right
    exact hnm.2.2 hf
  · left; simpa using hf

theorem passes_of {ek : SK} (h : ¬(ek ≠ .catchIdentifier ∧ ek ≠ .arguments)) : passes ek = true := by
  simp only [passes, Bool.or_eq_true, beq_iff_eq]
  by_cases hc : ek = .catchIdentifier
  · exact Or.inl hc
  · right
    by_cases ha : ek = .arguments
    · exact ha
    · exact absurd ⟨hc, ha⟩ h

theorem SymsExt.len {a b : Syms} (h : SymsExt a b) : a.length ≤ b.length := by
  rcases Nat.lt_or_ge b.length a.length with hlt | hge
  · exfalso
    have hi : b.length < a.length := hlt
    obtain ⟨s', e, _⟩ := h b.length (a[b.length]'hi) (by simp [hi])
    rw [List.getElem?_eq_none (Nat.le_refl _)] at e
    cases e
  · exact hge

/-- the walk of hoistSymbols at the level of kinds: the enclosing scopes stay related to what the parse pass left, and
an error means that statically some scope on the way collides with the name -/
theorem hoistUp_kinds (name : Name) (mref orig : Nat) (sl : Bool) :
    ∀ (first : Bool) (anc : List Frame) (aanc : List AFrame) (st : HSt) (anc' : List Frame) (st' : HSt),
    hoistUp name mref orig sl first anc st = some (anc', st') → HRelA st.syms anc aanc →
    infoOf? st.syms mref = some (.hoisted, name) →
    HRelA st'.syms anc' aanc ∧ SymsExt st.syms st'.syms ∧
      (st'.errs = st.errs ∨ (st'.errs = st.errs ++ [name] ∧ sl = false ∧ varBlocked name aanc = true))
  | _, [], _, _, _, _, h, _, _ => by simp [hoistUp] at h
  | _, _ :: _, [], _, _, _, _, hr, _ => hr.elim
  | first, s :: rest, as :: arest, st, anc', st', h, hrel, hm => by
    simp only [hoistUp] at h
    obtain ⟨hs, hrest⟩ := hrel
    -- the `with` step
    have hx1 : SymsExt st.syms (if s.kind = ScK.with_ then { st with syms := pin st.syms mref } else st).syms := by
      split
      · exact SymsExt.pin _ _
      · exact SymsExt.refl _
    have he1 : (if s.kind = ScK.with_ then { st with syms := pin st.syms mref } else st).errs = st.errs := by
      split <;> rfl
    generalize (if s.kind = ScK.with_ then { st with syms := pin st.syms mref } else st) = st1 at h hx1 he1
    have hm1 := infoOf_ext hx1 hm
    have hs1 := hs.ext hx1
    have hrest1 := hrest.ext hx1
    -- the continuation
    have hcont : ∀ (s0 : Frame) (st0 : HSt), HRelF st0.syms s0 as → SymsExt st.syms st0.syms → st0.errs = st.errs →
        (s0.kind.stopsHoisting = true → HRelF st0.syms { s0 with members := Scopes.insert name mref s0.members } as) →
        badFor as name = false →
        (if s0.kind.stopsHoisting = true then some ({ s0 with members := Scopes.insert name mref s0.members } :: rest, st0)
          else match hoistUp name mref orig sl false rest st0 with
            | none => none
            | some (rest', st') => some (s0 :: rest', st')) = some (anc', st') →
        HRelA st'.syms anc' (as :: arest) ∧ SymsExt st.syms st'.syms ∧
          (st'.errs = st.errs ∨ (st'.errs = st.errs ++ [name] ∧ sl = false ∧ varBlocked name (as :: arest) = true)) := by
      intro s0 st0 h0 hx0 he0 hins hnb h
      split at h
      · next hstop =>
        cases h
        exact ⟨⟨hins hstop, hrest.ext hx0⟩, hx0, Or.inl he0⟩
      · next hstop =>
        split at h
        · cases h
        · next rest' st2 hr =>
          cases h
          obtain ⟨r1, r2, r3⟩ := hoistUp_kinds name mref orig sl false rest arest st0 rest' st' hr (hrest.ext hx0)
            (infoOf_ext hx0 hm)
          refine ⟨⟨h0.ext r2, r1⟩, hx0.trans r2, ?_⟩
          rw [he0] at r3
          rcases r3 with r3 | ⟨r3, r4, r5⟩
          · exact Or.inl r3
          · refine Or.inr ⟨r3, r4, ?_⟩
            simp only [varBlocked, hnb, Bool.false_or, Bool.and_eq_true, Bool.not_eq_true']
            rw [← h0.kind]
            exact ⟨by simpa using hstop, r5⟩
    cases hl : lookup name s.members with
    | none =>
      rw [hl] at h
      simp only at h
      have hna := hs.none_ name hl
      refine hcont s st1 hs1 hx1 he1 ?_ (by simp [badFor, hna]) h
      intro hstop
      exact hs1.insert hm1 (by rw [hna]; rw [← hs.kind]; exact hstop)
    | some ex =>
      rw [hl] at h
      simp only at h
      obtain ⟨ek, hek, hdev⟩ := hs1.some_ name ex hl
      have hk1 : kindOf? st1.syms ex = some ek := kindOf_of_info hek
      have hkm : kindOf? st1.syms mref = some .hoisted := kindOf_of_info hm1
      rw [hk1, hkm] at h
      cases hab : argBlocks sl name ex s rest with
      | none => rw [hab] at h; simp at h
      | some blocked =>
        rw [hab] at h
        simp only at h
        split at h
        · cases h
          exact ⟨⟨hs1, hrest1⟩, hx1, Or.inl he1⟩
        · split at h
          · -- merged into the existing symbol
            cases h
            have hx2 : SymsExt st1.syms
                (setLink (if isPinned st1.syms mref = true then pinLinks (st1.syms.length + 1) st1.syms ex else st1.syms)
                  mref (some ex)) := by
              split
              · exact (symsExt_pinLinks _ _ _).trans (SymsExt.setLink _ _ _)
              · exact SymsExt.setLink _ _ _
            refine ⟨⟨?_, hrest1.ext hx2⟩, hx1.trans hx2, Or.inl he1⟩
            rw [insert_same hl]
            exact hs1.ext hx2
          · next hnm =>
            split at h
            · next hbad =>
              -- a collision
              have hb : badFor as name = true := by
                rw [← hs1.bad hl hk1]
                exact badKind_of hnm hbad
              simp only [ne_eq, reduceCtorEq, not_false_eq_true, and_self, if_true] at h
              split at h
              · next hsl =>
                cases h
                refine ⟨⟨hs1, hrest1⟩, hx1, Or.inr ⟨by simp [he1], by simpa using hsl, ?_⟩⟩
                simp [varBlocked, hb]
              · split at h <;> cases h <;> exact ⟨⟨hs1, hrest1⟩, hx1, Or.inl he1⟩
            · next hpass =>
              -- a catch identifier or "arguments": the existing symbol is merged into the hoisted one
              have hp : passes ek = true := passes_of hpass
              have hx2 : SymsExt st1.syms
                  (setLink (if ek = SK.arguments then pin st1.syms mref else st1.syms) ex (some mref)) := by
                split
                · exact (SymsExt.pin _ _).trans (SymsExt.setLink _ _ _)
                · exact SymsExt.setLink _ _ _
              have hstat : alookup name as.mem = some ek ∨ ek = .hoisted := by
                rcases hdev with hd | ⟨hd, _⟩
                · exact Or.inl hd
                · exact Or.inr hd
              have hstat' : alookup name as.mem = some ek := by
                rcases hstat with hd | hd
                · exact hd
                · subst hd; simp [passes] at hp
              have hins : HRelF (setLink (if ek = SK.arguments then pin st1.syms mref else st1.syms) ex (some mref))
                  { s with members := Scopes.insert name mref s.members } as :=
                (hs1.ext hx2).insert (infoOf_ext hx2 hm1) (by rw [hstat']; exact Or.inl hp)
              refine hcont { s with members := Scopes.insert name mref s.members }
                { st1 with syms := setLink (if ek = SK.arguments then pin st1.syms mref else st1.syms) ex (some mref) }
                hins (hx1.trans hx2) he1 ?_
                (by simp [badFor, hstat', badKind, hp]) h
              intro _
              have : ({ s with members := Scopes.insert name mref s.members } : Frame) =
                  { ({ s with members := Scopes.insert name mref s.members } : Frame) with
                    members := Scopes.insert name mref (Scopes.insert name mref s.members) } := by
                simp only [insert_same (lookup_insert_self name mref s.members)]
              rw [← this]
              exact hins

-- the static error conditions of hoistSymbols -----------------------------------------------------------------------

/-- the duplicate function check -/
def e2 (esm isRoot : Bool) (af : AFrame) : Bool :=
  ((af.strict != 0 && af.kind == .block) || (isRoot && esm)) &&
    af.replaced.any (fun p => p.2.isFunction && (match alookup p.1 af.mem with | some k => k.isFunction | none => false))

/-- a member of the scope that is not a `var` has the name of a member of the enclosing catch scope -/
def e3 (af parent : AFrame) : Bool :=
  parent.kind == .catchBinding && af.mem.any (fun p => p.2 != .hoisted && (alookup p.1 parent.mem).isSome)

/-- a `var` of the scope cannot be hoisted -/
def e4 (af : AFrame) (aanc : List AFrame) : Bool :=
  af.mem.any (fun p => p.2 == .hoisted && varBlocked p.1 aanc)

/-- `e3` against the closest enclosing scope -/
def e3Top (af : AFrame) : List AFrame → Bool
  | p :: _ => e3 af p
  | [] => false

mutual
/-- hoistSymbols reports an error somewhere in the tree (decided on what the parse pass left) -/
def AT.staticErr (esm : Bool) (aanc : List AFrame) : AT → Bool
  | .node af kids =>
    e2 esm aanc.isEmpty af ||
      (!af.kind.stopsHoisting && (e3Top af aanc || e4 af aanc)) ||
      kidsStaticErr esm (af :: aanc) kids
def kidsStaticErr (esm : Bool) (aanc : List AFrame) : List AT → Bool
  | [] => false
  | k :: ks => k.staticErr esm aanc || kidsStaticErr esm aanc ks
end

theorem alookup_mem {n : Name} {k : SK} : ∀ {am : AMembers}, alookup n am = some k → (n, k) ∈ am
  | [], h => by simp [alookup] at h
  | (n1, k1) :: rest, h => by
    simp only [alookup] at h
    split at h
    · next hx => cases h; subst hx; simp
    · exact List.mem_cons_of_mem _ (alookup_mem h)

theorem isHoisted_cases {k : SK} (h : ¬((!k.isHoisted) = true)) (hnf : ¬ k = .hoistedFunction) : k = .hoisted := by
  cases k <;> simp_all [SK.isHoisted]

/-- one iteration of the member loop -/
theorem hoistMember_kinds {anc anc' : List Frame} {aanc : List AFrame} {f f' : Frame} {af : AFrame} {st st' : HSt}
    {mref : Nat} {n : Name} {k : SK}
    (h : hoistMember anc f st mref = some (anc', f', st')) (hrel : HRelA st.syms anc aanc)
    (hf : RelF st.syms f af) (hm : infoOf? st.syms mref = some (k, n)) (hkmem : (n, k) ∈ af.mem) :
    HRelA st'.syms anc' aanc ∧ SymsExt st.syms st'.syms ∧ RelF st'.syms f' af ∧
    (st'.errs = st.errs ∨ (∃ x, st'.errs = st.errs ++ [x]) ∧
      (!af.kind.stopsHoisting → (e3Top af aanc || e4 af aanc) = true)) := by
  unfold hoistMember at h
  have hsym : ∃ sym, st.syms[mref]? = some sym ∧ sym.kind = k ∧ sym.name = n := by
    unfold infoOf? at hm
    cases hs : st.syms[mref]? with
    | none => rw [hs] at hm; cases hm
    | some sym =>
      rw [hs] at hm
      simp only [Option.map_some, Option.some.injEq, Prod.mk.injEq] at hm
      exact ⟨sym, rfl, hm.1, hm.2⟩
  obtain ⟨sym, hsym, hsk, hsn⟩ := hsym
  rw [hsym] at h
  cases anc with
  | nil => simp at h
  | cons p prest =>
    cases aanc with
    | nil => exact hrel.elim
    | cons ap aprest =>
      simp only at h
      split at h
      · next hc =>
        -- the catch collision
        cases h
        refine ⟨hrel, SymsExt.refl _, hf, Or.inr ⟨⟨sym.name, rfl⟩, ?_⟩⟩
        intro _
        simp only [Bool.or_eq_true]
        left
        simp only [e3Top, e3, Bool.and_eq_true, beq_iff_eq, List.any_eq_true, bne_iff_ne, ne_eq]
        refine ⟨hrel.1.kind ▸ hc.1, (n, k), hkmem, hsk ▸ hc.2.1, ?_⟩
        have := hc.2.2
        rw [hsn] at this
        cases hl : lookup n p.members with
        | none => rw [hl] at this; simp at this
        | some r =>
          obtain ⟨k2, _, hd⟩ := hrel.1.some_ n r hl
          rcases hd with hd | ⟨_, hd⟩
          · simp [hd]
          · split at hd
            · next hn =>
              -- a catch scope does not stop hoisting
              rw [← hrel.1.kind, hc.1] at hd
              simp [ScK.stopsHoisting] at hd
            · next k0 hn => simp [hn]
      · split at h
        · cases h; exact ⟨hrel, SymsExt.refl _, hf, Or.inl rfl⟩
        · next hnh =>
          split at h
          · split at h
            · cases h; exact ⟨hrel, SymsExt.refl _, hf, Or.inl rfl⟩
            · -- a sloppy block-level function: a fresh symbol is hoisted; no error is ever reported
              simp only [newSymbol] at h
              split at h
              · cases h
              · next anc1 st1 hu =>
                cases h
                have hx00 : SymsExt st.syms (st.syms ++ [⟨.hoisted, sym.name, none, false⟩]) := SymsExt.append _ _
                have hxp := symsExt_pinIfWith f (st.syms ++ [⟨.hoisted, sym.name, none, false⟩]) st.syms.length
                have hx0 := hx00.trans hxp
                obtain ⟨r1, r2, r3⟩ := hoistUp_kinds _ _ _ _ _ _ (ap :: aprest) _ _ _ hu (hrel.ext hx0)
                  (by have := infoOf_ext hxp (infoOf_new st.syms SK.hoisted sym.name); rw [hsn] at this ⊢; exact this)
                refine ⟨r1, hx0.trans r2, ⟨hf.kind, hf.strict, (hf.mem.ext hx0).ext r2, (hf.rep.ext hx0).ext r2⟩, Or.inl ?_⟩
                rcases r3 with r3 | ⟨_, r4, _⟩
                · exact r3
                · cases r4
          · next hnf =>
            split at h
            · cases h
            · next anc1 st1 hu =>
              cases h
              have hkh : k = .hoisted := by
                rw [← hsk]
                exact isHoisted_cases hnh hnf
              subst hkh
              have hxp := symsExt_pinIfWith f st.syms mref
              obtain ⟨r1, r2', r3⟩ := hoistUp_kinds _ _ _ _ _ _ (ap :: aprest) _ _ _ hu (hrel.ext hxp)
                (by rw [hsn]; exact infoOf_ext hxp hm)
              have r2 := hxp.trans r2'
              refine ⟨r1, r2, hf.ext r2, ?_⟩
              rcases r3 with r3 | ⟨r3, _, r5⟩
              · exact Or.inl r3
              · refine Or.inr ⟨⟨sym.name, r3⟩, ?_⟩
                intro _
                simp only [Bool.or_eq_true]
                right
                simp only [e4, List.any_eq_true, Bool.and_eq_true, beq_iff_eq]
                exact ⟨(n, .hoisted), hkmem, rfl, hsn ▸ r5⟩

theorem RelM.mem_ref {syms : Syms} {r : Nat} : ∀ {m : Members} {am : AMembers}, RelM syms m am → r ∈ refsOf m →
    ∃ n k, infoOf? syms r = some (k, n) ∧ (n, k) ∈ am
  | [], [], _, h => by simp [refsOf] at h
  | [], _ :: _, hr, _ => by simp [RelM] at hr
  | _ :: _, [], hr, _ => by simp [RelM] at hr
  | (n1, r1) :: m, (n2, k) :: am, hr, h => by
    simp only [RelM, List.map_cons, List.cons.injEq, Prod.mk.injEq] at hr
    obtain ⟨⟨hn, hk⟩, hrest⟩ := hr
    subst hn
    simp only [refsOf, List.map_cons, List.mem_cons] at h
    rcases h with h | h
    · subst h; exact ⟨n1, k, hk, by simp⟩
    · obtain ⟨n, k', h1, h2⟩ := RelM.mem_ref (m := m) (am := am) hrest (by simpa [refsOf] using h)
      exact ⟨n, k', h1, List.mem_cons_of_mem _ h2⟩

/-- the member loop: errors are appended; any error means a static error condition of the scope -/
theorem hoistMembers_kinds : ∀ (ms : List Nat) {anc anc' : List Frame} {aanc : List AFrame} {f f' : Frame} {af : AFrame}
    {st st' : HSt}, hoistMembers anc f st ms = some (anc', f', st') → HRelA st.syms anc aanc → RelF st.syms f af →
    (∀ m, m ∈ ms → m ∈ refsOf f.members) →
    HRelA st'.syms anc' aanc ∧ SymsExt st.syms st'.syms ∧ RelF st'.syms f' af ∧
    ∃ es, st'.errs = st.errs ++ es ∧
      (es ≠ [] → !af.kind.stopsHoisting → (e3Top af aanc || e4 af aanc) = true)
  | [], anc, anc', aanc, f, f', af, st, st', h, hrel, hf, _ => by
    simp only [hoistMembers] at h
    cases h
    exact ⟨hrel, SymsExt.refl _, hf, [], by simp, fun h => absurd rfl h⟩
  | m :: ms, anc, anc', aanc, f, f', af, st, st', h, hrel, hf, hms => by
    simp only [hoistMembers] at h
    split at h
    · cases h
    · next a1 f1 s1 h1 =>
      obtain ⟨n, k, hi, hk⟩ := RelM.mem_ref hf.mem (hms m (by simp))
      obtain ⟨r1, r2, r3, r4⟩ := hoistMember_kinds h1 hrel hf hi hk
      have hmem1 : f1.members = f.members := (hoistMember_spec h1 (hms m (by simp))).mem
      obtain ⟨q1, q2, q3, es, q4, q5⟩ := hoistMembers_kinds ms h r1 r3 (fun x hx => hmem1 ▸ hms x (by simp [hx]))
      refine ⟨q1, r2.trans q2, q3, ?_⟩
      rcases r4 with r4 | ⟨⟨x, r4⟩, r5⟩
      · exact ⟨es, by rw [q4, r4], q5⟩
      · exact ⟨x :: es, by rw [q4, r4]; simp, fun _ => r5⟩

theorem dupFnErrs_kinds {syms : Syms} {f : Frame} {af : AFrame} (hf : RelF syms f af) :
    ∀ (rs : List Nat) (ar : List (Name × SK)) (es : List Name), RelR syms rs ar → dupFnErrs f syms rs = some es → es ≠ [] →
    ar.any (fun p => p.2.isFunction && (match alookup p.1 af.mem with | some k => k.isFunction | none => false)) = true
  | [], _, es, _, h, hne => by
    simp only [dupFnErrs, Option.some.injEq] at h
    exact absurd h.symm hne
  | _ :: _, [], _, hr, _, _ => by simp [RelR] at hr
  | r :: rs, (n, k) :: ar, es, hr, h, hne => by
    simp only [RelR, List.map_cons, List.cons.injEq] at hr
    obtain ⟨hinfo, hrest⟩ := hr
    have hsym : ∃ sym, syms[r]? = some sym ∧ sym.kind = k ∧ sym.name = n := by
      unfold infoOf? at hinfo
      cases hs : syms[r]? with
      | none => rw [hs] at hinfo; cases hinfo
      | some sym =>
        rw [hs] at hinfo
        simp only [Option.map_some, Option.some.injEq, Prod.mk.injEq] at hinfo
        exact ⟨sym, rfl, hinfo.1, hinfo.2⟩
    obtain ⟨sym, hsym, hsk, hsn⟩ := hsym
    simp only [dupFnErrs, hsym] at h
    simp only [List.any_cons, Bool.or_eq_true]
    cases hrec : dupFnErrs f syms rs with
    | none => rw [hrec] at h; simp at h
    | some es0 =>
      rw [hrec] at h
      simp only at h
      by_cases hes0 : es0 = []
      · left
        subst hes0
        split at h
        · next hfn =>
          rw [hsk] at hfn
          rw [hsn] at h
          cases hl : lookup n f.members with
          | none =>
            rw [hl] at h
            simp only [Option.some.injEq] at h
            exact absurd h.symm hne
          | some mref =>
            rw [hl] at h
            obtain ⟨mk, hmi, hma⟩ := RelM.lookup_some hf.mem hl
            simp only [kindOf_of_info hmi] at h
            split at h
            · next hmf => simp [hfn, hma, hmf]
            · cases h; exact absurd rfl hne
        · cases h; exact absurd rfl hne
      · right
        exact dupFnErrs_kinds hf rs ar es0 hrest hrec hes0

theorem HRelA.isEmpty {syms : Syms} : ∀ {anc : List Frame} {aanc : List AFrame}, HRelA syms anc aanc →
    (anc = [] ↔ aanc = [])
  | [], [], _ => by simp
  | _ :: _, _ :: _, _ => by simp
  | [], _ :: _, h => h.elim
  | _ :: _, [], h => h.elim

mutual
/-- hoistSymbols on a subtree: the errors it reports are appended, and if there are any then the static error
condition of the subtree (under the static enclosing scopes) holds -/
theorem hoistSc_kinds (esm : Bool) : ∀ (sc : Sc) (at_ : AT) (anc : List Frame) (aanc : List AFrame) (st : HSt)
    (anc' : List Frame) (sc' : Sc) (st' : HSt),
    hoistSc esm anc sc st = some (anc', sc', st') → RelT st.syms sc at_ → HRelA st.syms anc aanc →
    HRelA st'.syms anc' aanc ∧ SymsExt st.syms st'.syms ∧
      ∃ es, st'.errs = st.errs ++ es ∧ (es ≠ [] → at_.staticErr esm aanc = true)
  | .node f kids, .node af akids, anc, aanc, st, anc', sc', st', h, hrt, hrel => by
    simp only [RelT] at hrt
    obtain ⟨hf, hkids⟩ := hrt
    simp only [hoistSc] at h
    split at h
    · cases h
    · next es0 hdup =>
      -- the duplicate function check
      have hdupk : es0 ≠ [] → e2 esm aanc.isEmpty af = true := by
        intro hne
        split at hdup
        · next hcond =>
          have := dupFnErrs_kinds hf _ _ _ hf.rep hdup hne
          simp only [e2, Bool.and_eq_true, this, and_true, Bool.or_eq_true, bne_iff_ne, ne_eq, beq_iff_eq,
            List.isEmpty_iff]
          rcases hcond with hc | hc
          · left; exact ⟨hf.strict ▸ hc.1, hf.kind ▸ hc.2⟩
          · right; exact ⟨(HRelA.isEmpty hrel).mp hc.1, hc.2⟩
        · cases hdup; exact absurd rfl hne
      split at h
      · cases h
      · next anc1 f1 st2 hr =>
        have hstep : HRelA st2.syms anc1 aanc ∧ SymsExt st.syms st2.syms ∧ RelF st2.syms f1 af ∧
            ∃ es1, st2.errs = st.errs ++ es0 ++ es1 ∧
              (es1 ≠ [] → !af.kind.stopsHoisting → (e3Top af aanc || e4 af aanc) = true) := by
          split at hr
          · cases hr
            exact ⟨hrel, SymsExt.refl _, hf, [], by simp, fun h => absurd rfl h⟩
          · have hms : ∀ m, m ∈ sortRefs (f.members.map (·.2)) → m ∈ refsOf f.members := fun m hm => by
              have := mem_sortRefs hm; simpa [refsOf] using this
            obtain ⟨q1, q2, q3, es1, q4, q5⟩ := hoistMembers_kinds (st := { st with errs := st.errs ++ es0 }) _ hr hrel hf hms
            exact ⟨q1, q2, q3, es1, q4, q5⟩
        obtain ⟨r1, r2, r3, es1, r4, r5⟩ := hstep
        split at h
        · next f2 anc2 kids' st3 hk =>
          cases h
          obtain ⟨k1, k2, es2, k3, k4⟩ := hoistKids_kinds esm kids akids (f1 :: anc1) (af :: aanc) st2 (f2 :: anc') kids' st' hk
            (RelTs.ext r2 hkids) ⟨HRelF.of_rel r3, r1⟩
          refine ⟨k1.2, r2.trans k2, es0 ++ es1 ++ es2, by rw [k3, r4]; simp, ?_⟩
          intro hne
          simp only [AT.staticErr, Bool.or_eq_true, Bool.and_eq_true]
          by_cases h0 : es0 = []
          · by_cases h1 : es1 = []
            · right
              apply k4
              intro h2; apply hne; simp [h0, h1, h2]
            · left; right
              have hns : (!af.kind.stopsHoisting) = true := by
                -- the member loop ran
                cases hstop : af.kind.stopsHoisting with
                | false => rfl
                | true =>
                  exfalso
                  rw [← hf.kind] at hstop
                  rw [if_pos hstop] at hr
                  cases hr
                  apply h1
                  have : st.errs ++ es0 = st.errs ++ es0 ++ es1 := r4
                  have := List.append_cancel_left (as := st.errs ++ es0) (bs := []) (cs := es1) (by simpa using this)
                  exact this.symm
              exact ⟨hns, by simpa using r5 h1 hns⟩
          · left; left; exact hdupk h0
        · cases h
theorem hoistKids_kinds (esm : Bool) : ∀ (ks : List Sc) (aks : List AT) (anc : List Frame) (aanc : List AFrame) (st : HSt)
    (anc' : List Frame) (ks' : List Sc) (st' : HSt),
    hoistKids esm anc ks st = some (anc', ks', st') → RelTs st.syms ks aks → HRelA st.syms anc aanc →
    HRelA st'.syms anc' aanc ∧ SymsExt st.syms st'.syms ∧
      ∃ es, st'.errs = st.errs ++ es ∧ (es ≠ [] → kidsStaticErr esm aanc aks = true)
  | [], [], anc, aanc, st, anc', ks', st', h, _, hrel => by
    simp only [hoistKids] at h
    cases h
    exact ⟨hrel, SymsExt.refl _, [], by simp, fun h => absurd rfl h⟩
  | [], _ :: _, _, _, _, _, _, _, _, hr, _ => by simp [RelTs] at hr
  | _ :: _, [], _, _, _, _, _, _, _, hr, _ => by simp [RelTs] at hr
  | k :: ks, ak :: aks, anc, aanc, st, anc', ks', st', h, hrt, hrel => by
    simp only [RelTs] at hrt
    simp only [hoistKids] at h
    split at h
    · cases h
    · next anc1 k' st1 h1 =>
      split at h
      · cases h
      · next anc2 ks2 st2 h2 =>
        cases h
        obtain ⟨a1, a2, es1, a3, a4⟩ := hoistSc_kinds esm k ak anc aanc st anc1 k' st1 h1 hrt.1 hrel
        obtain ⟨b1, b2, es2, b3, b4⟩ := hoistKids_kinds esm ks aks anc1 aanc st1 anc' ks2 st' h2 (RelTs.ext a2 hrt.2) a1
        refine ⟨b1, a2.trans b2, es1 ++ es2, by rw [b3, a3]; simp, ?_⟩
        intro hne
        simp only [kidsStaticErr, Bool.or_eq_true]
        by_cases h1e : es1 = []
        · right; apply b4; intro h2e; apply hne; simp [h1e, h2e]
        · left; exact a4 h1e
end

end EsbuildModel.Scopes
